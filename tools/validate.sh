#!/bin/bash
# validates MANIFEST.json and every evidence file against the schemas
cd "$(dirname "$0")/.." && python3-vt - <<'PY'
import json,jsonschema,glob,sys
ok=True
jsonschema.validate(json.load(open('MANIFEST.json')), json.load(open('/root/.vp/MANIFEST.schema.json')))
es=json.load(open('/root/.vp/EVIDENCE.schema.json'))
for f in sorted(glob.glob('evidence/*.json')):
    try: jsonschema.validate(json.load(open(f)), es)
    except Exception as e: ok=False; print('INVALID',f,str(e)[:300])
print('manifest valid; evidence', 'all valid' if ok else 'HAS INVALID FILES')
sys.exit(0 if ok else 1)
PY
