#!/bin/bash
# usage: tools/runall.sh <tier> <seed> <ID>...   – runs the checks one after another, prints a summary line each
tier=${1:-quick}; seed=${2:-1}; shift; shift
cd "$(dirname "$0")/.."
for id in "$@"; do
  s=$(date +%s)
  out=$(VERIF_SEED=$seed ./check $id $tier 2>&1); rc=$?
  e=$(date +%s)
  kf=$(echo "$out" | grep -c '^KNOWN-FINDING')
  vi=$(echo "$out" | grep -c '^VIOLATION')
  echo "$id rc=$rc wall=$((e-s))s known=$kf viol=$vi | $(echo "$out" | tail -1 | cut -c1-150)"
  if [ $rc -ne 0 ]; then echo "$out" | grep -E "^VIOLATION|key=|INCONCLUSIVE" | head -6; fi
done
