#!/usr/bin/env python3
"""Prints the 'findings' part of DESIGN.md section 7 from known_findings.json (fixed), known_findings.d (known),
the MUTATIONS.md files and seeded/RESULTS.md."""
import json, glob, os, re, subprocess
V = os.path.dirname(os.path.dirname(os.path.abspath(__file__)))
fixed = [f for f in json.load(open(V+'/known_findings.json'))['findings'] if f['status']=='fixed']
log = subprocess.run(['git','-C','/repo','log','--format=%h %s'],capture_output=True,text=True).stdout.splitlines()
subj = {l.split()[0]: l.split(' ',1)[1] for l in log}
print("### 7.6 Genuine defects found in gouroboros\n")
print("Every entry below was first shown by a check as a failing input / schedule / history against the real code (the witness is in the\nreplay file or in the entry of the known-findings file), then triaged: small and safe repairs became one `fix:` commit each (the pinned\nsuite, unedited, passes with the guard off after every one of them; the check that found the defect passes on the repaired tree and\nwould report it again), the rest are known findings.\n")
print("**Fixed (`fix:` commits in /repo, recorded as `fixed:` lines in /verif/known_findings.json – they suppress nothing):**\n")
print("| property | commit | what failed |")
print("|---|---|---|")
seen=set()
for f in fixed:
    k=(f['property'],f['commit'])
    if k in seen: continue
    seen.add(k)
    print("| %s | `%s` %s | %s |" % (f['property'], f['commit'], subj.get(f['commit'],'').replace('|','/'), f['what'].replace('|','/')))
n_commits=len(set(f['commit'] for f in fixed))
print("\n(%d fix commits; several repair more than one property's finding.)\n" % n_commits)
print("**Known findings (listed key by key in /verif/known_findings.d/CNN.json; the check prints `KNOWN-FINDING:` for exactly these keys and still\nraises a VIOLATION for any other key of the same property):**\n")
print("| property | keys | what fails | why not repaired here |")
print("|---|---|---|---|")
why = {
 'C04': "the CBOR library decodes null / undefined into the zero value of any non-pointer field; rejecting it needs a change in every message decoder or in the shared receive path, where some messages legitimately carry null – not a small patch",
 'C21': "`WithPipelineLimit(0)` is replaced by the default (75): a commented design decision (Go zero-value idiom); arguable, left to the maintainers",
 'C26': "an explicitly encoded `invalid_hereafter = 0` is indistinguishable from an absent one because the body fields are `uint64` with omitempty; repairing it changes exported struct field types in six eras",
 'C27': "mint under the all-zero policy id is skipped / counted as coin; the repository's own test `TestUtxoValidateValueNotConservedUtxo/minting` asserts this behaviour, so a repair cannot keep the pinned suite passing unedited",
 'C37': "negative active-slot coefficient returns (0, nil): the repository's test `TestCertifiedNatThresholdActiveSlotCoeffNegative` asserts it; the escalation cap for f next to an integer needs a redesign of the precision schedule",
 'C41': "`compareDensity` picks the metric per pair, so mixing windowed and plain tips gives a cyclic preference; needs a design decision (one metric per candidate set, or documenting that kinds must not be mixed)",
 'C45': "reward arithmetic in float64 over-assigns / wraps for pots above ~2^52 lovelace; the repair is a rewrite in big.Int / big.Rat",
}
for p in sorted(glob.glob(V+'/known_findings.d/*.json')):
    d=json.load(open(p)); prop=os.path.basename(p)[:-5]
    keys=[f['key'] for f in d['findings']]
    what=d['findings'][0]['what']
    ks=", ".join("`%s`"%k for k in keys[:4]) + (" … (%d keys)"%len(keys) if len(keys)>4 else "")
    print("| %s | %s | %s | %s |" % (prop, ks, what.replace('|','/')[:300], why.get(prop,'')))
print()
print("### 7.7 Mutation validation of the monitors\n")
print("Every monitor was pointed (`VERIF_REPO=<scratch worktree>`) at 3–9 hand-made breaks of its property that compile and mostly pass the\nrepository's own tests; the outcome per break, with the violation key that caught it, is in `harness/mon/cNN/MUTATIONS.md`. Breaks that left no\ntrace led to stronger workloads (recorded in the same files) or are listed there as equivalent / out of reach with the reason.\n")
tot=0; files=0
for f in sorted(glob.glob(V+'/harness/mon/c*/MUTATIONS.md')):
    files+=1
    tot+=len(re.findall(r'^\|\s*[A-Za-z]*[0-9]+[a-z\']*\s*\|', open(f).read(), re.M))
print("%d MUTATIONS.md files, about %d recorded mutants.\n" % (files, tot))
print("### 7.8 Independently seeded changes\n")
print("For each property a fresh sub-agent that saw only the property text (nothing from /verif) produced, in its own scratch worktree, a change\nthat breaks the property, compiles and passes the existing suite, plus a demonstration that fails with the change and passes without. Each was\nconfirmed again in a fresh worktree (`tools/seedconfirm.sh`: demo passes on HEAD, patch applies, `go build`, existing tests of the touched\npackages, demo fails) and filed as `/verif/seeded/<id>/{patch.diff, demo/, NOTES.md, meta.json}`. `tools/seedeval.sh` applies a seeded patch to a\nscratch worktree of /repo's HEAD and runs the checks against it (equivalent to `git -C /repo apply` + run + `git checkout`, without disturbing\nconcurrent users of /repo). Result of the last sweep (`tools/seedsweep.sh`, quick tier, seed 1):\n")
r=V+'/seeded/RESULTS.md'
if os.path.exists(r): print(open(r).read())
