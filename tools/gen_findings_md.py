#!/usr/bin/env python3
"""Prints the 'findings' part of DESIGN.md section 7 from known_findings.json (fixed), known_findings.d (known),
the MUTATIONS.md files and seeded/RESULTS.md."""
import json, glob, os, re, subprocess
V = os.path.dirname(os.path.dirname(os.path.abspath(__file__)))
fixed = [f for f in json.load(open(V+'/known_findings.json'))['findings'] if f['status']=='fixed']
log = subprocess.run(['git','-C','/repo','log','--format=%h %s'],capture_output=True,text=True).stdout.splitlines()
subj = {l.split()[0]: l.split(' ',1)[1] for l in log}
print("### 7.6 Genuine defects found in gouroboros\n")
print("Every entry below was first shown by a check as a failing input / schedule / history against the real code (the witness is in the\nreplay file or in the entry of the known-findings file), then triaged: small and safe repairs became one `fix:` commit each (the pinned\nsuite, unedited, passes with the guard off after every one of them; the check that found the defect passes on the repaired tree and\nwould report it again), the rest are known findings.\n")
print("**Fixed (`fix:` commits in /repo, recorded as `fixed:` lines in /verif/known_findings.json – they suppress nothing):**\n")
print("| property | commit | what failed |")
print("|---|---|---|")
seen=set()
for f in fixed:
    k=(f['property'],f['commit'])
    if k in seen: continue
    seen.add(k)
    print("| %s | `%s` %s | %s |" % (f['property'], f['commit'], subj.get(f['commit'],'').replace('|','/'), f['what'].replace('|','/')))
n_commits=len(set(f['commit'] for f in fixed))
print("\n(%d fix commits; several repair more than one property's finding.)\n" % n_commits)
print("**Known findings (listed key by key in /verif/known_findings.d/CNN.json; the check prints `KNOWN-FINDING:` for exactly these keys and still\nraises a VIOLATION for any other key of the same property):**\n")
print("| property | keys | what fails | why not repaired here |")
print("|---|---|---|---|")
why = {
 'C04': "the CBOR library decodes null / undefined into the zero value of any non-pointer field; rejecting it needs a change in every message decoder or in the shared receive path, where some messages legitimately carry null – not a small patch",
 'C21': "`WithPipelineLimit(0)` is replaced by the default (75): a commented design decision (Go zero-value idiom); arguable, left to the maintainers",
 'C26': "an explicitly encoded `invalid_hereafter = 0` is indistinguishable from an absent one because the body fields are `uint64` with omitempty; repairing it changes exported struct field types in six eras",
 'C27': "mint under the all-zero policy id is skipped / counted as coin; the repository's own test `TestUtxoValidateValueNotConservedUtxo/minting` asserts this behaviour, so a repair cannot keep the pinned suite passing unedited",
 'C37': "negative active-slot coefficient returns (0, nil): the repository's test `TestCertifiedNatThresholdActiveSlotCoeffNegative` asserts it; the escalation cap for f next to an integer needs a redesign of the precision schedule",
 'C41': "`compareDensity` picks the metric per pair, so mixing windowed and plain tips gives a cyclic preference; needs a design decision (one metric per candidate set, or documenting that kinds must not be mixed)",
 'C45': "reward arithmetic in float64 over-assigns / wraps for pots above ~2^52 lovelace; the repair is a rewrite in big.Int / big.Rat",
}
for p in sorted(glob.glob(V+'/known_findings.d/*.json')):
    d=json.load(open(p)); prop=os.path.basename(p)[:-5]
    keys=[f['key'] for f in d['findings']]
    what=d['findings'][0]['what']
    ks=", ".join("`%s`"%k for k in keys[:4]) + (" … (%d keys)"%len(keys) if len(keys)>4 else "")
    print("| %s | %s | %s | %s |" % (prop, ks, what.replace('|','/')[:300], why.get(prop,'')))
print()
print("### 7.7 Mutation validation of the monitors\n")
print("Every monitor was pointed (`VERIF_REPO=<scratch worktree>`) at 3–9 hand-made breaks of its property that compile and mostly pass the\nrepository's own tests; the outcome per break, with the violation key that caught it, is in `harness/mon/cNN/MUTATIONS.md`. Breaks that left no\ntrace led to stronger workloads (recorded in the same files) or are listed there as equivalent / out of reach with the reason.\n")
tot=0; files=0
for f in sorted(glob.glob(V+'/harness/mon/c*/MUTATIONS.md')):
    files+=1
    tot+=len(re.findall(r'^\|\s*[A-Za-z]*[0-9]+[a-z\']*\s*\|', open(f).read(), re.M))
print("%d MUTATIONS.md files, about %d recorded mutants.\n" % (files, tot))
print("### 7.8 Independently seeded changes\n")
print("For each property a fresh sub-agent that saw only the property text (nothing from /verif) produced, in its own scratch worktree, a change\nthat breaks the property, compiles and passes the existing suite, plus a demonstration that fails with the change and passes without. Each was\nconfirmed again in a fresh worktree (`tools/seedconfirm.sh`: demo passes on HEAD, patch applies, `go build`, existing tests of the touched\npackages, demo fails) and filed as `/verif/seeded/<id>/{patch.diff, demo/, NOTES.md, meta.json}`. `tools/seedeval.sh` applies a seeded patch to a\nscratch worktree of /repo's HEAD and runs the checks against it (equivalent to `git -C /repo apply` + run + `git checkout`, without disturbing\nconcurrent users of /repo). Result of the last sweep (`tools/seedsweep.sh`, quick tier, seed 1):\n")
print("""Seeding was done in rounds (`seeded/CNN` = round 1, `seeded/CNNb` = round 2, `seeded/CNNc` = round 3, `seeded/CNNd` = round 4 on 24 properties whose checks had caught everything so far; `C02d`, `C07e` are reversed fix commits; later rounds were asked for less
prominent entry points, histories and interleavings). A seeded change that a check missed was never dropped: the check was strengthened until
it caught it, and the unchanged tree was re-verified silent. What the misses taught:

| seed | why the first version of the check missed it | what was added |
|---|---|---|
| C01 | stale identifier cache when a second header is decoded into a used object – only fresh objects were decoded | receiver-reuse sub-check (decode A, read id, decode B into the same object); it immediately found the same defect, un-seeded, in `DijkstraBlockHeader` (fixed, `562f8b2`) |
| C01b | lazily computed hash published before it is filled – only visible to a second goroutine | concurrent first `Hash()` on freshly decoded headers / blocks (value check) |
| C04 | chain-point hash / slot of another CBOR type (null, array of ints, tagged bytes) accepted by a struct decoder | eleven more point type-confusion mutants |
| C08 | range check split into an int64 path and a bignum path lost the sign test for -(2^63+1)..-(2^64-1) | sign x magnitude boundary grid around 2^63 and 2^64 |
| C08b | out-of-range quantity behind a duplicate asset-name key (lenient last-wins decode path) | duplicate-key family |
| C13 | lost wake-up when the 1 ms poll of the back-pressure wait is replaced by a signal | `tight` scenario + perturbation point `read.backpressureWait`; `gated` scenario for the hand-made mutants |
| C14 | timer not re-armed on a self-transition (streaming state) | self-loop stream cases |
| C14b | timer never armed when the initial state is re-entered | re-entered-initial-state stall cases |
| C21b | roll-backward overtakes roll-forwards still inside a configured block pipeline | chain-sync + `BlockPipeline` histories |
| C22b | node-to-node roll-forward refuses Dijkstra blocks – refusals were only counted | a refusal of a Shelley-or-later block is a violation |
| C25 | re-acquire at the immutable tip sent as "volatile tip" – the tagging server could not tell acquire flavours apart | flavour / point tag in every later reply, all flavours in first- and re-acquire position |
| C27b | tokens of spent inputs vanish (no mint, ada-only outputs) – the generator always balanced assets | dropped-asset and unprovided-asset families |
| C30 | envelope recognised only by the one-byte header `84` – a too LARGE size was counted, not judged | `size-too-large` keyed by envelope header form; found the genuine indefinite-envelope defect (fixed, `c2992f6`) |
| C31 | bytes of an explicitly empty datum field hashed | present-but-empty datum / redeemer fields in all encodings |
| C32 | collateral return gives back only some asset names of a policy | multi-name / multi-policy collateral family |
| C40b | opcert cache keyed without the issuer key – needs a validator that has already seen a genuine header | validator histories on one instance |
| C41b | VRF tie-break by `bytes.Compare` – pairs of different-length outputs were skipped by the reference | numeric reference for all lengths, mixed-length pool |
| C44 | sequence number handed back with CAS – needs two submitters blocked at once | concurrent-submitter family (callers observed parked, every cancel position) |
| C01c | stale Byron tx id when a DIFFERENT transaction is decoded into a used object – reuse was only tried with two encodings of the same object, and not for Byron | receiver reuse across sibling corpus objects, Byron included |
| C05c | prefix test on the text (`addr1…`) instead of on the part before the LAST `1` | prefixes that contain / start with / end with the right one (`<hrp>1q`, `<hrp>1<hrp>`, `x<hrp>`, …), also upper-cased |
| C08c | range check skipped after a byte scan for `0x20..0x3f`, `c2`, `c3` – bignum tag heads need not be one byte | bignum tag in 1- and 8-byte heads, padded and chunked bignums, 8-byte uint/nint; policy id without "noisy" bytes |
| C09c, C17c | unregistering one direction of a protocol also unmaps the other direction | registration-table changes on a live full-duplex muxer (C09) and stop / restart histories on full-duplex connections (C17) |
| C10c | reassembly waits for a continuation after every full segment – needs a message or packed batch of exactly k x 65535 bytes with nothing behind it | boundary-sized messages and two-message batches as the LAST thing sent |
| C14c | previous state's timer survives the transition into a terminal state and fires there | terminal states kept alive for 3.5 x the timeout must stay quiet |
| C15c | busy lock leaked when a range request is answered NoBlocks – only the NEXT call hangs | two- and three-call histories per client, every first-call outcome, then the connection ends |
| C21c | stale "ready for next block" token left behind by `GetAvailableBlockRange` | other client calls before `Sync` on the same client |
| C24c | ack counter reset after `InitFunc` returns – second session + requester started from `InitFunc` | multi-session histories with `InitFunc` held until the first request is on the wire |
| C25c | era-history reply cached across re-acquire | same query kind repeated within / across acquisitions; reply-reuse check that needs no model |
| C26c | presence of body keys 3 / 8 taken from a walk that stops at the first key > 8 | PRESENTATION independence: body / witness map key orders as a generic ledgergen facility (all ledger-rule monitors) and a judged C26 dimension |
| C27c | asset totals alias and mutate the first UTxO's `*big.Int` – each fresh validation is right | HISTORY independence: re-validation on the same objects, inputs-not-mutated snapshots (generic), shared-state sequences (C27) |
| C28c | process-wide cache of verified witnesses keyed without the tx id | replayed witnesses taken from a transaction that was really accepted earlier in the process; verdict before / after / again |
| C30c | block-extracted Alonzo tx re-assembled from metadata instead of auxiliary data | block-extracted transactions with all three auxiliary-data shapes in every era – which found the same genuine defect in Shelley (fixed, `e021657`) |
| C34c | stricter config option returns early and skips a check | every tamper family under every combination of the validation options ("options only add checks") |
| C38c, C39c | memo of the last validated key (caller's slice retained) / of verified signatures (keyed by a prefix) | genuine -> tampered -> genuine -> tampered histories per entry point, tamper written IN PLACE into the buffers of the genuine call and as a fresh copy (also adopted by C40, C46) |
| C43c | `outstanding` decremented twice by a context-expired Submit | failed-Submit-under-back-pressure, then drain with a block held in flight |
| C04d | `MsgBlock.MarshalCBOR` returns the bytes of a buffer it has already put back into a `sync.Pool` – only concurrent encoders collide | concurrent round-trip phase: G goroutines encode / decode different instances of one type, results re-compared after the others moved on |
| C07d | tag head size computed linearly – wrong for 4- and 8-byte tag heads | head width of TAGS (258, 24, 259) as an encoding class; generated blocks with tagged sets and script lists; which led to the un-seeded omission "no datum range for tagged datum sets" (fixed, `8b37483`, seed `C07e`) |
| C12d | transition-result channels pooled process-wide come back dirty after an instance was stopped mid-transition | histories over several Protocol INSTANCES: stop at every perturbation point, then judge a fresh instance from its first message |
| C23d | envelope decoded into a per-client field – the raw slice given to `BlockRawFunc` is overwritten by the next block | everything handed to callbacks is retained without copying and compared after the batch and after the next request |
| C29d | script hash memoised in a cell that survives a second decode into the same variable / is shared by copies | receiver reuse and by-value copies for scripts |
| C31d | language-views cache keyed by the cost-model slice's address | cost model mutated in place between two validations; equal-length models over one backing array |
| C33d | the transaction's own vote-delegation certificate satisfies the withdrawal gate | one certificate of every kind for the same / another credential in the withdrawing transaction |
""")
r=V+'/seeded/RESULTS.md'
if os.path.exists(r): print(open(r).read())
