#!/bin/bash
# Runs every seeded change against the check of the property it breaks (and extra checks given in seeded/<id>/also.txt)
# and writes seeded/RESULTS.md. JOBS (default 4) seeds are evaluated at a time; `tools/seedsweep.sh C01 C01b` limits
# the sweep to the given seeds (RESULTS.md is then left alone and the lines are only printed).
cd "$(dirname "$0")/.."
jobs=${JOBS:-4}
tmp=.work/sweep.$$
mkdir -p $tmp
if [ $# -gt 0 ]; then seeds="$*"; else seeds=$(ls -d seeded/C*/ | xargs -n1 basename); fi
one() {
  sid=$1; tmp=$2
  d=seeded/$sid
  prop=$(python3 -c "import json;print(json.load(open('$d/meta.json')).get('breaks_property','$sid'))")
  checks="$prop $(cat $d/also.txt 2>/dev/null)"
  : > $tmp/$sid.md
  for c in $checks; do
    line=$(tools/seedeval.sh $sid $c 2>&1 | tail -1)
    rc=$(echo "$line" | sed -n 's/.* rc=\([0-9]*\) .*/\1/p')
    keys=$(echo "$line" | sed -n 's/.*keys: \(.*\) | .*/\1/p')
    echo "| $sid | $c | ${rc:-?} | $keys |" >> $tmp/$sid.md
    echo "$sid $c rc=${rc:-? ($line)}"
  done
}
export -f one
echo $seeds | tr ' ' '\n' | xargs -P $jobs -I{} bash -c "one {} $tmp"
if [ $# -eq 0 ]; then
  out=seeded/RESULTS.md
  echo "| seeded change | check | exit | violation keys (first 5) |" > $out
  echo "|---|---|---|---|" >> $out
  for sid in $seeds; do cat $tmp/$sid.md >> $out; done
  echo "missed (exit != 1):"; grep -v '| 1 |' $out | tail -n +3
fi
rm -rf $tmp
