#!/bin/bash
# Runs every seeded change against the check of the property it breaks (and extra checks given in seeded/<id>/also.txt)
# and writes seeded/RESULTS.md.
cd "$(dirname "$0")/.."
out=seeded/RESULTS.md
echo "| seeded change | check | exit | violation keys (first 5) |" > $out
echo "|---|---|---|---|" >> $out
for d in seeded/C*/; do
  sid=$(basename $d)
  prop=$(python3 -c "import json;print(json.load(open('$d/meta.json')).get('breaks_property','$sid'))")
  checks="$prop $(cat $d/also.txt 2>/dev/null)"
  for c in $checks; do
    line=$(tools/seedeval.sh $sid $c 2>&1 | tail -1)
    rc=$(echo "$line" | sed -n 's/.* rc=\([0-9]*\) .*/\1/p')
    keys=$(echo "$line" | sed -n 's/.*keys: \(.*\) | .*/\1/p')
    echo "| $sid | $c | $rc | $keys |" >> $out
    echo "$sid $c rc=$rc"
  done
done
