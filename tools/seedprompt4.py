#!/usr/bin/env python3
import json,sys
props={json.loads(l)['id']:json.loads(l) for l in open('/verif/properties.jsonl')}
ids=sys.argv[1:]
out=[]
out.append("""You are a senior Go engineer doing mutation seeding for a robustness study of the Go library blinklabs-io/gouroboros (Cardano Ouroboros mini-protocols, muxer, CBOR ledger types). The repository is checked out at /repo (read-only for you: never edit, commit or run `git checkout`/`stash` there). Do NOT read or list anything under /verif – your work must be independent of it.

For EACH of the properties listed at the end, produce ONE realistic code change to the library that BREAKS the property while (a) the library still compiles (`go build ./...`), and (b) the repository's existing test suite still passes unedited. The change should look like something that could slip through code review (a refactor gone subtly wrong, an optimisation with a missed case, a boundary/condition slip, a dropped lock or check on one path, two sites that each look fine alone) – NOT a blatant sabotage, and NOT something ordinary use would expose at once: it should need something specific to manifest (a particular interleaving, a crash/fault at a particular point, a multi-step sequence of operations, an unusual input or encoding, one era / one version / one message type only). Do not touch test files, build tags, or files named verif_on.go / verif_off.go (those are inert instrumentation stubs; leave the `verifPt`/`verifEv`-style one-line calls in place).

Procedure per property <ID> (do them one after another):
1. `git -C /repo worktree add --detach /tmp/seed4-<ID> HEAD` and work only inside /tmp/seed4-<ID>.
2. Read the relevant code, design the change, apply it in the worktree.
3. Environment for Go: `export GOFLAGS=-mod=mod GOPROXY=off` (the default `go` auto-selects the right toolchain offline). Verify `go build ./...` and that the EXISTING tests pass: at least `go test -vet=off -count=1` on every package you touched and every package that imports it heavily, and finally the whole suite once: `go test -vet=off -count=1 -timeout 25m ./...` (takes ~2-3 minutes). If an existing test fails, change your mutation (not the test).
4. Write a demonstration: a Go test file or small program under /tmp/seed4-<ID>/demo_seed/ (its own package inside the module is simplest, e.g. /tmp/seed4-<ID>/demo_seed/demo_test.go, or an external _test package next to the code) that FAILS with your change applied and PASSES on the unchanged code. Verify both directions yourself (`git stash` inside your worktree, or `git diff > /tmp/seed4-<ID>.patch && git apply -R`, then re-apply). The demonstration must exercise the library through its exported API or package-level tests, and must be deterministic or succeed within a bounded number of attempts.
5. Save `git -C /tmp/seed4-<ID> diff -- . ':!demo_seed'` (library change only, no demo) to /tmp/seed4-<ID>/PATCH.diff and write /tmp/seed4-<ID>/NOTES.md: which property it breaks and how, what exactly it needs in order to manifest, the files/lines changed, the exact commands you ran and their results (build, existing tests, demo with and without the change).
Leave the worktrees in place (I will collect them). Keep tool outputs short (pipe through tail/grep).

Final report: for each property one paragraph – the change (file:line, before/after in words), why existing tests do not notice, what is needed to manifest, demo command and observed fail/pass. If you could not find a change that passes the existing tests for some property, say so and explain what you tried.

This is a FOURTH round: three engineers before you each seeded one change per property. They used the prominent functions and the obvious slips (boundary operators, dropped checks, copy-paste of a neighbouring case), then less prominent entry points and simple two-step histories. Go for what they will have left alone, for example: state that survives between calls (a memo, cache, sync.Pool or reused scratch buffer keyed or reset incompletely); aliasing of a caller's buffer or of a shared *big.Int / slice / map that is later mutated in place; an error or cancellation path whose clean-up corrupts a LATER call; an optional configuration field, alternate constructor or functional option that changes which checks run; a branch taken only for one protocol version, era, network or role; behaviour that depends on map iteration order or on the relative order of two fields in a legal but unusual encoding; a defect that needs three or more operations or a particular interleaving of two API calls running concurrently; two edits at different sites that are each harmless alone. Prefer the side of the property the obvious tests would not think of. The change must still clearly break the property as stated, and the full existing suite must still pass. To keep the machine responsive run the whole suite only ONCE per property, at the end (use the package-level tests while iterating), and never run more than one `go test` at a time.

PROPERTIES:
""")
for i in ids:
    p=props[i]
    out.append(f"- {i}: {p['title']}\n  Statement: {p['statement']}\n  Must hold over: {p['quantifier']['text']}\n")
print("\n".join(out))
