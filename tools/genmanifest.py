#!/usr/bin/env python3
"""Generates /verif/MANIFEST.json from the table below and the monitors present
under harness/mon/. A property whose monitor directory is missing is listed
under not_applicable with the reason given in PENDING (never silently dropped)."""
import json, os, subprocess, sys
V = os.path.dirname(os.path.dirname(os.path.abspath(__file__)))

# id -> (category, technique, level text, level note)
T = {}
def t(i, cat, tech, text, note):
    T[i] = (cat, tech, text, note)

RM = "runtime monitor: "
t("C01","exploration",RM+"differential byte-range oracle (independent CBOR reader) over re-encoded real blocks",
  "Every corpus block/tx is re-encoded under enumerated and random non-canonical CBOR policies with an independent codec; the decoded objects' stored bytes, hashes and re-serialisation are compared with ground-truth byte ranges. Held = no mismatch on the cases run.",
  "cborx (harness CBOR codec) and x/crypto blake2b are trusted; only encodings the decoders accept are judged")
t("C02","exploration",RM+"totality watchdog (panic recovery, crash journal, allocation meter) over random, mutated and fuzz-corpus inputs",
  "Each public decode entry point is called on random bytes, structure-aware mutants of valid inputs and length-inflated inputs inside a child process; panics, runtime-fatal errors, stalls and allocation not proportional to input size are violations.",
  "no proof of totality: claim is 'no panic/stall/disproportionate allocation on the N inputs tried'")
t("C03","exploration",RM+"exhaustive table of tagged shapes x header forms x integer forms against the generator's known tag",
  "For every tagged-sum consumer, valid lists are written with every header form and integer width; decode must fail or select the variant named by the first element.",
  "shape table is hand-written from the CDDL; payload validity is the generator's")
t("C04","exploration",RM+"round-trip + CDDL-forbidden shape mutants per message constructor",
  "Every message constructor is round-tripped through the protocol's codec with generated field values; shape mutants the spec forbids must be rejected.",
  "mutant table contains only shapes the network spec forbids")
t("C05","exploration",RM+"independent CIP-19 reference codec vs library, exhaustive header space + random payloads",
  "Bytes/bech32/base58 conversions and accessors are compared with an independent address codec; invalid headers, lengths, checksums and prefixes must be rejected.",
  "reference codec written from CIP-19; documented mainnet trailer whitelist is honoured")
t("C06","exploration",RM+"reference map model for multi-asset algebra on overlapping random operands",
  "Compare/Add/encode/decode are checked against a map-of-big.Int model on generated triples with overlapping keys, zero entries and boundary quantities.",
  "only the *big.Int instantiation used by the ledger is judged")
t("C07","exploration",RM+"ground-truth byte ranges (independent CBOR reader) vs reported offsets over re-encoded real blocks",
  "Every range reported by the offset extractor is compared with the independent reader's range for that component, for each container x header form of the corpus blocks.",
  "cborx trusted; only encodings the era decoder accepts are judged")
t("C08","exploration",RM+"boundary-quantity outputs through decode + full UTxO rules, both outcomes observed",
  "Outputs with negative / oversized quantities in every multi-asset era must be rejected by decoding or validation; balanced in-range ones accepted.",
  "ledger state is a mock making everything else valid")
t("C09","exploration",RM+"offline conservation/order checker over send, wire-tap and receive logs of real muxers under -race, fragmentation scripts and perturbation",
  "Unique-id segments from concurrent senders are traced through a scripted in-memory connection; per-protocol order, payload identity, routing and segment size are checked offline; hostile segments must close the muxer with an error.",
  "in-memory net.Conn; schedule diversity measured by interleaving signatures")
t("C10","exploration",RM+"handler-observed message sequence vs queued sequence across real Protocol endpoints under -race and fragmentation",
  "Message sequences of boundary sizes are sent between two real Protocol endpoints; the receiver's handler sequence must equal the queued sequence byte for byte.",
  "harness state maps plus real protocol configs; in-memory connection")
t("C11","exploration",RM+"online trace checker running the implementation's own state map beside hook events, raw hostile peer",
  "A raw peer sends legal and illegal message scripts to every real protocol engine; each deliver event must occur in a peer-agency state admitting the type, and nothing is delivered after the first error.",
  "uses verif trace hooks in protocol.go; equality of the map with the spec is C16")
t("C12","exploration",RM+"pipelined endpoint model over enqueue/transition/wire events",
  "Conforming conversations (incl. pipelining) are driven through real engines; wire order, send-transition order and the merged transition log are checked against an executable endpoint model.",
  "uses verif trace hooks; single sending goroutine per protocol defines queue order")
t("C13","exploration",RM+"invariant at hook (pending bytes <= limit under the code's own lock) + conservation under slow handlers",
  "Admit events are asserted against the state's byte limit; oversized and never-completing messages must end the protocol; fast sender + slow handler must lose nothing and make bounded progress.",
  "uses verif admit/release hook events")
t("C14","exploration",RM+"measured-stall oracle on scaled state timeouts with unjudged middle band",
  "Each timed state of each protocol is stalled clearly below / above its scaled timeout; timeout errors must appear exactly in the latter.",
  "wall-clock is the subject; cases in [T/2,3T] or with an overshooting control timer are not judged")
t("C15","fault_enumeration",RM+"fault enumeration (peer behaviours x API calls) with completion records and goroutine census",
  "For each blocking API call x peer fault script the call must return, Close must return, ErrorChan must close and no gouroboros goroutine may remain.",
  "bounded-progress restatement of 'never hangs'; in-memory connection")
t("C16","exploration",RM+"bounded trace conformance: product walk of real engine vs hand-written spec automaton",
  "All message sequences up to length L are offered to the real engine and the spec automaton; acceptance, agency and termination must agree at every prefix.",
  "spec automata typed in from the network spec / CIP-0137; draft protocols lower confidence")
t("C17","exploration",RM+"configuration enumeration over roles, modes, versions with raw-peer probes",
  "Every option combination is negotiated; requests/responses arriving for a role not negotiated must close the connection, and enabled protocols must be reachable.",
  "reachability = protocol-level reaction to a probe")
t("C18","exploration",RM+"reference negotiation function vs real client/server handshakes over version-set pairs",
  "Handshakes between real endpoints over enumerated and random version-map pairs are compared with max(A∩B)+magic reference; refusals and query mode checked.",
  "version tables taken from the library")
t("C19","exploration",RM+"exhaustive hostile AcceptVersion replies against a real client",
  "A raw peer answers a real client's proposal with every known/unknown version x data shape x magic; success is allowed only for a proposed version with valid data and the client's magic.",
  "raw peer speaks the mux framing independently")
t("C20","exploration",RM+"exhaustive assertions over the finite version tables",
  "All versions x flag combinations are encoded, decoded and compared; list ordering, NtN/NtC separation and era-prefix monotonicity asserted.",
  "finite space enumerated completely")
t("C21","exploration",RM+"callback log vs scripted server history, outstanding-request counter, under -race",
  "Scripted chain histories are served to a real chain-sync client; callbacks must match messages one-to-one in order with tips; outstanding requests never exceed the pipeline limit; Stop ends cleanly.",
  "server is a scripted raw peer / real server driven by the harness")
t("C22","exploration",RM+"end-to-end identity check of blocks/headers through chain-sync wrappers",
  "Corpus blocks and their accepted re-encodings are served over NtC and NtN; type, bytes and hashes must be preserved.",
  "cborx trusted")
t("C23","exploration",RM+"scripted server batch shapes vs client results",
  "All server batch shapes x corpus blocks are played to a real block-fetch client; only the matching single block may succeed, ranges deliver in order.",
  "bounded progress stands in for 'never hangs'")
t("C24","exploration",RM+"running acknowledgement-window counters over the wire log",
  "Request/ack counts on the wire are checked against ids received; out-of-range API arguments and hostile requests must be rejected; Done only answers a blocking request.",
  "wire log parsed with the independent codec")
t("C25","exploration",RM+"linearizability checking (porcupine) of recorded call histories against a tagging-server model",
  "Concurrent client calls against a server that tags every reply are recorded and checked with porcupine; a reply to another request is an illegal history.",
  "porcupine v1.3.0; Unknown results are inconclusive")
t("C26","exploration",RM+"exhaustive slot/bound grid against the reference interval predicate",
  "Every era x (slot, start, hereafter) grid point is validated; acceptance outside the interval is a violation; in-interval acceptance observed too.",
  "transactions built as raw CBOR by the harness")
t("C27","exploration",RM+"independent balance model vs value-conservation rule on generated transactions",
  "Generated transactions with certificates, withdrawals, mint and donations are judged by the rule and by an independent balance model; accept => balanced.",
  "mock ledger state; model written from the ledger formula")
t("C28","exploration",RM+"generated key sets and witness mutations vs signature rules",
  "Accepted transactions must have owner witnesses for all key-locked and collateral inputs, valid signatures and required signers.",
  "ed25519 from the Go standard library is the reference")
t("C29","exploration",RM+"reference native-script evaluator over enumerated scripts and contexts",
  "All small scripts x key subsets x validity grids are evaluated by the library and an independent evaluator; hashes checked on original bytes.",
  "reference evaluator written from the ledger semantics in the statement")
t("C30","exploration",RM+"big-int reference fee/size computation on original encodings",
  "Fee and size rules are compared with a·size+b on the original byte length for canonical and non-canonical encodings, incl. overflow.",
  "size definition from the statement")
t("C31","exploration",RM+"independent language-views encoder and script-data hash",
  "Declared hashes are compared with an independently computed hash over original redeemer/datum bytes and language views.",
  "own CBOR writer")
t("C32","exploration",RM+"threshold grid vs exact collateral inequality",
  "Grid around balance*100 >= fee*pct, ada-only and count limits for Alonzo..Dijkstra.",
  "mock UTxO")
t("C33","exploration",RM+"exhaustive truth table over PV x amount x delegation state x validity",
  "Whole table enumerated for Conway and Dijkstra rule lists; error types compared.",
  "finite space enumerated completely")
t("C34","exploration",RM+"body mutants of real blocks must fail decoding with validation on",
  "Byte substitutions and structural mutations inside body segments of corpus blocks must be rejected; originals accepted.",
  "Byron ssc payload excluded as documented")
t("C35","exploration",RM+"independent iterative reference construction + balanced-fold relation",
  "MerkleRoot is compared with an independent implementation for every length 0..300 and power-of-two boundaries.",
  "x/crypto blake2b trusted")
t("C36","exploration",RM+"exhaustive version x layout table and entry-point cross-check on the corpus",
  "Every major version 0..64 x header layout is dispatched; maps must be inverse; each entry point must report the requested type/era.",
  "finite space enumerated completely")
t("C37","exploration",RM+"interval-arithmetic / exact big-integer oracle for the threshold floor",
  "Thresholds are compared with an exact rational bracket check and monotonicity chains; eligibility compared at threshold neighbours.",
  "exact integer inequality oracle; mpmath interval cross-check where available")
t("C38","exploration",RM+"relational prove/verify oracle with exhaustive single-bit flips",
  "Genuine proofs verify and reproduce the output; every bit flip of proof/key, message changes, non-canonical scalars and small-order keys fail.",
  "relations only, no external VRF implementation")
t("C39","exploration",RM+"period/message/key relation over evolved KES keys",
  "Signatures verify only at their period/message/key for all periods (depth<=4) and sampled (5-6); evolution keeps the public key and cannot sign earlier periods.",
  "relations only")
t("C40","exploration",RM+"build-then-validate with single-field tampering",
  "Headers built by the block builder validate; each single-field mutation must fail validation.",
  "keys generated by the harness")
t("C41","exploration",RM+"order-axiom checker on generated tip sets",
  "Antisymmetry, transitivity, reference ordering and permutation-invariant maximal choice on generated candidate sets.",
  "mixed tip kinds reported under their own key")
t("C42","exploration",RM+"exactly-once / order checker over apply and results logs under -race with injected stage latencies",
  "Unique blocks from concurrent submitters flow through the real pipeline with skewed stage delays; apply order, exactly-once results and clean Stop are checked.",
  "uses verif perturbation points in pipeline")
t("C43","exploration",RM+"drain oracle: no processing event for earlier submissions after WaitForDrain returns",
  "Items are held inside stage workers while WaitForDrain is called; its return must not precede their completion.",
  "uses verif perturbation points to hold items")
t("C44","fault_enumeration",RM+"fault enumeration of failing Submit positions with bounded-progress oracle",
  "Every position of a cancelled Submit under back-pressure is tried; later successful submissions must be applied.",
  "bounded progress stands in for 'does not stall'")
t("C45","exploration",RM+"conservation monitor in big.Int over generated snapshots",
  "Pool totals must sum to the pot, operator+delegators to the pool total, no amount above the pot.",
  "errors allowed; successes must be observed")
t("C46","exploration",RM+"accept-implies-authentic oracle with per-pool counter history, concurrent callers under -race",
  "Messages with single-field corruptions, unregistered pools and counter walks; accept implies every authentication fact, recomputed independently.",
  "KES verifier injected from the kes package")

# families added after the seeding rounds (see DESIGN.md 7.4 / 7.8)
ADD = {
 "C01": "Receivers are also re-used across different corpus objects (stale identifier caches), and first Hash() calls race on fresh objects.",
 "C02": "Every successfully decoded ledger value is additionally walked through its accessors (a value that cannot be read is a violation), and decodable-but-inconsistent blocks are generated.",
 "C04": "A concurrent phase round-trips different instances of one message type from several goroutines and re-compares handed-out bytes afterwards.",
 "C05": "Text prefixes that contain, start with or end with the right one are rejected cases too.",
 "C07": "Tag head widths (258, 24, 259) are an encoding class; bodies, witness sets, outputs, metadata, datums, redeemers and scripts must be reported, not only be right if reported.",
 "C08": "Quantities are also written with non-shortest bignum/integer heads, padded and chunked bignums, and byte-quiet policy ids.",
 "C09": "Registration-table changes on a live full-duplex muxer (unregister one direction, re-register) are part of the run.",
 "C10": "Messages and packed batches ending exactly on a multiple of the segment payload limit are sent last.",
 "C12": "Histories over several Protocol instances: instances stopped with a transition in flight, then a fresh instance is judged from its first message.",
 "C14": "Terminal states kept alive beyond the timeout must stay quiet.",
 "C15": "Two-call histories per client object precede the connection's end.",
 "C17": "Reachability is re-checked after client stop / restart and server restart on Done on full-duplex connections.",
 "C21": "Other client calls (available range, current tip) precede Sync on the same client.",
 "C23": "Everything handed to callbacks is retained without copying and re-compared after the batch and after the next request.",
 "C24": "Several sessions on one server object, with InitFunc held until the first request is on the wire.",
 "C25": "The same query kind is repeated within and across acquisitions; reply re-use is detected without the model.",
 "C26": "Body / witness map key orders are a judged dimension (presentation independence).",
 "C27": "Re-validation on the same objects, inputs-not-mutated snapshots and shared-state transaction sequences (history independence).",
 "C28": "Replayed witnesses come from a transaction really accepted earlier in the process; witness-set presentations are a judged dimension.",
 "C29": "Script receivers are re-used and copied by value; validity bounds are read from bodies in non-ascending key order.",
 "C30": "Block-extracted transactions with all three auxiliary-data shapes in every era are judged with the same size oracle.",
 "C31": "Cost models are edited in place between validations; key-order presentations are cycled.",
 "C32": "Re-validation and inputs-not-mutated snapshots run on every case.",
 "C33": "One certificate of every kind for the same or another credential rides in the withdrawing transaction.",
 "C34": "Every tamper family runs under every combination of the validation options (options only add checks).",
 "C38": "Genuine -> tampered -> genuine histories per entry point, tamper written in place into the genuine call's buffers and as a fresh copy.",
 "C39": "Genuine -> tampered -> genuine histories per entry point, tamper written in place into the genuine call's buffers and as a fresh copy.",
 "C40": "In-place tampering of the slices a genuine validation was given, on the same validator instance.",
 "C43": "Failed Submits under back-pressure precede the drain with a block held in flight.",
 "C46": "A field of the just-accepted message object is flipped in place, verified, restored and verified again.",
}
for _i, _x in ADD.items():
    _c, _te, _tx, _n = T[_i]
    T[_i] = (_c, _te, _tx + " " + _x, _n)

READY = set(open(os.path.join(V, "tools", "ready.txt")).read().split())

def main():
    props = [json.loads(l) for l in open(os.path.join(V, "properties.jsonl"))]
    checks, na = [], []
    for p in props:
        i = p["id"]
        cat, tech, text, note = T[i]
        d = os.path.join(V, "harness", "mon", i.lower())
        ready = os.path.isdir(d) and os.path.exists(os.path.join(V, "harness", "mon", "imp_%s.go" % i.lower())) \
            and i in READY
        if not ready:
            na.append({"property_id": i, "reason": "monitor not built yet (work in progress); planned technique: " + tech})
            continue
        checks.append({
            "property_id": i,
            "quick_cmd": "./check %s quick" % i,
            "thorough_cmd": "./check %s thorough" % i,
            "evidence_file": "/verif/evidence/%s.json" % i,
            "replay_cmd_template": "./check %s replay {path}" % i,
            "engine": "vmon",
            "level_claimed": {"category": cat, "text": text, "design_ref": "DESIGN.md section 2, " + i},
            "level_note": note,
            "technique": tech,
        })
    hooks = subprocess.run(["git", "-C", "/repo", "log", "--format=%H %s"], capture_output=True, text=True).stdout.splitlines()
    hook_commits = [l.split()[0] for l in hooks if "verif hook" in l]
    m = {
        "version": 1,
        "setup_cmd": "./setup.sh",
        "hooks": {
            "guard": "verif",
            "enable": "go build -tags verif (the harness module replaces github.com/blinklabs-io/gouroboros with /repo)",
            "baseline_off_cmd": "cd /repo && GOFLAGS=-mod=mod GOPROXY=off go test -json -vet=off -count=1 -timeout 25m ./...",
            "source_commits": hook_commits,
            "add_only": True,
        },
        "engines": [{
            "name": "vmon",
            "path": "/verif/harness",
            "serves_properties": [c["property_id"] for c in checks],
            "kind_free_text": "Go monitors (one per property) built with -tags verif (and -race where goroutines are involved) against /repo's working tree; supervisor/child split, race-log classifier, known-findings file",
        }],
        "checks": checks,
        "not_applicable": na,
        "notes": "Every check is a runtime monitor over executions of the real code. Exit 0 = held on what was observed, 1 = VIOLATION, 2 = inconclusive (never folded into held). Known genuine defects are listed in known_findings.json and printed as KNOWN-FINDING.",
    }
    json.dump(m, open(os.path.join(V, "MANIFEST.json"), "w"), indent=1)
    print("checks:", len(checks), "not_applicable:", len(na))
main()
