#!/bin/bash
# usage: tools/seedeval.sh <seed-id> <CHECK-ID>...
# Applies /verif/seeded/<seed-id>/patch.diff to a scratch worktree of /repo's HEAD, runs the given checks (quick)
# against it, prints one line per check, removes the worktree. (Equivalent to `git -C /repo apply` + run + undo,
# without disturbing other users of /repo.)
sid=$1; shift
V=$(cd "$(dirname "$0")/.." && pwd)
wt=/tmp/seedeval-$sid-$$
git -C /repo worktree add -q --detach $wt HEAD || exit 3
if ! git -C $wt apply "$V/seeded/$sid/patch.diff"; then echo "$sid: patch does not apply"; git -C /repo worktree remove --force $wt; exit 3; fi
for id in "$@"; do
  out=$(cd $V && VERIF_REPO=$wt ./check $id ${TIER:-quick} 2>&1); rc=$?
  keys=$(echo "$out" | grep -E '^  key=' | sed 's/  key=//' | head -5 | tr '\n' ' ')
  echo "$sid $id rc=$rc viol=$(echo "$out" | grep -c '^VIOLATION') keys: $keys | $(echo "$out" | tail -1 | cut -c1-120)"
done
git -C /repo worktree remove --force $wt
