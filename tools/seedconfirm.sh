#!/bin/bash
# usage: tools/seedconfirm.sh <ID> [srcdir]   – confirms a seeded change in a fresh scratch worktree and files it under /verif/seeded/<ID>/
# Steps: demo passes on unchanged HEAD; patch applies; go build; existing tests of the touched packages (FULL=1: whole suite) pass; demo fails.
id=$1; src=${2:-/tmp/seed-$id}; did=${3:-$id}
V=$(cd "$(dirname "$0")/.." && pwd)
export GOFLAGS=-mod=mod GOPROXY=off
dst=$V/seeded/$did; mkdir -p $dst/demo
cp $src/PATCH.diff $dst/patch.diff || exit 3
rm -rf $dst/demo; mkdir -p $dst/demo; cp -r $src/demo_seed/. $dst/demo/ 2>/dev/null
cp $src/NOTES.md $dst/NOTES.md 2>/dev/null
wt=/tmp/sc-$did-$$
git -C /repo worktree add -q --detach $wt HEAD || exit 3
mkdir -p $wt/demo_seed && cp -r $dst/demo/. $wt/demo_seed/
cd $wt
base_demo=$(go test -vet=off -count=1 ./demo_seed/... 2>&1 | tail -3); base_rc=$?
go test -vet=off -count=1 ./demo_seed/... >/dev/null 2>&1; base_rc=$?
if ! git apply $dst/patch.diff 2>$dst/apply.err; then echo "$id: PATCH DOES NOT APPLY to HEAD"; cat $dst/apply.err | head -3; cd /; git -C /repo worktree remove --force $wt; exit 4; fi
rm -f $dst/apply.err
pkgs=$(git diff --name-only | grep '\.go$' | xargs -n1 dirname | sort -u | sed 's#^#./#' | tr '\n' ' ')
go build ./... 2>&1 | tail -3; build_rc=${PIPESTATUS[0]}
if [ "${FULL:-0}" = 1 ]; then tpk="./..."; else tpk="$pkgs"; fi
tout=$(go test -vet=off -count=1 -timeout 25m $(go list $tpk 2>/dev/null | grep -v demo_seed) 2>&1); test_rc=$?
go test -vet=off -count=1 ./demo_seed/... > $dst/demo_with_patch.log 2>&1; mut_rc=$?
head_sha=$(git -C /repo rev-parse --short HEAD)
cat > $dst/meta.json <<JSON
{
 "id": "$did",
 "breaks_property": "${PROP:-$id}",
 "source": "independent sub-agent given only the property text and a scratch worktree",
 "confirmed_against_repo_head": "$head_sha",
 "touched_packages": "$pkgs",
 "confirmation": {
  "demo_on_unchanged_tree_exit": $base_rc,
  "patch_applies": true,
  "go_build_exit": $build_rc,
  "existing_tests_scope": "$tpk",
  "existing_tests_exit": $test_rc,
  "demo_with_patch_exit": $mut_rc
 },
 "needs_to_manifest": "see NOTES.md",
 "commands": "git worktree add; go test ./demo_seed/ (pass); git apply patch.diff; go build ./...; go test <touched pkgs>; go test ./demo_seed/ (fail)"
}
JSON
echo "$did: demo-base rc=$base_rc build rc=$build_rc tests($tpk) rc=$test_rc demo-with-patch rc=$mut_rc"
if [ $test_rc -ne 0 ]; then echo "$tout" | grep -v "^ok" | tail -8; fi
cd /; git -C /repo worktree remove --force $wt
