#!/usr/bin/env python3
"""Re-inserts section 7 (tools/asbuilt.md + generated findings / seeded tables) into DESIGN.md before Appendix A."""
import os, subprocess
V = os.path.dirname(os.path.dirname(os.path.abspath(__file__)))
d = open(V+'/DESIGN.md').read()
a = d.index('## Appendix A')
if '## 7. As built' in d:
    s = d.index('## 7. As built')
    d = d[:s] + d[a:]
    a = d.index('## Appendix A')
gen = subprocess.run(['python3', V+'/tools/gen_findings_md.py'], capture_output=True, text=True).stdout
sec = open(V+'/tools/asbuilt.md').read().replace('FINDINGS_PLACEHOLDER', gen)
d = d[:a] + sec + '\n---------------------------------------------------------------------------\n\n' + d[a:]
open(V+'/DESIGN.md','w').write(d)
print("DESIGN.md rebuilt:", len(d), "bytes")
