#!/usr/bin/env python3
"""mark_fixed.py <PROP> <commit-subject-substring> <what> <key-regex>...
Removes the known entries of PROP whose key matches one of the regexes from
known_findings.d/PROP.json and records one 'fixed' entry in known_findings.json."""
import json, os, re, subprocess, sys
V = os.path.dirname(os.path.dirname(os.path.abspath(__file__)))
prop, sub, what, pats = sys.argv[1], sys.argv[2], sys.argv[3], sys.argv[4:]
log = subprocess.run(['git', '-C', '/repo', 'log', '--format=%h %s'], capture_output=True, text=True).stdout.splitlines()
commit = [l.split()[0] for l in log if sub in l][0]
p = os.path.join(V, 'known_findings.d', prop + '.json')
removed = []
if os.path.exists(p):
    d = json.load(open(p))
    keep = []
    for f in d['findings']:
        if any(re.search(x, f['key']) for x in pats):
            removed.append(f)
        else:
            keep.append(f)
    if keep:
        d['findings'] = keep
        json.dump(d, open(p, 'w'), indent=1)
    else:
        os.remove(p)
k = json.load(open(os.path.join(V, 'known_findings.json')))
keys = [f['key'] for f in removed]
wit = removed[0].get('witness') if removed else None
k['findings'].append({"property": prop, "key": ", ".join(keys) if keys else "|".join(pats), "status": "fixed", "commit": commit,
                      "what": what, "witness": wit,
                      "line": "fixed: property=%s %s %s" % (prop, commit, what)})
json.dump(k, open(os.path.join(V, 'known_findings.json'), 'w'), indent=1)
print("removed", len(removed), "known entries; fixed entry recorded for", commit)
