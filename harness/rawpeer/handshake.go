package rawpeer

import (
	"fmt"
	"sort"

	"verifharness/cborx"
)

// Handshake message tags (network spec, handshake mini-protocol CDDL).
const (
	HsProposeVersions = 0
	HsAcceptVersion   = 1
	HsRefuse          = 2
	HsQueryReply      = 3

	RefuseVersionMismatch = 0
	RefuseDecodeError     = 1
	RefuseRefused         = 2
)

// VersionEntry is one (version number, version data) pair of a version table.
type VersionEntry struct {
	Version uint64
	Data    *cborx.Node
}

func versionTable(entries []VersionEntry, sorted bool) *cborx.Node {
	es := append([]VersionEntry(nil), entries...)
	if sorted {
		sort.SliceStable(es, func(i, j int) bool { return es[i].Version < es[j].Version })
	}
	var kv []*cborx.Node
	for _, e := range es {
		kv = append(kv, cborx.U(e.Version), e.Data)
	}
	return cborx.M(kv...)
}

// ProposeVersions builds [0, {version: data, ...}] with ascending keys.
func ProposeVersions(entries ...VersionEntry) *cborx.Node {
	return cborx.A(cborx.U(HsProposeVersions), versionTable(entries, true))
}

// ProposeVersionsAsGiven keeps the order (and duplicates) of entries.
func ProposeVersionsAsGiven(entries ...VersionEntry) *cborx.Node {
	return cborx.A(cborx.U(HsProposeVersions), versionTable(entries, false))
}

// AcceptVersion builds [1, version, data]. version is not limited to 16 bits.
func AcceptVersion(version uint64, data *cborx.Node) *cborx.Node {
	return cborx.A(cborx.U(HsAcceptVersion), cborx.U(version), data)
}

// Refuse builds [2, reason] from an arbitrary reason node.
func Refuse(reason *cborx.Node) *cborx.Node {
	return cborx.A(cborx.U(HsRefuse), reason)
}

// RefuseMismatch builds [2, [0, [versions...]]] in the order given.
func RefuseMismatch(versions ...uint64) *cborx.Node {
	var vs []*cborx.Node
	for _, v := range versions {
		vs = append(vs, cborx.U(v))
	}
	return Refuse(cborx.A(cborx.U(RefuseVersionMismatch), cborx.A(vs...)))
}

// RefuseDecode builds [2, [1, version, text]].
func RefuseDecode(version uint64, text string) *cborx.Node {
	return Refuse(cborx.A(cborx.U(RefuseDecodeError), cborx.U(version), cborx.S(text)))
}

// RefuseRefusedMsg builds [2, [2, version, text]].
func RefuseRefusedMsg(version uint64, text string) *cborx.Node {
	return Refuse(cborx.A(cborx.U(RefuseRefused), cborx.U(version), cborx.S(text)))
}

// QueryReply builds [3, {version: data, ...}] with ascending keys.
func QueryReply(entries ...VersionEntry) *cborx.Node {
	return cborx.A(cborx.U(HsQueryReply), versionTable(entries, true))
}

// ---- version data shapes (handshake CDDL) ----

// VDNtC9to14: node-to-client versions 9..14 carry the bare network magic.
func VDNtC9to14(magic uint32) *cborx.Node { return cborx.U(uint64(magic)) }

// VDNtC15: node-to-client versions >= 15 (and DMQ node-to-client): [magic, query].
func VDNtC15(magic uint32, query bool) *cborx.Node {
	return cborx.A(cborx.U(uint64(magic)), cborx.Bool(query))
}

// VDNtN7to10: node-to-node versions 7..10: [magic, initiatorOnlyDiffusionMode].
func VDNtN7to10(magic uint32, initiatorOnly bool) *cborx.Node {
	return cborx.A(cborx.U(uint64(magic)), cborx.Bool(initiatorOnly))
}

// VDNtN11: node-to-node versions >= 11 (and DMQ node-to-node):
// [magic, initiatorOnlyDiffusionMode, peerSharing, query].
func VDNtN11(magic uint32, initiatorOnly bool, peerSharing uint64, query bool) *cborx.Node {
	return cborx.A(cborx.U(uint64(magic)), cborx.Bool(initiatorOnly), cborx.U(peerSharing), cborx.Bool(query))
}

// ---- parsing what the endpoint under test sent ----

// HandshakeMsg is a decoded handshake message.
type HandshakeMsg struct {
	Tag      uint64
	Versions []VersionEntry // ProposeVersions / QueryReply, in wire order
	Version  uint64         // AcceptVersion
	Data     *cborx.Node    // AcceptVersion
	Reason   *cborx.Node    // Refuse
}

// ParseHandshake decodes any of the four handshake messages (shape only; the
// version data stay cborx trees).
func ParseHandshake(n *cborx.Node) (*HandshakeMsg, error) {
	if n == nil || n.Kind != cborx.Array || len(n.Items) < 2 || n.Items[0].Kind != cborx.Uint {
		return nil, fmt.Errorf("rawpeer: not a handshake message: %s", diag(n))
	}
	m := &HandshakeMsg{Tag: n.Items[0].Arg}
	switch m.Tag {
	case HsProposeVersions, HsQueryReply:
		t := n.Items[1]
		if len(n.Items) != 2 || t.Kind != cborx.Map {
			return nil, fmt.Errorf("rawpeer: malformed version table: %s", diag(n))
		}
		for i := 0; i+1 < len(t.Items); i += 2 {
			if t.Items[i].Kind != cborx.Uint {
				return nil, fmt.Errorf("rawpeer: non-integer version key: %s", diag(n))
			}
			m.Versions = append(m.Versions, VersionEntry{t.Items[i].Arg, t.Items[i+1]})
		}
	case HsAcceptVersion:
		if len(n.Items) != 3 || n.Items[1].Kind != cborx.Uint {
			return nil, fmt.Errorf("rawpeer: malformed AcceptVersion: %s", diag(n))
		}
		m.Version, m.Data = n.Items[1].Arg, n.Items[2]
	case HsRefuse:
		if len(n.Items) != 2 {
			return nil, fmt.Errorf("rawpeer: malformed Refuse: %s", diag(n))
		}
		m.Reason = n.Items[1]
	default:
		return nil, fmt.Errorf("rawpeer: unknown handshake tag %d", m.Tag)
	}
	return m, nil
}

// ParseProposeVersions returns the offered table of a ProposeVersions message.
func ParseProposeVersions(n *cborx.Node) ([]VersionEntry, error) {
	m, err := ParseHandshake(n)
	if err != nil {
		return nil, err
	}
	if m.Tag != HsProposeVersions {
		return nil, fmt.Errorf("rawpeer: expected ProposeVersions, got tag %d", m.Tag)
	}
	return m.Versions, nil
}

// VersionData is the meaning of a version-data item under one of the four
// CDDL shapes.
type VersionData struct {
	Magic         uint32
	InitiatorOnly bool   // node-to-node shapes
	PeerSharing   uint64 // 4-element shape
	Query         bool   // [magic, query] and 4-element shapes
}

// Shape names a version-data layout.
type Shape int

const (
	ShapeMagic  Shape = iota // uint
	ShapeMagicQ              // [uint, bool]           node-to-client >= 15, DMQ node-to-client
	ShapeNtN2                // [uint, bool]           node-to-node 7..10
	ShapeNtN4                // [uint, bool, uint, bool] node-to-node >= 11, DMQ node-to-node
)

func isBool(n *cborx.Node) (bool, bool) {
	if n.Kind == cborx.Simple && n.Form == cborx.FormDirect && (n.Arg == 20 || n.Arg == 21) {
		return n.Arg == 21, true
	}
	return false, false
}

func isU32(n *cborx.Node) (uint32, bool) {
	if n.Kind == cborx.Uint && n.Arg <= 0xffffffff {
		return uint32(n.Arg), true
	}
	return 0, false
}

// DecodeVersionData interprets n strictly under shape s (definite or
// indefinite array, any integer width); ok=false when n does not have it.
func DecodeVersionData(n *cborx.Node, s Shape) (vd VersionData, ok bool) {
	if n == nil {
		return vd, false
	}
	if s == ShapeMagic {
		vd.Magic, ok = isU32(n)
		return vd, ok
	}
	want := 2
	if s == ShapeNtN4 {
		want = 4
	}
	if n.Kind != cborx.Array || len(n.Items) != want {
		return vd, false
	}
	if vd.Magic, ok = isU32(n.Items[0]); !ok {
		return vd, false
	}
	b, ok := isBool(n.Items[1])
	if !ok {
		return vd, false
	}
	switch s {
	case ShapeMagicQ:
		vd.Query = b
	case ShapeNtN2:
		vd.InitiatorOnly = b
	case ShapeNtN4:
		vd.InitiatorOnly = b
		if n.Items[2].Kind != cborx.Uint {
			return vd, false
		}
		vd.PeerSharing = n.Items[2].Arg
		if vd.Query, ok = isBool(n.Items[3]); !ok {
			return vd, false
		}
	}
	return vd, true
}

func diag(n *cborx.Node) string {
	if n == nil {
		return "<nil>"
	}
	return n.Diag()
}
