package rawpeer

import (
	"encoding/binary"
	"errors"
	"fmt"
	"io"
	"net"
	"sync"

	"verifharness/cborx"
)

// Mini-protocol numbers used on the wire.
const (
	ProtoHandshake uint16 = 0
)

// MaxPayload is the largest payload of one multiplexer segment.
const MaxPayload = 0xffff

// Segment is one multiplexer segment: 4-byte timestamp, 2-byte protocol id
// whose top bit is the "sent by the responder" flag, 2-byte payload length
// (all big endian), then the payload.
type Segment struct {
	Timestamp  uint32
	ProtocolID uint16 // without the flag bit
	Response   bool   // top bit of the protocol id field
	Payload    []byte
}

// EncodeSegment writes header + payload. A payload longer than MaxPayload is
// a caller error (the length field would wrap); it panics.
func EncodeSegment(s Segment) []byte {
	if len(s.Payload) > MaxPayload {
		panic("rawpeer: segment payload too long")
	}
	out := make([]byte, 8+len(s.Payload))
	binary.BigEndian.PutUint32(out[0:4], s.Timestamp)
	id := s.ProtocolID & 0x7fff
	if s.Response {
		id |= 0x8000
	}
	binary.BigEndian.PutUint16(out[4:6], id)
	binary.BigEndian.PutUint16(out[6:8], uint16(len(s.Payload)))
	copy(out[8:], s.Payload)
	return out
}

// ReadSegment reads exactly one segment.
func ReadSegment(r io.Reader) (Segment, error) {
	var hdr [8]byte
	if _, err := io.ReadFull(r, hdr[:]); err != nil {
		return Segment{}, err
	}
	id := binary.BigEndian.Uint16(hdr[4:6])
	n := int(binary.BigEndian.Uint16(hdr[6:8]))
	s := Segment{
		Timestamp:  binary.BigEndian.Uint32(hdr[0:4]),
		ProtocolID: id & 0x7fff,
		Response:   id&0x8000 != 0,
		Payload:    make([]byte, n),
	}
	if _, err := io.ReadFull(r, s.Payload); err != nil {
		return Segment{}, err
	}
	return s, nil
}

// Peer speaks segments over a net.Conn. Sends are serialised by a mutex; Recv*
// must be called from one goroutine at a time.
type Peer struct {
	Conn      net.Conn
	Responder bool // value of the response flag on everything we send

	sendMu sync.Mutex
	clock  uint32
	// per (protocol id, response flag) reassembly buffers of received payload
	inbox map[uint32][]byte
	// Log of every segment seen, in order (for witnesses).
	RecvLog []Segment
}

// NewPeer wraps conn. responder=true makes the peer answer an initiator under
// test (response flag set on every segment sent); false makes it the initiator.
func NewPeer(conn net.Conn, responder bool) *Peer {
	return &Peer{Conn: conn, Responder: responder, inbox: map[uint32][]byte{}}
}

// SendSegment writes one segment as given (no flag fix-up, any protocol id).
func (p *Peer) SendSegment(s Segment) error {
	p.sendMu.Lock()
	defer p.sendMu.Unlock()
	_, err := p.Conn.Write(EncodeSegment(s))
	return err
}

// SendRaw writes arbitrary bytes to the connection (broken headers etc.).
func (p *Peer) SendRaw(b []byte) error {
	p.sendMu.Lock()
	defer p.sendMu.Unlock()
	_, err := p.Conn.Write(b)
	return err
}

// Send writes payload for a mini-protocol, split into as many segments as
// needed. split > 0 forces a segment boundary every split bytes.
func (p *Peer) Send(protocolID uint16, payload []byte, split int) error {
	if split <= 0 || split > MaxPayload {
		split = MaxPayload
	}
	for first := true; first || len(payload) > 0; first = false {
		n := len(payload)
		if n > split {
			n = split
		}
		p.clock++
		if err := p.SendSegment(Segment{Timestamp: p.clock, ProtocolID: protocolID, Response: p.Responder, Payload: payload[:n]}); err != nil {
			return err
		}
		payload = payload[n:]
		if len(payload) == 0 {
			break
		}
	}
	return nil
}

// SendMsg encodes one or more messages into a single payload and sends it.
func (p *Peer) SendMsg(protocolID uint16, msgs ...*cborx.Node) error {
	var payload []byte
	for _, m := range msgs {
		payload = append(payload, m.Encode()...)
	}
	return p.Send(protocolID, payload, 0)
}

// Recv reads the next segment, whatever protocol it belongs to.
func (p *Peer) Recv() (Segment, error) {
	s, err := ReadSegment(p.Conn)
	if err != nil {
		return Segment{}, err
	}
	if len(p.RecvLog) < 64 {
		p.RecvLog = append(p.RecvLog, s)
	}
	return s, nil
}

// ErrWrongDirection is returned by RecvMsg when the peer under test sent a
// segment whose response flag equals ours (both ends claim the same role).
var ErrWrongDirection = errors.New("rawpeer: segment with our own direction flag")

// RecvMsg returns the next complete CBOR item received on protocolID (from the
// opposite direction), reassembling it across segments, together with its
// bytes. Segments of other protocols are buffered for later RecvMsg calls.
func (p *Peer) RecvMsg(protocolID uint16) (*cborx.Node, []byte, error) {
	want := uint32(protocolID)
	if !p.Responder {
		want |= 1 << 16 // we are the initiator: expect response-flagged segments
	}
	for {
		if buf := p.inbox[want]; len(buf) > 0 {
			_, used, err := cborx.Parse(buf)
			if err == nil {
				// re-parse a private copy so the tree does not alias the inbox
				raw := append([]byte(nil), buf[:used]...)
				p.inbox[want] = buf[used:]
				m, err2 := cborx.ParseExact(raw)
				if err2 != nil {
					return nil, raw, err2
				}
				return m, raw, nil
			}
			if !errors.Is(err, cborx.ErrTruncated) {
				return nil, buf, fmt.Errorf("rawpeer: undecodable payload on protocol %d: %w", protocolID, err)
			}
		}
		s, err := p.Recv()
		if err != nil {
			return nil, nil, err
		}
		key := uint32(s.ProtocolID)
		if s.Response {
			key |= 1 << 16
		}
		if s.Response == p.Responder && s.ProtocolID == protocolID {
			return nil, s.Payload, ErrWrongDirection
		}
		p.inbox[key] = append(p.inbox[key], s.Payload...)
	}
}

// Drain reads and discards until the connection ends; returns the number of
// segments seen. Use it to wait for the other side to hang up.
func (p *Peer) Drain() int {
	n := 0
	for {
		if _, err := p.Recv(); err != nil {
			return n
		}
		n++
	}
}

// Close closes the connection.
func (p *Peer) Close() error { return p.Conn.Close() }
