// Package rawpeer is an adversarial Ouroboros endpoint that shares no code with
// gouroboros: an in-memory net.Conn pair (conn.go), an independent codec for
// the 8-byte multiplexer segment header and a Peer that sends / reassembles
// mini-protocol messages as cborx trees (peer.go), and hand-written builders /
// parsers for the handshake mini-protocol (handshake.go).
//
// Typical use (initiator under test, raw responder):
//
//	a, b := rawpeer.Pipe()                       // a: library side, b: raw side
//	p := rawpeer.NewPeer(b, true)                // true: we answer as responder
//	go func() {
//	    prop, _, _ := p.RecvMsg(rawpeer.ProtoHandshake) // [0, {v: data}]
//	    offered, _ := rawpeer.ParseProposeVersions(prop)
//	    p.SendMsg(rawpeer.ProtoHandshake, rawpeer.AcceptVersion(7, rawpeer.VDNtN7to10(magic, false)))
//	}()
//	oc, err := ouroboros.NewConnection(ouroboros.WithConnection(a), ...)
//
// Nothing in this package decides a verdict and nothing uses wall-clock time
// except the optional net.Conn deadlines (which gouroboros' muxer sets).
package rawpeer

import (
	"io"
	"net"
	"os"
	"sync"
	"time"
)

// half is one direction of the pipe: a byte queue with an optional capacity.
type half struct {
	mu      sync.Mutex
	cond    *sync.Cond
	buf     []byte
	wclosed bool // the writing end was closed: reader drains, then io.EOF
	rclosed bool // the reading end was closed: writes fail
	limit   int  // 0 = unbounded (writes never block)
	total   int64
}

func newHalf(limit int) *half {
	h := &half{limit: limit}
	h.cond = sync.NewCond(&h.mu)
	return h
}

func (h *half) wake() {
	h.mu.Lock()
	h.cond.Broadcast()
	h.mu.Unlock()
}

// Conn is one end of an in-memory full-duplex connection. It implements
// net.Conn including deadlines. Close is idempotent; after Close the local
// Read/Write return io.ErrClosedPipe, the remote Read returns the buffered
// bytes and then io.EOF, the remote Write returns io.ErrClosedPipe.
type Conn struct {
	rd, wr *half
	name   string

	mu        sync.Mutex
	closed    bool
	rDeadline time.Time
	wDeadline time.Time
	rTimer    *time.Timer
	wTimer    *time.Timer
	readChunk int
}

// Pipe returns a connected pair with unbounded buffers: Write never blocks, so
// neither side can dead-lock the other by not reading.
func Pipe() (*Conn, *Conn) { return PipeCap(0) }

// PipeCap is Pipe with at most limit unread bytes per direction (0 =
// unbounded); a Write blocks while the buffer is full (back-pressure).
func PipeCap(limit int) (*Conn, *Conn) {
	ab, ba := newHalf(limit), newHalf(limit)
	a := &Conn{rd: ba, wr: ab, name: "rawpeer-a"}
	b := &Conn{rd: ab, wr: ba, name: "rawpeer-b"}
	return a, b
}

type addr string

func (a addr) Network() string { return "rawpeer" }
func (a addr) String() string  { return string(a) }

func (c *Conn) LocalAddr() net.Addr { return addr(c.name) }
func (c *Conn) RemoteAddr() net.Addr {
	if c.name == "rawpeer-a" {
		return addr("rawpeer-b")
	}
	return addr("rawpeer-a")
}

// SetReadChunk limits the number of bytes a single Read returns (0 = no
// limit); used to exercise segment reassembly.
func (c *Conn) SetReadChunk(n int) {
	c.mu.Lock()
	c.readChunk = n
	c.mu.Unlock()
}

// BytesWritten is the number of bytes this end has written so far.
func (c *Conn) BytesWritten() int64 {
	c.wr.mu.Lock()
	defer c.wr.mu.Unlock()
	return c.wr.total
}

func (c *Conn) state() (closed bool, rd, wd time.Time, chunk int) {
	c.mu.Lock()
	defer c.mu.Unlock()
	return c.closed, c.rDeadline, c.wDeadline, c.readChunk
}

func (c *Conn) Read(p []byte) (int, error) {
	h := c.rd
	h.mu.Lock()
	defer h.mu.Unlock()
	for {
		closed, dl, _, chunk := c.state()
		if closed {
			return 0, io.ErrClosedPipe
		}
		if len(p) == 0 {
			return 0, nil
		}
		if len(h.buf) > 0 {
			n := len(p)
			if chunk > 0 && n > chunk {
				n = chunk
			}
			n = copy(p[:n], h.buf)
			h.buf = h.buf[n:]
			if len(h.buf) == 0 {
				h.buf = nil
			}
			h.cond.Broadcast() // room for a blocked writer
			return n, nil
		}
		if h.wclosed {
			return 0, io.EOF
		}
		if !dl.IsZero() && !time.Now().Before(dl) {
			return 0, os.ErrDeadlineExceeded
		}
		h.cond.Wait()
	}
}

func (c *Conn) Write(p []byte) (int, error) {
	h := c.wr
	h.mu.Lock()
	defer h.mu.Unlock()
	written := 0
	for {
		closed, _, dl, _ := c.state()
		if closed || h.rclosed {
			return written, io.ErrClosedPipe
		}
		if len(p) == 0 {
			return written, nil
		}
		room := len(p)
		if h.limit > 0 {
			room = h.limit - len(h.buf)
			if room > len(p) {
				room = len(p)
			}
		}
		if room > 0 {
			h.buf = append(h.buf, p[:room]...)
			h.total += int64(room)
			p = p[room:]
			written += room
			h.cond.Broadcast()
			continue
		}
		if !dl.IsZero() && !time.Now().Before(dl) {
			return written, os.ErrDeadlineExceeded
		}
		h.cond.Wait()
	}
}

func (c *Conn) Close() error {
	c.mu.Lock()
	if c.closed {
		c.mu.Unlock()
		return nil
	}
	c.closed = true
	if c.rTimer != nil {
		c.rTimer.Stop()
	}
	if c.wTimer != nil {
		c.wTimer.Stop()
	}
	c.mu.Unlock()
	c.wr.mu.Lock()
	c.wr.wclosed = true
	c.wr.cond.Broadcast()
	c.wr.mu.Unlock()
	c.rd.mu.Lock()
	c.rd.rclosed = true
	c.rd.cond.Broadcast()
	c.rd.mu.Unlock()
	return nil
}

func (c *Conn) SetDeadline(t time.Time) error {
	c.SetReadDeadline(t)
	c.SetWriteDeadline(t)
	return nil
}

func (c *Conn) SetReadDeadline(t time.Time) error {
	c.mu.Lock()
	if c.closed {
		c.mu.Unlock()
		return io.ErrClosedPipe
	}
	c.rDeadline = t
	if c.rTimer != nil {
		c.rTimer.Stop()
		c.rTimer = nil
	}
	if !t.IsZero() {
		c.rTimer = time.AfterFunc(time.Until(t), c.rd.wake)
	}
	c.mu.Unlock()
	c.rd.wake()
	return nil
}

func (c *Conn) SetWriteDeadline(t time.Time) error {
	c.mu.Lock()
	if c.closed {
		c.mu.Unlock()
		return io.ErrClosedPipe
	}
	c.wDeadline = t
	if c.wTimer != nil {
		c.wTimer.Stop()
		c.wTimer = nil
	}
	if !t.IsZero() {
		c.wTimer = time.AfterFunc(time.Until(t), c.wr.wake)
	}
	c.mu.Unlock()
	c.wr.wake()
	return nil
}
