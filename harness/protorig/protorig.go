// Package protorig builds protocol-level rigs for the monitors C10..C14: two
// real muxers over a netsim connection, real protocol.Protocol endpoints with
// harness-defined or library state maps, a generic test message type, and a
// trace collector for the verif hook events.
package protorig

import (
	"fmt"
	"runtime"
	"strings"
	"sync"
	"sync/atomic"
	"time"

	"github.com/blinklabs-io/gouroboros/cbor"
	"github.com/blinklabs-io/gouroboros/muxer"
	"github.com/blinklabs-io/gouroboros/protocol"

	"verifharness/netsim"
)

// ---------------------------------------------------------------- messages

// Msg is a generic mini-protocol message [type, payload].
type Msg struct {
	protocol.MessageBase
	Payload []byte
}

func NewMsg(t uint8, payload []byte) *Msg {
	return &Msg{MessageBase: protocol.MessageBase{MessageType: t}, Payload: payload}
}

// FromCbor is the codec for Msg (any type 0..255).
func FromCbor(msgType uint, data []byte) (protocol.Message, error) {
	m := &Msg{}
	if _, err := cbor.Decode(data, m); err != nil {
		return nil, fmt.Errorf("protorig: decode error: %w", err)
	}
	m.SetCbor(data)
	return m, nil
}

// Encoded returns the CBOR of [t, payload] written by hand (definite lengths,
// minimal headers) – the bytes a Msg is expected to have on the wire.
func Encoded(t uint8, payload []byte) []byte {
	out := []byte{0x82}
	if t < 24 {
		out = append(out, t)
	} else {
		out = append(out, 0x18, t)
	}
	n := len(payload)
	switch {
	case n < 24:
		out = append(out, 0x40|byte(n))
	case n <= 0xff:
		out = append(out, 0x58, byte(n))
	case n <= 0xffff:
		out = append(out, 0x59, byte(n>>8), byte(n))
	default:
		out = append(out, 0x5a, byte(n>>24), byte(n>>16), byte(n>>8), byte(n))
	}
	return append(out, payload...)
}

// EncodedOverhead is the number of header bytes Encoded adds for a payload of n bytes (type < 24).
func EncodedOverhead(n int) int {
	switch {
	case n < 24:
		return 3
	case n <= 0xff:
		return 4
	case n <= 0xffff:
		return 5
	}
	return 7
}

// ---------------------------------------------------------------- state maps

var (
	StStream = protocol.NewState(1, "Stream")
	StDone   = protocol.NewState(9, "Done")
	StIdle   = protocol.NewState(2, "Idle")
	StBusy   = protocol.NewState(3, "Busy")
)

// StreamMap: the client streams type-0 messages forever; type 1 ends.
func StreamMap(limit int, timeout time.Duration) protocol.StateMap {
	return protocol.StateMap{
		StStream: protocol.StateMapEntry{
			Agency: protocol.AgencyClient,
			Transitions: []protocol.StateTransition{
				{MsgType: 0, NewState: StStream},
				{MsgType: 1, NewState: StDone},
			},
			PendingMessageByteLimit: limit,
			Timeout:                 timeout,
		},
		StDone: protocol.StateMapEntry{Agency: protocol.AgencyNone},
	}
}

// PingPongMap: Idle(client) -0-> Busy(server) -1-> Idle ; Busy -3-> Busy (server
// may stream type 3 while busy) ; Idle -2-> Done.
func PingPongMap(idleLimit, busyLimit int, idleTimeout, busyTimeout time.Duration) protocol.StateMap {
	return protocol.StateMap{
		StIdle: protocol.StateMapEntry{
			Agency: protocol.AgencyClient,
			Transitions: []protocol.StateTransition{
				{MsgType: 0, NewState: StBusy},
				{MsgType: 2, NewState: StDone},
			},
			PendingMessageByteLimit: idleLimit,
			Timeout:                 idleTimeout,
		},
		StBusy: protocol.StateMapEntry{
			Agency: protocol.AgencyServer,
			Transitions: []protocol.StateTransition{
				{MsgType: 1, NewState: StIdle},
				{MsgType: 3, NewState: StBusy},
			},
			PendingMessageByteLimit: busyLimit,
			Timeout:                 busyTimeout,
		},
		StDone: protocol.StateMapEntry{Agency: protocol.AgencyNone},
	}
}

// ---------------------------------------------------------------- rig

// Rig is two real muxers over a netsim connection.
type Rig struct {
	CA, CB     *netsim.Conn
	MA, MB     *muxer.Muxer
	muxErr     [2][]error
	mu         sync.Mutex
	muxDone    [2]chan struct{}
	ErrA, ErrB chan error // protocol error channels (what a Connection would read)
}

func NewRig() *Rig {
	r := &Rig{}
	r.CA, r.CB = netsim.Pipe()
	r.MA = muxer.New(r.CA)
	r.MB = muxer.New(r.CB)
	r.ErrA = make(chan error, 10)
	r.ErrB = make(chan error, 10)
	for i, m := range []*muxer.Muxer{r.MA, r.MB} {
		i, m := i, m
		r.muxDone[i] = make(chan struct{})
		go func() {
			defer close(r.muxDone[i])
			for e := range m.ErrorChan() {
				r.mu.Lock()
				r.muxErr[i] = append(r.muxErr[i], e)
				r.mu.Unlock()
			}
		}()
	}
	return r
}

// Start starts both muxers' read loops (after the endpoints were registered).
func (r *Rig) Start() {
	r.MA.Start()
	r.MB.Start()
}

// MuxErrors returns the errors the muxers reported so far.
func (r *Rig) MuxErrors() (a, b []error) {
	r.mu.Lock()
	defer r.mu.Unlock()
	return append([]error(nil), r.muxErr[0]...), append([]error(nil), r.muxErr[1]...)
}

// ProtoErrors drains the protocol error channels without blocking.
func (r *Rig) ProtoErrors() (a, b []error) {
	for {
		select {
		case e := <-r.ErrA:
			a = append(a, e)
			continue
		default:
		}
		break
	}
	for {
		select {
		case e := <-r.ErrB:
			b = append(b, e)
			continue
		default:
		}
		break
	}
	return
}

// Endpoint creates (does not start) a Protocol on side 0 (A) or 1 (B).
func (r *Rig) Endpoint(side int, cfg protocol.ProtocolConfig) *protocol.Protocol {
	if side == 0 {
		cfg.Muxer = r.MA
		cfg.ErrorChan = r.ErrA
	} else {
		cfg.Muxer = r.MB
		cfg.ErrorChan = r.ErrB
	}
	return protocol.New(cfg)
}

// Close stops both muxers and waits for their error channels to close.
func (r *Rig) Close() {
	r.MA.Stop()
	r.MB.Stop()
	<-r.muxDone[0]
	<-r.muxDone[1]
}

// ---------------------------------------------------------------- trace

// Ev is a hook event with a global sequence number.
type Ev struct {
	Seq uint64
	protocol.VerifEvent
}

// Trace collects hook events (process-global: one at a time).
type Trace struct {
	mu   sync.Mutex
	evs  []Ev
	seq  atomic.Uint64
	hook func(Ev) // optional online observer, called under the trace mutex
}

// StartTrace installs the sink. online may be nil.
func StartTrace(online func(Ev)) *Trace {
	t := &Trace{hook: online}
	protocol.VerifSetSink(func(e protocol.VerifEvent) {
		t.mu.Lock()
		ev := Ev{Seq: t.seq.Add(1), VerifEvent: e}
		t.evs = append(t.evs, ev)
		if t.hook != nil {
			t.hook(ev)
		}
		t.mu.Unlock()
	})
	return t
}

// Stop removes the sink and returns all events.
func (t *Trace) Stop() []Ev {
	protocol.VerifSetSink(nil)
	t.mu.Lock()
	defer t.mu.Unlock()
	return append([]Ev(nil), t.evs...)
}

// Snapshot returns the events so far.
func (t *Trace) Snapshot() []Ev {
	t.mu.Lock()
	defer t.mu.Unlock()
	return append([]Ev(nil), t.evs...)
}

// Of filters events of one protocol instance.
func Of(evs []Ev, p *protocol.Protocol) []Ev {
	var out []Ev
	for _, e := range evs {
		if e.Proto == p {
			out = append(out, e)
		}
	}
	return out
}

// LastParked holds the parked library goroutines seen by the last WaitUntil
// call that returned frozen=true (for witnesses).
var LastParked []string

// WaitUntil polls cond; returns ok, or frozen=true when progress() did not
// change for `quiet` AND a goroutine dump shows no library / CBOR goroutine
// still running or runnable (a merely slow machine keeps extending the
// window), or neither after `hard` (inconclusive).
func WaitUntil(cond func() bool, progress func() int64, quiet, hard time.Duration) (ok bool, frozen bool) {
	start := time.Now()
	last := progress()
	lastChange := time.Now()
	for {
		if cond() {
			return true, false
		}
		time.Sleep(time.Millisecond)
		if p := progress(); p != last {
			last = p
			lastChange = time.Now()
		}
		if time.Since(lastChange) > quiet {
			busy, parked := StallDump()
			if cond() {
				return true, false
			}
			if len(busy) == 0 && progress() == last {
				LastParked = parked
				return false, true
			}
			lastChange = time.Now() // still computing somewhere: keep waiting
		}
		if time.Since(start) > hard {
			return false, false
		}
	}
}

// WaitDone waits for a channel with a watchdog.
func WaitDone(ch <-chan struct{}, d time.Duration) bool {
	select {
	case <-ch:
		return true
	case <-time.After(d):
		return false
	}
}

// StallDump takes a goroutine dump and classifies it: busy lists goroutines
// that are running / runnable (i.e. still computing, or waiting for a CPU)
// inside library or CBOR frames; parked lists the library goroutines that are
// blocked. A frozen progress counter is only a stall when nothing is busy.
func StallDump() (busy []string, parked []string) {
	take := func() (b, p []string) {
		buf := make([]byte, 4<<20)
		buf = buf[:runtime.Stack(buf, true)]
		for _, blk := range strings.Split(string(buf), "\n\n") {
			if !strings.Contains(blk, "gouroboros/") && !strings.Contains(blk, "fxamacker/") {
				continue
			}
			if strings.Contains(blk, "protorig.StallDump") {
				continue
			}
			nl := strings.IndexByte(blk, '\n')
			if nl < 0 {
				continue
			}
			head := blk[:nl]
			// first library frame
			frame := ""
			for _, l := range strings.Split(blk[nl+1:], "\n") {
				if strings.Contains(l, "gouroboros/") && !strings.HasPrefix(l, "\t") {
					frame = strings.TrimSpace(l)
					if i := strings.LastIndex(frame, "("); i > 0 {
						frame = frame[:i]
					}
					break
				}
			}
			desc := head + " " + frame
			if strings.Contains(head, "[running") || strings.Contains(head, "[runnable") || strings.Contains(head, "[syscall") {
				b = append(b, desc)
			} else {
				p = append(p, desc)
			}
		}
		return
	}
	b1, _ := take()
	time.Sleep(300 * time.Millisecond)
	b2, p2 := take()
	return append(b1, b2...), p2
}
