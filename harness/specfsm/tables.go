package specfsm

// The tables. Every function returns a fresh, validated automaton.
//
// Conventions: "Client" is the side that opens the mini-protocol (initiator),
// "Server" the responder; the terminal state is always called Done. The number
// after a message name is its wire tag.

const (
	srcSpec = "ouroboros-network: The Shelley Networking Protocol (network-spec), mini-protocol chapter"
	srcCIP  = "CIP-0137 (Decentralized Message Queue), mini-protocol sections"
)

// Handshake (network-spec 3.6). The pseudo message MsgReplyVersions of a TCP
// simultaneous open (a ProposeVersions received in Confirm) is never sent
// explicitly and is not part of the table.
func Handshake() *Automaton {
	return must(&Automaton{
		Name: "handshake", Source: srcSpec + " 'Handshake'", Initial: "Propose",
		Msgs: []Msg{m("ProposeVersions", 0), m("AcceptVersion", 1), m("Refuse", 2), m("QueryReply", 3)},
		States: []State{
			st("Propose", Client, edges{"ProposeVersions": "Confirm"}),
			st("Confirm", Server, edges{"AcceptVersion": "Done", "Refuse": "Done", "QueryReply": "Done"}),
			st("Done", Nobody, nil),
		},
	})
}

// ChainSync (network-spec 3.7), identical for node-to-node and node-to-client.
func ChainSync() *Automaton {
	return must(&Automaton{
		Name: "chain-sync", Source: srcSpec + " 'Chain-Sync'", Initial: "Idle",
		Msgs: []Msg{
			m("RequestNext", 0), m("AwaitReply", 1), m("RollForward", 2), m("RollBackward", 3),
			m("FindIntersect", 4), m("IntersectFound", 5), m("IntersectNotFound", 6), m("Done", 7),
		},
		States: []State{
			st("Idle", Client, edges{"RequestNext": "CanAwait", "FindIntersect": "Intersect", "Done": "Done"}),
			st("CanAwait", Server, edges{"AwaitReply": "MustReply", "RollForward": "Idle", "RollBackward": "Idle"}),
			st("MustReply", Server, edges{"RollForward": "Idle", "RollBackward": "Idle"}),
			st("Intersect", Server, edges{"IntersectFound": "Idle", "IntersectNotFound": "Idle"}),
			st("Done", Nobody, nil),
		},
	})
}

// BlockFetch (network-spec 3.8).
func BlockFetch() *Automaton {
	return must(&Automaton{
		Name: "block-fetch", Source: srcSpec + " 'Block-Fetch'", Initial: "Idle",
		Msgs: []Msg{
			m("RequestRange", 0), m("ClientDone", 1), m("StartBatch", 2), m("NoBlocks", 3), m("Block", 4), m("BatchDone", 5),
		},
		States: []State{
			st("Idle", Client, edges{"RequestRange": "Busy", "ClientDone": "Done"}),
			st("Busy", Server, edges{"StartBatch": "Streaming", "NoBlocks": "Idle"}),
			st("Streaming", Server, edges{"Block": "Streaming", "BatchDone": "Idle"}),
			st("Done", Nobody, nil),
		},
	})
}

// TxSubmission2 (network-spec 3.9). RequestTxIds is one wire message whose
// blocking flag selects the successor state.
func TxSubmission2() *Automaton {
	return must(&Automaton{
		Name: "tx-submission2", Source: srcSpec + " 'Tx-Submission-2'", Initial: "Init",
		Msgs: []Msg{
			m("Init", 6), mv("RequestTxIds", 0, "blocking"), mv("RequestTxIds", 0, "non-blocking"),
			m("ReplyTxIds", 1), m("RequestTxs", 2), m("ReplyTxs", 3), m("Done", 4),
		},
		States: []State{
			st("Init", Client, edges{"Init": "Idle"}),
			st("Idle", Server, edges{"RequestTxIds[blocking]": "TxIdsBlocking", "RequestTxIds[non-blocking]": "TxIdsNonBlocking", "RequestTxs": "Txs"}),
			st("TxIdsBlocking", Client, edges{"ReplyTxIds": "Idle", "Done": "Done"}),
			st("TxIdsNonBlocking", Client, edges{"ReplyTxIds": "Idle"}),
			st("Txs", Client, edges{"ReplyTxs": "Idle"}),
			st("Done", Nobody, nil),
		},
	})
}

// KeepAlive (network-spec 3.10).
func KeepAlive() *Automaton {
	return must(&Automaton{
		Name: "keep-alive", Source: srcSpec + " 'Keep-Alive'", Initial: "Client",
		Msgs: []Msg{m("KeepAlive", 0), m("KeepAliveResponse", 1), m("Done", 2)},
		States: []State{
			st("Client", Client, edges{"KeepAlive": "Server", "Done": "Done"}),
			st("Server", Server, edges{"KeepAliveResponse": "Client"}),
			st("Done", Nobody, nil),
		},
	})
}

// PeerSharing (network-spec 3.14).
func PeerSharing() *Automaton {
	return must(&Automaton{
		Name: "peer-sharing", Source: srcSpec + " 'Peer-Sharing'", Initial: "Idle",
		Msgs: []Msg{m("ShareRequest", 0), m("SharePeers", 1), m("Done", 2)},
		States: []State{
			st("Idle", Client, edges{"ShareRequest": "Busy", "Done": "Done"}),
			st("Busy", Server, edges{"SharePeers": "Idle"}),
			st("Done", Nobody, nil),
		},
	})
}

// LocalTxSubmission (network-spec 3.11).
func LocalTxSubmission() *Automaton {
	return must(&Automaton{
		Name: "local-tx-submission", Source: srcSpec + " 'Local Tx-Submission'", Initial: "Idle",
		Msgs: []Msg{m("SubmitTx", 0), m("AcceptTx", 1), m("RejectTx", 2), m("Done", 3)},
		States: []State{
			st("Idle", Client, edges{"SubmitTx": "Busy", "Done": "Done"}),
			st("Busy", Server, edges{"AcceptTx": "Idle", "RejectTx": "Idle"}),
			st("Done", Nobody, nil),
		},
	})
}

// LocalStateQuery (network-spec 3.12). Acquire / ReAcquire come in three wire
// forms each (specific point, volatile tip, immutable tip).
func LocalStateQuery() *Automaton {
	return must(&Automaton{
		Name: "local-state-query", Source: srcSpec + " 'Local State Query'", Initial: "Idle",
		Msgs: []Msg{
			m("Acquire", 0), m("Acquired", 1), m("Failure", 2), m("Query", 3), m("Result", 4), m("Release", 5),
			m("ReAcquire", 6), m("Done", 7), m("AcquireVolatileTip", 8), m("ReAcquireVolatileTip", 9),
			m("AcquireImmutableTip", 10), m("ReAcquireImmutableTip", 11),
		},
		States: []State{
			st("Idle", Client, edges{"Acquire": "Acquiring", "AcquireVolatileTip": "Acquiring", "AcquireImmutableTip": "Acquiring", "Done": "Done"}),
			st("Acquiring", Server, edges{"Acquired": "Acquired", "Failure": "Idle"}),
			st("Acquired", Client, edges{"Query": "Querying", "ReAcquire": "Acquiring", "ReAcquireVolatileTip": "Acquiring",
				"ReAcquireImmutableTip": "Acquiring", "Release": "Idle"}),
			st("Querying", Server, edges{"Result": "Acquired"}),
			st("Done", Nobody, nil),
		},
	})
}

// LocalTxMonitor (network-spec 3.13). MsgAcquire and MsgAwaitAcquire are the
// same wire message [1]; it is one letter used in Idle and in Acquired. Each
// request has its own busy state, which admits only the matching reply.
// (The GetMeasures pair of the newest node-to-client versions is not part of
// the table, see DESIGN.md appendix A.)
func LocalTxMonitor() *Automaton {
	return must(&Automaton{
		Name: "local-tx-monitor", Source: srcSpec + " 'Local Tx-Monitor'", Initial: "Idle",
		Msgs: []Msg{
			m("Done", 0), m("Acquire", 1), m("Acquired", 2), m("Release", 3),
			m("NextTx", 5), m("ReplyNextTx", 6), m("HasTx", 7), m("ReplyHasTx", 8), m("GetSizes", 9), m("ReplyGetSizes", 10),
		},
		States: []State{
			st("Idle", Client, edges{"Acquire": "Acquiring", "Done": "Done"}),
			st("Acquiring", Server, edges{"Acquired": "Acquired"}),
			st("Acquired", Client, edges{"Acquire": "Acquiring", "Release": "Idle",
				"NextTx": "BusyNextTx", "HasTx": "BusyHasTx", "GetSizes": "BusyGetSizes"}),
			st("BusyNextTx", Server, edges{"ReplyNextTx": "Acquired"}),
			st("BusyHasTx", Server, edges{"ReplyHasTx": "Acquired"}),
			st("BusyGetSizes", Server, edges{"ReplyGetSizes": "Acquired"}),
			st("Done", Nobody, nil),
		},
	})
}

// ---------------------------------------------------------------- drafts: DMQ

// MessageSubmission (CIP-0137 "Message Submission mini-protocol"): the
// tx-submission2 automaton over message ids / messages, with its own tags. This
// is the variant with an Init state ("V1" in the repository); the repository's
// "V2" variant has no specification text we could establish and is left out.
func MessageSubmission() *Automaton {
	return must(&Automaton{
		Name: "message-submission", Source: srcCIP + " 'Message Submission'", Draft: true, Initial: "Init",
		Msgs: []Msg{
			m("Init", 0), mv("RequestMessageIds", 1, "blocking"), mv("RequestMessageIds", 1, "non-blocking"),
			m("ReplyMessageIds", 2), m("RequestMessages", 3), m("ReplyMessages", 4), m("Done", 5),
		},
		States: []State{
			st("Init", Client, edges{"Init": "Idle"}),
			st("Idle", Server, edges{"RequestMessageIds[blocking]": "MessageIdsBlocking",
				"RequestMessageIds[non-blocking]": "MessageIdsNonBlocking", "RequestMessages": "Messages"}),
			st("MessageIdsBlocking", Client, edges{"ReplyMessageIds": "Idle", "Done": "Done"}),
			st("MessageIdsNonBlocking", Client, edges{"ReplyMessageIds": "Idle"}),
			st("Messages", Client, edges{"ReplyMessages": "Idle"}),
			st("Done", Nobody, nil),
		},
	})
}

// LocalMessageSubmission (CIP-0137 "Local Message Submission mini-protocol").
func LocalMessageSubmission() *Automaton {
	return must(&Automaton{
		Name: "local-message-submission", Source: srcCIP + " 'Local Message Submission'", Draft: true, Initial: "Idle",
		Msgs: []Msg{m("SubmitMessage", 0), m("AcceptMessage", 1), m("RejectMessage", 2), m("Done", 3)},
		States: []State{
			st("Idle", Client, edges{"SubmitMessage": "Busy", "Done": "Done"}),
			st("Busy", Server, edges{"AcceptMessage": "Idle", "RejectMessage": "Idle"}),
			st("Done", Nobody, nil),
		},
	})
}

// LocalMessageNotification (CIP-0137 "Local Message Notification
// mini-protocol"). RequestMessages is one wire message [0, isBlocking].
func LocalMessageNotification() *Automaton {
	return must(&Automaton{
		Name: "local-message-notification", Source: srcCIP + " 'Local Message Notification'", Draft: true, Initial: "Idle",
		Msgs: []Msg{
			mv("RequestMessages", 0, "non-blocking"), mv("RequestMessages", 0, "blocking"),
			m("ReplyMessagesNonBlocking", 1), m("ReplyMessagesBlocking", 2), m("ClientDone", 3),
		},
		States: []State{
			st("Idle", Client, edges{"RequestMessages[non-blocking]": "BusyNonBlocking", "RequestMessages[blocking]": "BusyBlocking", "ClientDone": "Done"}),
			st("BusyNonBlocking", Server, edges{"ReplyMessagesNonBlocking": "Idle"}),
			st("BusyBlocking", Server, edges{"ReplyMessagesBlocking": "Idle"}),
			st("Done", Nobody, nil),
		},
	})
}

// -------------------------------------------------------------- drafts: Leios

// LeiosNotify (README of /repo/protocol/leiosnotify, CIP-0164 draft).
func LeiosNotify() *Automaton {
	return must(&Automaton{
		Name: "leios-notify", Source: "CIP-0164 draft as quoted by /repo/protocol/leiosnotify/README.md", Draft: true, Initial: "Idle",
		Msgs: []Msg{
			m("NotificationRequestNext", 0), m("BlockAnnouncement", 1), m("BlockOffer", 2), m("BlockTxsOffer", 3), m("VotesOffer", 4), m("Done", 5),
		},
		States: []State{
			st("Idle", Client, edges{"NotificationRequestNext": "Busy", "Done": "Done"}),
			st("Busy", Server, edges{"BlockAnnouncement": "Idle", "BlockOffer": "Idle", "BlockTxsOffer": "Idle", "VotesOffer": "Idle"}),
			st("Done", Nobody, nil),
		},
	})
}

// LeiosFetch (README of /repo/protocol/leiosfetch, CIP-0164 draft). NoBlock /
// NoBlockTxs (tags 10 / 11) are the README's "not found" replies.
func LeiosFetch() *Automaton {
	return must(&Automaton{
		Name: "leios-fetch", Source: "CIP-0164 draft as quoted by /repo/protocol/leiosfetch/README.md", Draft: true, Initial: "Idle",
		Msgs: []Msg{
			m("BlockRequest", 0), m("Block", 1), m("BlockTxsRequest", 2), m("BlockTxs", 3), m("VotesRequest", 4), m("Votes", 5),
			m("BlockRangeRequest", 6), m("LastBlockAndTxsInRange", 7), m("NextBlockAndTxsInRange", 8), m("Done", 9),
			m("NoBlock", 10), m("NoBlockTxs", 11),
		},
		States: []State{
			st("Idle", Client, edges{"BlockRequest": "Block", "BlockTxsRequest": "BlockTxs", "VotesRequest": "Votes",
				"BlockRangeRequest": "BlockRange", "Done": "Done"}),
			st("Block", Server, edges{"Block": "Idle", "NoBlock": "Idle"}),
			st("BlockTxs", Server, edges{"BlockTxs": "Idle", "NoBlockTxs": "Idle"}),
			st("Votes", Server, edges{"Votes": "Idle"}),
			st("BlockRange", Server, edges{"NextBlockAndTxsInRange": "BlockRange", "LastBlockAndTxsInRange": "Idle"}),
			st("Done", Nobody, nil),
		},
	})
}

// LeiosVotes (README / doc.go of /repo/protocol/leiosvotes, CIP-0164 draft):
// VotesRequestNext(N) hands the server N tokens; each Vote spends one, the
// last one returns to Idle. The counter is unfolded for N in {1, 2}.
func LeiosVotes() *Automaton {
	return must(&Automaton{
		Name: "leios-votes", Source: "CIP-0164 draft as quoted by /repo/protocol/leiosvotes/README.md", Draft: true, Initial: "Idle",
		Msgs: []Msg{mv("VotesRequestNext", 0, "count=1"), mv("VotesRequestNext", 0, "count=2"), m("Vote", 1), m("Done", 2)},
		States: []State{
			st("Idle", Client, edges{"VotesRequestNext[count=1]": "Busy1", "VotesRequestNext[count=2]": "Busy2", "Done": "Done"}),
			st("Busy2", Server, edges{"Vote": "Busy1"}),
			st("Busy1", Server, edges{"Vote": "Idle"}),
			st("Done", Nobody, nil),
		},
	})
}
