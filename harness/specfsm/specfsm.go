// Package specfsm holds the mini-protocol automata of the Ouroboros network
// specification, typed in by hand as tables
//
//	state -> (agency, message -> next state)
//
// They are the independent side of C16 (and usable by C11 / C12): nothing in
// this package imports gouroboros or is derived from its StateMaps. Message
// tags are the wire tags of the specification's CDDL.
//
// Sources: "The Shelley Networking Protocol" (ouroboros-network, mini-protocol
// chapters) for handshake, chain-sync, block-fetch, tx-submission2, keep-alive,
// peer-sharing, local-tx-submission, local-state-query, local-tx-monitor;
// CIP-0137 for the DMQ protocols; the protocol READMEs in the repository (which
// quote CIP-0164) for the Leios protocols. The latter two groups are drafts:
// Automaton.Draft is set and users report divergences with lower confidence.
package specfsm

import (
	"fmt"
	"sort"
)

// Agency says which side may send in a state.
type Agency uint8

const (
	Nobody Agency = iota // terminal state
	Client               // the initiator side of the mini-protocol
	Server               // the responder side
)

func (a Agency) String() string { return [...]string{"nobody", "client", "server"}[a] }

// Msg is one letter of a protocol's alphabet. Two letters may share a wire tag
// when the specification distinguishes them by a field (blocking flag, count);
// Variant names the distinguishing value.
type Msg struct {
	Key     string // unique inside the protocol, e.g. "RequestTxIds[blocking]"
	Tag     uint8  // wire tag (first element of the CBOR array)
	Variant string // "", "blocking", "non-blocking", "count=2" ...
}

// State is one row of the table.
type State struct {
	Name   string
	Agency Agency
	Next   map[string]string // message key -> next state
}

// Automaton is one mini-protocol.
type Automaton struct {
	Name    string
	Source  string
	Draft   bool
	Initial string
	Msgs    []Msg
	States  []State

	byName map[string]*State
	byKey  map[string]*Msg
}

type edges map[string]string

func st(name string, a Agency, next edges) State { return State{Name: name, Agency: a, Next: next} }
func m(key string, tag uint8) Msg                { return Msg{Key: key, Tag: tag} }
func mv(name string, tag uint8, variant string) Msg {
	return Msg{Key: name + "[" + variant + "]", Tag: tag, Variant: variant}
}

func (a *Automaton) index() {
	a.byName = map[string]*State{}
	a.byKey = map[string]*Msg{}
	for i := range a.States {
		a.byName[a.States[i].Name] = &a.States[i]
	}
	for i := range a.Msgs {
		a.byKey[a.Msgs[i].Key] = &a.Msgs[i]
	}
}

// State returns the row of a state (nil if unknown).
func (a *Automaton) State(name string) *State { return a.byName[name] }

// Msg returns the letter with the given key (nil if unknown).
func (a *Automaton) Msg(key string) *Msg { return a.byKey[key] }

// Step returns the successor of state under message key.
func (a *Automaton) Step(state, key string) (string, bool) {
	s := a.byName[state]
	if s == nil {
		return "", false
	}
	n, ok := s.Next[key]
	return n, ok
}

// Terminal reports whether state is a terminal state (nobody has agency).
func (a *Automaton) Terminal(state string) bool {
	s := a.byName[state]
	return s != nil && s.Agency == Nobody
}

// Keys returns the alphabet in table order.
func (a *Automaton) Keys() []string {
	out := make([]string, len(a.Msgs))
	for i, x := range a.Msgs {
		out[i] = x.Key
	}
	return out
}

// EdgeCount is the number of transitions of the table.
func (a *Automaton) EdgeCount() int {
	n := 0
	for _, s := range a.States {
		n += len(s.Next)
	}
	return n
}

// EdgeID names a transition for coverage bookkeeping.
func EdgeID(from, key, to string) string { return from + " -" + key + "-> " + to }

// AllEdges lists every transition as EdgeID, sorted.
func (a *Automaton) AllEdges() []string {
	var out []string
	for _, s := range a.States {
		for k, to := range s.Next {
			out = append(out, EdgeID(s.Name, k, to))
		}
	}
	sort.Strings(out)
	return out
}

// Run feeds a sequence of message keys from the initial state; ok=false when
// the sequence leaves the language (at index bad).
func (a *Automaton) Run(keys []string) (state string, ok bool, bad int) {
	state = a.Initial
	for i, k := range keys {
		n, ok := a.Step(state, k)
		if !ok {
			return state, false, i
		}
		state = n
	}
	return state, true, -1
}

// Validate checks the table for typing mistakes: unknown states / letters,
// terminal states with edges, non-terminal states without, unreachable states,
// unused letters, duplicate names.
func (a *Automaton) Validate() error {
	a.index()
	if len(a.byName) != len(a.States) {
		return fmt.Errorf("%s: duplicate state name", a.Name)
	}
	if len(a.byKey) != len(a.Msgs) {
		return fmt.Errorf("%s: duplicate message key", a.Name)
	}
	if a.byName[a.Initial] == nil {
		return fmt.Errorf("%s: unknown initial state %q", a.Name, a.Initial)
	}
	used := map[string]bool{}
	terminals := 0
	for _, s := range a.States {
		if s.Agency == Nobody {
			terminals++
			if len(s.Next) != 0 {
				return fmt.Errorf("%s: terminal state %s has edges", a.Name, s.Name)
			}
			continue
		}
		if len(s.Next) == 0 {
			return fmt.Errorf("%s: state %s has agency but no edges", a.Name, s.Name)
		}
		for k, to := range s.Next {
			if a.byKey[k] == nil {
				return fmt.Errorf("%s: state %s uses unknown message %q", a.Name, s.Name, k)
			}
			if a.byName[to] == nil {
				return fmt.Errorf("%s: state %s -%s-> unknown state %q", a.Name, s.Name, k, to)
			}
			used[k] = true
		}
	}
	if terminals == 0 {
		return fmt.Errorf("%s: no terminal state", a.Name)
	}
	for _, x := range a.Msgs {
		if !used[x.Key] {
			return fmt.Errorf("%s: message %s is never used", a.Name, x.Key)
		}
	}
	seen := map[string]bool{a.Initial: true}
	work := []string{a.Initial}
	for len(work) > 0 {
		s := a.byName[work[0]]
		work = work[1:]
		for _, to := range s.Next {
			if !seen[to] {
				seen[to] = true
				work = append(work, to)
			}
		}
	}
	for _, s := range a.States {
		if !seen[s.Name] {
			return fmt.Errorf("%s: state %s is unreachable", a.Name, s.Name)
		}
	}
	return nil
}

// All returns every automaton (validated; a typing mistake panics at start-up).
func All() []*Automaton {
	out := []*Automaton{
		Handshake(), ChainSync(), BlockFetch(), TxSubmission2(), KeepAlive(), PeerSharing(),
		LocalTxSubmission(), LocalStateQuery(), LocalTxMonitor(),
		MessageSubmission(), LocalMessageSubmission(), LocalMessageNotification(),
		LeiosNotify(), LeiosFetch(), LeiosVotes(),
	}
	return out
}

// ByName returns the automaton with the given name (nil if unknown).
func ByName(name string) *Automaton {
	for _, a := range All() {
		if a.Name == name {
			return a
		}
	}
	return nil
}

func must(a *Automaton) *Automaton {
	if err := a.Validate(); err != nil {
		panic("specfsm: " + err.Error())
	}
	return a
}
