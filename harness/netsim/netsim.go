// Package netsim provides an in-memory net.Conn pair whose reads follow a
// fragmentation script, a wire tap, fault injection (close after n bytes), and
// an independent encoder / parser for the 8-byte muxer segment framing. It uses
// no gouroboros code.
package netsim

import (
	"encoding/binary"
	"errors"
	"io"
	"net"
	"sync"
	"sync/atomic"
	"time"
)

// Seq is a global sequence counter usable by monitors to stamp events.
var Seq atomic.Uint64

// ChunkFunc returns the maximum number of bytes the next Read may deliver
// (values < 1 are treated as 1).
type ChunkFunc func() int

// TapRecord is one Write call observed on a direction.
type TapRecord struct {
	Seq  uint64
	Data []byte
}

type halfPipe struct {
	mu       sync.Mutex
	cond     *sync.Cond
	blocks   [][]byte // pending data, oldest first
	pending  int      // total bytes in blocks
	capacity int      // writes block while pending >= capacity (back-pressure like a socket buffer)
	closed   bool // writer side closed: reader gets EOF after draining
	rclosed  bool // reader side closed: writes fail
	chunk    ChunkFunc
	tap      []TapRecord
	tapOn    bool
	written  int
	nread    int
	closeAt  int // close the whole connection when written reaches this (0 = never)
	onCloseA func()
}

func newHalf() *halfPipe {
	h := &halfPipe{capacity: 1 << 20}
	h.cond = sync.NewCond(&h.mu)
	return h
}

// Conn is one end of the pair.
type Conn struct {
	rd, wr *halfPipe
	name   string
	once   sync.Once
	peer   *Conn
}

type addr string

func (a addr) Network() string { return "netsim" }
func (a addr) String() string  { return string(a) }

// Pipe returns the two ends of an in-memory connection.
func Pipe() (*Conn, *Conn) {
	ab, ba := newHalf(), newHalf()
	a := &Conn{rd: ba, wr: ab, name: "A"}
	b := &Conn{rd: ab, wr: ba, name: "B"}
	a.peer, b.peer = b, a
	return a, b
}

// SetReadChunks installs the fragmentation script for reads on this end.
func (c *Conn) SetReadChunks(f ChunkFunc) {
	c.rd.mu.Lock()
	c.rd.chunk = f
	c.rd.mu.Unlock()
}

// SetCapacity sets how many unread bytes written on this end may be pending
// before Write blocks (default 1 MiB).
func (c *Conn) SetCapacity(n int) {
	c.wr.mu.Lock()
	c.wr.capacity = n
	c.wr.mu.Unlock()
}

// EnableTap records every Write made on this end.
func (c *Conn) EnableTap() {
	c.wr.mu.Lock()
	c.wr.tapOn = true
	c.wr.mu.Unlock()
}

// Tap returns the writes recorded on this end so far.
func (c *Conn) Tap() []TapRecord {
	c.wr.mu.Lock()
	defer c.wr.mu.Unlock()
	out := make([]TapRecord, len(c.wr.tap))
	copy(out, c.wr.tap)
	return out
}

// TapBytes returns the concatenation of all writes made on this end.
func (c *Conn) TapBytes() []byte {
	recs := c.Tap()
	total := 0
	for _, t := range recs {
		total += len(t.Data)
	}
	out := make([]byte, 0, total)
	for _, t := range recs {
		out = append(out, t.Data...)
	}
	return out
}

// CloseAfterWritten closes the connection once this end has written n bytes in
// total (the write that crosses the boundary is truncated at it).
func (c *Conn) CloseAfterWritten(n int) {
	c.wr.mu.Lock()
	c.wr.closeAt = n
	c.wr.mu.Unlock()
}

// ReadCount returns the number of bytes read on this end so far.
func (c *Conn) ReadCount() int {
	c.rd.mu.Lock()
	defer c.rd.mu.Unlock()
	return c.rd.nread
}

// Written returns the number of bytes written on this end.
func (c *Conn) Written() int {
	c.wr.mu.Lock()
	defer c.wr.mu.Unlock()
	return c.wr.written
}

func (c *Conn) Read(p []byte) (int, error) {
	h := c.rd
	h.mu.Lock()
	defer h.mu.Unlock()
	for h.pending == 0 {
		if h.rclosed {
			return 0, io.ErrClosedPipe
		}
		if h.closed {
			return 0, io.EOF
		}
		h.cond.Wait()
	}
	if h.rclosed {
		return 0, io.ErrClosedPipe
	}
	if len(p) == 0 {
		return 0, nil
	}
	n := len(p)
	if h.chunk != nil {
		k := h.chunk()
		if k < 1 {
			k = 1
		}
		if k < n {
			n = k
		}
	}
	if n > h.pending {
		n = h.pending
	}
	got := 0
	for got < n {
		b := h.blocks[0]
		k := copy(p[got:n], b)
		got += k
		if k == len(b) {
			h.blocks = h.blocks[1:]
		} else {
			h.blocks[0] = b[k:]
		}
	}
	h.pending -= n
	h.nread += n
	h.cond.Broadcast()
	return n, nil
}

func (c *Conn) Write(p []byte) (int, error) {
	h := c.wr
	h.mu.Lock()
	for h.pending >= h.capacity && !h.closed && !h.rclosed {
		h.cond.Wait()
	}
	if h.closed || h.rclosed {
		h.mu.Unlock()
		return 0, io.ErrClosedPipe
	}
	data := p
	closeNow := false
	if h.closeAt > 0 && h.written+len(p) >= h.closeAt {
		data = p[:h.closeAt-h.written]
		closeNow = true
	}
	cp := make([]byte, len(data))
	copy(cp, data)
	if len(cp) > 0 {
		h.blocks = append(h.blocks, cp)
		h.pending += len(cp)
	}
	h.written += len(cp)
	if h.tapOn {
		h.tap = append(h.tap, TapRecord{Seq: Seq.Add(1), Data: cp})
	}
	h.cond.Broadcast()
	h.mu.Unlock()
	if closeNow {
		c.Close()
		if len(data) < len(p) {
			return len(data), io.ErrClosedPipe
		}
	}
	return len(p), nil
}

// Close closes both directions: the peer reads EOF after draining what was
// written, local reads fail immediately.
func (c *Conn) Close() error {
	c.once.Do(func() {
		c.wr.mu.Lock()
		c.wr.closed = true
		c.wr.cond.Broadcast()
		c.wr.mu.Unlock()
		c.rd.mu.Lock()
		c.rd.rclosed = true
		c.rd.cond.Broadcast()
		c.rd.mu.Unlock()
	})
	return nil
}

// Closed reports whether Close was called on this end.
func (c *Conn) Closed() bool {
	c.wr.mu.Lock()
	defer c.wr.mu.Unlock()
	return c.wr.closed
}

func (c *Conn) LocalAddr() net.Addr                { return addr("netsim-" + c.name) }
func (c *Conn) RemoteAddr() net.Addr               { return addr("netsim-" + c.peer.name) }
func (c *Conn) SetDeadline(t time.Time) error      { return nil }
func (c *Conn) SetReadDeadline(t time.Time) error  { return nil }
func (c *Conn) SetWriteDeadline(t time.Time) error { return nil }

// ---------------------------------------------------------------- segments

// Seg is a muxer segment as seen on the wire.
type Seg struct {
	Timestamp uint32
	Proto     uint16 // without the direction bit
	Response  bool   // direction bit set
	Payload   []byte
	Offset    int // offset of the header in the stream
}

// EncodeSeg frames payload (len <= 65535; larger lengths are truncated into the
// 16-bit field on purpose only by callers that build hostile input).
func EncodeSeg(proto uint16, response bool, payload []byte) []byte {
	out := make([]byte, 8+len(payload))
	binary.BigEndian.PutUint32(out[0:], 0x01020304)
	id := proto & 0x7fff
	if response {
		id |= 0x8000
	}
	binary.BigEndian.PutUint16(out[4:], id)
	binary.BigEndian.PutUint16(out[6:], uint16(len(payload)))
	copy(out[8:], payload)
	return out
}

var ErrPartial = errors.New("netsim: partial segment at end of stream")

// ParseSegs splits a byte stream into segments. A trailing partial segment
// yields ErrPartial together with the complete ones.
func ParseSegs(stream []byte) ([]Seg, error) {
	var out []Seg
	off := 0
	for off < len(stream) {
		if len(stream)-off < 8 {
			return out, ErrPartial
		}
		ts := binary.BigEndian.Uint32(stream[off:])
		id := binary.BigEndian.Uint16(stream[off+4:])
		ln := int(binary.BigEndian.Uint16(stream[off+6:]))
		if len(stream)-off-8 < ln {
			return out, ErrPartial
		}
		out = append(out, Seg{
			Timestamp: ts, Proto: id & 0x7fff, Response: id&0x8000 != 0,
			Payload: stream[off+8 : off+8+ln], Offset: off,
		})
		off += 8 + ln
	}
	return out, nil
}

// ReadSeg reads one segment from r (blocking).
func ReadSeg(r io.Reader) (Seg, error) {
	var h [8]byte
	if _, err := io.ReadFull(r, h[:]); err != nil {
		return Seg{}, err
	}
	id := binary.BigEndian.Uint16(h[4:])
	ln := int(binary.BigEndian.Uint16(h[6:]))
	p := make([]byte, ln)
	if _, err := io.ReadFull(r, p); err != nil {
		return Seg{}, err
	}
	return Seg{Timestamp: binary.BigEndian.Uint32(h[:]), Proto: id & 0x7fff, Response: id&0x8000 != 0, Payload: p}, nil
}
