// Package core is the shared runtime of the monitors: deterministic PRNG
// streams, case accounting, violation / known-finding bookkeeping, journal and
// the result record that the supervisor turns into the evidence file.
package core

import (
	"encoding/hex"
	"encoding/json"
	"fmt"
	"hash/fnv"
	"os"
	"path/filepath"
	"runtime"
	"runtime/debug"
	"sort"
	"strings"
	"sync"
	"sync/atomic"
	"time"
)

// ------------------------------------------------------------------ registry

type Monitor struct {
	ID    string
	Race  bool   // needs the -race build
	Level string // evidence level: exploration | fault_enumeration | ...
	Rule  string // how cases are generated and what makes one non-trivial
	// MinNontrivial: the run is inconclusive if fewer distinct non-trivial
	// cases were observed (quick tier; thorough uses the same floor).
	MinNontrivial int
	// RaceAnchors: substrings of function / file names; a data race report
	// whose both stacks' top gouroboros frames match an anchor fails the check.
	RaceAnchors []string
	Assumptions []string
	// QuickTimeout / ThoroughTimeout: watchdog for the child (seconds).
	QuickTimeout    int
	ThoroughTimeout int
	Run             func(c *Ctx)
}

var registry = map[string]*Monitor{}

func Register(m *Monitor) {
	if _, dup := registry[m.ID]; dup {
		panic("duplicate monitor " + m.ID)
	}
	if m.Level == "" {
		m.Level = "exploration"
	}
	registry[m.ID] = m
}

func Lookup(id string) *Monitor { return registry[id] }

func IDs() []string {
	var out []string
	for k := range registry {
		out = append(out, k)
	}
	sort.Strings(out)
	return out
}

// ------------------------------------------------------------------ PRNG

// Rand is a SplitMix64 stream.
type Rand struct{ s uint64 }

func mix(z uint64) uint64 {
	z += 0x9e3779b97f4a7c15
	z = (z ^ (z >> 30)) * 0xbf58476d1ce4e5b9
	z = (z ^ (z >> 27)) * 0x94d049bb133111eb
	return z ^ (z >> 31)
}

func NewRand(seed uint64) *Rand { return &Rand{s: seed} }

func (r *Rand) Uint64() uint64 {
	r.s += 0x9e3779b97f4a7c15
	z := r.s
	z = (z ^ (z >> 30)) * 0xbf58476d1ce4e5b9
	z = (z ^ (z >> 27)) * 0x94d049bb133111eb
	return z ^ (z >> 31)
}
func (r *Rand) Intn(n int) int {
	if n <= 0 {
		return 0
	}
	return int(r.Uint64() % uint64(n))
}

// Range returns a value in [lo, hi].
func (r *Rand) Range(lo, hi int) int { return lo + r.Intn(hi-lo+1) }
func (r *Rand) Bool() bool           { return r.Uint64()&1 == 1 }

// Chance returns true with probability num/den.
func (r *Rand) Chance(num, den int) bool { return r.Intn(den) < num }
func (r *Rand) Bytes(n int) []byte {
	b := make([]byte, n)
	for i := 0; i < n; i += 8 {
		v := r.Uint64()
		for j := 0; j < 8 && i+j < n; j++ {
			b[i+j] = byte(v >> (8 * j))
		}
	}
	return b
}
func (r *Rand) Perm(n int) []int {
	p := make([]int, n)
	for i := range p {
		p[i] = i
	}
	for i := n - 1; i > 0; i-- {
		j := r.Intn(i + 1)
		p[i], p[j] = p[j], p[i]
	}
	return p
}
func (r *Rand) Float() float64 { return float64(r.Uint64()>>11) / (1 << 53) }

// Fork derives an independent stream.
func (r *Rand) Fork(key uint64) *Rand { return &Rand{s: mix(r.Uint64() ^ mix(key))} }

// Pick returns a random element.
func Pick[T any](r *Rand, xs []T) T { return xs[r.Intn(len(xs))] }

func hashKey(parts ...any) uint64 {
	h := fnv.New64a()
	for _, p := range parts {
		fmt.Fprintf(h, "%v\x00", p)
	}
	return h.Sum64()
}

// ------------------------------------------------------------------ findings

type Finding struct {
	Property string `json:"property"`
	Key      string `json:"key"`
	Status   string `json:"status"` // known | fixed
	Commit   string `json:"commit,omitempty"`
	What     string `json:"what"`
	Witness  any    `json:"witness,omitempty"`
}

func LoadFindings(path string) ([]Finding, error) {
	b, err := os.ReadFile(path)
	if err != nil {
		if os.IsNotExist(err) {
			return nil, nil
		}
		return nil, err
	}
	var f struct {
		Findings []Finding `json:"findings"`
	}
	if err := json.Unmarshal(b, &f); err != nil {
		return nil, err
	}
	return f.Findings, nil
}

// LoadAllFindings reads known_findings.json plus the per-property files under
// known_findings.d/ (same format).
func LoadAllFindings(verifDir string) ([]Finding, error) {
	out, err := LoadFindings(filepath.Join(verifDir, "known_findings.json"))
	if err != nil {
		return nil, err
	}
	more, _ := filepath.Glob(filepath.Join(verifDir, "known_findings.d", "*.json"))
	sort.Strings(more)
	for _, p := range more {
		f, err := LoadFindings(p)
		if err != nil {
			return nil, fmt.Errorf("%s: %w", p, err)
		}
		out = append(out, f...)
	}
	return out, nil
}

// ------------------------------------------------------------------ context

type Violation struct {
	Key     string `json:"key"`
	What    string `json:"what"`
	Witness any    `json:"witness,omitempty"`
	Replay  string `json:"replay,omitempty"`
	Known   bool   `json:"known"`
	Count   int    `json:"count"`
}

// Result is what the child hands to the supervisor.
type Result struct {
	ID           string           `json:"id"`
	Tier         string           `json:"tier"`
	Seed         int64            `json:"seed"`
	Evaluations  int64            `json:"evaluations"`
	Distinct     int              `json:"distinct_nontrivial"`
	Samples      []any            `json:"samples"`
	Counters     map[string]int64 `json:"counters"`
	Notes        map[string]any   `json:"notes"`
	Violations   []*Violation     `json:"violations"`
	Inconclusive []string         `json:"inconclusive"`
	Exhaustive   bool             `json:"exhaustive"`
	WallS        float64          `json:"wall_s"`
	Finished     bool             `json:"finished"`
}

type Ctx struct {
	Mon  *Monitor
	ID   string
	Tier string
	Seed int64
	// VerifDir is /verif, RepoDir is the repository the harness was built
	// against (for corpus files read by path).
	VerifDir string
	RepoDir  string
	WorkDir  string

	mu         sync.Mutex
	evals      atomic.Int64
	distinct   map[uint64]struct{}
	samples    []any
	counters   map[string]int64
	notes      map[string]any
	viol       map[string]*Violation
	violOrder  []string
	incon      []string
	inconCount int
	exhaustive bool
	journal    *os.File
	findings   []Finding
	start      time.Time
	onlyKey    string

	unknownPrinted int
}

func NewCtx(m *Monitor, tier string, seed int64, verifDir, repoDir, workDir string) *Ctx {
	c := &Ctx{
		Mon: m, ID: m.ID, Tier: tier, Seed: seed,
		VerifDir: verifDir, RepoDir: repoDir, WorkDir: workDir,
		distinct: map[uint64]struct{}{},
		counters: map[string]int64{},
		notes:    map[string]any{},
		viol:     map[string]*Violation{},
		start:    time.Now(),
	}
	f, err := LoadAllFindings(verifDir)
	if err != nil {
		fmt.Fprintln(os.Stderr, "cannot read known findings:", err)
		os.Exit(3)
	}
	c.findings = f
	if workDir != "" {
		c.journal, _ = os.OpenFile(filepath.Join(workDir, "journal"), os.O_CREATE|os.O_WRONLY|os.O_TRUNC, 0o644)
	}
	c.onlyKey = os.Getenv("VERIF_ONLY_KEY")
	return c
}

func (c *Ctx) Quick() bool    { return c.Tier != "thorough" }
func (c *Ctx) Thorough() bool { return c.Tier == "thorough" }

// N picks a case count by tier.
func (c *Ctx) N(quick, thorough int) int {
	if c.Thorough() {
		return thorough
	}
	return quick
}

// Rand returns the PRNG stream keyed by (seed, property, stream key...).
func (c *Ctx) Rand(key ...any) *Rand {
	return NewRand(mix(uint64(c.Seed)) ^ hashKey(append([]any{c.ID}, key...)...))
}

func (c *Ctx) Eval()            { c.evals.Add(1) }
func (c *Ctx) EvalN(n int)      { c.evals.Add(int64(n)) }
func (c *Ctx) Evals() int64     { return c.evals.Load() }
func (c *Ctx) SetExhaustive()   { c.mu.Lock(); c.exhaustive = true; c.mu.Unlock() }
func (c *Ctx) Elapsed() float64 { return time.Since(c.start).Seconds() }

// Distinct records one non-trivial case under a de-duplication key.
func (c *Ctx) Distinct(key ...any) {
	h := hashKey(key...)
	c.mu.Lock()
	c.distinct[h] = struct{}{}
	c.mu.Unlock()
}

func (c *Ctx) DistinctCount() int {
	c.mu.Lock()
	defer c.mu.Unlock()
	return len(c.distinct)
}

// Count adds to a named coverage counter.
func (c *Ctx) Count(name string, n int) {
	c.mu.Lock()
	c.counters[name] += int64(n)
	c.mu.Unlock()
}

func (c *Ctx) Counter(name string) int64 {
	c.mu.Lock()
	defer c.mu.Unlock()
	return c.counters[name]
}

// Note stores an arbitrary coverage key.
func (c *Ctx) Note(name string, v any) {
	c.mu.Lock()
	c.notes[name] = v
	c.mu.Unlock()
}

// Sample keeps up to 6 written-out cases for the evidence file.
func (c *Ctx) Sample(v any) {
	c.mu.Lock()
	if len(c.samples) < 6 {
		c.samples = append(c.samples, v)
	}
	c.mu.Unlock()
}

// SampleN reports how many samples have been kept.
func (c *Ctx) SampleN() int {
	c.mu.Lock()
	defer c.mu.Unlock()
	return len(c.samples)
}

// Journal appends a line to the crash journal ("about to run case ...").
func (c *Ctx) Journal(format string, a ...any) {
	if c.journal == nil {
		return
	}
	s := fmt.Sprintf(format, a...)
	if len(s) > 4096 {
		s = s[:4096]
	}
	c.mu.Lock()
	c.journal.WriteString(s + "\n")
	c.mu.Unlock()
}

func sanitize(s string) string {
	var b strings.Builder
	for _, r := range s {
		switch {
		case r >= 'a' && r <= 'z', r >= 'A' && r <= 'Z', r >= '0' && r <= '9', r == '-', r == '_', r == '.':
			b.WriteRune(r)
		default:
			b.WriteByte('_')
		}
		if b.Len() > 100 {
			break
		}
	}
	return b.String()
}

func (c *Ctx) matchKnown(key string) *Finding {
	for i := range c.findings {
		f := &c.findings[i]
		if f.Property != c.ID || f.Status != "known" {
			continue
		}
		if f.Key == key {
			return f
		}
		if strings.HasSuffix(f.Key, "*") && strings.HasPrefix(key, strings.TrimSuffix(f.Key, "*")) {
			return f
		}
	}
	return nil
}

// Violation reports that the oracle saw an execution contradicting the
// property. key names the failing call site and input class; witness is
// written to the replay file.
func (c *Ctx) Violation(key, what string, witness any) {
	if c.onlyKey != "" && key != c.onlyKey {
		return
	}
	c.mu.Lock()
	defer c.mu.Unlock()
	if v, ok := c.viol[key]; ok {
		v.Count++
		return
	}
	v := &Violation{Key: key, What: what, Witness: witness, Count: 1}
	if f := c.matchKnown(key); f != nil {
		v.Known = true
		fmt.Printf("KNOWN-FINDING: property=%s %s [%s] %s\n", c.ID, key, f.What, oneLine(what))
	} else if c.unknownPrinted >= 25 {
		// counted and kept in the result, but not printed / written out
	} else {
		c.unknownPrinted++
		dir := filepath.Join(c.VerifDir, "replays", c.ID)
		os.MkdirAll(dir, 0o755)
		path := filepath.Join(dir, sanitize(key)+".json")
		rec := map[string]any{
			"property": c.ID, "tier": c.Tier, "seed": c.Seed,
			"key": key, "what": what, "witness": witness,
			"replay_cmd": fmt.Sprintf("VERIF_SEED=%d ./check %s replay %s", c.Seed, c.ID, path),
		}
		b, _ := json.MarshalIndent(rec, "", " ")
		os.WriteFile(path, b, 0o644)
		v.Replay = path
		fmt.Printf("VIOLATION property=%s replay=%s\n", c.ID, path)
		fmt.Printf("  key=%s\n  %s\n", key, oneLine(what))
	}
	c.viol[key] = v
	c.violOrder = append(c.violOrder, key)
}

func oneLine(s string) string {
	s = strings.ReplaceAll(s, "\n", " | ")
	if len(s) > 600 {
		s = s[:600] + "..."
	}
	return s
}

// Inconclusive records a case that could not be judged.
func (c *Ctx) Inconclusive(what string) {
	c.mu.Lock()
	c.inconCount++
	if len(c.incon) < 20 {
		c.incon = append(c.incon, what)
	}
	c.mu.Unlock()
}

// Safely runs fn and converts a panic into (true, value, stack).
func Safely(fn func()) (panicked bool, val any, stack string) {
	defer func() {
		if r := recover(); r != nil {
			panicked = true
			val = r
			stack = string(debug.Stack())
		}
	}()
	fn()
	return
}

// Parallel runs fn for i in [0,n) on `workers` goroutines (0 = GOMAXPROCS).
// Each case gets its own PRNG stream keyed by (stream, i), so the case list is
// independent of scheduling.
func (c *Ctx) Parallel(stream string, n, workers int, fn func(i int, r *Rand)) {
	if workers <= 0 {
		workers = runtime.GOMAXPROCS(0)
	}
	if workers > n {
		workers = n
	}
	var next atomic.Int64
	var wg sync.WaitGroup
	for w := 0; w < workers; w++ {
		wg.Add(1)
		go func() {
			defer wg.Done()
			for {
				i := int(next.Add(1) - 1)
				if i >= n {
					return
				}
				fn(i, c.Rand(stream, i))
			}
		}()
	}
	wg.Wait()
}

// Finish writes the result record for the supervisor.
func (c *Ctx) Finish() *Result {
	c.mu.Lock()
	defer c.mu.Unlock()
	r := &Result{
		ID: c.ID, Tier: c.Tier, Seed: c.Seed,
		Evaluations: c.evals.Load(),
		Distinct:    len(c.distinct),
		Samples:     c.samples,
		Counters:    c.counters,
		Notes:       c.notes,
		Exhaustive:  c.exhaustive,
		WallS:       time.Since(c.start).Seconds(),
		Finished:    true,
	}
	for _, k := range c.violOrder {
		r.Violations = append(r.Violations, c.viol[k])
	}
	r.Inconclusive = c.incon
	if c.inconCount > len(c.incon) {
		r.Inconclusive = append(r.Inconclusive, fmt.Sprintf("... %d inconclusive cases in total", c.inconCount))
	}
	r.Counters["inconclusive_cases"] = int64(c.inconCount)
	if c.WorkDir != "" {
		b, _ := json.Marshal(r)
		os.WriteFile(filepath.Join(c.WorkDir, "result.json"), b, 0o644)
	}
	return r
}

// Hex is a convenience for samples / witnesses (truncated).
func Hex(b []byte) string {
	if len(b) > 96 {
		return hex.EncodeToString(b[:96]) + fmt.Sprintf("...(%d bytes)", len(b))
	}
	return hex.EncodeToString(b)
}

// HexFull encodes without truncation (for witnesses).
func HexFull(b []byte) string { return hex.EncodeToString(b) }

// MustUnhex decodes a hex string, ignoring whitespace; panics on error.
func MustUnhex(s string) []byte {
	s = strings.Join(strings.Fields(s), "")
	b, err := hex.DecodeString(s)
	if err != nil {
		panic(err)
	}
	return b
}
