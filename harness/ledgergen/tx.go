package ledgergen

import (
	"fmt"
	"math/big"
	"sort"

	"github.com/blinklabs-io/gouroboros/ledger/common"

	"verifharness/cborx"
)

// U64 returns a pointer to v; used for the optional fields of TxSpec
// (nil = the field is ABSENT from the body map, non-nil = written, also when
// the value is 0).
func U64(v uint64) *uint64 { return &v }

// U8 returns a pointer to v (optional network id).
func U8(v uint8) *uint8 { return &v }

// Input is a transaction input / UTxO reference.
type Input struct {
	TxId  Hash32
	Index uint32
}

// In builds an Input whose transaction id is the Blake2b-256 of a label, so
// inputs can be named in case descriptions.
func In(label string, index uint32) Input {
	return Input{TxId: Blake256([]byte("ledgergen-utxo:" + label)), Index: index}
}

// Node returns the CBOR form [tx_id, index].
func (i Input) Node() *cborx.Node { return cborx.A(cborx.B(i.TxId[:]), cborx.U(uint64(i.Index))) }

// String returns "hex(txid)#index", the key State uses for UTxO lookup.
func (i Input) String() string { return fmt.Sprintf("%x#%d", i.TxId[:], i.Index) }

// Asset is one native-token quantity of an output value or of the mint field.
type Asset struct {
	Policy Hash28
	Name   []byte
	// Qty is written with cborx.Big: uint, nint, or tag-2 / tag-3 bignum when
	// outside the 64-bit range. Negative values are allowed on purpose.
	Qty *big.Int
	// QtyNode, when non-nil, is written verbatim instead of Qty (e.g. a
	// bignum tag around a small number, a non-minimal header).
	QtyNode *cborx.Node
}

// Tok is a shorthand for an Asset with an int64 quantity.
func Tok(policy Hash28, name string, qty int64) Asset {
	return Asset{Policy: policy, Name: []byte(name), Qty: big.NewInt(qty)}
}

// MultiAssetNode encodes assets as {policy: {name: qty}}; policies and names
// keep the order of first appearance.
func MultiAssetNode(assets []Asset) *cborx.Node {
	var order []Hash28
	byPolicy := map[Hash28][]*cborx.Node{}
	for _, a := range assets {
		if _, ok := byPolicy[a.Policy]; !ok {
			order = append(order, a.Policy)
		}
		q := a.QtyNode
		if q == nil {
			qty := a.Qty
			if qty == nil {
				qty = new(big.Int)
			}
			q = cborx.Big(qty)
		}
		byPolicy[a.Policy] = append(byPolicy[a.Policy], cborx.B(a.Name), q)
	}
	var kv []*cborx.Node
	for _, p := range order {
		p := p
		kv = append(kv, cborx.B(p[:]), cborx.M(byPolicy[p]...))
	}
	return cborx.M(kv...)
}

// Output describes one transaction output.
type Output struct {
	Addr []byte // raw address bytes (see EnterpriseKeyAddr etc.)
	Coin uint64
	// CoinNode, when non-nil, replaces the coin integer verbatim.
	CoinNode *cborx.Node
	Assets   []Asset
	// MapForm selects the Babbage map encoding {0: addr, 1: value, ...};
	// false = legacy array [addr, value, ?datum_hash].
	MapForm bool
	// DatumHash: legacy third element, or {2: [0, hash]} in map form.
	DatumHash *Hash32
	// InlineDatum (map form only): {2: [1, #6.24(bytes .cbor datum)]}.
	InlineDatum *cborx.Node
	// ScriptRef (map form only): written verbatim under key 3; use
	// ScriptRefNode to build it.
	ScriptRef *cborx.Node
	// Raw, when non-nil, is the complete output written verbatim.
	Raw *cborx.Node
}

// ValueNode returns coin, or [coin, multiasset] when the output has assets.
func (o Output) ValueNode() *cborx.Node {
	coin := o.CoinNode
	if coin == nil {
		coin = cborx.U(o.Coin)
	}
	if len(o.Assets) == 0 {
		return coin
	}
	return cborx.A(coin, MultiAssetNode(o.Assets))
}

// Node returns the CBOR form of the output.
func (o Output) Node() *cborx.Node {
	if o.Raw != nil {
		return o.Raw
	}
	if !o.MapForm {
		items := []*cborx.Node{cborx.B(o.Addr), o.ValueNode()}
		if o.DatumHash != nil {
			items = append(items, cborx.B(o.DatumHash[:]))
		}
		return cborx.A(items...)
	}
	kv := []*cborx.Node{cborx.U(0), cborx.B(o.Addr), cborx.U(1), o.ValueNode()}
	switch {
	case o.InlineDatum != nil:
		kv = append(kv, cborx.U(2), cborx.A(cborx.U(1), cborx.T(24, cborx.B(o.InlineDatum.Encode()))))
	case o.DatumHash != nil:
		kv = append(kv, cborx.U(2), cborx.A(cborx.U(0), cborx.B(o.DatumHash[:])))
	}
	if o.ScriptRef != nil {
		kv = append(kv, cborx.U(3), o.ScriptRef)
	}
	return cborx.M(kv...)
}

// ScriptRefNode builds a script_ref value: #6.24(bytes .cbor [lang, script]).
// lang 0 = native (script is the native-script node), 1..3 = Plutus V1..V3
// (script is a byte string node).
func ScriptRefNode(lang uint64, script *cborx.Node) *cborx.Node {
	return cborx.T(24, cborx.B(cborx.A(cborx.U(lang), script).Encode()))
}

// Withdrawal is one entry of the withdrawals map (body key 5).
type Withdrawal struct {
	Account []byte // reward address bytes (RewardKeyAddr / RewardScriptAddr)
	Amount  uint64
}

// Redeemer tags.
const (
	TagSpend uint64 = iota
	TagMint
	TagCert
	TagReward
	TagVoting
	TagProposing
)

// Redeemer is one redeemer of the witness set.
type Redeemer struct {
	Tag   uint64
	Index uint64
	Data  *cborx.Node // Plutus data; nil = the integer 0
	Mem   uint64
	Steps uint64
}

// RedeemerForm selects the encoding of witness-set key 5.
type RedeemerForm int

const (
	// RedeemersAuto: list in Alonzo/Babbage, map in Conway/Dijkstra.
	RedeemersAuto RedeemerForm = iota
	// RedeemersList: [[tag, index, data, ex_units], ...].
	RedeemersList
	// RedeemersMap: {[tag, index]: [data, ex_units]}.
	RedeemersMap
)

// BodyField is an additional (or overriding) entry of the body map.
type BodyField struct {
	Key   uint64
	Value *cborx.Node
}

// TxSpec is the Go description of a transaction. The zero value of every
// optional field means "absent from the CBOR". Build never consults the
// library, so malformed or non-canonical descriptions are written as given.
type TxSpec struct {
	Era Era

	// --- body ---
	Inputs  []Input  // key 0 (always written, also when empty)
	Outputs []Output // key 1 (always written)
	Fee     uint64   // key 2 (always written)
	// TTL is body key 3: Shelley time-to-live / Allegra+ invalid-hereafter.
	TTL *uint64
	// Certs are written verbatim under key 4 (see the Cert* helpers).
	Certs       []*cborx.Node
	Withdrawals []Withdrawal // key 5, map in the given order
	// ValidityStart is body key 8 (Allegra+ invalid-before).
	ValidityStart *uint64
	Mint          []Asset // key 9
	// ScriptDataHash is body key 11.
	ScriptDataHash  *Hash32
	Collateral      []Input  // key 13
	RequiredSigners []Hash28 // key 14
	NetworkID       *uint8   // key 15
	// CollateralReturn is body key 16, TotalCollateral key 17 (Babbage+).
	CollateralReturn *Output
	TotalCollateral  *uint64
	ReferenceInputs  []Input // key 18
	// Donation is body key 22 (Conway+), CurrentTreasury key 21.
	CurrentTreasury *uint64
	Donation        *uint64
	// AuxData is the auxiliary data item of the envelope. When set, body key
	// 7 is Blake2b-256 of its encoding unless AuxDataHash overrides it or
	// OmitAuxDataHash is true.
	AuxData         *cborx.Node
	AuxDataHash     *Hash32
	OmitAuxDataHash bool
	// TagSets wraps the set-typed fields (inputs, collateral, required
	// signers, reference inputs, certificates, witness-set arrays) in
	// tag 258, as Conway+ encoders do. Plain arrays are used otherwise.
	TagSets bool
	// ExtraBody entries are added to the body map; an entry whose key equals
	// a generated one replaces it. The final map is sorted by key, then
	// arranged according to BodyOrder.
	ExtraBody []BodyField
	// BodyOrder / WitnessOrder choose the order in which the entries of the
	// body map / witness-set map are written (see KeyOrder). The zero value
	// is ascending (canonical). Every order writes the same entries, so the
	// transaction has the same size and meaning; its id (hash of the body
	// bytes) and the signatures are recomputed by Build.
	BodyOrder    KeyOrder
	WitnessOrder KeyOrder

	// --- witness set ---
	// Signers produce vkey witnesses [vkey, signature] over the real
	// transaction id (Blake2b-256 of the body bytes).
	Signers []Key
	// ExtraVkeyWitnesses are appended verbatim to witness-set key 0.
	ExtraVkeyWitnesses []*cborx.Node
	NativeScripts      []*cborx.Node // key 1
	BootstrapWitnesses []*cborx.Node // key 2
	PlutusV1           [][]byte      // key 3
	Datums             []*cborx.Node // key 4
	Redeemers          []Redeemer    // key 5
	RedeemerForm       RedeemerForm
	PlutusV2           [][]byte // key 6
	PlutusV3           [][]byte // key 7
	// ExtraWitness entries are added to the witness-set map (same rules as
	// ExtraBody).
	ExtraWitness []BodyField

	// --- envelope ---
	// Invalid writes is_valid = false (Alonzo..Conway; Dijkstra cannot
	// encode it).
	Invalid bool
	// FourElementEnvelope forces [body, wits, true, aux] for Dijkstra, whose
	// default envelope has three elements.
	FourElementEnvelope bool
}

func (s *TxSpec) set(items []*cborx.Node) *cborx.Node {
	if s.TagSets {
		return cborx.T(258, cborx.A(items...))
	}
	return cborx.A(items...)
}

func inputNodes(ins []Input) []*cborx.Node {
	out := make([]*cborx.Node, len(ins))
	for i, in := range ins {
		out[i] = in.Node()
	}
	return out
}

func sortedMap(fields []BodyField, extra []BodyField, order KeyOrder) *cborx.Node {
	for _, e := range extra {
		replaced := false
		for i := range fields {
			if fields[i].Key == e.Key {
				fields[i].Value = e.Value
				replaced = true
			}
		}
		if !replaced {
			fields = append(fields, e)
		}
	}
	sort.SliceStable(fields, func(i, j int) bool { return fields[i].Key < fields[j].Key })
	fields = order.arrange(fields)
	var kv []*cborx.Node
	for _, f := range fields {
		kv = append(kv, cborx.U(f.Key), f.Value)
	}
	return cborx.M(kv...)
}

// BodyNode returns the transaction body map described by the spec.
func (s *TxSpec) BodyNode() *cborx.Node {
	var f []BodyField
	add := func(k uint64, v *cborx.Node) { f = append(f, BodyField{k, v}) }
	add(0, s.set(inputNodes(s.Inputs)))
	outs := make([]*cborx.Node, len(s.Outputs))
	for i, o := range s.Outputs {
		outs[i] = o.Node()
	}
	add(1, cborx.A(outs...))
	add(2, cborx.U(s.Fee))
	if s.TTL != nil {
		add(3, cborx.U(*s.TTL))
	}
	if len(s.Certs) > 0 {
		add(4, s.set(s.Certs))
	}
	if len(s.Withdrawals) > 0 {
		var kv []*cborx.Node
		for _, w := range s.Withdrawals {
			kv = append(kv, cborx.B(w.Account), cborx.U(w.Amount))
		}
		add(5, cborx.M(kv...))
	}
	if s.AuxDataHash != nil {
		add(7, cborx.B(s.AuxDataHash[:]))
	} else if s.AuxData != nil && !s.OmitAuxDataHash {
		h := Blake256(s.AuxData.Encode())
		add(7, cborx.B(h[:]))
	}
	if s.ValidityStart != nil {
		add(8, cborx.U(*s.ValidityStart))
	}
	if len(s.Mint) > 0 {
		add(9, MultiAssetNode(s.Mint))
	}
	if s.ScriptDataHash != nil {
		add(11, cborx.B(s.ScriptDataHash[:]))
	}
	if len(s.Collateral) > 0 {
		add(13, s.set(inputNodes(s.Collateral)))
	}
	if len(s.RequiredSigners) > 0 {
		var it []*cborx.Node
		for _, h := range s.RequiredSigners {
			h := h
			it = append(it, cborx.B(h[:]))
		}
		add(14, s.set(it))
	}
	if s.NetworkID != nil {
		add(15, cborx.U(uint64(*s.NetworkID)))
	}
	if s.CollateralReturn != nil {
		add(16, s.CollateralReturn.Node())
	}
	if s.TotalCollateral != nil {
		add(17, cborx.U(*s.TotalCollateral))
	}
	if len(s.ReferenceInputs) > 0 {
		add(18, s.set(inputNodes(s.ReferenceInputs)))
	}
	if s.CurrentTreasury != nil {
		add(21, cborx.U(*s.CurrentTreasury))
	}
	if s.Donation != nil {
		add(22, cborx.U(*s.Donation))
	}
	return sortedMap(f, s.ExtraBody, s.BodyOrder)
}

func (s *TxSpec) redeemersNode() *cborx.Node {
	form := s.RedeemerForm
	if form == RedeemersAuto {
		if s.Era >= Conway {
			form = RedeemersMap
		} else {
			form = RedeemersList
		}
	}
	var items []*cborx.Node
	for _, r := range s.Redeemers {
		d := r.Data
		if d == nil {
			d = cborx.U(0)
		}
		ex := cborx.A(cborx.U(r.Mem), cborx.U(r.Steps))
		if form == RedeemersMap {
			items = append(items, cborx.A(cborx.U(r.Tag), cborx.U(r.Index)), cborx.A(d, ex))
		} else {
			items = append(items, cborx.A(cborx.U(r.Tag), cborx.U(r.Index), d, ex))
		}
	}
	if form == RedeemersMap {
		return cborx.M(items...)
	}
	return cborx.A(items...)
}

// WitnessNode returns the witness-set map; txid is what the Signers sign.
func (s *TxSpec) WitnessNode(txid Hash32) *cborx.Node {
	var f []BodyField
	add := func(k uint64, v *cborx.Node) { f = append(f, BodyField{k, v}) }
	var vk []*cborx.Node
	for _, k := range s.Signers {
		vk = append(vk, cborx.A(cborx.B(k.Pub), cborx.B(k.Sign(txid[:]))))
	}
	vk = append(vk, s.ExtraVkeyWitnesses...)
	if len(vk) > 0 {
		add(0, s.set(vk))
	}
	if len(s.NativeScripts) > 0 {
		add(1, s.set(s.NativeScripts))
	}
	if len(s.BootstrapWitnesses) > 0 {
		add(2, s.set(s.BootstrapWitnesses))
	}
	bytesSet := func(bs [][]byte) *cborx.Node {
		var it []*cborx.Node
		for _, b := range bs {
			it = append(it, cborx.B(b))
		}
		return s.set(it)
	}
	if len(s.PlutusV1) > 0 {
		add(3, bytesSet(s.PlutusV1))
	}
	if len(s.Datums) > 0 {
		add(4, s.set(s.Datums))
	}
	if len(s.Redeemers) > 0 {
		add(5, s.redeemersNode())
	}
	if len(s.PlutusV2) > 0 {
		add(6, bytesSet(s.PlutusV2))
	}
	if len(s.PlutusV3) > 0 {
		add(7, bytesSet(s.PlutusV3))
	}
	return sortedMap(f, s.ExtraWitness, s.WitnessOrder)
}

// Built is a transaction written out as bytes.
type Built struct {
	Era  Era
	Cbor []byte // the complete transaction
	Body []byte // the body map exactly as embedded in Cbor
	TxId Hash32 // Blake2b-256(Body)
	// Node is the cborx tree of Cbor (byte offsets refer to Cbor):
	// Node.Items[0] is the body, Items[1] the witness set.
	Node *cborx.Node
}

// Build writes the transaction: body map, witness set (signing the real
// transaction id with every Signer), is_valid flag where the era has one, and
// auxiliary data (or null).
func (s *TxSpec) Build() *Built {
	body := s.BodyNode().Encode()
	txid := Blake256(body)
	wits := s.WitnessNode(txid)
	aux := s.AuxData
	if aux == nil {
		aux = cborx.Null()
	}
	var env *cborx.Node
	switch {
	case s.Era < Alonzo:
		env = cborx.A(cborx.Raw(body), wits, aux)
	case s.Era == Dijkstra && !s.FourElementEnvelope:
		env = cborx.A(cborx.Raw(body), wits, aux)
	default:
		env = cborx.A(cborx.Raw(body), wits, cborx.Bool(!s.Invalid), aux)
	}
	b, n := env.Reparse()
	return &Built{Era: s.Era, Cbor: b, Body: body, TxId: txid, Node: n}
}

// Decode decodes the built bytes through ledger.NewTransactionFromCbor.
func (b *Built) Decode() (common.Transaction, error) { return Decode(b.Era, b.Cbor) }

// DecodeEra decodes the built bytes through the era's own constructor.
func (b *Built) DecodeEra() (common.Transaction, error) { return DecodeEra(b.Era, b.Cbor) }

// Clone returns a deep-enough copy of the spec: slices are copied so that
// appending to / replacing elements of the copy leaves the original intact
// (cborx nodes and keys are shared; they are never mutated by ledgergen).
func (s *TxSpec) Clone() *TxSpec {
	c := *s
	c.Inputs = append([]Input(nil), s.Inputs...)
	c.Outputs = append([]Output(nil), s.Outputs...)
	c.Certs = append([]*cborx.Node(nil), s.Certs...)
	c.Withdrawals = append([]Withdrawal(nil), s.Withdrawals...)
	c.Mint = append([]Asset(nil), s.Mint...)
	c.Collateral = append([]Input(nil), s.Collateral...)
	c.RequiredSigners = append([]Hash28(nil), s.RequiredSigners...)
	c.ReferenceInputs = append([]Input(nil), s.ReferenceInputs...)
	c.ExtraBody = append([]BodyField(nil), s.ExtraBody...)
	c.Signers = append([]Key(nil), s.Signers...)
	c.ExtraVkeyWitnesses = append([]*cborx.Node(nil), s.ExtraVkeyWitnesses...)
	c.NativeScripts = append([]*cborx.Node(nil), s.NativeScripts...)
	c.Datums = append([]*cborx.Node(nil), s.Datums...)
	c.Redeemers = append([]Redeemer(nil), s.Redeemers...)
	c.ExtraWitness = append([]BodyField(nil), s.ExtraWitness...)
	if s.CollateralReturn != nil {
		cr := *s.CollateralReturn
		c.CollateralReturn = &cr
	}
	return &c
}

// ---------------------------------------------------------------- certificates

// CredKey returns the credential [0, key_hash].
func CredKey(h Hash28) *cborx.Node { return cborx.A(cborx.U(0), cborx.B(h[:])) }

// CredScript returns the credential [1, script_hash].
func CredScript(h Hash28) *cborx.Node { return cborx.A(cborx.U(1), cborx.B(h[:])) }

// CertStakeReg returns the Shelley stake registration certificate [0, cred].
func CertStakeReg(cred *cborx.Node) *cborx.Node { return cborx.A(cborx.U(0), cred) }

// CertStakeDereg returns the Shelley stake deregistration certificate [1, cred].
func CertStakeDereg(cred *cborx.Node) *cborx.Node { return cborx.A(cborx.U(1), cred) }

// CertStakeDeleg returns the stake delegation certificate [2, cred, pool].
func CertStakeDeleg(cred *cborx.Node, pool Hash28) *cborx.Node {
	return cborx.A(cborx.U(2), cred, cborx.B(pool[:]))
}

// CertPoolRetire returns the pool retirement certificate [4, pool, epoch].
func CertPoolRetire(pool Hash28, epoch uint64) *cborx.Node {
	return cborx.A(cborx.U(4), cborx.B(pool[:]), cborx.U(epoch))
}

// CertReg returns the Conway registration certificate [7, cred, deposit].
func CertReg(cred *cborx.Node, deposit uint64) *cborx.Node {
	return cborx.A(cborx.U(7), cred, cborx.U(deposit))
}

// CertUnreg returns the Conway deregistration certificate [8, cred, deposit].
func CertUnreg(cred *cborx.Node, deposit uint64) *cborx.Node {
	return cborx.A(cborx.U(8), cred, cborx.U(deposit))
}

// CertVoteDeleg returns the vote delegation certificate [9, cred, drep].
func CertVoteDeleg(cred, drep *cborx.Node) *cborx.Node { return cborx.A(cborx.U(9), cred, drep) }

// CertDRepReg returns [16, drep_cred, deposit, anchor/null].
func CertDRepReg(cred *cborx.Node, deposit uint64) *cborx.Node {
	return cborx.A(cborx.U(16), cred, cborx.U(deposit), cborx.Null())
}

// CertDRepUnreg returns [17, drep_cred, deposit].
func CertDRepUnreg(cred *cborx.Node, deposit uint64) *cborx.Node {
	return cborx.A(cborx.U(17), cred, cborx.U(deposit))
}

// DRepKey returns the drep [0, key_hash]; DRepAbstain [2]; DRepNoConfidence [3].
func DRepKey(h Hash28) *cborx.Node { return cborx.A(cborx.U(0), cborx.B(h[:])) }

// DRepAbstain returns the always-abstain drep [2].
func DRepAbstain() *cborx.Node { return cborx.A(cborx.U(2)) }

// DRepNoConfidence returns the always-no-confidence drep [3].
func DRepNoConfidence() *cborx.Node { return cborx.A(cborx.U(3)) }

// ---------------------------------------------------------------- native scripts

// NativeSig returns the native script [0, key_hash].
func NativeSig(h Hash28) *cborx.Node { return cborx.A(cborx.U(0), cborx.B(h[:])) }

// NativeAll returns [1, [scripts...]].
func NativeAll(sub ...*cborx.Node) *cborx.Node { return cborx.A(cborx.U(1), cborx.A(sub...)) }

// NativeAny returns [2, [scripts...]].
func NativeAny(sub ...*cborx.Node) *cborx.Node { return cborx.A(cborx.U(2), cborx.A(sub...)) }

// NativeNOfK returns [3, n, [scripts...]].
func NativeNOfK(n uint64, sub ...*cborx.Node) *cborx.Node {
	return cborx.A(cborx.U(3), cborx.U(n), cborx.A(sub...))
}

// NativeInvalidBefore returns [4, slot] (valid from slot on).
func NativeInvalidBefore(slot uint64) *cborx.Node { return cborx.A(cborx.U(4), cborx.U(slot)) }

// NativeInvalidHereafter returns [5, slot] (valid strictly before slot).
func NativeInvalidHereafter(slot uint64) *cborx.Node { return cborx.A(cborx.U(5), cborx.U(slot)) }

// ScriptHash returns Blake2b-224(lang ‖ script bytes): lang 0 native (bytes =
// the CBOR of the script), 1..3 Plutus V1..V3 (bytes = the flat script).
func ScriptHash(lang byte, script []byte) Hash28 {
	return Blake224(append([]byte{lang}, script...))
}

// ---------------------------------------------------------------- script data hash

// LangViews encodes the language views of the script integrity hash
// independently of the library: a map sorted by key length, then bytewise;
// PlutusV1 (lang 0): key = bytes(h'00'), value = bytes(indefinite list of
// the cost model); PlutusV2 / V3 (lang 1 / 2): key = uint, value = definite
// list.
func LangViews(costModels map[uint][]int64, langs ...uint) []byte {
	type kv struct{ k, v []byte }
	var views []kv
	seen := map[uint]bool{}
	for _, l := range langs {
		if seen[l] {
			continue
		}
		seen[l] = true
		var ints []*cborx.Node
		for _, x := range costModels[l] {
			ints = append(ints, cborx.I(x))
		}
		if l == 0 {
			views = append(views, kv{cborx.B([]byte{0}).Encode(), cborx.B(cborx.AIndef(ints...).Encode()).Encode()})
		} else {
			views = append(views, kv{cborx.U(uint64(l)).Encode(), cborx.A(ints...).Encode()})
		}
	}
	sort.Slice(views, func(i, j int) bool {
		if len(views[i].k) != len(views[j].k) {
			return len(views[i].k) < len(views[j].k)
		}
		return string(views[i].k) < string(views[j].k)
	})
	kvs := make([]*cborx.Node, 0, 2*len(views))
	for _, v := range views {
		kvs = append(kvs, cborx.Raw(v.k), cborx.Raw(v.v))
	}
	return cborx.M(kvs...).Encode()
}

// ScriptIntegrityHash returns Blake2b-256(redeemers ‖ datums (if any) ‖
// language views) over exactly the bytes Build will write for the spec's
// redeemers and datums. langs are the language indexes of the Plutus scripts
// the transaction uses (0 = V1, 1 = V2, 2 = V3).
func (s *TxSpec) ScriptIntegrityHash(costModels map[uint][]int64, langs ...uint) Hash32 {
	var buf []byte
	if len(s.Redeemers) > 0 {
		buf = append(buf, s.redeemersNode().Encode()...)
	} else if s.Era >= Conway {
		buf = append(buf, 0xa0)
	} else {
		buf = append(buf, 0x80)
	}
	if len(s.Datums) > 0 {
		buf = append(buf, s.set(s.Datums).Encode()...)
	}
	buf = append(buf, LangViews(costModels, langs...)...)
	return Blake256(buf)
}

// SortedInputIndex returns the position of `in` among the spec's inputs in
// ledger order (by transaction id, then index) – the index a spending redeemer
// must carry – or -1.
func (s *TxSpec) SortedInputIndex(in Input) int {
	ins := append([]Input(nil), s.Inputs...)
	sort.Slice(ins, func(i, j int) bool {
		if ins[i].TxId != ins[j].TxId {
			return string(ins[i].TxId[:]) < string(ins[j].TxId[:])
		}
		return ins[i].Index < ins[j].Index
	})
	for i, x := range ins {
		if x == in {
			return i
		}
	}
	return -1
}
