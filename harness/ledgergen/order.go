package ledgergen

import (
	"fmt"

	"verifharness/cborx"
)

// OrderMode is the way the entries of a CBOR map are arranged.
type OrderMode int

const (
	// OrderAscending writes the keys in ascending order (canonical; default).
	OrderAscending OrderMode = iota
	// OrderDescending writes the keys in descending order.
	OrderDescending
	// OrderKeyLast writes ascending, except that entry Key is moved to the end.
	OrderKeyLast
	// OrderShuffled writes a permutation drawn from a SplitMix64 stream seeded
	// with Seed (deterministic).
	OrderShuffled
)

// KeyOrder is a PRESENTATION choice for the body map or the witness-set map of
// a TxSpec: the same entries, written in another order. The ledger does not
// prescribe map key order, so every KeyOrder describes the same transaction.
type KeyOrder struct {
	Mode OrderMode
	Key  uint64 // OrderKeyLast: the key that goes last
	Seed uint64 // OrderShuffled: PRNG seed
}

// Ascending, Descending, KeyLast and Shuffled build the four kinds of KeyOrder.
func Ascending() KeyOrder           { return KeyOrder{} }
func Descending() KeyOrder          { return KeyOrder{Mode: OrderDescending} }
func KeyLast(k uint64) KeyOrder     { return KeyOrder{Mode: OrderKeyLast, Key: k} }
func Shuffled(seed uint64) KeyOrder { return KeyOrder{Mode: OrderShuffled, Seed: seed} }

// String names the order for keys and witnesses: "asc", "desc", "last-3",
// "shuffle".
func (o KeyOrder) String() string {
	switch o.Mode {
	case OrderDescending:
		return "desc"
	case OrderKeyLast:
		return fmt.Sprintf("last-%d", o.Key)
	case OrderShuffled:
		return "shuffle"
	}
	return "asc"
}

// arrange permutes fields, which arrive sorted ascending by key.
func (o KeyOrder) arrange(fields []BodyField) []BodyField {
	switch o.Mode {
	case OrderDescending:
		out := make([]BodyField, len(fields))
		for i, f := range fields {
			out[len(fields)-1-i] = f
		}
		return out
	case OrderKeyLast:
		var out, moved []BodyField
		for _, f := range fields {
			if f.Key == o.Key {
				moved = append(moved, f)
			} else {
				out = append(out, f)
			}
		}
		return append(out, moved...)
	case OrderShuffled:
		out := append([]BodyField(nil), fields...)
		st := o.Seed
		next := func() uint64 {
			st += 0x9e3779b97f4a7c15
			z := st
			z = (z ^ (z >> 30)) * 0xbf58476d1ce4e5b9
			z = (z ^ (z >> 27)) * 0x94d049bb133111eb
			return z ^ (z >> 31)
		}
		for i := len(out) - 1; i > 0; i-- {
			j := int(next() % uint64(i+1))
			out[i], out[j] = out[j], out[i]
		}
		return out
	}
	return fields
}

// Presentation is one non-canonical way of writing a TxSpec.
type Presentation struct {
	// Name is stable and low-cardinality ("body-desc", "body-last-3",
	// "body-shuffle", "wits-desc", "wits-shuffle", "both-desc"); it is used
	// in violation keys.
	Name          string
	Body, Witness KeyOrder
}

// Presentations lists the presentation variants of the spec that really
// change its bytes: body map descending / shuffled / each of (at most three
// of) its optional keys moved last, witness-set map descending / shuffled,
// and both descending. seed feeds the shuffles. The spec's own BodyOrder and
// WitnessOrder are ignored (variants are relative to the ascending form).
func (s *TxSpec) Presentations(seed uint64) []Presentation {
	canon := *s
	canon.BodyOrder, canon.WitnessOrder = KeyOrder{}, KeyOrder{}
	keysOf := func(t *TxSpec, body bool) []uint64 {
		n := t.BodyNode()
		if !body {
			// only the keys matter: do not sign
			u := *t
			if len(u.Signers) > 0 {
				u.Signers = nil
				u.ExtraVkeyWitnesses = append([]*cborx.Node{cborx.Null()}, u.ExtraVkeyWitnesses...)
			}
			n = u.WitnessNode(Hash32{})
		}
		var ks []uint64
		for i := 0; i+1 < len(n.Items); i += 2 {
			ks = append(ks, n.Items[i].Arg)
		}
		return ks
	}
	bodyKeys, witKeys := keysOf(&canon, true), keysOf(&canon, false)
	seen := map[string]bool{fmt.Sprint(bodyKeys, witKeys): true}
	var out []Presentation
	add := func(p Presentation) {
		t := canon
		t.BodyOrder, t.WitnessOrder = p.Body, p.Witness
		sig := fmt.Sprint(keysOf(&t, true), keysOf(&t, false))
		if seen[sig] {
			return
		}
		seen[sig] = true
		out = append(out, p)
	}
	add(Presentation{Name: "body-desc", Body: Descending()})
	moved := 0
	for i, k := range bodyKeys {
		if k >= 3 && i < len(bodyKeys)-1 && moved < 3 {
			add(Presentation{Name: fmt.Sprintf("body-last-%d", k), Body: KeyLast(k)})
			moved++
		}
	}
	add(Presentation{Name: "body-shuffle", Body: Shuffled(seed)})
	add(Presentation{Name: "wits-desc", Witness: Descending()})
	add(Presentation{Name: "wits-shuffle", Witness: Shuffled(seed ^ 0x5bd1e995)})
	add(Presentation{Name: "both-desc", Body: Descending(), Witness: Descending()})
	return out
}

// Presented returns a copy of the spec written in presentation p.
func (s *TxSpec) Presented(p Presentation) *TxSpec {
	c := s.Clone()
	c.BodyOrder, c.WitnessOrder = p.Body, p.Witness
	return c
}
