package ledgergen

import (
	"fmt"
	"math/big"
	"sort"
	"strings"
	"sync/atomic"

	"github.com/blinklabs-io/gouroboros/ledger/common"

	"verifharness/core"
)

// Independence is the generic facility every ledger-rule monitor switches on
// with one line (EnableChecks). It looks for verdicts that depend on something
// other than the transaction, the ledger state and the parameters:
//
//   - HISTORY (Checked, used by Verify and therefore by World.Run): the same
//     decoded transaction is validated against the same state objects several
//     times. A change of verdict is reported under
//     "<prop>:revalidation:<era>:<first>-><later>"; a change of the quantities
//     that the transaction's outputs / mint or the UTxO objects it refers to
//     report after a validation (validation must not mutate its inputs) under
//     "<prop>:state-mutated:<era>:tx" or "...:utxo".
//   - PRESENTATION (World.Run / RunWith): a transaction that decodes but is
//     REJECTED BY VALIDATION in canonical form is rebuilt in every
//     TxSpec.Presentations variant (same entries, other map key order, id and
//     signatures recomputed). If a variant is accepted that is reported under
//     "<prop>:presentation:<variant>:<era>". Only this direction is judged: a
//     decoder may refuse a non-canonical form.
type Independence struct {
	// Prop is the property id that prefixes the keys.
	Prop string
	// Report receives every disagreement (e.g. core.Ctx.Violation).
	Report func(key, what string, witness any)
	// Count, if set, receives coverage counters (e.g. core.Ctx.Count).
	Count func(name string, n int)
	// Seed feeds the shuffled presentations (mixed with the transaction id).
	Seed uint64
	// Revalidations is the number of extra validations (default 2).
	Revalidations int
	// NoPresentations switches the presentation variants off.
	NoPresentations bool
	// PresentationSample n > 1 runs the variants only for about one in n of
	// the rejected transactions (chosen by transaction id), for monitors with
	// many expensive rejections.
	PresentationSample uint64
}

var active atomic.Pointer[Independence]

// Enable installs (nil: removes) the process-wide checks. Call it once at the
// start of a monitor's run, before cases run in parallel.
func Enable(ind *Independence) { active.Store(ind) }

// EnableChecks is Enable wired to a monitor context: disagreements become
// c.Violation with keys prefixed by c.ID, counters go to c.Count.
// It returns the installed value so that the monitor can adjust the knobs
// (before cases run in parallel).
func EnableChecks(c *core.Ctx) *Independence {
	ind := &Independence{Prop: c.ID, Report: func(k, w string, wit any) { c.Violation(k, w, wit) }, Count: c.Count, Seed: uint64(c.Seed)}
	Enable(ind)
	return ind
}

func (ind *Independence) count(name string) {
	if ind.Count != nil {
		ind.Count(name, 1)
	}
}

func verdict(err error) string {
	if err == nil {
		return "accept"
	}
	return "reject"
}

// Checked runs validate – any closure that validates tx against ls, e.g. one
// rule or the whole list – under the history checks of the enabled
// Independence and returns the result of the FIRST run. Without Enable it is
// just validate(). A panic of validate propagates.
func Checked(e Era, tx common.Transaction, ls common.LedgerState, validate func() error) error {
	ind := active.Load()
	if ind == nil || tx == nil {
		return validate()
	}
	n := ind.Revalidations
	if n <= 0 {
		n = 2
	}
	txBefore, utxoBefore := snapshot(tx, ls)
	first := validate()
	ind.count("independence:validations_checked")
	reportedMut := false
	checkMut := func(after int) {
		if reportedMut {
			return
		}
		txNow, utxoNow := snapshot(tx, ls)
		for _, part := range []struct{ name, was, now string }{{"tx", txBefore, txNow}, {"utxo", utxoBefore, utxoNow}} {
			if part.was != part.now {
				reportedMut = true
				ind.Report(fmt.Sprintf("%s:state-mutated:%s:%s", ind.Prop, e, part.name),
					fmt.Sprintf("%s: the quantities reported by %s changed during validation (after %d validation(s) of the same objects); validation must not mutate its inputs", e,
						map[string]string{"tx": "the transaction's own outputs / mint", "utxo": "the UTxO objects the ledger state hands out"}[part.name], after),
					map[string]any{"era": e.String(), "tx_cbor": core.HexFull(tx.Cbor()), "before": strings.Split(part.was, "\n"), "after": strings.Split(part.now, "\n"), "validations_run": after, "first_verdict": verdict(first), "first_error": fmt.Sprint(first)})
			}
		}
	}
	checkMut(1)
	for i := 0; i < n; i++ {
		again := validate()
		if (again == nil) != (first == nil) {
			ind.Report(fmt.Sprintf("%s:revalidation:%s:%s->%s", ind.Prop, e, verdict(first), verdict(again)),
				fmt.Sprintf("%s: validating the same decoded transaction against the same ledger-state objects again changes the verdict: run 1 %s (%v), run %d %s (%v)", e, verdict(first), first, i+2, verdict(again), again),
				map[string]any{"era": e.String(), "tx_cbor": core.HexFull(tx.Cbor()), "run": i + 2, "first_error": fmt.Sprint(first), "later_error": fmt.Sprint(again), "utxo_before_first_run": strings.Split(utxoBefore, "\n"), "tx_quantities_before_first_run": strings.Split(txBefore, "\n")})
			break
		}
		checkMut(i + 2)
	}
	return first
}

// snapshot renders every quantity validation reads: the transaction's fee,
// outputs, collateral return and mint, and the outputs of the UTxO entries its
// inputs, collateral inputs and reference inputs resolve to.
func snapshot(tx common.Transaction, ls common.LedgerState) (txPart, utxoPart string) {
	var a, b strings.Builder
	core.Safely(func() {
		fmt.Fprintf(&a, "fee=%v\n", tx.Fee())
		for i, o := range tx.Outputs() {
			fmt.Fprintf(&a, "out%d %s\n", i, valueString(o))
		}
		if cr := tx.CollateralReturn(); cr != nil {
			fmt.Fprintf(&a, "collateral-return %s\n", valueString(cr))
		}
		if tc := tx.TotalCollateral(); tc != nil {
			fmt.Fprintf(&a, "total-collateral=%v\n", tc)
		}
		if m := tx.AssetMint(); m != nil {
			fmt.Fprintf(&a, "mint %s\n", assetsString(m))
		}
	})
	if ls == nil {
		return a.String(), ""
	}
	core.Safely(func() {
		for _, group := range []struct {
			name string
			ins  []common.TransactionInput
		}{{"in", tx.Inputs()}, {"coll", tx.Collateral()}, {"ref", tx.ReferenceInputs()}} {
			var lines []string
			for _, in := range group.ins {
				u, err := ls.UtxoById(in)
				if err != nil || u.Output == nil {
					lines = append(lines, fmt.Sprintf("%s %s unresolved", group.name, in))
					continue
				}
				lines = append(lines, fmt.Sprintf("%s %s %s", group.name, in, valueString(u.Output)))
			}
			sort.Strings(lines)
			for _, l := range lines {
				b.WriteString(l + "\n")
			}
		}
	})
	return a.String(), b.String()
}

func valueString(o common.TransactionOutput) string {
	if o == nil {
		return "nil"
	}
	return fmt.Sprintf("coin=%v assets=%s", o.Amount(), assetsString(o.Assets()))
}

func assetsString(m *common.MultiAsset[*big.Int]) string {
	if m == nil {
		return "{}"
	}
	var parts []string
	for _, p := range m.Policies() {
		for _, n := range m.Assets(p) {
			parts = append(parts, fmt.Sprintf("%x.%x=%v", p[:], n, m.Asset(p, n)))
		}
	}
	sort.Strings(parts)
	return "{" + strings.Join(parts, ",") + "}"
}

// presentationCheck is called by World.RunWith for a canonical outcome.
func (w *World) presentationCheck(spec *TxSpec, slot uint64, ls common.LedgerState, pp common.ProtocolParameters, canon Outcome) {
	if canon.DecodeErr != nil || canon.Accepted {
		return
	}
	CheckPresentations(spec, canon.Built, canon.VerifyErr, func(tx common.Transaction) error { return Verify(spec.Era, tx, slot, ls, pp) })
}

// CheckPresentations is the presentation check for monitors that do not go
// through World.Run (e.g. a single rule is judged): canon is the canonical
// Build of spec, canonErr the (non-nil) validation error it got after decoding
// fine, validate the validation to repeat on each decoded variant. It does
// nothing unless EnableChecks is on, canonErr is non-nil and spec itself is in
// ascending order.
func CheckPresentations(spec *TxSpec, canon *Built, canonErr error, validate func(tx common.Transaction) error) {
	ind := active.Load()
	if ind == nil || ind.NoPresentations || canonErr == nil {
		return
	}
	if spec.BodyOrder.Mode != OrderAscending || spec.WitnessOrder.Mode != OrderAscending {
		return
	}
	var seed uint64
	for i := 0; i < 8; i++ {
		seed = seed<<8 | uint64(canon.TxId[i])
	}
	if ind.PresentationSample > 1 && (seed^ind.Seed)%ind.PresentationSample != 0 {
		return
	}
	for _, p := range spec.Presentations(seed ^ ind.Seed) {
		vb := spec.Presented(p).Build()
		tx, derr := vb.Decode()
		if derr != nil {
			ind.count("independence:presentation_decode_refused:" + p.Name)
			continue
		}
		verr := validate(tx)
		if verr != nil {
			ind.count("independence:presentation_agrees:" + p.Name)
			continue
		}
		ind.count("independence:presentation_accepted_but_canonical_rejected:" + p.Name)
		ind.Report(fmt.Sprintf("%s:presentation:%s:%s", ind.Prop, p.Name, spec.Era),
			fmt.Sprintf("%s: the transaction is rejected by validation when its maps are written in ascending key order (%v) but accepted when the same entries are written as %q (body order %s, witness-set order %s); the verdict depends on the presentation", spec.Era, RootCause(canonErr), p.Name, p.Body, p.Witness),
			map[string]any{"era": spec.Era.String(), "presentation": p.Name,
				"canonical_tx_cbor": core.HexFull(canon.Cbor), "canonical_error": fmt.Sprint(canonErr), "canonical_error_type": ErrType(canonErr),
				"variant_tx_cbor": core.HexFull(vb.Cbor), "variant_body_diag": vb.Node.Items[0].Diag()})
	}
}
