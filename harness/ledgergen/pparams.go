package ledgergen

import (
	"math/big"

	"github.com/blinklabs-io/gouroboros/cbor"
	"github.com/blinklabs-io/gouroboros/ledger/alonzo"
	"github.com/blinklabs-io/gouroboros/ledger/babbage"
	"github.com/blinklabs-io/gouroboros/ledger/common"
	"github.com/blinklabs-io/gouroboros/ledger/conway"
	"github.com/blinklabs-io/gouroboros/ledger/dijkstra"
	"github.com/blinklabs-io/gouroboros/ledger/mary"
	"github.com/blinklabs-io/gouroboros/ledger/shelley"
)

// Params is the era-independent description of the protocol parameters the
// UTxO rules look at. For(era) turns it into the concrete pointer type the
// era's rules type-assert on (*shelley.ShelleyProtocolParameters for Shelley
// and Allegra, *mary.MaryProtocolParameters, ... *dijkstra.DijkstraProtocolParameters).
type Params struct {
	MinFeeA, MinFeeB uint
	MaxTxSize        uint
	KeyDeposit       uint
	PoolDeposit      uint
	// MinUtxoValue is used by Shelley..Alonzo, CoinsPerUtxoByte by Babbage+.
	MinUtxoValue     uint
	CoinsPerUtxoByte uint64
	MaxValueSize     uint
	// CollateralPercentage / MaxCollateralInputs exist from Alonzo on.
	CollateralPercentage uint
	MaxCollateralInputs  uint
	// ProtocolMajor is the protocol major version reported by the parameters.
	ProtocolMajor uint
	ProtocolMinor uint
	// CostModels by language index (0 = PlutusV1, 1 = V2, 2 = V3).
	CostModels   map[uint][]int64
	MaxTxExUnits common.ExUnits
	// DRepDeposit / GovActionDeposit are Conway+ governance deposits.
	DRepDeposit      uint64
	GovActionDeposit uint64
}

// DefaultParams returns mainnet-like parameters for the era (fee 44/155381,
// 1 ada minimum UTxO in Shelley..Alonzo, 4310 lovelace per UTxO byte from
// Babbage, collateral 150 % / 3 inputs, protocol major 2, 3, 4, 6, 8, 10, 12).
func DefaultParams(e Era) Params {
	major := map[Era]uint{Shelley: 2, Allegra: 3, Mary: 4, Alonzo: 6, Babbage: 8, Conway: 10, Dijkstra: 12}[e]
	return Params{
		MinFeeA: 44, MinFeeB: 155381,
		MaxTxSize:            16384,
		KeyDeposit:           2_000_000,
		PoolDeposit:          500_000_000,
		MinUtxoValue:         1_000_000,
		CoinsPerUtxoByte:     4310,
		MaxValueSize:         5000,
		CollateralPercentage: 150,
		MaxCollateralInputs:  3,
		ProtocolMajor:        major,
		CostModels: map[uint][]int64{
			0: FlatCostModel(166), 1: FlatCostModel(175), 2: FlatCostModel(297),
		},
		MaxTxExUnits:     common.ExUnits{Memory: 14_000_000, Steps: 10_000_000_000},
		DRepDeposit:      500_000_000,
		GovActionDeposit: 100_000_000_000,
	}
}

// FlatCostModel returns a cost model of n entries (all 1). It is good enough
// for everything that only hashes or counts the model (script data hash,
// "cost model present") and for phase-2 evaluation of the trivial
// AlwaysSucceeds program; it is not a realistic price list.
func FlatCostModel(n int) []int64 {
	m := make([]int64, n)
	for i := range m {
		m[i] = 1
	}
	return m
}

func rat(n, d int64) *cbor.Rat { return &cbor.Rat{Rat: big.NewRat(n, d)} }

// For returns the concrete protocol-parameter object of the era.
func (p Params) For(e Era) common.ProtocolParameters {
	switch e {
	case Shelley, Allegra:
		return &shelley.ShelleyProtocolParameters{
			MinFeeA: p.MinFeeA, MinFeeB: p.MinFeeB,
			MaxBlockBodySize: 65536, MaxTxSize: p.MaxTxSize, MaxBlockHeaderSize: 1100,
			KeyDeposit: p.KeyDeposit, PoolDeposit: p.PoolDeposit,
			MaxEpoch: 18, NOpt: 150,
			A0: rat(3, 10), Rho: rat(3, 1000), Tau: rat(2, 10), Decentralization: rat(1, 1),
			ProtocolMajor: p.ProtocolMajor, ProtocolMinor: p.ProtocolMinor,
			MinUtxoValue: p.MinUtxoValue,
		}
	case Mary:
		return &mary.MaryProtocolParameters{
			MinFeeA: p.MinFeeA, MinFeeB: p.MinFeeB,
			MaxBlockBodySize: 65536, MaxTxSize: p.MaxTxSize, MaxBlockHeaderSize: 1100,
			KeyDeposit: p.KeyDeposit, PoolDeposit: p.PoolDeposit,
			MaxEpoch: 18, NOpt: 500,
			A0: rat(3, 10), Rho: rat(3, 1000), Tau: rat(2, 10), Decentralization: rat(0, 1),
			ProtocolMajor: p.ProtocolMajor, ProtocolMinor: p.ProtocolMinor,
			MinUtxoValue: p.MinUtxoValue, MinPoolCost: 340_000_000,
		}
	case Alonzo:
		return &alonzo.AlonzoProtocolParameters{
			MinFeeA: p.MinFeeA, MinFeeB: p.MinFeeB,
			MaxBlockBodySize: 73728, MaxTxSize: p.MaxTxSize, MaxBlockHeaderSize: 1100,
			KeyDeposit: p.KeyDeposit, PoolDeposit: p.PoolDeposit,
			MaxEpoch: 18, NOpt: 500,
			A0: rat(3, 10), Rho: rat(3, 1000), Tau: rat(2, 10), Decentralization: rat(0, 1),
			ProtocolMajor: p.ProtocolMajor, ProtocolMinor: p.ProtocolMinor,
			MinUtxoValue: p.MinUtxoValue, MinPoolCost: 340_000_000,
			AdaPerUtxoByte:       p.CoinsPerUtxoByte,
			CostModels:           p.CostModels,
			ExecutionCosts:       common.ExUnitPrice{MemPrice: rat(577, 10000), StepPrice: rat(721, 10000000)},
			MaxTxExUnits:         p.MaxTxExUnits,
			MaxBlockExUnits:      common.ExUnits{Memory: 50_000_000, Steps: 40_000_000_000},
			MaxValueSize:         p.MaxValueSize,
			CollateralPercentage: p.CollateralPercentage,
			MaxCollateralInputs:  p.MaxCollateralInputs,
		}
	case Babbage:
		return &babbage.BabbageProtocolParameters{
			MinFeeA: p.MinFeeA, MinFeeB: p.MinFeeB,
			MaxBlockBodySize: 90112, MaxTxSize: p.MaxTxSize, MaxBlockHeaderSize: 1100,
			KeyDeposit: p.KeyDeposit, PoolDeposit: p.PoolDeposit,
			MaxEpoch: 18, NOpt: 500,
			A0: rat(3, 10), Rho: rat(3, 1000), Tau: rat(2, 10),
			ProtocolMajor: p.ProtocolMajor, ProtocolMinor: p.ProtocolMinor,
			MinPoolCost:          170_000_000,
			AdaPerUtxoByte:       p.CoinsPerUtxoByte,
			CostModels:           p.CostModels,
			ExecutionCosts:       common.ExUnitPrice{MemPrice: rat(577, 10000), StepPrice: rat(721, 10000000)},
			MaxTxExUnits:         p.MaxTxExUnits,
			MaxBlockExUnits:      common.ExUnits{Memory: 62_000_000, Steps: 40_000_000_000},
			MaxValueSize:         p.MaxValueSize,
			CollateralPercentage: p.CollateralPercentage,
			MaxCollateralInputs:  p.MaxCollateralInputs,
		}
	case Conway:
		c := p.conway()
		return &c
	case Dijkstra:
		return &dijkstra.DijkstraProtocolParameters{
			ConwayProtocolParameters: p.conway(),
			MaxRefScriptSizePerBlock: 1 << 20,
			MaxRefScriptSizePerTx:    200 * 1024,
			RefScriptCostStride:      25600,
			RefScriptCostMultiplier:  rat(6, 5),
		}
	}
	panic("ledgergen: unknown era")
}

func (p Params) conway() conway.ConwayProtocolParameters {
	r := func(n, d int64) cbor.Rat { return cbor.Rat{Rat: big.NewRat(n, d)} }
	return conway.ConwayProtocolParameters{
		MinFeeA: p.MinFeeA, MinFeeB: p.MinFeeB,
		MaxBlockBodySize: 90112, MaxTxSize: p.MaxTxSize, MaxBlockHeaderSize: 1100,
		KeyDeposit: p.KeyDeposit, PoolDeposit: p.PoolDeposit,
		MaxEpoch: 18, NOpt: 500,
		A0: rat(3, 10), Rho: rat(3, 1000), Tau: rat(2, 10),
		ProtocolVersion:      common.ProtocolParametersProtocolVersion{Major: p.ProtocolMajor, Minor: p.ProtocolMinor},
		MinPoolCost:          170_000_000,
		AdaPerUtxoByte:       p.CoinsPerUtxoByte,
		CostModels:           p.CostModels,
		ExecutionCosts:       common.ExUnitPrice{MemPrice: rat(577, 10000), StepPrice: rat(721, 10000000)},
		MaxTxExUnits:         p.MaxTxExUnits,
		MaxBlockExUnits:      common.ExUnits{Memory: 62_000_000, Steps: 40_000_000_000},
		MaxValueSize:         p.MaxValueSize,
		CollateralPercentage: p.CollateralPercentage,
		MaxCollateralInputs:  p.MaxCollateralInputs,
		PoolVotingThresholds: conway.PoolVotingThresholds{
			MotionNoConfidence: r(51, 100), CommitteeNormal: r(51, 100), CommitteeNoConfidence: r(51, 100),
			HardForkInitiation: r(51, 100), PpSecurityGroup: r(51, 100),
		},
		DRepVotingThresholds: conway.DRepVotingThresholds{
			MotionNoConfidence: r(67, 100), CommitteeNormal: r(67, 100), CommitteeNoConfidence: r(60, 100),
			UpdateToConstitution: r(75, 100), HardForkInitiation: r(60, 100), PpNetworkGroup: r(67, 100),
			PpEconomicGroup: r(67, 100), PpTechnicalGroup: r(67, 100), PpGovGroup: r(75, 100),
			TreasuryWithdrawal: r(67, 100),
		},
		MinCommitteeSize: 7, CommitteeTermLimit: 146, GovActionValidityPeriod: 6,
		GovActionDeposit: p.GovActionDeposit, DRepDeposit: p.DRepDeposit, DRepInactivityPeriod: 20,
		MinFeeRefScriptCostPerByte: rat(15, 1),
	}
}
