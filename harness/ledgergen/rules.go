package ledgergen

import (
	"errors"
	"reflect"
	"runtime"
	"strings"

	"github.com/blinklabs-io/gouroboros/ledger/allegra"
	"github.com/blinklabs-io/gouroboros/ledger/alonzo"
	"github.com/blinklabs-io/gouroboros/ledger/babbage"
	"github.com/blinklabs-io/gouroboros/ledger/common"
	"github.com/blinklabs-io/gouroboros/ledger/conway"
	"github.com/blinklabs-io/gouroboros/ledger/dijkstra"
	"github.com/blinklabs-io/gouroboros/ledger/mary"
	"github.com/blinklabs-io/gouroboros/ledger/shelley"
)

// Rules returns the era's UtxoValidationRules slice, i.e. exactly the list
// ledger.VerifyBlock hands to common.VerifyTransaction for a block of that era.
func Rules(e Era) []common.UtxoValidationRuleFunc {
	switch e {
	case Shelley:
		return shelley.UtxoValidationRules
	case Allegra:
		return allegra.UtxoValidationRules
	case Mary:
		return mary.UtxoValidationRules
	case Alonzo:
		return alonzo.UtxoValidationRules
	case Babbage:
		return babbage.UtxoValidationRules
	case Conway:
		return conway.UtxoValidationRules
	case Dijkstra:
		return dijkstra.UtxoValidationRules
	}
	panic("ledgergen: unknown era")
}

// RuleName returns "pkg.FuncName" of a rule function, e.g.
// "allegra.UtxoValidateOutsideValidityIntervalUtxo". Dijkstra's list mixes
// conway.* and dijkstra.* functions; the package prefix tells them apart.
func RuleName(f common.UtxoValidationRuleFunc) string {
	fn := runtime.FuncForPC(reflect.ValueOf(f).Pointer())
	if fn == nil {
		return "?"
	}
	n := fn.Name()
	if i := strings.LastIndex(n, "/"); i >= 0 {
		n = n[i+1:]
	}
	return n
}

// RuleNames lists the names (see RuleName) of the era's rule list, in order.
func RuleNames(e Era) []string {
	var out []string
	for _, f := range Rules(e) {
		out = append(out, RuleName(f))
	}
	return out
}

// Rule finds a rule of the era's list by name. name is either the full
// "pkg.Func" form or the bare function name ("UtxoValidateWithdrawals"); the
// bare form matches the first entry with that function name.
func Rule(e Era, name string) (common.UtxoValidationRuleFunc, bool) {
	for _, f := range Rules(e) {
		n := RuleName(f)
		if n == name || strings.HasSuffix(n, "."+name) {
			return f, true
		}
	}
	return nil, false
}

// Verify runs common.VerifyTransaction with the era's full rule list (under
// the history checks of Checked when EnableChecks is on).
func Verify(e Era, tx common.Transaction, slot uint64, ls common.LedgerState, pp common.ProtocolParameters) error {
	return Checked(e, tx, ls, func() error { return common.VerifyTransaction(tx, slot, ls, pp, Rules(e)) })
}

// RuleResult is the outcome of one rule.
type RuleResult struct {
	Name string
	Err  error
}

// RunAll runs every rule of the era's list (no short-circuit) and returns the
// individual outcomes in list order. Useful to see which rules object to a
// transaction, and to judge a group of rules (e.g. the collateral rules)
// independently of unrelated ones.
func RunAll(e Era, tx common.Transaction, slot uint64, ls common.LedgerState, pp common.ProtocolParameters) []RuleResult {
	rules := Rules(e)
	out := make([]RuleResult, len(rules))
	for i, f := range rules {
		out[i] = RuleResult{Name: RuleName(f), Err: f(tx, slot, ls, pp)}
	}
	return out
}

// Failed returns the results whose Err is non-nil.
func Failed(rs []RuleResult) []RuleResult {
	var out []RuleResult
	for _, r := range rs {
		if r.Err != nil {
			out = append(out, r)
		}
	}
	return out
}

// RootCause unwraps err (ValidationError wrappers from VerifyTransaction etc.)
// down to the innermost error, which is the typed rule error
// (e.g. shelley.ExpiredUtxoError).
func RootCause(err error) error {
	for err != nil {
		next := errors.Unwrap(err)
		if next == nil {
			return err
		}
		err = next
	}
	return nil
}

// ErrType returns the Go type name of RootCause(err) ("" for nil), e.g.
// "conway.WithdrawalNotDelegatedToDRepError".
func ErrType(err error) string {
	r := RootCause(err)
	if r == nil {
		return ""
	}
	t := reflect.TypeOf(r)
	for t.Kind() == reflect.Pointer {
		t = t.Elem()
	}
	s := t.String()
	return s
}
