package ledgergen

import (
	"errors"
	"fmt"
	"time"

	"github.com/blinklabs-io/gouroboros/ledger/common"
	"github.com/blinklabs-io/gouroboros/ledger/shelley"
)

// ErrUtxoNotFound is what State.UtxoById returns for an unknown input.
var ErrUtxoNotFound = errors.New("ledgergen: utxo not found")

// State is a small, fully explicit implementation of common.LedgerState (and
// of the optional common.DRepDelegationState capability). Every answer comes
// from the exported maps, so a monitor can vary exactly one fact. The zero
// maps answer "not registered / not found / no delegation".
//
// State is not safe for concurrent mutation; build one per case (it is cheap)
// or fill it before starting parallel readers.
type State struct {
	Network uint
	// Utxos is keyed by Input.String() ("hex(txid)#index").
	Utxos map[string]common.Utxo
	// StakeRegistered lists registered stake credentials by hash (key and
	// script credentials share the map, as in ouroboros-mock).
	StakeRegistered map[Hash28]bool
	// RewardBalances holds reward-account balances by credential hash.
	RewardBalances map[Hash28]uint64
	// Pools lists registered pools by operator key hash.
	Pools map[Hash28]*common.PoolRegistrationCertificate
	// DRepDelegations answers DRepDelegation: a missing entry means "no
	// delegation" (nil, nil).
	DRepDelegations map[Hash28]*common.Drep
	// DRepDelegationErr, when non-nil, is returned by DRepDelegation.
	DRepDelegationErr error
	// DRepRegs lists registered DReps by credential hash.
	DRepRegs map[Hash28]*common.DRepRegistration
	// Committee lists constitutional-committee members by cold credential.
	Committee map[Hash28]*common.CommitteeMember
	// GovActions lists known governance actions by "hex(txid)#index".
	GovActions map[string]*common.GovActionState
	// Treasury is the answer of TreasuryValue.
	Treasury uint64
	// Models is the answer of CostModels.
	Models map[common.PlutusLanguage]common.CostModel
	// Pots is the answer of GetAdaPots.
	Pots common.AdaPots
	// SlotLength / SystemStart drive SlotToTime / TimeToSlot (defaults: 1 s,
	// Unix epoch).
	SlotLength  time.Duration
	SystemStart time.Time
}

var (
	_ common.LedgerState         = (*State)(nil)
	_ common.DRepDelegationState = (*State)(nil)
)

// NewState returns an empty state for the given network id.
func NewState(network byte) *State {
	return &State{
		Network:         uint(network),
		Utxos:           map[string]common.Utxo{},
		StakeRegistered: map[Hash28]bool{},
		RewardBalances:  map[Hash28]uint64{},
		Pools:           map[Hash28]*common.PoolRegistrationCertificate{},
		DRepDelegations: map[Hash28]*common.Drep{},
		DRepRegs:        map[Hash28]*common.DRepRegistration{},
		Committee:       map[Hash28]*common.CommitteeMember{},
		GovActions:      map[string]*common.GovActionState{},
		SlotLength:      time.Second,
		SystemStart:     time.Unix(0, 0).UTC(),
	}
}

// AddUtxo encodes the output description, decodes it with the output decoder
// of era e (so the UTxO holds a genuine library output object) and stores it
// under the input. It returns the decode error, if any.
func (s *State) AddUtxo(e Era, in Input, out Output) error {
	raw := out.Node().Encode()
	o, err := DecodeOutput(e, raw)
	if err != nil {
		return fmt.Errorf("ledgergen: utxo output does not decode as %s output: %w", e, err)
	}
	s.AddUtxoDecoded(in, o)
	return nil
}

// AddUtxoDecoded stores an already decoded output under the input.
func (s *State) AddUtxoDecoded(in Input, out common.TransactionOutput) {
	id := shelley.NewShelleyTransactionInput(fmt.Sprintf("%x", in.TxId[:]), int(in.Index))
	s.Utxos[in.String()] = common.Utxo{Id: id, Output: out}
}

// RegisterStake marks a stake credential as registered with the given reward
// balance.
func (s *State) RegisterStake(cred Hash28, balance uint64) {
	s.StakeRegistered[cred] = true
	s.RewardBalances[cred] = balance
}

// Clone returns a copy whose maps can be modified independently (the stored
// UTxO / certificate objects are shared; the library does not mutate them).
func (s *State) Clone() *State {
	c := *s
	c.Utxos = cloneMap(s.Utxos)
	c.StakeRegistered = cloneMap(s.StakeRegistered)
	c.RewardBalances = cloneMap(s.RewardBalances)
	c.Pools = cloneMap(s.Pools)
	c.DRepDelegations = cloneMap(s.DRepDelegations)
	c.DRepRegs = cloneMap(s.DRepRegs)
	c.Committee = cloneMap(s.Committee)
	c.GovActions = cloneMap(s.GovActions)
	c.Models = cloneMap(s.Models)
	return &c
}

func cloneMap[K comparable, V any](m map[K]V) map[K]V {
	if m == nil {
		return nil
	}
	out := make(map[K]V, len(m))
	for k, v := range m {
		out[k] = v
	}
	return out
}

// ---- common.UtxoState

// UtxoById looks the input up by "hex(txid)#index".
func (s *State) UtxoById(in common.TransactionInput) (common.Utxo, error) {
	id := in.Id()
	u, ok := s.Utxos[fmt.Sprintf("%x#%d", id[:], in.Index())]
	if !ok {
		return common.Utxo{}, ErrUtxoNotFound
	}
	return u, nil
}

// ---- common.CertState

// StakeRegistration returns no historical certificates.
func (s *State) StakeRegistration([]byte) ([]common.StakeRegistrationCertificate, error) {
	return nil, nil
}

// IsStakeCredentialRegistered answers from StakeRegistered.
func (s *State) IsStakeCredentialRegistered(c common.Credential) bool {
	return s.StakeRegistered[Hash28(c.Credential)]
}

// ---- common.SlotState

// SlotToTime maps slot n to SystemStart + n*SlotLength.
func (s *State) SlotToTime(slot uint64) (time.Time, error) {
	const maxSlots = uint64(1) << 40
	if slot > maxSlots {
		slot = maxSlots
	}
	return s.SystemStart.Add(time.Duration(slot) * s.SlotLength), nil
}

// TimeToSlot is the inverse of SlotToTime.
func (s *State) TimeToSlot(t time.Time) (uint64, error) {
	if t.Before(s.SystemStart) {
		return 0, errors.New("ledgergen: time before system start")
	}
	return uint64(t.Sub(s.SystemStart) / s.SlotLength), nil
}

// ---- common.PoolState

// PoolCurrentState answers from Pools (no pending retirements).
func (s *State) PoolCurrentState(h common.PoolKeyHash) (*common.PoolRegistrationCertificate, *uint64, error) {
	return s.Pools[Hash28(h)], nil, nil
}

// IsPoolRegistered answers from Pools.
func (s *State) IsPoolRegistered(h common.PoolKeyHash) bool { return s.Pools[Hash28(h)] != nil }

// IsVrfKeyInUse always answers "not in use".
func (s *State) IsVrfKeyInUse(common.Blake2b256) (bool, common.PoolKeyHash, error) {
	return false, common.PoolKeyHash{}, nil
}

// ---- common.RewardState

// CalculateRewards delegates to the library's calculation.
func (s *State) CalculateRewards(p common.AdaPots, snap common.RewardSnapshot, params common.RewardParameters) (*common.RewardCalculationResult, error) {
	return common.CalculateRewards(p, snap, params)
}

// GetAdaPots returns Pots.
func (s *State) GetAdaPots() common.AdaPots { return s.Pots }

// UpdateAdaPots stores Pots.
func (s *State) UpdateAdaPots(p common.AdaPots) error { s.Pots = p; return nil }

// GetRewardSnapshot returns an empty snapshot.
func (s *State) GetRewardSnapshot(uint64) (common.RewardSnapshot, error) {
	return common.RewardSnapshot{}, nil
}

// IsRewardAccountRegistered answers from StakeRegistered.
func (s *State) IsRewardAccountRegistered(c common.Credential) bool {
	return s.StakeRegistered[Hash28(c.Credential)]
}

// RewardAccountBalance answers from RewardBalances (nil when unregistered).
func (s *State) RewardAccountBalance(c common.Credential) (*uint64, error) {
	if !s.StakeRegistered[Hash28(c.Credential)] {
		return nil, nil
	}
	b := s.RewardBalances[Hash28(c.Credential)]
	return &b, nil
}

// ---- common.GovState

// CommitteeMember answers from Committee.
func (s *State) CommitteeMember(h common.Blake2b224) (*common.CommitteeMember, error) {
	return s.Committee[Hash28(h)], nil
}

// CommitteeMembers lists Committee.
func (s *State) CommitteeMembers() ([]common.CommitteeMember, error) {
	var out []common.CommitteeMember
	for _, m := range s.Committee {
		out = append(out, *m)
	}
	return out, nil
}

// DRepRegistration answers from DRepRegs.
func (s *State) DRepRegistration(h common.Blake2b224) (*common.DRepRegistration, error) {
	return s.DRepRegs[Hash28(h)], nil
}

// DRepRegistrations lists DRepRegs.
func (s *State) DRepRegistrations() ([]common.DRepRegistration, error) {
	var out []common.DRepRegistration
	for _, r := range s.DRepRegs {
		out = append(out, *r)
	}
	return out, nil
}

// Constitution returns an empty constitution.
func (s *State) Constitution() (*common.Constitution, error) { return &common.Constitution{}, nil }

// TreasuryValue returns Treasury.
func (s *State) TreasuryValue() (uint64, error) { return s.Treasury, nil }

// GovActionById answers from GovActions.
func (s *State) GovActionById(id common.GovActionId) (*common.GovActionState, error) {
	return s.GovActions[fmt.Sprintf("%x#%d", id.TransactionId[:], id.GovActionIdx)], nil
}

// GovActionExists answers from GovActions.
func (s *State) GovActionExists(id common.GovActionId) bool {
	g, _ := s.GovActionById(id)
	return g != nil
}

// ---- rest of common.LedgerState

// NetworkId returns Network.
func (s *State) NetworkId() uint { return s.Network }

// CostModels returns Models (never nil).
func (s *State) CostModels() map[common.PlutusLanguage]common.CostModel {
	if s.Models == nil {
		return map[common.PlutusLanguage]common.CostModel{}
	}
	return s.Models
}

// ---- common.DRepDelegationState

// DRepDelegation answers from DRepDelegations / DRepDelegationErr.
func (s *State) DRepDelegation(c common.Credential) (*common.Drep, error) {
	if s.DRepDelegationErr != nil {
		return nil, s.DRepDelegationErr
	}
	return s.DRepDelegations[Hash28(c.Credential)], nil
}

// WithoutDRepDelegation wraps a ledger state so that only the methods of
// common.LedgerState are visible: the result does NOT implement
// common.DRepDelegationState ("capability missing").
func WithoutDRepDelegation(ls common.LedgerState) common.LedgerState {
	return struct{ common.LedgerState }{ls}
}
