package ledgergen

import (
	"bytes"
	"testing"

	"github.com/blinklabs-io/gouroboros/ledger/common"
)

// The baseline payment of every era must decode through both entry points and
// pass the era's complete rule list; its id must be the hash of the body bytes.
func TestBaselineAccepted(t *testing.T) {
	for _, e := range AllEras {
		w := NewWorld(e)
		o := w.Run(w.Spec, w.Slot)
		if o.DecodeErr != nil {
			t.Fatalf("%s: decode: %v (%x)", e, o.DecodeErr, o.Built.Cbor)
		}
		if !o.Accepted {
			for _, r := range Failed(RunAll(e, o.Tx, w.Slot, w.State, w.PP())) {
				t.Logf("%s: rule %s: %v", e, r.Name, r.Err)
			}
			t.Fatalf("%s: baseline rejected: %v", e, o.VerifyErr)
		}
		id := o.Tx.Hash()
		if !bytes.Equal(id[:], o.Built.TxId[:]) {
			t.Fatalf("%s: tx id %x, expected %x", e, id[:], o.Built.TxId[:])
		}
		if _, err := o.Built.DecodeEra(); err != nil {
			t.Fatalf("%s: era constructor: %v", e, err)
		}
		if int(o.Tx.Type()) != int(e.TxType()) {
			t.Fatalf("%s: type %d", e, o.Tx.Type())
		}
	}
}

// Removing the signature must be noticed (guards against a world in which the
// rules are not really exercised).
func TestBaselineUnsignedRejected(t *testing.T) {
	for _, e := range AllEras {
		w := NewWorld(e)
		s := w.Spec.Clone()
		s.Signers = nil
		if o := w.Run(s, w.Slot); o.DecodeErr != nil || o.Accepted {
			t.Fatalf("%s: unsigned baseline: decodeErr=%v accepted=%v", e, o.DecodeErr, o.Accepted)
		}
	}
}

// Script world: the phase-2-invalid form is accepted in Alonzo..Conway, the
// phase-2-valid form is rejected as unsupported in Alonzo/Babbage and accepted
// (the script really runs) in Conway/Dijkstra.
func TestScriptWorld(t *testing.T) {
	for _, e := range []Era{Alonzo, Babbage, Conway, Dijkstra} {
		langs := []uint{0}
		if e >= Babbage {
			langs = append(langs, 1)
		}
		if e >= Conway {
			langs = append(langs, 2)
		}
		for _, l := range langs {
			w := NewScriptWorld(e, l)
			for _, invalid := range []bool{false, true} {
				if invalid && e == Dijkstra {
					continue
				}
				s := w.Spec.Clone()
				s.Invalid = invalid
				o := w.Run(s, w.Slot)
				want := invalid || e >= Conway
				if o.DecodeErr != nil || o.Accepted != want {
					for _, r := range Failed(RunAll(e, o.Tx, w.Slot, w.State, w.PP())) {
						t.Logf("    rule %s: %v", r.Name, r.Err)
					}
					t.Fatalf("%s lang=%d invalid=%v: decode=%v accepted=%v (want %v) err=%v", e, l, invalid, o.DecodeErr, o.Accepted, want, o.VerifyErr)
				}
			}
			// a wrong script integrity hash must be noticed
			s := w.Spec.Clone()
			s.Invalid = e != Dijkstra
			bad := Blake256([]byte("wrong"))
			s.ScriptDataHash = &bad
			if o := w.Run(s, w.Slot); o.Accepted {
				t.Fatalf("%s lang=%d: wrong script data hash accepted", e, l)
			}
		}
	}
}

// The independent language-view encoder agrees with the library's on the
// default cost models (sanity of the generator, not an oracle).
func TestLangViewsAgree(t *testing.T) {
	cm := DefaultParams(Conway).CostModels
	for _, langs := range [][]uint{{0}, {1}, {2}, {0, 1}, {1, 0, 2}, {2, 0}} {
		used := map[uint]struct{}{}
		for _, l := range langs {
			used[l] = struct{}{}
		}
		want, err := common.EncodeLangViews(used, cm)
		if err != nil {
			t.Fatal(err)
		}
		if got := LangViews(cm, langs...); !bytes.Equal(got, want) {
			t.Fatalf("langs %v: %x != %x", langs, got, want)
		}
	}
}

// Rule lookup by name and the capability-hiding wrapper.
func TestRuleLookupAndWrapper(t *testing.T) {
	if _, ok := Rule(Dijkstra, "conway.UtxoValidateWithdrawals"); !ok {
		t.Fatal("dijkstra list should contain conway.UtxoValidateWithdrawals")
	}
	if _, ok := Rule(Babbage, "UtxoValidateTooManyCollateralInputs"); !ok {
		t.Fatal("bare-name lookup failed")
	}
	if _, ok := Rule(Alonzo, "UtxoValidateTooManyCollateralInputs"); ok {
		t.Log("note: alonzo list now has a collateral-count rule")
	}
	var ls common.LedgerState = NewState(Mainnet)
	if _, ok := ls.(common.DRepDelegationState); !ok {
		t.Fatal("State must implement DRepDelegationState")
	}
	if _, ok := WithoutDRepDelegation(ls).(common.DRepDelegationState); ok {
		t.Fatal("wrapper must hide DRepDelegation")
	}
}

// Every presentation variant is the same transaction: same size, decodes, and
// (on a correct library) gets the verdict of the canonical form.
func TestPresentationsAreSizeNeutralAndAccepted(t *testing.T) {
	for _, e := range AllEras {
		w := NewWorld(e)
		s := w.Spec.Clone()
		s.TTL = U64(5000)
		if e.HasValidityStart() {
			s.ValidityStart = U64(10)
		}
		if e.HasPlutus() {
			s.RequiredSigners = []Hash28{w.Payer.Hash()}
			s.NetworkID = U8(Mainnet)
		}
		canon := w.Run(s, w.Slot)
		if !canon.Accepted {
			t.Fatalf("%s canonical: %v %v", e, canon.DecodeErr, canon.VerifyErr)
		}
		ps := s.Presentations(7)
		if len(ps) < 2 {
			t.Fatalf("%s: only %d presentations", e, len(ps))
		}
		for _, p := range ps {
			o := w.Run(s.Presented(p), w.Slot)
			if len(o.Built.Cbor) != len(canon.Built.Cbor) {
				t.Fatalf("%s %s: size %d != %d", e, p.Name, len(o.Built.Cbor), len(canon.Built.Cbor))
			}
			if bytes.Equal(o.Built.Cbor, canon.Built.Cbor) {
				t.Fatalf("%s %s: bytes unchanged", e, p.Name)
			}
			if o.DecodeErr != nil || !o.Accepted {
				t.Fatalf("%s %s: decode=%v verify=%v", e, p.Name, o.DecodeErr, o.VerifyErr)
			}
		}
	}
}

// The history checks stay quiet on a pure validation and notice a validator
// that mutates the UTxO objects or changes its mind.
func TestCheckedNoticesMutationAndFlipFlop(t *testing.T) {
	var keys []string
	Enable(&Independence{Prop: "T", Report: func(k, _ string, _ any) { keys = append(keys, k) }})
	defer Enable(nil)
	w := NewWorld(Conway)
	o := w.Run(w.Spec, w.Slot)
	if !o.Accepted || len(keys) != 0 {
		t.Fatalf("clean run: accepted=%v keys=%v", o.Accepted, keys)
	}
	n := 0
	Checked(Conway, o.Tx, w.State, func() error {
		n++
		if n == 2 {
			return ErrUtxoNotFound
		}
		return nil
	})
	Checked(Conway, o.Tx, w.State, func() error {
		u, _ := w.State.UtxoById(o.Tx.Inputs()[0])
		u.Output.Amount() // fresh big.Int: harmless
		for _, out := range o.Tx.Outputs() {
			_ = out
		}
		return nil
	})
	if len(keys) != 1 || keys[0] != "T:revalidation:conway:accept->reject" {
		t.Fatalf("keys=%v", keys)
	}
}
