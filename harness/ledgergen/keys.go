package ledgergen

import (
	"crypto/ed25519"

	"golang.org/x/crypto/blake2b"
)

// Hash28 is a Blake2b-224 digest (key hash, script hash, policy id).
type Hash28 [28]byte

// Hash32 is a Blake2b-256 digest (transaction id, datum hash, ...).
type Hash32 [32]byte

// Blake224 returns the Blake2b-224 digest of b (independent of the library's
// own hashing helpers).
func Blake224(b []byte) Hash28 {
	h, err := blake2b.New(28, nil)
	if err != nil {
		panic(err)
	}
	h.Write(b)
	var out Hash28
	copy(out[:], h.Sum(nil))
	return out
}

// Blake256 returns the Blake2b-256 digest of b.
func Blake256(b []byte) Hash32 { return Hash32(blake2b.Sum256(b)) }

// Key is an ed25519 key pair used for payment / stake credentials and vkey
// witnesses.
type Key struct {
	Priv ed25519.PrivateKey
	Pub  ed25519.PublicKey
}

// NewKey derives a key pair deterministically from a label (the label is
// hashed into the 32-byte ed25519 seed), so witnesses are reproducible from
// the case description alone.
func NewKey(label string) Key {
	seed := blake2b.Sum256([]byte("ledgergen-key:" + label))
	priv := ed25519.NewKeyFromSeed(seed[:])
	return Key{Priv: priv, Pub: priv.Public().(ed25519.PublicKey)}
}

// Hash returns the Blake2b-224 hash of the public key (the credential that
// appears in addresses and required signers).
func (k Key) Hash() Hash28 { return Blake224(k.Pub) }

// Sign signs msg (normally the 32-byte transaction id).
func (k Key) Sign(msg []byte) []byte { return ed25519.Sign(k.Priv, msg) }

// Network ids used in address headers.
const (
	Testnet byte = 0
	Mainnet byte = 1
)

// EnterpriseKeyAddr returns the bytes of an enterprise address (type 6) locked
// by a payment key hash.
func EnterpriseKeyAddr(network byte, payment Hash28) []byte {
	return append([]byte{0x60 | network&0x0f}, payment[:]...)
}

// EnterpriseScriptAddr returns the bytes of an enterprise address (type 7)
// locked by a script hash.
func EnterpriseScriptAddr(network byte, script Hash28) []byte {
	return append([]byte{0x70 | network&0x0f}, script[:]...)
}

// BaseKeyKeyAddr returns the bytes of a base address (type 0) with key-hash
// payment and key-hash stake credentials.
func BaseKeyKeyAddr(network byte, payment, stake Hash28) []byte {
	b := append([]byte{0x00 | network&0x0f}, payment[:]...)
	return append(b, stake[:]...)
}

// RewardKeyAddr returns the bytes of a reward account address (type 14) of a
// key-hash stake credential.
func RewardKeyAddr(network byte, stake Hash28) []byte {
	return append([]byte{0xe0 | network&0x0f}, stake[:]...)
}

// RewardScriptAddr returns the bytes of a reward account address (type 15) of
// a script-hash stake credential.
func RewardScriptAddr(network byte, script Hash28) []byte {
	return append([]byte{0xf0 | network&0x0f}, script[:]...)
}
