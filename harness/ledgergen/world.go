package ledgergen

import (
	"fmt"

	"github.com/blinklabs-io/gouroboros/ledger/common"

	"verifharness/cborx"
)

// World bundles a baseline transaction with the ledger state and protocol
// parameters under which the era's complete rule list accepts it. Monitors
// clone Spec (and State / Params when needed), change one aspect, and run it.
type World struct {
	Era    Era
	Net    byte
	Params Params
	State  *State
	// Spec is the baseline transaction: one key-locked input of Payer, one
	// output back to Payer, a fee above the minimum, no validity bounds,
	// signed by Payer.
	Spec  *TxSpec
	Payer Key
	// Slot is a slot at which the baseline transaction is valid.
	Slot uint64
	// Funds remembers the description of every UTxO added through AddUtxo, so
	// that Rebalance can sum the inputs of a spec.
	Funds map[string]Output
}

// Baseline amounts of NewWorld.
const (
	BaseInputCoin uint64 = 50_000_000
	BaseFee       uint64 = 400_000
)

// NewWorld returns the baseline payment world of an era on Mainnet network id
// with DefaultParams(e). The baseline transaction passes Verify(e, ...).
func NewWorld(e Era) *World {
	w := &World{
		Era: e, Net: Mainnet, Params: DefaultParams(e), State: NewState(Mainnet),
		Payer: NewKey("payer"), Slot: 1000, Funds: map[string]Output{},
	}
	in := In("payer-funds", 0)
	w.MustAddUtxo(in, w.PayerOutput(BaseInputCoin))
	w.Spec = &TxSpec{
		Era:     e,
		Inputs:  []Input{in},
		Outputs: []Output{w.PayerOutput(BaseInputCoin - BaseFee)},
		Fee:     BaseFee,
		Signers: []Key{w.Payer},
	}
	if e == Shelley {
		// ttl is a mandatory field of Shelley bodies (an absent / zero ttl is
		// only valid at slot 0): the baseline carries one far in the future
		w.Spec.TTL = U64(1 << 40)
	}
	return w
}

// PayerAddr returns the enterprise address of Payer on the world's network.
func (w *World) PayerAddr() []byte { return EnterpriseKeyAddr(w.Net, w.Payer.Hash()) }

// PayerOutput returns an ada-only output to PayerAddr in the era's usual
// encoding (map form from Babbage on, legacy array before).
func (w *World) PayerOutput(coin uint64) Output {
	return Output{Addr: w.PayerAddr(), Coin: coin, MapForm: w.Era >= Babbage}
}

// AddUtxo adds a UTxO to the state (decoded with the era's output decoder)
// and remembers its description for Rebalance.
func (w *World) AddUtxo(in Input, out Output) error {
	if err := w.State.AddUtxo(w.Era, in, out); err != nil {
		return err
	}
	w.Funds[in.String()] = out
	return nil
}

// MustAddUtxo is AddUtxo that panics on a decode error (generator bug).
func (w *World) MustAddUtxo(in Input, out Output) {
	if err := w.AddUtxo(in, out); err != nil {
		panic(err)
	}
}

// PP returns the concrete protocol parameters of the world's era built from
// w.Params (a fresh object on every call).
func (w *World) PP() common.ProtocolParameters { return w.Params.For(w.Era) }

// Rebalance sets spec.Outputs[0].Coin so that coin is conserved:
// Σ inputs (known through AddUtxo) + Σ withdrawals + extraConsumed
// = Σ outputs + fee + extraProduced. extraConsumed / extraProduced carry
// refunds and deposits. It fails if the remainder would be negative or an
// input is unknown.
func (w *World) Rebalance(spec *TxSpec, extraConsumed, extraProduced uint64) error {
	if len(spec.Outputs) == 0 {
		return fmt.Errorf("ledgergen: Rebalance needs at least one output")
	}
	var consumed, produced uint64
	for _, in := range spec.Inputs {
		o, ok := w.Funds[in.String()]
		if !ok {
			return fmt.Errorf("ledgergen: Rebalance: input %s not added through World.AddUtxo", in)
		}
		consumed += o.Coin
	}
	for _, wd := range spec.Withdrawals {
		consumed += wd.Amount
	}
	consumed += extraConsumed
	produced = spec.Fee + extraProduced
	for i, o := range spec.Outputs {
		if i > 0 {
			produced += o.Coin
		}
	}
	if produced > consumed {
		return fmt.Errorf("ledgergen: Rebalance: produced %d exceeds consumed %d", produced, consumed)
	}
	spec.Outputs[0].Coin = consumed - produced
	return nil
}

// Outcome is what happened to one built transaction.
type Outcome struct {
	Built     *Built
	Tx        common.Transaction // nil when decoding failed
	DecodeErr error
	VerifyErr error // result of the full rule list; nil also when not run
	Accepted  bool  // decoded and accepted by the full rule list
}

// Run builds spec, decodes it through ledger.NewTransactionFromCbor and, if it
// decodes, runs the era's full rule list at the given slot against the
// world's state and parameters. With EnableChecks the validation is repeated
// (history independence) and a transaction rejected by validation is re-run in
// its presentation variants (see Independence).
func (w *World) Run(spec *TxSpec, slot uint64) Outcome {
	return w.RunWith(spec, slot, w.State, w.PP())
}

// RunWith is Run with an explicit ledger state and protocol parameters.
func (w *World) RunWith(spec *TxSpec, slot uint64, ls common.LedgerState, pp common.ProtocolParameters) Outcome {
	o := w.runOnce(spec, slot, ls, pp)
	w.presentationCheck(spec, slot, ls, pp, o)
	return o
}

func (w *World) runOnce(spec *TxSpec, slot uint64, ls common.LedgerState, pp common.ProtocolParameters) Outcome {
	b := spec.Build()
	o := Outcome{Built: b}
	o.Tx, o.DecodeErr = b.Decode()
	if o.DecodeErr != nil {
		o.Tx = nil
		return o
	}
	o.VerifyErr = Verify(spec.Era, o.Tx, slot, ls, pp)
	o.Accepted = o.VerifyErr == nil
	return o
}

// AlwaysSucceeds is the classic three-argument "always succeeds" Plutus
// program (\_ _ _ -> ()), as the CBOR byte string that script witnesses carry.
var AlwaysSucceeds = []byte{0x4d, 0x01, 0x00, 0x00, 0x33, 0x22, 0x22, 0x20, 0x05, 0x12, 0x00, 0x12, 0x00, 0x11}

// ScriptWorld extends the baseline with a Plutus-locked input, its script
// witness, datum, redeemer, a key-locked collateral input and the matching
// script integrity hash: the smallest transaction for which the collateral
// rules matter.
//
// What the library makes of it: Alonzo and Babbage reject every phase-2-valid
// transaction with redeemers (PlutusScriptValidationUnsupportedError) and
// accept the phase-2-INVALID one (Spec.Invalid = true; collateral is what such
// a transaction pays with); Conway runs the script.
type ScriptWorld struct {
	*World
	Lang         uint // 0 = PlutusV1, 1 = V2, 2 = V3
	Script       []byte
	ScriptHash   Hash28
	ScriptIn     Input
	CollateralIn Input
	Datum        *cborx.Node
}

// Collateral coin of the default collateral UTxO of NewScriptWorld.
const BaseCollateralCoin uint64 = 5_000_000

// NewScriptWorld builds the script world of an Alonzo+ era for Plutus
// language lang (0 = V1 ...). Call Seal after changing anything that the
// script integrity hash or the redeemer index depends on (inputs, redeemers,
// datums, cost models).
func NewScriptWorld(e Era, lang uint) *ScriptWorld {
	if !e.HasPlutus() {
		panic("ledgergen: NewScriptWorld needs Alonzo or later")
	}
	w := &ScriptWorld{World: NewWorld(e), Lang: lang, Script: AlwaysSucceeds}
	w.ScriptHash = ScriptHash(byte(lang+1), w.Script)
	w.Datum = cborx.U(42)
	dh := Blake256(w.Datum.Encode())
	w.ScriptIn = In("script-funds", 0)
	w.CollateralIn = In("collateral", 0)
	w.MustAddUtxo(w.ScriptIn, Output{Addr: EnterpriseScriptAddr(w.Net, w.ScriptHash), Coin: 3_000_000, DatumHash: &dh, MapForm: e >= Babbage})
	w.MustAddUtxo(w.CollateralIn, w.PayerOutput(BaseCollateralCoin))
	s := w.Spec
	s.Inputs = append(s.Inputs, w.ScriptIn)
	s.Collateral = []Input{w.CollateralIn}
	s.Datums = []*cborx.Node{w.Datum}
	switch lang {
	case 0:
		s.PlutusV1 = [][]byte{w.Script}
	case 1:
		s.PlutusV2 = [][]byte{w.Script}
	default:
		s.PlutusV3 = [][]byte{w.Script}
	}
	s.Redeemers = []Redeemer{{Tag: TagSpend, Data: cborx.U(0), Mem: 100_000, Steps: 100_000_000}}
	if err := w.Rebalance(s, 0, 0); err != nil {
		panic(err)
	}
	w.Seal(s)
	return w
}

// Seal points the first spending redeemer at the script input and recomputes
// the script integrity hash of spec from w.Params.CostModels.
func (w *ScriptWorld) Seal(spec *TxSpec) {
	if idx := spec.SortedInputIndex(w.ScriptIn); idx >= 0 {
		for i := range spec.Redeemers {
			if spec.Redeemers[i].Tag == TagSpend {
				spec.Redeemers[i].Index = uint64(idx)
				break
			}
		}
	}
	h := spec.ScriptIntegrityHash(w.Params.CostModels, w.Lang)
	spec.ScriptDataHash = &h
}
