// Package ledgergen builds Cardano transactions of every Shelley-based era as
// raw CBOR (with cborx, so every byte is under the generator's control),
// decodes them through the library's era constructors, and provides a
// configurable ledger state / UTxO / protocol-parameter world in which
// "everything else is valid" so that a monitor can vary one aspect at a time.
//
// See README.md in this directory for a usage example.
package ledgergen

import (
	"fmt"

	"github.com/blinklabs-io/gouroboros/ledger"
	"github.com/blinklabs-io/gouroboros/ledger/allegra"
	"github.com/blinklabs-io/gouroboros/ledger/alonzo"
	"github.com/blinklabs-io/gouroboros/ledger/babbage"
	"github.com/blinklabs-io/gouroboros/ledger/common"
	"github.com/blinklabs-io/gouroboros/ledger/conway"
	"github.com/blinklabs-io/gouroboros/ledger/dijkstra"
	"github.com/blinklabs-io/gouroboros/ledger/mary"
	"github.com/blinklabs-io/gouroboros/ledger/shelley"
)

// Era identifies one of the Shelley-based ledger eras.
type Era int

const (
	Shelley Era = iota
	Allegra
	Mary
	Alonzo
	Babbage
	Conway
	Dijkstra
)

// AllEras lists every era ledgergen can build, oldest first.
var AllEras = []Era{Shelley, Allegra, Mary, Alonzo, Babbage, Conway, Dijkstra}

// String returns the lower-case era name ("shelley" ... "dijkstra"); it is the
// spelling used in violation keys.
func (e Era) String() string {
	switch e {
	case Shelley:
		return "shelley"
	case Allegra:
		return "allegra"
	case Mary:
		return "mary"
	case Alonzo:
		return "alonzo"
	case Babbage:
		return "babbage"
	case Conway:
		return "conway"
	case Dijkstra:
		return "dijkstra"
	}
	return fmt.Sprintf("era%d", int(e))
}

// TxType returns the library's transaction type number of the era
// (ledger.TxTypeShelley ... ledger.TxTypeDijkstra).
func (e Era) TxType() uint {
	switch e {
	case Shelley:
		return ledger.TxTypeShelley
	case Allegra:
		return ledger.TxTypeAllegra
	case Mary:
		return ledger.TxTypeMary
	case Alonzo:
		return ledger.TxTypeAlonzo
	case Babbage:
		return ledger.TxTypeBabbage
	case Conway:
		return ledger.TxTypeConway
	case Dijkstra:
		return ledger.TxTypeDijkstra
	}
	panic("ledgergen: unknown era")
}

// HasMultiAsset reports whether outputs of the era can carry native tokens
// (Mary and later).
func (e Era) HasMultiAsset() bool { return e >= Mary }

// HasValidityStart reports whether the era has body key 8 (validity interval
// start), i.e. Allegra and later.
func (e Era) HasValidityStart() bool { return e >= Allegra }

// HasPlutus reports whether the era has the four-element transaction envelope,
// redeemers, collateral inputs and the script data hash (Alonzo and later).
func (e Era) HasPlutus() bool { return e >= Alonzo }

// HasCollateralReturn reports whether the era has collateral return, total
// collateral, reference inputs and map-form outputs (Babbage and later).
func (e Era) HasCollateralReturn() bool { return e >= Babbage }

// Decode decodes raw transaction CBOR through the generic entry point
// ledger.NewTransactionFromCbor with the era's transaction type.
func Decode(e Era, txCbor []byte) (common.Transaction, error) {
	return ledger.NewTransactionFromCbor(e.TxType(), txCbor)
}

// DecodeEra decodes raw transaction CBOR through the era's own constructor
// (shelley.NewShelleyTransactionFromCbor ... dijkstra.NewDijkstraTransactionFromCbor).
func DecodeEra(e Era, txCbor []byte) (common.Transaction, error) {
	switch e {
	case Shelley:
		return wrap(shelley.NewShelleyTransactionFromCbor(txCbor))
	case Allegra:
		return wrap(allegra.NewAllegraTransactionFromCbor(txCbor))
	case Mary:
		return wrap(mary.NewMaryTransactionFromCbor(txCbor))
	case Alonzo:
		return wrap(alonzo.NewAlonzoTransactionFromCbor(txCbor))
	case Babbage:
		return wrap(babbage.NewBabbageTransactionFromCbor(txCbor))
	case Conway:
		return wrap(conway.NewConwayTransactionFromCbor(txCbor))
	case Dijkstra:
		return wrap(dijkstra.NewDijkstraTransactionFromCbor(txCbor))
	}
	return nil, fmt.Errorf("ledgergen: unknown era %d", int(e))
}

// wrap turns a (typed pointer, error) pair into (interface, error) without
// producing a non-nil interface around a nil pointer.
func wrap[T any, P interface {
	*T
	common.Transaction
}](p P, err error) (common.Transaction, error) {
	if err != nil || p == nil {
		if err == nil {
			err = fmt.Errorf("ledgergen: constructor returned nil")
		}
		return nil, err
	}
	return p, nil
}

// DecodeOutput decodes one transaction output (legacy array or Babbage map
// form) with the output decoder of the era. It is what State.AddUtxo uses.
func DecodeOutput(e Era, outCbor []byte) (common.TransactionOutput, error) {
	switch e {
	case Shelley, Allegra:
		o, err := shelley.NewShelleyTransactionOutputFromCbor(outCbor)
		if err != nil {
			return nil, err
		}
		return o, nil
	case Mary:
		o, err := mary.NewMaryTransactionOutputFromCbor(outCbor)
		if err != nil {
			return nil, err
		}
		return o, nil
	case Alonzo:
		o, err := alonzo.NewAlonzoTransactionOutputFromCbor(outCbor)
		if err != nil {
			return nil, err
		}
		return o, nil
	default:
		o, err := babbage.NewBabbageTransactionOutputFromCbor(outCbor)
		if err != nil {
			return nil, err
		}
		return o, nil
	}
}
