// Package corpus loads the real blocks shipped with the repository (read by
// path from the checkout the harness was built against, no internal import).
package corpus

import (
	"encoding/hex"
	"fmt"
	"os"
	"path/filepath"
	"strings"
)

// Block types as used by ledger.NewBlockFromCbor.
const (
	TypeByronEBB  = 0
	TypeByronMain = 1
	TypeShelley   = 2
	TypeAllegra   = 3
	TypeMary      = 4
	TypeAlonzo    = 5
	TypeBabbage   = 6
	TypeConway    = 7
	TypeDijkstra  = 8
)

type Block struct {
	Name string
	Type uint
	Cbor []byte
}

func readHex(path string) ([]byte, error) {
	b, err := os.ReadFile(path)
	if err != nil {
		return nil, err
	}
	s := strings.Join(strings.Fields(string(b)), "")
	return hex.DecodeString(s)
}

// Blocks returns the corpus blocks found under repo.
func Blocks(repo string) ([]Block, error) {
	type ent struct {
		rel  string
		name string
		typ  uint
	}
	ents := []ent{
		{"internal/testdata/byron_block.hex", "byron_main", TypeByronMain},
		{"internal/testdata/shelley_block.hex", "shelley", TypeShelley},
		{"internal/testdata/allegra_block.hex", "allegra", TypeAllegra},
		{"internal/testdata/mary_block.hex", "mary", TypeMary},
		{"internal/testdata/alonzo_block.hex", "alonzo", TypeAlonzo},
		{"internal/testdata/babbage_block.hex", "babbage", TypeBabbage},
		{"internal/testdata/conway_block.hex", "conway", TypeConway},
		{"ledger/dijkstra/testdata/musashi_dijkstra_block.hex", "dijkstra", TypeDijkstra},
		{"protocol/chainsync/testdata/byron_ebb_testnet_8f8602837f7c6f8b8867dd1cbc1842cf51a27eaed2c70ef48325d00f8efb320f.hex", "byron_ebb_testnet", TypeByronEBB},
		{"protocol/chainsync/testdata/byron_main_block_testnet_f38aa5e8cf0b47d1ffa8b2385aa2d43882282db2ffd5ac0e3dadec1a6f2ecf08.hex", "byron_main_testnet", TypeByronMain},
		{"protocol/chainsync/testdata/shelley_block_testnet_02b1c561715da9e540411123a6135ee319b02f60b9a11a603d3305556c04329f.hex", "shelley_testnet", TypeShelley},
	}
	var out []Block
	for _, e := range ents {
		b, err := readHex(filepath.Join(repo, e.rel))
		if err != nil {
			return nil, fmt.Errorf("corpus %s: %w", e.rel, err)
		}
		out = append(out, Block{Name: e.name, Type: e.typ, Cbor: b})
	}
	return out, nil
}

// MustBlocks panics when the corpus cannot be read.
func MustBlocks(repo string) []Block {
	b, err := Blocks(repo)
	if err != nil {
		panic(err)
	}
	return b
}

// DijkstraTx returns the standalone Dijkstra transaction of the corpus.
func DijkstraTx(repo string) ([]byte, error) {
	return readHex(filepath.Join(repo, "ledger/dijkstra/testdata/cardano_ledger_dijkstra_w30_tx.hex"))
}

// File reads an arbitrary hex file below repo.
func File(repo, rel string) ([]byte, error) { return readHex(filepath.Join(repo, rel)) }
