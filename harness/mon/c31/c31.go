// Package c31 monitors C31: the script data hash binds redeemers, datums and
// cost models.
//
// Observation points
//
//	(L) common.EncodeLangViews on every subset of the languages {V1..V4} with
//	    PRNG cost models (lengths 0..300, negative / extreme entries),
//	(R) the era's UtxoValidateScriptDataHash rule (Alonzo, Babbage, Conway,
//	    Dijkstra) on decoded transactions written by ledgergen: one
//	    Plutus-locked input per language the transaction uses (script in the
//	    witness set or, Babbage+, supplied by a reference input), redeemers in
//	    list / map form, 0-3 witness datums, canonical and non-canonical
//	    redeemer / datum bytes, optional UNUSED Plutus reference scripts sitting
//	    on a reference input or on a spent key-locked input, PRNG cost models;
//	    the complete rule list is run on the plain script-world transaction.
//
// Oracle (own byte writer, shares nothing with the library or with cborx):
//
//	views(langs) = map header ‖ entries sorted by (key length, key bytes);
//	               V1 : key 41 00, value bytes( 9f ints ff )   (double wrapped)
//	               V2+: key = language number, value definite list of ints
//	reference    = Blake2b-256( original bytes of witness field 5
//	                          ‖ original bytes of witness field 4, if present
//	                          ‖ views(languages of the scripts the tx executes) )
//
//	redeemers or datums present:  rule accepts  =>  declared == reference
//	                              (converse: declared == reference => accepts)
//	                              hash missing  =>  rule rejects
//	neither present:              hash declared =>  rule rejects
//
// "present" means a NON-EMPTY collection (cardano-ledger: `if null dats then
// mempty else originalBytes dats`): a witness field 4 that is there but empty
// (80, 9f ff, d9 0102 80, d9 0102 9f ff) contributes no bytes, and a
// transaction whose fields 4 / 5 are both absent-or-empty has neither.
//
// When field 5 is absent (datums only) there are no original redeemer bytes;
// the ledger hashes the era's empty encoding (80 before Conway, a0 from Conway
// on). Those cases, and a field 5 that is present but empty (80, 9f ff, a0,
// bf ff; reference = its original bytes), are judged in the forward direction
// only.
package c31

import (
	"bytes"
	"fmt"
	"math"
	"sort"
	"sync"

	"github.com/blinklabs-io/gouroboros/ledger/common"

	"verifharness/blockx"
	"verifharness/cborx"
	"verifharness/core"
	lg "verifharness/ledgergen"
)

func init() {
	core.Register(&core.Monitor{
		ID:            "C31",
		Rule:          "(L) all 15 non-empty subsets + the empty subset of {V1,V2,V3,V4} x PRNG cost models (quick 150, thorough 5000 draws per subset; lengths 0..300; entries small / negative / +-2^63 boundary) against an independent encoder; (H) history: the same cost-model slices edited in place between calls (one coefficient, another model copied over the same backing array, fresh slice of equal length; version sets in changing order V1, V2, V1, ...) through EncodeLangViews, and through the rule with the slices shared by the protocol parameters of all four eras: a hash over the old model must be rejected afterwards, one over the current model accepted; (R) era (Alonzo..Dijkstra) x language subset the era has (witness scripts; Babbage+ also supplied by reference input) x redeemer form (list / map where decodable) x datums 0..3 x encoding (canonical / PRNG non-canonical redeemer and datum bytes) x unused Plutus reference script (none / on a reference input / on a spent input) x declared hash (correct, absent, and every applicable wrong construction: bit flipped, V1 as definite list, V1 not double wrapped, V1 key single wrapped, entries in reverse order, re-encoded redeemers / datums, datums omitted, empty datum list included, extra language, missing language, other cost model, unused reference language included) with PRNG cost models (quick 4 draws, thorough 60); plus witness field 4 present but empty in 4 encodings with redeemers present (declared: correct, absent, empty-field bytes included, bit flipped, missing language, other cost model), field 5 present but empty in 4 encodings with datums / an empty datum field / no datum field, and no-redeemer-no-datum transactions with / without a declared hash; body / witness-set map key order cycling through ascending, witness descending, body descending, both shuffled (judged in both directions); a case is non-trivial when the transaction decodes; distinct by (era, transaction id, cost-model digest)",
		MinNontrivial: 8000,
		Assumptions: []string{
			"the languages of a transaction are those of the Plutus scripts it executes (cardano-ledger ppViewHashesMatch: scriptsProvided restricted to scriptsNeeded); a Plutus reference script that merely sits on a reference input or on a spent UTxO is not used",
			"golang.org/x/crypto/blake2b is correct",
		},
		Run: run,
	})
}

// ---------------------------------------------------------------- independent encoder

func head(major byte, v uint64) []byte {
	m := major << 5
	switch {
	case v < 24:
		return []byte{m | byte(v)}
	case v <= 0xff:
		return []byte{m | 24, byte(v)}
	case v <= 0xffff:
		return []byte{m | 25, byte(v >> 8), byte(v)}
	case v <= 0xffffffff:
		return []byte{m | 26, byte(v >> 24), byte(v >> 16), byte(v >> 8), byte(v)}
	}
	return []byte{m | 27, byte(v >> 56), byte(v >> 48), byte(v >> 40), byte(v >> 32), byte(v >> 24), byte(v >> 16), byte(v >> 8), byte(v)}
}

func encInt(x int64) []byte {
	if x >= 0 {
		return head(0, uint64(x))
	}
	return head(1, uint64(-(x + 1)))
}

// alteration names a WRONG way of building the language views / hash input.
type alteration string

const (
	altNone          alteration = ""
	altV1Definite    alteration = "v1-definite-list"
	altV1Unwrapped   alteration = "v1-not-double-wrapped"
	altV1SingleKey   alteration = "v1-key-single-wrapped"
	altReverse       alteration = "entries-in-reverse-order"
	altReencodedRed  alteration = "re-encoded-redeemers"
	altReencodedDat  alteration = "re-encoded-datums"
	altDatumsOmitted alteration = "datums-omitted"
	altEmptyDatums   alteration = "empty-datum-list-included"
	altExtraLang     alteration = "extra-language"
	altMissingLang   alteration = "missing-language"
	altOtherCost     alteration = "other-cost-model"
	altBitFlip       alteration = "bit-flipped"
	altUnusedRefLang alteration = "unused-reference-script-language-included"
	altEmptyDatField alteration = "empty-datum-field-bytes-included"
	altDefaultRed    alteration = "era-default-bytes-instead-of-empty-redeemer-field"
)

// langViews is the reference encoder of the language views.
func langViews(cm map[uint][]int64, langs []uint, alt alteration) []byte {
	type kv struct{ k, v []byte }
	var es []kv
	seen := map[uint]bool{}
	for _, l := range langs {
		if seen[l] {
			continue
		}
		seen[l] = true
		var ints []byte
		for _, x := range cm[l] {
			ints = append(ints, encInt(x)...)
		}
		definite := append(head(4, uint64(len(cm[l]))), ints...)
		if l == 0 {
			inner := append(append([]byte{0x9f}, ints...), 0xff)
			key := []byte{0x41, 0x00}
			switch alt {
			case altV1Definite:
				inner = definite
			case altV1SingleKey:
				key = []byte{0x00}
			case altV1Unwrapped:
				es = append(es, kv{[]byte{0x00}, definite})
				continue
			}
			es = append(es, kv{key, append(head(2, uint64(len(inner))), inner...)})
			continue
		}
		es = append(es, kv{head(0, uint64(l)), definite})
	}
	sort.Slice(es, func(i, j int) bool {
		if len(es[i].k) != len(es[j].k) {
			return len(es[i].k) < len(es[j].k)
		}
		return bytes.Compare(es[i].k, es[j].k) < 0
	})
	if alt == altReverse {
		for i, j := 0, len(es)-1; i < j; i, j = i+1, j-1 {
			es[i], es[j] = es[j], es[i]
		}
	}
	out := head(5, uint64(len(es)))
	for _, e := range es {
		out = append(append(out, e.k...), e.v...)
	}
	return out
}

// ---------------------------------------------------------------- findings

type finding struct {
	key, what string
	witness   map[string]any
	weight    int
	count     int
}

type collector struct {
	mu sync.Mutex
	m  map[string]*finding
}

func (co *collector) add(f finding) {
	co.mu.Lock()
	defer co.mu.Unlock()
	old := co.m[f.key]
	if old == nil {
		f.count = 1
		co.m[f.key] = &f
		return
	}
	old.count++
	if f.weight < old.weight {
		f.count = old.count
		co.m[f.key] = &f
	}
}

func (co *collector) flush(c *core.Ctx) {
	var ks []string
	for k := range co.m {
		ks = append(ks, k)
	}
	sort.Strings(ks)
	for _, k := range ks {
		f := co.m[k]
		f.witness["cases_in_this_class"] = f.count
		c.Violation(f.key, fmt.Sprintf("%s (%d such cases)", f.what, f.count), f.witness)
	}
}

// ---------------------------------------------------------------- cost models

func randCostModel(r *core.Rand) []int64 {
	var n int
	switch r.Intn(6) {
	case 0:
		n = 0
	case 1:
		n = 1 + r.Intn(3)
	case 2:
		n = 23 + r.Intn(3) // around the 1-byte length boundary
	case 3:
		n = 255 + r.Intn(3) // around the 2-byte length boundary
	default:
		n = r.Intn(301)
	}
	m := make([]int64, n)
	for i := range m {
		switch r.Intn(8) {
		case 0:
			m[i] = -int64(r.Intn(1000)) - 1
		case 1:
			m[i] = math.MaxInt64 - int64(r.Intn(2))
		case 2:
			m[i] = math.MinInt64 + int64(r.Intn(2))
		case 3:
			m[i] = int64(r.Intn(3)) + 22 // 23/24 boundary
		case 4:
			m[i] = int64(r.Uint64() >> uint(r.Intn(64)))
		case 5:
			m[i] = -int64(r.Uint64()>>uint(1+r.Intn(63))) - 1
		default:
			m[i] = int64(r.Intn(100000))
		}
	}
	return m
}

func randCostModels(r *core.Rand) map[uint][]int64 {
	cm := map[uint][]int64{}
	for l := uint(0); l < 4; l++ {
		cm[l] = randCostModel(r)
	}
	return cm
}

func digest(cm map[uint][]int64) string {
	h := lg.Blake256(langViews(cm, []uint{0, 1, 2, 3}, altNone))
	return fmt.Sprintf("%x", h[:8])
}

// ---------------------------------------------------------------- (L) EncodeLangViews

// runLangViewsHistory drives EncodeLangViews with cost-model slices that are
// edited IN PLACE between calls (one coefficient changed, another model of the
// same length copied over the same backing array) and with version sets in
// changing order (V1, then V2, then V1 ...): every answer must be the
// encoding of the CURRENT contents.
func runLangViewsHistory(c *core.Ctx, co *collector) {
	r := c.Rand("langviews-history")
	for d := 0; d < c.N(400, 20000); d++ {
		cm := randCostModels(r)
		for l := uint(0); l < 4; l++ {
			if len(cm[l]) == 0 {
				cm[l] = []int64{int64(r.Intn(1000))}
			}
		}
		sets := [][]uint{{0}, {1}, {0}, {0, 1}, {2}, {1, 2, 3}, {0, 1, 2, 3}, {3}, {0}}
		step := 0
		check := func(event string) {
			for k := 0; k < 3; k++ {
				langs := sets[(step+k)%len(sets)]
				used := map[uint]struct{}{}
				for _, l := range langs {
					used[l] = struct{}{}
				}
				want := langViews(cm, langs, altNone)
				got, err := common.EncodeLangViews(used, cm)
				c.Eval()
				c.Distinct("H", d, step, k)
				c.Count("langviews_history_calls", 1)
				if err == nil && bytes.Equal(got, want) {
					continue
				}
				co.add(finding{key: "C31:EncodeLangViews:stale-after-" + event, weight: 1000*len(langs) + len(want),
					what:    fmt.Sprintf("EncodeLangViews(languages %v) after %s does not encode the current contents of the cost-model slices", langs, event),
					witness: map[string]any{"languages": langs, "event": event, "cost_models_now": cmForWitness(cm, langs), "library": core.HexFull(got), "library_error": fmt.Sprint(err), "reference": core.HexFull(want)}})
			}
			step++
		}
		check("first-use")
		l := uint(r.Intn(4))
		cm[l][r.Intn(len(cm[l]))] ^= 1 << uint(r.Intn(20))
		check("one-coefficient-changed-in-place")
		l = uint(r.Intn(4))
		other := randCostModel(r)
		for len(other) < len(cm[l]) {
			other = append(other, int64(r.Intn(100000)))
		}
		copy(cm[l], other[:len(cm[l])])
		check("another-model-copied-over-the-same-backing-array")
		l = uint(r.Intn(4))
		fresh := make([]int64, len(cm[l]))
		for i := range fresh {
			fresh[i] = int64(r.Intn(100000))
		}
		cm[l] = fresh // a new slice of equal length
		check("model-replaced-by-a-fresh-slice-of-equal-length")
	}
}

// runHistory is the in-place / history family of the rule: the SAME cost-model
// slices (shared by the protocol parameters of all four eras) are edited in
// place between validations. A transaction whose hash covers the old model
// must be rejected afterwards, one that covers the current model accepted.
func runHistory(c *core.Ctx, co *collector, rules map[lg.Era]common.UtxoValidationRuleFunc) {
	r := c.Rand("rule-history")
	for d := 0; d < c.N(60, 3000); d++ {
		cm := randCostModels(r)
		for l := uint(0); l < 4; l++ {
			if len(cm[l]) == 0 {
				cm[l] = []int64{int64(r.Intn(1000)), 7}
			}
		}
		for _, e := range ruleEras {
			rule := rules[e]
			if rule == nil {
				continue
			}
			en := e.String()
			subs := subsets(eraLangs(e))
			t := rcase{era: e, langs: subs[r.Intn(len(subs))], mapForm: e >= lg.Conway, nDatums: r.Intn(3), redeemers: true, unusedLang: -1, draw: d}
			old, err := buildWith(t, r, cm)
			if err != nil {
				continue
			}
			tx, derr := old.tx.Decode()
			if derr != nil {
				continue
			}
			pp := old.params.For(e) // holds the slices of cm
			validate := func(b *builtCase, x common.Transaction, p common.ProtocolParameters) bool {
				return lg.Checked(e, x, b.state, func() error { return rule(x, 1000, b.state, p) }) == nil
			}
			judge := func(event string, b *builtCase, x common.Transaction, p common.ProtocolParameters, which string) {
				ref := lg.Blake256(hashInput(t, b, cm, altNone)) // over the CURRENT contents
				want := b.declared != nil && *b.declared == ref
				got := validate(b, x, p)
				c.Eval()
				c.Distinct("RH", en, d, event, which)
				c.Count("rule_history_"+event, 1)
				if got == want {
					if got {
						c.Count("rule_history_accepts_"+en, 1)
					} else {
						c.Count("rule_history_rejects_"+en, 1)
					}
					return
				}
				wit := map[string]any{"era": en, "case": t.String(), "event": event, "transaction": which, "tx_cbor": core.HexFull(b.tx.Cbor), "declared_hash": fmt.Sprintf("%x", b.declared[:]),
					"reference_hash_over_current_cost_models": fmt.Sprintf("%x", ref[:]), "cost_models_now": cmForWitness(cm, eraLangs(e)), "rule_accepts": got}
				if got {
					co.add(finding{key: "C31:" + en + ":wrong-hash-accepted:stale-cost-model-after-" + event, weight: len(b.tx.Cbor), witness: wit,
						what: fmt.Sprintf("%s: after %s the rule still accepts the %s (its hash covers the OLD cost model; the protocol parameters hold the edited slice)", en, event, which)})
				} else {
					co.add(finding{key: "C31:" + en + ":converse:correct-hash-rejected:cost-model-after-" + event, weight: len(b.tx.Cbor), witness: wit,
						what: fmt.Sprintf("%s (converse): after %s the rule rejects the %s whose hash covers the CURRENT cost model", en, event, which)})
				}
			}
			judge("first-use", old, tx, pp, "transaction built for the model as first seen")
			edits := []struct {
				name string
				do   func(l uint)
			}{
				{"one-coefficient-changed-in-place", func(l uint) { cm[l][r.Intn(len(cm[l]))] ^= 1 << uint(r.Intn(16)) }},
				{"another-model-copied-over-the-same-backing-array", func(l uint) {
					for i := range cm[l] {
						cm[l][i] = int64(r.Intn(1_000_000)) - 500
					}
				}},
			}
			for _, ed := range edits {
				ed.do(t.langs[r.Intn(len(t.langs))])
				// the old transaction, same tx object, same and fresh parameter objects
				judge(ed.name, old, tx, pp, "transaction built before the edit (same protocol-parameter object)")
				judge(ed.name, old, tx, old.params.For(e), "transaction built before the edit (fresh protocol-parameter object, same slices)")
				// a transaction built for the current contents
				cur, err := buildWith(t, r, cm)
				if err != nil {
					break
				}
				ctx2, derr := cur.tx.Decode()
				if derr != nil {
					break
				}
				judge(ed.name, cur, ctx2, pp, "transaction built after the edit")
				old, tx = cur, ctx2
			}
		}
	}
}

func runLangViews(c *core.Ctx, co *collector) {
	runLangViewsHistory(c, co)
	draws := c.N(150, 5000)
	c.Parallel("langviews", 16*draws, 0, func(i int, r *core.Rand) {
		mask := i % 16
		var langs []uint
		used := map[uint]struct{}{}
		for l := uint(0); l < 4; l++ {
			if mask&(1<<l) != 0 {
				langs = append(langs, l)
				used[l] = struct{}{}
			}
		}
		cm := randCostModels(r)
		want := langViews(cm, langs, altNone)
		if alt := lg.LangViews(cm, langs...); !bytes.Equal(alt, want) {
			c.Inconclusive("the two independent language-view encoders of the harness disagree")
			return
		}
		c.Eval()
		var got []byte
		var err error
		if pn, val, _ := core.Safely(func() { got, err = common.EncodeLangViews(used, cm) }); pn {
			err = fmt.Errorf("panic: %v", val)
		}
		c.Distinct("L", mask, digest(cm))
		if err == nil && bytes.Equal(got, want) {
			c.Count("langviews_equal", 1)
			return
		}
		c.Count("langviews_differ", 1)
		class := "bytes-differ"
		for _, a := range []alteration{altV1Definite, altV1Unwrapped, altV1SingleKey, altReverse} {
			if bytes.Equal(got, langViews(cm, langs, a)) {
				class = string(a)
			}
		}
		if err != nil {
			class = "error"
		}
		size := 0
		for _, l := range langs {
			size += len(cm[l])
		}
		co.add(finding{key: "C31:EncodeLangViews:" + class, weight: size + 1000*len(langs),
			what:    fmt.Sprintf("EncodeLangViews(languages %v) differs from the reference encoding (%s)", langs, class),
			witness: map[string]any{"languages": langs, "cost_models": cmForWitness(cm, langs), "library": core.HexFull(got), "library_error": fmt.Sprint(err), "reference": core.HexFull(want)}})
	})
}

func cmForWitness(cm map[uint][]int64, langs []uint) map[string][]int64 {
	out := map[string][]int64{}
	for _, l := range langs {
		out[fmt.Sprint(l)] = cm[l]
	}
	return out
}

// ---------------------------------------------------------------- (R) rule level

type refPlace int

const (
	refNone refPlace = iota
	refOnReferenceInput
	refOnSpentInput
)

var refPlaceName = [...]string{"none", "on-reference-input", "on-spent-input"}

type rcase struct {
	era         lg.Era
	langs       []uint // languages of the scripts the transaction executes
	viaRef      bool   // the first script is supplied by a reference input instead of the witness set
	mapForm     bool   // redeemers as a map
	nDatums     int
	redeemers   bool
	noncanon    bool
	unusedLang  int // -1: none; language of an unused Plutus reference script
	unusedPlace refPlace
	declared    alteration // altNone = correct
	absent      bool       // no script data hash in the body
	draw        int
	// datField / redField: 0 = as nDatums / redeemers say; 1..4 = the field is
	// PRESENT in the witness set but EMPTY (see emptyShapes)
	datField int
	redField int
}

// emptyShape returns an empty collection in one of four encodings. Datums:
// 80, 9f ff, d9 0102 80, d9 0102 9f ff. Redeemers: 80, 9f ff, a0, bf ff.
func emptyShape(k int, redeemers bool) *cborx.Node {
	switch k {
	case 1:
		return cborx.A()
	case 2:
		return cborx.AIndef()
	case 3:
		if redeemers {
			return cborx.M()
		}
		return cborx.T(258, cborx.A())
	}
	if redeemers {
		m := cborx.M()
		m.SetForm(cborx.FormIndef)
		return m
	}
	return cborx.T(258, cborx.AIndef())
}

var emptyShapeName = map[bool][]string{
	false: {"", "80", "9fff", "d9010280", "d901029fff"},
	true:  {"", "80", "9fff", "a0", "bfff"},
}

func (t rcase) String() string {
	d := "correct"
	if t.absent {
		d = "absent"
	} else if t.declared != altNone {
		d = string(t.declared)
	}
	extra := ""
	if t.datField > 0 {
		extra += " datum_field_present_but_empty=" + emptyShapeName[false][t.datField]
	}
	if t.redField > 0 {
		extra += " redeemer_field_present_but_empty=" + emptyShapeName[true][t.redField]
	}
	return fmt.Sprintf("era=%s languages=%v script0_via_reference_input=%v redeemers=%v map_form=%v datums=%d noncanonical=%v unused_reference_script=%s(lang %d)%s declared=%s draw=%d",
		t.era, t.langs, t.viaRef, t.redeemers, t.mapForm, t.nDatums, t.noncanon, refPlaceName[t.unusedPlace], t.unusedLang, extra, d, t.draw)
}

func eraLangs(e lg.Era) []uint {
	switch e {
	case lg.Alonzo:
		return []uint{0}
	case lg.Babbage:
		return []uint{0, 1}
	case lg.Conway:
		return []uint{0, 1, 2}
	}
	return []uint{0, 1, 2, 3}
}

var ruleEras = []lg.Era{lg.Alonzo, lg.Babbage, lg.Conway, lg.Dijkstra}

func subsets(ls []uint) [][]uint {
	var out [][]uint
	for m := 1; m < 1<<len(ls); m++ {
		var s []uint
		for i, l := range ls {
			if m&(1<<i) != 0 {
				s = append(s, l)
			}
		}
		out = append(out, s)
	}
	return out
}

var plutusData = []func() *cborx.Node{
	func() *cborx.Node { return cborx.U(42) },
	func() *cborx.Node { return cborx.B([]byte("c31")) },
	func() *cborx.Node { return cborx.T(121, cborx.A(cborx.U(1), cborx.B([]byte{1, 2, 3}))) },
	func() *cborx.Node { return cborx.AIndef(cborx.U(1), cborx.I(-2)) },
	func() *cborx.Node { return cborx.M(cborx.U(1), cborx.A(cborx.U(2))) },
	func() *cborx.Node { return cborx.T(122, cborx.AIndef()) },
}

func scriptHashOf(l uint) lg.Hash28 { return lg.ScriptHash(byte(l+1), lg.AlwaysSucceeds) }

type builtCase struct {
	spec     *lg.TxSpec
	state    *lg.State
	params   lg.Params
	tx       *lg.Built
	redBytes []byte // original bytes of witness field 5 (nil: absent)
	datBytes []byte // original bytes of witness field 4 (nil: absent)
	redNode  *cborx.Node
	datNode  *cborx.Node
	redEmpty bool // field 5 present with no redeemers
	datEmpty bool // field 4 present with no datums
	ref      lg.Hash32
	declared *lg.Hash32
}

// hashInput assembles the preimage under an alteration.
func hashInput(t rcase, b *builtCase, cm map[uint][]int64, alt alteration) []byte {
	var buf []byte
	switch {
	case b.redNode != nil && alt == altReencodedRed:
		buf = append(buf, canonical(b.redNode)...)
	case b.redNode != nil && !(b.redEmpty && alt == altDefaultRed):
		buf = append(buf, b.redNode.Encode()...)
	case t.era >= lg.Conway:
		buf = append(buf, 0xa0)
	default:
		buf = append(buf, 0x80)
	}
	switch {
	case b.datNode != nil && b.datEmpty && alt != altEmptyDatField:
		// an empty datum set contributes nothing, whatever bytes carry it
	case b.datNode != nil && alt == altDatumsOmitted:
	case b.datNode != nil && alt == altReencodedDat:
		buf = append(buf, canonical(b.datNode)...)
	case b.datNode != nil:
		buf = append(buf, b.datNode.Encode()...)
	case alt == altEmptyDatums:
		buf = append(buf, 0x80)
	}
	langs := append([]uint(nil), t.langs...)
	switch alt {
	case altExtraLang:
		for _, l := range []uint{0, 1, 2, 3} {
			if !contains(langs, l) && (t.unusedLang < 0 || uint(t.unusedLang) != l) {
				langs = append(langs, l)
				break
			}
		}
	case altMissingLang:
		langs = langs[1:]
	case altUnusedRefLang:
		langs = append(langs, uint(t.unusedLang))
	case altOtherCost:
		cm2 := map[uint][]int64{}
		for k, v := range cm {
			cm2[k] = append([]int64(nil), v...)
		}
		l := langs[0]
		if len(cm2[l]) == 0 {
			cm2[l] = []int64{1}
		} else {
			cm2[l][len(cm2[l])-1] ^= 1
		}
		cm = cm2
	}
	return append(buf, langViews(cm, langs, alt)...)
}

func contains(xs []uint, x uint) bool {
	for _, y := range xs {
		if y == x {
			return true
		}
	}
	return false
}

// canonical re-encodes a node with minimal definite headers.
func canonical(n *cborx.Node) []byte {
	c := n.Clone()
	c.Walk(func(x *cborx.Node) {
		if x.Kind == cborx.Simple {
			return
		}
		x.SetForm(cborx.FormMinimal)
	})
	return c.Encode()
}

func build(t rcase, r *core.Rand) (*builtCase, error) { return buildWith(t, r, nil) }

// buildWith is build with the cost models given by the caller (the very
// slices the protocol parameters will hand to the rule); nil = PRNG models.
func buildWith(t rcase, r *core.Rand, given map[uint][]int64) (*builtCase, error) {
	w := lg.NewWorld(t.era)
	cm := given
	if cm == nil {
		cm = randCostModels(r)
	}
	w.Params.CostModels = cm
	b := &builtCase{state: w.State, params: w.Params}
	s := w.Spec.Clone()
	// presentation: the hash covers the BYTES of fields 4 / 5, not their
	// position; both directions are judged in every map key order
	switch (t.draw + t.nDatums + len(t.langs)) % 4 {
	case 1:
		s.WitnessOrder = lg.Descending()
	case 2:
		s.BodyOrder = lg.Descending()
	case 3:
		s.BodyOrder, s.WitnessOrder = lg.Shuffled(uint64(t.draw)+3), lg.Shuffled(uint64(t.draw)+5)
	}
	// one Plutus-locked input per language
	type sin struct {
		in   lg.Input
		lang uint
	}
	var sins []sin
	var datums []*cborx.Node
	for i, l := range t.langs {
		d := plutusData[(i+t.draw)%len(plutusData)]()
		dh := lg.Blake256(d.Encode())
		in := lg.In(fmt.Sprintf("c31-script-%d", l), uint32(l))
		if err := w.AddUtxo(in, lg.Output{Addr: lg.EnterpriseScriptAddr(w.Net, scriptHashOf(l)), Coin: 3_000_000, DatumHash: &dh, MapForm: t.era >= lg.Babbage}); err != nil {
			return nil, err
		}
		s.Inputs = append(s.Inputs, in)
		sins = append(sins, sin{in, l})
		if len(datums) < t.nDatums {
			datums = append(datums, d)
		}
		if i == 0 && t.viaRef {
			rin := lg.In("c31-script-holder", 0)
			if err := w.AddUtxo(rin, lg.Output{Addr: w.PayerAddr(), Coin: 20_000_000, MapForm: true, ScriptRef: lg.ScriptRefNode(uint64(l+1), cborx.B(lg.AlwaysSucceeds))}); err != nil {
				return nil, err
			}
			s.ReferenceInputs = append(s.ReferenceInputs, rin)
			continue
		}
		switch l {
		case 0:
			s.PlutusV1 = [][]byte{lg.AlwaysSucceeds}
		case 1:
			s.PlutusV2 = [][]byte{lg.AlwaysSucceeds}
		case 2:
			s.PlutusV3 = [][]byte{lg.AlwaysSucceeds}
		case 3:
			set := cborx.A(cborx.B(lg.AlwaysSucceeds))
			s.ExtraWitness = append(s.ExtraWitness, lg.BodyField{Key: 8, Value: set})
		}
	}
	for len(datums) < t.nDatums {
		datums = append(datums, plutusData[(len(datums)+t.draw+3)%len(plutusData)]())
	}
	// an unused Plutus reference script
	if t.unusedLang >= 0 {
		other := append([]byte{0x46, 0x01, 0x00, 0x00, 0x22, 0x20}, byte(t.unusedLang)) // some other program bytes
		o := lg.Output{Addr: w.PayerAddr(), Coin: 20_000_000, MapForm: true, ScriptRef: lg.ScriptRefNode(uint64(t.unusedLang+1), cborx.B(other))}
		in := lg.In("c31-unused-script-holder", 7)
		if err := w.AddUtxo(in, o); err != nil {
			return nil, err
		}
		if t.unusedPlace == refOnReferenceInput {
			s.ReferenceInputs = append(s.ReferenceInputs, in)
		} else {
			s.Inputs = append(s.Inputs, in)
		}
	}
	s.Collateral = []lg.Input{lg.In("c31-collateral", 0)}
	w.MustAddUtxo(s.Collateral[0], w.PayerOutput(lg.BaseCollateralCoin))
	if err := w.Rebalance(s, 0, 0); err != nil {
		return nil, err
	}
	// witness field 5 / 4 written by hand so that the original bytes are known
	if t.redeemers {
		var items []*cborx.Node
		for i, si := range sins {
			idx := uint64(s.SortedInputIndex(si.in))
			data := plutusData[(i+t.draw+1)%len(plutusData)]()
			ex := cborx.A(cborx.U(100_000+uint64(i)), cborx.U(100_000_000))
			if t.mapForm {
				items = append(items, cborx.A(cborx.U(lg.TagSpend), cborx.U(idx)), cborx.A(data, ex))
			} else {
				items = append(items, cborx.A(cborx.U(lg.TagSpend), cborx.U(idx), data, ex))
			}
		}
		if t.mapForm {
			b.redNode = cborx.M(items...)
		} else {
			b.redNode = cborx.A(items...)
		}
	}
	if len(datums) > 0 {
		b.datNode = cborx.A(datums...)
		if t.era >= lg.Conway && t.draw%2 == 1 {
			b.datNode = cborx.T(258, b.datNode)
		}
	}
	if t.datField > 0 {
		b.datNode, b.datEmpty = emptyShape(t.datField, false), true
	}
	if t.redField > 0 {
		b.redNode, b.redEmpty = emptyShape(t.redField, true), true
	}
	if t.noncanon {
		o := blockx.RandOpts{Containers: true, Ints: true, Num: 1, Den: 2}
		if b.redNode != nil {
			blockx.Randomize(b.redNode, r, o)
		}
		if b.datNode != nil {
			blockx.Randomize(b.datNode, r, o)
		}
	}
	if b.redNode != nil {
		s.ExtraWitness = append(s.ExtraWitness, lg.BodyField{Key: 5, Value: b.redNode})
	}
	if b.datNode != nil {
		s.ExtraWitness = append(s.ExtraWitness, lg.BodyField{Key: 4, Value: b.datNode})
	}
	b.ref = lg.Blake256(hashInput(t, b, cm, altNone))
	switch {
	case t.absent:
	case t.declared == altNone:
		h := b.ref
		b.declared = &h
	case t.declared == altBitFlip:
		h := b.ref
		h[r.Intn(32)] ^= 1 << uint(r.Intn(8))
		b.declared = &h
	default:
		h := lg.Blake256(hashInput(t, b, cm, t.declared))
		b.declared = &h
	}
	s.ScriptDataHash = b.declared
	b.spec = s
	b.tx = s.Build()
	// the original bytes as they sit in the transaction
	wit := b.tx.Node.Items[1]
	if n := wit.MapGet(5); n != nil {
		b.redBytes = n.Slice(b.tx.Cbor)
	}
	if n := wit.MapGet(4); n != nil {
		b.datBytes = n.Slice(b.tx.Cbor)
	}
	if (b.redNode != nil && !bytes.Equal(b.redBytes, b.redNode.Encode())) || (b.datNode != nil && !bytes.Equal(b.datBytes, b.datNode.Encode())) {
		return nil, fmt.Errorf("generator: witness fields not written verbatim")
	}
	return b, nil
}

func rcases(c *core.Ctx) []rcase {
	var out []rcase
	draws := c.N(4, 60)
	wrong := []alteration{altBitFlip, altV1Definite, altV1Unwrapped, altV1SingleKey, altReverse, altReencodedRed, altReencodedDat, altDatumsOmitted, altEmptyDatums,
		altExtraLang, altMissingLang, altOtherCost, altUnusedRefLang}
	for _, e := range ruleEras {
		forms := []bool{false} // Alonzo / Babbage: list form only
		switch e {
		case lg.Conway:
			forms = []bool{true, false}
		case lg.Dijkstra:
			forms = []bool{true} // the Dijkstra decoder refuses list-form redeemers
		}
		for _, ls := range subsets(eraLangs(e)) {
			for _, mf := range forms {
				for nd := 0; nd <= 3; nd++ {
					for _, nc := range []bool{false, true} {
						for d := 0; d < draws; d++ {
							base := rcase{era: e, langs: ls, mapForm: mf, nDatums: nd, redeemers: true, noncanon: nc, unusedLang: -1, draw: d}
							if e >= lg.Babbage && d%2 == 1 {
								base.viaRef = true
							}
							vars := []rcase{base}
							if e >= lg.Babbage {
								for _, pl := range []refPlace{refOnReferenceInput, refOnSpentInput} {
									for _, ul := range eraLangs(e) {
										if contains(ls, ul) || (nd+d+int(ul))%3 != 0 {
											continue
										}
										v := base
										v.unusedLang, v.unusedPlace = int(ul), pl
										vars = append(vars, v)
									}
								}
							}
							for _, v := range vars {
								out = append(out, v)
								a := v
								a.absent = true
								out = append(out, a)
								for _, wk := range wrong {
									x := v
									x.declared = wk
									out = append(out, x)
								}
							}
						}
					}
				}
			}
		}
		// witness field 4 present but EMPTY, redeemers present: the empty set
		// contributes no bytes to the pre-image
		for _, ls := range subsets(eraLangs(e)) {
			for _, mf := range forms {
				for df := 1; df <= 4; df++ {
					for d := 0; d < draws; d++ {
						base := rcase{era: e, langs: ls, mapForm: mf, redeemers: true, noncanon: d%2 == 1, unusedLang: -1, draw: d, datField: df}
						out = append(out, base)
						a := base
						a.absent = true
						out = append(out, a)
						for _, wk := range []alteration{altEmptyDatField, altBitFlip, altMissingLang, altOtherCost} {
							x := base
							x.declared = wk
							out = append(out, x)
						}
					}
				}
			}
		}
		// witness field 5 present but EMPTY (with non-empty datums, an empty
		// datum field, or no datum field), and field 4 empty without field 5
		for rf := 0; rf <= 4; rf++ {
			for _, dat := range []int{0, 2, -1, -3} { // >0: datums; <0: empty datum field shape
				if rf == 0 && dat >= 0 {
					continue
				}
				for d := 0; d < draws; d++ {
					base := rcase{era: e, noncanon: d%2 == 1, unusedLang: -1, draw: d, redField: rf}
					if dat > 0 {
						base.nDatums = dat
					} else if dat < 0 {
						base.datField = -dat
					}
					out = append(out, base)
					a := base
					a.absent = true
					out = append(out, a)
					for _, wk := range []alteration{altBitFlip, altDefaultRed, altEmptyDatField} {
						x := base
						x.declared = wk
						out = append(out, x)
					}
				}
			}
		}
		// datums without redeemers, and neither
		for nd := 0; nd <= 2; nd++ {
			for _, nc := range []bool{false, true} {
				for d := 0; d < draws; d++ {
					base := rcase{era: e, nDatums: nd, noncanon: nc, unusedLang: -1, draw: d}
					out = append(out, base)
					a := base
					a.absent = true
					out = append(out, a)
					f := base
					f.declared = altBitFlip
					out = append(out, f)
				}
			}
		}
	}
	return out
}

func run(c *core.Ctx) {
	// generic checks (lg.Independence): re-validation of the same objects and
	// presentation variants (map key order) of rejected transactions
	lg.EnableChecks(c).PresentationSample = 2 // the variants for one in 2 rejected cases
	co := &collector{m: map[string]*finding{}}
	runLangViews(c, co)
	cs := rcases(c)
	c.Note("rule_cases_generated", len(cs))
	rules := map[lg.Era]common.UtxoValidationRuleFunc{}
	for _, e := range ruleEras {
		f, ok := lg.Rule(e, "UtxoValidateScriptDataHash")
		if !ok {
			c.Violation("C31:"+e.String()+":rule-missing-from-list", e.String()+": UtxoValidateScriptDataHash is not in the era's UtxoValidationRules", map[string]any{"rule_list": lg.RuleNames(e)})
			continue
		}
		rules[e] = f
	}
	c.Parallel("rule", len(cs), 0, func(i int, r *core.Rand) {
		t := cs[i]
		en := t.era.String()
		rule := rules[t.era]
		if rule == nil {
			return
		}
		if !applicable(t) {
			return
		}
		b, err := build(t, r)
		if err != nil {
			c.Count("not_buildable_"+en, 1)
			if c.Counter("not_buildable_"+en) <= 2 {
				c.Note("build_error_example_"+en, err.Error())
			}
			return
		}
		wrongDeclared := b.declared != nil && *b.declared != b.ref
		if t.declared != altNone && !wrongDeclared {
			return // the alteration does not change the hash in this case
		}
		desc := t.String()
		c.Journal("C31 case %d %s tx=%x", i, desc, b.tx.Cbor)
		tx, derr := b.tx.Decode()
		c.Eval()
		if derr != nil {
			c.Count("decode_rejected_"+en, 1)
			if c.Counter("decode_rejected_"+en) <= 2 {
				c.Note("decode_error_example_"+en, derr.Error())
			}
			return
		}
		c.Distinct(en, core.HexFull(b.tx.TxId[:]), digest(b.params.CostModels))
		pp := b.params.For(t.era)
		var rerr error
		if pn, val, _ := core.Safely(func() {
			rerr = lg.Checked(t.era, tx, b.state, func() error { return rule(tx, 1000, b.state, pp) })
		}); pn {
			rerr = fmt.Errorf("panic: %v", val)
		} else if rerr != nil {
			core.Safely(func() {
				lg.CheckPresentations(b.spec, b.tx, rerr, func(v common.Transaction) error { return rule(v, 1000, b.state, pp) })
			})
		}
		accept := rerr == nil
		hasRed := b.redNode != nil && !b.redEmpty
		hasRD := hasRed || (b.datNode != nil && !b.datEmpty)
		wit := func() map[string]any {
			m := map[string]any{"case": desc, "era": en, "tx_cbor": core.HexFull(b.tx.Cbor), "rule_result": fmt.Sprint(rerr), "reference_hash": fmt.Sprintf("%x", b.ref[:]),
				"original_redeemer_bytes": core.HexFull(b.redBytes), "original_datum_bytes": core.HexFull(b.datBytes),
				"language_views": core.HexFull(langViews(b.params.CostModels, t.langs, altNone)), "cost_models": cmForWitness(b.params.CostModels, eraLangs(t.era))}
			if b.declared != nil {
				m["declared_hash"] = fmt.Sprintf("%x", b.declared[:])
			}
			return m
		}
		weight := len(b.tx.Cbor)
		for _, l := range eraLangs(t.era) {
			weight += 4 * len(b.params.CostModels[l])
		}
		class := caseClass(t)
		if accept {
			c.Count("rule_accept_"+en, 1)
		} else {
			c.Count("rule_reject_"+en, 1)
			c.Count("reject_type:"+lg.ErrType(rerr), 1)
		}
		if i%499 == 0 {
			c.Sample(map[string]any{"case": desc, "rule_accepts": accept, "tx_cbor": core.Hex(b.tx.Cbor)})
		}
		switch {
		case !hasRD && b.declared != nil && accept:
			co.add(finding{key: "C31:" + en + ":extraneous-hash-accepted", weight: weight, witness: wit(),
				what: fmt.Sprintf("%s: a script data hash is declared although the transaction has neither redeemers nor witness datums, and the rule accepts (%s)", en, desc)})
		case !hasRD && b.declared == nil && !accept:
			co.add(finding{key: "C31:" + en + ":converse:plain-transaction-rejected", weight: weight, witness: wit(),
				what: fmt.Sprintf("%s (converse): no redeemers, no datums, no hash declared, and the rule rejects: %v", en, rerr)})
		case hasRD && b.declared == nil && accept:
			co.add(finding{key: "C31:" + en + ":missing-hash-accepted", weight: weight, witness: wit(),
				what: fmt.Sprintf("%s: redeemers / datums are present, no script data hash is declared, and the rule accepts (%s)", en, desc)})
		case hasRD && wrongDeclared && accept:
			co.add(finding{key: "C31:" + en + ":wrong-hash-accepted:" + string(t.declared), weight: weight, witness: wit(),
				what: fmt.Sprintf("%s: the declared hash (built as '%s') differs from Blake2b-256(original redeemer bytes || original datum bytes || language views) and the rule accepts (%s)", en, t.declared, desc)})
		case hasRD && b.declared != nil && !wrongDeclared && !accept && hasRed:
			co.add(finding{key: "C31:" + en + ":converse:correct-hash-rejected:" + class, weight: weight, witness: wit(),
				what: fmt.Sprintf("%s (converse): the declared hash equals the reference hash and the rule rejects: %v (%s)", en, rerr, desc)})
		case hasRD && b.declared != nil && !wrongDeclared && !accept:
			c.Count("datums_only_conventional_hash_rejected_"+en, 1)
		}
		if hasRD && b.declared != nil && !wrongDeclared && accept {
			c.Count("correct_hash_accepted_"+en, 1)
		}
		if (wrongDeclared || (hasRD && b.declared == nil) || (!hasRD && b.declared != nil)) && !accept {
			c.Count("bad_hash_rejected_"+en, 1)
		}
	})
	runHistory(c, co, rules)
	runFull(c, co)
	co.flush(c)
	for _, e := range ruleEras {
		en := e.String()
		if c.Counter("correct_hash_accepted_"+en) == 0 {
			forceInconclusive(c, en+": no transaction with the correct script data hash was accepted")
		}
		if c.Counter("bad_hash_rejected_"+en) == 0 {
			forceInconclusive(c, en+": no wrong / missing / extraneous hash was rejected")
		}
	}
	if c.Counter("langviews_equal") == 0 {
		forceInconclusive(c, "EncodeLangViews never agreed with the reference")
	}
}

// applicable filters alterations that make no sense for a case.
func applicable(t rcase) bool {
	hasV1 := contains(t.langs, 0)
	switch t.declared {
	case altV1Definite, altV1Unwrapped, altV1SingleKey:
		return hasV1
	case altReverse:
		return len(t.langs) >= 2
	case altReencodedRed:
		return t.noncanon && t.redeemers
	case altReencodedDat, altDatumsOmitted:
		return t.nDatums > 0 && t.datField == 0 && (t.declared == altDatumsOmitted || t.noncanon)
	case altEmptyDatums:
		return t.nDatums == 0 && t.datField == 0
	case altExtraLang:
		return len(t.langs) < 4
	case altMissingLang, altOtherCost:
		return len(t.langs) >= 1
	case altUnusedRefLang:
		return t.unusedLang >= 0
	case altEmptyDatField:
		return t.datField > 0
	case altDefaultRed:
		return t.redField > 0
	}
	return true
}

func caseClass(t rcase) string {
	switch {
	case t.datField > 0:
		return "empty-datum-field"
	case t.redField > 0:
		return "empty-redeemer-field"
	case t.unusedLang >= 0:
		return "unused-reference-script-" + refPlaceName[t.unusedPlace]
	case t.noncanon:
		return "noncanonical-witness-bytes"
	case t.viaRef:
		return "script-from-reference-input"
	}
	return "plain"
}

// runFull runs the complete rule list on the plain script world with the
// correct and a wrong hash.
func runFull(c *core.Ctx, co *collector) {
	for _, e := range ruleEras {
		en := e.String()
		for _, lang := range eraLangs(e) {
			if lang > 2 {
				continue
			}
			for _, invalid := range []bool{false, true} {
				if invalid && e == lg.Dijkstra {
					continue
				}
				for _, wrong := range []bool{false, true} {
					sw := lg.NewScriptWorld(e, lang)
					s := sw.Spec.Clone()
					s.Invalid = invalid
					sw.Seal(s)
					if wrong {
						h := *s.ScriptDataHash
						h[5] ^= 0x10
						s.ScriptDataHash = &h
					}
					o := sw.Run(s, sw.Slot)
					c.Eval()
					c.Distinct("F", en, lang, invalid, wrong)
					if o.DecodeErr != nil {
						continue
					}
					if o.Accepted {
						c.Count("full_list_accept_"+en, 1)
						if wrong {
							co.add(finding{key: "C31:" + en + ":full-list:wrong-hash-accepted", weight: len(o.Built.Cbor),
								what:    en + ": the complete rule list accepts a script transaction whose declared script data hash has one bit flipped",
								witness: map[string]any{"era": en, "language": lang, "phase2_invalid": invalid, "tx_cbor": core.HexFull(o.Built.Cbor)}})
						}
					} else {
						c.Count("full_list_reject_"+en, 1)
						if !wrong {
							c.Count("full_list_reject_correct_hash:"+lg.ErrType(o.VerifyErr), 1)
						}
					}
				}
			}
		}
	}
}

func forceInconclusive(c *core.Ctx, what string) {
	n := int(c.Evals()/50) + 1
	for i := 0; i < n; i++ {
		c.Inconclusive(what)
	}
}
