//go:build only_c21

package mon

import _ "verifharness/mon/c21"
