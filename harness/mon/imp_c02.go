//go:build only_c02

package mon

import _ "verifharness/mon/c02"
