// Package c35 monitors C35: Byron merkle roots follow the reference
// construction. Oracle: an independent, iterative (explicit stack, no
// recursion over sub-slices) implementation written from the statement, plus
// the balanced-fold relation for power-of-two lengths.
package c35

import (
	"bytes"
	"fmt"

	"github.com/blinklabs-io/gouroboros/ledger/byron"
	"golang.org/x/crypto/blake2b"

	"verifharness/core"
)

func init() {
	core.Register(&core.Monitor{
		ID:            "C35",
		Rule:          "item lists of every length 0..300 plus {511,512,513,1023,1024,1025,4097} (and random lengths in thorough), item sizes 0..80 random bytes incl. identical items; a case is non-trivial when the list has >= 2 items; distinct by (length, content hash)",
		MinNontrivial: 100,
		Assumptions:   []string{"golang.org/x/crypto/blake2b is correct", "the reference construction is the one in the property statement"},
		Run:           run,
	})
}

func h(b []byte) [32]byte { return blake2b.Sum256(b) }

// refRoot: bottom-up over an explicit work list of (lo,hi) ranges. A range of
// size 1 is a leaf; a larger one splits at the largest power of two strictly
// below its size. Evaluated in post-order with a value stack.
func refRoot(items [][]byte) [32]byte {
	if len(items) == 0 {
		return h(nil)
	}
	type frame struct {
		lo, hi int
		state  int
	}
	var vals [][32]byte
	stack := []frame{{0, len(items), 0}}
	for len(stack) > 0 {
		f := &stack[len(stack)-1]
		n := f.hi - f.lo
		if n == 1 {
			vals = append(vals, h(append([]byte{0x00}, items[f.lo]...)))
			stack = stack[:len(stack)-1]
			continue
		}
		// largest power of two strictly below n: highest p=2^k with p < n
		p := 1
		for (p << 1) < n {
			p <<= 1
		}
		switch f.state {
		case 0:
			f.state = 1
			stack = append(stack, frame{f.lo, f.lo + p, 0})
		case 1:
			f.state = 2
			stack = append(stack, frame{f.lo + p, f.hi, 0})
		case 2:
			r := vals[len(vals)-1]
			l := vals[len(vals)-2]
			vals = vals[:len(vals)-2]
			buf := make([]byte, 0, 65)
			buf = append(buf, 0x01)
			buf = append(buf, l[:]...)
			buf = append(buf, r[:]...)
			vals = append(vals, h(buf))
			stack = stack[:len(stack)-1]
		}
	}
	return vals[0]
}

// balancedFold: for n = 2^k, pairwise fold of the leaf level.
func balancedFold(items [][]byte) [32]byte {
	level := make([][32]byte, len(items))
	for i, it := range items {
		level[i] = h(append([]byte{0x00}, it...))
	}
	for len(level) > 1 {
		next := make([][32]byte, len(level)/2)
		for i := range next {
			buf := append([]byte{0x01}, level[2*i][:]...)
			buf = append(buf, level[2*i+1][:]...)
			next[i] = h(buf)
		}
		level = next
	}
	return level[0]
}

func run(c *core.Ctx) {
	var lengths []int
	for n := 0; n <= 300; n++ {
		lengths = append(lengths, n)
	}
	lengths = append(lengths, 511, 512, 513, 1023, 1024, 1025, 4097)
	reps := c.N(1, 200)
	type cs struct{ n, rep int }
	var cases []cs
	for rep := 0; rep < reps; rep++ {
		for _, n := range lengths {
			cases = append(cases, cs{n, rep})
		}
	}
	if c.Thorough() {
		r := c.Rand("extra-lengths")
		for i := 0; i < 2000; i++ {
			cases = append(cases, cs{r.Range(2, 3000), 1000 + i})
		}
	}
	c.Parallel("case", len(cases), 0, func(i int, r *core.Rand) {
		n := cases[i].n
		items := make([][]byte, n)
		mode := r.Intn(4) // 0 random, 1 identical items, 2 empty items mixed, 3 short items
		var same []byte
		if mode == 1 {
			same = r.Bytes(r.Range(0, 80))
		}
		for j := range items {
			switch mode {
			case 1:
				items[j] = same
			case 2:
				if r.Bool() {
					items[j] = []byte{}
				} else {
					items[j] = r.Bytes(r.Range(0, 80))
				}
			case 3:
				items[j] = r.Bytes(r.Range(0, 2))
			default:
				items[j] = r.Bytes(r.Range(0, 80))
			}
		}
		c.Journal("C35 case %d n=%d mode=%d", i, n, mode)
		got := byron.MerkleRoot(items)
		want := refRoot(items)
		c.Eval()
		c.Count(fmt.Sprintf("mode%d", mode), 1)
		if n >= 2 {
			c.Distinct(n, want)
		}
		if i%97 == 0 {
			c.Sample(map[string]any{"n": n, "mode": mode, "root": fmt.Sprintf("%x", got[:])})
		}
		if !bytes.Equal(got[:], want[:]) {
			c.Violation(fmt.Sprintf("C35:MerkleRoot:n=%d", n),
				fmt.Sprintf("MerkleRoot of %d items = %x, reference construction = %x", n, got[:], want[:]),
				map[string]any{"n": n, "items": hexItems(items)})
			return
		}
		if n > 0 && n&(n-1) == 0 {
			bf := balancedFold(items)
			c.Count("power_of_two_fold_checks", 1)
			if !bytes.Equal(got[:], bf[:]) {
				c.Violation(fmt.Sprintf("C35:MerkleRoot:balanced:n=%d", n),
					fmt.Sprintf("MerkleRoot of %d=2^k items = %x, balanced fold = %x", n, got[:], bf[:]),
					map[string]any{"n": n, "items": hexItems(items)})
			}
		}
	})
	c.Note("lengths_covered", len(lengths))
}

func hexItems(items [][]byte) []string {
	var out []string
	for i, it := range items {
		if i >= 64 {
			out = append(out, fmt.Sprintf("... %d more", len(items)-64))
			break
		}
		out = append(out, core.HexFull(it))
	}
	return out
}
