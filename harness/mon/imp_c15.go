//go:build only_c15

package mon

import _ "verifharness/mon/c15"
