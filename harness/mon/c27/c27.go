// Package c27 monitors C27: value is conserved by every accepted transaction.
//
// Observation point: the era's UtxoValidateValueNotConservedUtxo rule (all
// seven eras) on decoded transactions written by ledgergen, against an explicit
// ledger state (UTxO set, registered pools) and protocol parameters; plus the
// era's complete rule list on the pure-payment sub-family.
//
// Oracle: an independent balance model evaluated on the generator's OWN
// description of the transaction (never on the decoded object):
//
//	consumed = Σ inputs (UTxO values) + Σ withdrawals + refunds + mint
//	produced = Σ outputs + fee + deposits + treasury donation
//	refunds  = key deposit per stake deregistration (legacy cert 1),
//	           the stated refund of unreg (8) and DRep unreg (17) certificates
//	deposits = key deposit per stake registration (legacy cert 0), the stated
//	           deposit of reg (7), stake-reg-deleg (11), vote-reg-deleg (12),
//	           stake-vote-reg-deleg (13) and DRep reg (16) certificates, the
//	           pool deposit once per pool that is neither registered in the
//	           ledger state nor registered earlier in the same transaction,
//	           the stated deposit of every proposal
//	equality on coin and on every (policy, asset name) separately; mint counts
//	with its sign; the all-zero policy id is a policy like any other.
//
// (Stated deposits always equal the protocol parameter in generated cases, so
// "the deposit" is unambiguous.)
//
//	rule accepts  =>  model balanced          keys C27:<era>:accepts-as-if:<formula>
//	model balanced =>  rule accepts (converse) keys C27:<era>:rejects-as-if:<formula>
//
// Every unbalanced case is made on purpose: the outputs are balanced under a
// WRONG formula (one term forgotten, pool deposit charged per certificate,
// burn counted as mint, zero policy treated as ada, tokens of the spent inputs
// not counted, ...) or a balanced transaction is perturbed: one term moved by
// +-1, all / one output asset entry dropped, an asset that no input or mint
// provides added to an output. A disagreement is keyed by the wrong
// formula that explains the library's answer.
package c27

import (
	"errors"
	"fmt"
	"math/big"
	"sort"
	"strings"
	"sync"

	"github.com/blinklabs-io/gouroboros/ledger/common"
	"github.com/blinklabs-io/gouroboros/ledger/shelley"

	"verifharness/cborx"
	"verifharness/core"
	lg "verifharness/ledgergen"
)

func init() {
	core.Register(&core.Monitor{
		ID:            "C27",
		Rule:          "PRNG transactions per era (quick 5000, thorough 300000 per era): 1-4 inputs and 1-4 outputs with coin and (Mary+) assets over policies {P1,P2,all-zero} x names {'',a,b}; 0-2 withdrawals; 0-3 certificates of every type the era has (stake reg/dereg/deleg, pool reg for new / already registered / repeated-in-tx pools, pool retire; Conway+: reg, unreg, vote / stake-vote deleg, the three reg+deleg forms, DRep reg / unreg / update), 0-2 proposals and a treasury donation (Conway+), mint / burn of 0-3 assets; outputs balanced under the true formula (1/3), under one of 19 wrong formulas (1/3; among them 'tokens of the spent inputs not counted', all or one asset), or true formula with one term perturbed (1/3: moved by +-1, all / one output asset entry dropped, an asset nobody provides added to an output); plus 400 (thorough 20000) pure payments per era through the full rule list; plus the shared-state family (Mary+, 60 / 3000 per era and scenario: honest and conflicting transactions over the same asset in two inputs / input+mint validated in sequences on ONE in-memory state, each verdict compared with a fresh state); every rule call is repeated on the same objects and every second rejected case re-run in other map key orders (lg.EnableChecks); a case is non-trivial when the transaction decodes; distinct by transaction bytes + ledger-state summary",
		MinNontrivial: 20000,
		Assumptions: []string{
			"stated certificate / proposal deposits equal the protocol parameters in every generated case; registration and deregistration of the same credential never share a transaction",
			"the pool deposit is due once per pool that is new to the ledger state, also when the transaction carries two registration certificates for it (cardano-ledger shelleyTotalDepositsTxCerts collects new pool ids in a set)",
			"phase-2-invalid transactions (is_valid = false), whose balance is the collateral balance, are not generated",
			"the single rule is judged; the full rule list is judged only for pure payments (other families would need script witnesses for the mint policies)",
		},
		Run: run,
	})
}

// ---------------------------------------------------------------- description

type asset struct {
	policy lg.Hash28
	name   string
}

func (a asset) String() string { return fmt.Sprintf("%x.%q", a.policy[:4], a.name) }

type holding map[asset]*big.Int

func (h holding) add(a asset, q *big.Int) {
	if h[a] == nil {
		h[a] = new(big.Int)
	}
	h[a].Add(h[a], q)
}

func (h holding) clone() holding {
	c := holding{}
	for k, v := range h {
		c[k] = new(big.Int).Set(v)
	}
	return c
}

func (h holding) sortedKeys() []asset {
	var ks []asset
	for k := range h {
		ks = append(ks, k)
	}
	sort.Slice(ks, func(i, j int) bool {
		if ks[i].policy != ks[j].policy {
			return string(ks[i].policy[:]) < string(ks[j].policy[:])
		}
		return ks[i].name < ks[j].name
	})
	return ks
}

func (h holding) assets() []lg.Asset {
	var out []lg.Asset
	for _, k := range h.sortedKeys() {
		if h[k].Sign() == 0 {
			continue
		}
		out = append(out, lg.Asset{Policy: k.policy, Name: []byte(k.name), Qty: new(big.Int).Set(h[k])})
	}
	return out
}

func (h holding) String() string {
	var p []string
	for _, k := range h.sortedKeys() {
		p = append(p, fmt.Sprintf("%s=%s", k, h[k]))
	}
	return "{" + strings.Join(p, ",") + "}"
}

type txo struct {
	coin   uint64
	assets holding
}

type certKind int

const (
	cStakeReg certKind = iota
	cStakeDereg
	cStakeDeleg
	cPoolReg
	cPoolRetire
	cReg
	cUnreg
	cVoteDeleg
	cStakeVoteDeleg
	cStakeRegDeleg
	cVoteRegDeleg
	cStakeVoteRegDeleg
	cDRepReg
	cDRepUnreg
	cDRepUpdate
	nCertKinds
)

var certName = [...]string{"stake-reg", "stake-dereg", "stake-deleg", "pool-reg", "pool-retire", "reg", "unreg", "vote-deleg", "stake-vote-deleg",
	"stake-reg-deleg", "vote-reg-deleg", "stake-vote-reg-deleg", "drep-reg", "drep-unreg", "drep-update"}

type cert struct {
	kind   certKind
	id     int    // credential / pool number (distinct credentials per certificate, pools may repeat)
	amount uint64 // stated deposit / refund of the explicit forms
}

type desc struct {
	era         lg.Era
	inputs      []txo
	outputs     []txo
	fee         uint64
	withdrawals []uint64
	certs       []cert
	proposals   []uint64
	donation    *uint64
	mint        holding
	poolsInLS   map[int]bool // pools already registered in the ledger state
	keyDeposit  uint64
	poolDeposit uint64
	tagSets     bool
}

// ---------------------------------------------------------------- formulas

type variant uint32

const (
	wZeroPolicyIgnored variant = 1 << iota
	wZeroPolicyEmptyNameIsCoin
	wPoolDepositPerCert
	wDropDonation
	wDropProposals
	wDropDRepDeposit
	wDropDRepRefund
	wDropStakeRegDeposit
	wDropStakeDeregRefund
	wDropExplicitRegDeposit
	wDropExplicitUnregRefund
	wPoolDepositAlways
	wNoPoolDeposit
	wDropWithdrawals
	wBurnAsMint
	wIgnoreMint
	wRefundPoolRetire
	wInputAssetsIgnored   // the tokens held by the spent inputs are not counted
	wOneInputAssetIgnored // one of them (the first in policy / name order) is not counted
	nVariants             = 19
)

var variantName = map[variant]string{
	wZeroPolicyIgnored:         "zero-policy-mint-ignored",
	wZeroPolicyEmptyNameIsCoin: "zero-policy-empty-name-mint-is-coin",
	wPoolDepositPerCert:        "pool-deposit-per-certificate",
	wDropDonation:              "donation-forgotten",
	wDropProposals:             "proposal-deposits-forgotten",
	wDropDRepDeposit:           "drep-deposit-forgotten",
	wDropDRepRefund:            "drep-refund-forgotten",
	wDropStakeRegDeposit:       "stake-deposit-forgotten",
	wDropStakeDeregRefund:      "stake-refund-forgotten",
	wDropExplicitRegDeposit:    "explicit-registration-deposit-forgotten",
	wDropExplicitUnregRefund:   "explicit-deregistration-refund-forgotten",
	wPoolDepositAlways:         "pool-deposit-also-for-registered-pool",
	wNoPoolDeposit:             "pool-deposit-forgotten",
	wDropWithdrawals:           "withdrawals-forgotten",
	wBurnAsMint:                "burn-counted-as-mint",
	wIgnoreMint:                "mint-ignored",
	wRefundPoolRetire:          "pool-retirement-refunded",
	wInputAssetsIgnored:        "input-assets-ignored",
	wOneInputAssetIgnored:      "one-input-asset-ignored",
}

func (v variant) names() []string {
	var out []string
	for i := 0; i < nVariants; i++ {
		if v&(1<<uint(i)) != 0 {
			out = append(out, variantName[1<<uint(i)])
		}
	}
	return out
}

var zeroPolicy lg.Hash28

// sides computes both sides of the balance equation under formula v (v = 0 is
// the formula of the statement). Outputs are part of `produced`.
func sides(d *desc, v variant) (cCoin, pCoin *big.Int, cAssets, pAssets holding) {
	u := func(x uint64) *big.Int { return new(big.Int).SetUint64(x) }
	cCoin, pCoin = new(big.Int), new(big.Int)
	cAssets, pAssets = holding{}, holding{}
	var skip *asset
	if v&wOneInputAssetIgnored != 0 {
		all := holding{}
		for _, in := range d.inputs {
			for a, q := range in.assets {
				all.add(a, q)
			}
		}
		if ks := all.sortedKeys(); len(ks) > 0 {
			skip = &ks[0]
		}
	}
	for _, in := range d.inputs {
		cCoin.Add(cCoin, u(in.coin))
		if v&wInputAssetsIgnored != 0 {
			continue
		}
		for a, q := range in.assets {
			if skip != nil && a == *skip {
				continue
			}
			cAssets.add(a, q)
		}
	}
	if v&wDropWithdrawals == 0 {
		for _, w := range d.withdrawals {
			cCoin.Add(cCoin, u(w))
		}
	}
	seenPool := map[int]bool{}
	for _, c := range d.certs {
		switch c.kind {
		case cStakeReg:
			if v&wDropStakeRegDeposit == 0 {
				pCoin.Add(pCoin, u(d.keyDeposit))
			}
		case cStakeDereg:
			if v&wDropStakeDeregRefund == 0 {
				cCoin.Add(cCoin, u(d.keyDeposit))
			}
		case cPoolReg:
			due := !d.poolsInLS[c.id] && !seenPool[c.id]
			if v&wPoolDepositPerCert != 0 {
				due = !d.poolsInLS[c.id]
			}
			if v&wPoolDepositAlways != 0 {
				due = true
			}
			if v&wNoPoolDeposit != 0 {
				due = false
			}
			seenPool[c.id] = true
			if due {
				pCoin.Add(pCoin, u(d.poolDeposit))
			}
		case cPoolRetire:
			if v&wRefundPoolRetire != 0 {
				cCoin.Add(cCoin, u(d.poolDeposit))
			}
		case cReg, cStakeRegDeleg, cVoteRegDeleg, cStakeVoteRegDeleg:
			if v&wDropExplicitRegDeposit == 0 {
				pCoin.Add(pCoin, u(c.amount))
			}
		case cUnreg:
			if v&wDropExplicitUnregRefund == 0 {
				cCoin.Add(cCoin, u(c.amount))
			}
		case cDRepReg:
			if v&wDropDRepDeposit == 0 {
				pCoin.Add(pCoin, u(c.amount))
			}
		case cDRepUnreg:
			if v&wDropDRepRefund == 0 {
				cCoin.Add(cCoin, u(c.amount))
			}
		}
	}
	if v&wDropProposals == 0 {
		for _, p := range d.proposals {
			pCoin.Add(pCoin, u(p))
		}
	}
	if d.donation != nil && v&wDropDonation == 0 {
		pCoin.Add(pCoin, u(*d.donation))
	}
	if v&wIgnoreMint == 0 {
		for a, q := range d.mint {
			if a.policy == zeroPolicy {
				if v&wZeroPolicyEmptyNameIsCoin != 0 && a.name == "" {
					cCoin.Add(cCoin, q)
					continue
				}
				if v&wZeroPolicyIgnored != 0 {
					continue
				}
			}
			if v&wBurnAsMint != 0 {
				cAssets.add(a, new(big.Int).Abs(q))
			} else {
				cAssets.add(a, q)
			}
		}
	}
	pCoin.Add(pCoin, u(d.fee))
	for _, o := range d.outputs {
		pCoin.Add(pCoin, u(o.coin))
		for a, q := range o.assets {
			pAssets.add(a, q)
		}
	}
	return
}

// balanced evaluates the balance equation under formula v.
func balanced(d *desc, v variant) bool {
	cc, pc, ca, pa := sides(d, v)
	if cc.Cmp(pc) != 0 {
		return false
	}
	for a, q := range ca {
		o := pa[a]
		if o == nil {
			o = new(big.Int)
		}
		if q.Cmp(o) != 0 {
			return false
		}
	}
	for a, q := range pa {
		if ca[a] == nil && q.Sign() != 0 {
			return false
		}
	}
	return true
}

// explainOrder: the three formulas the unchanged tree is known to follow come
// first, so that an answer they explain is attributed to them.
var explainOrder []variant

func init() {
	for i := 0; i < nVariants; i++ {
		explainOrder = append(explainOrder, 1<<uint(i))
	}
	known := []variant{wZeroPolicyIgnored, wZeroPolicyEmptyNameIsCoin, wPoolDepositPerCert}
	for i := range known {
		for j := i + 1; j < len(known); j++ {
			explainOrder = append(explainOrder, known[i]|known[j])
		}
	}
	explainOrder = append(explainOrder, known[0]|known[1]|known[2])
}

// explain returns the first wrong formula under which the balance equation
// evaluates to `lib` (the library's answer), or 0.
func explain(d *desc, lib bool) variant {
	for _, v := range explainOrder {
		if balanced(d, v) == lib {
			return v
		}
	}
	return 0
}

// explainReject attributes the rejection of a balanced transaction: when the
// library reports the coin totals it computed, the wrong formula that yields
// exactly those totals is the explanation; otherwise the first wrong formula
// under which the equation fails.
func explainReject(d *desc, rerr error) variant {
	var vnc shelley.ValueNotConservedUtxoError
	if errors.As(rerr, &vnc) && vnc.Consumed != nil && vnc.Produced != nil {
		for _, v := range explainOrder {
			cc, pc, _, _ := sides(d, v)
			if cc.Cmp(pc) != 0 && cc.Cmp(vnc.Consumed) == 0 && pc.Cmp(vnc.Produced) == 0 {
				return v
			}
		}
		// an asset mismatch: the formula must leave the coin balanced
		for _, v := range explainOrder {
			cc, pc, _, _ := sides(d, v)
			if cc.Cmp(pc) == 0 && !balanced(d, v) {
				return v
			}
		}
	}
	return explain(d, false)
}

// ---------------------------------------------------------------- generation

var (
	payer      = lg.NewKey("payer")
	polP1      = lg.Blake224([]byte("c27-policy-1"))
	polP2      = lg.Blake224([]byte("c27-policy-2"))
	polPhantom = lg.Blake224([]byte("c27-policy-nobody-holds"))
	policies   = []lg.Hash28{polP1, polP2, zeroPolicy}
	names      = []string{"", "a", "b"}
)

func certKindsOf(e lg.Era) []certKind {
	ks := []certKind{cStakeReg, cStakeDereg, cStakeDeleg, cPoolReg, cPoolRetire}
	if e >= lg.Conway {
		ks = append(ks, cReg, cUnreg, cVoteDeleg, cStakeVoteDeleg, cStakeRegDeleg, cVoteRegDeleg, cStakeVoteRegDeleg, cDRepReg, cDRepUnreg, cDRepUpdate)
	}
	return ks
}

func randAsset(r *core.Rand) asset {
	return asset{core.Pick(r, policies), core.Pick(r, names)}
}

// generate builds a case: everything but the outputs at random, the outputs
// balanced under formula w, then (if pm1) one term moved by one.
func generate(r *core.Rand, e lg.Era, w variant, pm1 bool, paymentOnly bool) (*desc, string) {
	p := lg.DefaultParams(e)
	d := &desc{era: e, poolsInLS: map[int]bool{}, keyDeposit: uint64(p.KeyDeposit), poolDeposit: uint64(p.PoolDeposit), mint: holding{}}
	d.tagSets = e >= lg.Conway && r.Bool()
	for i, n := 0, 1+r.Intn(4); i < n; i++ {
		in := txo{coin: 2_000_000 + uint64(r.Intn(60_000_000)), assets: holding{}}
		if e.HasMultiAsset() {
			for k := r.Intn(3); k > 0; k-- {
				in.assets.add(randAsset(r), big.NewInt(int64(1+r.Intn(1000))))
			}
		}
		d.inputs = append(d.inputs, in)
	}
	d.fee = 170_000 + uint64(r.Intn(900_000))
	if paymentOnly {
		d.fee = 250_000 + uint64(r.Intn(500_000)) // above the minimum fee of the default parameters
	}
	if !paymentOnly {
		for k := r.Intn(3); k > 0 && r.Chance(1, 2); k-- {
			d.withdrawals = append(d.withdrawals, uint64(r.Intn(5_000_000)))
		}
		id := 0
		kinds := certKindsOf(e)
		for _, k := range kinds {
			if !r.Chance(1, 4) {
				continue
			}
			for n := 1 + r.Intn(3); n > 0; n-- {
				id++
				c := cert{kind: k, id: id}
				switch k {
				case cReg, cUnreg, cStakeRegDeleg, cVoteRegDeleg, cStakeVoteRegDeleg:
					c.amount = d.keyDeposit
				case cDRepReg, cDRepUnreg:
					c.amount = p.DRepDeposit
				case cPoolReg:
					switch r.Intn(4) {
					case 0:
						d.poolsInLS[id] = true // re-registration
					case 1:
						// the same pool as the previous pool certificate, if any
						for j := len(d.certs) - 1; j >= 0; j-- {
							if d.certs[j].kind == cPoolReg {
								c.id = d.certs[j].id
								break
							}
						}
					}
				}
				d.certs = append(d.certs, c)
			}
		}
		// certificate order is part of the semantics of repeated pools only;
		// shuffle so that types interleave
		perm := r.Perm(len(d.certs))
		sh := make([]cert, len(d.certs))
		for i, j := range perm {
			sh[i] = d.certs[j]
		}
		d.certs = sh
		if e >= lg.Conway {
			for k := r.Intn(3); k > 0 && r.Chance(1, 3); k-- {
				d.proposals = append(d.proposals, p.GovActionDeposit)
			}
			if r.Chance(1, 3) {
				v := uint64(1 + r.Intn(9_000_000))
				d.donation = &v
			}
		}
		if e.HasMultiAsset() && r.Chance(1, 2) {
			for k := 1 + r.Intn(3); k > 0; k-- {
				q := int64(1 + r.Intn(500))
				if r.Bool() {
					q = -q
				}
				a := randAsset(r)
				if d.mint[a] == nil {
					d.mint.add(a, big.NewInt(q))
				}
			}
		}
	}
	// outputs balanced under formula w
	nOut := 1 + r.Intn(4)
	for tries := 0; tries < 4; tries++ {
		cc, pc, ca, _ := sides(d, w) // outputs still empty
		availCoin := new(big.Int).Sub(cc, pc)
		need := big.NewInt(int64(nOut) * 1_500_000)
		fixed := true
		if availCoin.Cmp(need) < 0 {
			d.inputs[0].coin += new(big.Int).Sub(need, availCoin).Uint64() + uint64(r.Intn(3_000_000))
			fixed = false
		}
		for a, q := range ca {
			if q.Sign() < 0 { // burn not backed by the inputs: fund it
				d.inputs[0].assets.add(a, new(big.Int).Neg(q))
				if r.Bool() {
					d.inputs[0].assets.add(a, big.NewInt(int64(r.Intn(50))))
				}
				fixed = false
			}
		}
		if fixed {
			break
		}
	}
	cc, pc, ca, _ := sides(d, w)
	availCoin := new(big.Int).Sub(cc, pc).Uint64()
	d.outputs = make([]txo, nOut)
	for i := range d.outputs {
		d.outputs[i].assets = holding{}
	}
	rest := availCoin - uint64(nOut)*1_400_000
	for i := range d.outputs {
		share := rest
		if i < nOut-1 {
			share = uint64(r.Float() * float64(rest))
		}
		d.outputs[i].coin = 1_400_000 + share
		rest -= share
	}
	for _, a := range ca.sortedKeys() {
		q := new(big.Int).Set(ca[a])
		for q.Sign() > 0 {
			o := r.Intn(nOut)
			part := new(big.Int).Set(q)
			if r.Bool() && q.Cmp(big.NewInt(1)) > 0 {
				part = big.NewInt(1 + int64(r.Intn(int(minInt64(q.Int64(), 1<<30)))))
				if part.Cmp(q) > 0 {
					part.Set(q)
				}
			}
			d.outputs[o].assets.add(a, part)
			q.Sub(q, part)
		}
	}
	label := "balanced"
	if w != 0 {
		label = "as-if:" + strings.Join(w.names(), "+")
	}
	if pm1 {
		label = "perturbed:" + perturb(r, d)
	}
	return d, label
}

func minInt64(a, b int64) int64 {
	if a < b {
		return a
	}
	return b
}

// perturb moves one term of the description by +-1 and returns its name.
func perturb(r *core.Rand, d *desc) string {
	type op struct {
		name string
		do   func(up bool) bool
	}
	bump := func(p *uint64) func(bool) bool {
		return func(up bool) bool {
			if up {
				*p++
				return true
			}
			if *p == 0 {
				return false
			}
			*p--
			return true
		}
	}
	// bumpQ moves a quantity by one without creating a zero entry (and, for
	// outputs / inputs, without going negative): when the chosen direction
	// would do that, the other direction is taken.
	bumpQ := func(h holding, a asset, keepPositive bool) func(bool) bool {
		return func(up bool) bool {
			q := h[a]
			one := big.NewInt(1)
			if up && q.Cmp(big.NewInt(-1)) == 0 {
				up = false
			}
			if !up && q.Cmp(one) == 0 {
				up = true
			}
			_ = keepPositive // quantities of outputs / inputs are >= 1, so the rule above keeps them positive
			if up {
				q.Add(q, one)
			} else {
				q.Sub(q, one)
			}
			return true
		}
	}
	var ops []op
	ops = append(ops, op{"fee", bump(&d.fee)})
	o := r.Intn(len(d.outputs))
	ops = append(ops, op{"output-coin", bump(&d.outputs[o].coin)})
	i := r.Intn(len(d.inputs))
	ops = append(ops, op{"input-coin", bump(&d.inputs[i].coin)})
	if ks := d.outputs[o].assets.sortedKeys(); len(ks) > 0 {
		ops = append(ops, op{"output-asset", bumpQ(d.outputs[o].assets, core.Pick(r, ks), true)})
	}
	if ks := d.inputs[i].assets.sortedKeys(); len(ks) > 0 {
		ops = append(ops, op{"input-asset", bumpQ(d.inputs[i].assets, core.Pick(r, ks), true)})
	}
	if ks := d.mint.sortedKeys(); len(ks) > 0 {
		ops = append(ops, op{"mint", bumpQ(d.mint, core.Pick(r, ks), false)})
	}
	if len(d.withdrawals) > 0 {
		ops = append(ops, op{"withdrawal", bump(&d.withdrawals[r.Intn(len(d.withdrawals))])})
	}
	if d.donation != nil {
		ops = append(ops, op{"donation", func(up bool) bool {
			if !up && *d.donation <= 1 {
				return false
			}
			return bump(d.donation)(up)
		}})
	}
	// structural perturbations of the assets (Mary+): outputs lose all their
	// tokens / one entry, or carry an asset that no input or mint provides
	if d.era.HasMultiAsset() {
		withAssets := []int{}
		for i, out := range d.outputs {
			if len(out.assets) > 0 {
				withAssets = append(withAssets, i)
			}
		}
		if len(withAssets) > 0 {
			ops = append(ops, op{"all-output-assets-dropped", func(bool) bool {
				for i := range d.outputs {
					d.outputs[i].assets = holding{}
				}
				return true
			}})
			oi := core.Pick(r, withAssets)
			ks := d.outputs[oi].assets.sortedKeys()
			victim := core.Pick(r, ks)
			ops = append(ops, op{"one-output-asset-entry-dropped", func(bool) bool {
				delete(d.outputs[oi].assets, victim)
				return true
			}})
		}
		phantom := asset{core.Pick(r, []lg.Hash28{polP1, polP2, polPhantom, zeroPolicy}), core.Pick(r, []string{"", "a", "ghost"})}
		qty := int64(1 + r.Intn(1000))
		ops = append(ops, op{"unprovided-asset-in-output", func(bool) bool {
			provided := holding{}
			for _, in := range d.inputs {
				for a, q := range in.assets {
					provided.add(a, q)
				}
			}
			for a, q := range d.mint {
				provided.add(a, q)
			}
			if provided[phantom] != nil {
				return false
			}
			d.outputs[o].assets.add(phantom, big.NewInt(qty))
			return true
		}})
	}
	for tries := 0; tries < 8; tries++ {
		x := core.Pick(r, ops)
		if x.do(r.Bool()) {
			return x.name
		}
	}
	d.fee++
	return "fee"
}

// minimalCases are the smallest transactions of the classes the PRNG families
// explore, so that a finding carries a small witness: for every wrong formula
// a transaction with exactly the one feature the formula is about, balanced
// under the wrong formula (forward direction) and under the true one
// (converse direction).
func minimalCases(e lg.Era) []labelled {
	p := lg.DefaultParams(e)
	mk := func() *desc {
		return &desc{era: e, poolsInLS: map[int]bool{}, keyDeposit: uint64(p.KeyDeposit), poolDeposit: uint64(p.PoolDeposit), mint: holding{},
			inputs: []txo{{coin: 2_000_000_000_000, assets: holding{}}}, fee: 200_000}
	}
	var out []labelled
	add := func(name string, d *desc, features variant) {
		// features: the wrong formulas that matter for this transaction
		for i := 0; i < nVariants+1; i++ {
			var w variant
			if i > 0 {
				w = 1 << uint(i-1)
				if w&features == 0 {
					continue
				}
			}
			c := *d
			c.inputs = []txo{{coin: d.inputs[0].coin, assets: d.inputs[0].assets.clone()}}
			c.mint = d.mint.clone()
			cc, pc, ca, _ := sides(&c, w)
			o := txo{coin: new(big.Int).Sub(cc, pc).Uint64(), assets: holding{}}
			ok := true
			for a, q := range ca {
				if q.Sign() < 0 {
					ok = false
				}
				if q.Sign() > 0 {
					o.assets.add(a, q)
				}
			}
			if !ok {
				continue
			}
			c.outputs = []txo{o}
			l := "minimal:" + name + ":balanced"
			if w != 0 {
				l = "minimal:" + name + ":as-if:" + variantName[w]
			}
			out = append(out, labelled{&c, l})
		}
	}
	d := mk()
	d.certs = []cert{{kind: cPoolReg, id: 1}, {kind: cPoolReg, id: 1}}
	add("same-new-pool-registered-twice", d, wPoolDepositPerCert|wNoPoolDeposit)
	d = mk()
	d.certs = []cert{{kind: cPoolReg, id: 1}}
	d.poolsInLS[1] = true
	add("pool-re-registration", d, wPoolDepositAlways)
	d = mk()
	d.certs = []cert{{kind: cPoolRetire, id: 1}}
	d.poolsInLS[1] = true
	add("pool-retirement", d, wRefundPoolRetire)
	d = mk()
	d.certs = []cert{{kind: cStakeReg, id: 1}}
	add("stake-registration", d, wDropStakeRegDeposit)
	d = mk()
	d.certs = []cert{{kind: cStakeDereg, id: 1}}
	add("stake-deregistration", d, wDropStakeDeregRefund)
	d = mk()
	d.withdrawals = []uint64{1_234_567}
	add("withdrawal", d, wDropWithdrawals)
	if e.HasMultiAsset() {
		d = mk()
		d.mint.add(asset{zeroPolicy, "x"}, big.NewInt(5))
		add("mint-under-zero-policy", d, wZeroPolicyIgnored|wIgnoreMint)
		d = mk()
		d.mint.add(asset{zeroPolicy, ""}, big.NewInt(1_000_000))
		add("mint-under-zero-policy-empty-name", d, wZeroPolicyIgnored|wZeroPolicyEmptyNameIsCoin|wIgnoreMint)
		d = mk()
		d.inputs[0].assets.add(asset{zeroPolicy, "x"}, big.NewInt(5))
		d.mint.add(asset{zeroPolicy, "x"}, big.NewInt(-5))
		add("burn-under-zero-policy", d, wZeroPolicyIgnored)
		d = mk()
		d.inputs[0].assets.add(asset{polP1, "a"}, big.NewInt(9))
		d.mint.add(asset{polP1, "a"}, big.NewInt(-4))
		add("burn", d, wBurnAsMint|wIgnoreMint)
		d = mk()
		d.mint.add(asset{polP1, "a"}, big.NewInt(4))
		add("mint", d, wIgnoreMint)
		// tokens held by the spent input: kept, all dropped, one dropped; alone,
		// next to a mint of another asset, next to a burn of the same asset
		d = mk()
		d.inputs[0].assets.add(asset{polP1, "a"}, big.NewInt(1000))
		add("input-holds-one-asset", d, wInputAssetsIgnored)
		d = mk()
		d.inputs[0].assets.add(asset{polP1, "a"}, big.NewInt(7))
		d.inputs[0].assets.add(asset{polP1, "b"}, big.NewInt(3))
		d.inputs[0].assets.add(asset{polP2, ""}, big.NewInt(1))
		add("input-holds-three-assets", d, wInputAssetsIgnored|wOneInputAssetIgnored)
		d = mk()
		d.inputs[0].assets.add(asset{polP1, "a"}, big.NewInt(7))
		d.mint.add(asset{polP2, "b"}, big.NewInt(5))
		add("input-asset-and-mint-of-another", d, wInputAssetsIgnored|wIgnoreMint)
		d = mk()
		d.inputs[0].assets.add(asset{polP1, "a"}, big.NewInt(7))
		d.mint.add(asset{polP1, "a"}, big.NewInt(-2))
		add("input-asset-and-burn-of-the-same", d, wInputAssetsIgnored|wIgnoreMint|wBurnAsMint)
	}
	if e >= lg.Conway {
		for _, k := range []certKind{cReg, cStakeRegDeleg, cVoteRegDeleg, cStakeVoteRegDeleg} {
			d = mk()
			d.certs = []cert{{kind: k, id: 1, amount: d.keyDeposit}}
			add(certName[k], d, wDropExplicitRegDeposit)
		}
		d = mk()
		d.certs = []cert{{kind: cUnreg, id: 1, amount: d.keyDeposit}}
		add("unreg", d, wDropExplicitUnregRefund)
		d = mk()
		d.certs = []cert{{kind: cDRepReg, id: 1, amount: p.DRepDeposit}}
		add("drep-reg", d, wDropDRepDeposit)
		d = mk()
		d.certs = []cert{{kind: cDRepUnreg, id: 1, amount: p.DRepDeposit}}
		add("drep-unreg", d, wDropDRepRefund)
		d = mk()
		d.proposals = []uint64{p.GovActionDeposit}
		add("proposal", d, wDropProposals)
		d = mk()
		v := uint64(7_000_000)
		d.donation = &v
		add("donation", d, wDropDonation)
	}
	return out
}

type labelled struct {
	d     *desc
	label string
}

// ---------------------------------------------------------------- building

func credOf(kind string, id int) lg.Hash28 {
	return lg.NewKey(fmt.Sprintf("c27-%s-%d", kind, id)).Hash()
}

func poolRegNode(id int) *cborx.Node {
	op := credOf("pool", id)
	vrf := lg.Blake256([]byte(fmt.Sprintf("c27-vrf-%d", id)))
	owner := credOf("owner", id)
	return cborx.A(cborx.U(3), cborx.B(op[:]), cborx.B(vrf[:]), cborx.U(1_000_000_000), cborx.U(340_000_000),
		cborx.T(30, cborx.A(cborx.U(1), cborx.U(100))), cborx.B(lg.RewardKeyAddr(lg.Mainnet, owner)), cborx.A(cborx.B(owner[:])), cborx.A(), cborx.Null())
}

func certNode(c cert) *cborx.Node {
	cred := lg.CredKey(credOf("stake", c.id))
	pool := credOf("pool", 1000+c.id)
	drep := lg.DRepKey(credOf("drep", 2000+c.id))
	switch c.kind {
	case cStakeReg:
		return lg.CertStakeReg(cred)
	case cStakeDereg:
		return lg.CertStakeDereg(cred)
	case cStakeDeleg:
		return lg.CertStakeDeleg(cred, pool)
	case cPoolReg:
		return poolRegNode(c.id)
	case cPoolRetire:
		return lg.CertPoolRetire(credOf("pool", c.id), 300)
	case cReg:
		return lg.CertReg(cred, c.amount)
	case cUnreg:
		return lg.CertUnreg(cred, c.amount)
	case cVoteDeleg:
		return lg.CertVoteDeleg(cred, drep)
	case cStakeVoteDeleg:
		return cborx.A(cborx.U(10), cred, cborx.B(pool[:]), drep)
	case cStakeRegDeleg:
		return cborx.A(cborx.U(11), cred, cborx.B(pool[:]), cborx.U(c.amount))
	case cVoteRegDeleg:
		return cborx.A(cborx.U(12), cred, drep, cborx.U(c.amount))
	case cStakeVoteRegDeleg:
		return cborx.A(cborx.U(13), cred, cborx.B(pool[:]), drep, cborx.U(c.amount))
	case cDRepReg:
		return lg.CertDRepReg(lg.CredKey(credOf("drep", c.id)), c.amount)
	case cDRepUnreg:
		return lg.CertDRepUnreg(lg.CredKey(credOf("drep", c.id)), c.amount)
	case cDRepUpdate:
		return cborx.A(cborx.U(18), lg.CredKey(credOf("drep", c.id)), cborx.Null())
	}
	panic("c27: unknown certificate kind")
}

func proposalNode(i int, deposit uint64) *cborx.Node {
	ret := lg.RewardKeyAddr(lg.Mainnet, credOf("proposer", i))
	h := lg.Blake256([]byte("c27-anchor"))
	return cborx.A(cborx.U(deposit), cborx.B(ret), cborx.A(cborx.U(6)), cborx.A(cborx.S("https://example.invalid/c27"), cborx.B(h[:])))
}

func (d *desc) output(o txo) lg.Output {
	return lg.Output{Addr: lg.EnterpriseKeyAddr(lg.Mainnet, payer.Hash()), Coin: o.coin, Assets: o.assets.assets(), MapForm: d.era >= lg.Babbage}
}

// build returns the transaction spec and the ledger state of a description.
func (d *desc) build(idx int) (*lg.TxSpec, *lg.State, error) {
	st := lg.NewState(lg.Mainnet)
	s := &lg.TxSpec{Era: d.era, Fee: d.fee, Signers: []lg.Key{payer}, TagSets: d.tagSets}
	if d.era == lg.Shelley {
		s.TTL = lg.U64(1 << 40) // mandatory in Shelley; far in the future
	}
	for i, in := range d.inputs {
		ref := lg.In(fmt.Sprintf("c27-%d-in%d", idx, i), uint32(i))
		if err := st.AddUtxo(d.era, ref, d.output(in)); err != nil {
			return nil, nil, err
		}
		s.Inputs = append(s.Inputs, ref)
	}
	for _, o := range d.outputs {
		s.Outputs = append(s.Outputs, d.output(o))
	}
	for i, w := range d.withdrawals {
		cr := credOf("withdraw", i)
		st.RegisterStake(cr, w)
		s.Withdrawals = append(s.Withdrawals, lg.Withdrawal{Account: lg.RewardKeyAddr(lg.Mainnet, cr), Amount: w})
	}
	for _, c := range d.certs {
		s.Certs = append(s.Certs, certNode(c))
	}
	for id := range d.poolsInLS {
		st.Pools[credOf("pool", id)] = &common.PoolRegistrationCertificate{CertType: 3, Operator: common.PoolKeyHash(credOf("pool", id))}
	}
	if len(d.proposals) > 0 {
		var ps []*cborx.Node
		for i, dep := range d.proposals {
			ps = append(ps, proposalNode(i, dep))
		}
		var set *cborx.Node
		if d.tagSets {
			set = cborx.T(258, cborx.A(ps...))
		} else {
			set = cborx.A(ps...)
		}
		s.ExtraBody = append(s.ExtraBody, lg.BodyField{Key: 20, Value: set})
	}
	s.Donation = d.donation
	s.Mint = d.mint.assets()
	return s, st, nil
}

func (d *desc) summary() map[string]any {
	var ins, outs []string
	for _, i := range d.inputs {
		ins = append(ins, fmt.Sprintf("%d%s", i.coin, i.assets))
	}
	for _, o := range d.outputs {
		outs = append(outs, fmt.Sprintf("%d%s", o.coin, o.assets))
	}
	var cs []string
	for _, c := range d.certs {
		t := fmt.Sprintf("%s#%d", certName[c.kind], c.id)
		if c.amount != 0 {
			t += fmt.Sprintf("(%d)", c.amount)
		}
		if c.kind == cPoolReg && d.poolsInLS[c.id] {
			t += "(already registered)"
		}
		cs = append(cs, t)
	}
	m := map[string]any{"era": d.era.String(), "input_utxos": ins, "outputs": outs, "fee": d.fee, "withdrawals": d.withdrawals, "certificates": cs,
		"proposal_deposits": d.proposals, "mint": d.mint.String(), "key_deposit": d.keyDeposit, "pool_deposit": d.poolDeposit}
	if d.donation != nil {
		m["donation"] = *d.donation
	}
	cc, pc, ca, pa := sides(d, 0)
	m["model_consumed_coin"], m["model_produced_coin"] = cc.String(), pc.String()
	m["model_consumed_assets"], m["model_produced_assets"] = ca.String(), pa.String()
	return m
}

func (d *desc) weight() int {
	return len(d.inputs)*3 + len(d.outputs)*3 + len(d.withdrawals) + len(d.certs)*2 + len(d.proposals) + len(d.mint)*2 + assetCount(d)
}

func assetCount(d *desc) int {
	n := 0
	for _, i := range d.inputs {
		n += len(i.assets)
	}
	for _, o := range d.outputs {
		n += len(o.assets)
	}
	return n
}

// ---------------------------------------------------------------- findings

type finding struct {
	key, what string
	witness   map[string]any
	weight    int
	count     int
}

type collector struct {
	mu sync.Mutex
	m  map[string]*finding
}

func (co *collector) add(f finding) {
	co.mu.Lock()
	defer co.mu.Unlock()
	old := co.m[f.key]
	if old == nil {
		f.count = 1
		co.m[f.key] = &f
		return
	}
	old.count++
	if f.weight < old.weight {
		f.count = old.count
		co.m[f.key] = &f
	}
}

func (co *collector) flush(c *core.Ctx) {
	var ks []string
	for k := range co.m {
		ks = append(ks, k)
	}
	sort.Strings(ks)
	for _, k := range ks {
		f := co.m[k]
		f.witness["cases_in_this_class"] = f.count
		c.Violation(f.key, fmt.Sprintf("%s (%d such cases)", f.what, f.count), f.witness)
	}
}

// ---------------------------------------------------------------- run

var generationVariants []variant

func init() {
	for i := 0; i < nVariants; i++ {
		generationVariants = append(generationVariants, 1<<uint(i))
	}
	// the combination the Conway rule is suspected of
	generationVariants = append(generationVariants, wZeroPolicyIgnored|wZeroPolicyEmptyNameIsCoin)
}

func run(c *core.Ctx) {
	// generic checks (lg.Independence): every rule call below is repeated on
	// the same objects (verdict and quantities must not change) and rejected
	// transactions are re-run in other presentations of the same maps
	lg.EnableChecks(c)
	co := &collector{m: map[string]*finding{}}
	perEra := c.N(5000, 300000)
	payments := c.N(400, 20000)
	type job struct {
		era     lg.Era
		payment bool
		k       int
		fixed   *labelled
	}
	var jobs []job
	for _, e := range lg.AllEras {
		for _, m := range minimalCases(e) {
			m := m
			jobs = append(jobs, job{era: e, k: -1, fixed: &m})
		}
		for k := 0; k < perEra; k++ {
			jobs = append(jobs, job{era: e, k: k})
		}
		for k := 0; k < payments; k++ {
			jobs = append(jobs, job{era: e, payment: true, k: k})
		}
	}
	rules := map[lg.Era]common.UtxoValidationRuleFunc{}
	pps := map[lg.Era]common.ProtocolParameters{}
	for _, e := range lg.AllEras {
		f, ok := lg.Rule(e, "UtxoValidateValueNotConservedUtxo")
		if !ok {
			c.Violation("C27:"+e.String()+":rule-missing-from-list", e.String()+": UtxoValidateValueNotConservedUtxo is not in the era's UtxoValidationRules", map[string]any{"rule_list": lg.RuleNames(e)})
			continue
		}
		rules[e] = f
		pps[e] = lg.DefaultParams(e).For(e)
	}
	c.Parallel("case", len(jobs), 0, func(i int, r *core.Rand) {
		j := jobs[i]
		e := j.era
		en := e.String()
		rule := rules[e]
		if rule == nil {
			return
		}
		var w variant
		pm1 := false
		switch r.Intn(3) {
		case 1:
			w = core.Pick(r, generationVariants)
		case 2:
			pm1 = true
		}
		if j.payment {
			w = 0
		}
		d, label := (*desc)(nil), ""
		if j.fixed != nil {
			d, label = j.fixed.d, j.fixed.label
		} else {
			d, label = generate(r, e, w, pm1, j.payment)
		}
		spec, st, err := d.build(i)
		if err != nil {
			c.Count("utxo_not_decodable_"+en, 1)
			return
		}
		built := spec.Build()
		c.Journal("C27 case %d era=%s %s tx=%x", i, en, label, built.Cbor)
		tx, derr := built.Decode()
		c.Eval()
		if derr != nil {
			c.Count("decode_rejected_"+en, 1)
			if c.Counter("decode_rejected_"+en) <= 2 {
				c.Note("decode_error_example_"+en, derr.Error())
			}
			return
		}
		c.Distinct(en, core.HexFull(built.TxId[:]), fmt.Sprint(d.poolsInLS), d.inputs[0].coin)
		truth := balanced(d, 0)
		var rerr error
		if pn, val, _ := core.Safely(func() {
			rerr = lg.Checked(e, tx, st, func() error { return rule(tx, 1000, st, pps[e]) })
		}); pn {
			rerr = fmt.Errorf("panic: %v", val)
		} else if rerr != nil && (i%2 == 0 || j.fixed != nil) {
			// presentation variants of every second rejected case
			core.Safely(func() {
				lg.CheckPresentations(spec, built, rerr, func(v common.Transaction) error { return rule(v, 1000, st, pps[e]) })
			})
		}
		lib := rerr == nil
		c.Count("generated:"+strings.SplitN(label, ":", 2)[0], 1)
		if j.fixed != nil {
			c.Count("minimal_cases_"+en, 1)
		}
		switch {
		case lib && truth:
			c.Count("balanced_accepted_"+en, 1)
		case !lib && !truth:
			c.Count("unbalanced_rejected_"+en, 1)
		}
		if i%4001 == 0 {
			c.Sample(map[string]any{"case": d.summary(), "generated": label, "model_balanced": truth, "rule_accepts": lib, "tx_cbor": core.Hex(built.Cbor)})
		}
		wit := func() map[string]any {
			m := d.summary()
			m["generated_as"] = label
			m["tx_cbor"] = core.HexFull(built.Cbor)
			m["rule_result"] = fmt.Sprint(rerr)
			m["pools_registered_in_ledger_state"] = fmt.Sprint(d.poolsInLS)
			m["model_balanced"] = truth
			return m
		}
		if j.payment {
			// the complete rule list on pure payments
			full := lg.Verify(e, tx, 1000, st, pps[e])
			if full == nil {
				c.Count("full_list_accept_"+en, 1)
				if !truth {
					co.add(finding{key: "C27:" + en + ":full-list:unbalanced-payment-accepted", weight: d.weight(), witness: wit(),
						what: fmt.Sprintf("%s: the complete rule list accepts a pure payment whose consumed and produced value differ (%s)", en, label)})
				}
			} else {
				c.Count("full_list_reject_"+en, 1)
				if truth {
					c.Count("full_list_reject_balanced_"+en+":"+lg.ErrType(full), 1)
				}
			}
		}
		if lib == truth {
			return
		}
		ex := explain(d, lib)
		if !lib {
			ex = explainReject(d, rerr)
		}
		var names []string
		if ex != 0 {
			names = ex.names()
		} else {
			names = []string{"unexplained:" + label}
		}
		for _, n := range names {
			if lib {
				c.Count("unbalanced_accepted_"+en, 1)
				co.add(finding{key: "C27:" + en + ":accepts-as-if:" + n, weight: d.weight(), witness: wit(),
					what: fmt.Sprintf("%s: UtxoValidateValueNotConservedUtxo accepts a transaction whose consumed and produced value differ under the ledger formula; it balances only under the formula '%s' (generated as %s)", en, strings.Join(names, " + "), label)})
			} else {
				c.Count("balanced_rejected_"+en, 1)
				co.add(finding{key: "C27:" + en + ":rejects-as-if:" + n, weight: d.weight(), witness: wit(),
					what: fmt.Sprintf("%s (converse): UtxoValidateValueNotConservedUtxo rejects a transaction that balances under the ledger formula; the rejection is what the formula '%s' gives (generated as %s): %v", en, strings.Join(names, " + "), label, rerr)})
			}
		}
	})
	co.flush(c)
	sharedStateFamily(c, rules, pps)
	for _, e := range lg.AllEras {
		en := e.String()
		if e.HasMultiAsset() && c.Counter("shared_state_scenarios_"+en) == 0 {
			forceInconclusive(c, en+": the shared-state scenarios never had the intended fresh verdicts (honest accepted, conflicting rejected)")
		}
		if c.Counter("balanced_accepted_"+en) == 0 {
			forceInconclusive(c, en+": no balanced transaction was accepted")
		}
		if c.Counter("unbalanced_rejected_"+en) == 0 {
			forceInconclusive(c, en+": no unbalanced transaction was rejected")
		}
		if c.Counter("full_list_accept_"+en) == 0 {
			forceInconclusive(c, en+": the full rule list never accepted a balanced payment")
		}
	}
}

func forceInconclusive(c *core.Ctx, what string) {
	n := int(c.Evals()/50) + 1
	for i := 0; i < n; i++ {
		c.Inconclusive(what)
	}
}
