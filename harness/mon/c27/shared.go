package c27

import (
	"fmt"
	"math/big"
	"strings"

	"github.com/blinklabs-io/gouroboros/ledger/common"

	"verifharness/core"
	lg "verifharness/ledgergen"
)

// Shared-state family (history independence, part b).
//
// A ledger state that keeps its UTxO set in memory hands out the SAME
// TransactionOutput objects to every validation (lg.State does, like the
// ouroboros-mock state). The verdict on a transaction must then be the verdict
// it gets on a fresh state with the same contents, whatever was validated
// before. Scenarios (Mary and later; asset T under policy P1):
//
//	two-inputs : UTxOs u0 = q0 T, u1 = q1 T.
//	             A (honest)      spends u0,u1, pays (q0+q1) T in two outputs
//	             B (conflicting) spends u0 only, pays (q0+q1) T   - unbalanced
//	             C (honest)      spends u0 only, pays q0 T
//	input+mint : UTxO u0 = q0 T, u1 ada-only.
//	             A spends u0,u1, mints q1 T, pays (q0+q1) T in two outputs
//	             B spends u0 only, no mint, pays (q0+q1) T         - unbalanced
//	             C spends u0 only, pays q0 T
//
// Sequences validated one after the other on ONE state, each transaction
// decoded afresh: A B | A C | A A B | B A B | C A C | A A A. Each verdict is
// compared with the verdict of the same bytes on a fresh state; a difference
// is reported under C27:shared-state:<era>:<scenario>:<site>:<fresh>-><shared>
// (site = rule | full-list).
func sharedStateFamily(c *core.Ctx, rules map[lg.Era]common.UtxoValidationRuleFunc, pps map[lg.Era]common.ProtocolParameters) {
	type txs struct{ a, b, cc *lg.Built }
	addr := lg.EnterpriseKeyAddr(lg.Mainnet, payer.Hash())
	const fee = 400_000
	per := c.N(60, 3000)
	var jobs []struct {
		era  lg.Era
		scen string
		k    int
	}
	for _, e := range lg.AllEras {
		if !e.HasMultiAsset() {
			continue
		}
		for _, sc := range []string{"two-inputs", "input+mint"} {
			for k := 0; k < per; k++ {
				jobs = append(jobs, struct {
					era  lg.Era
					scen string
					k    int
				}{e, sc, k})
			}
		}
	}
	seqs := []string{"AB", "AC", "AAB", "BAB", "CAC", "AAA"}
	c.Parallel("shared-state", len(jobs), 0, func(i int, r *core.Rand) {
		j := jobs[i]
		e, en := j.era, j.era.String()
		rule := rules[e]
		if rule == nil {
			return
		}
		q := func() *big.Int {
			switch r.Intn(3) {
			case 0:
				return big.NewInt(int64(r.Range(1, 9)))
			case 1:
				return big.NewInt(int64(r.Range(1, 1<<30)))
			}
			return new(big.Int).SetUint64(r.Uint64()>>2 + 1)
		}
		q0, q1 := q(), q()
		if j.k == 0 {
			q0, q1 = big.NewInt(5), big.NewInt(3)
		}
		sum := new(big.Int).Add(q0, q1)
		half := new(big.Int).Rsh(sum, 1)
		rest := new(big.Int).Sub(sum, half)
		tok := func(v *big.Int) []lg.Asset {
			if v.Sign() == 0 {
				return nil
			}
			return []lg.Asset{{Policy: polP1, Name: []byte("T"), Qty: new(big.Int).Set(v)}}
		}
		out := func(coin uint64, v *big.Int) lg.Output {
			return lg.Output{Addr: addr, Coin: coin, Assets: tok(v), MapForm: e >= lg.Babbage}
		}
		u0 := lg.In(fmt.Sprintf("c27-shared-%d-u0", i), 0)
		u1 := lg.In(fmt.Sprintf("c27-shared-%d-u1", i), 1)
		const coin0, coin1 = 20_000_000, 10_000_000
		freshState := func() *lg.State {
			st := lg.NewState(lg.Mainnet)
			must(st.AddUtxo(e, u0, out(coin0, q0)))
			if j.scen == "two-inputs" {
				must(st.AddUtxo(e, u1, out(coin1, q1)))
			} else {
				must(st.AddUtxo(e, u1, out(coin1, new(big.Int))))
			}
			return st
		}
		spec := func(ins []lg.Input, mint *big.Int, outs ...lg.Output) *lg.Built {
			s := &lg.TxSpec{Era: e, Fee: fee, Signers: []lg.Key{payer}, Inputs: ins, Outputs: outs}
			if mint != nil {
				s.Mint = tok(mint)
			}
			return s.Build()
		}
		var t txs
		if j.scen == "two-inputs" {
			t.a = spec([]lg.Input{u0, u1}, nil, out(coin0+coin1-fee-5_000_000, half), out(5_000_000, rest))
		} else {
			t.a = spec([]lg.Input{u0, u1}, q1, out(coin0+coin1-fee-5_000_000, half), out(5_000_000, rest))
		}
		t.b = spec([]lg.Input{u0}, nil, out(coin0-fee-5_000_000, half), out(5_000_000, rest))
		t.cc = spec([]lg.Input{u0}, nil, out(coin0-fee, q0))
		pick := func(ch byte) *lg.Built {
			switch ch {
			case 'A':
				return t.a
			case 'B':
				return t.b
			}
			return t.cc
		}
		sites := []string{"rule"}
		if j.scen == "two-inputs" {
			sites = append(sites, "full-list") // the mint would need a policy script
		}
		validate := func(site string, b *lg.Built, st *lg.State) (verdict string, err error, ok bool) {
			tx, derr := b.Decode()
			if derr != nil {
				return "", derr, false
			}
			if pn, val, _ := core.Safely(func() {
				if site == "rule" {
					err = rule(tx, 1000, st, pps[e])
				} else {
					err = common.VerifyTransaction(tx, 1000, st, pps[e], lg.Rules(e))
				}
			}); pn {
				err = fmt.Errorf("panic: %v", val)
			}
			if err == nil {
				return "accept", nil, true
			}
			return "reject", err, true
		}
		c.Journal("C27 shared-state case %d era=%s %s q0=%s q1=%s", i, en, j.scen, q0, q1)
		c.Eval()
		for _, site := range sites {
			fresh := map[byte]string{}
			for _, ch := range []byte("ABC") {
				v, _, ok := validate(site, pick(ch), freshState())
				if !ok {
					c.Count("shared_state_decode_rejected_"+en, 1)
					return
				}
				fresh[ch] = v
			}
			// the fresh verdicts themselves are the main family's business; here
			// they only have to be what the scenario intends for it to be meaningful
			if fresh['A'] != "accept" || fresh['B'] != "reject" || fresh['C'] != "accept" {
				c.Count(fmt.Sprintf("shared_state_unexpected_fresh_verdicts:%s:%s:%s:A=%s,B=%s,C=%s", en, j.scen, site, fresh['A'], fresh['B'], fresh['C']), 1)
			} else {
				c.Count("shared_state_scenarios_"+en, 1)
			}
			for _, seq := range seqs {
				st := freshState()
				for pos := 0; pos < len(seq); pos++ {
					ch := seq[pos]
					v, verr, _ := validate(site, pick(ch), st)
					c.Count("shared_state_validations", 1)
					if v == fresh[ch] {
						continue
					}
					role := map[byte]string{'A': "honest-tx", 'B': "conflicting-tx", 'C': "honest-single-input-tx"}[ch]
					c.Violation(fmt.Sprintf("C27:shared-state:%s:%s:%s:%s:%s->%s", en, j.scen, site, role, fresh[ch], v),
						fmt.Sprintf("%s (%s, %s): transaction %c of the sequence %s is %sed on a fresh ledger state but %sed when validated at position %d of that sequence on one in-memory state (q0=%s, q1=%s): the verdict depends on which validations ran before", en, j.scen, site, ch, strings.Join(strings.Split(seq, ""), ","), fresh[ch], v, pos+1, q0, q1),
						map[string]any{"era": en, "scenario": j.scen, "site": site, "sequence": seq, "position": pos + 1, "q0": q0.String(), "q1": q1.String(),
							"verdict_on_fresh_state": fresh[ch], "verdict_on_shared_state": v, "error_on_shared_state": fmt.Sprint(verr),
							"tx_A": core.HexFull(t.a.Cbor), "tx_B": core.HexFull(t.b.Cbor), "tx_C": core.HexFull(t.cc.Cbor),
							"utxo_u0_as_the_shared_state_reports_it_now": utxoString(st, u0), "utxo_u1_as_the_shared_state_reports_it_now": utxoString(st, u1)})
					break
				}
			}
		}
		c.Distinct("shared-state", en, j.scen, q0.String(), q1.String())
	})
}

func must(err error) {
	if err != nil {
		panic(err)
	}
}

func utxoString(st *lg.State, in lg.Input) string {
	u, ok := st.Utxos[in.String()]
	if !ok || u.Output == nil {
		return "missing"
	}
	s := fmt.Sprintf("coin=%v", u.Output.Amount())
	if a := u.Output.Assets(); a != nil {
		for _, p := range a.Policies() {
			for _, n := range a.Assets(p) {
				s += fmt.Sprintf(" %x.%s=%v", p[:4], n, a.Asset(p, n))
			}
		}
	}
	return s
}
