//go:build only_c30

package mon

import _ "verifharness/mon/c30"
