//go:build only_c44

package mon

import _ "verifharness/mon/c44"
