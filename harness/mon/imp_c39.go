//go:build only_c39

package mon

import _ "verifharness/mon/c39"
