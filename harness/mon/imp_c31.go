//go:build only_c31

package mon

import _ "verifharness/mon/c31"
