//go:build only_c19

package mon

import _ "verifharness/mon/c19"
