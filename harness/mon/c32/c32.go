// Package c32 monitors C32: collateral covers the fee share the protocol
// demands.
//
// Observation point: common.VerifyTransaction with the era's complete rule
// list on decoded Alonzo..Dijkstra transactions that really run a script
// (ledgergen's script world: a Plutus-locked input, script witness, datum,
// redeemer, script integrity hash, key-locked collateral inputs owned by the
// signer). "Accepted" therefore means accepted by validation as a whole, so a
// requirement enforced by any rule of the list (e.g. the separate
// total-collateral equality rule) is honoured. The collateral-named rules are
// additionally run on their own and reported in the witness.
//
// Which transactions can be accepted at all: Alonzo and Babbage reject every
// phase-2-valid transaction with redeemers (phase-2 unsupported), so there the
// phase-2-INVALID form (is_valid = false – the very case in which collateral
// is collected) is used; Conway is observed in both forms; Dijkstra cannot
// encode is_valid = false and is observed in the valid form (the script runs).
//
// Oracle, from the statement, for a transaction with redeemers:
//
//	accepted  =>  #collateral inputs >= 1
//	          and balance*100 >= fee*pct            (exact, big integers)
//	          and the collateral inputs are ada-only, or (Babbage+) the
//	              collateral return carries (at least) all of their tokens
//	          and #collateral inputs <= maxCollateralInputs
//
// with balance = Σ collateral-input coin − collateral-return coin (Babbage+),
// Σ collateral-input coin in Alonzo.
package c32

import (
	"fmt"
	"math/big"
	"sort"
	"strings"

	"verifharness/core"
	lg "verifharness/ledgergen"
)

func init() {
	core.Register(&core.Monitor{
		ID:            "C32",
		Rule:          "grid: era (Alonzo..Dijkstra) x tx form (phase-2-invalid / valid where the era can accept it) x fee in {0,1,3,7,99,100,101,199,1000,12345,400000} x collateral percentage in {0,1,50,99,100,101,150,199,250,1000} x balance in {floor-1, floor, ceil, ceil+1, 0} of fee*pct/100 x realisation (one input, two inputs, Babbage+: input+return with / without total_collateral); plus no-collateral, non-ada (with exact / partial / foreign / missing return) and input-count (max-1..max+2) families; thorough adds 40000 PRNG (fee, pct, balance near the exact threshold) cases; a case is non-trivial when the transaction has redeemers and decodes; distinct by the full case description",
		MinNontrivial: 3000,
		Assumptions: []string{
			"the script-world transaction built by ledgergen is valid in every other respect (pre-flight: accepted with ample ada-only collateral)",
			"minimum fee parameters are set to 0 so that the fee can be chosen freely; nothing else about the parameters is unusual",
			"golang.org/x/crypto/blake2b and crypto/ed25519 are correct",
		},
		Run: run,
	})
}

var (
	polP = lg.Blake224([]byte("c32-policy-P"))
	polQ = lg.Blake224([]byte("c32-policy-Q"))
)

type ret struct {
	coin   uint64
	assets []lg.Asset
}

type ccase struct {
	family     string
	era        lg.Era
	invalid    bool
	fee        uint64
	pct        uint
	maxInputs  uint
	collCoins  []uint64
	collAssets [][]lg.Asset // per collateral input (nil = ada-only)
	ret        *ret
	// total: nil = total_collateral absent; otherwise the declared value
	total     *uint64
	redeemers bool
}

func assetsString(as []lg.Asset) string {
	var p []string
	for _, a := range as {
		p = append(p, fmt.Sprintf("%x.%s=%s", a.Policy[:3], a.Name, a.Qty))
	}
	return "{" + strings.Join(p, ",") + "}"
}

func (t ccase) String() string {
	s := fmt.Sprintf("family=%s era=%s phase2_invalid=%v redeemers=%v fee=%d pct=%d max_inputs=%d collateral_coins=%v", t.family, t.era, t.invalid, t.redeemers, t.fee, t.pct, t.maxInputs, t.collCoins)
	for i, a := range t.collAssets {
		if len(a) > 0 {
			s += fmt.Sprintf(" coll%d_assets=%s", i, assetsString(a))
		}
	}
	if t.ret != nil {
		s += fmt.Sprintf(" return_coin=%d return_assets=%s", t.ret.coin, assetsString(t.ret.assets))
	}
	if t.total != nil {
		s += fmt.Sprintf(" total_collateral=%d", *t.total)
	}
	return s
}

// ---------------------------------------------------------------- reference model

type verdict struct {
	present, amount, ada, count bool
	balance                     *big.Int // Σ inputs − return
	sumInputs                   *big.Int
}

func (v verdict) ok() bool { return v.present && v.amount && v.ada && v.count }

func sumAssets(groups ...[]lg.Asset) map[string]*big.Int {
	m := map[string]*big.Int{}
	for _, g := range groups {
		for _, a := range g {
			k := string(a.Policy[:]) + "/" + string(a.Name)
			if m[k] == nil {
				m[k] = new(big.Int)
			}
			m[k].Add(m[k], a.Qty)
		}
	}
	for k, v := range m {
		if v.Sign() == 0 {
			delete(m, k)
		}
	}
	return m
}

func reference(t ccase) verdict {
	var v verdict
	v.present = len(t.collCoins) >= 1
	v.count = uint(len(t.collCoins)) <= t.maxInputs
	v.sumInputs = new(big.Int)
	for _, c := range t.collCoins {
		v.sumInputs.Add(v.sumInputs, new(big.Int).SetUint64(c))
	}
	v.balance = new(big.Int).Set(v.sumInputs)
	if t.ret != nil && t.era.HasCollateralReturn() {
		v.balance.Sub(v.balance, new(big.Int).SetUint64(t.ret.coin))
	}
	need := new(big.Int).Mul(new(big.Int).SetUint64(t.fee), big.NewInt(int64(t.pct)))
	have := new(big.Int).Mul(v.balance, big.NewInt(100))
	v.amount = have.Cmp(need) >= 0
	// "ada-only unless the non-ada part is returned": the requirement the
	// statement makes is about tokens sitting in the collateral INPUTS – they
	// must all come back through the collateral return. (A return that
	// carries more than the inputs held is a different matter, not covered by
	// the statement, and is not judged here.)
	in := sumAssets(t.collAssets...)
	v.ada = true
	if len(in) > 0 {
		v.ada = false
		if t.era.HasCollateralReturn() && t.ret != nil {
			back := sumAssets(t.ret.assets)
			v.ada = true
			for k, q := range in {
				if back[k] == nil || back[k].Cmp(q) < 0 {
					v.ada = false
				}
			}
		}
	}
	return v
}

// class names the violated requirement for the violation key.
func class(t ccase, v verdict) string {
	switch {
	case !v.present:
		return "no-collateral-accepted"
	case !v.count:
		return "too-many-inputs-accepted"
	case !v.ada:
		if t.ret == nil || !t.era.HasCollateralReturn() {
			return "non-ada-accepted"
		}
		return "non-ada-return-mismatch-accepted"
	}
	// amount: why might an implementation have let it through?
	need := new(big.Int).Mul(new(big.Int).SetUint64(t.fee), big.NewInt(int64(t.pct)))
	floor := new(big.Int).Div(need, big.NewInt(100))
	switch {
	case v.balance.Cmp(floor) >= 0:
		return "floor-division"
	case t.ret != nil && v.sumInputs.Cmp(floor) >= 0:
		return "return-not-subtracted"
	}
	return "insufficient-accepted"
}

// ---------------------------------------------------------------- case construction

func build(t ccase) (*lg.ScriptWorld, *lg.TxSpec) {
	lang := uint(1)
	if t.era == lg.Alonzo {
		lang = 0
	}
	w := lg.NewScriptWorld(t.era, lang)
	w.Params.MinFeeA, w.Params.MinFeeB = 0, 0
	w.Params.CollateralPercentage = t.pct
	w.Params.MaxCollateralInputs = t.maxInputs
	s := w.Spec.Clone()
	s.Fee = t.fee
	s.Invalid = t.invalid
	s.Collateral = nil
	for i, coin := range t.collCoins {
		in := lg.In(fmt.Sprintf("c32-collateral-%d", i), uint32(i))
		o := w.PayerOutput(coin)
		if i < len(t.collAssets) {
			o.Assets = t.collAssets[i]
		}
		w.MustAddUtxo(in, o)
		s.Collateral = append(s.Collateral, in)
	}
	if t.ret != nil {
		o := w.PayerOutput(t.ret.coin)
		o.Assets = t.ret.assets
		s.CollateralReturn = &o
	}
	s.TotalCollateral = t.total
	if !t.redeemers {
		// a plain payment: drop everything script related
		s.Inputs = s.Inputs[:1]
		s.Redeemers, s.Datums, s.PlutusV1, s.PlutusV2, s.PlutusV3 = nil, nil, nil, nil, nil
		s.ScriptDataHash = nil
	}
	if err := w.Rebalance(s, 0, 0); err != nil {
		panic(err)
	}
	if t.redeemers {
		w.Seal(s)
	}
	return w, s
}

func forms(e lg.Era) []bool { // values of "invalid"
	switch e {
	case lg.Alonzo, lg.Babbage:
		return []bool{true}
	case lg.Conway:
		return []bool{true, false}
	}
	return []bool{false}
}

var eras = []lg.Era{lg.Alonzo, lg.Babbage, lg.Conway, lg.Dijkstra}

func u(v uint64) *uint64 { return &v }

func cases(c *core.Ctx) []ccase {
	var out []ccase
	fees := []uint64{3, 400_000, 0, 1, 7, 99, 100, 101, 199, 1000, 12345}
	pcts := []uint{150, 0, 1, 50, 99, 100, 101, 199, 250, 1000}
	for _, e := range eras {
		for _, inv := range forms(e) {
			base := ccase{era: e, invalid: inv, maxInputs: 3, redeemers: true}
			// (A) threshold grid
			for _, f := range fees {
				for _, p := range pcts {
					need := f * uint64(p)
					floor := need / 100
					ceil := (need + 99) / 100
					bset := map[uint64]bool{0: true, floor: true, ceil: true, ceil + 1: true}
					if floor > 0 {
						bset[floor-1] = true
					}
					var bs []uint64
					for b := range bset {
						bs = append(bs, b)
					}
					sort.Slice(bs, func(i, j int) bool { return bs[i] < bs[j] })
					for _, b := range bs {
						t := base
						t.family, t.fee, t.pct = "grid", f, p
						one := t
						one.collCoins = []uint64{b}
						out = append(out, one)
						two := t
						two.collCoins = []uint64{b / 2, b - b/2}
						out = append(out, two)
						if e.HasCollateralReturn() {
							for _, r := range []uint64{2_000_000, 1} {
								for _, declare := range []bool{false, true} {
									x := t
									x.collCoins = []uint64{b + r}
									x.ret = &ret{coin: r}
									if declare {
										x.total = u(b)
									}
									out = append(out, x)
								}
							}
						}
					}
				}
			}
			// (B) redeemers but no collateral inputs; and the plain payment
			for _, f := range []uint64{0, 1, 400_000} {
				t := base
				t.family, t.fee, t.pct = "none", f, 150
				out = append(out, t)
				if e.HasCollateralReturn() {
					x := t
					x.ret = &ret{coin: 2_000_000}
					out = append(out, x)
				}
			}
			{
				t := base
				t.family, t.fee, t.pct, t.redeemers, t.invalid = "plain", 400_000, 150, false, false
				out = append(out, t)
			}
			// (C) tokens in the collateral
			tokA5 := []lg.Asset{lg.Tok(polP, "a", 5)}
			type rv struct {
				name string
				r    *ret
			}
			rets := []rv{{"no-return", nil}}
			if e.HasCollateralReturn() {
				rets = append(rets,
					rv{"exact", &ret{2_000_000, []lg.Asset{lg.Tok(polP, "a", 5)}}},
					rv{"fewer", &ret{2_000_000, []lg.Asset{lg.Tok(polP, "a", 4)}}},
					rv{"more", &ret{2_000_000, []lg.Asset{lg.Tok(polP, "a", 6)}}},
					rv{"other-name", &ret{2_000_000, []lg.Asset{lg.Tok(polP, "b", 5)}}},
					rv{"other-policy", &ret{2_000_000, []lg.Asset{lg.Tok(polQ, "a", 5)}}},
					rv{"extra-asset", &ret{2_000_000, []lg.Asset{lg.Tok(polP, "a", 5), lg.Tok(polQ, "z", 1)}}},
					rv{"ada-only-return", &ret{2_000_000, nil}},
				)
			}
			for _, r := range rets {
				t := base
				t.family, t.fee, t.pct = "nonada/"+r.name, 400_000, 150
				t.collCoins = []uint64{10_000_000}
				t.collAssets = [][]lg.Asset{tokA5}
				t.ret = r.r
				out = append(out, t)
				// tokens split over two inputs
				x := t
				x.family += "/split"
				x.collCoins = []uint64{5_000_000, 5_000_000}
				x.collAssets = [][]lg.Asset{{lg.Tok(polP, "a", 2)}, {lg.Tok(polP, "a", 3)}}
				out = append(out, x)
				// tokens only in the second of two collateral inputs
				z := t
				z.family += "/second-input-only"
				z.collCoins = []uint64{5_000_000, 5_000_000}
				z.collAssets = [][]lg.Asset{nil, tokA5}
				out = append(out, z)
				// ada-only inputs, return as given (tokens out of nothing)
				y := t
				y.family += "/ada-inputs"
				y.collAssets = nil
				out = append(out, y)
			}
			// (C2) several asset names / policies in the collateral: the return must
			// give back every one of them (a comparison that only walks the return's
			// entries, or only counts policies, accepts a per-policy subset)
			if e.HasCollateralReturn() {
				multi := []lg.Asset{lg.Tok(polP, "a", 5), lg.Tok(polP, "b", 7), lg.Tok(polQ, "c", 3)}
				subs := []rv{
					{"multi/exact", &ret{2_000_000, []lg.Asset{lg.Tok(polP, "a", 5), lg.Tok(polP, "b", 7), lg.Tok(polQ, "c", 3)}}},
					{"multi/one-name-missing", &ret{2_000_000, []lg.Asset{lg.Tok(polP, "a", 5), lg.Tok(polQ, "c", 3)}}},
					{"multi/other-name-missing", &ret{2_000_000, []lg.Asset{lg.Tok(polP, "b", 7), lg.Tok(polQ, "c", 3)}}},
					{"multi/policy-missing", &ret{2_000_000, []lg.Asset{lg.Tok(polP, "a", 5), lg.Tok(polP, "b", 7)}}},
					{"multi/one-quantity-short", &ret{2_000_000, []lg.Asset{lg.Tok(polP, "a", 5), lg.Tok(polP, "b", 6), lg.Tok(polQ, "c", 3)}}},
					{"multi/only-one-entry", &ret{2_000_000, []lg.Asset{lg.Tok(polQ, "c", 3)}}},
				}
				for _, r := range subs {
					t := base
					t.family, t.fee, t.pct = "nonada/"+r.name, 400_000, 150
					t.collCoins = []uint64{10_000_000}
					t.collAssets = [][]lg.Asset{multi}
					t.ret = r.r
					out = append(out, t)
					x := t
					x.family += "/split"
					x.collCoins = []uint64{5_000_000, 5_000_000}
					x.collAssets = [][]lg.Asset{{lg.Tok(polP, "a", 5), lg.Tok(polQ, "c", 1)}, {lg.Tok(polP, "b", 7), lg.Tok(polQ, "c", 2)}}
					out = append(out, x)
				}
			}
			// (D) number of collateral inputs
			for _, max := range []uint{3, 1, 0} {
				for n := 0; n <= int(max)+2; n++ {
					t := base
					t.family, t.fee, t.pct, t.maxInputs = "count", 400_000, 150, max
					for i := 0; i < n; i++ {
						t.collCoins = append(t.collCoins, 2_000_000)
					}
					out = append(out, t)
				}
			}
		}
	}
	if c.Thorough() {
		// PRNG fees / percentages with balances hugging the exact threshold
		r := c.Rand("random-grid")
		for i := 0; i < 40000; i++ {
			e := core.Pick(r, eras)
			fs := forms(e)
			t := ccase{family: "random", era: e, invalid: fs[r.Intn(len(fs))], maxInputs: 3, redeemers: true}
			switch r.Intn(3) {
			case 0:
				t.fee = uint64(r.Intn(1000))
			case 1:
				t.fee = uint64(r.Intn(2_000_000))
			default:
				t.fee = 150_000 + uint64(r.Intn(500_000))
			}
			t.pct = uint(r.Intn(400))
			need := t.fee * uint64(t.pct)
			b := need/100 + uint64(r.Intn(4))
			if d := uint64(r.Intn(3)); b >= d {
				b -= d
			}
			switch k := r.Intn(4); {
			case k == 0 || !e.HasCollateralReturn():
				t.collCoins = []uint64{b}
			case k == 1:
				t.collCoins = []uint64{b / 3, b - b/3}
			default:
				back := uint64(1 + r.Intn(3_000_000))
				t.collCoins = []uint64{b + back}
				t.ret = &ret{coin: back}
				if k == 3 {
					t.total = u(b)
				}
			}
			out = append(out, t)
		}
	}
	return out
}

func run(c *core.Ctx) {
	// generic checks (lg.Independence): every World.Run below validates the
	// same objects three times (verdict / quantities must not change) and
	// re-runs rejected transactions in other presentations (map key order)
	lg.EnableChecks(c).PresentationSample = 3 // the variants for one in 3 rejected cases
	// pre-flight: ample ada-only collateral is accepted in every (era, form)
	for _, e := range eras {
		for _, inv := range forms(e) {
			t := ccase{family: "preflight", era: e, invalid: inv, fee: 400_000, pct: 150, maxInputs: 3, collCoins: []uint64{5_000_000}, redeemers: true}
			w, s := build(t)
			if o := w.Run(s, w.Slot); !o.Accepted {
				forceInconclusive(c, fmt.Sprintf("pre-flight: %s script transaction (phase2_invalid=%v) with ample collateral not accepted (decode=%v verify=%v)", e, inv, o.DecodeErr, o.VerifyErr))
				return
			}
		}
	}
	cs := cases(c)
	c.Note("cases", len(cs))
	c.Parallel("case", len(cs), 0, func(i int, _ *core.Rand) {
		t := cs[i]
		desc := t.String()
		c.Journal("C32 case %d %s", i, desc)
		w, spec := build(t)
		o := w.Run(spec, w.Slot)
		c.Eval()
		en := t.era.String()
		c.Count("family:"+strings.SplitN(t.family, "/", 2)[0], 1)
		if o.DecodeErr != nil {
			c.Count("decode_rejected_"+en, 1)
			return
		}
		if !t.redeemers {
			if o.Accepted {
				c.Count("plain_payment_accepted_"+en, 1)
			}
			return
		}
		c.Distinct(desc)
		v := reference(t)
		switch {
		case o.Accepted && v.ok():
			c.Count("sufficient_accepted_"+en, 1)
		case !o.Accepted && v.ok():
			c.Count("sufficient_rejected_"+en, 1)
			c.Count("sufficient_rejected_type:"+lg.ErrType(o.VerifyErr), 1)
		case !o.Accepted && !v.ok():
			c.Count("deficient_rejected_"+en, 1)
			c.Count("reject_type:"+lg.ErrType(o.VerifyErr), 1)
		}
		if i%997 == 0 {
			c.Sample(map[string]any{"case": desc, "accepted": o.Accepted, "reference_ok": v.ok(), "error_type": lg.ErrType(o.VerifyErr), "tx_cbor": core.HexFull(o.Built.Cbor)})
		}
		if !o.Accepted || v.ok() {
			return
		}
		cl := class(t, v)
		c.Count("deficient_accepted_"+en+":"+cl, 1)
		alone := map[string]string{}
		for _, r := range lg.RunAll(t.era, o.Tx, w.Slot, w.State, w.PP()) {
			if strings.Contains(r.Name, "Collateral") {
				if r.Err != nil {
					alone[r.Name] = r.Err.Error()
				} else {
					alone[r.Name] = "nil"
				}
			}
		}
		c.Violation("C32:"+en+":"+cl,
			fmt.Sprintf("%s transaction with redeemers accepted by the full rule list although the collateral requirement fails (%s): balance=%s fee=%d pct=%d, balance*100 >= fee*pct is %v; %s", en, cl, v.balance, t.fee, t.pct, v.amount, desc),
			map[string]any{
				"case": desc, "era": en, "phase2_invalid": t.invalid, "fee": t.fee, "collateral_percentage": t.pct,
				"collateral_input_coins": t.collCoins, "collateral_balance": v.balance.String(), "max_collateral_inputs": t.maxInputs,
				"requirement_present": v.present, "requirement_amount": v.amount, "requirement_ada_only": v.ada, "requirement_count": v.count,
				"collateral_rules_alone": alone, "tx_cbor": core.HexFull(o.Built.Cbor),
			})
	})
	for _, e := range eras {
		if c.Counter("sufficient_accepted_"+e.String()) == 0 {
			forceInconclusive(c, e.String()+": no transaction with sufficient collateral was accepted; accept => requirement never exercised")
		}
		if c.Counter("deficient_rejected_"+e.String()) == 0 {
			forceInconclusive(c, e.String()+": no transaction with deficient collateral was rejected")
		}
	}
}

// forceInconclusive records a run-level reason why nothing can be concluded
// often enough to cross the supervisor's 2 % line.
func forceInconclusive(c *core.Ctx, what string) {
	n := int(c.Evals()/50) + 1
	for i := 0; i < n; i++ {
		c.Inconclusive(what)
	}
}
