// Package c19 monitors C19: a client never settles on a version it did not
// offer. A real initiator (ouroboros.NewConnection) talks to the raw peer of
// package rawpeer, which reads the proposal off the wire and answers with a
// chosen AcceptVersion(v, data). Oracle (an implication, from the statement):
// NewConnection returns nil  =>  v is one of the versions found in the
// proposal on the wire  AND  data has the CDDL shape of v  AND  the magic in
// data is the initiator's own. The shapes are decided by rawpeer/cborx, not by
// the library's decoders.
package c19

import (
	"fmt"
	"runtime"
	"sort"
	"time"

	ouroboros "github.com/blinklabs-io/gouroboros"
	"github.com/blinklabs-io/gouroboros/protocol"

	"verifharness/cborx"
	"verifharness/core"
	"verifharness/rawpeer"
)

func init() {
	core.Register(&core.Monitor{
		ID:            "C19",
		Race:          true,
		Rule:          "exhaustive product: accepted version v in (all versions of the four tables + {0,1,6,16,0x7fff,0x8000,0x8015,0xffff,0x10000,0x18009}) x version-data shape (the four CDDL shapes incl. flag variants, indefinite and wide-integer encodings; wrong arity 1/3/5; wrong types; 33-bit magic; empty array/map/bytes, null, undefined) x magic in {initiator's, other} (shapes without a magic once) x initiator config {NtC, NtN, DMQ}; every case is non-trivial (an AcceptVersion was delivered and NewConnection returned); distinct by (config, v, shape, magic)",
		MinNontrivial: 3000,
		RaceAnchors:   []string{"handshake.(*Client)", "(*Connection).setupConnection", "(*Connection).ProtocolVersion"},
		Assumptions: []string{
			"handshake CDDL: NtC 9..14 carry the bare magic, NtC >= 15 and DMQ NtC [magic, query], NtN 7..10 [magic, diffusion], NtN >= 11 and DMQ NtN [magic, diffusion, peerSharing, query]",
			"the set of proposed versions is what the raw peer parses out of the ProposeVersions message on the wire",
			"a NewConnection call that does not return within the 30 s watchdog is inconclusive",
		},
		QuickTimeout: 600,
		Run:          run,
	})
}

const (
	watchdog   = 30 * time.Second
	ownMagic   = uint32(764824073)
	otherMagic = uint32(42)
)

// shapeOf: CDDL shape of a version number, ok=false for numbers in no table.
func shapeOf(v uint64) (rawpeer.Shape, bool) {
	switch {
	case v >= 0x8000+9 && v <= 0x8000+14:
		return rawpeer.ShapeMagic, true
	case v >= 0x8000+15 && v <= 0x8000+0x7ff:
		return rawpeer.ShapeMagicQ, true
	case v&^0xfff == 0x1000:
		return rawpeer.ShapeMagicQ, true
	case v == 1 || v == 2:
		return rawpeer.ShapeNtN4, true
	case v >= 7 && v <= 10:
		return rawpeer.ShapeNtN2, true
	case v >= 11 && v < 0x1000:
		return rawpeer.ShapeNtN4, true
	}
	return 0, false
}

type dataShape struct {
	Name     string
	HasMagic bool
	Build    func(m uint32) *cborx.Node
}

func wide(n *cborx.Node, f cborx.Form) *cborx.Node { n.SetForm(f); return n }

var shapes = []dataShape{
	// the four CDDL shapes
	{"magic", true, func(m uint32) *cborx.Node { return rawpeer.VDNtC9to14(m) }},
	{"magic-w8", true, func(m uint32) *cborx.Node { return wide(rawpeer.VDNtC9to14(m), cborx.Form8) }},
	{"pair-false", true, func(m uint32) *cborx.Node { return rawpeer.VDNtC15(m, false) }},
	{"pair-true", true, func(m uint32) *cborx.Node { return rawpeer.VDNtC15(m, true) }},
	{"pair-indef", true, func(m uint32) *cborx.Node { return wide(rawpeer.VDNtC15(m, false), cborx.FormIndef) }},
	{"quad-0", true, func(m uint32) *cborx.Node { return rawpeer.VDNtN11(m, false, 0, false) }},
	{"quad-1", true, func(m uint32) *cborx.Node { return rawpeer.VDNtN11(m, true, 1, false) }},
	{"quad-2q", true, func(m uint32) *cborx.Node { return rawpeer.VDNtN11(m, true, 2, true) }},
	// wrong arity
	{"arity1", true, func(m uint32) *cborx.Node { return cborx.A(cborx.U(uint64(m))) }},
	{"arity3", true, func(m uint32) *cborx.Node { return cborx.A(cborx.U(uint64(m)), cborx.Bool(false), cborx.U(0)) }},
	{"arity5", true, func(m uint32) *cborx.Node {
		return cborx.A(cborx.U(uint64(m)), cborx.Bool(false), cborx.U(0), cborx.Bool(false), cborx.U(0))
	}},
	// wrong types
	{"pair-magic-text", true, func(m uint32) *cborx.Node { return cborx.A(cborx.S(fmt.Sprint(m)), cborx.Bool(false)) }},
	{"pair-bool-as-uint", true, func(m uint32) *cborx.Node { return cborx.A(cborx.U(uint64(m)), cborx.U(0)) }},
	{"pair-magic-negative", true, func(m uint32) *cborx.Node { return cborx.A(cborx.I(-int64(m)), cborx.Bool(false)) }},
	{"pair-magic-33bit", true, func(m uint32) *cborx.Node { return cborx.A(cborx.U(uint64(m)+1<<32), cborx.Bool(false)) }},
	{"magic-33bit", true, func(m uint32) *cborx.Node { return cborx.U(uint64(m) + 1<<32) }},
	{"magic-negative", true, func(m uint32) *cborx.Node { return cborx.I(-int64(m)) }},
	{"magic-bytes", true, func(m uint32) *cborx.Node {
		return cborx.B([]byte{byte(m >> 24), byte(m >> 16), byte(m >> 8), byte(m)})
	}},
	{"magic-text", true, func(m uint32) *cborx.Node { return cborx.S(fmt.Sprint(m)) }},
	{"quad-ps-text", true, func(m uint32) *cborx.Node {
		return cborx.A(cborx.U(uint64(m)), cborx.Bool(false), cborx.S("x"), cborx.Bool(false))
	}},
	{"quad-bools-swapped", true, func(m uint32) *cborx.Node {
		return cborx.A(cborx.U(uint64(m)), cborx.U(0), cborx.Bool(false), cborx.Bool(false))
	}},
	{"map-0-magic", true, func(m uint32) *cborx.Node { return cborx.M(cborx.U(0), cborx.U(uint64(m))) }},
	{"nested-pair", true, func(m uint32) *cborx.Node { return cborx.A(cborx.A(cborx.U(uint64(m)), cborx.Bool(false))) }},
	// empty
	{"empty-array", false, func(uint32) *cborx.Node { return cborx.A() }},
	{"empty-map", false, func(uint32) *cborx.Node { return cborx.M() }},
	{"empty-bytes", false, func(uint32) *cborx.Node { return cborx.B(nil) }},
	{"null", false, func(uint32) *cborx.Node { return cborx.Null() }},
	{"undefined", false, func(uint32) *cborx.Node { return cborx.Undef() }},
	{"false", false, func(uint32) *cborx.Node { return cborx.Bool(false) }},
}

type config struct {
	Name string
	Opts []ouroboros.ConnectionOptionFunc
}

var configs = []config{
	{"ntc", nil},
	{"ntn", []ouroboros.ConnectionOptionFunc{ouroboros.WithNodeToNode(true)}},
	{"dmq", []ouroboros.ConnectionOptionFunc{ouroboros.WithDMQ(true)}},
}

type tcase struct {
	Cfg   int
	V     uint64
	Shape int
	Magic uint32
}

func knownVersions() (all []uint64, inTable map[uint64]string) {
	inTable = map[uint64]string{}
	for name, l := range map[string][]uint16{
		"ntc": protocol.GetProtocolVersionsNtC(), "ntn": protocol.GetProtocolVersionsNtN(),
		"dmq-ntc": protocol.GetProtocolVersionsDMQNtC(), "dmq-ntn": protocol.GetProtocolVersionsDMQNtN(),
	} {
		for _, v := range l {
			inTable[uint64(v)] = name
		}
	}
	seen := map[uint64]bool{}
	for v := range inTable {
		seen[v] = true
	}
	for _, v := range []uint64{0, 1, 6, 16, 0x7fff, 0x8000, 0x8015, 0xffff, 0x10000, 0x18009} {
		seen[v] = true
	}
	for v := range seen {
		all = append(all, v)
	}
	sort.Slice(all, func(i, j int) bool { return all[i] < all[j] })
	return
}

type peerResult struct {
	offered  []rawpeer.VersionEntry
	proposal []byte
	err      error
}

type connResult struct {
	conn *ouroboros.Connection
	err  error
}

func run(c *core.Ctx) {
	versions, inTable := knownVersions()
	c.Note("accepted_versions", fmt.Sprint(versions))
	var cases []tcase
	for ci := range configs {
		for _, v := range versions {
			for si, sh := range shapes {
				cases = append(cases, tcase{ci, v, si, ownMagic})
				if sh.HasMagic {
					cases = append(cases, tcase{ci, v, si, otherMagic})
				}
			}
		}
	}
	c.Note("cases_total", len(cases))
	g0 := runtime.NumGoroutine()
	workers := runtime.GOMAXPROCS(0)
	if workers > 16 {
		workers = 16
	}
	c.Parallel("case", len(cases), workers, func(i int, _ *core.Rand) {
		tc := cases[i]
		cfg, sh := configs[tc.Cfg], shapes[tc.Shape]
		data := sh.Build(tc.Magic)
		msg := rawpeer.AcceptVersion(tc.V, data)
		c.Journal("C19 case %d cfg=%s v=%#x shape=%s magic=%d accept=%x", i, cfg.Name, tc.V, sh.Name, tc.Magic, msg.Encode())

		a, b := rawpeer.Pipe()
		p := rawpeer.NewPeer(b, true)
		pch := make(chan peerResult, 1)
		go func() {
			var r peerResult
			var prop *cborx.Node
			prop, r.proposal, r.err = p.RecvMsg(rawpeer.ProtoHandshake)
			if r.err == nil {
				r.offered, r.err = rawpeer.ParseProposeVersions(prop)
			}
			if r.err == nil {
				r.err = p.SendMsg(rawpeer.ProtoHandshake, msg)
			}
			pch <- r
			p.Drain() // until the initiator hangs up
		}()
		cch := make(chan connResult, 1)
		go func() {
			opts := append([]ouroboros.ConnectionOptionFunc{
				ouroboros.WithConnection(a),
				ouroboros.WithNetworkMagic(ownMagic),
				ouroboros.WithDelayProtocolStart(true),
			}, cfg.Opts...)
			oc, err := ouroboros.NewConnection(opts...)
			cch <- connResult{oc, err}
		}()
		var cr connResult
		timedOut := false
		wd := time.NewTimer(watchdog)
		select {
		case cr = <-cch:
		case <-wd.C:
			timedOut = true
		}
		wd.Stop()
		var recorded uint16
		var recordedData protocol.VersionData
		if cr.conn != nil {
			recorded, recordedData = cr.conn.ProtocolVersion()
			cr.conn.Close()
		}
		a.Close()
		b.Close()
		if timedOut {
			cr = <-cch // the closed pipe ends the constructor
			if cr.conn != nil {
				cr.conn.Close()
			}
		}
		if cr.conn != nil {
			for range cr.conn.ErrorChan() {
			}
		}
		pr := <-pch
		c.Eval()
		if timedOut {
			c.Inconclusive(fmt.Sprintf("cfg=%s v=%#x shape=%s: NewConnection did not return within the watchdog", cfg.Name, tc.V, sh.Name))
			return
		}
		if pr.err != nil {
			c.Inconclusive(fmt.Sprintf("cfg=%s: raw peer could not read the proposal / send the answer: %v", cfg.Name, pr.err))
			return
		}
		c.Distinct(cfg.Name, tc.V, sh.Name, tc.Magic)

		// ---- oracle
		proposed := false
		var offered []uint64
		for _, e := range pr.offered {
			offered = append(offered, e.Version)
			if e.Version == tc.V {
				proposed = true
			}
		}
		if i%997 == 0 || (c.SampleN() < 2 && tc.Cfg == 0 && i%101 == 0) {
			c.Sample(map[string]any{"config": cfg.Name, "proposal": core.HexFull(pr.proposal), "accept_version": core.HexFull(msg.Encode()),
				"accept_diag": msg.Diag(), "error": fmt.Sprint(cr.err)})
		}
		shape, known := shapeOf(tc.V)
		var vd rawpeer.VersionData
		shapeOK := false
		if known {
			vd, shapeOK = rawpeer.DecodeVersionData(data, shape)
		}
		valid := proposed && shapeOK && vd.Magic == ownMagic
		if cr.err != nil {
			c.Count("rejected", 1)
			if valid {
				c.Count("rejected_valid_accept", 1) // allowed by the statement; kept visible
			}
			return
		}
		c.Count("accepted", 1)
		w := map[string]any{"config": cfg.Name, "initiator_magic": ownMagic, "proposed_versions": offered,
			"proposal": core.HexFull(pr.proposal), "accept_version": core.HexFull(msg.Encode()), "accept_diag": msg.Diag(),
			"version": tc.V, "shape": sh.Name, "data_magic": tc.Magic, "recorded_version": recorded}
		if valid {
			c.Count("accepted_valid", 1)
			if uint64(recorded) != tc.V || recordedData == nil || recordedData.NetworkMagic() != ownMagic {
				c.Violation("C19:accept:recorded-version-differs",
					fmt.Sprintf("%s initiator accepted version %d but Connection.ProtocolVersion() reports %d", cfg.Name, tc.V, recorded), w)
			}
			return
		}
		switch {
		case !proposed:
			kind := "unknown-version"
			if _, ok := inTable[tc.V]; ok {
				kind = "other-table"
			}
			c.Count("accepted_unproposed_"+kind, 1)
			c.Violation("C19:accept:unproposed-version:"+kind,
				fmt.Sprintf("%s initiator proposed %v, the peer accepted version %d (%#x, %s) with data %s and NewConnection returned nil (recorded version %d)",
					cfg.Name, offered, tc.V, tc.V, kind, data.Diag(), recorded), w)
		case !shapeOK:
			c.Count("accepted_invalid_data", 1)
			c.Violation("C19:accept:invalid-data:"+sh.Name,
				fmt.Sprintf("%s initiator completed the handshake on proposed version %d with version data %s, which is not valid for that version",
					cfg.Name, tc.V, data.Diag()), w)
		default:
			c.Count("accepted_foreign_magic", 1)
			c.Violation("C19:accept:foreign-magic",
				fmt.Sprintf("%s initiator (magic %d) completed the handshake on version %d with version data %s carrying magic %d",
					cfg.Name, ownMagic, tc.V, data.Diag(), vd.Magic), w)
		}
	})
	c.SetExhaustive()
	if c.Counter("accepted_valid") == 0 || c.Counter("rejected") == 0 {
		for i := int64(0); i <= c.Evals()/50+1; i++ {
			c.Inconclusive("the run never saw both a valid acceptance and a rejection")
		}
	}
	n := runtime.NumGoroutine()
	for i := 0; i < 200 && n > g0+8; i++ {
		time.Sleep(10 * time.Millisecond)
		n = runtime.NumGoroutine()
	}
	// (the DMQ configuration leaves one localmessagenotification expiration
	// cleaner goroutine per accepted connection behind; that is the library's)
	c.Note("goroutines_before", g0)
	c.Note("goroutines_after", n)
}
