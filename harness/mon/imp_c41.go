//go:build only_c41

package mon

import _ "verifharness/mon/c41"
