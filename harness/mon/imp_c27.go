//go:build only_c27

package mon

import _ "verifharness/mon/c27"
