//go:build only_c08

package mon

import _ "verifharness/mon/c08"
