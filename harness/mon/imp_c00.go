//go:build only_c00

package mon

import _ "verifharness/mon/c00"
