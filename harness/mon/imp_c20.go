//go:build only_c20

package mon

import _ "verifharness/mon/c20"
