// Package c13 monitors C13: receive buffering is bounded.
//
// A real Protocol endpoint (harness state maps with byte limits, and the
// library's block-fetch / chain-sync state maps) is flooded by a raw peer
// writing muxer segments straight onto a netsim connection while its handler
// is slow. The verdict comes from the verif hook events: the monitor keeps its
// own account of unprocessed bytes (admitted minus handled) and asserts it at
// every admission, under the order given by the trace sink.
package c13

import (
	"fmt"
	"os"
	"runtime"
	"regexp"
	"strconv"
	"sync"
	"sync/atomic"
	"time"

	"github.com/blinklabs-io/gouroboros/protocol"
	"github.com/blinklabs-io/gouroboros/protocol/blockfetch"
	"github.com/blinklabs-io/gouroboros/cbor"
	pcommon "github.com/blinklabs-io/gouroboros/protocol/common"

	"verifharness/core"
	"verifharness/netsim"
	"verifharness/protorig"
)

func init() {
	core.Register(&core.Monitor{
		ID:   "C13",
		Race: true,
		Rule: "a case = one receiving Protocol endpoint with per-state byte limits {1 KiB, 64 KiB, 462000, 2.5 MB, library block-fetch / chain-sync maps} flooded by a raw peer with valid messages of sizes in [1, limit] (and exactly limit, limit+1, and a never-completing message) while the handler sleeps; non-trivial = the back-pressure wait was actually entered (an admission happened while other bytes were still unprocessed and the next message had to wait) or an error verdict was reached; distinct = (scenario, limit, max unprocessed bucket, waits bucket)",
		MinNontrivial: 12,
		RaceAnchors:   []string{"protocol.(*Protocol).readLoop", "protocol.(*Protocol).recvLoop"},
		Assumptions: []string{
			"unprocessed bytes are accounted from hook events: admitted at `admit`, processed at `handled`",
			"netsim capacity (1 MiB) stands in for the TCP window, so a blocked reader slows the sender",
		},
		QuickTimeout: 1800,
		Run:          run,
	})
}

const (
	protoID = 78
	quiet   = 30 * time.Second
	hard    = 300 * time.Second
)

// account is the monitor's own view of one endpoint's receive side.
type account struct {
	mu          sync.Mutex
	lens        map[protocol.Message]int // admitted, not yet handled (by message identity when known)
	fifo        []int                    // admitted lengths in order (messages are handled in order)
	unprocessed int
	inHandler   int // length of the message currently inside the handler (0 if none)
	maxSeen     int
	admits      int
	handled     int
	waits       int // admissions that happened with other unprocessed bytes present
	violation   string
	firstErr    error
	afterErr    int // deliveries after the first error
	limitSeen   map[int]int
}

func (a *account) onEvent(e protorig.Ev, target *protocol.Protocol) {
	if e.Proto != target {
		return
	}
	a.mu.Lock()
	defer a.mu.Unlock()
	switch e.Kind {
	case "admit":
		a.admits++
		a.fifo = append(a.fifo, e.Len)
		a.unprocessed += e.Len
		a.limitSeen[e.Limit]++
		if a.unprocessed-e.Len > 0 {
			a.waits++
		}
		if a.unprocessed > a.maxSeen {
			a.maxSeen = a.unprocessed
		}
		if e.Limit > 0 {
			// everything except the single message being processed
			held := a.unprocessed - a.inHandler
			if held > e.Limit && a.violation == "" {
				a.violation = fmt.Sprintf("after admitting a %d-byte message in state %s the endpoint holds %d unprocessed bytes (plus %d in the handler), limit %d; the library's own counter says %d",
					e.Len, e.From, held, a.inHandler, e.Limit, e.Pending)
			}
			if e.Pending > e.Limit && a.violation == "" {
				a.violation = fmt.Sprintf("pendingRecvBytes=%d exceeds the limit %d of state %s after an admission", e.Pending, e.Limit, e.From)
			}
		}
	case "deliver":
		if len(a.fifo) > 0 {
			a.inHandler = a.fifo[0]
		}
		if a.firstErr != nil {
			a.afterErr++
		}
	case "handled":
		if len(a.fifo) > 0 {
			a.unprocessed -= a.fifo[0]
			a.fifo = a.fifo[1:]
		}
		a.inHandler = 0
		a.handled++
	case "error":
		if a.firstErr == nil {
			a.firstErr = e.Err
		}
	}
}

// handledCount is the number of `handled` events seen (handler returned).
func (a *account) handledCount() int {
	a.mu.Lock()
	defer a.mu.Unlock()
	return a.handled
}

func newAccount() *account {
	return &account{lens: map[protocol.Message]int{}, limitSeen: map[int]int{}}
}

// segmentize packs a byte stream into muxer segments for protocol id.
func segmentize(stream []byte, id uint16, response bool, r *core.Rand) []byte {
	var out []byte
	for len(stream) > 0 {
		n := 65535
		if r != nil && r.Chance(1, 3) {
			n = r.Range(1, 65535)
		}
		if n > len(stream) {
			n = len(stream)
		}
		out = append(out, netsim.EncodeSeg(id, response, stream[:n])...)
		stream = stream[n:]
	}
	return out
}

func bucket(n, limit int) int {
	if limit <= 0 {
		return 0
	}
	return n * 8 / limit
}

func dbg(format string, a ...any) {
	if os.Getenv("VERIF_DEBUG") != "" {
		fmt.Fprintf(os.Stderr, time.Now().Format("15:04:05.000 ")+format+"\n", a...)
	}
}

func run(c *core.Ctx) {
	limits := []int{1024, 65536, 462000, 2500000}
	if os.Getenv("VERIF_C13_ONLY") == "never" {
		neverCompleteCase(c, 0, c.Rand("never", 0))
		neverCompleteCase(c, 1, c.Rand("never", 1))
		return
	}
	n := c.N(4, 300)
	i := 0
	for _, lim := range limits {
		nn := n
		if c.Quick() && lim > 1<<20 {
			nn = 1 // each costs several MB through a -race pipeline
		}
		if c.Quick() && lim == 462000 {
			nn = 3
		}
		for k := 0; k < nn; k++ {
			floodCase(c, i, c.Rand("flood", i), lim)
			i++
		}
	}
	for k := 0; k < c.N(6, 400); k++ {
		twoStateCase(c, k, c.Rand("two", k))
	}
	ti := 0
	for _, lim := range []int{1024, 65536} {
		for k := 0; k < c.N(3, 60); k++ {
			tightCase(c, ti, c.Rand("tight", ti), lim)
			ti++
		}
	}
	gi := 0
	for _, lim := range []int{1024, 65536, 462000} {
		for k := 0; k < c.N(3, 60); k++ {
			gatedCase(c, gi, c.Rand("gated", gi), lim)
			gi++
		}
	}
	for k := 0; k < c.N(2, 200); k++ {
		blockFetchFlood(c, k, c.Rand("bf", k))
	}
	for _, lim := range limits {
		deltas := []int{-1, 0, 1, 7, 1000}
		if c.Quick() && lim > 1<<20 {
			deltas = []int{0, 1}
		}
		for _, delta := range deltas {
			oversizedCase(c, lim, delta)
		}
	}
	// The never-completing message needs 16 MiB through the endpoint, and the
	// endpoint re-scans its whole read buffer on every segment (about 2 GB of
	// copying under -race): thorough tier only.
	c.Note("never_complete_cases_run", c.N(0, 6))
	for k := 0; k < c.N(0, 6); k++ {
		neverCompleteCase(c, k, c.Rand("never", k))
	}
}

type rxRig struct {
	ca, cb *netsim.Conn
	rig    *protorig.Rig
	ep     *protocol.Protocol
	acc    *account
	trace  *protorig.Trace
	n      atomic.Int64
}

// newRx builds a receiving endpoint on side B; the raw peer writes on rig.CA.
// The B-side muxer is real, the A-side muxer is not used (raw writes).
func newRx(cfg protocol.ProtocolConfig, handlerDelay func(i int64)) *rxRig {
	x := &rxRig{acc: newAccount()}
	x.rig = protorig.NewRig()
	x.ca, x.cb = x.rig.CA, x.rig.CB
	cfg.MessageHandlerFunc = func(m protocol.Message) error {
		i := x.n.Add(1)
		if handlerDelay != nil {
			handlerDelay(i)
		}
		return nil
	}
	x.ep = x.rig.Endpoint(1, cfg)
	x.trace = protorig.StartTrace(func(e protorig.Ev) { x.acc.onEvent(e, x.ep) })
	x.ep.Start()
	x.rig.MB.Start() // only B reads; A's muxer stays idle so that raw writes on CA are not mixed with muxer traffic
	return x
}

func (x *rxRig) close() {
	x.trace.Stop()
	x.ep.Stop()
	x.rig.Close()
}

func (x *rxRig) progress() int64 {
	return x.n.Load()*7 + int64(x.cb.ReadCount()) + int64(x.ca.Written())
}

func delayFunc(r *core.Rand, mode int) func(int64) {
	var mu sync.Mutex
	return func(i int64) {
		mu.Lock()
		k := r.Intn(100)
		mu.Unlock()
		switch mode {
		case 0: // steady slow
			time.Sleep(200 * time.Microsecond)
		case 1: // bursts of stalls
			if k < 5 {
				time.Sleep(3 * time.Millisecond)
			}
		case 2: // mostly fast
			if k < 2 {
				time.Sleep(1 * time.Millisecond)
			}
		}
	}
}

func finish(c *core.Ctx, label string, x *rxRig, sent int, limit int, wit map[string]any) {
	ok, frozen := protorig.WaitUntil(func() bool {
		return x.acc.handledCount() >= sent || len(x.rig.ErrB) > 0
	}, x.progress, quiet, hard)
	_, eb := x.rig.ProtoErrors()
	_, mb := x.rig.MuxErrors()
	handled := x.acc.handledCount()
	x.close()
	c.Eval()
	a := x.acc
	a.mu.Lock()
	defer a.mu.Unlock()
	c.Count("admit_events", a.admits)
	c.Count("handled_events", a.handled)
	c.Count("admissions_with_backlog", a.waits)
	if a.violation != "" {
		c.Violation("C13:"+label+":limit-exceeded", a.violation, wit)
	}
	if len(eb)+len(mb) > 0 {
		c.Violation("C13:"+label+":error-on-valid-flood", fmt.Sprintf("a fast valid sender caused an error instead of being slowed down: proto=%v mux=%v (handled %d of %d)", eb, mb, handled, sent), wit)
		return
	}
	if !ok {
		if frozen {
			wit["parked_goroutines"] = protorig.LastParked
			c.Violation("C13:"+label+":stalled", fmt.Sprintf("handled %d of %d messages, then nothing moved for 30 s and every library goroutine is parked (deadlock in back-pressure?)", handled, sent), wit)
		} else {
			c.Inconclusive(label + ": watchdog")
		}
		return
	}
	if a.admits != sent || a.handled != sent {
		c.Violation("C13:"+label+":conservation", fmt.Sprintf("sent %d messages, admitted %d, handled %d", sent, a.admits, a.handled), wit)
	}
	if a.waits > 0 {
		c.Distinct(label, limit, bucket(a.maxSeen, limit), a.waits/50)
		c.Count("cases_with_backpressure", 1)
	}
	wit["max_unprocessed"] = a.maxSeen
	wit["admissions_with_backlog"] = a.waits
	if c.SampleN() < 6 && a.waits > 0 {
		c.Sample(wit)
	}
}

// tightCase: every message is larger than half the limit, so at most one fits
// and the reader has to wait for the release of its predecessor each time; the
// handler is fast, and the reader is delayed at the perturbation point between
// its limit check and its wait, so that the release (and whatever wake-up
// signal goes with it) falls exactly into that window. A reader that can miss
// the wake-up parks forever (bounded progress: stalled with everything parked).
func tightCase(c *core.Ctx, idx int, r *core.Rand, limit int) {
	c.Journal("C13 tight case %d limit %d", idx, limit)
	dbg("tight %d limit %d", idx, limit)
	cfg := protocol.ProtocolConfig{
		Name: "vstream", ProtocolId: protoID, Mode: protocol.ProtocolModeNodeToNode, Role: protocol.ProtocolRoleServer,
		MessageFromCborFunc: protorig.FromCbor, StateMap: protorig.StreamMap(limit, 0), InitialState: protorig.StStream,
	}
	var waits atomic.Int64
	pr := r.Fork(9)
	var mu sync.Mutex
	protocol.VerifSetPoint(func(name string, _ *protocol.Protocol) {
		if name != "read.backpressureWait" {
			return
		}
		waits.Add(1)
		mu.Lock()
		k := pr.Intn(4)
		mu.Unlock()
		switch k {
		case 0:
			runtime.Gosched()
		default:
			time.Sleep(time.Duration(200*k) * time.Microsecond)
		}
	})
	defer protocol.VerifSetPoint(nil)
	x := newRx(cfg, nil)
	count := r.Range(40, 120)
	var stream []byte
	for i := 0; i < count; i++ {
		enc := limit/2 + 1 + r.Intn(limit/2)
		pl := enc - protorig.EncodedOverhead(enc)
		m := protorig.Encoded(0, make([]byte, pl))
		for len(m) > limit {
			pl--
			m = protorig.Encoded(0, make([]byte, pl))
		}
		stream = append(stream, m...)
	}
	go x.ca.Write(segmentize(stream, protoID, false, r.Fork(2)))
	wit := map[string]any{"case": idx, "seed": c.Seed, "limit": limit, "messages": count, "bytes": len(stream), "scenario": "tight"}
	finish(c, "tight", x, count, limit, wit)
	c.Count("backpressure_wait_iterations", int(waits.Load()))
}

func (a *account) admitCount() int {
	a.mu.Lock()
	defer a.mu.Unlock()
	return a.admits
}

// gatedCase applies deterministic pressure: the handler holds every third
// message until the reader has stopped admitting (it is parked in the
// back-pressure wait, or everything was admitted), so the backlog is as large
// as the endpoint allows it to become. Messages are about a third of the limit,
// so the receive queue (55 messages) could hold many times the limit.
func gatedCase(c *core.Ctx, idx int, r *core.Rand, limit int) {
	c.Journal("C13 gated case %d limit %d", idx, limit)
	dbg("gated %d limit %d", idx, limit)
	cfg := protocol.ProtocolConfig{
		Name: "vstream", ProtocolId: protoID, Mode: protocol.ProtocolModeNodeToNode, Role: protocol.ProtocolRoleServer,
		MessageFromCborFunc: protorig.FromCbor, StateMap: protorig.StreamMap(limit, 0), InitialState: protorig.StStream,
	}
	var x *rxRig
	var holds atomic.Int64
	gate := func(i int64) {
		if i%3 != 1 {
			return
		}
		holds.Add(1)
		// wait until no admission happened for 150 ms (at most 3 s)
		last, since := x.acc.admitCount(), time.Now()
		for start := time.Now(); time.Since(start) < 3*time.Second; {
			time.Sleep(5 * time.Millisecond)
			if n := x.acc.admitCount(); n != last {
				last, since = n, time.Now()
			} else if time.Since(since) > 150*time.Millisecond {
				return
			}
		}
	}
	x = newRx(cfg, gate)
	count := r.Range(12, 24)
	var stream []byte
	for i := 0; i < count; i++ {
		enc := limit/3 - r.Intn(limit/16+1)
		if r.Chance(1, 6) {
			enc = limit / 2
		}
		pl := enc - protorig.EncodedOverhead(enc)
		if pl < 0 {
			pl = 0
		}
		stream = append(stream, protorig.Encoded(0, make([]byte, pl))...)
	}
	go x.ca.Write(segmentize(stream, protoID, false, r.Fork(2)))
	wit := map[string]any{"case": idx, "seed": c.Seed, "limit": limit, "messages": count, "bytes": len(stream), "scenario": "gated"}
	finish(c, "gated", x, count, limit, wit)
	c.Count("gated_handler_holds", int(holds.Load()))
}

func floodCase(c *core.Ctx, idx int, r *core.Rand, limit int) {
	c.Journal("C13 flood case %d limit %d", idx, limit)
	dbg("flood %d limit %d", idx, limit)
	cfg := protocol.ProtocolConfig{
		Name: "vstream", ProtocolId: protoID, Mode: protocol.ProtocolModeNodeToNode, Role: protocol.ProtocolRoleServer,
		MessageFromCborFunc: protorig.FromCbor, StateMap: protorig.StreamMap(limit, 0), InitialState: protorig.StStream,
	}
	if r.Bool() {
		cfg.RecvQueueSize = r.Range(1, 10)
	}
	mode := r.Intn(3)
	x := newRx(cfg, delayFunc(r.Fork(1), mode))
	x.cb.SetReadChunks(nil)
	// messages: total volume ~ 6x limit (bounded), sizes in [1, limit] encoded
	budget := 6 * limit
	if budget > 6<<20 {
		budget = 6 << 20
	}
	if c.Quick() && budget > 1<<20 && limit < 1<<20 {
		budget = 1 << 20
	}
	if c.Quick() && budget > 4<<20 {
		budget = 4 << 20
	}
	var stream []byte
	count := 0
	for budget > 0 && count < 3000 {
		var enc int
		switch r.Intn(6) {
		case 0:
			enc = limit // exactly the limit
		case 1:
			enc = r.Range(limit/2, limit)
		default:
			enc = r.Range(4, max(4, limit/8))
		}
		pl := enc - protorig.EncodedOverhead(enc)
		if pl < 0 {
			pl = 0
		}
		m := protorig.Encoded(0, make([]byte, pl))
		for len(m) > limit { // header size class boundary
			pl--
			m = protorig.Encoded(0, make([]byte, pl))
		}
		stream = append(stream, m...)
		budget -= len(m)
		count++
	}
	wire := segmentize(stream, protoID, false, r.Fork(2))
	go x.ca.Write(wire)
	wit := map[string]any{"case": idx, "seed": c.Seed, "limit": limit, "messages": count, "bytes": len(stream), "handler_mode": mode}
	finish(c, "flood", x, count, limit, wit)
}

// twoStateCase: a ping-pong map whose Busy state (peer = server has agency, we
// are the client) has a small limit and whose Idle state has none: the peer
// streams type-3 messages while we are Busy, then replies.
func twoStateCase(c *core.Ctx, idx int, r *core.Rand) {
	c.Journal("C13 two-state case %d", idx)
	dbg("two-state %d", idx)
	busyLimit := []int{2048, 70000}[r.Intn(2)]
	cfg := protocol.ProtocolConfig{
		Name: "vpingpong", ProtocolId: protoID, Mode: protocol.ProtocolModeNodeToNode, Role: protocol.ProtocolRoleClient,
		MessageFromCborFunc: protorig.FromCbor, StateMap: protorig.PingPongMap(0, busyLimit, 0, 0), InitialState: protorig.StIdle,
	}
	x := newRx(cfg, delayFunc(r.Fork(1), r.Intn(3)))
	rounds := r.Range(2, 6)
	total := 0
	bad := ""
	for rd := 0; rd < rounds && bad == ""; rd++ {
		// we (client) send the request through the real engine; A's muxer is idle so read it raw from CA
		if err := x.ep.SendMessage(protorig.NewMsg(0, []byte{byte(rd)})); err != nil {
			bad = err.Error()
			break
		}
		// the peer answers with a burst of stream messages and the reply
		var stream []byte
		k := r.Range(5, 120)
		for j := 0; j < k; j++ {
			enc := r.Range(4, busyLimit/4)
			if r.Chance(1, 10) {
				enc = busyLimit
			}
			pl := enc - protorig.EncodedOverhead(enc)
			m := protorig.Encoded(3, make([]byte, max(0, pl)))
			for len(m) > busyLimit {
				pl--
				m = protorig.Encoded(3, make([]byte, pl))
			}
			stream = append(stream, m...)
		}
		stream = append(stream, protorig.Encoded(1, []byte{1})...)
		total += k + 1
		want := total
		x.ca.Write(segmentize(stream, protoID, true, r.Fork(uint64(rd))))
		ok, frozen := protorig.WaitUntil(func() bool { return x.acc.handledCount() >= want || len(x.rig.ErrB) > 0 }, x.progress, quiet, hard)
		if !ok {
			if frozen {
				bad = fmt.Sprintf("round %d: handled %d of %d, nothing moved for 30 s", rd, x.acc.handledCount(), want)
			} else {
				c.Inconclusive("two-state watchdog")
				x.close()
				return
			}
		}
		if len(x.rig.ErrB) > 0 {
			break
		}
	}
	wit := map[string]any{"case": idx, "seed": c.Seed, "busy_limit": busyLimit, "rounds": rounds}
	if bad != "" {
		x.close()
		c.Eval()
		c.Violation("C13:two-state:stalled-or-send-error", bad, wit)
		return
	}
	finish(c, "two-state", x, total, busyLimit, wit)
}

func wrapTag24(n int) []byte {
	out := []byte{0xd8, 0x18}
	switch {
	case n < 24:
		out = append(out, 0x40|byte(n))
	case n <= 0xff:
		out = append(out, 0x58, byte(n))
	case n <= 0xffff:
		out = append(out, 0x59, byte(n>>8), byte(n))
	default:
		out = append(out, 0x5a, byte(n>>24), byte(n>>16), byte(n>>8), byte(n))
	}
	return append(out, make([]byte, n)...)
}

// blockFetchFlood: the library's block-fetch client-side state map; the raw
// server streams one large batch of blocks at a slow client.
func blockFetchFlood(c *core.Ctx, idx int, r *core.Rand) {
	c.Journal("C13 blockfetch flood %d", idx)
	dbg("bf %d", idx)
	sm := blockfetch.StateMap.Copy()
	for k, e := range sm {
		e.Timeout, e.TimeoutFunc = 0, nil
		sm[k] = e
	}
	cfg := protocol.ProtocolConfig{
		Name: blockfetch.ProtocolName, ProtocolId: blockfetch.ProtocolId, Mode: protocol.ProtocolModeNodeToNode, Role: protocol.ProtocolRoleClient,
		MessageFromCborFunc: blockfetch.NewMsgFromCbor, StateMap: sm, InitialState: blockfetch.StateIdle,
		RecvQueueSize: blockfetch.DefaultRecvQueueSize,
	}
	x := newRx(cfg, delayFunc(r.Fork(1), r.Intn(2)))
	// request through the real engine (so that the client is in Busy)
	if err := x.ep.SendMessage(blockfetch.NewMsgRequestRange(pt(1), pt(2))); err != nil {
		x.close()
		c.Inconclusive("blockfetch flood: cannot send request: " + err.Error())
		return
	}
	var stream []byte
	add := func(m protocol.Message) {
		b, err := encode(m)
		if err != nil {
			panic(err)
		}
		stream = append(stream, b...)
	}
	add(blockfetch.NewMsgStartBatch())
	budget := c.N(4<<20, 12<<20)
	count := 1
	for budget > 0 {
		sz := r.Range(200, 90000)
		if r.Chance(1, 12) {
			sz = r.Range(300000, 1200000)
		}
		add(blockfetch.NewMsgBlock(wrapTag24(sz)))
		budget -= sz
		count++
	}
	add(blockfetch.NewMsgBatchDone())
	count++
	go x.ca.Write(segmentize(stream, blockfetch.ProtocolId, true, r.Fork(2)))
	wit := map[string]any{"case": idx, "seed": c.Seed, "messages": count, "bytes": len(stream), "limit": blockfetch.StreamingMaxPendingMessageBytes}
	finish(c, "blockfetch", x, count, blockfetch.StreamingMaxPendingMessageBytes, wit)
}

func pt(n uint64) pcommon.Point {
	h := make([]byte, 32)
	h[0] = byte(n)
	return pcommon.NewPoint(n, h)
}

func encode(m protocol.Message) ([]byte, error) {
	if b := m.Cbor(); b != nil {
		return b, nil
	}
	return cbor.Encode(m)
}

var reBufSize = regexp.MustCompile(`\((\d+) bytes\)`)

// oversizedCase: one message of encoded length limit+delta. delta <= 0 must be
// handled, delta > 0 must end the protocol with an error.
func oversizedCase(c *core.Ctx, limit, delta int) {
	c.Journal("C13 oversized limit %d delta %d", limit, delta)
	dbg("oversized %d %d", limit, delta)
	cfg := protocol.ProtocolConfig{
		Name: "vstream", ProtocolId: protoID, Mode: protocol.ProtocolModeNodeToNode, Role: protocol.ProtocolRoleServer,
		MessageFromCborFunc: protorig.FromCbor, StateMap: protorig.StreamMap(limit, 0), InitialState: protorig.StStream,
	}
	x := newRx(cfg, nil)
	enc := limit + delta
	pl := enc - protorig.EncodedOverhead(enc)
	m := protorig.Encoded(0, make([]byte, pl))
	for len(m) > enc {
		pl--
		m = protorig.Encoded(0, make([]byte, pl))
	}
	for len(m) < enc {
		pl++
		m = protorig.Encoded(0, make([]byte, pl))
	}
	if len(m) != enc {
		// size class boundary makes this exact length unreachable; skip
		x.close()
		return
	}
	// a small valid message first, then the probe, then another small one
	small := protorig.Encoded(0, []byte{1, 2, 3})
	stream := append(append(append([]byte{}, small...), m...), small...)
	go x.ca.Write(segmentize(stream, protoID, false, nil))
	wantHandled := 3
	ok, frozen := protorig.WaitUntil(func() bool {
		return x.acc.handledCount() >= wantHandled || len(x.rig.ErrB) > 0
	}, x.progress, quiet, hard)
	_, eb := x.rig.ProtoErrors()
	handled := x.acc.handledCount()
	done := true
	if len(eb) > 0 {
		done = protorig.WaitDone(x.ep.DoneChan(), 5*time.Second)
	}
	x.close()
	c.Eval()
	wit := map[string]any{"limit": limit, "message_bytes": enc}
	key := fmt.Sprintf("limit%+d", delta)
	if delta > 0 {
		switch {
		case len(eb) > 0:
			c.Count("oversized_rejected", 1)
			c.Distinct("oversized", limit, delta)
			if !done && handled < wantHandled {
				// error reported; protocol should also have stopped
				c.Count("oversized_error_but_not_done_within_5s", 1)
			}
			if handled >= 2 {
				c.Violation("C13:oversized:handled-despite-error:"+key, fmt.Sprintf("a %d-byte message exceeds the limit %d, an error was reported, yet %d messages were handled (the oversized one reached the application)", enc, limit, handled), wit)
			}
		case ok:
			c.Violation("C13:oversized:accepted:"+key, fmt.Sprintf("a single %d-byte message was handled although the state's limit is %d bytes", enc, limit), wit)
		case frozen:
			c.Violation("C13:oversized:no-error:"+key, fmt.Sprintf("a single %d-byte message (limit %d) produced neither an error nor progress for 30 s (livelock in the back-pressure wait)", enc, limit), wit)
		default:
			c.Inconclusive("oversized watchdog")
		}
		return
	}
	switch {
	case len(eb) > 0:
		c.Violation("C13:within-limit:rejected:"+key, fmt.Sprintf("a %d-byte message within the limit %d ended the protocol: %v", enc, limit, eb), wit)
	case ok:
		c.Count("within_limit_accepted", 1)
		c.Distinct("within", limit, delta)
	case frozen:
		c.Violation("C13:within-limit:stalled:"+key, fmt.Sprintf("a %d-byte message within the limit %d was never handled", enc, limit), wit)
	default:
		c.Inconclusive("within-limit watchdog")
	}
}

// neverCompleteCase: the peer announces a byte string far larger than it ever
// sends and keeps streaming; the endpoint must give up with an error once its
// read buffer passes 16 MiB.
func neverCompleteCase(c *core.Ctx, idx int, r *core.Rand) {
	c.Journal("C13 never-complete case %d", idx)
	dbg("never %d", idx)
	limit := []int{0, 2500000}[idx%2]
	cfg := protocol.ProtocolConfig{
		Name: "vstream", ProtocolId: protoID, Mode: protocol.ProtocolModeNodeToNode, Role: protocol.ProtocolRoleServer,
		MessageFromCborFunc: protorig.FromCbor, StateMap: protorig.StreamMap(limit, 0), InitialState: protorig.StStream,
	}
	x := newRx(cfg, nil)
	// [0, bytes(2^31-1) ...
	head := []byte{0x82, 0x00, 0x5a, 0x7f, 0xff, 0xff, 0xff}
	const maxBuf = 16 * 1024 * 1024
	total := maxBuf + 40*65535 // enough to cross the bound and then some
	stop := make(chan struct{})
	go func() {
		first := true
		sent := 0
		chunk := make([]byte, 65535)
		for sent < total {
			select {
			case <-stop:
				return
			default:
			}
			pl := chunk
			if first {
				pl = append(append([]byte{}, head...), chunk[:65535-len(head)]...)
				first = false
			}
			if _, err := x.ca.Write(netsim.EncodeSeg(protoID, false, pl)); err != nil {
				return
			}
			sent += len(pl)
		}
	}()
	ok, frozen := protorig.WaitUntil(func() bool { return len(x.rig.ErrB) > 0 }, x.progress, quiet, hard)
	_, eb := x.rig.ProtoErrors()
	consumed := x.cb.ReadCount()
	close(stop)
	x.close()
	c.Eval()
	wit := map[string]any{"case": idx, "limit": limit, "bytes_consumed_from_connection": consumed}
	switch {
	case ok && len(eb) > 0:
		c.Count("never_complete_rejected", 1)
		c.Distinct("never-complete", limit)
		txt := eb[0].Error()
		if m := reBufSize.FindStringSubmatch(txt); m != nil {
			if n, err := strconv.Atoi(m[1]); err == nil {
				c.Note("read_buffer_size_at_error", n)
				if n > maxBuf+65535 {
					c.Violation("C13:never-complete:buffer-overshoot", fmt.Sprintf("read buffer had grown to %d bytes when the endpoint gave up (bound 16 MiB + one segment)", n), wit)
				}
			}
		}
		// the muxer may have read a few more segments into the channel; allow 16 segments of slack
		if consumed > maxBuf+32*65543 {
			c.Violation("C13:never-complete:kept-reading", fmt.Sprintf("%d bytes were consumed from the connection before the endpoint gave up on an incomplete message (bound 16 MiB)", consumed), wit)
		}
	case frozen:
		c.Violation("C13:never-complete:no-error", fmt.Sprintf("an incomplete message kept growing (%d bytes consumed) and no error was reported; nothing moved for 30 s", consumed), wit)
	default:
		if consumed >= total {
			c.Violation("C13:never-complete:no-error", fmt.Sprintf("all %d bytes of a never-completing message were consumed without an error", consumed), wit)
		} else {
			c.Inconclusive("never-complete watchdog")
		}
	}
}
