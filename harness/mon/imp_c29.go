//go:build only_c29

package mon

import _ "verifharness/mon/c29"
