//go:build only_c25

package mon

import _ "verifharness/mon/c25"
