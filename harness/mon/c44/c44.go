// Package c44 monitors C44: a Submit that returns an error (its context ends
// while the pipeline applies back-pressure) does not prevent blocks submitted
// successfully afterwards from being applied.
//
// Fault enumeration: for every position k of a 30-block sequence and 1..3
// consecutive failing submissions starting at k, the pipeline is filled up to
// its capacity behind a closed gate (ApplyFunc or the decode workers wait for a
// permit), the doomed Submit calls block on the full input channel and have
// their context cancelled while blocked, the gate is opened and the rest of
// the sequence is submitted. Oracle: bounded progress of the apply count.
package c44

import (
	"context"
	"fmt"
	"strings"
	"sync"
	"sync/atomic"
	"time"

	"github.com/blinklabs-io/gouroboros/pipeline"

	"verifharness/core"
	"verifharness/mon/c42/pipex"
)

func init() {
	core.Register(&core.Monitor{
		ID:    "C44",
		Race:  true,
		Level: "fault_enumeration",
		Rule: "30 unique corpus blocks submitted in order by one submitter; fault = f in 1..3 consecutive Submit calls starting at position k whose context is cancelled while the call is blocked on the full input channel " +
			"(pipeline filled to capacity behind a gate: ApplyFunc waiting for a permit, PrefetchBufferSize 1..2, 1..2 decode workers; for k below that capacity the decode workers are gated instead, and for k < 2 the context is cancelled before the call); " +
			"quick: every 3rd k x f=1..3, thorough: every k x f x both buffer sizes; plus fault-free control cases; " +
			"concurrent family: pipeline full behind the gated ApplyFunc, m in 2..4 goroutines enter Submit one after the other, each observed parked in Submit (goroutine dump) before the next starts, " +
			"then the context of the caller at every entry position (1st / middle / last, and pairs in both orders) is cancelled, the gate opens, the others must return nil and the rest of the sequence is submitted; " +
			"a case is non-trivial when at least one Submit really returned an error and at least one later Submit of a good block returned nil (the last block is always good); distinct by (k, f, gate, buffer, workers)",
		MinNontrivial: 30,
		RaceAnchors:   []string{"pipeline.(*ApplyStage)", "pipeline.(*BlockPipeline)", "pipeline.(*StageWorkerPool)", "pipeline.(*ApplyStageRunner)"},
		Assumptions: []string{
			"bounded progress: a case is a violation only when the apply counter is frozen, every goroutine started by the pipeline is parked on a channel operation in consecutive world-stopped dumps with no event in between, and accepted blocks are still unapplied (PendingCount() and the missing results are recorded); a watchdog expiry is inconclusive",
			"the harness drains Results() and Errors() continuously",
		},
		QuickTimeout:    600,
		ThoroughTimeout: 4 * 3600,
		Run:             run,
	})
}

const seqLen = 30

type fcase struct {
	Idx     int    `json:"case"`
	K       int    `json:"k"`
	F       int    `json:"failures"`
	Gate    string `json:"gate"` // apply | decode | precancelled | none
	Buf     int    `json:"buffer"`
	DecodeW int    `json:"decode_workers"`
	BadIDs  []int  `json:"corrupted_ids"`
	Conc    int    `json:"concurrent_submitters,omitempty"` // >0: concurrent family, this many goroutines blocked in Submit
	Victims []int  `json:"cancelled_positions,omitempty"`   // entry positions (0 = first to enter Submit) whose context is cancelled

	blk   []pipex.Blk
	class []pipex.Class
}

// capacity: how many accepted blocks fit into the pipeline while the gate is shut
func (fc *fcase) capacity() int {
	switch fc.Gate {
	case "apply":
		// 1 inside ApplyFunc + decodedChan + one per decode worker (blocked on send) + submitChan
		return 1 + fc.Buf + fc.DecodeW + fc.Buf
	case "decode":
		return fc.DecodeW + fc.Buf
	}
	return 0
}

type outcome struct {
	evs           []pipex.Event
	startErr      error
	achieved      int // Submit calls that returned an error
	planned       int
	notFull       int // doomed Submit that went through because the pipeline was not full
	blockedSeen   int // doomed Submit observed parked in select before its context was cancelled
	progress      string
	pendingCount  int
	dump          []string
	stopOK        bool
	fillProblem   string
	concParked    int // concurrent family: goroutines observed parked in Submit before the cancellations
	blockedSubmit int // id of a background-context Submit found stuck with the gate open (-1 none)
}

// submitParked counts goroutines parked in a select inside Submit (on the full
// input channel, or on the way to it).
func submitParked() int {
	k := 0
	for _, g := range pipex.Goroutines() {
		if g.State != "select" {
			continue
		}
		for _, fn := range g.Funcs {
			if strings.HasSuffix(fn, "pipeline.(*BlockPipeline).Submit") {
				k++
				break
			}
		}
	}
	return k
}

func submitBlocked() bool {
	for _, g := range pipex.Goroutines() {
		if g.State != "select" {
			continue
		}
		for _, fn := range g.Funcs {
			if strings.HasSuffix(fn, "pipeline.(*BlockPipeline).Submit") {
				return true
			}
		}
	}
	return false
}

func execute(fc *fcase) *outcome {
	out := &outcome{planned: fc.F, blockedSubmit: -1}
	if fc.Conc > 0 {
		out.planned = len(fc.Victims)
	}
	log := pipex.NewLog()
	n := seqLen
	// ids from gateID on wait at the gate (inside ApplyFunc, or in the decode worker) until it opens
	gateID := n + 1
	if (fc.F > 0 || fc.Conc > 0) && (fc.Gate == "apply" || fc.Gate == "decode") {
		gateID = fc.K - fc.capacity()
	}
	gate := pipex.NewHold()
	var nApplied atomic.Int64

	hook := func(name string, it *pipeline.BlockItem) {
		rn, id := pipex.ItemID(it)
		if rn != fc.Idx || id < 0 || id >= n {
			return
		}
		pt, ok := pipex.PointIndex(name)
		if !ok {
			return
		}
		log.Add(pipex.Point, id, pt, int64(it.SequenceNumber()), nil)
		if fc.Gate == "decode" && pt == pipex.PtDecodeTake && id >= gateID {
			pipex.HoldWait(gate)
		}
	}
	applyFn := func(it *pipeline.BlockItem) error {
		rn, id := pipex.ItemID(it)
		if rn != fc.Idx || id < 0 || id >= n {
			return nil
		}
		seq := int64(it.SequenceNumber())
		log.Add(pipex.ApplyCall, id, pipex.PtApplyFunc, seq, nil)
		if fc.Gate == "apply" && id >= gateID {
			pipex.HoldWait(gate)
		}
		nApplied.Add(1)
		log.Add(pipex.ApplyRet, id, pipex.PtApplyFunc, seq, nil)
		return nil
	}
	p := pipeline.NewBlockPipeline(
		pipeline.WithDecodeWorkers(fc.DecodeW),
		pipeline.WithValidateWorkers(0),
		pipeline.WithPrefetchBufferSize(fc.Buf),
		pipeline.WithApplyFunc(applyFn),
	)
	pipeline.VerifSetPoint(hook)
	defer pipeline.VerifSetPoint(nil)
	if err := p.Start(context.Background()); err != nil {
		out.startErr = err
		return out
	}
	var nResults atomic.Int64
	quit := make(chan struct{})
	var collectors sync.WaitGroup
	resCh, errCh := p.Results(), p.Errors()
	collectors.Add(2)
	go func() {
		defer collectors.Done()
		for {
			select {
			case it, ok := <-resCh:
				if !ok {
					return
				}
				_, id := pipex.ItemID(it)
				log.Add(pipex.Result, id, 0, int64(it.SequenceNumber()), nil)
				nResults.Add(1)
			case <-quit:
				return
			}
		}
	}()
	go func() {
		defer collectors.Done()
		for {
			select {
			case e, ok := <-errCh:
				if !ok {
					return
				}
				log.Add(pipex.ErrorEv, -1, 0, -1, e)
			case <-quit:
				return
			}
		}
	}()

	okGood := 0
	okAll := 0
	gateOpen := false
	submitOK := func(id int) bool {
		b := fc.blk[id]
		log.Add(pipex.SubmitCall, id, 0, -1, nil)
		done := make(chan error, 1)
		go func() { done <- p.Submit(context.Background(), b.Type, b.Cbor, pipex.Tip(fc.Idx, id)) }()
		var err error
		got := false
		r := pipex.Await(log, func() bool {
			if got {
				return true
			}
			select {
			case err = <-done:
				got = true
			default:
			}
			return got
		}, 200*time.Millisecond, 30*time.Second)
		if r != "ok" {
			log.Add(pipex.SubmitRet, id, 0, -1, fmt.Errorf("harness: Submit still blocked (%s)", r))
			if r == "stalled" && gateOpen {
				// the gate is open, nothing moves, and a Submit with a background context is stuck
				out.blockedSubmit = id
				out.progress = "stalled"
			} else {
				out.fillProblem = fmt.Sprintf("Submit(id %d) with a background context did not return (%s, gate open=%v)", id, r, gateOpen)
			}
			return false
		}
		log.Add(pipex.SubmitRet, id, 0, -1, err)
		if err == nil {
			okAll++
			if fc.class[id] == pipex.Good {
				okGood++
			}
		}
		return true
	}
	submitDoomed := func(id int) {
		b := fc.blk[id]
		ctx, cancel := context.WithCancel(context.Background())
		defer cancel()
		if fc.Gate == "precancelled" {
			cancel()
		}
		log.Add(pipex.SubmitCall, id, 0, -1, nil)
		done := make(chan error, 1)
		go func() { done <- p.Submit(ctx, b.Type, b.Cbor, pipex.Tip(fc.Idx, id)) }()
		var err error
		if fc.Gate == "precancelled" {
			err = <-done
		} else {
			// wait until the call is parked in its select on the full channel, then end its context
			deadline := time.Now().Add(10 * time.Second)
		wait:
			for {
				select {
				case err = <-done:
					// went through: the pipeline was not full
					break wait
				default:
				}
				if submitBlocked() {
					out.blockedSeen++
					cancel()
					err = <-done
					break
				}
				if time.Now().After(deadline) {
					cancel()
					err = <-done
					break
				}
				time.Sleep(200 * time.Microsecond)
			}
		}
		log.Add(pipex.SubmitRet, id, 0, -1, err)
		if err != nil {
			out.achieved++
		} else {
			out.notFull++
			okAll++
			if fc.class[id] == pipex.Good {
				okGood++
			}
		}
	}

	id := 0
	for ; id < fc.K && out.fillProblem == ""; id++ {
		if !submitOK(id) {
			break
		}
	}
	if fc.Conc > 0 && out.fillProblem == "" {
		// Concurrent family: the pipeline is full behind the gate; Conc goroutines enter
		// Submit one after the other, each observed parked in Submit before the next
		// starts (so position j is the j-th to have entered); then the contexts of the
		// victims are cancelled, the gate opens and the others must complete.
		type csub struct {
			id     int
			cancel context.CancelFunc
			done   chan error
			got    bool
			err    error
		}
		poll := func(cond func() bool) bool {
			deadline := time.Now().Add(10 * time.Second)
			for !cond() {
				if time.Now().After(deadline) {
					return false
				}
				time.Sleep(200 * time.Microsecond)
			}
			return true
		}
		if !pipex.Settle(log, 4, 10*time.Second) {
			out.fillProblem = "pipeline did not come to rest behind the gate"
		}
		var subs []*csub
		for j := 0; j < fc.Conc && out.fillProblem == ""; j++ {
			b := fc.blk[id]
			ctx, cancel := context.WithCancel(context.Background())
			cs := &csub{id: id, cancel: cancel, done: make(chan error, 1)}
			subs = append(subs, cs)
			log.Add(pipex.SubmitCall, id, 0, -1, nil)
			go func(sid int) { cs.done <- p.Submit(ctx, b.Type, b.Cbor, pipex.Tip(fc.Idx, sid)) }(id)
			id++
			want := len(subs)
			if !poll(func() bool { return len(cs.done) > 0 || submitParked() >= want }) || len(cs.done) > 0 {
				out.fillProblem = fmt.Sprintf("concurrent Submit %d did not park on the full pipeline", j)
			}
		}
		out.concParked = submitParked()
		collect := func(cs *csub) {
			cs.err, cs.got = <-cs.done, true
			log.Add(pipex.SubmitRet, cs.id, 0, -1, cs.err)
			if cs.err != nil {
				out.achieved++
			} else {
				okAll++
				if fc.class[cs.id] == pipex.Good {
					okGood++
				}
			}
		}
		if out.fillProblem == "" {
			for _, v := range fc.Victims {
				subs[v].cancel()
				if !poll(func() bool { return len(subs[v].done) > 0 }) {
					out.fillProblem = fmt.Sprintf("cancelled Submit (position %d) did not return", v)
					break
				}
				collect(subs[v])
			}
		}
		gate.Release()
		gateOpen = true
		if out.fillProblem == "" {
			r := pipex.Await(log, func() bool {
				for _, cs := range subs {
					if !cs.got && len(cs.done) == 0 {
						return false
					}
				}
				return true
			}, 200*time.Millisecond, 30*time.Second)
			for _, cs := range subs {
				if !cs.got && len(cs.done) > 0 {
					collect(cs)
				}
			}
			switch r {
			case "stalled":
				out.progress = "stalled"
				for _, cs := range subs {
					if !cs.got {
						out.blockedSubmit = cs.id
						log.Add(pipex.SubmitRet, cs.id, 0, -1, fmt.Errorf("harness: Submit still blocked (stalled)"))
					}
				}
			case "timeout":
				out.fillProblem = "concurrent Submit calls did not return after the gate opened (watchdog)"
			}
		}
		defer func() {
			for _, cs := range subs {
				cs.cancel()
			}
		}()
	}
	if fc.Conc == 0 && fc.F > 0 && out.fillProblem == "" {
		if fc.Gate == "apply" || fc.Gate == "decode" {
			// the pipeline must be at rest and full before the doomed calls
			if !pipex.Settle(log, 4, 10*time.Second) {
				out.fillProblem = "pipeline did not come to rest behind the gate"
			}
		}
		// A doomed call that goes through (an overtaken block sat in the apply stage's
		// pending map, so one more slot was free; or the select of a pre-cancelled
		// context picked the send) is an accepted block; the next id is tried instead.
		for tries := 0; out.achieved < fc.F && tries < fc.F+4 && id < n-1 && out.fillProblem == ""; tries++ {
			submitDoomed(id)
			id++
		}
	}
	gate.Release()
	gateOpen = true
	for ; id < n && out.fillProblem == "" && out.progress == ""; id++ {
		if !submitOK(id) {
			break
		}
	}
	if out.fillProblem == "" {
		if out.progress == "" {
			out.progress = pipex.Await(log, func() bool {
				// the statement is about being applied: only good blocks count (a corrupted
				// block accepted after the failure is never applied anyway)
				return nApplied.Load() >= int64(okGood)
			}, 150*time.Millisecond, 60*time.Second)
		}
		if out.progress == "stalled" {
			// second look after a longer window: still the same counters and still parked?
			a, r, l := nApplied.Load(), nResults.Load(), log.Len()
			time.Sleep(150 * time.Millisecond)
			if !(pipex.Settle(log, 8, 2*time.Second) && nApplied.Load() == a && nResults.Load() == r && log.Len() == l) {
				out.progress = "timeout"
			}
			_, _, gs := pipex.Parked()
			out.dump = pipex.Describe(gs)
			out.pendingCount = p.PendingCount()
		}
	}
	stopDone := make(chan struct{})
	go func() {
		log.Add(pipex.StopCall, -1, 0, -1, nil)
		p.Stop()
		log.Add(pipex.StopRet, -1, 0, -1, nil)
		close(stopDone)
	}()
	out.stopOK = pipex.WaitCh(stopDone, 30*time.Second)
	close(quit)
	if out.stopOK {
		collectors.Wait()
	}
	out.evs = log.Snapshot()
	return out
}

func judge(c *core.Ctx, fc *fcase, out *outcome) {
	if out.startErr != nil {
		c.Inconclusive(fmt.Sprintf("case %d: Start: %v", fc.Idx, out.startErr))
		return
	}
	if out.fillProblem != "" {
		c.Inconclusive(fmt.Sprintf("case %d (k=%d f=%d gate=%s): %s", fc.Idx, fc.K, fc.F, fc.Gate, out.fillProblem))
		return
	}
	if out.progress == "timeout" || !out.stopOK {
		c.Inconclusive(fmt.Sprintf("case %d (k=%d f=%d): watchdog (progress=%s stop=%v)", fc.Idx, fc.K, fc.F, out.progress, out.stopOK))
		return
	}
	n := seqLen
	evs := out.evs
	type info struct {
		subCall, subRet uint64
		err             string
		pseq            int64
		applied         bool
		result          bool
	}
	inf := make([]info, n)
	for i := range inf {
		inf[i].pseq = -1
	}
	kinds := make([]int, len(pipex.KindNames))
	for _, e := range evs {
		kinds[e.K]++
		id := int(e.ID)
		if id < 0 || id >= n {
			continue
		}
		switch e.K {
		case pipex.SubmitCall:
			inf[id].subCall = e.N
		case pipex.SubmitRet:
			inf[id].subRet, inf[id].err = e.N, e.Err
		case pipex.Point:
			if e.Pt == pipex.PtSubmitAfterSeq {
				inf[id].pseq = e.PSeq
			}
		case pipex.ApplyCall:
			inf[id].applied = true
		case pipex.Result:
			inf[id].result = true
		}
	}
	for k, v := range kinds {
		c.Count("events_"+pipex.KindNames[k], v)
	}
	c.Count("cases", 1)
	c.Count("gate_"+fc.Gate, 1)
	c.Count("failed_submits_planned", out.planned)
	c.Count("failed_submits_achieved", out.achieved)
	c.Count("doomed_submit_seen_blocked_on_full_channel", out.blockedSeen)
	c.Count("doomed_submit_went_through", out.notFull)
	if fc.Conc > 0 {
		c.Count("concurrent_cases", 1)
		c.Count("concurrent_submitters_seen_parked_in_submit", out.concParked)
		c.Count(fmt.Sprintf("concurrent_m%d", fc.Conc), 1)
	}

	firstFail := uint64(0)
	minFailSeq, maxFailSeq := int64(-1), int64(-1)
	var failedIDs []int
	for id := 0; id < n; id++ {
		if inf[id].err != "" {
			failedIDs = append(failedIDs, id)
			if firstFail == 0 || inf[id].subRet < firstFail {
				firstFail = inf[id].subRet
			}
			if s := inf[id].pseq; s >= 0 {
				if minFailSeq < 0 || s < minFailSeq {
					minFailSeq = s
				}
				if s > maxFailSeq {
					maxFailSeq = s
				}
			}
		}
	}
	laterOK := 0
	var unappliedAfter, unappliedBefore, missingResult []int
	for id := 0; id < n; id++ {
		in := inf[id]
		if in.err != "" || in.subRet == 0 {
			continue
		}
		// accepted afterwards: the call returned nil after the failed call had returned
		after := firstFail != 0 && in.subRet > firstFail
		if after && fc.class[id] == pipex.Good {
			laterOK++
		}
		if !in.result {
			missingResult = append(missingResult, id)
		}
		if fc.class[id] == pipex.Good && !in.applied {
			if after {
				unappliedAfter = append(unappliedAfter, id)
			} else {
				unappliedBefore = append(unappliedBefore, id)
			}
		}
	}
	if out.achieved > 0 && laterOK > 0 {
		c.Distinct(failedIDs[0], len(failedIDs), fc.Gate, fc.Buf, fc.DecodeW, fc.Conc, fmt.Sprint(fc.Victims))
		if fc.Conc > 0 {
			c.Count("concurrent_cases_with_failure_and_later_success", 1)
		}
		if failedIDs[0] == fc.K {
			c.Count("cases_failure_at_planned_position", 1)
		}
		c.Count("cases_with_failure_and_later_success", 1)
	}
	if out.achieved == 0 {
		c.Count("cases_without_failure", 1)
	}
	// gap pattern: the failed call did take a sequence number, every applied block has a smaller one and
	// every unapplied accepted block a larger one -- the apply stage waits for exactly that number.
	gap := minFailSeq >= 0
	for id := 0; id < n; id++ {
		in := inf[id]
		if in.err != "" || in.subRet == 0 || in.pseq < 0 {
			continue
		}
		if in.applied && in.pseq > minFailSeq {
			gap = false
		}
		if !in.applied && !in.result && in.pseq < minFailSeq {
			gap = false
		}
	}
	witness := func() map[string]any {
		seqs := map[string]int64{}
		for id := 0; id < n; id++ {
			seqs[fmt.Sprint(id)] = inf[id].pseq
		}
		return map[string]any{"case": fc, "failed_ids": failedIDs, "failed_sequence_numbers": []int64{minFailSeq, maxFailSeq},
			"unapplied_after_failure": unappliedAfter, "unapplied_before_failure": unappliedBefore, "missing_results": missingResult,
			"pending_count_at_rest": out.pendingCount, "goroutines_at_rest": out.dump, "blocked_background_submit": out.blockedSubmit, "sequence_number_by_id": seqs, "events": pipex.Strings(evs, 260)}
	}
	fam := ""
	if fc.Conc > 0 {
		fam = ":concurrent-submitters"
	}
	if out.progress == "ok" {
		c.Count("cases_all_applied", 1)
		if out.achieved > 0 {
			c.Count("cases_all_applied_after_failure", 1)
		}
	} else { // stalled
		c.Count("cases_stalled", 1)
		c.Count("pending_count_at_rest_total", out.pendingCount)
		switch {
		case out.achieved == 0:
			c.Violation("C44:stall-without-failure", fmt.Sprintf("k=%d f=%d: no Submit failed, yet the pipeline came to rest with %d accepted good blocks unapplied and %d results missing (PendingCount=%d)",
				fc.K, fc.F, len(unappliedAfter)+len(unappliedBefore), len(missingResult), out.pendingCount), witness())
		case len(unappliedBefore) > 0:
			c.Violation("C44:stall-before-failure", fmt.Sprintf("k=%d f=%d: blocks accepted before the failed Submit were never applied: ids %v", fc.K, fc.F, unappliedBefore), witness())
		case len(unappliedAfter) > 0 && gap:
			c.Violation("C44:sequence-gap"+fam, fmt.Sprintf("k=%d f=%d gate=%s: Submit of ids %v failed after taking sequence numbers %d..%d; every good block accepted before was applied, none of the %d accepted afterwards (ids %v): "+
				"the apply counter is frozen, all pipeline goroutines are parked, PendingCount()=%d, %d results never arrived",
				fc.K, fc.F, fc.Gate, failedIDs, minFailSeq, maxFailSeq, len(unappliedAfter), unappliedAfter, out.pendingCount, len(missingResult)), witness())
		case len(unappliedAfter) > 0:
			c.Violation("C44:stall-after-failure"+fam, fmt.Sprintf("k=%d f=%d: blocks accepted after the failed Submit were never applied: ids %v (PendingCount=%d)", fc.K, fc.F, unappliedAfter, out.pendingCount), witness())
		}
	}
	if c.SampleN() < 6 && fc.Idx%7 == 0 {
		c.Sample(map[string]any{"case": fc, "failed_ids": failedIDs, "failed_sequence_numbers": []int64{minFailSeq, maxFailSeq}, "progress": out.progress,
			"unapplied_after_failure": unappliedAfter, "pending_count_at_rest": out.pendingCount, "events": pipex.Strings(evs, 30)})
	}
}

func run(c *core.Ctx) {
	f, err := pipex.NewFactory(c.RepoDir, c.Rand("factory"))
	if err != nil {
		c.Inconclusive("block factory: " + err.Error())
		return
	}
	type kf struct {
		k, f, buf, dw int
		conc          int
		victims       []int
	}
	var list []kf
	if c.Quick() {
		for k := 0; k < seqLen; k += 3 {
			for fl := 1; fl <= 3; fl++ {
				list = append(list, kf{k: k, f: fl, buf: 1 + (k/3)%2, dw: 1 + (k/3+fl)%2})
			}
		}
		list = append(list, kf{k: 10, f: 0, buf: 1, dw: 1}, kf{k: 20, f: 0, buf: 2, dw: 2})
	} else {
		for k := 0; k < seqLen; k++ {
			for fl := 1; fl <= 3; fl++ {
				for buf := 1; buf <= 2; buf++ {
					list = append(list, kf{k: k, f: fl, buf: buf, dw: 1 + (k+fl+buf)%2})
				}
			}
		}
		for k := 0; k < seqLen; k += 5 {
			list = append(list, kf{k: k, f: 0, buf: 1 + k%2, dw: 1 + (k/5)%2})
		}
	}
	// concurrent-submitter family: m goroutines blocked in Submit, every position (and a few pairs) cancelled
	vsets := map[int][][]int{
		2: {{0}, {1}},
		3: {{0}, {1}, {2}, {0, 1}, {1, 0}},
		4: {{0}, {1}, {2}, {3}, {0, 2}, {2, 1}},
	}
	kb := [][2]int{{6, 1}, {13, 2}}
	if c.Thorough() {
		kb = [][2]int{{4, 1}, {6, 1}, {9, 1}, {20, 1}, {6, 2}, {13, 2}, {22, 2}}
	}
	for _, e := range kb {
		for m := 2; m <= 4; m++ {
			for _, vs := range vsets[m] {
				list = append(list, kf{k: e[0], buf: e[1], dw: 1, conc: m, victims: vs})
			}
		}
	}
	if c.Thorough() {
		// the enumeration is run three times: the schedules differ
		base := list
		list = append(append(append([]kf(nil), base...), base...), base...)
	}
	planned, achievedAll := 0, true
	for i, e := range list {
		r := c.Rand("case", e.k, e.f, e.buf, e.dw, e.conc, fmt.Sprint(e.victims))
		fc := &fcase{Idx: i, K: e.k, F: e.f, Buf: e.buf, DecodeW: e.dw, Conc: e.conc, Victims: e.victims}
		fc.Gate = "apply"
		switch {
		case e.conc > 0:
		case e.f == 0:
			fc.Gate = "none"
		case e.k < 2:
			fc.Gate = "precancelled"
		case e.k < fc.capacity() || (e.k+e.f)%4 == 0:
			fc.Gate = "decode"
			if e.k < fc.capacity() {
				fc.DecodeW, fc.Buf = 1, 1
			}
		}
		fc.blk = make([]pipex.Blk, seqLen)
		fc.class = make([]pipex.Class, seqLen)
		for id := 0; id < seqLen; id++ {
			if r.Chance(1, 12) {
				fc.blk[id] = f.Bad[r.Intn(min(8, len(f.Bad)))]
			} else {
				fc.blk[id] = f.Good[r.Intn(4)]
			}
			lo := fc.K - fc.capacity()
			if ((fc.F > 0 || fc.Conc > 0) && id >= lo-1 && id < fc.K+fc.F+fc.Conc) || id == seqLen-1 {
				// the blocks that fill the pipeline and the doomed ones are good blocks
				fc.blk[id] = f.Good[r.Intn(4)]
			}
			fc.class[id] = fc.blk[id].Class
		}
		for id := 0; id < seqLen; id++ {
			if fc.class[id] == pipex.BadDecode {
				fc.BadIDs = append(fc.BadIDs, id)
			}
		}
		c.Journal("C44 case %d k=%d f=%d gate=%s buf=%d dw=%d conc=%d victims=%v", i, fc.K, fc.F, fc.Gate, fc.Buf, fc.DecodeW, fc.Conc, fc.Victims)
		out := execute(fc)
		c.Eval()
		judge(c, fc, out)
		if (e.f > 0 || e.conc > 0) && e.k+e.f < seqLen {
			planned++
			if out.achieved == 0 {
				achievedAll = false
			}
		}
	}
	c.Note("fault_cases_with_successor", planned)
	if c.Thorough() && achievedAll {
		c.SetExhaustive()
	}
}
