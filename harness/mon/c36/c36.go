// Package c36 monitors C36: era dispatch is consistent across every entry
// point.
//
// Three exhaustive parts:
//  1. ledger.DetermineBlockType on synthetic headers, protocol majors 0..64 in
//     both header layouts, judged against the per-era Min/MaxProtocolVersion
//     constants (which must be pairwise disjoint);
//  2. BlockHeaderToBlockTypeMap / BlockToBlockHeaderTypeMap are mutually
//     inverse and agree with the era ids;
//  3. every corpus block decoded as its own type T through six entry points
//     reports Type() == T and the era T belongs to, and decoded as any other
//     type either fails or reports that other type (never a third).
package c36

import (
	"context"
	"fmt"

	gcbor "github.com/blinklabs-io/gouroboros/cbor"
	"github.com/blinklabs-io/gouroboros/ledger"
	"github.com/blinklabs-io/gouroboros/ledger/allegra"
	"github.com/blinklabs-io/gouroboros/ledger/alonzo"
	"github.com/blinklabs-io/gouroboros/ledger/babbage"
	lcommon "github.com/blinklabs-io/gouroboros/ledger/common"
	"github.com/blinklabs-io/gouroboros/ledger/conway"
	"github.com/blinklabs-io/gouroboros/ledger/dijkstra"
	"github.com/blinklabs-io/gouroboros/ledger/mary"
	"github.com/blinklabs-io/gouroboros/ledger/shelley"
	"github.com/blinklabs-io/gouroboros/pipeline"
	"github.com/blinklabs-io/gouroboros/protocol/blockfetch"
	"github.com/blinklabs-io/gouroboros/protocol/chainsync"
	pcommon "github.com/blinklabs-io/gouroboros/protocol/common"

	"verifharness/cborx"
	"verifharness/core"
	"verifharness/corpus"
)

func init() {
	core.Register(&core.Monitor{
		ID: "C36",
		Rule: "exhaustive: (a) protocol major 0..64 x {15-field Shelley-like, 10-field Babbage-like} synthetic headers through DetermineBlockType (+ minor-version and neighbouring body lengths as extra cases); (b) all entries of the two header/block type maps; " +
			"(c) 11 corpus blocks x 6 entry points (NewBlockFromCbor, NewBlockFromCborWithOffsets, NewBlockHeaderFromCbor, pipeline DecodeStage, chain-sync NtC/NtN roll-forward message path, block-fetch MsgBlock/WrappedBlock path) as their own type, and x all 8 other block types through NewBlockFromCbor / NewBlockHeaderFromCbor. " +
			"Every case is non-trivial; distinct by (part, layout|entry, version|block, type)",
		MinNontrivial: 300,
		Assumptions: []string{
			"reference table block type -> era (id, name): 0,1 Byron(0); 2 Shelley(1); 3 Allegra(2); 4 Mary(3); 5 Alonzo(4); 6 Babbage(5); 7 Conway(6); 8 Dijkstra(7) (hard-fork combinator era indices)",
			"a 15-field header carrying a Babbage+ major, or a 10-field header carrying a Mary/Alonzo major, may be refused (error) or classified by the declared range; for the natural layout of an era an in-range major must be classified",
			"the protocol entry points are exercised at message level (library codecs + the same ledger calls the clients make), not over a live connection",
		},
		QuickTimeout: 300,
		Run:          run,
	})
}

type eraRef struct {
	id   uint8
	name string
}

var eraOfType = map[uint]eraRef{
	0: {0, "Byron"}, 1: {0, "Byron"}, 2: {1, "Shelley"}, 3: {2, "Allegra"}, 4: {3, "Mary"},
	5: {4, "Alonzo"}, 6: {5, "Babbage"}, 7: {6, "Conway"}, 8: {7, "Dijkstra"},
}

type verRange struct {
	name     string
	typ      uint
	min, max uint64
	layout   int // natural header body length
}

// ranges are read from the exported per-era constants of the library.
func ranges() []verRange {
	return []verRange{
		{"Shelley", ledger.BlockTypeShelley, shelley.MinProtocolVersionShelley, shelley.MaxProtocolVersionShelley, 15},
		{"Allegra", ledger.BlockTypeAllegra, allegra.MinProtocolVersionAllegra, allegra.MaxProtocolVersionAllegra, 15},
		{"Mary", ledger.BlockTypeMary, mary.MinProtocolVersionMary, mary.MaxProtocolVersionMary, 15},
		{"Alonzo", ledger.BlockTypeAlonzo, alonzo.MinProtocolVersionAlonzo, alonzo.MaxProtocolVersionAlonzo, 15},
		{"Babbage", ledger.BlockTypeBabbage, babbage.MinProtocolVersionBabbage, babbage.MaxProtocolVersionBabbage, 10},
		{"Conway", ledger.BlockTypeConway, conway.MinProtocolVersionConway, conway.MaxProtocolVersionConway, 10},
		{"Dijkstra", ledger.BlockTypeDijkstra, dijkstra.MinProtocolVersionDijkstra, dijkstra.MaxProtocolVersionDijkstra, 10},
	}
}

// synthetic headers -------------------------------------------------------

func b(n int, fill byte) *cborx.Node {
	d := make([]byte, n)
	for i := range d {
		d[i] = fill
	}
	return cborx.B(d)
}

func vrfCert() *cborx.Node { return cborx.A(b(64, 0x11), b(80, 0x22)) }

// header15: [ [block_number, slot, prev_hash, issuer_vkey, vrf_vkey, nonce_vrf,
// leader_vrf, body_size, body_hash, hot_vkey, seq, kes_period, sigma,
// proto_major, proto_minor], signature ]
func header15(major, minor uint64) []byte {
	body := cborx.A(cborx.U(100), cborx.U(2000), b(32, 1), b(32, 2), b(32, 3), vrfCert(), vrfCert(),
		cborx.U(1234), b(32, 4), b(32, 5), cborx.U(7), cborx.U(300), b(64, 6), cborx.U(major), cborx.U(minor))
	return cborx.A(body, b(448, 9)).Encode()
}

// header10: [ [block_number, slot, prev_hash, issuer_vkey, vrf_vkey, vrf_result,
// body_size, body_hash, [hot_vkey, seq, kes_period, sigma], [major, minor]], signature ]
func header10(major, minor uint64) []byte {
	body := cborx.A(cborx.U(100), cborx.U(2000), b(32, 1), b(32, 2), b(32, 3), vrfCert(),
		cborx.U(1234), b(32, 4), cborx.A(b(32, 5), cborx.U(7), cborx.U(300), b(64, 6)), cborx.A(cborx.U(major), cborx.U(minor)))
	return cborx.A(body, b(448, 9)).Encode()
}

func headerN(n int) []byte {
	var items []*cborx.Node
	for i := 0; i < n; i++ {
		items = append(items, cborx.U(uint64(i)))
	}
	return cborx.A(cborx.A(items...), b(448, 9)).Encode()
}

// headerMajor reads the protocol major of a real header with cborx.
func headerMajor(h *cborx.Node) (uint64, bool) {
	if h.Kind != cborx.Array || len(h.Items) < 1 || h.Items[0].Kind != cborx.Array {
		return 0, false
	}
	body := h.Items[0]
	switch {
	case len(body.Items) == 15 && body.Items[13].Kind == cborx.Uint:
		return body.Items[13].Arg, true
	case len(body.Items) >= 10:
		pv := body.Items[9]
		if pv.Kind == cborx.Array && len(pv.Items) >= 1 && pv.Items[0].Kind == cborx.Uint {
			return pv.Items[0].Arg, true
		}
	}
	return 0, false
}

type mon struct{ c *core.Ctx }

func (m *mon) determine(hdr []byte) (t uint, err error, panicked bool) {
	panicked, _, _ = core.Safely(func() { t, err = ledger.DetermineBlockType(hdr) })
	return
}

func (m *mon) partDetermine() {
	c := m.c
	rs := ranges()
	// declared ranges are well formed and pairwise disjoint
	for _, r := range rs {
		c.Eval()
		c.Distinct("range", r.name)
		if r.min > r.max {
			c.Violation("C36:range-empty:"+r.name, fmt.Sprintf("era %s declares MinProtocolVersion %d > MaxProtocolVersion %d", r.name, r.min, r.max), nil)
		}
	}
	for v := uint64(0); v <= 64; v++ {
		var owners []verRange
		for _, r := range rs {
			if v >= r.min && v <= r.max {
				owners = append(owners, r)
			}
		}
		c.Eval()
		c.Distinct("owners", v)
		c.Count(fmt.Sprintf("majors_owned_by_%d_eras", len(owners)), 1)
		if len(owners) > 1 {
			c.Violation("C36:range-overlap:"+owners[0].name+"+"+owners[1].name,
				fmt.Sprintf("protocol major %d lies in the declared ranges of %s and %s", v, owners[0].name, owners[1].name),
				map[string]any{"major": v})
		}
		for _, layout := range []int{15, 10} {
			for _, minor := range []uint64{0, 2} {
				var hdr []byte
				if layout == 15 {
					hdr = header15(v, minor)
				} else {
					hdr = header10(v, minor)
				}
				c.Eval()
				c.Distinct("determine", layout, v, minor)
				c.Journal("C36 DetermineBlockType layout=%d major=%d minor=%d", layout, v, minor)
				t, err, p := m.determine(hdr)
				wit := map[string]any{"layout": layout, "major": v, "minor": minor, "header_hex": core.HexFull(hdr)}
				if p {
					c.Violation(fmt.Sprintf("C36:DetermineBlockType:panic:layout%d", layout), fmt.Sprintf("panic for major %d", v), wit)
					continue
				}
				if v == 5 && minor == 0 {
					c.Sample(map[string]any{"layout": layout, "major": v, "result_type": t, "error": fmt.Sprint(err), "header_hex": core.Hex(hdr)})
				}
				if err != nil {
					c.Count("determine_errors", 1)
					// the natural layout of the owning era must classify
					if len(owners) == 1 && owners[0].layout == layout {
						c.Violation(fmt.Sprintf("C36:DetermineBlockType:refused:%s", owners[0].name),
							fmt.Sprintf("major %d is in the declared range of %s (%d..%d) but a %d-field header is refused: %v", v, owners[0].name, owners[0].min, owners[0].max, layout, err), wit)
					}
					continue
				}
				c.Count("determine_classified", 1)
				wit["result_type"] = t
				switch {
				case len(owners) == 0:
					c.Violation(fmt.Sprintf("C36:DetermineBlockType:unowned:layout%d", layout),
						fmt.Sprintf("major %d belongs to no era's declared range but a %d-field header is classified as block type %d", v, layout, t), wit)
				case len(owners) == 1 && t != owners[0].typ:
					c.Violation(fmt.Sprintf("C36:DetermineBlockType:wrong-era:%s", owners[0].name),
						fmt.Sprintf("major %d is in the declared range of %s (block type %d) but a %d-field header is classified as block type %d", v, owners[0].name, owners[0].typ, layout, t), wit)
				}
			}
		}
	}
	// other header shapes: counted only
	for _, n := range []int{0, 1, 9, 11, 14, 16} {
		c.Eval()
		c.Distinct("determine-len", n)
		_, err, p := m.determine(headerN(n))
		if p {
			c.Violation("C36:DetermineBlockType:panic:other-length", fmt.Sprintf("panic for a %d-field header body", n), nil)
		} else if err == nil {
			c.Count("determine_other_length_classified", 1)
		} else {
			c.Count("determine_other_length_refused", 1)
		}
	}
}

func (m *mon) partMaps() {
	c := m.c
	h2b, b2h := ledger.BlockHeaderToBlockTypeMap, ledger.BlockToBlockHeaderTypeMap
	for h, bt := range h2b {
		c.Eval()
		c.Distinct("h2b", h)
		if back, ok := b2h[bt]; !ok || back != h {
			c.Violation(fmt.Sprintf("C36:maps-not-inverse:header%d", h),
				fmt.Sprintf("BlockHeaderToBlockTypeMap[%d] = %d but BlockToBlockHeaderTypeMap[%d] = %d (present=%v)", h, bt, bt, back, ok), nil)
		}
		if ref, ok := eraOfType[bt]; !ok || uint(ref.id) != h {
			c.Violation(fmt.Sprintf("C36:maps-era:header%d", h),
				fmt.Sprintf("header type (era id) %d maps to block type %d whose era id is %d", h, bt, ref.id), nil)
		}
	}
	for bt, h := range b2h {
		c.Eval()
		c.Distinct("b2h", bt)
		if back, ok := h2b[h]; !ok || back != bt {
			c.Violation(fmt.Sprintf("C36:maps-not-inverse:block%d", bt),
				fmt.Sprintf("BlockToBlockHeaderTypeMap[%d] = %d but BlockHeaderToBlockTypeMap[%d] = %d (present=%v)", bt, h, h, back, ok), nil)
		}
	}
	c.Note("map_sizes", []int{len(h2b), len(b2h)})
}

func skipCfg() lcommon.VerifyConfig { return lcommon.VerifyConfig{SkipBodyHashValidation: true} }

func (m *mon) checkEra(key, what string, got lcommon.Era, t uint, wit map[string]any) {
	ref := eraOfType[t]
	if got.Id != ref.id || got.Name != ref.name {
		m.c.Violation(key, fmt.Sprintf("%s: Era() = {%d %q}, block type %d belongs to {%d %q}", what, got.Id, got.Name, t, ref.id, ref.name), wit)
		return
	}
	if reg := ledger.GetEraById(got.Id); reg != got {
		m.c.Violation(key+":registry", fmt.Sprintf("%s: Era() = %v but GetEraById(%d) = %v", what, got, got.Id, reg), wit)
	}
}

func (m *mon) checkBlock(entry string, blk ledger.Block, asked uint, name string) {
	wit := map[string]any{"entry": entry, "block": name, "decoded_as_type": asked}
	tn := typeName(asked)
	if uint(blk.Type()) != asked {
		m.c.Violation(fmt.Sprintf("C36:%s:type:%s", entry, tn),
			fmt.Sprintf("%s: corpus block %s decoded as block type %d reports Type() = %d", entry, name, asked, blk.Type()), wit)
	}
	m.checkEra(fmt.Sprintf("C36:%s:era:%s", entry, tn), fmt.Sprintf("%s on %s as type %d", entry, name, asked), blk.Era(), asked, wit)
	if h := blk.Header(); h != nil {
		m.checkEra(fmt.Sprintf("C36:%s:header-era:%s", entry, tn), fmt.Sprintf("%s on %s as type %d, Header()", entry, name, asked), h.Era(), asked, wit)
	}
}

var typeNames = map[uint]string{0: "byron_ebb", 1: "byron_main", 2: "shelley", 3: "allegra", 4: "mary", 5: "alonzo", 6: "babbage", 7: "conway", 8: "dijkstra"}

func typeName(t uint) string {
	if n, ok := typeNames[t]; ok {
		return n
	}
	return fmt.Sprintf("type%d", t)
}

func (m *mon) partEntryPoints() {
	c := m.c
	blocks := corpus.MustBlocks(c.RepoDir)
	tip := pcommon.Tip{Point: pcommon.NewPoint(1, make([]byte, 32)), BlockNumber: 1}
	for bi := range blocks {
		bk := &blocks[bi]
		T := bk.Type
		tn := typeName(T)
		root, err := cborx.ParseExact(bk.Cbor)
		if err != nil || len(root.Items) == 0 {
			c.Inconclusive("cborx cannot parse corpus block " + bk.Name)
			continue
		}
		hdrBytes := root.Items[0].Slice(bk.Cbor)
		run := func(entry string, fn func() (ledger.Block, lcommon.BlockHeader, error)) {
			c.Eval()
			c.Distinct("entry", entry, bk.Name)
			c.Journal("C36 entry=%s block=%s", entry, bk.Name)
			var blk ledger.Block
			var hdr lcommon.BlockHeader
			var err error
			p, val, _ := core.Safely(func() { blk, hdr, err = fn() })
			wit := map[string]any{"entry": entry, "block": bk.Name, "block_type": T}
			if p {
				c.Violation(fmt.Sprintf("C36:%s:panic:%s", entry, tn), fmt.Sprintf("panic: %v", val), wit)
				return
			}
			if err != nil || (blk == nil && hdr == nil) {
				c.Violation(fmt.Sprintf("C36:%s:rejected:%s", entry, tn), fmt.Sprintf("%s does not accept corpus block %s as its own type %d: %v", entry, bk.Name, T, err), wit)
				return
			}
			c.Count("entry_ok_"+entry, 1)
			if blk != nil {
				m.checkBlock(entry, blk, T, bk.Name)
			}
			if hdr != nil {
				m.checkEra(fmt.Sprintf("C36:%s:header-era:%s", entry, tn), fmt.Sprintf("%s on %s", entry, bk.Name), hdr.Era(), T, wit)
			}
		}
		run("NewBlockFromCbor", func() (ledger.Block, lcommon.BlockHeader, error) {
			blk, err := ledger.NewBlockFromCbor(T, bk.Cbor)
			return blk, nil, err
		})
		run("NewBlockFromCborWithOffsets", func() (ledger.Block, lcommon.BlockHeader, error) {
			bwo, err := ledger.NewBlockFromCborWithOffsets(T, bk.Cbor)
			if err != nil || bwo == nil {
				return nil, nil, err
			}
			return bwo.Block, nil, nil
		})
		run("NewBlockHeaderFromCbor", func() (ledger.Block, lcommon.BlockHeader, error) {
			h, err := ledger.NewBlockHeaderFromCbor(T, hdrBytes)
			return nil, h, err
		})
		run("pipeline.DecodeStage", func() (ledger.Block, lcommon.BlockHeader, error) {
			item := pipeline.NewBlockItem(T, bk.Cbor, tip, 1)
			if err := pipeline.NewDecodeStage(false).Process(context.Background(), item); err != nil {
				return nil, nil, err
			}
			if item.BlockType() != T {
				return nil, nil, fmt.Errorf("block item type changed to %d", item.BlockType())
			}
			return item.Block(), nil, nil
		})
		run("chainsync.RollForwardNtC", func() (ledger.Block, lcommon.BlockHeader, error) {
			msg, err := chainsync.NewMsgRollForwardNtC(T, bk.Cbor, tip)
			if err != nil {
				return nil, nil, err
			}
			wire, err := gcbor.Encode(msg)
			if err != nil {
				return nil, nil, err
			}
			dec, err := chainsync.NewMsgFromCborNtC(chainsync.MessageTypeRollForward, wire)
			if err != nil {
				return nil, nil, err
			}
			rf, ok := dec.(*chainsync.MsgRollForwardNtC)
			if !ok {
				return nil, nil, fmt.Errorf("decoded message is %T", dec)
			}
			if rf.BlockType() != T {
				c.Violation("C36:chainsync.RollForwardNtC:wire-type:"+tn, fmt.Sprintf("block type %d sent, %d received", T, rf.BlockType()), nil)
			}
			blk, err := ledger.NewBlockFromCbor(rf.BlockType(), rf.BlockCbor())
			return blk, nil, err
		})
		run("chainsync.RollForwardNtN", func() (ledger.Block, lcommon.BlockHeader, error) {
			var era, byronType uint
			if T <= 1 {
				era, byronType = ledger.BlockHeaderTypeByron, T
			} else {
				e, ok := ledger.BlockToBlockHeaderTypeMap[T]
				if !ok {
					return nil, nil, fmt.Errorf("BlockToBlockHeaderTypeMap has no entry for block type %d", T)
				}
				era = e
			}
			msg, err := chainsync.NewMsgRollForwardNtN(era, byronType, bk.Cbor, tip)
			if err != nil {
				return nil, nil, err
			}
			wire, err := gcbor.Encode(msg)
			if err != nil {
				return nil, nil, err
			}
			dec, err := chainsync.NewMsgFromCborNtN(chainsync.MessageTypeRollForward, wire)
			if err != nil {
				return nil, nil, err
			}
			rf, ok := dec.(*chainsync.MsgRollForwardNtN)
			if !ok {
				return nil, nil, fmt.Errorf("decoded message is %T", dec)
			}
			// the client's dispatch (protocol/chainsync/client.go handleRollForward)
			var blockType uint
			if rf.WrappedHeader.Era == ledger.BlockHeaderTypeByron {
				blockType = rf.WrappedHeader.ByronType()
			} else {
				bt, ok := ledger.BlockHeaderToBlockTypeMap[rf.WrappedHeader.Era]
				if !ok {
					return nil, nil, fmt.Errorf("BlockHeaderToBlockTypeMap has no entry for header era %d", rf.WrappedHeader.Era)
				}
				blockType = bt
			}
			if blockType != T {
				c.Violation("C36:chainsync.RollForwardNtN:wire-type:"+tn, fmt.Sprintf("block type %d sent (era %d), dispatch resolves block type %d", T, era, blockType), nil)
			}
			h, err := ledger.NewBlockHeaderFromCbor(blockType, rf.WrappedHeader.HeaderCbor())
			return nil, h, err
		})
		run("blockfetch.MsgBlock", func() (ledger.Block, lcommon.BlockHeader, error) {
			wb := blockfetch.WrappedBlock{Type: T, RawBlock: bk.Cbor}
			wbBytes, err := gcbor.Encode(&wb)
			if err != nil {
				return nil, nil, err
			}
			wire, err := gcbor.Encode(blockfetch.NewMsgBlock(wbBytes))
			if err != nil {
				return nil, nil, err
			}
			dec, err := blockfetch.NewMsgFromCbor(blockfetch.MessageTypeBlock, wire)
			if err != nil {
				return nil, nil, err
			}
			mb, ok := dec.(*blockfetch.MsgBlock)
			if !ok {
				return nil, nil, fmt.Errorf("decoded message is %T", dec)
			}
			var got blockfetch.WrappedBlock
			if _, err := gcbor.Decode(mb.WrappedBlock, &got); err != nil {
				return nil, nil, err
			}
			if got.Type != T {
				c.Violation("C36:blockfetch.MsgBlock:wire-type:"+tn, fmt.Sprintf("block type %d sent, %d received", T, got.Type), nil)
			}
			blk, err := ledger.NewBlockFromCbor(got.Type, got.RawBlock)
			return blk, nil, err
		})

		// DetermineBlockType on the real header. A real header carries the
		// version its producer signals (often already the next era's), so the
		// statement does not promise the block's own type here; the result is
		// only required to be consistent with the declared ranges.
		if T >= 2 {
			c.Eval()
			c.Distinct("determine-corpus", bk.Name)
			t, err, p := m.determine(hdrBytes)
			major, okMajor := headerMajor(root.Items[0])
			switch {
			case p:
				c.Violation("C36:DetermineBlockType:panic:corpus", "panic on the header of corpus block "+bk.Name, map[string]any{"header_hex": core.HexFull(hdrBytes)})
			case err != nil:
				c.Count("determine_corpus_refused", 1)
				c.Note("determine_corpus_refused_"+bk.Name, err.Error())
			case t == T:
				c.Count("determine_corpus_own_type", 1)
			default:
				c.Count("determine_corpus_other_type", 1)
				c.Note("determine_corpus_other_type_"+bk.Name, fmt.Sprintf("block type %d, header major %d, classified as %d", T, major, t))
			}
			if !p && err == nil && okMajor {
				in := false
				for _, r := range ranges() {
					if r.typ == t && major >= r.min && major <= r.max {
						in = true
					}
				}
				if !in {
					c.Violation("C36:DetermineBlockType:corpus-range:"+typeName(t),
						fmt.Sprintf("header of %s carries major %d and is classified as block type %d whose declared range excludes it", bk.Name, major, t),
						map[string]any{"block": bk.Name, "header_hex": core.HexFull(hdrBytes)})
				}
			}
		}

		// decoded as a different type: fails, or reports the type it was asked for
		for U := uint(0); U <= 8; U++ {
			if U == T {
				continue
			}
			c.Eval()
			c.Distinct("cross-block", bk.Name, U)
			c.Journal("C36 cross block=%s as=%d", bk.Name, U)
			var blk ledger.Block
			var err error
			p, _, _ := core.Safely(func() { blk, err = ledger.NewBlockFromCbor(U, bk.Cbor, skipCfg()) })
			switch {
			case p:
				c.Count("cross_panics", 1)
			case err != nil || blk == nil:
				c.Count("cross_block_refused", 1)
			default:
				c.Count("cross_block_accepted", 1)
				m.checkBlock("cross:NewBlockFromCbor", blk, U, bk.Name)
			}
			c.Eval()
			c.Distinct("cross-header", bk.Name, U)
			var hdr lcommon.BlockHeader
			p, _, _ = core.Safely(func() { hdr, err = ledger.NewBlockHeaderFromCbor(U, hdrBytes) })
			switch {
			case p:
				c.Count("cross_panics", 1)
			case err != nil || hdr == nil:
				c.Count("cross_header_refused", 1)
			default:
				c.Count("cross_header_accepted", 1)
				m.checkEra(fmt.Sprintf("C36:cross:NewBlockHeaderFromCbor:header-era:%s", typeName(U)),
					fmt.Sprintf("header of %s decoded as type %d", bk.Name, U), hdr.Era(), U, map[string]any{"block": bk.Name, "decoded_as_type": U})
			}
		}
	}
	// unknown block types are refused
	for _, U := range []uint{9, 10, 255} {
		c.Eval()
		c.Distinct("unknown-type", U)
		blk, err := ledger.NewBlockFromCbor(U, blocks[0].Cbor, skipCfg())
		if err == nil && blk != nil {
			c.Violation("C36:unknown-type-accepted", fmt.Sprintf("NewBlockFromCbor accepted unknown block type %d and reports Type() = %d", U, blk.Type()), nil)
		}
	}
}

func run(c *core.Ctx) {
	m := &mon{c: c}
	m.partDetermine()
	m.partMaps()
	m.partEntryPoints()
	c.SetExhaustive()
}
