//go:build only_c23

package mon

import _ "verifharness/mon/c23"
