//go:build only_c40

package mon

import _ "verifharness/mon/c40"
