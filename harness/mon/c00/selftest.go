// Package c00 is a harness self-test (not a property): cborx identity on the corpus.
package c00

import (
	"bytes"
	"fmt"

	"verifharness/cborx"
	"verifharness/core"
	"verifharness/corpus"
)

func init() {
	core.Register(&core.Monitor{ID: "C00", Rule: "self-test", Run: func(c *core.Ctx) {
		for _, b := range corpus.MustBlocks(c.RepoDir) {
			n, err := cborx.ParseExact(b.Cbor)
			if err != nil {
				c.Violation("C00:parse:"+b.Name, err.Error(), nil)
				continue
			}
			if !bytes.Equal(n.Encode(), b.Cbor) {
				c.Violation("C00:identity:"+b.Name, "re-encode differs", nil)
			}
			cnt := 0
			n.Walk(func(*cborx.Node) { cnt++ })
			c.Eval()
			c.Distinct(b.Name)
			c.Sample(fmt.Sprintf("%s type=%d bytes=%d nodes=%d", b.Name, b.Type, len(b.Cbor), cnt))
			// every container in every other form still parses to same diag
			m := n.Clone()
			m.Walk(func(x *cborx.Node) { x.SetForm(cborx.FormIndef) })
			bb, mm := m.Reparse()
			m2 := mm.Clone()
			m2.Walk(func(x *cborx.Node) { x.SetForm(cborx.FormMinimal) })
			_ = bb
			if !bytes.Equal(m2.Encode(), canonical(n)) {
				c.Violation("C00:roundtrip:"+b.Name, "indef->minimal differs from minimal", nil)
			}
		}
	}})
}

func canonical(n *cborx.Node) []byte {
	m := n.Clone()
	m.Walk(func(x *cborx.Node) { x.SetForm(cborx.FormMinimal) })
	return m.Encode()
}
