//go:build only_c14

package mon

import _ "verifharness/mon/c14"
