//go:build only_c46

package mon

import _ "verifharness/mon/c46"
