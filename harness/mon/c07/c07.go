// Package c07 monitors C07: the byte ranges reported by the offset extractors
// (ledger.NewBlockFromCborWithOffsets -> StreamingBlockDecoder.DecodeWithOffsets
// and ledger.ExtractTransactionOffsets) slice out exactly the encoded bytes of
// the corresponding components, for every admissible encoding of the block's
// containers.
//
// Ground truth: cborx offsets of the variant's own bytes (package blockx).
// Workload: corpus blocks of every era plus two generated Dijkstra blocks,
// re-encoded with each container the extractor walks switched to each other
// header form, bulk and random policies. Only variants the era decoder accepts
// are judged.
package c07

import (
	"bytes"
	"fmt"
	"hash/fnv"
	"sort"
	"strings"
	"sync"

	"github.com/blinklabs-io/gouroboros/ledger"
	lcommon "github.com/blinklabs-io/gouroboros/ledger/common"
	"golang.org/x/crypto/blake2b"

	"verifharness/blockx"
	"verifharness/cborx"
	"verifharness/core"
	"verifharness/corpus"
)

func init() {
	core.Register(&core.Monitor{
		ID: "C07",
		Rule: "corpus blocks of every era + generated blocks (corpus Dijkstra block carrying the corpus Dijkstra transaction twice; Babbage corpus block with every transaction doubled = 28 transactions), each re-encoded with cborx under: identity; " +
			"every structural class of container (block, bodies, body, outputs, output, witness sets, witness set, datum/redeemer/script lists, aux map, Byron payload arrays, Dijkstra nested arrays, inner containers) x sampled members x each other header form (direct,1,2,4,8-byte,indefinite); " +
			"every class of TAG (tag 258 sets on witness lists and body sets, tag 24 wrappers, tag 259 aux data, ...) x sampled members x every head width that can carry the tag number (direct,1,2,4,8 bytes) - on the corpus blocks and on generated Alonzo/Babbage/Conway/Dijkstra blocks whose witness lists (Conway+: also body sets) were wrapped in #6.258 and given native + Plutus V1..V4 scripts; all component classes (body, witness set, metadata, outputs, datums, redeemers, scripts) must be reported with the exact range, a missing range is a violation; the run is inconclusive unless a #6.258 script list was reached with a 2-, 4- and 8-byte tag head; bulk policies; random per-node policies (PRNG). " +
			"A case is one (variant, extractor function) pair; it is non-trivial when the era decoder accepted the variant, the block has >= 1 transaction and every reported range was compared with ground truth; distinct by (function, hash of the input bytes)",
		MinNontrivial: 300,
		Assumptions: []string{
			"cborx computes item boundaries correctly (self-checked by identity re-encoding of every corpus block)",
			"golang.org/x/crypto/blake2b is correct",
			"datum / script map keys are judged only for self-consistency with the sliced bytes (blake2b-256 of the datum bytes; blake2b-224 of type prefix + element bytes), not against the ledger's script hash",
			"every component class is must-report: transaction body, witness set, metadata (when the transaction has auxiliary data), every output, every datum, redeemer and script of the witness set - in plain and in #6.258-tagged lists, for every tag head width and array header form the era decoder accepts; a component the extractor leaves out is a violation under a :missing key; an extractor that returns an error is counted, not judged",
		},
		QuickTimeout: 600, ThoroughTimeout: 3 * 3600,
		Run: run,
	})
}

const (
	fnStream  = "DecodeWithOffsets"         // ledger.NewBlockFromCborWithOffsets
	fnExtract = "ExtractTransactionOffsets" // ledger.ExtractTransactionOffsets
)

var fns = []string{fnStream, fnExtract}

func skipCfg() lcommon.VerifyConfig { return lcommon.VerifyConfig{SkipBodyHashValidation: true} }

// ---------------------------------------------------------------- compare

// miss is one disagreement between a reported range and the ground truth.
type miss struct {
	id      string // stable component id, e.g. tx3.output2
	kind    string // body | witness | metadata | output | datum | redeemer | script | txcount
	node    *cborx.Node
	missing bool
	got     lcommon.ByteRange
	want    [2]int // offset, length
	detail  string
}

func rng(n *cborx.Node) [2]int { return [2]int{n.Start, n.End - n.Start} }

func same(r lcommon.ByteRange, n *cborx.Node) bool {
	return int(r.Offset) == n.Start && int(r.Length) == n.End-n.Start
}

var scriptPrefix = map[int]byte{1: 0, 3: 1, 6: 2, 7: 3, 8: 4}

// compare checks every range of offs against the layout. It returns the
// disagreements and the number of ranges compared.
func compare(offs *lcommon.BlockTransactionOffsets, l *blockx.Layout) ([]miss, int) {
	var out []miss
	n := 0
	x := l.Src
	if len(offs.Transactions) != len(l.Txs) {
		cont := l.Root
		switch {
		case l.Split:
			cont = l.Bodies
		case l.ByronTxPayload != nil:
			cont = l.ByronTxPayload
		case l.DjTxs != nil:
			cont = l.DjTxs
		}
		out = append(out, miss{id: "txcount", kind: "txcount", node: cont, missing: len(offs.Transactions) < len(l.Txs),
			detail: fmt.Sprintf("%d transaction locations reported, block has %d transactions", len(offs.Transactions), len(l.Txs))})
		return out, 1
	}
	byron := blockx.IsByron(l.Type)
	for i := range l.Txs {
		gt := &l.Txs[i]
		loc := &offs.Transactions[i]
		chk := func(kind, id string, r lcommon.ByteRange, want *cborx.Node) {
			n++
			if same(r, want) {
				return
			}
			m := miss{id: id, kind: kind, node: want, got: r, want: rng(want)}
			if r.Offset == 0 && r.Length == 0 {
				m.missing = true
			}
			out = append(out, m)
		}
		chk("body", fmt.Sprintf("tx%d.body", i), loc.Body, gt.Body)
		chk("witness", fmt.Sprintf("tx%d.witness", i), loc.Witness, gt.Witness)
		if gt.Aux != nil && !byron {
			chk("metadata", fmt.Sprintf("tx%d.metadata", i), loc.Metadata, gt.Aux)
		} else {
			n++
			if loc.Metadata.Offset != 0 || loc.Metadata.Length != 0 {
				out = append(out, miss{id: fmt.Sprintf("tx%d.metadata", i), kind: "metadata", node: gt.Body, got: loc.Metadata,
					detail: "metadata range reported for a transaction without auxiliary data"})
			}
		}
		if len(loc.Outputs) != len(gt.Outputs) {
			n++
			var node *cborx.Node = gt.Body
			if len(gt.Outputs) > 0 {
				node = gt.Outputs[0]
			}
			out = append(out, miss{id: fmt.Sprintf("tx%d.outputs", i), kind: "output", node: node, missing: len(loc.Outputs) < len(gt.Outputs),
				detail: fmt.Sprintf("%d output ranges reported, transaction has %d outputs", len(loc.Outputs), len(gt.Outputs))})
		} else {
			for k := range gt.Outputs {
				chk("output", fmt.Sprintf("tx%d.output%d", i, k), loc.Outputs[k], gt.Outputs[k])
			}
		}
		if byron {
			continue
		}
		wp := blockx.WitnessParts(gt.Witness)
		// datums: keyed by blake2b-256 of the element bytes
		claimed := map[lcommon.ByteRange]bool{}
		for k, d := range wp.Datums {
			n++
			h := blake2b.Sum256(d.Slice(x))
			r, ok := loc.Datums[lcommon.Blake2b256(h)]
			id := fmt.Sprintf("tx%d.datum%d", i, k)
			if !ok {
				// must-report: plain and #6.258 datum lists alike
				out = append(out, miss{id: id, kind: "datum", node: d, missing: true, want: rng(d), detail: "no range reported under the hash of this datum"})
				continue
			}
			claimed[r] = true
			if !sliceEq(x, r, d.Slice(x)) {
				out = append(out, miss{id: id, kind: "datum", node: d, got: r, want: rng(d)})
			}
		}
		for h, r := range loc.Datums {
			if !claimed[r] {
				n++
				node := gt.Witness
				if len(wp.Datums) > 0 {
					node = wp.Datums[0]
				}
				out = append(out, miss{id: fmt.Sprintf("tx%d.datum?", i), kind: "datum", node: node, got: r,
					detail: fmt.Sprintf("range reported under key %x which is the hash of no datum of this witness set", h[:])})
			}
		}
		// redeemers: keyed by (tag, index)
		for k, rd := range wp.Redeemers {
			n++
			id := fmt.Sprintf("tx%d.redeemer%d", i, k)
			r, ok := loc.Redeemers[lcommon.RedeemerKey{Tag: lcommon.RedeemerTag(rd.Tag), Index: uint32(rd.Index)}]
			if !ok {
				out = append(out, miss{id: id, kind: "redeemer", node: rd.Data, missing: true, want: rng(rd.Data), detail: "no range reported for this redeemer key"})
				continue
			}
			if !same(r, rd.Data) {
				out = append(out, miss{id: id, kind: "redeemer", node: rd.Data, got: r, want: rng(rd.Data)})
			}
		}
		if len(loc.Redeemers) > len(wp.Redeemers) {
			n++
			out = append(out, miss{id: fmt.Sprintf("tx%d.redeemer?", i), kind: "redeemer", node: gt.Witness,
				detail: fmt.Sprintf("%d redeemer ranges reported, witness set has %d redeemers", len(loc.Redeemers), len(wp.Redeemers))})
		}
		// scripts: keyed by blake2b-224(type prefix || element bytes)
		claimedS := map[lcommon.ByteRange]bool{}
		nScripts := 0
		for _, wk := range blockx.ScriptKeys {
			for k, s := range wp.Scripts[wk] {
				n++
				nScripts++
				hh, _ := blake2b.New(28, nil)
				hh.Write([]byte{scriptPrefix[wk]})
				hh.Write(s.Slice(x))
				var key lcommon.ScriptHash
				copy(key[:], hh.Sum(nil))
				id := fmt.Sprintf("tx%d.script%d.%d", i, wk, k)
				r, ok := loc.Scripts[key]
				if !ok {
					// (script lists are located in plain and in #6.258 form alike)
					out = append(out, miss{id: id, kind: "script", node: s, missing: true, want: rng(s), detail: "no range reported under the key of this script"})
					continue
				}
				claimedS[r] = true
				if !sliceEq(x, r, s.Slice(x)) {
					out = append(out, miss{id: id, kind: "script", node: s, got: r, want: rng(s)})
				}
			}
		}
		for h, r := range loc.Scripts {
			if !claimedS[r] {
				n++
				out = append(out, miss{id: fmt.Sprintf("tx%d.script?", i), kind: "script", node: gt.Witness, got: r,
					detail: fmt.Sprintf("range reported under key %x which belongs to no script element of this witness set", h[:])})
			}
		}
		_ = nScripts
	}
	return out, n
}

// sliceEq: the reported range lies inside x and holds exactly want. Used for
// hash-keyed components, where identical elements share one map entry.
func sliceEq(x []byte, r lcommon.ByteRange, want []byte) bool {
	end := uint64(r.Offset) + uint64(r.Length)
	if end > uint64(len(x)) {
		return false
	}
	return bytes.Equal(x[r.Offset:end], want)
}

// ---------------------------------------------------------------- workload

type blk struct {
	corpus.Block
	orig    *cborx.Node
	lay     *blockx.Layout
	classes []blockx.Classified
	tags    []blockx.Classified // tag nodes (tag 258 sets, tag 24 wrappers, tag 259 aux data, ...)
	byOrd   map[int]string
}

type variant struct {
	name   string
	ident  bool
	single bool
	ord    int
	class  string
	form   cborx.Form
	fclass string // minimal | nonminimal | indef (header form class of the changed container)
	apply  func(root *cborx.Node, r *core.Rand) int
}

// formClass names a header form relative to the container it is applied to.
func formClass(n *cborx.Node, f cborx.Form) string {
	if n.Kind == cborx.Tag {
		return "tag-" + f.String() // head width of the tag number: direct, w1, w2, w4, w8
	}
	if f == cborx.FormIndef {
		return "indef"
	}
	c := *n
	c.SetForm(f)
	if c.IsMinimal() {
		return "minimal"
	}
	return "nonminimal"
}

func family(t uint) string {
	switch {
	case blockx.IsByron(t):
		return "byron"
	case t == corpus.TypeDijkstra:
		return "dijkstra"
	}
	return "split"
}

func identity() variant {
	return variant{name: "identity", ident: true, apply: func(*cborx.Node, *core.Rand) int { return 0 }}
}

func single(n *cborx.Node, ord int, class string, f cborx.Form) variant {
	fc := ""
	if n != nil {
		fc = formClass(n, f)
	}
	return variant{name: "single:" + class + ":" + f.String(), single: true, ord: ord, class: class, form: f, fclass: fc,
		apply: func(root *cborx.Node, _ *core.Rand) int {
			ns := root.Nodes()
			if ord < len(ns) && ns[ord].SetForm(f) {
				return 1
			}
			return 0
		}}
}

func bulk() []variant {
	mk := func(name string, f cborx.Form, flt func(*cborx.Node) bool) variant {
		return variant{name: name, apply: func(root *cborx.Node, _ *core.Rand) int { return blockx.SetAll(root, f, flt) }}
	}
	return []variant{
		mk("all-containers-indef", cborx.FormIndef, blockx.IsContainer),
		mk("all-arrays-w1", cborx.Form1, func(n *cborx.Node) bool { return n.Kind == cborx.Array }),
		mk("all-maps-w1", cborx.Form1, func(n *cborx.Node) bool { return n.Kind == cborx.Map }),
		mk("all-containers-w2", cborx.Form2, blockx.IsContainer),
		mk("all-ints-w8", cborx.Form8, func(n *cborx.Node) bool { return n.Kind == cborx.Uint || n.Kind == cborx.Nint }),
	}
}

var randKinds = []struct {
	name string
	o    blockx.RandOpts
}{
	{"rand-containers", blockx.RandOpts{Containers: true, Num: 1, Den: 3}},
	{"rand-containers-sparse", blockx.RandOpts{Containers: true, Num: 1, Den: 25}},
	{"rand-containers-rare", blockx.RandOpts{Containers: true, Num: 1, Den: 120}},
	{"rand-all", blockx.RandOpts{Containers: true, Ints: true, Strings: true, Tags: true, Num: 1, Den: 6}},
	{"rand-ints-strings", blockx.RandOpts{Ints: true, Strings: true, Num: 1, Den: 4}},
}

func random(k int) variant {
	rk := randKinds[k%len(randKinds)]
	return variant{name: rk.name, apply: func(root *cborx.Node, r *core.Rand) int { return blockx.Randomize(root, r, rk.o) }}
}

func isInner(class string) bool {
	n := len(class)
	return (n > 6 && class[n-6:] == "-inner") || class == "other"
}

func singlesFor(b *blk, perClass, perInner int, r *core.Rand) []variant {
	by := map[string][]blockx.Classified{}
	var names []string
	for _, c := range append(append([]blockx.Classified{}, b.classes...), b.tags...) {
		if _, ok := by[c.Class]; !ok {
			names = append(names, c.Class)
		}
		by[c.Class] = append(by[c.Class], c)
	}
	sort.Strings(names)
	var out []variant
	for _, name := range names {
		list := by[name]
		want := perClass
		if isInner(name) || strings.Contains(name, "-inner.tag") {
			want = perInner
		}
		pick := map[int]bool{0: true}
		if want > 1 {
			pick[len(list)-1] = true
		}
		for len(pick) < want && len(pick) < len(list) {
			pick[r.Intn(len(list))] = true
		}
		idx := make([]int, 0, len(pick))
		for i := range pick {
			idx = append(idx, i)
		}
		sort.Ints(idx)
		for _, i := range idx {
			for _, f := range blockx.OtherForms(list[i].Node) {
				out = append(out, single(list[i].Node, list[i].Ord, name, f))
			}
		}
	}
	return out
}

// synthDijkstra builds a Dijkstra block carrying the given transactions
// ([body, witness set, aux/nil] items) from the corpus Dijkstra block.
func synthDijkstra(base []byte, txs []*cborx.Node) ([]byte, bool) {
	root, err := cborx.ParseExact(base)
	if err != nil || root.Kind != cborx.Array || len(root.Items) != 2 || root.Items[1].Kind != cborx.Array || len(root.Items[1].Items) != 4 {
		return nil, false
	}
	t := root.Clone()
	body := t.Items[1]
	arr := cborx.A(txs...)
	arr.Form = body.Items[1].Form
	if arr.Form != cborx.FormIndef {
		arr.Form = cborx.FormMinimal
	}
	body.Items[1] = arr
	return t.Encode(), true
}

// tagged258 wraps a plain array in the #6.258 set tag (no-op otherwise).
func tagged258(n *cborx.Node) *cborx.Node {
	if n == nil || n.Kind != cborx.Array {
		return n
	}
	return cborx.T(258, n)
}

// sortedMap rebuilds a map node from key -> value with ascending uint keys.
func sortedMap(m *cborx.Node, kv map[uint64]*cborx.Node) {
	keys := make([]uint64, 0, len(kv))
	for k := range kv {
		keys = append(keys, k)
	}
	sort.Slice(keys, func(i, j int) bool { return keys[i] < keys[j] })
	var items []*cborx.Node
	for _, k := range keys {
		items = append(items, cborx.U(k), kv[k])
	}
	m.Items = items
	if m.Form != cborx.FormIndef {
		m.Form = cborx.FormMinimal
	}
}

// withTaggedSets returns a copy of a Shelley+ / Dijkstra block in which the
// witness-set lists (vkeys, bootstrap, native and Plutus script lists, datums)
// and - bodySets - the body sets (inputs, certificates, collateral, required
// signers, reference inputs) are #6.258 sets, and in which the first and last
// transaction carry one script of every kind in scriptKeys they did not have
// (native: [0, keyhash]; Plutus: an opaque byte string), so that the tagged
// script-list path of the extractor is really walked.
func withTaggedSets(l *blockx.Layout, bodySets bool, scriptKeys []uint64) []byte {
	t := l.Root.Clone()
	nl, err := blockx.AnalyzeNode(l.Type, l.Src, t) // same shape, nodes of the clone
	if err != nil || len(nl.Txs) == 0 {
		return nil
	}
	for i := range nl.Txs {
		tx := &nl.Txs[i]
		if w := tx.Witness; w != nil && w.Kind == cborx.Map {
			kv := map[uint64]*cborx.Node{}
			for q := 0; q+1 < len(w.Items); q += 2 {
				if w.Items[q].Kind == cborx.Uint {
					kv[w.Items[q].Arg] = w.Items[q+1]
				}
			}
			if len(kv)*2 != len(w.Items) {
				continue
			}
			if i == 0 || i == len(nl.Txs)-1 {
				for _, k := range scriptKeys {
					if _, ok := kv[k]; ok {
						continue
					}
					if k == 1 {
						kh := make([]byte, 28)
						for q := range kh {
							kh[q] = byte(0x40 + i + q)
						}
						kv[k] = cborx.A(cborx.A(cborx.U(0), cborx.B(kh)), cborx.A(cborx.U(1), cborx.A(cborx.A(cborx.U(0), cborx.B(kh)))))
					} else {
						kv[k] = cborx.A(cborx.B([]byte{0x4d, 0x01, 0x00, 0x00, 0x33, 0x22, 0x22, byte(k), byte(i)}), cborx.B([]byte{0x45, 0x01, 0x00, 0x00, byte(k), 0x22, 0x33}))
					}
				}
			}
			for _, k := range []uint64{0, 1, 2, 3, 4, 6, 7, 8} {
				if v, ok := kv[k]; ok {
					kv[k] = tagged258(v)
				}
			}
			sortedMap(w, kv)
		}
		if body := tx.Body; bodySets && body != nil && body.Kind == cborx.Map {
			for q := 0; q+1 < len(body.Items); q += 2 {
				if body.Items[q].Kind != cborx.Uint {
					continue
				}
				switch body.Items[q].Arg {
				case 0, 4, 13, 14, 18:
					body.Items[q+1] = tagged258(body.Items[q+1])
				}
			}
		}
	}
	return t.Encode()
}

// scriptListTagForms returns the head forms of the #6.258 tags found on
// script lists (witness keys 1,3,6,7,8) of the block.
func scriptListTagForms(l *blockx.Layout) []cborx.Form {
	var out []cborx.Form
	for i := range l.Txs {
		w := l.Txs[i].Witness
		if w == nil || w.Kind != cborx.Map {
			continue
		}
		for _, k := range blockx.ScriptKeys {
			if v := w.MapGet(uint64(k)); v != nil && v.Kind == cborx.Tag && v.Arg == 258 && v.Items[0].Kind == cborx.Array && len(v.Items[0].Items) > 0 {
				out = append(out, v.CurrentForm())
			}
		}
	}
	return out
}

// ---------------------------------------------------------------- monitor

type mon struct {
	c      *core.Ctx
	blocks []*blk
	mu     sync.Mutex
	cache  map[string]map[string]bool // fn|block|ord|form -> mismatching component ids of that single variant
}

func build(orig *cborx.Node, v variant, r *core.Rand) ([]byte, *cborx.Node, int) {
	t := orig.Clone()
	n := v.apply(t, r)
	b, m := t.Reparse()
	return b, m, n
}

// extract runs one extractor function on x.
func (m *mon) extract(fn string, typ uint, x []byte) (offs *lcommon.BlockTransactionOffsets, err error, panicked bool, pval any) {
	panicked, pval, _ = core.Safely(func() {
		if fn == fnStream {
			var bwo *ledger.BlockWithOffsets
			bwo, err = ledger.NewBlockFromCborWithOffsets(typ, x, skipCfg())
			if err == nil && bwo != nil {
				offs = bwo.Offsets
			}
		} else {
			offs, err = ledger.ExtractTransactionOffsets(x)
		}
	})
	return
}

// singleResult: which components are mis-reported when only the container at
// ord (document order) is switched to form f. Cached.
func (m *mon) singleResult(fn string, b *blk, ord int, f cborx.Form) map[string]bool {
	key := fmt.Sprintf("%s|%s|%d|%d", fn, b.Name, ord, f)
	m.mu.Lock()
	res, ok := m.cache[key]
	m.mu.Unlock()
	if ok {
		return res
	}
	res = map[string]bool{}
	x, tree, _ := build(b.orig, single(nil, ord, "", f), nil)
	m.c.Journal("C07 attribution single block=%s ord=%d form=%s fn=%s", b.Name, ord, f, fn)
	if _, derr := ledger.NewBlockFromCbor(b.Type, x, skipCfg()); derr == nil {
		offs, err, p, _ := m.extract(fn, b.Type, x)
		if !p && err == nil && offs != nil {
			if l, lerr := blockx.AnalyzeNode(b.Type, x, tree); lerr == nil {
				ms, _ := compare(offs, l)
				for _, mi := range ms {
					res[mi.id] = true
				}
			}
		}
	}
	m.mu.Lock()
	m.cache[key] = res
	m.mu.Unlock()
	m.c.Count("attribution_single_runs", 1)
	return res
}

// identityResult: components mis-reported on the unmodified block. Cached.
func (m *mon) identityResult(fn string, b *blk) map[string]bool {
	key := fmt.Sprintf("%s|%s|identity", fn, b.Name)
	m.mu.Lock()
	res, ok := m.cache[key]
	m.mu.Unlock()
	if ok {
		return res
	}
	res = map[string]bool{}
	offs, err, p, _ := m.extract(fn, b.Type, b.Cbor)
	if !p && err == nil && offs != nil {
		ms, _ := compare(offs, b.lay)
		for _, mi := range ms {
			res[mi.id] = true
		}
	}
	m.mu.Lock()
	m.cache[key] = res
	m.mu.Unlock()
	return res
}

func ordOf(root, target *cborx.Node) int {
	for i, n := range root.Nodes() {
		if n == target {
			return i
		}
	}
	return -1
}

// keyFor names the finding: function, class and header form of the container
// that explains the disagreement.
func (m *mon) keyFor(fn string, b *blk, v variant, l *blockx.Layout, mi miss) string {
	sfx := ""
	if mi.missing {
		sfx = ":missing"
	}
	// a component that is already mis-reported on the unmodified block is a
	// finding about the canonical encoding, whatever else the variant changed
	if v.ident || m.identityResult(fn, b)[mi.id] {
		return fmt.Sprintf("C07:%s:%s:canonical:%s%s", fn, mi.kind, family(b.Type), sfx)
	}
	switch {
	case v.single:
		return fmt.Sprintf("C07:%s:%s:%s%s", fn, v.class, v.fclass, sfx)
	}
	// bulk / random policy: find the non-minimal container on the path to the
	// component which, switched alone, already mis-reports the same component.
	for _, a := range blockx.NonMinimalPath(l.Root, mi.node) {
		ord := ordOf(l.Root, a)
		if ord < 0 {
			continue
		}
		f := a.CurrentForm()
		if m.singleResult(fn, b, ord, f)[mi.id] {
			cls := b.byOrd[ord]
			if cls == "" {
				cls = "other"
			}
			return fmt.Sprintf("C07:%s:%s:%s%s", fn, cls, formClass(a, f), sfx)
		}
	}
	return fmt.Sprintf("C07:%s:%s:combination%s", fn, mi.kind, sfx)
}

func (m *mon) judge(fn string, b *blk, v variant, x []byte, l *blockx.Layout, blkObj ledger.Block) {
	c := m.c
	c.Eval()
	c.Journal("C07 %s block=%s policy=%s len=%d", fn, b.Name, v.name, len(x))
	offs, err, p, pval := m.extract(fn, b.Type, x)
	if p {
		c.Violation("C07:panic:"+fn, fmt.Sprintf("panic in %s on block %s policy %s: %v", fn, b.Name, v.name, pval),
			map[string]any{"function": fn, "block": b.Name, "policy": v.name, "input_hex": core.HexFull(x)})
		return
	}
	if err != nil || offs == nil {
		c.Count("extractor_error_"+fn, 1)
		c.Count("extractor_error_policy_"+v.name, 1)
		return
	}
	ms, n := compare(offs, l)
	c.Count("ranges_compared", n)
	c.Count("accepted_"+fn, 1)
	if len(l.Txs) > 0 {
		hh := fnv.New64a()
		hh.Write(x)
		c.Distinct(fn, hh.Sum64())
	}
	// Extract*Cbor helpers and the decoded component (transaction id)
	if blkObj != nil && len(offs.Transactions) == len(l.Txs) {
		txs := blkObj.Transactions()
		for i := range l.Txs {
			want := l.Txs[i].Body.Slice(x)
			got, e := lcommon.ExtractTransactionBodyCbor(x, offs, i)
			c.Count("helper_calls", 1)
			bad := e != nil || !bytes.Equal(got, want)
			already := false
			for _, mi := range ms {
				if mi.id == fmt.Sprintf("tx%d.body", i) {
					already = true
				}
			}
			if bad && !already {
				c.Violation("C07:ExtractTransactionBodyCbor:"+fn, fmt.Sprintf("helper disagrees with a correct range (tx %d): err=%v", i, e),
					map[string]any{"block": b.Name, "policy": v.name, "input_hex": core.HexFull(x)})
			}
			if !bad && i < len(txs) {
				id := txs[i].Id()
				h := blake2b.Sum256(got)
				if !bytes.Equal(id.Bytes(), h[:]) {
					c.Violation("C07:body-vs-decoded:"+fn, fmt.Sprintf("body range of tx %d does not hash to the decoded transaction's id", i),
						map[string]any{"block": b.Name, "policy": v.name, "input_hex": core.HexFull(x)})
				}
			}
			if w, e := lcommon.ExtractWitnessCbor(x, offs, i); e == nil && same(offs.Transactions[i].Witness, l.Txs[i].Witness) && !bytes.Equal(w, l.Txs[i].Witness.Slice(x)) {
				c.Violation("C07:ExtractWitnessCbor:"+fn, "helper disagrees with a correct range", map[string]any{"block": b.Name, "policy": v.name})
			}
			for k := range offs.Transactions[i].Outputs {
				if k < len(l.Txs[i].Outputs) && same(offs.Transactions[i].Outputs[k], l.Txs[i].Outputs[k]) {
					o, e := lcommon.ExtractOutputCbor(x, offs, i, k)
					if e != nil || !bytes.Equal(o, l.Txs[i].Outputs[k].Slice(x)) {
						c.Violation("C07:ExtractOutputCbor:"+fn, "helper disagrees with a correct range", map[string]any{"block": b.Name, "policy": v.name})
					}
				}
			}
		}
	}
	seen := map[string]bool{}
	for _, mi := range ms {
		key := m.keyFor(fn, b, v, l, mi)
		if seen[key] {
			c.Count("mismatching_ranges", 1)
			continue
		}
		seen[key] = true
		c.Count("mismatching_ranges", 1)
		oob := uint64(mi.got.Offset)+uint64(mi.got.Length) > uint64(len(x))
		what := mi.detail
		if what == "" {
			what = fmt.Sprintf("reported range [%d,+%d) but the component is at [%d,+%d)", mi.got.Offset, mi.got.Length, mi.want[0], mi.want[1])
			if mi.missing {
				what = fmt.Sprintf("no range reported (zero) but the component is at [%d,+%d)", mi.want[0], mi.want[1])
			}
		}
		wit := map[string]any{"function": fn, "block": b.Name, "block_type": b.Type, "policy": v.name, "component": mi.id,
			"reported": []uint32{mi.got.Offset, mi.got.Length}, "ground_truth": mi.want, "range_outside_block": oob}
		if v.single {
			wit["changed_container_ord"] = v.ord
		}
		if len(x) <= 4096 {
			wit["input_hex"] = core.HexFull(x)
		} else {
			wit["input_hex_prefix"] = core.Hex(x)
			wit["reproduce"] = fmt.Sprintf("corpus block %s with policy %s (VERIF_SEED-independent for single:*; see replay_cmd otherwise)", b.Name, v.name)
		}
		c.Violation(key, fmt.Sprintf("%s on %s (%s) %s: %s", fn, b.Name, v.name, mi.id, what), wit)
	}
}

func run(c *core.Ctx) {
	m := &mon{c: c, cache: map[string]map[string]bool{}}
	var inputs []corpus.Block
	inputs = append(inputs, corpus.MustBlocks(c.RepoDir)...)
	// generated Dijkstra blocks
	var djBase []byte
	for _, b := range inputs {
		if b.Type == corpus.TypeDijkstra {
			djBase = b.Cbor
		}
	}
	if djBase != nil {
		if dtx, err := corpus.DijkstraTx(c.RepoDir); err == nil {
			if n, perr := cborx.ParseExact(dtx); perr == nil && n.Kind == cborx.Array && len(n.Items) >= 3 {
				tx := cborx.A(n.Items[0].Clone(), n.Items[1].Clone(), n.Items[len(n.Items)-1].Clone())
				if sb, ok := synthDijkstra(djBase, []*cborx.Node{tx, tx.Clone()}); ok {
					inputs = append(inputs, corpus.Block{Name: "dijkstra_gen_w30tx", Type: corpus.TypeDijkstra, Cbor: sb})
				}
			}
		}
	}

	// generated split-segment block with >= 24 transactions (2-byte minimal
	// array headers): the Babbage corpus block with every transaction doubled
	for _, b := range inputs {
		if b.Name != "babbage" {
			continue
		}
		if root, err := cborx.ParseExact(b.Cbor); err == nil && len(root.Items) >= 4 {
			t := root.Clone()
			for _, seg := range []int{1, 2} {
				items := t.Items[seg].Items
				n := len(items)
				for k := 0; k < n; k++ {
					items = append(items, items[k].Clone())
				}
				t.Items[seg].Items = items
				if t.Items[seg].Form != cborx.FormIndef {
					t.Items[seg].Form = cborx.FormMinimal
				}
			}
			inputs = append(inputs, corpus.Block{Name: "babbage_gen_x2", Type: b.Type, Cbor: t.Encode()})
		}
	}

	// generated blocks whose witness-set lists (and, Conway+, body sets) are
	// #6.258 sets and which carry scripts of every kind: corpus blocks never
	// use a non-minimal tag head and the pre-Conway ones have no tagged sets
	for _, b := range append([]corpus.Block{}, inputs...) {
		var keys []uint64
		switch {
		case b.Name == "alonzo":
			keys = []uint64{1, 3}
		case b.Name == "babbage":
			keys = []uint64{1, 3, 6}
		case b.Name == "conway":
			keys = []uint64{1, 3, 6, 7}
		case b.Name == "dijkstra_gen_w30tx":
			keys = []uint64{1, 3, 6, 7, 8}
		default:
			continue
		}
		l, err := blockx.Analyze(b.Type, b.Cbor)
		if err != nil {
			continue
		}
		for _, bodySets := range []bool{b.Type >= corpus.TypeConway, false} {
			gb := withTaggedSets(l, bodySets, keys)
			if gb == nil {
				continue
			}
			if _, derr := ledger.NewBlockFromCbor(b.Type, gb, skipCfg()); derr != nil {
				c.Count("generated_tagged_block_rejected_"+b.Name, 1)
				c.Note("rejected_tagged_"+b.Name, derr.Error())
				continue
			}
			inputs = append(inputs, corpus.Block{Name: b.Name + "_gen_tagged", Type: b.Type, Cbor: gb})
			break
		}
	}

	type bcase struct {
		b *blk
		v variant
	}
	var cases []bcase
	perClass := c.N(3, 10)
	perInner := c.N(1, 3)
	nRand := c.N(30, 4000)
	for i := range inputs {
		in := inputs[i]
		orig, err := cborx.ParseExact(in.Cbor)
		if err != nil || !bytes.Equal(orig.Encode(), in.Cbor) {
			c.Inconclusive("cborx self-check failed on block " + in.Name)
			continue
		}
		lay, err := blockx.AnalyzeNode(in.Type, in.Cbor, orig)
		if err != nil {
			c.Inconclusive("blockx cannot analyse block " + in.Name + ": " + err.Error())
			continue
		}
		// generated blocks must be accepted by the era decoder to be used
		if _, derr := ledger.NewBlockFromCbor(in.Type, in.Cbor, skipCfg()); derr != nil {
			c.Count("generated_block_rejected_"+in.Name, 1)
			c.Note("rejected_"+in.Name, derr.Error())
			continue
		}
		b := &blk{Block: in, orig: orig, lay: lay, classes: lay.Classes(), byOrd: map[int]string{}}
		b.tags = lay.TagClasses()
		for _, cl := range b.classes {
			b.byOrd[cl.Ord] = cl.Class
		}
		for _, cl := range b.tags {
			b.byOrd[cl.Ord] = cl.Class
		}
		c.Note("tags_"+in.Name, len(b.tags))
		m.blocks = append(m.blocks, b)
		c.Note("txs_"+in.Name, len(lay.Txs))
		r := c.Rand("plan", in.Name)
		vs := []variant{identity()}
		vs = append(vs, singlesFor(b, perClass, perInner, r)...)
		if len(lay.Txs) > 0 {
			vs = append(vs, bulk()...)
			for k := 0; k < nRand; k++ {
				vs = append(vs, random(k))
			}
		}
		for _, v := range vs {
			cases = append(cases, bcase{b, v})
		}
		c.Count("plan_variants_"+in.Name, len(vs))
	}

	c.Parallel("case", len(cases), 0, func(i int, r *core.Rand) {
		bc := cases[i]
		x, tree, changed := build(bc.b.orig, bc.v, r)
		c.Count("policy_"+policyClass(bc.v.name), 1)
		if !bc.v.ident && changed == 0 {
			c.Count("variant_noop", 1)
			return
		}
		c.Journal("C07 decode block=%s policy=%s len=%d", bc.b.Name, bc.v.name, len(x))
		var blkObj ledger.Block
		var derr error
		p, pval, _ := core.Safely(func() { blkObj, derr = ledger.NewBlockFromCbor(bc.b.Type, x, skipCfg()) })
		if p {
			c.Count("decoder_panic", 1)
			c.Note("decoder_panic_last", fmt.Sprint(pval))
			return
		}
		if derr != nil || blkObj == nil {
			c.Eval()
			c.Count("decoder_rejected", 1)
			c.Count("decoder_rejected_policy_"+bc.v.name, 1)
			if bc.v.ident {
				c.Violation("C07:corpus-rejected:"+bc.b.Name, fmt.Sprintf("block %s does not decode: %v", bc.b.Name, derr), nil)
			}
			return
		}
		c.Count("decoder_accepted", 1)
		l, lerr := blockx.AnalyzeNode(bc.b.Type, x, tree)
		if lerr != nil {
			c.Inconclusive("blockx cannot analyse a variant of " + bc.b.Name + ": " + lerr.Error())
			return
		}
		if bc.v.ident || i%173 == 0 {
			c.Sample(map[string]any{"block": bc.b.Name, "policy": bc.v.name, "nodes_changed": changed, "txs": len(l.Txs), "input_hex": core.Hex(x)})
		}
		for _, f := range scriptListTagForms(l) {
			c.Count("tagged_script_lists_reached_tag-"+f.String(), 1)
		}
		for _, fn := range fns {
			m.judge(fn, bc.b, bc.v, x, l, blkObj)
		}
	})
	// the #6.258 script-list path must have been walked with every head width
	// that can carry the tag number 258 (2, 4 and 8 bytes)
	for _, f := range []cborx.Form{cborx.Form2, cborx.Form4, cborx.Form8} {
		if c.Counter("tagged_script_lists_reached_tag-"+f.String()) == 0 {
			c.Inconclusive("no accepted variant had a #6.258 script list with a " + f.String() + " tag head")
		}
	}
	if c.Counter("decoder_accepted") == 0 {
		c.Inconclusive("no variant was accepted by the era decoders")
	}
	c.Note("blocks_used", len(m.blocks))
}

func policyClass(name string) string {
	for i := 0; i < len(name); i++ {
		if name[i] == ':' {
			return name[:i]
		}
	}
	return name
}
