//go:build only_c38

package mon

import _ "verifharness/mon/c38"
