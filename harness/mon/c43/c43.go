// Package c43 monitors C43: when WaitForDrain returns nil, every block
// submitted before the wait began has finished processing (applied or
// failed) and no apply call for such a block happens afterwards.
//
// Blocks are held inside decode / validate workers, in the apply runner and
// inside ApplyFunc through the verif hook points while WaitForDrain runs; the
// verdict is taken on the order of stamped events only.
package c43

import (
	"context"
	"errors"
	"fmt"
	"sync"
	"sync/atomic"
	"time"

	"github.com/blinklabs-io/gouroboros/pipeline"

	"verifharness/core"
	"verifharness/mon/c42/pipex"
)

func init() {
	core.Register(&core.Monitor{
		ID:    "C43",
		Race:  true,
		Level: "exploration",
		Rule: "scenarios = hold point {decode.afterTake, decode.afterProcess, validate.afterTake, validate.afterProcess, apply.afterRecv, inside ApplyFunc} x placement " +
			"{tail: the last 1..3 submitted ids are held so that all channels are empty, mid: an earlier id is held and later ones queue up in the apply stage, " +
			"queue: every worker of the stage is held with more blocks waiting in the channel in front of it, chan: the apply runner is held with later blocks waiting in the decoded/validated channel} " +
			"x {drain called once the pipeline is at rest (every pipeline goroutine parked), drain called right after the last Submit} x validation stage off/on x {long, cancelled} drain context, " +
			"plus the failed-Submit-then-drain family: pipeline (buffer 1, 1 decode worker) full behind a gated ApplyFunc, 1..3 Submit calls fail on the full input channel " +
			"{context cancelled once the call is seen parked in Submit, 5 ms deadline, several callers inside Submit at once}, gate opened, all accepted blocks complete, then 1..f further blocks are submitted, " +
			"the first held at {decode.afterTake, apply.afterRecv, inside ApplyFunc}, drain called at rest; " +
			"4..24 unique corpus blocks (some corrupted), 1..4 workers per stage from the PRNG; holds end when WaitForDrain returns or after 100 ms; " +
			"a scenario is non-trivial when a hold was in force between the WaitForDrain call and its return; distinct by (point, placement, mode, validation, ctx, n, workers, held ids)",
		MinNontrivial: 30,
		RaceAnchors:   []string{"pipeline.(*ApplyStage)", "pipeline.(*BlockPipeline)", "pipeline.(*StageWorkerPool)", "pipeline.(*ApplyStageRunner)"},
		Assumptions: []string{
			"a block counts as finished when its ApplyFunc call has returned (good blocks) or the failing stage's Process has returned (blocks that fail decode / validation)",
			"an unfinished block whose last observed hook point leaves its position ambiguous (between a worker's Process and the next stage's take) is judged only when the pipeline was at rest at the drain call and no hold had timed out; otherwise it is counted as not judged",
			"the 100 ms hold and the 10 ms drain poll are workload parameters; the oracle never reads a clock",
		},
		QuickTimeout:    600,
		ThoroughTimeout: 4 * 3600,
		Run:             run,
	})
}

const holdTimeout = 100 * time.Millisecond

var errApply = errors.New("harness: apply refused")

type scen struct {
	Idx       int    `json:"scenario"`
	Point     string `json:"hold_point"`
	Placement string `json:"placement"`
	AtRest    bool   `json:"drain_called_at_rest"`
	Validate  bool   `json:"validation"`
	CancelCtx bool   `json:"drain_ctx_cancelled"`
	N         int    `json:"blocks"`
	DecodeW   int    `json:"decode_workers"`
	ValidateW int    `json:"validate_workers"`
	Held      []int  `json:"held_ids"`

	pt    uint8
	fs    *fsSpec // non-nil: failed-Submit-then-drain family (failedsubmit.go)
	blk   []pipex.Blk
	class []pipex.Class
	held  map[int]bool
}

func stageWorkers(s *scen) int {
	switch s.pt {
	case pipex.PtDecodeTake, pipex.PtDecodeDone:
		return s.DecodeW
	case pipex.PtValidateTake, pipex.PtValidateDone:
		return s.ValidateW
	}
	return 1
}

func build(f *pipex.Factory, idx int, pt uint8, placement string, atRest, validate, cancel bool, r *core.Rand) *scen {
	s := &scen{Idx: idx, Point: pipex.PointNames[pt], pt: pt, Placement: placement, AtRest: atRest, Validate: validate, CancelCtx: cancel}
	s.N = r.Range(4, 24)
	s.DecodeW = r.Range(1, 4)
	if validate {
		s.ValidateW = r.Range(1, 4)
	}
	n := s.N
	s.blk = make([]pipex.Blk, n)
	s.class = make([]pipex.Class, n)
	var hard []pipex.Blk
	for _, b := range f.Bad {
		if b.Hard {
			hard = append(hard, b)
		}
	}
	badPct := core.Pick(r, []int{0, 0, 15, 30})
	for id := 0; id < n; id++ {
		roll := r.Intn(100)
		switch {
		case roll < badPct && validate && r.Bool():
			s.blk[id] = f.VBad[r.Intn(min(3, len(f.VBad)))]
		case roll < badPct && validate:
			s.blk[id] = hard[r.Intn(min(6, len(hard)))]
		case roll < badPct:
			s.blk[id] = f.Bad[r.Intn(min(8, len(f.Bad)))]
		case validate:
			s.blk[id] = f.VGood
		default:
			s.blk[id] = f.Good[r.Intn(4)]
		}
		s.class[id] = s.blk[id].Class
		if s.class[id] == pipex.Good && r.Chance(1, 20) {
			s.class[id] = pipex.ApplyErr
		}
	}
	s.held = map[int]bool{}
	w := stageWorkers(s)
	switch placement {
	case "tail":
		h := r.Range(1, min(w, 3))
		for id := n - h; id < n; id++ {
			s.held[id] = true
		}
	case "mid":
		s.held[r.Range(0, n-3)] = true
	case "queue":
		// the first W ids end up occupying every worker of the stage, the rest waits in the channel before it
		for id := 0; id < w; id++ {
			s.held[id] = true
		}
	case "chan":
		s.held[r.Range(0, n/2)] = true
	}
	// a held id must reach the hold point and be "unfinished" there
	for id := range s.held {
		good := pipex.Blk{}
		if validate {
			good = f.VGood
		} else {
			good = f.Good[r.Intn(4)]
		}
		s.blk[id], s.class[id] = good, pipex.Good
	}
	for id := 0; id < n; id++ {
		if s.held[id] {
			s.Held = append(s.Held, id)
		}
	}
	return s
}

type outcome struct {
	evs        []pipex.Event
	startErr   error
	notAtRest  bool
	completion string
	stopOK     bool
	timedOut   bool // some hold ended by timeout
	failed     int  // Submit calls that returned an error (failed-Submit family)
}

func execute(f *pipex.Factory, s *scen) *outcome {
	out := &outcome{}
	log := pipex.NewLog()
	n := s.N
	hold := pipex.NewHold()
	var holdsReached atomic.Int32

	maybeHold := func(pt uint8, id int, seq int64) {
		if pt == s.pt && s.held[id] && !hold.Released() {
			log.Add(pipex.HoldStart, id, pt, seq, nil)
			holdsReached.Add(1)
			pipex.HoldWait(hold)
			log.Add(pipex.HoldEnd, id, pt, seq, nil)
		}
	}
	hook := func(name string, it *pipeline.BlockItem) {
		rn, id := pipex.ItemID(it)
		if rn != s.Idx || id < 0 || id >= n {
			return
		}
		pt, ok := pipex.PointIndex(name)
		if !ok {
			return
		}
		seq := int64(it.SequenceNumber())
		log.Add(pipex.Point, id, pt, seq, nil)
		maybeHold(pt, id, seq)
	}
	applyFn := func(it *pipeline.BlockItem) error {
		rn, id := pipex.ItemID(it)
		if rn != s.Idx || id < 0 || id >= n {
			return nil
		}
		seq := int64(it.SequenceNumber())
		log.Add(pipex.ApplyCall, id, pipex.PtApplyFunc, seq, nil)
		maybeHold(pipex.PtApplyFunc, id, seq)
		var err error
		if s.class[id] == pipex.ApplyErr {
			err = errApply
		}
		log.Add(pipex.ApplyRet, id, pipex.PtApplyFunc, seq, err)
		return err
	}
	opts := []pipeline.PipelineOption{
		pipeline.WithDecodeWorkers(s.DecodeW),
		pipeline.WithValidateWorkers(s.ValidateW),
		pipeline.WithPrefetchBufferSize(64), // > N: Submit never blocks, channels can hold everything
		pipeline.WithApplyFunc(applyFn),
	}
	if s.Validate {
		opts = append(opts, pipeline.WithEta0(f.Eta0), pipeline.WithSlotsPerKesPeriod(pipex.SlotsPerKesPeriod),
			pipeline.WithVerifyConfig(f.VConfig), pipeline.WithSkipBodyHashValidation(true))
	}
	p := pipeline.NewBlockPipeline(opts...)
	pipeline.VerifSetPoint(hook)
	defer pipeline.VerifSetPoint(nil)
	if err := p.Start(context.Background()); err != nil {
		out.startErr = err
		return out
	}
	var nResults atomic.Int64
	quit := make(chan struct{})
	var collectors sync.WaitGroup
	resCh, errCh := p.Results(), p.Errors()
	collectors.Add(2)
	go func() {
		defer collectors.Done()
		for {
			select {
			case it, ok := <-resCh:
				if !ok {
					return
				}
				_, id := pipex.ItemID(it)
				log.Add(pipex.Result, id, 0, int64(it.SequenceNumber()), nil)
				nResults.Add(1)
			case <-quit:
				return
			}
		}
	}()
	go func() {
		defer collectors.Done()
		for {
			select {
			case e, ok := <-errCh:
				if !ok {
					return
				}
				log.Add(pipex.ErrorEv, -1, 0, -1, e)
			case <-quit:
				return
			}
		}
	}()

	okSubmits := 0
	for id := 0; id < n; id++ {
		b := s.blk[id]
		log.Add(pipex.SubmitCall, id, 0, -1, nil)
		err := p.Submit(context.Background(), b.Type, b.Cbor, pipex.Tip(s.Idx, id))
		log.Add(pipex.SubmitRet, id, 0, -1, err)
		if err == nil {
			okSubmits++
		}
	}
	if s.AtRest {
		// logical state: every pipeline goroutine parked (idle, or on the harness hold), no event in between
		if !pipex.Settle(log, 4, 10*time.Second) || int(holdsReached.Load()) != len(s.held) {
			out.notAtRest = true
		}
	}
	// first drain: while the holds are in force
	drainCtx, cancelDrain := context.WithCancel(context.Background())
	drainDone := make(chan struct{})
	relDone := make(chan struct{})
	go func() {
		defer close(relDone)
		t := time.NewTimer(holdTimeout)
		defer t.Stop()
		if s.CancelCtx {
			// the caller gives up half way: WaitForDrain must report the context error
			select {
			case <-drainDone:
			case <-time.After(holdTimeout / 3):
				cancelDrain()
			}
		}
		select {
		case <-drainDone:
		case <-t.C:
			out.timedOut = true
		}
		hold.Release()
	}()
	log.Add(pipex.DrainCall, -1, 0, -1, nil)
	derr := p.WaitForDrain(drainCtx)
	log.Add(pipex.DrainRet, -1, 0, -1, derr)
	close(drainDone)
	<-relDone
	cancelDrain()

	// second drain on whatever is left, then completion
	wd, cancelWD := context.WithTimeout(context.Background(), 60*time.Second)
	log.Add(pipex.DrainCall, -1, 0, -1, nil)
	derr = p.WaitForDrain(wd)
	log.Add(pipex.DrainRet, -1, 0, -1, derr)
	cancelWD()
	out.completion = pipex.Await(log, func() bool { return nResults.Load() >= int64(okSubmits) }, 1500*time.Millisecond, 60*time.Second)
	stopDone := make(chan struct{})
	go func() {
		log.Add(pipex.StopCall, -1, 0, -1, nil)
		p.Stop()
		log.Add(pipex.StopRet, -1, 0, -1, nil)
		close(stopDone)
	}()
	out.stopOK = pipex.WaitCh(stopDone, 30*time.Second)
	close(quit)
	if out.stopOK {
		collectors.Wait()
	}
	out.evs = log.Snapshot()
	return out
}

// position of an unfinished id at stamp w. The stamp of the WaitForDrain
// return is taken after the call came back, so while blocks are moving the
// position at the stamp can be later than the position PendingCount saw. Only
// "in the hands of a stage worker" is judged in that situation (definite): a
// block seen there at the stamp was not counted by any earlier PendingCount
// either, unless it had not even been taken yet -- and then it was counted in a
// channel. Every other position (inside ApplyFunc, in a channel, in the apply
// stage) is judged only when nothing could move between the drain call and
// its stamp: pipeline at rest at the call, holds in force until after the stamp.
type where struct {
	key      string
	definite bool
}

func locate(evs []pipex.Event, id int, w uint64) where {
	last := -1 // last Point / ApplyCall before w
	var lastPt uint8
	heldAt := -1
	inApply := false
	for _, e := range evs {
		if e.N >= w {
			break
		}
		if int(e.ID) != id {
			continue
		}
		switch e.K {
		case pipex.Point:
			last, lastPt = int(e.N), e.Pt
		case pipex.HoldStart:
			heldAt = int(e.Pt)
		case pipex.HoldEnd:
			heldAt = -1
		case pipex.ApplyCall:
			inApply = true
			last = int(e.N)
		case pipex.ApplyRet:
			inApply = false
		}
	}
	if heldAt >= 0 {
		switch uint8(heldAt) {
		case pipex.PtDecodeTake, pipex.PtDecodeDone:
			return where{"C43:held-in-decode-worker", true}
		case pipex.PtValidateTake, pipex.PtValidateDone:
			return where{"C43:held-in-validate-worker", true}
		case pipex.PtApplyRecv:
			return where{"C43:held-in-apply-worker", true}
		case pipex.PtApplyFunc:
			return where{"C43:held-in-apply-func", false}
		}
	}
	if inApply {
		return where{"C43:held-in-apply-func", false}
	}
	if last < 0 {
		return where{"C43:unfinished-in-submit-channel", false}
	}
	switch lastPt {
	case pipex.PtSubmitAfterSeq:
		return where{"C43:unfinished-in-submit-channel", false}
	case pipex.PtDecodeTake:
		return where{"C43:held-in-decode-worker", true}
	case pipex.PtValidateTake:
		return where{"C43:held-in-validate-worker", true}
	case pipex.PtDecodeDone:
		return where{"C43:unfinished-after-decode", false}
	case pipex.PtValidateDone:
		return where{"C43:unfinished-after-validate", false}
	}
	return where{"C43:unfinished-in-apply-stage", false}
}

func judge(c *core.Ctx, s *scen, out *outcome) {
	if out.startErr != nil {
		c.Inconclusive(fmt.Sprintf("scenario %d: Start: %v", s.Idx, out.startErr))
		return
	}
	if out.notAtRest {
		c.Inconclusive(fmt.Sprintf("scenario %d: pipeline did not come to rest with %d holds before the drain call", s.Idx, len(s.held)))
		return
	}
	if out.completion == "timeout" || !out.stopOK {
		c.Inconclusive(fmt.Sprintf("scenario %d: watchdog (completion=%s stop=%v)", s.Idx, out.completion, out.stopOK))
		return
	}
	evs := out.evs
	n := s.N
	witness := func(extra map[string]any) map[string]any {
		w := map[string]any{"scenario": s, "events": pipex.Strings(evs, 300)}
		for k, v := range extra {
			w[k] = v
		}
		return w
	}
	if out.completion == "stalled" {
		c.Violation("C43:stall", "pipeline came to rest with results outstanding after the holds were released", witness(nil))
		return
	}
	kinds := make([]int, len(pipex.KindNames))
	subRet := make([]uint64, n)
	subOK := make([]bool, n)
	finished := make([]uint64, n) // stamp of the event that finishes the id (0 = never)
	firstTimeoutEnd := uint64(0)
	type drain struct {
		call, ret uint64
		err       string
	}
	var drains []drain
	var holdStart, holdEnd []uint64
	for _, e := range evs {
		kinds[e.K]++
		id := int(e.ID)
		switch e.K {
		case pipex.DrainCall:
			drains = append(drains, drain{call: e.N})
		case pipex.DrainRet:
			drains[len(drains)-1].ret, drains[len(drains)-1].err = e.N, e.Err
		case pipex.HoldStart:
			holdStart = append(holdStart, e.N)
		case pipex.HoldEnd:
			holdEnd = append(holdEnd, e.N)
			if out.timedOut && firstTimeoutEnd == 0 {
				firstTimeoutEnd = e.N
			}
		}
		if id < 0 || id >= n {
			continue
		}
		switch e.K {
		case pipex.SubmitRet:
			subRet[id], subOK[id] = e.N, e.Err == ""
		case pipex.ApplyRet:
			if finished[id] == 0 {
				finished[id] = e.N
			}
		case pipex.Point:
			cl := s.class[id]
			if (cl == pipex.BadDecode && e.Pt == pipex.PtDecodeDone) || (cl == pipex.BadValidate && e.Pt == pipex.PtValidateDone) {
				if finished[id] == 0 {
					finished[id] = e.N
				}
			}
		}
	}
	for k, v := range kinds {
		c.Count("events_"+pipex.KindNames[k], v)
	}
	c.Count("scenarios", 1)
	if s.fs != nil {
		c.Count("failed_submit_scenarios", 1)
		c.Count("failed_submit_scenarios_"+s.fs.Mode, 1)
		c.Count("failed_submits_before_drain", out.failed)
		if out.failed == 0 {
			c.Count("failed_submit_scenarios_without_failure", 1)
		}
	}
	c.Count("point_"+s.Point, 1)
	if s.fs != nil {
		c.Count("placement_after-failed-submit", 1)
	} else {
		c.Count("placement_"+s.Placement, 1)
	}
	for di, d := range drains {
		if d.ret == 0 {
			continue
		}
		// was a hold in force between call and return?
		inForce := 0
		for i, hs := range holdStart {
			he := uint64(1 << 62)
			if i < len(holdEnd) {
				he = holdEnd[i]
			}
			if hs < d.ret && he > d.call {
				inForce++
			}
		}
		if di == 0 {
			c.Count("holds_reached", len(holdStart))
			c.Count("holds_in_force_during_drain", inForce)
			if inForce > 0 {
				c.Distinct(s.Point, s.Placement, s.AtRest, s.Validate, s.CancelCtx, s.N, s.DecodeW, s.ValidateW, fmt.Sprint(s.Held))
			}
		}
		if d.err != "" {
			c.Count("drain_returned_ctx_error", 1)
			if inForce > 0 {
				c.Count("drain_ctx_error_while_held", 1)
			}
			continue
		}
		c.Count("drain_returned_nil", 1)
		// the pipeline was at rest from the drain call until the first release only in at-rest mode
		stable := di == 0 && s.AtRest && (firstTimeoutEnd == 0 || d.ret < firstTimeoutEnd)
		reported := map[string]bool{}
		unfinished := 0
		for id := 0; id < n; id++ {
			if !subOK[id] || subRet[id] > d.call {
				continue
			}
			if finished[id] != 0 && finished[id] < d.ret {
				continue
			}
			unfinished++
			loc := locate(evs, id, d.ret)
			if !loc.definite && !stable {
				c.Count("unfinished_ambiguous_not_judged", 1)
				continue
			}
			if s.fs != nil {
				loc.key += ":after-failed-submit"
			}
			if reported[loc.key] {
				continue
			}
			reported[loc.key] = true
			after := "never applied"
			for _, e := range evs {
				if int(e.ID) == id && e.K == pipex.ApplyCall && e.N > d.ret {
					after = fmt.Sprintf("ApplyFunc called at event %d, after the return", e.N)
				}
			}
			c.Violation(loc.key,
				fmt.Sprintf("WaitForDrain (called at event %d) returned nil at event %d although block id %d (%s), submitted at event %d, had not finished; %s",
					d.call, d.ret, id, pipex.ClassNames[s.class[id]], subRet[id], after),
				witness(map[string]any{"id": id, "drain_call": d.call, "drain_ret": d.ret}))
		}
		if unfinished == 0 {
			c.Count("drain_nil_all_finished", 1)
			if inForce > 0 {
				c.Count("drain_nil_waited_out_a_hold", 1)
			}
		} else {
			c.Count("drain_nil_with_unfinished_blocks", 1)
		}
	}
	if c.SampleN() < 6 && s.Idx%11 == 0 {
		c.Sample(map[string]any{"scenario": s, "events": pipex.Strings(evs, 40)})
	}
}

// runFailedSubmit enumerates the failed-Submit-then-drain family.
func runFailedSubmit(c *core.Ctx, f *pipex.Factory, idx *int) {
	pts := []uint8{pipex.PtDecodeTake, pipex.PtApplyRecv, pipex.PtApplyFunc}
	reps := c.N(1, 30)
	for rep := 0; rep < reps; rep++ {
		for _, mode := range []string{"cancel", "deadline", "concurrent"} {
			for fl := 1; fl <= 3; fl++ {
				for pi, pt := range pts {
					r := c.Rand("failed-submit", rep, mode, fl, pi)
					sp := fsSpec{Mode: mode, Failures: fl, InFlight: r.Range(1, fl)}
					if pt == pipex.PtDecodeTake && sp.InFlight > 2 {
						sp.InFlight = 2 // held decode worker + submit channel of size 1: a third Submit would block
					}
					s := buildFS(f, *idx, pt, sp, r)
					*idx++
					c.Journal("C43 scenario %d failed-submit mode=%s f=%d inflight=%d point=%s", s.Idx, mode, fl, sp.InFlight, s.Point)
					out := executeFS(s)
					c.Eval()
					judge(c, s, out)
				}
			}
		}
	}
}

func run(c *core.Ctx) {
	f, err := pipex.NewFactory(c.RepoDir, c.Rand("factory"))
	if err != nil {
		c.Inconclusive("block factory: " + err.Error())
		return
	}
	if !f.VOK {
		c.Note("validation_templates", false)
	}
	type spec struct {
		pt        uint8
		placement string
		validate  bool
	}
	var specs []spec
	for _, validate := range []bool{false, true} {
		if validate && !f.VOK {
			continue
		}
		pts := []uint8{pipex.PtDecodeTake, pipex.PtDecodeDone, pipex.PtApplyRecv, pipex.PtApplyFunc}
		if validate {
			pts = []uint8{pipex.PtDecodeTake, pipex.PtValidateTake, pipex.PtValidateDone, pipex.PtApplyRecv, pipex.PtApplyFunc}
		}
		for _, pt := range pts {
			specs = append(specs, spec{pt, "tail", validate}, spec{pt, "mid", validate})
			if pt == pipex.PtDecodeTake || pt == pipex.PtValidateTake {
				specs = append(specs, spec{pt, "queue", validate})
			}
			if pt == pipex.PtApplyRecv {
				specs = append(specs, spec{pt, "chan", validate})
			}
		}
	}
	reps := c.N(2, 60)
	idx := 0
	for rep := 0; rep < reps; rep++ {
		for si, sp := range specs {
			for _, atRest := range []bool{true, false} {
				r := c.Rand("scen", rep, si, atRest)
				cancel := (si+rep)%4 == 0 && atRest // deterministic: every hold point meets a cancelled drain context
				s := build(f, idx, sp.pt, sp.placement, atRest, sp.validate, cancel, r)
				idx++
				c.Journal("C43 scenario %d point=%s placement=%s atRest=%v validate=%v n=%d", s.Idx, s.Point, s.Placement, atRest, sp.validate, s.N)
				out := execute(f, s)
				c.Eval()
				judge(c, s, out)
			}
		}
	}
	runFailedSubmit(c, f, &idx)
}
