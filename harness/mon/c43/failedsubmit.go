package c43

import (
	"context"
	"fmt"
	"strings"
	"sync"
	"sync/atomic"
	"time"

	"github.com/blinklabs-io/gouroboros/pipeline"

	"verifharness/core"
	"verifharness/mon/c42/pipex"
)

// Failed-Submit-then-drain family. History: the pipeline (buffer 1, one decode
// worker, validation off) is filled to its capacity behind a gated ApplyFunc,
// 1..3 Submit calls fail while waiting on the full input channel (context
// cancelled once the call is seen parked in Submit / short deadline / several
// callers inside Submit at once), the gate opens and everything accepted
// completes; then 1..f further blocks are submitted, the first of them is held
// at a hook point, the pipeline comes to rest and WaitForDrain is called. The
// oracle is the ordinary C43 oracle on the stamped log.

type fsSpec struct {
	Mode     string // cancel | deadline | concurrent
	Failures int
	InFlight int // blocks submitted after the failures and still in flight at the drain call
}

const fsFill = 4 // 1 in ApplyFunc + decodedChan(1) + decode worker + submitChan(1)

func buildFS(f *pipex.Factory, idx int, pt uint8, sp fsSpec, r *core.Rand) *scen {
	s := &scen{Idx: idx, Point: pipex.PointNames[pt], pt: pt, Placement: fmt.Sprintf("after-failed-submit/%s/f=%d/inflight=%d", sp.Mode, sp.Failures, sp.InFlight),
		AtRest: true, DecodeW: 1, fs: &sp}
	extra := 0
	if sp.Mode == "concurrent" {
		extra = 1 // the caller that is still inside Submit when the gate opens
	}
	s.N = fsFill + sp.Failures + extra + sp.InFlight
	s.blk = make([]pipex.Blk, s.N)
	s.class = make([]pipex.Class, s.N)
	for id := range s.blk {
		s.blk[id], s.class[id] = f.Good[r.Intn(4)], pipex.Good
	}
	first := fsFill + sp.Failures + extra
	s.held = map[int]bool{first: true}
	s.Held = []int{first}
	return s
}

func submitParkedCount() int {
	k := 0
	for _, g := range pipex.Goroutines() {
		if g.State != "select" {
			continue
		}
		for _, fn := range g.Funcs {
			if strings.HasSuffix(fn, "pipeline.(*BlockPipeline).Submit") {
				k++
				break
			}
		}
	}
	return k
}

func executeFS(s *scen) *outcome {
	out := &outcome{}
	sp := s.fs
	log := pipex.NewLog()
	n := s.N
	gate := pipex.NewHold() // ApplyFunc of id 0 waits here (not a C43 hold: no hold events)
	hold := pipex.NewHold()
	var holdsReached atomic.Int32
	maybeHold := func(pt uint8, id int, seq int64) {
		if pt == s.pt && s.held[id] && !hold.Released() {
			log.Add(pipex.HoldStart, id, pt, seq, nil)
			holdsReached.Add(1)
			pipex.HoldWait(hold)
			log.Add(pipex.HoldEnd, id, pt, seq, nil)
		}
	}
	hook := func(name string, it *pipeline.BlockItem) {
		rn, id := pipex.ItemID(it)
		if rn != s.Idx || id < 0 || id >= n {
			return
		}
		pt, ok := pipex.PointIndex(name)
		if !ok {
			return
		}
		seq := int64(it.SequenceNumber())
		log.Add(pipex.Point, id, pt, seq, nil)
		maybeHold(pt, id, seq)
	}
	applyFn := func(it *pipeline.BlockItem) error {
		rn, id := pipex.ItemID(it)
		if rn != s.Idx || id < 0 || id >= n {
			return nil
		}
		seq := int64(it.SequenceNumber())
		log.Add(pipex.ApplyCall, id, pipex.PtApplyFunc, seq, nil)
		if id == 0 {
			pipex.HoldWait(gate)
		}
		maybeHold(pipex.PtApplyFunc, id, seq)
		log.Add(pipex.ApplyRet, id, pipex.PtApplyFunc, seq, nil)
		return nil
	}
	p := pipeline.NewBlockPipeline(
		pipeline.WithDecodeWorkers(1),
		pipeline.WithValidateWorkers(0),
		pipeline.WithPrefetchBufferSize(1),
		pipeline.WithApplyFunc(applyFn),
	)
	pipeline.VerifSetPoint(hook)
	defer pipeline.VerifSetPoint(nil)
	if err := p.Start(context.Background()); err != nil {
		out.startErr = err
		return out
	}
	var nResults atomic.Int64
	quit := make(chan struct{})
	var collectors sync.WaitGroup
	resCh, errCh := p.Results(), p.Errors()
	collectors.Add(2)
	go func() {
		defer collectors.Done()
		for {
			select {
			case it, ok := <-resCh:
				if !ok {
					return
				}
				_, id := pipex.ItemID(it)
				log.Add(pipex.Result, id, 0, int64(it.SequenceNumber()), nil)
				nResults.Add(1)
			case <-quit:
				return
			}
		}
	}()
	go func() {
		defer collectors.Done()
		for {
			select {
			case e, ok := <-errCh:
				if !ok {
					return
				}
				log.Add(pipex.ErrorEv, -1, 0, -1, e)
			case <-quit:
				return
			}
		}
	}()
	finish := func() *outcome {
		gate.Release()
		hold.Release()
		stopDone := make(chan struct{})
		go func() {
			log.Add(pipex.StopCall, -1, 0, -1, nil)
			p.Stop()
			log.Add(pipex.StopRet, -1, 0, -1, nil)
			close(stopDone)
		}()
		out.stopOK = pipex.WaitCh(stopDone, 30*time.Second)
		close(quit)
		if out.stopOK {
			collectors.Wait()
		}
		out.evs = log.Snapshot()
		return out
	}
	poll := func(cond func() bool) bool {
		deadline := time.Now().Add(10 * time.Second)
		for !cond() {
			if time.Now().After(deadline) {
				return false
			}
			time.Sleep(200 * time.Microsecond)
		}
		return true
	}
	okSubmits := 0
	submit := func(ctx context.Context, id int) error {
		b := s.blk[id]
		err := p.Submit(ctx, b.Type, b.Cbor, pipex.Tip(s.Idx, id))
		return err
	}
	id := 0
	for ; id < fsFill; id++ {
		log.Add(pipex.SubmitCall, id, 0, -1, nil)
		err := submit(context.Background(), id)
		log.Add(pipex.SubmitRet, id, 0, -1, err)
		if err == nil {
			okSubmits++
		}
	}
	if !pipex.Settle(log, 4, 10*time.Second) {
		out.notAtRest = true
		return finish()
	}
	// the failing calls
	type call struct {
		id     int
		cancel context.CancelFunc
		done   chan error
	}
	launch := func(id int, ctx context.Context, cancel context.CancelFunc) *call {
		c := &call{id: id, cancel: cancel, done: make(chan error, 1)}
		log.Add(pipex.SubmitCall, id, 0, -1, nil)
		go func() { c.done <- submit(ctx, id) }()
		return c
	}
	collect := func(c *call) {
		err := <-c.done
		log.Add(pipex.SubmitRet, c.id, 0, -1, err)
		if err == nil {
			okSubmits++
		} else {
			out.failed++
		}
	}
	switch sp.Mode {
	case "cancel", "deadline":
		for j := 0; j < sp.Failures; j++ {
			var ctx context.Context
			var cancel context.CancelFunc
			if sp.Mode == "deadline" {
				ctx, cancel = context.WithTimeout(context.Background(), 5*time.Millisecond)
			} else {
				ctx, cancel = context.WithCancel(context.Background())
			}
			c := launch(id, ctx, cancel)
			id++
			if sp.Mode == "cancel" {
				// end the context once the call is parked in its select on the full channel
				if !poll(func() bool { return len(c.done) > 0 || submitParkedCount() >= 1 }) {
					out.notAtRest = true
				}
				cancel()
			}
			collect(c)
			cancel()
		}
	case "concurrent":
		// Failures+1 callers inside Submit at once; the first Failures (in entry order) give up
		var calls []*call
		for j := 0; j <= sp.Failures; j++ {
			ctx, cancel := context.WithCancel(context.Background())
			c := launch(id, ctx, cancel)
			id++
			calls = append(calls, c)
			want := len(calls)
			if !poll(func() bool { return len(c.done) > 0 || submitParkedCount() >= want }) {
				out.notAtRest = true
			}
		}
		for j := 0; j < sp.Failures; j++ {
			calls[j].cancel()
			collect(calls[j])
		}
		gate.Release()
		collect(calls[sp.Failures])
		calls[sp.Failures].cancel()
	}
	gate.Release()
	if out.notAtRest {
		return finish()
	}
	// everything accepted so far completes
	if r := pipex.Await(log, func() bool { return nResults.Load() >= int64(okSubmits) }, 1500*time.Millisecond, 60*time.Second); r != "ok" {
		out.completion = r
		return finish()
	}
	// the blocks in flight at the drain call; the first one is held at the hook point
	for ; id < n; id++ {
		log.Add(pipex.SubmitCall, id, 0, -1, nil)
		err := submit(context.Background(), id)
		log.Add(pipex.SubmitRet, id, 0, -1, err)
		if err == nil {
			okSubmits++
		}
	}
	if !pipex.Settle(log, 4, 10*time.Second) || int(holdsReached.Load()) != len(s.held) {
		out.notAtRest = true
		return finish()
	}
	drainDone := make(chan struct{})
	relDone := make(chan struct{})
	go func() {
		defer close(relDone)
		t := time.NewTimer(holdTimeout)
		defer t.Stop()
		select {
		case <-drainDone:
		case <-t.C:
			out.timedOut = true
		}
		hold.Release()
	}()
	wd, cancelWD := context.WithTimeout(context.Background(), 60*time.Second)
	log.Add(pipex.DrainCall, -1, 0, -1, nil)
	derr := p.WaitForDrain(wd)
	log.Add(pipex.DrainRet, -1, 0, -1, derr)
	close(drainDone)
	<-relDone
	cancelWD()
	out.completion = pipex.Await(log, func() bool { return nResults.Load() >= int64(okSubmits) }, 1500*time.Millisecond, 60*time.Second)
	return finish()
}
