//go:build only_c16

package mon

import _ "verifharness/mon/c16"
