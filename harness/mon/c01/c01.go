// Package c01 monitors C01: decoded blocks, headers, transactions and
// transaction components keep their exact wire bytes.
//
// Workload: every corpus block (and every header / transaction / body /
// output inside it, as stand-alone input) re-encoded with cborx under
// semantically-neutral encoding policies, then handed to the real decoders.
// Oracle: ground-truth byte ranges from cborx (package blockx) and an
// independent Blake2b-256; the library's Cbor(), Hash()/Id() and
// cbor.Encode(obj) must reproduce them. Variants a decoder rejects are counted
// and not judged.
package c01

import (
	"bytes"
	"fmt"
	"hash/fnv"
	"reflect"
	"sort"
	"sync"

	gcbor "github.com/blinklabs-io/gouroboros/cbor"
	"github.com/blinklabs-io/gouroboros/ledger"
	lcommon "github.com/blinklabs-io/gouroboros/ledger/common"
	"golang.org/x/crypto/blake2b"

	"verifharness/blockx"
	"verifharness/cborx"
	"verifharness/core"
	"verifharness/corpus"
)

func init() {
	core.Register(&core.Monitor{
		ID: "C01",
		Rule: "corpus blocks (11, all eras) and the headers / transactions / bodies / outputs inside them, each re-encoded with cborx under: identity; " +
			"each sampled container (per structural class) switched to each other header form (direct,1,2,4,8-byte,indefinite); all containers indefinite; all arrays 2-byte; all maps 1-byte; all integers 8-byte; " +
			"random per-node policies over containers / integers / string lengths / tags / chunked strings (PRNG). " +
			"A case is one decode entry-point call on one variant; it is non-trivial when the decoder accepted the variant and at least one stored encoding, identifier and re-serialisation was compared; distinct by (entry point, hash of the input bytes)",
		MinNontrivial: 400,
		Assumptions: []string{
			"golang.org/x/crypto/blake2b is correct",
			"cborx parses/re-encodes CBOR correctly (self-checked: identity re-encoding of every corpus block equals the file)",
			"Byron block/header hashes are Blake2b-256 over 0x82,<0|1> followed by the header bytes (the on-chain rule), all other identifiers over the item's own bytes",
			"for transactions taken from split-segment blocks (Shelley..Conway) there is no contiguous original, so only components are compared",
		},
		QuickTimeout: 600, ThoroughTimeout: 3 * 3600,
		Run: run,
	})
}

func h256(b []byte) []byte { s := blake2b.Sum256(b); return s[:] }

func skipCfg() lcommon.VerifyConfig { return lcommon.VerifyConfig{SkipBodyHashValidation: true} }

// ---------------------------------------------------------------- variants

type variant struct {
	name  string // low-cardinality policy name
	apply func(root *cborx.Node, r *core.Rand) int
	ident bool
}

func identity() variant {
	return variant{name: "identity", ident: true, apply: func(*cborx.Node, *core.Rand) int { return 0 }}
}

func single(ord int, class string, f cborx.Form) variant {
	return variant{name: "single:" + class + ":" + f.String(), apply: func(root *cborx.Node, _ *core.Rand) int {
		ns := root.Nodes()
		if ord < len(ns) && ns[ord].SetForm(f) {
			return 1
		}
		return 0
	}}
}

func bulk() []variant {
	isArr := func(n *cborx.Node) bool { return n.Kind == cborx.Array }
	isMap := func(n *cborx.Node) bool { return n.Kind == cborx.Map }
	isInt := func(n *cborx.Node) bool { return n.Kind == cborx.Uint || n.Kind == cborx.Nint }
	isStr := func(n *cborx.Node) bool { return n.Kind == cborx.Bytes || n.Kind == cborx.Text }
	mk := func(name string, f cborx.Form, flt func(*cborx.Node) bool) variant {
		return variant{name: name, apply: func(root *cborx.Node, _ *core.Rand) int { return blockx.SetAll(root, f, flt) }}
	}
	return []variant{
		mk("all-containers-indef", cborx.FormIndef, blockx.IsContainer),
		mk("all-arrays-w2", cborx.Form2, isArr),
		mk("all-maps-w1", cborx.Form1, isMap),
		mk("all-ints-w8", cborx.Form8, isInt),
		mk("all-strings-w4", cborx.Form4, isStr),
		mk("all-containers-w8", cborx.Form8, blockx.IsContainer),
	}
}

var randKinds = []struct {
	name string
	o    blockx.RandOpts
}{
	{"rand-containers", blockx.RandOpts{Containers: true, Num: 1, Den: 3}},
	{"rand-containers-sparse", blockx.RandOpts{Containers: true, Num: 1, Den: 40}},
	{"rand-ints", blockx.RandOpts{Ints: true, Num: 1, Den: 3}},
	{"rand-strings", blockx.RandOpts{Strings: true, Num: 1, Den: 6}},
	{"rand-tags", blockx.RandOpts{Tags: true, Num: 1, Den: 2}},
	{"rand-chunked", blockx.RandOpts{IndefStrings: true, Num: 1, Den: 30}},
	{"rand-all", blockx.RandOpts{Containers: true, Ints: true, Strings: true, Tags: true, Num: 1, Den: 5}},
	{"rand-all-sparse", blockx.RandOpts{Containers: true, Ints: true, Strings: true, Tags: true, Num: 1, Den: 60}},
}

func random(k int) variant {
	rk := randKinds[k%len(randKinds)]
	return variant{name: rk.name, apply: func(root *cborx.Node, r *core.Rand) int { return blockx.Randomize(root, r, rk.o) }}
}

// build applies v to a clone of orig and returns the new bytes + tree.
func build(orig *cborx.Node, v variant, r *core.Rand) ([]byte, *cborx.Node, int) {
	t := orig.Clone()
	n := v.apply(t, r)
	b, m := t.Reparse()
	return b, m, n
}

// singlesFor enumerates container × other-form variants: for every structural
// class up to perClass containers (first, last, PRNG picks).
func singlesFor(cls []blockx.Classified, perClass int, r *core.Rand) []variant {
	by := map[string][]blockx.Classified{}
	var names []string
	for _, c := range cls {
		if _, ok := by[c.Class]; !ok {
			names = append(names, c.Class)
		}
		by[c.Class] = append(by[c.Class], c)
	}
	sort.Strings(names)
	var out []variant
	for _, name := range names {
		list := by[name]
		pick := map[int]bool{0: true, len(list) - 1: true}
		for len(pick) < perClass && len(pick) < len(list) {
			pick[r.Intn(len(list))] = true
		}
		idx := make([]int, 0, len(pick))
		for i := range pick {
			idx = append(idx, i)
		}
		sort.Ints(idx)
		for _, i := range idx {
			for _, f := range blockx.OtherForms(list[i].Node) {
				out = append(out, single(list[i].Ord, name, f))
			}
		}
	}
	return out
}

// ---------------------------------------------------------------- oracle

type mon struct {
	c *core.Ctx
}

func typeName(x any) string {
	t := reflect.TypeOf(x)
	for t != nil && t.Kind() == reflect.Pointer {
		t = t.Elem()
	}
	if t == nil {
		return "nil"
	}
	return t.Name()
}

// judge is one oracle run on one input.
type judge struct {
	m      *mon
	entry  string
	input  []byte
	vname  string
	checks int
}

func (j *judge) canonTag(canon bool) string {
	if canon {
		return "canon"
	}
	return "noncanon"
}

// eq compares what the library reported with the ground-truth bytes. canon
// tells whether the ground-truth bytes are the unmodified corpus bytes of
// that component; the key ends in :canon or :noncanon accordingly, so a defect
// that shows on real-chain bytes is never hidden behind a non-canonical one.
func (j *judge) eq(kind, typ string, got, want []byte, canon bool, detail string) bool {
	j.checks++
	j.m.c.Count("checks_"+kind, 1)
	if bytes.Equal(got, want) {
		return true
	}
	key := fmt.Sprintf("C01:%s:%s:%s", kind, typ, j.canonTag(canon))
	j.m.c.Violation(key,
		fmt.Sprintf("%s of %s (%s, entry %s, policy %s): library reports %s, wire bytes are %s", kind, typ, detail, j.entry, j.vname, core.Hex(got), core.Hex(want)),
		map[string]any{"entry": j.entry, "policy": j.vname, "component": detail, "input_hex": core.HexFull(j.input),
			"got_hex": core.HexFull(got), "want_hex": core.HexFull(want)})
	return false
}

func encode(x any) []byte {
	var out []byte
	p, val, _ := core.Safely(func() {
		b, err := gcbor.Encode(x)
		if err != nil {
			out = []byte("ERROR: " + err.Error())
			return
		}
		out = b
	})
	if p {
		return []byte(fmt.Sprintf("PANIC: %v", val))
	}
	return out
}

type cborer interface{ Cbor() []byte }

// field returns a pointer to the named struct field of a decoded object.
func field(obj any, name string) any {
	v := reflect.ValueOf(obj)
	for v.Kind() == reflect.Pointer || v.Kind() == reflect.Interface {
		if v.IsNil() {
			return nil
		}
		v = v.Elem()
	}
	if v.Kind() != reflect.Struct {
		return nil
	}
	f := v.FieldByName(name)
	if !f.IsValid() || !f.CanAddr() {
		return nil
	}
	return f.Addr().Interface()
}

// origTx carries the corpus bytes of a transaction's components, to decide
// whether a variant's component is still canonical.
type origTx struct {
	body, wit, aux []byte
	outs           [][]byte
}

func sl(n *cborx.Node, src []byte) []byte {
	if n == nil {
		return nil
	}
	return n.Slice(src)
}

func origOf(l *blockx.Layout) []origTx {
	out := make([]origTx, len(l.Txs))
	for i, t := range l.Txs {
		o := origTx{body: sl(t.Body, l.Src), wit: sl(t.Witness, l.Src), aux: sl(t.Aux, l.Src)}
		for _, x := range t.Outputs {
			o.outs = append(o.outs, sl(x, l.Src))
		}
		out[i] = o
	}
	return out
}

// components checks body / witness set / outputs / identifiers of a decoded
// transaction against the ground truth.
func (j *judge) components(tx lcommon.Transaction, src []byte, gt *blockx.Tx, o *origTx, byron bool) {
	txT := typeName(tx)
	lbl := fmt.Sprintf("tx %d", gt.Index)
	wantBody := gt.Body.Slice(src)
	bodyCanon := o != nil && bytes.Equal(wantBody, o.body)
	if body := field(tx, "Body"); body != nil {
		bT := typeName(body)
		if cb, ok := body.(cborer); ok {
			j.eq("Cbor", bT, cb.Cbor(), wantBody, bodyCanon, lbl+" body")
		}
		j.eq("reencode", bT, encode(body), wantBody, bodyCanon, lbl+" body")
	}
	id := tx.Id()
	j.eq("Id", txT, id.Bytes(), h256(wantBody), bodyCanon, lbl+" Id() vs blake2b256(body bytes)")
	hs := tx.Hash()
	j.eq("Hash", txT, hs.Bytes(), h256(wantBody), bodyCanon, lbl+" Hash() vs blake2b256(body bytes)")

	wantWit := gt.Witness.Slice(src)
	witCanon := o != nil && bytes.Equal(wantWit, o.wit)
	if byron {
		if w, ok := tx.(interface{ WitnessesCbor() []byte }); ok {
			j.eq("Cbor", "ByronTransactionWitnesses", w.WitnessesCbor(), wantWit, witCanon, lbl+" witnesses")
		}
	} else if ws := field(tx, "WitnessSet"); ws != nil {
		wT := typeName(ws)
		if cb, ok := ws.(cborer); ok {
			j.eq("Cbor", wT, cb.Cbor(), wantWit, witCanon, lbl+" witness set")
		}
		j.eq("reencode", wT, encode(ws), wantWit, witCanon, lbl+" witness set")
	}
	outs := tx.Outputs()
	if len(outs) != len(gt.Outputs) {
		j.m.c.Violation("C01:outputs-count:"+txT, fmt.Sprintf("%s: %d decoded outputs, %d on the wire", lbl, len(outs), len(gt.Outputs)),
			map[string]any{"entry": j.entry, "policy": j.vname, "input_hex": core.HexFull(j.input)})
	} else {
		for k, out := range outs {
			want := gt.Outputs[k].Slice(src)
			canon := o != nil && k < len(o.outs) && bytes.Equal(want, o.outs[k])
			oT := typeName(out)
			j.eq("Cbor", oT, out.Cbor(), want, canon, fmt.Sprintf("%s output %d", lbl, k))
			j.eq("reencode", oT, encode(out), want, canon, fmt.Sprintf("%s output %d", lbl, k))
		}
	}
	if gt.Aux != nil && !byron {
		if aux := tx.AuxiliaryData(); aux != nil {
			want := gt.Aux.Slice(src)
			canon := o != nil && bytes.Equal(want, o.aux)
			j.eq("Cbor", "AuxiliaryData", aux.Cbor(), want, canon, lbl+" auxiliary data")
		} else {
			j.m.c.Count("aux_not_decoded", 1)
		}
	}
}

// reassembled checks tx.Cbor() / cbor.Encode(tx) of a transaction that came
// out of a split-segment block: an array whose components are the original
// ranges.
func (j *judge) reassembled(kind string, tx lcommon.Transaction, got []byte, src []byte, gt *blockx.Tx, o *origTx, blockType uint) {
	txT := typeName(tx)
	lbl := fmt.Sprintf("tx %d %s", gt.Index, kind)
	wantN := 3
	if blockType >= corpus.TypeAlonzo {
		wantN = 4
	}
	n, err := cborx.ParseExact(got)
	if err != nil || n.Kind != cborx.Array || len(n.Items) != wantN {
		j.m.c.Violation(fmt.Sprintf("C01:%s-shape:%s", kind, txT),
			fmt.Sprintf("%s is not a %d-element array: %s", lbl, wantN, core.Hex(got)),
			map[string]any{"entry": j.entry, "policy": j.vname, "got_hex": core.HexFull(got), "input_hex": core.HexFull(j.input)})
		return
	}
	wantBody, wantWit := gt.Body.Slice(src), gt.Witness.Slice(src)
	j.eq(kind+"-body", txT, n.Items[0].Slice(got), wantBody, bytes.Equal(wantBody, o.body), lbl+" element 0")
	j.eq(kind+"-witness", txT, n.Items[1].Slice(got), wantWit, bytes.Equal(wantWit, o.wit), lbl+" element 1")
	last := n.Items[wantN-1].Slice(got)
	if gt.Aux != nil {
		want := gt.Aux.Slice(src)
		j.eq(kind+"-aux", txT, last, want, bytes.Equal(want, o.aux), lbl+" auxiliary data element")
	} else {
		j.eq(kind+"-aux", txT, last, []byte{0xf6}, true, lbl+" auxiliary data element (absent => null)")
	}
	if wantN == 4 {
		want := []byte{0xf5}
		if !gt.Valid {
			want = []byte{0xf4}
		}
		j.eq(kind+"-isvalid", txT, n.Items[2].Slice(got), want, true, lbl+" is_valid element")
	}
}

func (j *judge) headerHash(blockType uint, hdr []byte) []byte {
	if blockx.IsByron(blockType) {
		return h256(append([]byte{0x82, byte(blockType)}, hdr...))
	}
	return h256(hdr)
}

func (m *mon) done(j *judge, accepted bool) {
	m.c.Eval()
	if !accepted {
		m.c.Count("rejected_"+j.entry, 1)
		m.c.Count("rejected_policy_"+j.vname, 1)
		return
	}
	m.c.Count("accepted_"+j.entry, 1)
	if j.checks > 0 {
		hh := fnv.New64a()
		hh.Write(j.input)
		m.c.Distinct(j.entry, hh.Sum64())
	}
}

func (m *mon) guard(j *judge, fn func()) {
	p, val, stack := core.Safely(fn)
	if p {
		m.c.Violation("C01:panic:"+j.entry, fmt.Sprintf("panic in %s (policy %s): %v", j.entry, j.vname, val),
			map[string]any{"entry": j.entry, "policy": j.vname, "input_hex": core.HexFull(j.input), "stack": stack})
	}
}

// checkBlock runs NewBlockFromCbor on x and judges everything reachable.
func (m *mon) checkBlock(b *corpus.Block, x []byte, tree *cborx.Node, vname string, ident bool, orig *blockx.Layout, origTxs []origTx) {
	j := &judge{m: m, entry: "NewBlockFromCbor", input: x, vname: vname}
	m.c.Journal("C01 NewBlockFromCbor block=%s policy=%s len=%d", b.Name, vname, len(x))
	var blk ledger.Block
	var err error
	m.guard(j, func() {
		if ident {
			blk, err = ledger.NewBlockFromCbor(b.Type, x) // validation on for the real block
		} else {
			blk, err = ledger.NewBlockFromCbor(b.Type, x, skipCfg())
		}
	})
	if err != nil || blk == nil {
		if ident {
			m.c.Violation("C01:corpus-rejected:"+b.Name, fmt.Sprintf("corpus block %s does not decode: %v", b.Name, err), nil)
		}
		m.done(j, false)
		return
	}
	l, lerr := blockx.AnalyzeNode(b.Type, x, tree)
	if lerr != nil {
		m.c.Inconclusive("blockx cannot analyse variant of " + b.Name + ": " + lerr.Error())
		return
	}
	m.guard(j, func() {
		bT := typeName(blk)
		j.eq("Cbor", bT, blk.Cbor(), x, ident, "block")
		j.eq("reencode", bT, encode(blk), x, ident, "block")
		hdrBytes := l.Header.Slice(x)
		hdrCanon := bytes.Equal(hdrBytes, orig.Header.Slice(orig.Src))
		hdr := blk.Header()
		hT := typeName(hdr)
		j.eq("Cbor", hT, hdr.Cbor(), hdrBytes, hdrCanon, "block header")
		want := j.headerHash(b.Type, hdrBytes)
		hh := hdr.Hash()
		j.eq("Hash", hT, hh.Bytes(), want, hdrCanon, "header hash")
		bh := blk.Hash()
		j.eq("Hash", bT, bh.Bytes(), want, hdrCanon, "block hash")
		j.eq("reencode", hT, encode(hdr), hdrBytes, hdrCanon, "block header")
		txs := blk.Transactions()
		if len(txs) != len(l.Txs) {
			m.c.Violation("C01:tx-count:"+bT, fmt.Sprintf("%d decoded transactions, %d on the wire", len(txs), len(l.Txs)),
				map[string]any{"policy": vname, "input_hex": core.HexFull(x)})
			return
		}
		for i, tx := range txs {
			gt := &l.Txs[i]
			o := &origTxs[i]
			j.components(tx, x, gt, o, blockx.IsByron(b.Type))
			if gt.Whole != nil {
				want := gt.Whole.Slice(x)
				canon := bytes.Equal(want, orig.Txs[i].Whole.Slice(orig.Src))
				j.eq("Cbor", typeName(tx), tx.Cbor(), want, canon, fmt.Sprintf("tx %d", i))
				j.eq("reencode", typeName(tx), encode(tx), want, canon, fmt.Sprintf("tx %d", i))
			} else {
				j.reassembled("txcbor", tx, tx.Cbor(), x, gt, o, b.Type)
				j.reassembled("txencode", tx, encode(tx), x, gt, o, b.Type)
			}
		}
		m.c.Count("block_txs_compared", len(txs))
	})
	m.done(j, true)
}


// reuse decodes `first` and then `second` into ONE freshly allocated object of
// obj's concrete type (touching the lazily computed identifier in between) and
// checks that what the object reports afterwards belongs to `second`: a decode
// into a used receiver is still a decode, so stored bytes and identifier must
// follow it (stale caches show up here).
func (m *mon) reuse(j *judge, obj any, first, second []byte, canon bool, ident func(any) []byte, want []byte) {
	t := reflect.TypeOf(obj)
	if t == nil || t.Kind() != reflect.Pointer || bytes.Equal(first, second) {
		return
	}
	p := reflect.New(t.Elem()).Interface()
	if _, err := gcbor.Decode(first, p); err != nil {
		m.c.Count("reuse_first_decode_rejected", 1)
		return
	}
	_ = ident(p)
	if _, err := gcbor.Decode(second, p); err != nil {
		m.c.Count("reuse_second_decode_rejected", 1)
		return
	}
	m.c.Count("reuse_checks", 1)
	T := typeName(p)
	if cb, ok := p.(cborer); ok {
		j.eq("reuse-Cbor", T, cb.Cbor(), second, canon, "stored bytes after decoding a second input into the same object")
	}
	j.eq("reuse-Id", T, ident(p), want, canon, "identifier after decoding a second input into the same object")
}

// standalone objects ----------------------------------------------------

type object struct {
	kind    string // header | tx | body | output
	block   *corpus.Block
	txIndex int
	node    *cborx.Node // tree with offsets into bytes
	bytes   []byte
	sibling []byte // another corpus object of the same kind and era (receiver reuse across DIFFERENT objects)
}

// standaloneTx assembles the stand-alone wire form of transaction i of a block.
func standaloneTx(l *blockx.Layout, i int) *cborx.Node {
	t := l.Txs[i]
	if t.Whole != nil {
		return t.Whole.Clone()
	}
	items := []*cborx.Node{t.Body.Clone(), t.Witness.Clone()}
	if l.Type >= corpus.TypeAlonzo {
		items = append(items, cborx.Bool(t.Valid))
	}
	if t.Aux != nil {
		items = append(items, t.Aux.Clone())
	} else {
		items = append(items, cborx.Null())
	}
	return cborx.A(items...)
}

func (m *mon) checkObject(o *object, v variant, r *core.Rand) {
	x, tree, _ := build(o.node, v, r)
	ident := v.ident
	bt := o.block.Type
	switch o.kind {
	case "header":
		j := &judge{m: m, entry: "NewBlockHeaderFromCbor", input: x, vname: v.name}
		m.c.Journal("C01 NewBlockHeaderFromCbor block=%s policy=%s hex=%s", o.block.Name, v.name, core.Hex(x))
		var hdr ledger.BlockHeader
		var err error
		m.guard(j, func() { hdr, err = ledger.NewBlockHeaderFromCbor(bt, x) })
		if err != nil || hdr == nil {
			if ident {
				m.c.Violation("C01:corpus-rejected:header:"+o.block.Name, fmt.Sprintf("corpus header does not decode: %v", err), nil)
			}
			m.done(j, false)
			return
		}
		m.guard(j, func() {
			hT := typeName(hdr)
			j.eq("Cbor", hT, hdr.Cbor(), x, ident, "header")
			hh := hdr.Hash()
			j.eq("Hash", hT, hh.Bytes(), j.headerHash(bt, x), ident, "header hash")
			j.eq("reencode", hT, encode(hdr), x, ident, "header")
			hid := func(p any) []byte {
				if h, ok := p.(ledger.BlockHeader); ok {
					v := h.Hash()
					return v.Bytes()
				}
				return nil
			}
			ib := o.node.Encode()
			m.reuse(j, hdr, ib, x, false, hid, j.headerHash(bt, x))
			m.reuse(j, hdr, x, ib, true, hid, j.headerHash(bt, ib))
			if o.sibling != nil {
				m.reuse(j, hdr, o.sibling, x, ident, hid, j.headerHash(bt, x))
			}
		})
		m.done(j, true)
	case "tx":
		j := &judge{m: m, entry: "NewTransactionFromCbor", input: x, vname: v.name}
		m.c.Journal("C01 NewTransactionFromCbor block=%s tx=%d policy=%s hex=%s", o.block.Name, o.txIndex, v.name, core.Hex(x))
		var tx ledger.Transaction
		var err error
		m.guard(j, func() { tx, err = ledger.NewTransactionFromCbor(blockx.TxType(bt), x) })
		if err != nil || tx == nil {
			if ident {
				m.c.Violation("C01:corpus-rejected:tx:"+o.block.Name, fmt.Sprintf("corpus transaction %d does not decode stand-alone: %v", o.txIndex, err), map[string]any{"input_hex": core.HexFull(x)})
			}
			m.done(j, false)
			return
		}
		gt := blockx.Tx{Index: o.txIndex, Whole: tree, Body: tree.Items[0], Witness: tree.Items[1], Valid: true}
		if blockx.IsByron(bt) {
			if gt.Body.Kind == cborx.Array && len(gt.Body.Items) >= 2 {
				gt.Outputs = gt.Body.Items[1].Items
			}
		} else {
			if outs := gt.Body.MapGet(1); outs != nil {
				gt.Outputs = outs.Items
			}
			last := tree.Items[len(tree.Items)-1]
			if !(last.Kind == cborx.Simple) {
				gt.Aux = last
			}
		}
		var ot *origTx
		if ident {
			t := origTx{body: gt.Body.Slice(x), wit: gt.Witness.Slice(x), aux: sl(gt.Aux, x)}
			for _, n := range gt.Outputs {
				t.outs = append(t.outs, n.Slice(x))
			}
			ot = &t
		} else {
			// canonical components are recognised by comparing with the identity encoding
			ib := o.node.Encode()
			in, _ := cborx.ParseExact(ib)
			t := origTx{body: in.Items[0].Slice(ib), wit: in.Items[1].Slice(ib)}
			if gt.Aux != nil {
				t.aux = in.Items[len(in.Items)-1].Slice(ib)
			}
			var outs []*cborx.Node
			if blockx.IsByron(bt) {
				if in.Items[0].Kind == cborx.Array && len(in.Items[0].Items) >= 2 {
					outs = in.Items[0].Items[1].Items
				}
			} else if on := in.Items[0].MapGet(1); on != nil {
				outs = on.Items
			}
			for _, n := range outs {
				t.outs = append(t.outs, n.Slice(ib))
			}
			ot = &t
		}
		m.guard(j, func() {
			tT := typeName(tx)
			j.eq("Cbor", tT, tx.Cbor(), x, ident, "transaction")
			j.eq("reencode", tT, encode(tx), x, ident, "transaction")
			j.components(tx, x, &gt, ot, blockx.IsByron(bt))
			tid := func(p any) []byte {
				if t, ok := p.(ledger.Transaction); ok {
					v := t.Hash()
					return v.Bytes()
				}
				return nil
			}
			ib := o.node.Encode()
			if in, err := cborx.ParseExact(ib); err == nil && !blockx.IsByron(bt) {
				m.reuse(j, tx, ib, x, false, tid, h256(gt.Body.Slice(x)))
				m.reuse(j, tx, x, ib, true, tid, h256(in.Items[0].Slice(ib)))
			}
			if o.sibling != nil {
				m.reuse(j, tx, o.sibling, x, ident, tid, h256(gt.Body.Slice(x)))
			}
		})
		m.done(j, true)
	case "body":
		j := &judge{m: m, entry: "NewTransactionBodyFromCbor", input: x, vname: v.name}
		m.c.Journal("C01 NewTransactionBodyFromCbor block=%s tx=%d policy=%s hex=%s", o.block.Name, o.txIndex, v.name, core.Hex(x))
		var body ledger.TransactionBody
		var err error
		m.guard(j, func() { body, err = ledger.NewTransactionBodyFromCbor(blockx.TxType(bt), x) })
		if err != nil || body == nil {
			if ident {
				m.c.Violation("C01:corpus-rejected:body:"+o.block.Name, fmt.Sprintf("corpus transaction body %d does not decode stand-alone: %v", o.txIndex, err), map[string]any{"input_hex": core.HexFull(x)})
			}
			m.done(j, false)
			return
		}
		m.guard(j, func() {
			bT := typeName(body)
			j.eq("Cbor", bT, body.Cbor(), x, ident, "body")
			id := body.Id()
			j.eq("Id", bT, id.Bytes(), h256(x), ident, "body Id() vs blake2b256(input)")
			j.eq("reencode", bT, encode(body), x, ident, "body")
			bid := func(p any) []byte {
				if b, ok := p.(ledger.TransactionBody); ok {
					v := b.Id()
					return v.Bytes()
				}
				return nil
			}
			ibb := o.node.Encode()
			m.reuse(j, body, ibb, x, false, bid, h256(x))
			m.reuse(j, body, x, ibb, true, bid, h256(ibb))
			if o.sibling != nil {
				m.reuse(j, body, o.sibling, x, ident, bid, h256(x))
			}
			if on := tree.MapGet(1); on != nil {
				outs := body.Outputs()
				if len(outs) == len(on.Items) {
					ib := o.node.Encode()
					in, _ := cborx.ParseExact(ib)
					for k, out := range outs {
						want := on.Items[k].Slice(x)
						canon := bytes.Equal(want, in.MapGet(1).Items[k].Slice(ib))
						j.eq("Cbor", typeName(out), out.Cbor(), want, canon, fmt.Sprintf("output %d", k))
					}
				}
			}
		})
		m.done(j, true)
	case "output":
		j := &judge{m: m, entry: "NewTransactionOutputFromCbor", input: x, vname: v.name}
		m.c.Journal("C01 NewTransactionOutputFromCbor block=%s tx=%d policy=%s hex=%s", o.block.Name, o.txIndex, v.name, core.Hex(x))
		var out ledger.TransactionOutput
		var err error
		m.guard(j, func() { out, err = ledger.NewTransactionOutputFromCbor(x) })
		if err != nil || out == nil {
			if ident {
				m.c.Violation("C01:corpus-rejected:output:"+o.block.Name, fmt.Sprintf("corpus output does not decode stand-alone: %v", err), map[string]any{"input_hex": core.HexFull(x)})
			}
			m.done(j, false)
			return
		}
		m.guard(j, func() {
			oT := typeName(out)
			j.eq("Cbor", oT, out.Cbor(), x, ident, "output")
			j.eq("reencode", oT, encode(out), x, ident, "output")
		})
		m.done(j, true)
	}
}

// ---------------------------------------------------------------- run

func run(c *core.Ctx) {
	m := &mon{c: c}
	blocks := corpus.MustBlocks(c.RepoDir)
	concurrentFirstHash(c, blocks)

	type blockCase struct {
		b     *corpus.Block
		orig  *cborx.Node
		lay   *blockx.Layout
		otxs  []origTx
		v     variant
		index int
	}
	type objCase struct {
		o *object
		v variant
	}
	var bcases []blockCase
	var ocases []objCase

	perClass := c.N(2, 12)
	nRandBlock := c.N(24, 12000)
	nRandObj := c.N(6, 100)
	maxTx := c.N(5, 30)
	maxOut := c.N(2, 6)

	for bi := range blocks {
		b := &blocks[bi]
		orig, err := cborx.ParseExact(b.Cbor)
		if err != nil || !bytes.Equal(orig.Encode(), b.Cbor) {
			c.Inconclusive("cborx self-check failed on corpus block " + b.Name)
			continue
		}
		lay, err := blockx.AnalyzeNode(b.Type, b.Cbor, orig)
		if err != nil {
			c.Inconclusive("blockx cannot analyse corpus block " + b.Name + ": " + err.Error())
			continue
		}
		otxs := origOf(lay)
		r := c.Rand("plan", b.Name)
		vs := []variant{identity()}
		vs = append(vs, bulk()...)
		vs = append(vs, singlesFor(lay.Classes(), perClass, r)...)
		for k := 0; k < nRandBlock; k++ {
			vs = append(vs, random(k))
		}
		for _, v := range vs {
			bcases = append(bcases, blockCase{b: b, orig: orig, lay: lay, otxs: otxs, v: v, index: len(bcases)})
		}
		c.Count("plan_block_variants_"+b.Name, len(vs))
		c.Note("containers_"+b.Name, len(lay.Classes()))

		// stand-alone objects
		var objs []*object
		hb := lay.Header.Slice(b.Cbor)
		objs = append(objs, &object{kind: "header", block: b, node: cborx.Raw(hb), bytes: hb})
		txIdx := r.Perm(len(lay.Txs))
		if len(txIdx) > maxTx {
			txIdx = txIdx[:maxTx]
		}
		sort.Ints(txIdx)
		for _, i := range txIdx {
			n := standaloneTx(lay, i)
			nb, nn := n.Reparse()
			objs = append(objs, &object{kind: "tx", block: b, txIndex: i, node: nn, bytes: nb})
			if !blockx.IsByron(b.Type) {
				bb := lay.Txs[i].Body.Slice(b.Cbor)
				objs = append(objs, &object{kind: "body", block: b, txIndex: i, node: cborx.Raw(bb), bytes: bb})
			}
			outs := lay.Txs[i].Outputs
			for k := 0; k < len(outs) && k < maxOut; k++ {
				ob := outs[k].Slice(b.Cbor)
				objs = append(objs, &object{kind: "output", block: b, txIndex: i, node: cborx.Raw(ob), bytes: ob})
			}
		}
		// link every object to the next object of its kind in this block
		for i, o := range objs {
			for k := 1; k < len(objs); k++ {
				if p := objs[(i+k)%len(objs)]; p.kind == o.kind && !bytes.Equal(p.bytes, o.bytes) {
					o.sibling = p.bytes
					break
				}
			}
		}
		for _, o := range objs {
			ovs := []variant{identity()}
			ovs = append(ovs, bulk()...)
			// the object's own top-level containers in every other form
			nodes := o.node.Nodes()
			top := 0
			for ord, n := range nodes {
				if !n.IsContainer() {
					continue
				}
				if top >= 4 {
					break
				}
				top++
				for _, f := range blockx.OtherForms(n) {
					ovs = append(ovs, single(ord, o.kind+"-top", f))
				}
			}
			for k := 0; k < nRandObj; k++ {
				ovs = append(ovs, random(k))
			}
			for _, v := range ovs {
				ocases = append(ocases, objCase{o: o, v: v})
			}
		}
	}

	// the stand-alone Dijkstra transaction of the corpus
	if dtx, err := corpus.DijkstraTx(c.RepoDir); err == nil {
		if n, perr := cborx.ParseExact(dtx); perr == nil {
			pb := &corpus.Block{Name: "dijkstra_w30_tx", Type: corpus.TypeDijkstra}
			o := &object{kind: "tx", block: pb, node: n, bytes: dtx}
			ovs := append([]variant{identity()}, bulk()...)
			ovs = append(ovs, singlesFor(objectClasses(n), 3, c.Rand("plan", "dijkstra_tx"))...)
			for k := 0; k < c.N(40, 2000); k++ {
				ovs = append(ovs, random(k))
			}
			for _, v := range ovs {
				ocases = append(ocases, objCase{o: o, v: v})
			}
			if body := n.At(0); body != nil {
				bb := body.Slice(dtx)
				bo := &object{kind: "body", block: pb, node: cborx.Raw(bb), bytes: bb}
				for _, v := range append([]variant{identity()}, bulk()...) {
					ocases = append(ocases, objCase{o: bo, v: v})
				}
			}
		}
	} else {
		c.Inconclusive("cannot read the Dijkstra corpus transaction: " + err.Error())
	}
	c.Parallel("object", len(ocases), 0, func(i int, r *core.Rand) {
		oc := ocases[i]
		c.Count("policy_"+policyClass(oc.v.name), 1)
		m.checkObject(oc.o, oc.v, r)
	})
	c.Parallel("block", len(bcases), 0, func(i int, r *core.Rand) {
		bc := bcases[i]
		x, tree, changed := build(bc.orig, bc.v, r)
		if !bc.v.ident && changed == 0 {
			c.Count("variant_noop", 1)
		}
		if bc.v.ident || i%211 == 0 {
			c.Sample(map[string]any{"entry": "NewBlockFromCbor", "block": bc.b.Name, "policy": bc.v.name, "nodes_changed": changed, "input_hex": core.Hex(x)})
		}
		c.Count("policy_"+policyClass(bc.v.name), 1)
		m.checkBlock(bc.b, x, tree, bc.v.name, bc.v.ident, bc.lay, bc.otxs)
	})
	c.Note("corpus_blocks", len(blocks))
	acc := c.Counter("accepted_NewBlockFromCbor")
	if acc == 0 {
		c.Inconclusive("no block variant was accepted")
	}
}

// objectClasses classifies the containers of a stand-alone item by depth
// only (top, level1, level2, deeper).
func objectClasses(root *cborx.Node) []blockx.Classified {
	depth := map[*cborx.Node]int{root: 0}
	var out []blockx.Classified
	for ord, n := range root.Nodes() {
		if n.Kind != cborx.Bytes && n.Kind != cborx.Text {
			for _, ch := range n.Items {
				depth[ch] = depth[n] + 1
			}
		}
		if !n.IsContainer() {
			continue
		}
		d := depth[n]
		name := "deeper"
		if d <= 2 {
			name = fmt.Sprintf("level%d", d)
		}
		out = append(out, blockx.Classified{Node: n, Ord: ord, Class: name})
	}
	return out
}

func policyClass(name string) string {
	for i := 0; i < len(name); i++ {
		if name[i] == ':' {
			return name[:i]
		}
	}
	return name
}

// concurrentFirstHash: identifiers are computed lazily on first use. Several
// goroutines asking a FRESHLY decoded header / block / transaction for its
// identifier at the same moment must all get the hash of the decoded bytes (a
// cache that is published before it is filled shows up as a zero or partial
// hash here). Pure value check; the build is not a -race build.
func concurrentFirstHash(c *core.Ctx, blocks []corpus.Block) {
	rounds := c.N(250, 4000)
	const workers = 8
	for bi := range blocks {
		b := &blocks[bi]
		n, err := cborx.ParseExact(b.Cbor)
		if err != nil || n.Kind != cborx.Array || len(n.Items) == 0 {
			continue
		}
		hdrBytes := n.Items[0].Slice(b.Cbor)
		j := &judge{m: &mon{c: c}, entry: "concurrent-first-Hash", input: hdrBytes, vname: "identity"}
		want := j.headerHash(b.Type, hdrBytes)
		bad := 0
		for r := 0; r < rounds && bad == 0; r++ {
			hdr, err := ledger.NewBlockHeaderFromCbor(b.Type, hdrBytes)
			if err != nil || hdr == nil {
				break
			}
			blk, berr := ledger.NewBlockFromCbor(b.Type, b.Cbor, skipCfg())
			var start sync.WaitGroup
			var done sync.WaitGroup
			start.Add(1)
			got := make([][]byte, 2*workers)
			for w := 0; w < workers; w++ {
				done.Add(1)
				go func(w int) {
					defer done.Done()
					start.Wait()
					h := hdr.Hash()
					got[w] = append([]byte(nil), h.Bytes()...)
					if berr == nil && blk != nil {
						bh := blk.Hash()
						got[workers+w] = append([]byte(nil), bh.Bytes()...)
					}
				}(w)
			}
			start.Done()
			done.Wait()
			c.Eval()
			for i, g := range got {
				if g == nil {
					continue
				}
				if !bytes.Equal(g, want) {
					which := "header"
					if i >= workers {
						which = "block"
					}
					c.Violation("C01:concurrent-first-Hash:"+typeName(hdr), fmt.Sprintf("%d goroutines asked a freshly decoded %s %s for its hash at the same time; one got %x, the decoded bytes hash to %x (round %d)", workers, b.Name, which, g, want, r),
						map[string]any{"block": b.Name, "header_hex": core.HexFull(hdrBytes)})
					bad++
					break
				}
			}
		}
		c.Count("concurrent_first_hash_rounds", rounds)
		c.Distinct("concurrent-first-hash", b.Name)
	}
}
