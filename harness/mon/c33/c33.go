// Package c33 monitors C33: reward withdrawals are gated on DRep delegation
// only at protocol major versions 10 and 11.
//
// Observation points, for every cell of the truth table:
//
//	rule/conway-pp    conway.UtxoValidateWithdrawals alone, Conway tx, *ConwayProtocolParameters
//	rule/dijkstra-pp  the same rule alone, Dijkstra tx, *DijkstraProtocolParameters
//	rule/cross-pp     the same rule alone, Conway tx, *DijkstraProtocolParameters
//	conway-list       common.VerifyTransaction with conway.UtxoValidationRules
//	dijkstra-list     common.VerifyTransaction with dijkstra.UtxoValidationRules
//
// and the outcome is classified by the TYPE of the innermost error:
// conway.WithdrawalNotDelegatedToDRepError ("not-delegated"),
// conway.DRepDelegationStateUnavailableError ("unavailable"), nil ("none") or
// anything else ("other", never expected in this world and never judged as a
// delegation outcome).
//
// Oracle = the statement's truth table for registered key-hash reward accounts
// on an otherwise valid transaction (see expected()). One cell is left open:
// PV10/11 + capability missing + only zero amounts may yield nil or the
// "unavailable" error (the statement does not decide it).
package c33

import (
	"bytes"
	"errors"
	"fmt"
	"strings"

	"github.com/blinklabs-io/gouroboros/ledger/common"
	"github.com/blinklabs-io/gouroboros/ledger/conway"

	"verifharness/cborx"
	"verifharness/core"
	lg "verifharness/ledgergen"
)

func init() {
	core.Register(&core.Monitor{
		ID:            "C33",
		Rule:          "exhaustive truth table: protocol major 0..20 x withdrawal vectors of 1..3 registered key-hash reward accounts with amounts in {0,1,10^6}^n x ledger state (every per-account delegated/undelegated mask, plus 'DRepDelegationState capability missing') x {phase-1-valid, phase-2-invalid} x {Conway, Dijkstra}; plus, for one account, a certificate in the SAME transaction (vote deleg, stake+vote deleg, vote reg-deleg, stake+vote reg-deleg, stake deleg, reg, unreg, DRep reg with the same key hash) for the withdrawing credential or, as control, another credential x PV 0..20 x {delegated, undelegated, capability missing} x amount {0, 10^6} x {Conway, Dijkstra} - the expected verdict ignores in-transaction certificates (the gate refers to the state before they are applied); where the full list rejects such a transaction for an unrelated reason the cell is judged at the rule alone (counters in_tx_cert_*); each cell observed at the withdrawals rule alone and through the era's full rule list; a case is non-trivial when no unrelated rule interfered (outcome is nil or a delegation-class error); distinct by (era, pv, amounts, mask, capability, validity)",
		MinNontrivial: 5000,
		Assumptions: []string{
			"the withdrawing transaction built by ledgergen is valid in every other respect (pre-flight: accepted at PV 9, 10 and 12 when every account is delegated)",
			"Dijkstra transactions cannot encode is_valid=false, so the phase-2-invalid Dijkstra cell is observed at the rule alone through a wrapper whose IsValid() is false",
			"the phase-2-invalid Conway cell uses ledgergen's script world (Plutus input + collateral), which the full Conway rule list accepts",
		},
		Run: run,
	})
}

const (
	clsNone        = "none"
	clsNotDeleg    = "not-delegated"
	clsUnavailable = "unavailable"
	clsOther       = "other"
)

func classify(err error) string {
	if err == nil {
		return clsNone
	}
	var nd conway.WithdrawalNotDelegatedToDRepError
	if errors.As(err, &nd) {
		return clsNotDeleg
	}
	var ua conway.DRepDelegationStateUnavailableError
	if errors.As(err, &ua) {
		return clsUnavailable
	}
	return clsOther
}

// expected is the statement's truth table.
func expected(pv uint, amounts []uint64, delegated []bool, capMissing, invalid bool) string {
	if invalid {
		return clsNone
	}
	if pv != 10 && pv != 11 {
		return clsNone
	}
	anyNonZero := false
	for _, a := range amounts {
		if a > 0 {
			anyNonZero = true
		}
	}
	if !anyNonZero {
		return clsNone
	}
	if capMissing {
		return clsUnavailable
	}
	for i, a := range amounts {
		if a > 0 && !delegated[i] {
			return clsNotDeleg
		}
	}
	return clsNone
}

func band(pv uint) string {
	switch {
	case pv < 10:
		return "pv0-9"
	case pv <= 11:
		return "pv10-11"
	}
	return "pv12+"
}

// phase2Invalid presents a decoded transaction as phase-2-invalid.
type phase2Invalid struct{ common.Transaction }

func (phase2Invalid) IsValid() bool { return false }

type tcase struct {
	era        lg.Era
	pv         uint
	amounts    []uint64
	delegated  []bool
	capMissing bool
	invalid    bool
	// cert names a certificate carried by the same transaction ("" = none);
	// certSame says whether it is for the withdrawing credential (amounts[0])
	// or, as a control, for another credential.
	cert     string
	certSame bool
}

func (t tcase) String() string {
	s := fmt.Sprintf("era=%s pv=%d amounts=%v delegated=%v capability_missing=%v phase2_invalid=%v", t.era, t.pv, t.amounts, t.delegated, t.capMissing, t.invalid)
	if t.cert != "" {
		s += fmt.Sprintf(" in_tx_certificate=%s for_%s_credential", t.cert, t.certTarget())
	}
	return s
}

func (t tcase) certTarget() string {
	if t.certSame {
		return "same"
	}
	return "other"
}

// certKinds are the certificates the surrounding transaction may carry. The
// expected verdict of the withdrawal gate does not depend on any of them: the
// gate looks at the ledger state the transaction is validated against, i.e.
// before its own certificates are applied.
var certKinds = []string{"vote-deleg", "stake-vote-deleg", "vote-reg-deleg", "stake-vote-reg-deleg", "stake-deleg", "reg", "unreg", "drep-reg"}

var certPool = lg.Blake224([]byte("c33-pool"))

const certDeposit = 2_000_000 // key deposit of DefaultParams; also used as DRep deposit here

// addCert puts certificate kind for credential k into the transaction and
// makes the ledger state / balance fit as far as the kind allows.
func addCert(w *lg.World, s *lg.TxSpec, kind string, k lg.Key, same bool) (extraConsumed, extraProduced uint64) {
	cred := lg.CredKey(k.Hash())
	drep := lg.DRepAbstain()
	pool := cborx.B(certPool[:])
	w.State.Pools[certPool] = &common.PoolRegistrationCertificate{CertType: 3, Operator: common.PoolKeyHash(certPool)}
	w.Params.DRepDeposit = certDeposit
	needsRegistered := true
	var n *cborx.Node
	switch kind {
	case "vote-deleg":
		n = lg.CertVoteDeleg(cred, drep)
	case "stake-vote-deleg":
		n = cborx.A(cborx.U(10), cred, pool, drep)
	case "vote-reg-deleg":
		n = cborx.A(cborx.U(12), cred, drep, cborx.U(certDeposit))
		extraProduced, needsRegistered = certDeposit, false
	case "stake-vote-reg-deleg":
		n = cborx.A(cborx.U(13), cred, pool, drep, cborx.U(certDeposit))
		extraProduced, needsRegistered = certDeposit, false
	case "stake-deleg":
		n = lg.CertStakeDeleg(cred, certPool)
	case "reg":
		n = lg.CertReg(cred, certDeposit)
		extraProduced, needsRegistered = certDeposit, false
	case "unreg":
		n = lg.CertUnreg(cred, certDeposit)
		extraConsumed = certDeposit
	case "drep-reg":
		n = lg.CertDRepReg(cred, certDeposit)
		extraProduced, needsRegistered = certDeposit, false
	default:
		panic("unknown certificate kind " + kind)
	}
	s.Certs = append(s.Certs, n)
	if !same {
		// the control credential: registered exactly when the kind needs it
		// (the withdrawing credential is always registered, so registering
		// kinds for it are refused by the delegation rule of the full list –
		// those cells are judged at the withdrawals rule alone)
		if needsRegistered {
			w.State.RegisterStake(k.Hash(), 0)
		}
		s.Signers = append(s.Signers, k)
	}
	return
}

var stakeKeys = []lg.Key{lg.NewKey("stake-0"), lg.NewKey("stake-1"), lg.NewKey("stake-2")}

// build returns the world and the transaction description of a case.
func build(t tcase) (*lg.World, *lg.TxSpec) {
	var w *lg.World
	if t.invalid && t.era == lg.Conway {
		w = lg.NewScriptWorld(t.era, 1).World
	} else {
		w = lg.NewWorld(t.era)
	}
	w.Params.ProtocolMajor = t.pv
	s := w.Spec.Clone()
	for i, a := range t.amounts {
		k := stakeKeys[i]
		w.State.RegisterStake(k.Hash(), a)
		s.Withdrawals = append(s.Withdrawals, lg.Withdrawal{Account: lg.RewardKeyAddr(w.Net, k.Hash()), Amount: a})
		s.Signers = append(s.Signers, k)
		if t.delegated[i] {
			w.State.DRepDelegations[k.Hash()] = &common.Drep{Type: common.DrepTypeAbstain}
		}
	}
	var exC, exP uint64
	if t.cert != "" {
		k := stakeKeys[0]
		if !t.certSame {
			k = stakeKeys[2]
		}
		exC, exP = addCert(w, s, t.cert, k, t.certSame)
	}
	if err := w.Rebalance(s, exC, exP); err != nil {
		panic(err)
	}
	if t.invalid && t.era == lg.Conway {
		s.Invalid = true
	}
	return w, s
}

func run(c *core.Ctx) {
	// generic checks (lg.Independence): re-validation of the same objects and
	// presentation variants (map key order) of rejected transactions
	lg.EnableChecks(c)
	// pre-flight: the withdrawing transaction is valid in every other respect.
	// All accounts are delegated here, so that its acceptance does not depend
	// on where the gate sits (the property under test).
	for _, e := range []lg.Era{lg.Conway, lg.Dijkstra} {
		for _, pv := range []uint{9, 10, 12} {
			w, s := build(tcase{era: e, pv: pv, amounts: []uint64{1_000_000, 1}, delegated: []bool{true, true}})
			if o := w.Run(s, w.Slot); !o.Accepted {
				forceInconclusive(c, fmt.Sprintf("pre-flight: %s withdrawing transaction at PV%d not accepted (decode=%v verify=%v)", e, pv, o.DecodeErr, o.VerifyErr))
				return
			}
		}
	}
	w, s := build(tcase{era: lg.Conway, pv: 12, amounts: []uint64{1}, delegated: []bool{true}, invalid: true})
	if o := w.Run(s, w.Slot); !o.Accepted {
		forceInconclusive(c, fmt.Sprintf("pre-flight: phase-2-invalid Conway withdrawing transaction not accepted (decode=%v verify=%v)", o.DecodeErr, o.VerifyErr))
		return
	}

	amountSet := []uint64{0, 1, 1_000_000}
	var vectors [][]uint64
	for n := 1; n <= 3; n++ {
		total := 1
		for i := 0; i < n; i++ {
			total *= len(amountSet)
		}
		for x := 0; x < total; x++ {
			v := make([]uint64, n)
			y := x
			for i := 0; i < n; i++ {
				v[i] = amountSet[y%len(amountSet)]
				y /= len(amountSet)
			}
			vectors = append(vectors, v)
		}
	}
	var cases []tcase
	for _, e := range []lg.Era{lg.Conway, lg.Dijkstra} {
		for pv := uint(0); pv <= 20; pv++ {
			for _, invalid := range []bool{false, true} {
				for _, v := range vectors {
					n := len(v)
					for mask := 0; mask < 1<<n; mask++ {
						d := make([]bool, n)
						for i := range d {
							d[i] = mask>>i&1 == 1
						}
						cases = append(cases, tcase{era: e, pv: pv, amounts: v, delegated: d, invalid: invalid})
					}
					cases = append(cases, tcase{era: e, pv: pv, amounts: v, delegated: make([]bool, n), capMissing: true, invalid: invalid})
				}
			}
		}
	}
	c.Note("truth_table_cells", len(cases))
	plainCells := len(cases)
	// the transaction around the withdrawal varies too: one certificate for the
	// withdrawing credential (or, as control, another one) in the same tx
	for _, e := range []lg.Era{lg.Conway, lg.Dijkstra} {
		for pv := uint(0); pv <= 20; pv++ {
			for _, kind := range certKinds {
				for _, same := range []bool{true, false} {
					for _, amount := range []uint64{0, 1_000_000} {
						for st := 0; st < 3; st++ { // delegated, undelegated, capability missing
							cases = append(cases, tcase{era: e, pv: pv, amounts: []uint64{amount}, delegated: []bool{st == 0}, capMissing: st == 2, cert: kind, certSame: same})
						}
					}
				}
			}
		}
	}
	c.Note("cells_with_in_tx_certificate", len(cases)-plainCells)
	c.Note("withdrawal_vectors", len(vectors))

	ruleFn := conway.UtxoValidateWithdrawals

	c.Parallel("case", len(cases), 0, func(i int, _ *core.Rand) {
		t := cases[i]
		c.Journal("C33 case %d %s", i, t)
		w, spec := build(t)
		built := spec.Build()
		tx, err := built.Decode()
		c.Eval()
		if err != nil {
			c.Count("decode_failed", 1)
			c.Violation("C33:decode:"+t.era.String(), "withdrawing transaction does not decode: "+err.Error(),
				map[string]any{"case": t.String(), "tx_cbor": core.HexFull(built.Cbor)})
			return
		}
		var ls common.LedgerState = w.State
		if t.capMissing {
			ls = lg.WithoutDRepDelegation(w.State)
			if _, has := ls.(common.DRepDelegationState); has {
				panic("wrapper still exposes DRepDelegation")
			}
		}
		want := expected(t.pv, t.amounts, t.delegated, t.capMissing, t.invalid)

		type obs struct {
			site string
			err  error
		}
		var observed []obs
		ruleTx := tx
		if t.invalid && t.era == lg.Dijkstra {
			ruleTx = phase2Invalid{tx}
		}
		// every observation is repeated on the same objects (lg.Checked; lg.Verify
		// does it itself); a full-list rejection is re-run in other presentations
		ruleAlone := func(pp common.ProtocolParameters) error {
			return lg.Checked(t.era, ruleTx, ls, func() error { return ruleFn(ruleTx, w.Slot, ls, pp) })
		}
		list := func(e lg.Era) error {
			err := lg.Verify(e, tx, w.Slot, ls, w.PP())
			lg.CheckPresentations(spec, built, err, func(v common.Transaction) error { return lg.Verify(e, v, w.Slot, ls, w.PP()) })
			return err
		}
		if t.era == lg.Conway {
			observed = append(observed, obs{"rule/conway-pp", ruleAlone(w.PP())})
			observed = append(observed, obs{"rule/cross-pp", ruleAlone(w.Params.For(lg.Dijkstra))})
			observed = append(observed, obs{"conway-list", list(lg.Conway)})
		} else {
			observed = append(observed, obs{"rule/dijkstra-pp", ruleAlone(w.PP())})
			if !t.invalid {
				observed = append(observed, obs{"dijkstra-list", list(lg.Dijkstra)})
			}
		}
		clean := true
		for _, o := range observed {
			got := classify(o.err)
			c.Count("outcome:"+o.site+":"+got, 1)
			if got == clsOther {
				clean = false
				c.Count("other_error:"+o.site+":"+lg.ErrType(o.err), 1)
				if t.cert != "" && strings.HasSuffix(o.site, "-list") {
					// unrelated rejection by another rule of the list (e.g. registering
					// an already registered credential): this cell is judged at the
					// withdrawals rule alone
					c.Count("in_tx_cert_full_list_unrelated_rejection_rule_alone_judged:"+t.cert+":"+t.certTarget(), 1)
				}
				if t.invalid && strings.HasPrefix(o.site, "rule/") {
					// the statement: phase-2-invalid => the rule says nothing
					c.Violation("C33:"+o.site+":invalid-tx-not-skipped", "withdrawals rule returned an error for a phase-2-invalid transaction: "+o.err.Error(), witness(t, built, o.site, want, got, o.err))
				}
				continue
			}
			if got == clsUnavailable && want == clsNone && !t.invalid && t.capMissing && (t.pv == 10 || t.pv == 11) {
				// PV10/11, capability missing, every amount zero: the statement
				// ("a state that cannot answer yields 'state unavailable'") can be
				// read either way for zero withdrawals; both outcomes are allowed.
				c.Count("either_allowed:zero-amount-capability-missing:"+got, 1)
				continue
			}
			if got != want {
				key := fmt.Sprintf("C33:%s:%s->%s:%s", o.site, want, got, band(t.pv))
				if t.invalid {
					key += ":phase2-invalid"
				}
				if t.cert != "" {
					key += ":in-tx-cert:" + t.cert + ":" + t.certTarget() + "-credential"
				}
				c.Violation(key, fmt.Sprintf("%s: truth table says %q, observed %q (%s)", o.site, want, got, t), witness(t, built, o.site, want, got, o.err))
				continue
			}
			if got == clsNotDeleg {
				// the blamed account must be one that is non-zero and undelegated
				var nd conway.WithdrawalNotDelegatedToDRepError
				errors.As(o.err, &nd)
				blamed, _ := nd.RewardAddress.Bytes()
				ok := false
				for j, a := range t.amounts {
					if a > 0 && !t.delegated[j] && bytes.Equal(blamed, lg.RewardKeyAddr(w.Net, stakeKeys[j].Hash())) {
						ok = true
					}
				}
				if !ok {
					c.Violation("C33:"+o.site+":wrong-account-blamed", fmt.Sprintf("the not-delegated error names %x, which is not a non-zero undelegated withdrawal (%s)", blamed, t), witness(t, built, o.site, want, got, o.err))
				}
			}
		}
		if t.cert != "" {
			// the rule-alone observations always judge these cells
			c.Distinct(t.era.String(), t.pv, fmt.Sprint(t.amounts), fmt.Sprint(t.delegated), t.capMissing, t.cert, t.certSame)
			c.Count("in_tx_cert_cells:"+t.cert+":"+t.certTarget(), 1)
			c.Count("in_tx_cert_expected:"+want, 1)
			if clean {
				c.Count("in_tx_cert_full_list_judged:"+t.cert+":"+t.certTarget(), 1)
			}
		} else if clean {
			c.Distinct(t.era.String(), t.pv, fmt.Sprint(t.amounts), fmt.Sprint(t.delegated), t.capMissing, t.invalid)
			c.Count("expected:"+want, 1)
		}
		if i%1777 == 0 {
			c.Sample(map[string]any{"case": t.String(), "expected": want, "tx_cbor": core.HexFull(built.Cbor)})
		}
	})
	c.SetExhaustive()
	// every class of the truth table must have been observed, and accepted
	for _, k := range []string{"expected:" + clsNone, "expected:" + clsNotDeleg, "expected:" + clsUnavailable,
		"outcome:conway-list:" + clsNone, "outcome:dijkstra-list:" + clsNone} {
		if c.Counter(k) == 0 {
			forceInconclusive(c, "never observed: "+k)
		}
	}
}

func witness(t tcase, b *lg.Built, site, want, got string, err error) map[string]any {
	w := map[string]any{
		"site": site, "era": t.era.String(), "protocol_major": t.pv, "withdrawal_amounts": t.amounts,
		"delegated": t.delegated, "capability_missing": t.capMissing, "phase2_invalid": t.invalid,
		"in_tx_certificate": t.cert, "in_tx_certificate_credential": t.certTarget(),
		"expected": want, "observed": got, "tx_cbor": core.HexFull(b.Cbor),
	}
	if err != nil {
		w["error"] = err.Error()
		w["error_type"] = lg.ErrType(err)
	}
	return w
}

// forceInconclusive records a run-level reason why nothing can be concluded
// often enough to cross the supervisor's 2 % line.
func forceInconclusive(c *core.Ctx, what string) {
	n := int(c.Evals()/50) + 1
	for i := 0; i < n; i++ {
		c.Inconclusive(what)
	}
}
