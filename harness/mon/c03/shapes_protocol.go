package c03

import (
	"fmt"

	gcbor "github.com/blinklabs-io/gouroboros/cbor"
	pcommon "github.com/blinklabs-io/gouroboros/protocol/common"
	lsq "github.com/blinklabs-io/gouroboros/protocol/localstatequery"
	"github.com/blinklabs-io/gouroboros/protocol/peersharing"

	"verifharness/core"
)

// ---------------------------------------------------------------- local-state-query queries

// queryAt unwraps depth levels of the decoded query tree.
func queryAt(q any, depth int) any {
	for i := 0; i < depth; i++ {
		switch x := q.(type) {
		case *lsq.QueryWrapper:
			q = x.Query
		case *lsq.BlockQuery:
			q = x.Query
		case *lsq.ShelleyQuery:
			q = x.Query
		case *lsq.HardForkQuery:
			q = x.Query
		case *lsq.ShelleyCborQuery:
			q = x.Query
		default:
			return fmt.Sprintf("cannot unwrap %T", q)
		}
	}
	return q
}

func decodeQueryAt(depth int) func(b []byte) (string, any, error) {
	return func(b []byte) (string, any, error) {
		var w lsq.QueryWrapper
		if _, err := gcbor.Decode(b, &w); err != nil {
			return "", nil, err
		}
		return typeOf(queryAt(&w, depth)), &w, nil
	}
}

func setOf(f func(r *core.Rand) N) func(r *core.Rand) N {
	return func(r *core.Rand) N { return T(258, A(f(r), f(r))) }
}

func init() {
	q := "*localstatequery."
	// query = [0, block_query] / [1] get_system_start / [2] get_chain_block_no / [3] get_chain_point
	top := func(name string, tag uint64, want string, payload func(r *core.Rand) []N) shape {
		return shape{consumer: "lsq.QueryWrapper", name: "lsq.QueryWrapper/" + name, tag: tag, want: want,
			build: self(tag, payload), decode: decodeQueryAt(1)}
	}
	register(
		top("block", 0, q+"BlockQuery", fixed(A(U(2), A(U(1))))),
		top("system-start", 1, q+"SystemStartQuery", nil),
		top("chain-block-no", 2, q+"ChainBlockNoQuery", nil),
		top("chain-point", 3, q+"ChainPointQuery", nil),
		top("unknown-4", 4, "", nil),
	)
	// block_query = [0, [era, shelley_query]] / [2, hard_fork_query]  (1 = byron, not supported)
	blk := func(name string, tag uint64, want string, payload func(r *core.Rand) []N) shape {
		return shape{consumer: "lsq.BlockQuery", name: "lsq.BlockQuery/" + name, tag: tag, want: want,
			build: func(r *core.Rand) (N, N) {
				l := A(U(tag))
				l.Items = append(l.Items, payload(r)...)
				return A(U(0), l), l
			}, decode: decodeQueryAt(2)}
	}
	register(
		blk("shelley", 0, q+"ShelleyQuery", fixed(A(U(5), A(U(1))))),
		blk("hard-fork", 2, q+"HardForkQuery", fixed(A(U(1)))),
		blk("byron-1", 1, "", fixed(A(U(0)))),
		blk("unknown-3", 3, "", fixed(A(U(1)))),
	)
	// hard_fork_query = [0] era history / [1] current era
	hf := func(name string, tag uint64, want string) shape {
		return shape{consumer: "lsq.HardForkQuery", name: "lsq.HardForkQuery/" + name, tag: tag, want: want,
			build: func(r *core.Rand) (N, N) {
				l := A(U(tag))
				return A(U(0), A(U(2), l)), l
			}, decode: decodeQueryAt(3)}
	}
	register(
		hf("era-history", 0, q+"HardForkEraHistoryQuery"),
		hf("current-era", 1, q+"HardForkCurrentEraQuery"),
		hf("unknown-2", 2, ""),
	)

	// Shelley block-query leaves: [0, [0, [era, leaf]]]; numbering of
	// ouroboros-consensus' BlockQuery (ShelleyBlock) encoder
	poolID := h28
	type leaf struct {
		tag     uint64
		want    string
		payload func(r *core.Rand) []N
	}
	leaves := []leaf{
		{0, "ShelleyLedgerTipQuery", nil},
		{1, "ShelleyEpochNoQuery", nil},
		{2, "ShelleyNonMyopicMemberRewardsQuery", nil},
		{3, "ShelleyCurrentProtocolParamsQuery", nil},
		{4, "ShelleyProposedProtocolParamsUpdatesQuery", nil},
		{5, "ShelleyStakeDistributionQuery", nil},
		{6, "ShelleyUtxoByAddressQuery", func(r *core.Rand) []N { return []N{A(baseAddr(r), baseAddr(r))} }},
		{7, "ShelleyUtxoWholeQuery", nil},
		{8, "ShelleyDebugEpochStateQuery", nil},
		{9, "ShelleyCborQuery", fixed(A(U(1)))},
		{10, "ShelleyFilteredDelegationAndRewardAccountsQuery", items(setOf(cred))},
		{11, "ShelleyGenesisConfigQuery", nil},
		{12, "ShelleyDebugNewEpochStateQuery", nil},
		{13, "ShelleyDebugChainDepStateQuery", nil},
		{14, "ShelleyRewardProvenanceQuery", nil},
		{15, "ShelleyUtxoByTxinQuery", func(r *core.Rand) []N { return []N{A(txin(r), txin(r))} }},
		{16, "ShelleyStakePoolsQuery", nil},
		{17, "ShelleyStakePoolParamsQuery", items(setOf(poolID))},
		{18, "ShelleyRewardInfoPoolsQuery", nil},
		{19, "ShelleyPoolStateQuery", nil},
		{20, "ShelleyStakeSnapshotsQuery", fixed(A())},
		{21, "ShelleyPoolDistrQuery", nil},
		{22, "ShelleyStakeDelegDepositsQuery", items(setOf(cred))},
		{23, "ShelleyConstitutionQuery", nil},
		{24, "ShelleyGovStateQuery", nil},
		{25, "ShelleyDRepStateQuery", items(setOf(cred))},
		{26, "ShelleyDRepStakeDistrQuery", items(setOf(drepNode))},
		{27, "ShelleyCommitteeMembersStateQuery", func(r *core.Rand) []N {
			return []N{T(258, A(cred(r))), T(258, A(cred(r))), T(258, A(U(0), U(1)))}
		}},
		{28, "ShelleyFilteredVoteDelegateesQuery", items(setOf(cred))},
		{29, "ShelleyAccountStateQuery", nil},
		{30, "ShelleySPOStakeDistrQuery", items(setOf(poolID))},
		{31, "ShelleyGetProposalsQuery", items(setOf(actionID))},
		{32, "ShelleyGetRatifyStateQuery", nil},
		{33, "", nil},
		{34, "ShelleyGetLedgerPeerSnapshotQuery", fixed(U(1))},
		{35, "", nil},
		{36, "ShelleyPoolDistr2Query", fixed(A())},
		{37, "", nil},
	}
	for _, lf := range leaves {
		lf := lf
		want := ""
		if lf.want != "" {
			want = q + lf.want
		}
		name := lf.want
		if name == "" {
			name = "unknown"
		}
		// the network spec gives these three queries an argument; the library models them as [tag]
		lib := lf.tag == 2 || lf.tag == 19 || lf.tag == 21
		register(shape{libShaped: lib, consumer: "lsq.ShelleyQuery", name: fmt.Sprintf("lsq.ShelleyQuery/%d-%s", lf.tag, name), tag: lf.tag, want: want,
			build: func(r *core.Rand) (N, N) {
				l := A(U(lf.tag))
				if lf.payload != nil {
					l.Items = append(l.Items, lf.payload(r)...)
				}
				return A(U(0), A(U(0), A(U(6), l))), l
			}, decode: decodeQueryAt(3)})
	}
	// the second pool-filter form and the GetCBOR combinator's inner query
	register(
		shape{consumer: "lsq.ShelleyQuery", name: "lsq.ShelleyQuery/20-StakeSnapshots-filter", tag: 20, want: q + "ShelleyStakeSnapshotsQuery",
			build: func(r *core.Rand) (N, N) {
				l := A(U(20), A(T(258, A(h28(r)))))
				return A(U(0), A(U(0), A(U(6), l))), l
			}, decode: decodeQueryAt(3)},
		shape{consumer: "lsq.ShelleyQuery", name: "lsq.ShelleyQuery/36-PoolDistr2-filter", tag: 36, want: q + "ShelleyPoolDistr2Query",
			build: func(r *core.Rand) (N, N) {
				l := A(U(36), A(T(258, A(h28(r)))))
				return A(U(0), A(U(0), A(U(6), l))), l
			}, decode: decodeQueryAt(3)},
	)
	for _, in := range []leaf{{0, "ShelleyLedgerTipQuery", nil}, {20, "ShelleyStakeSnapshotsQuery", fixed(A())}, {5, "ShelleyStakeDistributionQuery", nil}, {33, "", nil}} {
		in := in
		want := ""
		if in.want != "" {
			want = q + in.want
		}
		register(shape{consumer: "lsq.ShelleyCborQuery", name: fmt.Sprintf("lsq.ShelleyCborQuery/inner-%d", in.tag), tag: in.tag, want: want,
			build: func(r *core.Rand) (N, N) {
				l := A(U(in.tag))
				if in.payload != nil {
					l.Items = append(l.Items, in.payload(r)...)
				}
				return A(U(0), A(U(0), A(U(6), A(U(9), l)))), l
			}, decode: decodeQueryAt(4)})
	}
}

// ---------------------------------------------------------------- local-state-query results, peer sharing, DMQ

func init() {
	// WithOrigin SlotNo: [0] / [1, slot]
	wo := func(name string, tag uint64, want string, payload func(r *core.Rand) []N) shape {
		return shape{consumer: "lsq.WithOriginSlot", name: "lsq.WithOriginSlot/" + name, tag: tag, want: want, build: self(tag, payload),
			decode: func(b []byte) (string, any, error) {
				var d lsq.WithOriginSlot
				if _, err := gcbor.Decode(b, &d); err != nil {
					return "", nil, err
				}
				return fmt.Sprintf("HasSlot=%v", d.HasSlot), &d, nil
			}}
	}
	register(
		wo("origin", 0, "HasSlot=false", nil),
		wo("at", 1, "HasSlot=true", items(slot)),
		wo("unknown-2", 2, "", nil),
		wo("unknown-2-slot", 2, "", items(slot)),
	)

	// RelayAccessPoint: [0, ipv4, port] / [1, ipv6, port] / [2, domain, port] / [3, domain]
	ra := func(name string, tag uint64, want string, payload func(r *core.Rand) []N) shape {
		return shape{consumer: "lsq.RelayAccessPoint", name: "lsq.RelayAccessPoint/" + name, tag: tag, want: want, build: self(tag, payload),
			decode: func(b []byte) (string, any, error) {
				var d lsq.RelayAccessPoint
				if _, err := gcbor.Decode(b, &d); err != nil {
					return "", nil, err
				}
				return fmt.Sprintf("Kind=%d", d.Kind), &d, nil
			}}
	}
	u32 := func(r *core.Rand) N { return U(r.Uint64() & 0xffffffff) }
	register(
		ra("ipv4", 0, "Kind=0", func(r *core.Rand) []N { return []N{u32(r), U(3001)} }),
		ra("ipv4-bytes", 0, "Kind=0", func(r *core.Rand) []N { return []N{B(r.Bytes(4)), U(3001)} }),
		ra("ipv6", 1, "Kind=1", func(r *core.Rand) []N { return []N{A(u32(r), u32(r), u32(r), u32(r)), U(3001)} }),
		ra("ipv6-bytes", 1, "Kind=1", func(r *core.Rand) []N { return []N{B(r.Bytes(16)), U(3001)} }),
		ra("domain", 2, "Kind=2", fixed(B([]byte("relay.example.org")), U(3001))),
		ra("domain-4-bytes", 2, "Kind=2", fixed(B([]byte("a.io")), U(3001))),
		ra("domain-16-bytes", 2, "Kind=2", fixed(B([]byte("relays.cardano.x")), U(3001))),
		ra("srv", 3, "Kind=3", fixed(B([]byte("_cardano._tcp.example.org")))),
		ra("unknown-4", 4, "", fixed(B([]byte("x.org")))),
		ra("unknown-4-port", 4, "", fixed(B([]byte("x.io")), U(3001))),
	)

	// HotCredAuthStatus: [0] / [1, credential] / [2, anchor / null]
	hc := func(name string, tag uint64, want string, payload func(r *core.Rand) []N) shape {
		return shape{consumer: "lsq.HotCredAuthStatusValue", name: "lsq.HotCredAuthStatusValue/" + name, tag: tag, want: want, build: self(tag, payload),
			decode: func(b []byte) (string, any, error) {
				var d lsq.HotCredAuthStatusValue
				if _, err := gcbor.Decode(b, &d); err != nil {
					return "", nil, err
				}
				return fmt.Sprintf("Status=%d", d.Status), &d, nil
			}}
	}
	register(
		hc("not-authorized", 0, "Status=0", nil),
		hc("authorized", 1, "Status=1", items(cred)),
		hc("resigned", 2, "Status=2", items(anchor)),
		hc("resigned-null", 2, "Status=2", fixed(Null())),
		hc("unknown-3", 3, "", nil),
		hc("unknown-3-null", 3, "", fixed(Null())),
	)

	// NextEpochChange: uint 0..3 / [5, epoch]
	ne := func(name string, tag uint64, want string, payload func(r *core.Rand) []N) shape {
		return shape{consumer: "lsq.NextEpochChangeValue", name: "lsq.NextEpochChangeValue/" + name, tag: tag, want: want, build: self(tag, payload),
			decode: func(b []byte) (string, any, error) {
				var d lsq.NextEpochChangeValue
				if _, err := gcbor.Decode(b, &d); err != nil {
					return "", nil, err
				}
				return fmt.Sprintf("Change=%d", d.Change), &d, nil
			}}
	}
	register(
		ne("term-adjusted", 5, "Change=5", fixed(U(512))),
		ne("unknown-4", 4, "", fixed(U(512))),
		ne("unknown-1", 1, "", fixed(U(512))),
	)

	// LedgerPeerSnapshot: [0, [WithOrigin slot, [pool...]]]; other versions unsupported
	ls := func(name string, tag uint64, want string) shape {
		return shape{consumer: "lsq.LedgerPeerSnapshotResult", name: "lsq.LedgerPeerSnapshotResult/" + name, tag: tag, want: want,
			build: self(tag, func(r *core.Rand) []N {
				return []N{A(A(U(1), slot(r)), A(A(rat(1, 4), A(rat(1, 4), A(A(U(2), B([]byte("relay.example.org")), U(3001)))))))}
			}),
			decode: func(b []byte) (string, any, error) {
				var d lsq.LedgerPeerSnapshotResult
				if _, err := gcbor.Decode(b, &d); err != nil {
					return "", nil, err
				}
				return fmt.Sprintf("Version=%d", d.Version), &d, nil
			}}
	}
	register(ls("v1", 0, "Version=0"), ls("unknown-1", 1, ""))
	// the tagged lists nested inside a snapshot go through the same decoders
	register(shape{consumer: "lsq.RelayAccessPoint", name: "lsq.RelayAccessPoint/in-snapshot-domain-4-bytes", tag: 2, want: "Kind=2",
		build: func(r *core.Rand) (N, N) {
			l := A(U(2), B([]byte("a.io")), U(3001))
			return A(U(0), A(A(U(0)), A(A(rat(1, 4), A(rat(1, 4), A(l)))))), l
		},
		decode: func(b []byte) (string, any, error) {
			var d lsq.LedgerPeerSnapshotResult
			if _, err := gcbor.Decode(b, &d); err != nil {
				return "", nil, err
			}
			if len(d.Pools) != 1 || len(d.Pools[0].Detail.Relays) != 1 {
				return "", nil, fmt.Errorf("unexpected snapshot shape")
			}
			return fmt.Sprintf("Kind=%d", d.Pools[0].Detail.Relays[0].Kind), &d, nil
		}})

	// peer-sharing peerAddress = [0, word32, portNumber] / [1, word32 x4, portNumber] (v11-12: + flowInfo, scopeId)
	pa := func(name string, tag uint64, want string, payload func(r *core.Rand) []N) shape {
		return shape{consumer: "peersharing.PeerAddress", name: "peersharing.PeerAddress/" + name, tag: tag, want: want, build: self(tag, payload),
			decode: func(b []byte) (string, any, error) {
				var d peersharing.PeerAddress
				if _, err := gcbor.Decode(b, &d); err != nil {
					return "", nil, err
				}
				return fmt.Sprintf("ip-bytes=%d", len(d.IP)), &d, nil
			}}
	}
	register(
		pa("ipv4", 0, "ip-bytes=4", func(r *core.Rand) []N { return []N{u32(r), U(3001)} }),
		pa("ipv6", 1, "ip-bytes=16", func(r *core.Rand) []N { return []N{u32(r), u32(r), u32(r), u32(r), U(3001)} }),
		pa("ipv6-v11", 1, "ip-bytes=16", func(r *core.Rand) []N { return []N{u32(r), u32(r), u32(r), u32(r), U(0), U(0), U(3001)} }),
		pa("unknown-2", 2, "", func(r *core.Rand) []N { return []N{u32(r), U(3001)} }),
		pa("unknown-2-ipv6", 2, "", func(r *core.Rand) []N { return []N{u32(r), u32(r), u32(r), u32(r), U(3001)} }),
	)

	// CIP-0137 reject reason = [0, tstr] invalid / [1] already received / [2] expired / [3, tstr] other
	rr := func(name string, tag uint64, want string, payload func(r *core.Rand) []N) shape {
		return shape{consumer: "dmq.RejectReasonData", name: "dmq.RejectReasonData/" + name, tag: tag, want: want, build: self(tag, payload),
			decode: func(b []byte) (string, any, error) {
				var d pcommon.RejectReasonData
				if _, err := gcbor.Decode(b, &d); err != nil {
					return "", nil, err
				}
				rr, err := pcommon.FromRejectReasonData(d)
				if err != nil {
					return "", nil, err
				}
				return typeOf(rr), &d, nil
			}}
	}
	register(
		rr("invalid", 0, "common.InvalidReason", fixed(S("bad signature"))),
		rr("already-received", 1, "common.AlreadyReceivedReason", nil),
		rr("expired", 2, "common.ExpiredReason", nil),
		rr("other", 3, "common.OtherReason", fixed(S("other"))),
		rr("unknown-4", 4, "", fixed(S("x"))),
	)
}
