package c03

import (
	"fmt"
	"reflect"

	gcbor "github.com/blinklabs-io/gouroboros/cbor"
	"github.com/blinklabs-io/gouroboros/ledger/babbage"
	"github.com/blinklabs-io/gouroboros/ledger/byron"
	"github.com/blinklabs-io/gouroboros/ledger/common"
	"github.com/blinklabs-io/gouroboros/ledger/conway"
	"github.com/blinklabs-io/gouroboros/ledger/dijkstra"

	"verifharness/cborx"
	"verifharness/core"
)

// ---------------------------------------------------------------- builders

type N = *cborx.Node

var (
	U    = cborx.U
	B    = cborx.B
	S    = cborx.S
	A    = cborx.A
	M    = cborx.M
	T    = cborx.T
	Null = cborx.Null
)

func h28(r *core.Rand) N { return B(r.Bytes(28)) }
func h32(r *core.Rand) N { return B(r.Bytes(32)) }
func cred(r *core.Rand) N {
	return A(U(uint64(r.Intn(2))), h28(r))
}
func rewardAddr(r *core.Rand) N { return B(append([]byte{0xe1}, r.Bytes(28)...)) }
func baseAddr(r *core.Rand) N   { return B(append([]byte{0x01}, r.Bytes(56)...)) }
func anchor(r *core.Rand) N     { return A(S("https://example.org/a.json"), h32(r)) }
func actionID(r *core.Rand) N   { return A(h32(r), U(uint64(r.Intn(4)))) }
func rat(n, d uint64) N         { return T(30, A(U(n), U(d))) }
func txin(r *core.Rand) N       { return A(h32(r), U(uint64(r.Intn(6)))) }
func coin(r *core.Rand) N       { return U(uint64(r.Range(1, 4_000_000))) }
func slot(r *core.Rand) N       { return U(uint64(r.Range(0, 90_000_000))) }

// self builds a shape whose root is the tagged list itself.
func self(tag uint64, payload func(r *core.Rand) []N) func(r *core.Rand) (N, N) {
	return func(r *core.Rand) (N, N) {
		l := A(U(tag))
		if payload != nil {
			l.Items = append(l.Items, payload(r)...)
		}
		return l, l
	}
}

func items(f ...func(r *core.Rand) N) func(r *core.Rand) []N {
	return func(r *core.Rand) []N {
		var out []N
		for _, g := range f {
			out = append(out, g(r))
		}
		return out
	}
}

func fixed(n ...N) func(r *core.Rand) []N {
	return func(*core.Rand) []N {
		out := make([]N, len(n))
		for i, x := range n {
			out[i] = x.Clone()
		}
		return out
	}
}

func typeOf(v any) string {
	if v == nil {
		return "nil"
	}
	return reflect.TypeOf(v).String()
}

// ---------------------------------------------------------------- native scripts

// keys used for the Evaluate observation: K1 is "signed", K2 is not.
var k1 = core.MustUnhex("11111111111111111111111111111111111111111111111111111111")
var k2 = core.MustUnhex("22222222222222222222222222222222222222222222222222222222")

func pk(k []byte) N { return A(U(0), B(k)) }

func decodeNativeScript(b []byte) (string, any, error) {
	var ns common.NativeScript
	if _, err := gcbor.Decode(b, &ns); err != nil {
		return "", nil, err
	}
	return typeOf(ns.Item()), &ns, nil
}

func observeNativeScript(v any) string {
	ns := v.(*common.NativeScript)
	var kh common.Blake2b224
	copy(kh[:], k1)
	a := ns.Evaluate(150, 100, 200, map[common.Blake2b224]bool{kh: true})
	b := ns.Evaluate(150, 100, 200, map[common.Blake2b224]bool{})
	c := ns.Evaluate(150, 0, 1000, map[common.Blake2b224]bool{kh: true})
	return fmt.Sprintf("eval(signed K1,[100,200))=%v eval(unsigned)=%v eval(signed,[0,1000))=%v", a, b, c)
}

func init() {
	ns := func(name string, tag uint64, want string, payload func(r *core.Rand) []N) shape {
		return shape{consumer: "NativeScript", name: "NativeScript/" + name, tag: tag, want: want,
			build: self(tag, payload), decode: decodeNativeScript, observe: observeNativeScript}
	}
	const (
		tPub  = "*common.NativeScriptPubkey"
		tAll  = "*common.NativeScriptAll"
		tAny  = "*common.NativeScriptAny"
		tNofK = "*common.NativeScriptNofK"
		tBef  = "*common.NativeScriptInvalidBefore"
		tAft  = "*common.NativeScriptInvalidHereafter"
		tGrd  = "*common.NativeScriptRequireGuard"
	)
	register(
		// native_script = [0, addr_keyhash] / [1, [* native_script]] / [2, [* native_script]]
		//               / [3, n, [* native_script]] / [4, slot] / [5, slot] ; Dijkstra: [6, credential]
		ns("pubkey-signed", 0, tPub, fixed(B(k1))),
		ns("pubkey-random", 0, tPub, items(h28)),
		ns("all-empty", 1, tAll, fixed(A())),
		ns("all-k1-k2", 1, tAll, fixed(A(pk(k1), pk(k2)))),
		ns("all-nested", 1, tAll, fixed(A(A(U(2), A(pk(k1), pk(k2))), A(U(4), U(100))))),
		ns("any-empty", 2, tAny, fixed(A())),
		ns("any-k1-k2", 2, tAny, fixed(A(pk(k1), pk(k2)))),
		ns("nofk-1of2", 3, tNofK, fixed(U(1), A(pk(k1), pk(k2)))),
		ns("nofk-2of2", 3, tNofK, fixed(U(2), A(pk(k1), pk(k2)))),
		ns("nofk-0of0", 3, tNofK, fixed(U(0), A())),
		ns("before-100", 4, tBef, fixed(U(100))),
		ns("before-150", 4, tBef, fixed(U(150))),
		ns("hereafter-200", 5, tAft, fixed(U(200))),
		ns("hereafter-150", 5, tAft, fixed(U(150))),
		ns("guard", 6, tGrd, items(cred)),
		ns("unknown-7", 7, "", items(h28)),
		ns("unknown-7-list", 7, "", fixed(A())),
	)
	// the varied list sits below a canonical parent: the recursion uses the same dispatcher
	nested := func(name string, tag uint64, want string, payload func(r *core.Rand) []N) shape {
		return shape{consumer: "NativeScript", name: "NativeScript/in-any/" + name, tag: tag, want: want,
			build: func(r *core.Rand) (N, N) {
				inner := A(U(tag))
				inner.Items = append(inner.Items, payload(r)...)
				return A(U(2), A(pk(k2), inner)), inner
			},
			decode: func(b []byte) (string, any, error) {
				var ns common.NativeScript
				if _, err := gcbor.Decode(b, &ns); err != nil {
					return "", nil, err
				}
				outer, ok := ns.Item().(*common.NativeScriptAny)
				if !ok || len(outer.Scripts) != 2 {
					return "", nil, fmt.Errorf("outer script is %T", ns.Item())
				}
				return typeOf(outer.Scripts[1].Item()), &ns, nil
			},
			observe: observeNativeScript}
	}
	register(
		nested("all-k1", 1, tAll, fixed(A(pk(k1)))),
		nested("all-empty", 1, tAll, fixed(A())),
		nested("pubkey-k1", 0, tPub, fixed(B(k1))),
		nested("hereafter-200", 5, tAft, fixed(U(200))),
	)
}

// ---------------------------------------------------------------- certificates

func decodeCert(b []byte) (string, any, error) {
	var w common.CertificateWrapper
	if _, err := gcbor.Decode(b, &w); err != nil {
		return "", nil, err
	}
	// the wrapper and the certificate both state their constructor number
	return fmt.Sprintf("%s/Type=%d/CertType=%d", typeOf(w.Certificate), w.Type, w.Certificate.Type()), &w, nil
}

func drepNode(r *core.Rand) N {
	switch r.Intn(4) {
	case 0:
		return A(U(0), h28(r))
	case 1:
		return A(U(1), h28(r))
	case 2:
		return A(U(2))
	}
	return A(U(3))
}

func poolParams(r *core.Rand, leios bool) []N {
	out := []N{h28(r), h32(r)}
	if leios {
		out = append(out, A(B(r.Bytes(96)), B(r.Bytes(48))))
	}
	out = append(out,
		coin(r), coin(r), rat(1, 20), B(append([]byte{0xe1}, r.Bytes(28)...)),
		A(h28(r), h28(r)),
		A(A(U(0), U(3001), B(r.Bytes(4)), Null()), A(U(1), U(3001), S("relay.example.org")), A(U(2), S("pool.example.org"))),
		A(S("https://example.org/pool.json"), h32(r)),
	)
	return out
}

func init() {
	ct := func(name string, tag uint64, want string, payload func(r *core.Rand) []N) shape {
		if want != "" {
			want = fmt.Sprintf("%s/Type=%d/CertType=%d", want, tag, tag)
		}
		return shape{consumer: "CertificateWrapper", name: "Certificate/" + name, tag: tag, want: want,
			build: self(tag, payload), decode: decodeCert}
	}
	p := "*common."
	register(
		// certificate (Shelley .. Conway CDDL)
		ct("stake-registration", 0, p+"StakeRegistrationCertificate", items(cred)),
		ct("stake-deregistration", 1, p+"StakeDeregistrationCertificate", items(cred)),
		ct("stake-delegation", 2, p+"StakeDelegationCertificate", items(cred, h28)),
		ct("pool-registration", 3, p+"PoolRegistrationCertificate", func(r *core.Rand) []N { return poolParams(r, false) }),
		ct("pool-registration-leios", 3, p+"PoolRegistrationCertificate", func(r *core.Rand) []N { return poolParams(r, true) }),
		ct("pool-retirement", 4, p+"PoolRetirementCertificate", items(h28, func(r *core.Rand) N { return U(uint64(r.Range(1, 600))) })),
		ct("genesis-key-delegation", 5, p+"GenesisKeyDelegationCertificate", items(h28, h28, h32)),
		ct("mir-to-stake-creds", 6, p+"MoveInstantaneousRewardsCertificate", func(r *core.Rand) []N {
			return []N{A(U(uint64(r.Intn(2))), M(cred(r), coin(r), cred(r), coin(r)))}
		}),
		ct("mir-to-other-pot", 6, p+"MoveInstantaneousRewardsCertificate", func(r *core.Rand) []N {
			return []N{A(U(uint64(r.Intn(2))), coin(r))}
		}),
		ct("reg", 7, p+"RegistrationCertificate", items(cred, coin)),
		ct("unreg", 8, p+"DeregistrationCertificate", items(cred, coin)),
		ct("vote-deleg", 9, p+"VoteDelegationCertificate", items(cred, drepNode)),
		ct("stake-vote-deleg", 10, p+"StakeVoteDelegationCertificate", items(cred, h28, drepNode)),
		ct("stake-reg-deleg", 11, p+"StakeRegistrationDelegationCertificate", items(cred, h28, coin)),
		ct("vote-reg-deleg", 12, p+"VoteRegistrationDelegationCertificate", items(cred, drepNode, coin)),
		ct("stake-vote-reg-deleg", 13, p+"StakeVoteRegistrationDelegationCertificate", items(cred, h28, drepNode, coin)),
		ct("auth-committee-hot", 14, p+"AuthCommitteeHotCertificate", items(cred, cred)),
		ct("resign-committee-cold", 15, p+"ResignCommitteeColdCertificate", items(cred, anchor)),
		ct("resign-committee-cold-noanchor", 15, p+"ResignCommitteeColdCertificate", func(r *core.Rand) []N { return []N{cred(r), Null()} }),
		ct("reg-drep", 16, p+"RegistrationDrepCertificate", items(cred, coin, anchor)),
		ct("reg-drep-noanchor", 16, p+"RegistrationDrepCertificate", func(r *core.Rand) []N { return []N{cred(r), coin(r), Null()} }),
		ct("unreg-drep", 17, p+"DeregistrationDrepCertificate", items(cred, coin)),
		ct("update-drep", 18, p+"UpdateDrepCertificate", items(cred, anchor)),
		ct("update-drep-noanchor", 18, p+"UpdateDrepCertificate", func(r *core.Rand) []N { return []N{cred(r), Null()} }),
		ct("unknown-19", 19, "", items(cred)),
		ct("unknown-19-3", 19, "", items(cred, coin)),
	)

	// drep = [0, addr_keyhash] / [1, script_hash] / [2] / [3]
	dr := func(name string, tag uint64, want string, payload func(r *core.Rand) []N) shape {
		return shape{consumer: "Drep", name: "Drep/" + name, tag: tag, want: want, build: self(tag, payload),
			decode: func(b []byte) (string, any, error) {
				var d common.Drep
				if _, err := gcbor.Decode(b, &d); err != nil {
					return "", nil, err
				}
				return fmt.Sprintf("Type=%d", d.Type), &d, nil
			}}
	}
	register(
		dr("keyhash", 0, "Type=0", items(h28)),
		dr("scripthash", 1, "Type=1", items(h28)),
		dr("abstain", 2, "Type=2", nil),
		dr("no-confidence", 3, "Type=3", nil),
		dr("unknown-4", 4, "", nil),
		dr("unknown-4-hash", 4, "", items(h28)),
	)

	// relay = [0, port / null, ipv4 / null, ipv6 / null] / [1, port / null, dns_name] / [2, dns_name]
	rl := func(name string, tag uint64, want string, payload func(r *core.Rand) []N) shape {
		return shape{consumer: "PoolRelay", name: "PoolRelay/" + name, tag: tag, want: want, build: self(tag, payload),
			decode: func(b []byte) (string, any, error) {
				var d common.PoolRelay
				if _, err := gcbor.Decode(b, &d); err != nil {
					return "", nil, err
				}
				return fmt.Sprintf("Type=%d", d.Type), &d, nil
			}}
	}
	register(
		rl("single-host-addr", 0, "Type=0", func(r *core.Rand) []N { return []N{U(3001), B(r.Bytes(4)), B(r.Bytes(16))} }),
		rl("single-host-addr-nulls", 0, "Type=0", fixed(Null(), Null(), Null())),
		rl("single-host-name", 1, "Type=1", fixed(U(3001), S("relay.example.org"))),
		rl("single-host-name-noport", 1, "Type=1", fixed(Null(), S("relay.example.org"))),
		rl("multi-host-name", 2, "Type=2", fixed(S("pool.example.org"))),
		rl("unknown-3", 3, "", fixed(S("pool.example.org"))),
	)

	// nonce = [0] / [1, bytes .size 32]
	nc := func(name string, tag uint64, want string, payload func(r *core.Rand) []N) shape {
		return shape{consumer: "Nonce", name: "Nonce/" + name, tag: tag, want: want, build: self(tag, payload),
			decode: func(b []byte) (string, any, error) {
				var d common.Nonce
				if _, err := gcbor.Decode(b, &d); err != nil {
					return "", nil, err
				}
				return fmt.Sprintf("Type=%d", d.Type), &d, nil
			}}
	}
	register(
		nc("neutral", 0, "Type=0", nil),
		nc("nonce", 1, "Type=1", items(h32)),
		nc("unknown-2", 2, "", nil),
		nc("unknown-2-hash", 2, "", items(h32)),
	)

	// script_ref = #6.24(bytes .cbor script) ; script = [0, native_script] / [1, plutus_v1] / [2, v2] / [3, v3]
	sr := func(name string, tag uint64, want string, payload func(r *core.Rand) []N) shape {
		if want != "" {
			want = fmt.Sprintf("%s/Type=%d", want, tag)
		}
		return shape{consumer: "ScriptRef", name: "ScriptRef/" + name, tag: tag, want: want, build: self(tag, payload),
			finish: func(b []byte) []byte { return T(24, B(b)).Encode() },
			decode: func(b []byte) (string, any, error) {
				var d common.ScriptRef
				if _, err := gcbor.Decode(b, &d); err != nil {
					return "", nil, err
				}
				return fmt.Sprintf("%s/Type=%d", typeOf(d.Script), d.Type), &d, nil
			}}
	}
	plutus := func(r *core.Rand) N { return B(r.Bytes(r.Range(8, 40))) }
	register(
		sr("native", 0, "common.NativeScript", fixed(A(U(1), A(pk(k1))))),
		sr("plutus-v1", 1, "common.PlutusV1Script", items(plutus)),
		sr("plutus-v2", 2, "common.PlutusV2Script", items(plutus)),
		sr("plutus-v3", 3, "common.PlutusV3Script", items(plutus)),
		sr("plutus-v4", 4, "common.PlutusV4Script", items(plutus)),
		sr("unknown-5", 5, "", items(plutus)),
	)
}

// ---------------------------------------------------------------- datum option, governance actions, byron input

func init() {
	// datum_option = [0, hash32] / [1, #6.24(bytes .cbor plutus_data)]
	do := func(name string, tag uint64, want string, payload func(r *core.Rand) []N) shape {
		return shape{consumer: "BabbageDatumOption", name: "BabbageDatumOption/" + name, tag: tag, want: want, build: self(tag, payload),
			decode: func(b []byte) (string, any, error) {
				var d babbage.BabbageTransactionOutputDatumOption
				if _, err := gcbor.Decode(b, &d); err != nil {
					return "", nil, err
				}
				v := reflect.ValueOf(&d).Elem()
				hasHash := !v.FieldByName("hash").IsNil()
				hasData := !v.FieldByName("data").IsNil()
				variant := "neither"
				switch {
				case hasHash && hasData:
					variant = "both"
				case hasHash:
					variant = "hash"
				case hasData:
					variant = "data"
				}
				return variant, &d, nil
			}}
	}
	register(
		do("hash", 0, "hash", items(h32)),
		do("inline-int", 1, "data", fixed(T(24, B(U(42).Encode())))),
		// an inline datum whose CBOR is itself 32 bytes long (a hash-sized blob)
		do("inline-32-byte-cbor", 1, "data", func(r *core.Rand) []N { return []N{T(24, B(B(r.Bytes(30)).Encode()))} }),
		do("inline-constr", 1, "data", fixed(T(24, B(T(121, A(U(1), B([]byte("ab")))).Encode())))),
		do("unknown-2", 2, "", items(h32)),
	)

	gov := func(consumer string, decode func(b []byte) (string, any, error), paramType string) {
		ga := func(name string, tag uint64, want string, payload func(r *core.Rand) []N) shape {
			if want != "" {
				want = fmt.Sprintf("%s/Type=%d", want, tag)
			}
			return shape{consumer: consumer, name: consumer + "/" + name, tag: tag, want: want, build: self(tag, payload), decode: decode}
		}
		register(
			// gov_action (Conway CDDL)
			ga("parameter-change", 0, paramType, func(r *core.Rand) []N { return []N{Null(), M(U(0), U(44), U(1), U(155381)), Null()} }),
			ga("parameter-change-full", 0, paramType, func(r *core.Rand) []N { return []N{actionID(r), M(U(2), U(90112)), h28(r)} }),
			ga("hard-fork", 1, "*common.HardForkInitiationGovAction", func(r *core.Rand) []N { return []N{Null(), A(U(10), U(0))} }),
			ga("hard-fork-prev", 1, "*common.HardForkInitiationGovAction", func(r *core.Rand) []N { return []N{actionID(r), A(U(11), U(0))} }),
			ga("treasury-withdrawal", 2, "*common.TreasuryWithdrawalGovAction", func(r *core.Rand) []N { return []N{M(rewardAddr(r), coin(r)), Null()} }),
			ga("treasury-withdrawal-policy", 2, "*common.TreasuryWithdrawalGovAction", func(r *core.Rand) []N { return []N{M(rewardAddr(r), coin(r), rewardAddr(r), coin(r)), h28(r)} }),
			ga("no-confidence", 3, "*common.NoConfidenceGovAction", fixed(Null())),
			ga("no-confidence-prev", 3, "*common.NoConfidenceGovAction", items(actionID)),
			ga("update-committee", 4, "*common.UpdateCommitteeGovAction", func(r *core.Rand) []N {
				return []N{Null(), T(258, A(cred(r))), M(cred(r), U(500)), rat(2, 3)}
			}),
			ga("new-constitution", 5, "*common.NewConstitutionGovAction", func(r *core.Rand) []N { return []N{Null(), A(anchor(r), Null())} }),
			ga("new-constitution-script", 5, "*common.NewConstitutionGovAction", func(r *core.Rand) []N { return []N{actionID(r), A(anchor(r), h28(r))} }),
			ga("info", 6, "*common.InfoGovAction", nil),
			ga("unknown-7", 7, "", nil),
			ga("unknown-7-id", 7, "", fixed(Null())),
		)
	}
	gov("ConwayGovAction", func(b []byte) (string, any, error) {
		var g conway.ConwayGovAction
		if _, err := gcbor.Decode(b, &g); err != nil {
			return "", nil, err
		}
		return fmt.Sprintf("%s/Type=%d", typeOf(g.Action), g.Type), &g, nil
	}, "*conway.ConwayParameterChangeGovAction")
	gov("DijkstraGovAction", func(b []byte) (string, any, error) {
		var g dijkstra.DijkstraGovAction
		if _, err := gcbor.Decode(b, &g); err != nil {
			return "", nil, err
		}
		return fmt.Sprintf("%s/Type=%d", typeOf(g.Action), g.Type), &g, nil
	}, "*dijkstra.DijkstraParameterChangeGovAction")

	// byron txin = [0, #6.24(bytes .cbor [txid, u32])] / [u8 .ne 0, encoded-cbor] (not decodable by the library)
	bi := func(name string, tag uint64, want string) shape {
		return shape{consumer: "ByronTransactionInput", name: "ByronTransactionInput/" + name, tag: tag, want: want,
			build: self(tag, func(r *core.Rand) []N { return []N{T(24, B(A(h32(r), U(uint64(r.Intn(5)))).Encode()))} }),
			decode: func(b []byte) (string, any, error) {
				var d byron.ByronTransactionInput
				if _, err := gcbor.Decode(b, &d); err != nil {
					return "", nil, err
				}
				return "ByronTransactionInput", &d, nil
			}}
	}
	register(bi("utxo", 0, "ByronTransactionInput"), bi("other-1", 1, ""))
}
