package c03

import (
	"fmt"

	gcbor "github.com/blinklabs-io/gouroboros/cbor"
	"github.com/blinklabs-io/gouroboros/ledger"

	"verifharness/cborx"
	"verifharness/core"
)

// Tx-submission failure reasons (ledger/error.go). The constructor numbering
// per era is the one documented next to the constants in ledger/error.go
// (quoting cardano-ledger's EncCBOR instances). The payload layouts are the
// ones the library's structs accept under the canonical encoding; the payload
// of a constructor never depends on how the enclosing list header is written.

const (
	eraByron    = 0
	eraShelley  = 1
	eraAllegra  = 2
	eraMary     = 3
	eraAlonzo   = 4
	eraBabbage  = 5
	eraConway   = 6
	eraDijkstra = 7
)

var eraNames = map[uint64]string{0: "byron", 1: "shelley", 2: "allegra", 3: "mary", 4: "alonzo", 5: "babbage", 6: "conway", 7: "dijkstra", 9: "era9"}

func errTxIn(r *core.Rand) N  { return A(h32(r), U(uint64(r.Intn(5)))) }
func errTxOut(r *core.Rand) N { return A(baseAddr(r), coin(r)) }
func uu(r *core.Rand) []N     { return []N{coin(r), coin(r)} }

// utxoFields: fields after the tag of a UTXO-rule failure, keyed by Go type.
var utxoFields = map[string]func(r *core.Rand) []N{
	"BadInputsUtxo":                   func(r *core.Rand) []N { return []N{A(errTxIn(r), errTxIn(r))} },
	"OutsideValidityIntervalUtxo":     func(r *core.Rand) []N { return []N{A(Null(), slot(r)), U(uint64(r.Intn(1 << 30)))} },
	"MaxTxSizeUtxo":                   uu,
	"InputSetEmptyUtxo":               func(r *core.Rand) []N { return nil },
	"FeeTooSmallUtxo":                 uu,
	"ValueNotConservedUtxo":           uu,
	"OutputTooSmallUtxo":              func(r *core.Rand) []N { return []N{A(errTxOut(r))} },
	"UtxosFailure":                    func(r *core.Rand) []N { return []N{A(U(1), S("collateral"))} },
	"WrongNetwork":                    func(r *core.Rand) []N { return []N{U(1), T(258, A(baseAddr(r)))} },
	"WrongNetworkWithdrawal":          func(r *core.Rand) []N { return []N{U(1), T(258, A(rewardAddr(r)))} },
	"OutputBootAddrAttrsTooBig":       func(r *core.Rand) []N { return []N{A(errTxOut(r))} },
	"TriesToForgeADA":                 func(r *core.Rand) []N { return nil },
	"InsufficientCollateral":          uu,
	"OutputTooBigUtxo":                func(r *core.Rand) []N { return []N{A()} },
	"ScriptsNotPaidUtxo":              func(r *core.Rand) []N { return []N{M(errTxIn(r), errTxOut(r))} },
	"ExUnitsTooBigUtxo":               uu,
	"CollateralContainsNonADA":        func(r *core.Rand) []N { return []N{A(coin(r), M(h28(r), M(B([]byte("tok")), U(1))))} },
	"WrongNetworkInTxBody":            func(r *core.Rand) []N { return []N{U(0), U(1)} },
	"OutsideForecast":                 func(r *core.Rand) []N { return []N{U(uint64(r.Intn(1 << 30)))} },
	"TooManyCollateralInputs":         func(r *core.Rand) []N { return []N{U(3), U(uint64(r.Range(4, 9)))} },
	"NoCollateralInputs":              func(r *core.Rand) []N { return nil },
	"IncorrectTotalCollateralField":   func(r *core.Rand) []N { return []N{cborx.I(-int64(r.Range(1, 5000))), coin(r)} },
	"BabbageOutputTooSmallUTxO":       func(r *core.Rand) []N { return []N{A(A(errTxOut(r), coin(r)))} },
	"BabbageNonDisjointRefInputs":     func(r *core.Rand) []N { return []N{A(errTxIn(r))} },
	"PtrPresentInCollateralReturn":    func(r *core.Rand) []N { return []N{errTxOut(r)} },
	"WithdrawalsExceedAccountBalance": func(r *core.Rand) []N { return []N{M(rewardAddr(r), coin(r))} },
	"UnknownUtxoFailureError":         func(r *core.Rand) []N { return []N{coin(r)} },
}

type tagTable map[uint64]string

// errVariant renders the variant of a decoded failure; the Unknown*
// placeholders state which constructor they stand for, which is part of the
// variant.
func errVariant(e any) string {
	switch x := e.(type) {
	case *ledger.UnknownUtxoFailureError:
		return fmt.Sprintf("%T(FailureType=%d)", e, x.FailureType)
	case *ledger.UnknownUtxowFailureError:
		return fmt.Sprintf("%T(FailureType=%d)", e, x.FailureType)
	case *ledger.UnknownApplyTxFailureError:
		return fmt.Sprintf("%T(FailureType=%d)", e, x.FailureType)
	}
	return typeOf(e)
}

func wantErr(typ string, tag uint64) string {
	if len(typ) > 7 && typ[:7] == "Unknown" {
		return fmt.Sprintf("*ledger.%s(FailureType=%d)", typ, tag)
	}
	return "*ledger." + typ
}

var utxoShelley = tagTable{0: "BadInputsUtxo", 1: "OutsideValidityIntervalUtxo", 2: "MaxTxSizeUtxo", 3: "InputSetEmptyUtxo",
	4: "FeeTooSmallUtxo", 5: "ValueNotConservedUtxo", 6: "OutputTooSmallUtxo", 7: "UtxosFailure", 8: "WrongNetwork",
	9: "WrongNetworkWithdrawal", 10: "OutputBootAddrAttrsTooBig", 11: "UnknownUtxoFailureError", 12: "UnknownUtxoFailureError"}

func with(base tagTable, over tagTable) tagTable {
	out := tagTable{}
	for k, v := range base {
		out[k] = v
	}
	for k, v := range over {
		out[k] = v
	}
	return out
}

var utxoAllegraMary = with(utxoShelley, tagTable{12: "OutputTooBigUtxo", 13: "UnknownUtxoFailureError"})

// Alonzo / Babbage: tag 13 is left out (the library's constant for
// InsufficientCollateral collides with OutputTooBigUTxO at 12; not a C03 matter).
var utxoAlonzo = with(utxoShelley, tagTable{11: "TriesToForgeADA", 12: "OutputTooBigUtxo", 14: "ScriptsNotPaidUtxo",
	15: "ExUnitsTooBigUtxo", 16: "CollateralContainsNonADA", 17: "WrongNetworkInTxBody", 18: "OutsideForecast",
	19: "TooManyCollateralInputs", 20: "NoCollateralInputs", 21: "UnknownUtxoFailureError"})

var utxoConway = tagTable{0: "UtxosFailure", 1: "BadInputsUtxo", 2: "OutsideValidityIntervalUtxo", 3: "MaxTxSizeUtxo",
	4: "InputSetEmptyUtxo", 5: "FeeTooSmallUtxo", 6: "ValueNotConservedUtxo", 7: "WrongNetwork", 8: "WrongNetworkWithdrawal",
	9: "OutputTooSmallUtxo", 10: "OutputBootAddrAttrsTooBig", 11: "OutputTooBigUtxo", 12: "InsufficientCollateral",
	13: "ScriptsNotPaidUtxo", 14: "ExUnitsTooBigUtxo", 15: "CollateralContainsNonADA", 16: "WrongNetworkInTxBody",
	17: "OutsideForecast", 18: "TooManyCollateralInputs", 19: "NoCollateralInputs", 20: "IncorrectTotalCollateralField",
	21: "BabbageOutputTooSmallUTxO", 22: "BabbageNonDisjointRefInputs", 23: "UnknownUtxoFailureError"}

var utxoDijkstra = tagTable{0: "UtxosFailure", 1: "BadInputsUtxo", 2: "OutsideValidityIntervalUtxo", 3: "MaxTxSizeUtxo",
	4: "InputSetEmptyUtxo", 5: "FeeTooSmallUtxo", 6: "ValueNotConservedUtxo", 7: "WrongNetwork", 8: "UnknownUtxoFailureError",
	9: "OutputBootAddrAttrsTooBig", 10: "OutputTooBigUtxo", 11: "InsufficientCollateral", 12: "ScriptsNotPaidUtxo",
	13: "ExUnitsTooBigUtxo", 14: "CollateralContainsNonADA", 15: "WrongNetworkInTxBody", 16: "OutsideForecast",
	17: "TooManyCollateralInputs", 18: "NoCollateralInputs", 19: "IncorrectTotalCollateralField",
	20: "BabbageOutputTooSmallUTxO", 21: "BabbageNonDisjointRefInputs", 22: "PtrPresentInCollateralReturn",
	23: "UnknownUtxoFailureError", 24: "WithdrawalsExceedAccountBalance"}

var utxoByEra = map[uint64]tagTable{eraShelley: utxoShelley, eraAllegra: utxoAllegraMary, eraMary: utxoAllegraMary,
	eraAlonzo: utxoAlonzo, eraBabbage: utxoAlonzo, eraConway: utxoConway, eraDijkstra: utxoDijkstra}

func sortedTags(t tagTable) []uint64 {
	var out []uint64
	for k := range t {
		out = append(out, k)
	}
	for i := range out {
		for j := i + 1; j < len(out); j++ {
			if out[j] < out[i] {
				out[i], out[j] = out[j], out[i]
			}
		}
	}
	return out
}

// utxoList builds [tag, fields...] of a UTXO failure.
func utxoList(r *core.Rand, tag uint64, typ string) N {
	l := A(U(tag))
	l.Items = append(l.Items, utxoFields[typ](r)...)
	return l
}

// ---- UTXOW rule: [tag, payload]; the library decodes payload (element 1) into
// the struct of the constructor, whose first field repeats the constructor.
func hashes28(t uint64) func(r *core.Rand) []N {
	return func(r *core.Rand) []N { return []N{A(U(t), A(h28(r), h28(r)))} }
}

func utxowPayload(r *core.Rand, typ string, t uint64, era uint64) []N {
	switch typ {
	case "InvalidWitnessesUTXOW":
		return []N{A(U(t), A(h32(r), h32(r)))}
	case "MissingVKeyWitnessesUTXOW", "MissingScriptWitnessesUTXOW", "ScriptWitnessNotValidatingUTXOW",
		"ExtraneousScriptWitnessesUTXOW", "MalformedScriptWitnesses", "MalformedReferenceScripts":
		return hashes28(t)(r)
	case "MissingTxBodyMetadataHash", "MissingTxMetadata":
		return []N{A(U(t), h32(r))}
	case "ConflictingMetadataHash":
		return []N{A(U(t), h32(r), h32(r))}
	case "InvalidMetadata":
		return nil
	case "UtxoFailure":
		utag := uint64(4) // FeeTooSmallUTxO in the Shelley..Babbage numbering
		if era >= eraConway {
			utag = 5
		}
		return []N{A(U(era), utxoList(r, utag, "FeeTooSmallUtxo"))}
	case "MissingRedeemers":
		return []N{A(U(t), A(A(A(U(0), U(uint64(r.Intn(4)))), h28(r))))}
	case "MissingRequiredDatums", "NotAllowedSupplementalDatums":
		return []N{A(U(t), A(h32(r)), A(h32(r), h32(r)))}
	case "PPViewHashesDontMatch":
		return []N{A(U(t), A(h32(r)), A())}
	case "UnspendableUTxONoDatumHash":
		return []N{A(U(t), A(errTxIn(r)))}
	case "ExtraRedeemers":
		return []N{A(U(t), A(A(U(uint64(r.Intn(4))), U(uint64(r.Intn(9))))))}
	case "ShelleyUtxowFailure":
		return []N{A(U(1), A(U(1), A(h28(r))))}
	case "AlonzoUtxowFailure":
		return []N{A(U(7), A(U(7), A(A(U(1), U(0)))))}
	case "BabbageUtxoFailure":
		return []N{A(U(2), A(U(2), cborx.I(-7), coin(r)))}
	case "GenericError":
		return []N{A(h32(r), h32(r))}
	case "MissingRequiredGuards", "MalformedGuardDatums":
		return []N{A(cred(r), cred(r))}
	case "UnknownUtxowFailureError", "UnknownUtxoFailureError":
		return []N{A(U(t), A(h28(r)))}
	case "IncorrectTotalCollateralField":
		return []N{A(U(t), cborx.I(-9), coin(r))}
	case "BabbageOutputTooSmallUTxO":
		return []N{A(U(t), A(A(errTxOut(r), coin(r))))}
	case "BabbageNonDisjointRefInputs":
		return []N{A(U(t), A(errTxIn(r)))}
	}
	panic("c03: no UTXOW payload for " + typ)
}

var utxowShelley = tagTable{0: "InvalidWitnessesUTXOW", 1: "MissingVKeyWitnessesUTXOW", 2: "MissingScriptWitnessesUTXOW",
	3: "ScriptWitnessNotValidatingUTXOW", 4: "UtxoFailure", 5: "MissingTxBodyMetadataHash", 6: "MissingTxMetadata",
	7: "ConflictingMetadataHash", 8: "InvalidMetadata", 9: "ExtraneousScriptWitnessesUTXOW", 10: "UnknownUtxowFailureError"}

var utxowAlonzo = tagTable{0: "ShelleyUtxowFailure", 1: "MissingRedeemers", 2: "MissingRequiredDatums",
	3: "NotAllowedSupplementalDatums", 4: "PPViewHashesDontMatch", 5: "UnknownUtxowFailureError",
	6: "UnspendableUTxONoDatumHash", 7: "ExtraRedeemers", 8: "UnknownUtxowFailureError"}

var utxowBabbage = tagTable{0: "UnknownUtxowFailureError", 1: "AlonzoUtxowFailure", 2: "BabbageUtxoFailure",
	3: "MalformedScriptWitnesses", 4: "MalformedReferenceScripts", 5: "GenericError", 6: "UnknownUtxowFailureError"}

var utxowConway = tagTable{0: "UtxoFailure", 1: "InvalidWitnessesUTXOW", 2: "MissingVKeyWitnessesUTXOW",
	3: "MissingScriptWitnessesUTXOW", 4: "ScriptWitnessNotValidatingUTXOW", 5: "MissingTxBodyMetadataHash",
	6: "MissingTxMetadata", 7: "ConflictingMetadataHash", 8: "InvalidMetadata", 9: "ExtraneousScriptWitnessesUTXOW",
	10: "MissingRedeemers", 11: "MissingRequiredDatums", 12: "NotAllowedSupplementalDatums", 13: "PPViewHashesDontMatch",
	14: "UnspendableUTxONoDatumHash", 15: "ExtraRedeemers", 16: "MalformedScriptWitnesses", 17: "MalformedReferenceScripts",
	18: "GenericError", 19: "UnknownUtxowFailureError"}

var utxowDijkstra = with(utxowConway, tagTable{19: "MissingRequiredGuards", 20: "MalformedGuardDatums", 21: "UnknownUtxowFailureError"})

// babbage UTXO wrapper (BabbageUtxoPredFailure)
var babbageUtxo = tagTable{0: "UnknownUtxoFailureError", 1: "UtxoFailure", 2: "IncorrectTotalCollateralField",
	3: "BabbageOutputTooSmallUTxO", 4: "BabbageNonDisjointRefInputs", 5: "UnknownUtxoFailureError"}

func utxowList(r *core.Rand, tag uint64, typ string, era uint64) N {
	l := A(U(tag))
	l.Items = append(l.Items, utxowPayload(r, typ, tag, era)...)
	return l
}

func init() {

	// ---- UtxoFailure: [era, [tag, fields...]], dispatch through DecodeIdFromList + DecodeById
	for _, era := range []uint64{eraShelley, eraAllegra, eraMary, eraAlonzo, eraBabbage, eraConway, eraDijkstra} {
		era := era
		tbl := utxoByEra[era]
		for _, tag := range sortedTags(tbl) {
			tag, typ := tag, tbl[tag]
			consumer := "UtxoFailure/" + eraNames[era]
			register(shape{libShaped: true, consumer: consumer, name: fmt.Sprintf("%s/%d-%s", consumer, tag, typ), tag: tag, want: wantErr(typ, tag),
				build: func(r *core.Rand) (N, N) {
					l := utxoList(r, tag, typ)
					return A(U(era), l), l
				},
				decode: func(b []byte) (string, any, error) {
					var f ledger.UtxoFailure
					if _, err := gcbor.Decode(b, &f); err != nil {
						return "", nil, err
					}
					return errVariant(f.Err), &f, nil
				}})
		}
	}
	// an era the library does not know: every tag is preserved as Unknown
	register(shape{libShaped: true, consumer: "UtxoFailure/era9", name: "UtxoFailure/era9/4", tag: 4, want: wantErr("UnknownUtxoFailureError", 4),
		build: func(r *core.Rand) (N, N) {
			l := utxoList(r, 4, "FeeTooSmallUtxo")
			return A(U(9), l), l
		},
		decode: func(b []byte) (string, any, error) {
			var f ledger.UtxoFailure
			if _, err := gcbor.Decode(b, &f); err != nil {
				return "", nil, err
			}
			return errVariant(f.Err), &f, nil
		}})

	// ---- stand-alone UTXOW wrappers
	type wrapper struct {
		consumer string
		tbl      tagTable
		era      uint64
		decode   func(b []byte) (string, any, error)
	}
	wrappers := []wrapper{
		{"ShelleyUtxowFailure", utxowShelley, eraShelley, func(b []byte) (string, any, error) {
			var f ledger.ShelleyUtxowFailure
			if _, err := gcbor.Decode(b, &f); err != nil {
				return "", nil, err
			}
			return errVariant(f.Err), &f, nil
		}},
		{"AlonzoUtxowFailure", utxowAlonzo, eraAlonzo, func(b []byte) (string, any, error) {
			var f ledger.AlonzoUtxowFailure
			if _, err := gcbor.Decode(b, &f); err != nil {
				return "", nil, err
			}
			return errVariant(f.Err), &f, nil
		}},
		{"BabbageUtxoFailure", babbageUtxo, eraBabbage, func(b []byte) (string, any, error) {
			var f ledger.BabbageUtxoFailure
			if _, err := gcbor.Decode(b, &f); err != nil {
				return "", nil, err
			}
			return errVariant(f.Err), &f, nil
		}},
		{"ConwayUtxowFailure", utxowConway, eraConway, func(b []byte) (string, any, error) {
			var f ledger.ConwayUtxowFailure
			if _, err := gcbor.Decode(b, &f); err != nil {
				return "", nil, err
			}
			return errVariant(f.Err), &f, nil
		}},
	}
	for _, w := range wrappers {
		w := w
		for _, tag := range sortedTags(w.tbl) {
			tag, typ := tag, w.tbl[tag]
			register(shape{libShaped: true, consumer: w.consumer, name: fmt.Sprintf("%s/%d-%s", w.consumer, tag, typ), tag: tag, want: wantErr(typ, tag),
				build: func(r *core.Rand) (N, N) {
					l := utxowList(r, tag, typ, w.era)
					return l, l
				},
				decode: w.decode})
		}
	}

	// ---- era-aware path: [[era, [ [0, utxowFailure], ... ]]] through ShelleyTxValidationError
	decodeValidation := func(b []byte) (*ledger.ShelleyTxValidationError, error) {
		e, err := ledger.NewShelleyTxValidationErrorFromCbor(b)
		if err != nil {
			return nil, err
		}
		v, ok := e.(*ledger.ShelleyTxValidationError)
		if !ok {
			return nil, fmt.Errorf("unexpected %T", e)
		}
		return v, nil
	}
	eraAware := []struct {
		era uint64
		tbl tagTable
	}{
		{eraShelley, utxowShelley}, {eraMary, utxowShelley}, {eraAlonzo, utxowAlonzo}, {eraBabbage, utxowBabbage},
		{eraConway, utxowConway}, {eraDijkstra, utxowDijkstra},
		{eraByron, tagTable{3: "UnknownUtxowFailureError"}}, {9, tagTable{3: "UnknownUtxowFailureError"}},
	}
	for _, ea := range eraAware {
		ea := ea
		for _, tag := range sortedTags(ea.tbl) {
			tag, typ := tag, ea.tbl[tag]
			consumer := "UtxowFailure/" + eraNames[ea.era]
			if typ == "InvalidMetadata" && (ea.era == eraAlonzo || ea.era == eraBabbage) {
				continue
			}
			register(shape{libShaped: true, consumer: consumer, name: fmt.Sprintf("%s/%d-%s", consumer, tag, typ), tag: tag, want: wantErr(typ, tag),
				build: func(r *core.Rand) (N, N) {
					l := utxowList(r, tag, typ, ea.era)
					return A(A(U(ea.era), A(A(U(0), l)))), l
				},
				decode: func(b []byte) (string, any, error) {
					v, err := decodeValidation(b)
					if err != nil {
						return "", nil, err
					}
					if len(v.Err.Failures) != 1 {
						return "", nil, fmt.Errorf("%d failures", len(v.Err.Failures))
					}
					uw, ok := v.Err.Failures[0].(*ledger.UtxowFailure)
					if !ok {
						return "", nil, fmt.Errorf("ledger failure is %T", v.Err.Failures[0])
					}
					return errVariant(uw.Err), v, nil
				}})
		}
	}

	// ---- LEDGER rule level: ApplyTxError = [failure...], failure = [0, utxow] / [3 or 9, withdrawals] / unknown
	type af struct {
		era  uint64
		tag  uint64
		want string
	}
	for _, x := range []af{
		{eraShelley, 0, "UtxowFailure"}, {eraShelley, 3, "IncorrectWithdrawals"}, {eraShelley, 1, "UnknownApplyTxFailureError"}, {eraShelley, 9, "UnknownApplyTxFailureError"},
		{eraBabbage, 0, "UtxowFailure"}, {eraBabbage, 3, "IncorrectWithdrawals"}, {eraBabbage, 2, "UnknownApplyTxFailureError"},
		{eraConway, 0, "UtxowFailure"}, {eraConway, 9, "IncorrectWithdrawals"}, {eraConway, 3, "UnknownApplyTxFailureError"}, {eraConway, 1, "UnknownApplyTxFailureError"},
		{eraDijkstra, 0, "UtxowFailure"}, {eraDijkstra, 1, "UnknownApplyTxFailureError"},
	} {
		x := x
		consumer := "ApplyTxError/" + eraNames[x.era]
		register(shape{libShaped: true, consumer: consumer, name: fmt.Sprintf("%s/%d-%s", consumer, x.tag, x.want), tag: x.tag, want: wantErr(x.want, x.tag),
			build: func(r *core.Rand) (N, N) {
				var l N
				switch x.want {
				case "UtxowFailure":
					inner := utxowList(r, 8, "InvalidMetadata", x.era) // [8] in Shelley and Conway numbering
					if x.era == eraBabbage {
						inner = utxowList(r, 3, "MalformedScriptWitnesses", x.era)
					}
					l = A(U(x.tag), inner)
				case "IncorrectWithdrawals":
					l = A(U(x.tag), M(rewardAddr(r), A(coin(r), coin(r))))
				default:
					l = A(U(x.tag), A(h28(r)))
				}
				return A(A(U(x.era), A(l))), l
			},
			decode: func(b []byte) (string, any, error) {
				v, err := decodeValidation(b)
				if err != nil {
					return "", nil, err
				}
				if len(v.Err.Failures) != 1 {
					return "", nil, fmt.Errorf("%d failures", len(v.Err.Failures))
				}
				return errVariant(v.Err.Failures[0]), v, nil
			}})
	}
}
