package c03

import (
	"encoding/hex"
	"fmt"
	"reflect"
	"sort"
	"strings"

	"verifharness/cborx"
)

// canon renders a decoded value (exported and unexported fields, through
// pointers and interfaces, maps in sorted order) so that two decodings can be
// compared "modulo stored raw bytes": fields that merely keep the input bytes
// (cbor.DecodeStoreCbor, cbor.Value.cborData, cbor.RawMessage, the Cbor field
// of the Unknown*/Generic errors) are compared after re-encoding them
// canonically with cborx, so a different header form of the same item does not
// count as a difference while different content still does. nil and empty
// slices are the same.
func canon(v any) string {
	var sb strings.Builder
	dump(&sb, reflect.ValueOf(v), 0, false)
	return sb.String()
}

// canonCbor re-encodes one CBOR item with every header in its shortest
// definite form. Unparseable input is returned as is.
func canonCbor(b []byte) []byte {
	n, err := cborx.ParseExact(b)
	if err != nil {
		return b
	}
	n.Walk(func(x *cborx.Node) {
		if x.Kind != cborx.Simple {
			x.SetForm(cborx.FormMinimal)
		}
	})
	return n.Encode()
}

func isRawName(name string) bool {
	switch name {
	case "cborData", "Cbor", "cbor", "rawCbor", "Raw":
		return true
	}
	return false
}

func dump(sb *strings.Builder, v reflect.Value, depth int, raw bool) {
	if depth > 60 {
		sb.WriteString("<deep>")
		return
	}
	if !v.IsValid() {
		sb.WriteString("nil")
		return
	}
	t := v.Type()
	if t.PkgPath() == "github.com/blinklabs-io/gouroboros/cbor" && t.Name() == "RawMessage" {
		raw = true
	}
	switch v.Kind() {
	case reflect.Pointer:
		if v.IsNil() {
			sb.WriteString("nil")
			return
		}
		sb.WriteString("&")
		dump(sb, v.Elem(), depth+1, raw)
	case reflect.Interface:
		if v.IsNil() {
			sb.WriteString("nil")
			return
		}
		fmt.Fprintf(sb, "(%s)", v.Elem().Type().String())
		dump(sb, v.Elem(), depth+1, raw)
	case reflect.Struct:
		sb.WriteString(t.String())
		sb.WriteString("{")
		for i := 0; i < v.NumField(); i++ {
			f := t.Field(i)
			sb.WriteString(f.Name)
			sb.WriteString(":")
			dump(sb, v.Field(i), depth+1, isRawName(f.Name))
			sb.WriteString(" ")
		}
		sb.WriteString("}")
	case reflect.Slice, reflect.Array:
		if t.Elem().Kind() == reflect.Uint8 {
			b := make([]byte, v.Len())
			for i := range b {
				b[i] = byte(v.Index(i).Uint())
			}
			if raw && len(b) > 0 {
				sb.WriteString("cbor'")
				sb.WriteString(hex.EncodeToString(canonCbor(b)))
			} else {
				sb.WriteString("h'")
				sb.WriteString(hex.EncodeToString(b))
			}
			sb.WriteString("'")
			return
		}
		sb.WriteString("[")
		for i := 0; i < v.Len(); i++ {
			if i > 0 {
				sb.WriteString(",")
			}
			dump(sb, v.Index(i), depth+1, raw)
		}
		sb.WriteString("]")
	case reflect.Map:
		var ents []string
		it := v.MapRange()
		for it.Next() {
			var e strings.Builder
			dump(&e, it.Key(), depth+1, false)
			e.WriteString("=>")
			dump(&e, it.Value(), depth+1, false)
			ents = append(ents, e.String())
		}
		sort.Strings(ents)
		sb.WriteString("map{")
		sb.WriteString(strings.Join(ents, ","))
		sb.WriteString("}")
	case reflect.String:
		s := v.String()
		if raw && len(s) > 0 {
			sb.WriteString("cbor'")
			sb.WriteString(hex.EncodeToString(canonCbor([]byte(s))))
			sb.WriteString("'")
		} else {
			fmt.Fprintf(sb, "%q", s)
		}
	case reflect.Bool:
		fmt.Fprintf(sb, "%v", v.Bool())
	case reflect.Int, reflect.Int8, reflect.Int16, reflect.Int32, reflect.Int64:
		fmt.Fprintf(sb, "%d", v.Int())
	case reflect.Uint, reflect.Uint8, reflect.Uint16, reflect.Uint32, reflect.Uint64, reflect.Uintptr:
		fmt.Fprintf(sb, "%d", v.Uint())
	case reflect.Float32, reflect.Float64:
		fmt.Fprintf(sb, "%v", v.Float())
	case reflect.Complex64, reflect.Complex128:
		fmt.Fprintf(sb, "%v", v.Complex())
	default: // func, chan, unsafe pointer
		sb.WriteString("<" + v.Kind().String() + ">")
	}
}
