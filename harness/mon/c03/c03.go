// Package c03 monitors C03: tagged-sum decoding follows the tag, whatever the
// length encoding.
//
// A "shape" is one valid tagged list [t, payload...] of one consumer (a decoder
// in gouroboros that selects a variant by the first list element), built with
// cborx so that the generator knows t. Every shape is re-encoded under each
// admissible outer-array header form (direct, 1/2/4/8-byte, indefinite) and
// each width of the integer t itself (direct, 1/2/4/8-byte) and handed to the
// consumer. Oracle per case: decoding fails, OR the variant produced is the one
// the table (written from the CDDL / the Haskell constructor numbering, not
// from the decoder's switch) maps t to AND the decoded value equals the
// decoding of the canonical encoding modulo stored raw bytes. Independently,
// cbor.DecodeIdFromList on the tagged list fails or returns t, and
// cbor.ListLength fails or returns the element count.
package c03

import (
	"fmt"
	"sort"
	"sync"

	gcbor "github.com/blinklabs-io/gouroboros/cbor"

	"verifharness/cborx"
	"verifharness/core"
)

func init() {
	core.Register(&core.Monitor{
		ID:    "C03",
		Level: "exploration",
		Rule: "exhaustive table {tagged shape of every consumer of cbor.DecodeIdFromList/ListLength and every other first-element-dispatched decoder} x {6 outer-array header forms} x {5 widths of the tag integer}, payloads built with cborx (fixed and PRNG-filled hashes/ints; thorough repeats each shape with 16 random payloads); plus lists of length 0..30 with boundary and random ids. " +
			"A case is non-trivial when the consumer accepted the input (a variant was produced and judged); distinct by (shape, payload repetition, header form, int form). Rejections are counted separately.",
		MinNontrivial: 1500,
		Assumptions: []string{
			"the tag -> variant tables in shapes_*.go transcribe the ledger / network CDDL and the constructor numbering quoted in the repository's own comments",
			"cborx re-encoding only changes the header form of the tagged list and the width of its first integer",
			"a decoder that returns an error has not produced a variant",
		},
		QuickTimeout: 600,
		Run:          run,
	})
}

// ---------------------------------------------------------------- shapes

type shape struct {
	consumer string // finding-key component, e.g. "NativeScript", "UtxoFailure/conway"
	name     string // unique, e.g. "NativeScript/all-empty"
	tag      uint64
	// build returns the whole item handed to the consumer and, inside it, the
	// tagged list whose header / first integer are varied. Deterministic in r.
	build func(r *core.Rand) (root, target *cborx.Node)
	// finish post-processes the encoded root (e.g. wraps it in #6.24(bytes)).
	finish func(b []byte) []byte
	// decode runs the consumer and returns a description of the variant that
	// was produced plus the decoded value (compared against the canonical one).
	decode func(b []byte) (variant string, value any, err error)
	// want is the variant the table maps tag to; "" means the tag names no
	// variant of this sum, so every successful decode is a wrong variant.
	want string
	// observe is an optional behavioural observation (e.g. Evaluate results).
	observe func(value any) string
	// libShaped: the payload follows the layout the library's structs take
	// today rather than a published CDDL (tx-submission failure payloads, a few
	// queries the library models without their arguments). If the library
	// stops accepting the canonical encoding of such a shape the case is
	// inconclusive; for a CDDL-valid shape it is a violation.
	libShaped bool
}

var allShapes []shape

func register(s ...shape) { allShapes = append(allShapes, s...) }

var hdrForms = []cborx.Form{cborx.FormDirect, cborx.Form1, cborx.Form2, cborx.Form4, cborx.Form8, cborx.FormIndef}
var intForms = cborx.AllWidthForms

type pendingViolation struct {
	order   int
	key     string
	what    string
	witness map[string]any
	size    int
}

type collector struct {
	mu sync.Mutex
	v  []pendingViolation
}

func (p *collector) add(order int, key, what string, size int, w map[string]any) {
	p.mu.Lock()
	p.v = append(p.v, pendingViolation{order, key, what, w, size})
	p.mu.Unlock()
}

// flush reports the collected violations in a scheduling-independent order,
// smallest witness of every key first (Violation keeps the first per key).
func (p *collector) flush(c *core.Ctx) {
	sort.SliceStable(p.v, func(i, j int) bool {
		a, b := p.v[i], p.v[j]
		if a.key != b.key {
			return a.key < b.key
		}
		if a.size != b.size {
			return a.size < b.size
		}
		return a.order < b.order
	})
	for _, x := range p.v {
		c.Violation(x.key, x.what, x.witness)
	}
}

type encoded struct {
	full   []byte // what the consumer gets
	target []byte // the tagged list alone
	n      int    // element count of the tagged list
}

// encode builds the shape with payload stream (name, rep) and applies the forms.
func encode(c *core.Ctx, s *shape, rep int, h, w cborx.Form) (encoded, bool) {
	root, target := s.build(c.Rand("payload", s.name, rep))
	if target.Kind != cborx.Array || len(target.Items) == 0 || target.Items[0].Kind != cborx.Uint || target.Items[0].Arg != s.tag {
		panic("c03: shape " + s.name + ": target is not [tag, ...]")
	}
	if !target.SetForm(h) || !target.Items[0].SetForm(w) {
		return encoded{}, false
	}
	b := root.Encode()
	if s.finish != nil {
		b = s.finish(b)
	}
	return encoded{full: b, target: target.Encode(), n: len(target.Items)}, true
}

type decoded struct {
	variant string
	canon   string
	obs     string
	err     error
	panic   string
}

func runDecode(s *shape, b []byte) (d decoded) {
	p, val, stack := core.Safely(func() {
		variant, value, err := s.decode(b)
		d.err = err
		if err != nil {
			return
		}
		d.variant = variant
		d.canon = canon(value)
		if s.observe != nil {
			d.obs = s.observe(value)
		}
	})
	if p {
		d.panic = fmt.Sprintf("%v\n%s", val, stack)
	}
	return d
}

func run(c *core.Ctx) {
	reps := c.N(1, 16)
	type job struct {
		si, rep int
	}
	var jobs []job
	seen := map[string]bool{}
	consumers := map[string]int{}
	for i := range allShapes {
		s := &allShapes[i]
		if seen[s.name] {
			panic("c03: duplicate shape " + s.name)
		}
		seen[s.name] = true
		consumers[s.consumer]++
		for rep := 0; rep < reps; rep++ {
			jobs = append(jobs, job{i, rep})
		}
	}
	c.Note("shapes", len(allShapes))
	c.Note("consumers", len(consumers))
	c.Note("payload_repetitions", reps)
	coll := &collector{}

	c.Parallel("shape", len(jobs), 0, func(ji int, _ *core.Rand) {
		s := &allShapes[jobs[ji].si]
		rep := jobs[ji].rep
		ce, ok := encode(c, s, rep, cborx.FormMinimal, cborx.FormMinimal)
		if !ok {
			panic("c03: canonical form not encodable: " + s.name)
		}
		c.Journal("C03 shape %s rep %d canonical %s", s.name, rep, core.HexFull(ce.full))
		cd := runDecode(s, ce.full)
		if cd.panic != "" {
			c.Inconclusive(fmt.Sprintf("%s: consumer panicked on the canonical encoding %s: %.300s", s.name, core.Hex(ce.full), cd.panic))
			return
		}
		if s.want != "" && cd.err != nil {
			// The table says this list is a member of the sum and its first
			// element names s.want. The library produced no variant at all for
			// the canonical encoding: the tag was not followed (typically a
			// dispatch to the wrong variant's decoder, which then fails).
			c.Count("canonical_rejected", 1)
			if s.libShaped {
				c.Inconclusive(fmt.Sprintf("%s: canonical encoding %s rejected: %v", s.name, core.Hex(ce.full), cd.err))
				return
			}
			coll.add(jobs[ji].si*4096, fmt.Sprintf("C03:%s:canonical-rejected", s.consumer),
				fmt.Sprintf("%s: the canonical encoding of a valid list with first element %d (%s) is rejected: %v", s.consumer, s.tag, s.want, cd.err),
				len(ce.full), map[string]any{"shape": s.name, "consumer": s.consumer, "tag": s.tag, "input_hex": core.HexFull(ce.full), "want_variant": s.want, "error": cd.err.Error()})
			return
		}
		for hi, h := range hdrForms {
			for wi, w := range intForms {
				e, ok := encode(c, s, rep, h, w)
				if !ok {
					c.Count("form_not_applicable", 1)
					continue
				}
				order := (jobs[ji].si*64+rep)*64 + hi*8 + wi
				c.Eval()
				c.Count("hdr_"+h.String(), 1)
				c.Count("int_"+w.String(), 1)
				wit := func(extra map[string]any) map[string]any {
					m := map[string]any{
						"shape": s.name, "consumer": s.consumer, "tag": s.tag,
						"header_form": h.String(), "int_form": w.String(),
						"input_hex": core.HexFull(e.full), "tagged_list_hex": core.HexFull(e.target),
						"canonical_hex": core.HexFull(ce.full), "payload_rep": rep,
					}
					for k, v := range extra {
						m[k] = v
					}
					return m
				}

				// (1) the library's own tag extraction and length
				c.Journal("C03 %s rep %d hdr=%s int=%s %s", s.name, rep, h, w, core.HexFull(e.full))
				checkPrimitives(c, coll, order, h, w, e.target, s.tag, e.n)

				// (2) the consumer
				d := runDecode(s, e.full)
				switch {
				case d.panic != "":
					c.Count("consumer_panics", 1)
					c.Inconclusive(fmt.Sprintf("%s hdr=%s int=%s: consumer panicked on %s: %.300s", s.name, h, w, core.Hex(e.full), d.panic))
					continue
				case d.err != nil:
					c.Count("rejected", 1)
					c.Count("rejected_hdr_"+h.String(), 1)
					continue
				}
				c.Count("accepted", 1)
				c.Count("accepted_hdr_"+h.String(), 1)
				c.Distinct(s.name, rep, h.String(), w.String())
				if (ji*30+hi*5+wi)%211 == 0 {
					c.Sample(map[string]any{"shape": s.name, "hdr": h.String(), "int": w.String(), "hex": core.Hex(e.full), "variant": d.variant})
				}
				key := fmt.Sprintf("C03:%s:%s", s.consumer, h)
				switch {
				case s.want == "":
					coll.add(order, key, fmt.Sprintf("%s: first element %d names no variant of this sum, yet the %s-header encoding was decoded as %s", s.consumer, s.tag, h, d.variant),
						len(e.full), wit(map[string]any{"got_variant": d.variant, "want_variant": "(none: decoding has to fail)"}))
				case d.variant != s.want:
					coll.add(order, key, fmt.Sprintf("%s: list with first element %d and %s array header decoded as %s, the tag names %s", s.consumer, s.tag, h, d.variant, s.want),
						len(e.full), wit(map[string]any{"got_variant": d.variant, "want_variant": s.want}))
				case d.canon != cd.canon:
					coll.add(order, key, fmt.Sprintf("%s: %s-header/%s-int encoding of tag %d decodes to a different value than the canonical encoding", s.consumer, h, w, s.tag),
						len(e.full), wit(map[string]any{"got_value": clip(d.canon), "canonical_value": clip(cd.canon)}))
				case d.obs != cd.obs:
					coll.add(order, key, fmt.Sprintf("%s: %s-header/%s-int encoding of tag %d behaves differently (%s) from the canonical encoding (%s)", s.consumer, h, w, s.tag, d.obs, cd.obs),
						len(e.full), wit(map[string]any{"got_observation": d.obs, "canonical_observation": cd.obs}))
				}
			}
		}
	})

	runLists(c, coll)
	coll.flush(c)

	if n := c.Counter("accepted"); n < int64(len(allShapes)) {
		c.Inconclusive(fmt.Sprintf("consumers accepted only %d inputs for %d shapes: the implication was hardly exercised", n, len(allShapes)))
	}
	c.SetExhaustive()
}

func clip(s string) string {
	if len(s) > 1500 {
		return s[:1500] + "..."
	}
	return s
}

// checkPrimitives: DecodeIdFromList(list) fails or is the first element;
// ListLength(list) fails or is the element count.
func checkPrimitives(c *core.Ctx, coll *collector, order int, h, w cborx.Form, list []byte, id uint64, n int) (idReturned bool) {
	var got int
	var err error
	p, val, _ := core.Safely(func() { got, err = gcbor.DecodeIdFromList(list) })
	switch {
	case p:
		c.Inconclusive(fmt.Sprintf("DecodeIdFromList panicked on %s: %v", core.Hex(list), val))
	case err != nil:
		c.Count("DecodeIdFromList_rejected", 1)
	case n == 0:
		// no first element: the property says nothing; count only
		c.Count("DecodeIdFromList_on_empty_list_returned", 1)
	default:
		c.Count("DecodeIdFromList_returned", 1)
		idReturned = true
		if uint64(got) != id || got < 0 {
			coll.add(order, "C03:DecodeIdFromList:"+h.String(),
				fmt.Sprintf("DecodeIdFromList on a %d-element list with %s header and %s-width first element %d returned %d", n, h, w, id, got),
				len(list), map[string]any{"list_hex": core.HexFull(list), "first_element": id, "returned": got, "elements": n, "header_form": h.String(), "int_form": w.String()})
		}
	}
	var ln int
	p, val, _ = core.Safely(func() { ln, err = gcbor.ListLength(list) })
	switch {
	case p:
		c.Inconclusive(fmt.Sprintf("ListLength panicked on %s: %v", core.Hex(list), val))
	case err != nil:
		c.Count("ListLength_rejected", 1)
	default:
		c.Count("ListLength_returned", 1)
		if ln != n {
			coll.add(order, "C03:ListLength:"+h.String(),
				fmt.Sprintf("ListLength on a %d-element list with %s header returned %d", n, h, ln),
				len(list), map[string]any{"list_hex": core.HexFull(list), "elements": n, "returned": ln, "header_form": h.String()})
		}
	}
	return idReturned
}

// runLists: lists of length 0..30 (crossing the 23/24 boundary of the
// one-byte header) with boundary and random ids, filler elements of mixed
// kinds, every header form and every width that can hold the id.
func runLists(c *core.Ctx, coll *collector) {
	boundary := []uint64{0, 1, 2, 22, 23, 24, 25, 255, 256, 65535, 65536, 1<<32 - 1, 1 << 32}
	randomIDs := c.N(6, 200)
	type lc struct {
		n  int
		id uint64
		k  int
	}
	var cases []lc
	for n := 0; n <= 30; n++ {
		for k, id := range boundary {
			cases = append(cases, lc{n, id, k})
		}
		for k := 0; k < randomIDs; k++ {
			cases = append(cases, lc{n, 0, 100 + k})
		}
	}
	c.Note("list_cases", len(cases))
	c.Parallel("lists", len(cases), 0, func(i int, r *core.Rand) {
		cs := cases[i]
		id := cs.id
		if cs.k >= 100 {
			switch r.Intn(4) {
			case 0:
				id = uint64(r.Intn(24))
			case 1:
				id = uint64(r.Intn(1 << 16))
			default:
				id = r.Uint64() & (1<<32 - 1)
			}
		}
		mk := func() *cborx.Node {
			fr := c.Rand("lists-filler", i)
			l := cborx.A()
			for j := 0; j < cs.n; j++ {
				if j == 0 {
					l.Items = append(l.Items, cborx.U(id))
					continue
				}
				switch fr.Intn(6) {
				case 0:
					l.Items = append(l.Items, cborx.U(uint64(fr.Intn(30))))
				case 1:
					l.Items = append(l.Items, cborx.B(fr.Bytes(fr.Intn(40))))
				case 2:
					l.Items = append(l.Items, cborx.A(cborx.U(uint64(fr.Intn(5))), cborx.B(fr.Bytes(4))))
				case 3:
					l.Items = append(l.Items, cborx.S("x"))
				case 4:
					l.Items = append(l.Items, cborx.I(-int64(fr.Intn(1000))-1))
				default:
					l.Items = append(l.Items, cborx.M(cborx.U(1), cborx.Null()))
				}
			}
			return l
		}
		for hi, h := range hdrForms {
			for wi, w := range intForms {
				l := mk()
				if !l.SetForm(h) {
					continue
				}
				if cs.n > 0 && !l.Items[0].SetForm(w) {
					continue
				}
				if cs.n == 0 && wi > 0 {
					continue
				}
				b := l.Encode()
				c.Eval()
				c.Count("list_evaluations", 1)
				c.Journal("C03 list n=%d id=%d hdr=%s int=%s %s", cs.n, id, h, w, core.HexFull(b))
				if checkPrimitives(c, coll, 1<<30+i*64+hi*8+wi, h, w, b, id, cs.n) {
					c.Distinct("list", cs.n, id, h.String(), w.String())
				}
			}
		}
	})
}
