// Package c29 monitors C29: native scripts evaluate as the ledger defines
// them, and a script's hash is Blake2b-224(0x00 ‖ original encoding).
//
// Observation points
//
//	(E) common.NativeScript.Evaluate on scripts DECODED from bytes written
//	    with cborx (canonical and non-canonical encodings),
//	(R) the era's UtxoValidateNativeScripts rule (Allegra..Dijkstra) on real,
//	    decoded transactions that spend a UTxO locked by the script and carry
//	    it in the witness set, with body keys 8 / 3 absent or present as the
//	    generator wrote them; the era's complete rule list is run as well,
//	(H) NativeScript.Hash() of the decoded script, of every decoded sub-script,
//	    of the script as it comes back from the transaction's witness set and
//	    (Babbage+) from a script_ref of an output.
//
// Oracle: a reference evaluator over the generator's own description of the
// script (never over the decoded object), written from the statement:
//
//	pubkey h            holds iff h is the hash of a key with a vkey witness
//	all / any / n-of-k  combine their sub-scripts (all [] = true, any [] = false,
//	                    n-of-k: at least n hold)
//	invalid-before l    holds iff the transaction HAS a validity start s and l <= s
//	invalid-hereafter l holds iff the transaction HAS an upper bound e and e <= l
//
// (E) passes bounds to Evaluate the way its doc comment prescribes: "0 if not
// set" for the start, "math.MaxUint64 if not set" for the end.
//
// A mismatch is classified by the smallest change to the transaction context
// that makes the reference agree with the library (absent start read as
// present 0, absent upper bound read as present 2^64-1, explicit upper bound 0
// read as absent); a mismatch no such reading explains is keyed by the kind of
// the smallest sub-script on which the two evaluators disagree.
package c29

import (
	"bytes"
	"errors"
	"fmt"
	"math"
	"sort"
	"strings"
	"sync"

	"github.com/blinklabs-io/gouroboros/cbor"
	"github.com/blinklabs-io/gouroboros/ledger/allegra"
	"github.com/blinklabs-io/gouroboros/ledger/common"

	"verifharness/cborx"
	"verifharness/core"
	lg "verifharness/ledgergen"
)

func init() {
	core.Register(&core.Monitor{
		ID:            "C29",
		Rule:          "scripts over 3 keys and time bounds {0,5,2^64-1}: every script of depth <= 2 and width <= 3 (sub-scripts as multisets of the 9 leaves, PRNG order; all / any / n-of-k with n in 0..k+1: 1483 scripts) plus PRNG-sampled depth-3 scripts (quick 2500, thorough 40000), each decoded from its canonical encoding and from one PRNG non-canonical encoding (non-minimal / indefinite array, integer and byte-string headers); (E) each decoded script x all 8 witness-key subsets x validity interval grid {absent,0,4,5,6,2^64-1}^2 through NativeScript.Evaluate; (R) per era Allegra..Dijkstra a PRNG sub-sample of the scripts x the same 288 contexts as real transactions through UtxoValidateNativeScripts and the full rule list; the (R) transactions cycle through body map key orders (ascending, key 3 last, key 8 last, descending, shuffled; with a body key above 8 from Mary on) and every rule call is repeated on the same objects (lg.Checked); (U) receiver reuse: every script is decoded into a variable (and into a by-value copy of a variable) that already holds a decoded and hashed OTHER script – hash, stored bytes and evaluation must follow the new script, the original of a copy stays untouched; the same bytes are also hashed through the auxiliary-data entry point (array and #6.259 form); a case is non-trivial when the script (E) / transaction (R) decodes; distinct by (site, era, script, encoding, key subset, interval)",
		MinNontrivial: 100000,
		Assumptions: []string{
			"NativeScript.Evaluate takes plain uint64 bounds; absence is passed the way its doc comment prescribes (validityStart 0, validityEnd math.MaxUint64)",
			"require-guard scripts (type 6, Dijkstra) and Shelley multisig (no rule in the Shelley list) are outside the statement and not generated",
			"the payment part of every (R) transaction is valid (pre-flight: the transaction with the script all[] is accepted by the full rule list of every era)",
			"golang.org/x/crypto/blake2b and crypto/ed25519 are correct",
		},
		Run: run,
	})
}

// ---------------------------------------------------------------- script model

type kind int

const (
	kSig kind = iota
	kAll
	kAny
	kNofK
	kBefore
	kAfter
)

var kindName = [...]string{"pubkey", "all", "any", "n-of-k", "invalid-before", "invalid-hereafter"}

type script struct {
	k    kind
	key  int    // kSig: index into keys
	n    uint64 // kNofK
	slot uint64 // kBefore / kAfter
	subs []*script
}

func slotStr(v uint64) string {
	if v == math.MaxUint64 {
		return "max"
	}
	return fmt.Sprint(v)
}

func (s *script) String() string {
	switch s.k {
	case kSig:
		return fmt.Sprintf("sig%d", s.key)
	case kBefore:
		return "before(" + slotStr(s.slot) + ")"
	case kAfter:
		return "hereafter(" + slotStr(s.slot) + ")"
	}
	var p []string
	for _, x := range s.subs {
		p = append(p, x.String())
	}
	body := "[" + strings.Join(p, ",") + "]"
	switch s.k {
	case kAll:
		return "all" + body
	case kAny:
		return "any" + body
	}
	return fmt.Sprintf("%dof%s", s.n, body)
}

func (s *script) depth() int {
	d := 0
	for _, x := range s.subs {
		if y := x.depth(); y > d {
			d = y
		}
	}
	return d + 1
}

func (s *script) size() int {
	n := 1
	for _, x := range s.subs {
		n += x.size()
	}
	return n
}

func (s *script) hasKind(k kind) bool {
	if s.k == k {
		return true
	}
	for _, x := range s.subs {
		if x.hasKind(k) {
			return true
		}
	}
	return false
}

// bound is an optional slot: present=false means the body key is absent.
type bound struct {
	present bool
	v       uint64
}

func (b bound) String() string {
	if !b.present {
		return "absent"
	}
	return slotStr(b.v)
}

func (b bound) ptr() *uint64 {
	if !b.present {
		return nil
	}
	v := b.v
	return &v
}

// tctx is the transaction context of the statement.
type tctx struct {
	keys       uint8 // bit i: key i has a vkey witness
	start, end bound
}

func (c tctx) String() string {
	return fmt.Sprintf("witness_keys=%03b validity_start=%s upper_bound=%s", c.keys, c.start, c.end)
}

// ref is the reference evaluator, written from the statement.
func ref(s *script, c tctx) bool {
	switch s.k {
	case kSig:
		return c.keys&(1<<uint(s.key)) != 0
	case kAll:
		for _, x := range s.subs {
			if !ref(x, c) {
				return false
			}
		}
		return true
	case kAny:
		for _, x := range s.subs {
			if ref(x, c) {
				return true
			}
		}
		return false
	case kNofK:
		var n uint64
		for _, x := range s.subs {
			if ref(x, c) {
				n++
			}
		}
		return n >= s.n
	case kBefore:
		return c.start.present && s.slot <= c.start.v
	case kAfter:
		return c.end.present && c.end.v <= s.slot
	}
	panic("c29: unknown kind")
}

// ---------------------------------------------------------------- keys, contexts

var (
	keys      [3]lg.Key
	keyHash   [3]lg.Hash28
	gridVals  = []bound{{}, {true, 0}, {true, 4}, {true, 5}, {true, 6}, {true, math.MaxUint64}}
	timeVals  = []uint64{0, 5, math.MaxUint64}
	contexts  []tctx
	ruleEras  = []lg.Era{lg.Allegra, lg.Mary, lg.Alonzo, lg.Babbage, lg.Conway, lg.Dijkstra}
	nContexts int
)

func init() {
	for i := range keys {
		keys[i] = lg.NewKey(fmt.Sprintf("c29-k%d", i))
		keyHash[i] = keys[i].Hash()
	}
	for ks := 0; ks < 8; ks++ {
		for _, st := range gridVals {
			for _, en := range gridVals {
				contexts = append(contexts, tctx{uint8(ks), st, en})
			}
		}
	}
	nContexts = len(contexts)
}

// ---------------------------------------------------------------- encoding

// policy chooses header forms; a nil *policy writes the canonical encoding.
type policy struct{ r *core.Rand }

func (p *policy) apply(n *cborx.Node) *cborx.Node {
	if p == nil || !p.r.Chance(1, 2) {
		return n
	}
	var opts []cborx.Form
	switch n.Kind {
	case cborx.Array:
		opts = []cborx.Form{cborx.Form1, cborx.Form2, cborx.Form4, cborx.Form8, cborx.FormIndef}
	case cborx.Bytes:
		opts = []cborx.Form{cborx.Form1, cborx.Form2, cborx.Form4, cborx.Form8, cborx.FormIndef}
	case cborx.Uint:
		for _, f := range []cborx.Form{cborx.Form1, cborx.Form2, cborx.Form4, cborx.Form8} {
			if cborx.FormFits(f, n.Arg) {
				opts = append(opts, f)
			}
		}
	}
	if len(opts) == 0 {
		return n
	}
	f := core.Pick(p.r, opts)
	if f == cborx.FormIndef && n.Kind == cborx.Bytes {
		n.SetFormChunks(f, 1+p.r.Intn(2))
	} else {
		n.SetForm(f)
	}
	return n
}

// node writes the script as CBOR under the policy.
func (s *script) node(p *policy) *cborx.Node {
	u := func(v uint64) *cborx.Node { return p.apply(cborx.U(v)) }
	list := func() *cborx.Node {
		var it []*cborx.Node
		for _, x := range s.subs {
			it = append(it, x.node(p))
		}
		return p.apply(cborx.A(it...))
	}
	switch s.k {
	case kSig:
		h := keyHash[s.key]
		return p.apply(cborx.A(u(0), p.apply(cborx.B(append([]byte(nil), h[:]...)))))
	case kAll:
		return p.apply(cborx.A(u(1), list()))
	case kAny:
		return p.apply(cborx.A(u(2), list()))
	case kNofK:
		return p.apply(cborx.A(u(3), u(s.n), list()))
	case kBefore:
		return p.apply(cborx.A(u(4), u(s.slot)))
	case kAfter:
		return p.apply(cborx.A(u(5), u(s.slot)))
	}
	panic("c29: unknown kind")
}

// subNodes returns the cborx nodes of the direct sub-scripts inside the parsed
// node of s.
func (s *script) subNodes(n *cborx.Node) []*cborx.Node {
	switch s.k {
	case kAll, kAny:
		return n.Items[1].Items
	case kNofK:
		return n.Items[2].Items
	}
	return nil
}

// ---------------------------------------------------------------- enumeration

func leaves() []*script {
	var out []*script
	for i := 0; i < 3; i++ {
		out = append(out, &script{k: kSig, key: i})
	}
	for _, v := range timeVals {
		out = append(out, &script{k: kBefore, slot: v})
	}
	for _, v := range timeVals {
		out = append(out, &script{k: kAfter, slot: v})
	}
	return out
}

// multisets returns every multiset of size 0..3 over n elements as index lists.
func multisets(n int) [][]int {
	out := [][]int{{}}
	for a := 0; a < n; a++ {
		out = append(out, []int{a})
		for b := a; b < n; b++ {
			out = append(out, []int{a, b})
			for c := b; c < n; c++ {
				out = append(out, []int{a, b, c})
			}
		}
	}
	return out
}

func combos(r *core.Rand, subs []*script) []*script {
	// PRNG order of the sub-scripts, so that "only the first / last element is
	// looked at" is not hidden by a sorted order
	sh := make([]*script, len(subs))
	for i, j := range r.Perm(len(subs)) {
		sh[i] = subs[j]
	}
	out := []*script{{k: kAll, subs: sh}, {k: kAny, subs: sh}}
	for n := 0; n <= len(subs)+1; n++ {
		out = append(out, &script{k: kNofK, n: uint64(n), subs: sh})
	}
	return out
}

func universe(c *core.Ctx) (all []*script, d2 int) {
	lv := leaves()
	all = append(all, lv...)
	r := c.Rand("order")
	var depth2 []*script
	for _, ms := range multisets(len(lv)) {
		var subs []*script
		for _, i := range ms {
			subs = append(subs, lv[i])
		}
		depth2 = append(depth2, combos(r, subs)...)
	}
	all = append(all, depth2...)
	d2 = len(all)
	seen := map[string]bool{}
	for _, s := range all {
		seen[s.String()] = true
	}
	r3 := c.Rand("depth3")
	want := c.N(2500, 40000)
	for tries := 0; len(all) < d2+want && tries < want*20; tries++ {
		w := 1 + r3.Intn(3)
		var subs []*script
		deep := r3.Intn(w)
		for i := 0; i < w; i++ {
			if i == deep || r3.Chance(1, 2) {
				subs = append(subs, core.Pick(r3, depth2))
			} else {
				subs = append(subs, core.Pick(r3, lv))
			}
		}
		var s *script
		switch r3.Intn(3) {
		case 0:
			s = &script{k: kAll, subs: subs}
		case 1:
			s = &script{k: kAny, subs: subs}
		default:
			s = &script{k: kNofK, n: uint64(r3.Intn(w + 2)), subs: subs}
		}
		if t := s.String(); !seen[t] {
			seen[t] = true
			all = append(all, s)
		}
	}
	return all, d2
}

// ---------------------------------------------------------------- findings

type finding struct {
	key, what string
	witness   map[string]any
	weight    [3]int // smaller = better witness
	count     int
}

type collector struct {
	mu sync.Mutex
	m  map[string]*finding
}

func (co *collector) add(f finding) {
	co.mu.Lock()
	defer co.mu.Unlock()
	old := co.m[f.key]
	if old == nil {
		f.count = 1
		co.m[f.key] = &f
		return
	}
	old.count++
	less := false
	for i := range f.weight {
		if f.weight[i] != old.weight[i] {
			less = f.weight[i] < old.weight[i]
			break
		}
	}
	if less {
		f.count = old.count
		co.m[f.key] = &f
	}
}

func (co *collector) flush(c *core.Ctx) {
	var ks []string
	for k := range co.m {
		ks = append(ks, k)
	}
	sort.Strings(ks)
	for _, k := range ks {
		f := co.m[k]
		f.witness["mismatches_in_this_class"] = f.count
		c.Violation(f.key, fmt.Sprintf("%s (%d such cases)", f.what, f.count), f.witness)
	}
}

// libCtx is how the unchanged library reads a context: the three readings
// that classify a mismatch.
const (
	rdAbsentStart = 1 << iota // absent start read as present 0
	rdAbsentEnd               // absent upper bound read as present 2^64-1
	rdZeroEnd                 // explicit upper bound 0 read as absent
)

var readingName = map[int]string{rdAbsentStart: "absent-start", rdAbsentEnd: "absent-hereafter", rdZeroEnd: "zero-hereafter"}

func applicable(c tctx, allowZeroEnd bool) int {
	m := 0
	if !c.start.present {
		m |= rdAbsentStart
	}
	if !c.end.present {
		m |= rdAbsentEnd
	}
	if allowZeroEnd && c.end.present && c.end.v == 0 {
		m |= rdZeroEnd
	}
	return m
}

func reread(c tctx, m int) tctx {
	if m&rdAbsentStart != 0 && !c.start.present {
		c.start = bound{true, 0}
	}
	if m&rdZeroEnd != 0 && c.end.present && c.end.v == 0 {
		c.end = bound{}
	}
	if m&rdAbsentEnd != 0 && !c.end.present {
		c.end = bound{true, math.MaxUint64}
	}
	return c
}

// explain returns the names of the smallest set of readings under which the
// reference gives `lib`; nil when no reading explains the library's answer.
func explain(s *script, c tctx, lib bool, allowZeroEnd bool) []string {
	app := applicable(c, allowZeroEnd)
	best := -1
	for m := 1; m < 8; m++ {
		if m&^app != 0 {
			continue
		}
		if ref(s, reread(c, m)) != lib {
			continue
		}
		if best < 0 || popcount(m) < popcount(best) {
			best = m
		}
	}
	if best < 0 {
		return nil
	}
	var out []string
	for _, b := range []int{rdAbsentStart, rdAbsentEnd, rdZeroEnd} {
		if best&b != 0 {
			out = append(out, readingName[b])
		}
	}
	return out
}

func popcount(m int) int {
	n := 0
	for ; m != 0; m &= m - 1 {
		n++
	}
	return n
}

// culprit finds the smallest sub-script on which the library (direct
// evaluation of the DECODED sub-script with the arguments vs / ve) and the
// reference disagree, and returns its kind. c must be the context as the
// library reads it (vs / ve present), so that the known absent-bound readings
// are not blamed for an unrelated disagreement.
func culprit(s *script, ns *common.NativeScript, c tctx, vs, ve uint64, kh map[common.Blake2b224]bool) string {
	subs := libSubs(ns)
	if len(subs) == len(s.subs) {
		for i, x := range s.subs {
			sub := subs[i]
			if sub.Evaluate(0, vs, ve, kh) != ref(x, c) {
				return culprit(x, &sub, c, vs, ve, kh)
			}
		}
	} else if len(s.subs) > 0 {
		return kindName[s.k] + "-subscript-count"
	}
	return kindName[s.k]
}

func libSubs(ns *common.NativeScript) []common.NativeScript {
	switch it := ns.Item().(type) {
	case *common.NativeScriptAll:
		return it.Scripts
	case *common.NativeScriptAny:
		return it.Scripts
	case *common.NativeScriptNofK:
		return it.Scripts
	}
	return nil
}

// optionalBoundsEvaluator is an entry point that can express an absent bound
// (nil). The unchanged library has none; a repaired library that offers it is
// judged through it (see MUTATIONS.md, "repair").
type optionalBoundsEvaluator interface {
	EvaluateWithValidity(validityStart, validityEnd *uint64, keyHashes map[common.Blake2b224]bool) bool
}

var keyMaps [8]map[common.Blake2b224]bool

func init() {
	for m := range keyMaps {
		keyMaps[m] = buildKeyMap(uint8(m))
	}
}

// witnessKeyMap returns the (shared, read-only) witness key-hash set of a mask.
func witnessKeyMap(mask uint8) map[common.Blake2b224]bool { return keyMaps[mask&7] }

func buildKeyMap(mask uint8) map[common.Blake2b224]bool {
	m := map[common.Blake2b224]bool{}
	for i := 0; i < 3; i++ {
		if mask&(1<<uint(i)) != 0 {
			m[common.Blake2b224(keyHash[i])] = true
		}
	}
	return m
}

// ---------------------------------------------------------------- run

func run(c *core.Ctx) {
	lg.EnableChecks(c).Revalidations = 1 // one repetition on the same objects: the rule-level family is large
	scripts, d2 := universe(c)
	c.Note("scripts_total", len(scripts))
	c.Note("scripts_depth_le_2_exhaustive", d2)
	c.Note("contexts_per_script", nContexts)
	co := &collector{m: map[string]*finding{}}
	_, hasOpt := any(&common.NativeScript{}).(optionalBoundsEvaluator)
	c.Note("library_has_EvaluateWithValidity", hasOpt)

	runDirect(c, co, scripts)
	runRules(c, co, scripts, d2)
	runScriptRef(c, co, scripts)
	runReuse(c, co, scripts)
	co.flush(c)

	if c.Counter("evaluate_true") == 0 || c.Counter("evaluate_false") == 0 {
		forceInconclusive(c, "Evaluate never returned both outcomes")
	}
	for _, e := range ruleEras {
		if c.Counter("rule_accept_"+e.String()) == 0 || c.Counter("rule_reject_"+e.String()) == 0 {
			forceInconclusive(c, e.String()+": the native-script rule was not observed with both outcomes")
		}
		if c.Counter("full_list_accept_"+e.String()) == 0 {
			forceInconclusive(c, e.String()+": the full rule list never accepted a script-spending transaction")
		}
	}
}

func encName(canon bool) string {
	if canon {
		return "canonical"
	}
	return "noncanonical"
}

// checkHashes compares Hash() / Cbor() of a decoded script and of all its
// decoded sub-scripts with Blake2b-224(0x00 ‖ original bytes).
func checkHashes(co *collector, site string, s *script, ns *common.NativeScript, n *cborx.Node, src []byte, canon bool, top *script, topBytes []byte) {
	level := "script"
	if s != top {
		level = "subscript"
	}
	orig := n.Slice(src)
	want := lg.ScriptHash(0, orig)
	got := ns.Hash()
	if !bytes.Equal(got[:], want[:]) {
		reenc := ""
		if b, err := cbor.Encode(ns.Item()); err == nil {
			reenc = core.HexFull(b)
		}
		co.add(finding{
			key:  "C29:hash:" + site + ":" + level + ":" + encName(canon),
			what: fmt.Sprintf("NativeScript.Hash() of a decoded %s script %s is %x, Blake2b-224(0x00 || original bytes %x) is %x", encName(canon), s, got[:], orig, want[:]),
			witness: map[string]any{"site": site, "script": top.String(), "script_cbor": core.HexFull(topBytes), "subscript": s.String(), "subscript_original_bytes": core.HexFull(orig),
				"library_hash": fmt.Sprintf("%x", got[:]), "reference_hash": fmt.Sprintf("%x", want[:]), "library_stored_cbor": core.HexFull(ns.Cbor()), "library_reencoding": reenc},
			weight: [3]int{len(topBytes), len(orig), 0},
		})
	}
	subs := libSubs(ns)
	sn := s.subNodes(n)
	if len(subs) != len(s.subs) || len(sn) != len(s.subs) {
		return
	}
	for i, x := range s.subs {
		sub := subs[i]
		checkHashes(co, site, x, &sub, sn[i], src, canon, top, topBytes)
	}
}

func runDirect(c *core.Ctx, co *collector, scripts []*script) {
	c.Parallel("direct", len(scripts), 0, func(i int, r *core.Rand) {
		s := scripts[i]
		canonBytes := s.node(nil).Encode()
		for enc := 0; enc < 2; enc++ {
			var raw []byte
			var n *cborx.Node
			if enc == 0 {
				raw, n = s.node(nil).Reparse()
			} else {
				raw, n = s.node(&policy{r}).Reparse()
				if bytes.Equal(raw, canonBytes) {
					continue
				}
			}
			canon := enc == 0
			c.Journal("C29 direct %d %s enc=%x", i, s, raw)
			var ns common.NativeScript
			if _, err := cbor.Decode(raw, &ns); err != nil {
				c.Count("decode_rejected_"+encName(canon), 1)
				if canon {
					// a canonical script of the statement's universe that does
					// not decode cannot be evaluated at all
					co.add(finding{key: "C29:decode:canonical-script-rejected", what: fmt.Sprintf("canonical native script %s (%x) does not decode: %v", s, raw, err),
						witness: map[string]any{"script": s.String(), "script_cbor": core.HexFull(raw), "error": err.Error()}, weight: [3]int{len(raw), 0, 0}})
				}
				continue
			}
			c.Count("decoded_"+encName(canon), 1)
			checkHashes(co, "decoded", s, &ns, n, raw, canon, s, raw)
			if !bytes.Equal(ns.Cbor(), raw) {
				c.Count("stored_cbor_differs", 1)
			}
			nTrue, nFalse := 0, 0
			for ci, cx := range contexts {
				vs, ve := uint64(0), uint64(math.MaxUint64) // "0 if not set" / "math.MaxUint64 if not set"
				if cx.start.present {
					vs = cx.start.v
				}
				if cx.end.present {
					ve = cx.end.v
				}
				kh := witnessKeyMap(cx.keys)
				want := ref(s, cx)
				c.Distinct(uint64(i)<<12 | uint64(enc)<<10 | uint64(ci)) // (E): script, encoding, context
				// observations: the plain Evaluate (absence passed as its doc
				// comment says) and, when the library has one, the entry
				// point that can express absence. With the latter available
				// the plain Evaluate is judged only on contexts it can express.
				type obs struct {
					api string
					got bool
				}
				var observed []obs
				oe, hasOpt := any(&ns).(optionalBoundsEvaluator)
				if !hasOpt || (cx.start.present && cx.end.present) {
					observed = append(observed, obs{"Evaluate", ns.Evaluate(0, vs, ve, kh)})
				}
				if hasOpt {
					observed = append(observed, obs{"EvaluateWithValidity", oe.EvaluateWithValidity(cx.start.ptr(), cx.end.ptr(), kh)})
				}
				for _, ob := range observed {
					lib := ob.got
					if lib {
						nTrue++
					} else {
						nFalse++
					}
					if lib == want {
						continue
					}
					c.Count("evaluate_mismatch", 1)
					wit := map[string]any{"script": s.String(), "script_cbor": core.HexFull(raw), "encoding": encName(canon), "context": cx.String(), "entry_point": ob.api,
						"evaluate_args": map[string]any{"validityStart": vs, "validityEnd": ve, "witness_key_hashes": hashesOf(cx.keys)},
						"library":       lib, "reference": want}
					w := [3]int{s.size(), len(raw), ci}
					if ex := explain(s, cx, lib, false); ex != nil {
						for _, name := range ex {
							co.add(finding{key: "C29:evaluate:" + name,
								what:    fmt.Sprintf("NativeScript.%s(%s) = %v with %s (plain Evaluate: absence passed as documented, start 0 / end 2^64-1 when not set); the ledger semantics give %v (the library's answer is the one for: %s)", ob.api, s, lib, cx, want, strings.Join(ex, " + ")),
								witness: wit, weight: w})
						}
						continue
					}
					cu := culprit(s, &ns, tctx{cx.keys, bound{true, vs}, bound{true, ve}}, vs, ve, kh)
					co.add(finding{key: "C29:evaluate:mismatch:" + cu,
						what:    fmt.Sprintf("NativeScript.%s(%s) = %v under %s, reference evaluator gives %v; smallest disagreeing sub-script kind: %s", ob.api, s, lib, cx, want, cu),
						witness: wit, weight: w})
				}
			}
			c.EvalN(nContexts)
			c.Count("evaluate_true", nTrue)
			c.Count("evaluate_false", nFalse)
			if i%701 == 0 && enc == 1 {
				c.Sample(map[string]any{"site": "Evaluate", "script": s.String(), "noncanonical_cbor": core.HexFull(raw), "contexts": nContexts})
			}
		}
	})
}

func hashesOf(mask uint8) []string {
	var out []string
	for i := 0; i < 3; i++ {
		if mask&(1<<uint(i)) != 0 {
			out = append(out, fmt.Sprintf("%x", keyHash[i][:]))
		}
	}
	return out
}

// ---------------------------------------------------------------- rule level

var scriptIn = lg.In("c29-script-utxo", 0)

const scriptCoin = 3_000_000

// scriptState returns the world's state plus a UTxO locked by the script.
func scriptState(w *lg.World, scriptBytes []byte) (*lg.State, lg.Hash28, error) {
	sh := lg.ScriptHash(0, scriptBytes)
	st := w.State.Clone()
	err := st.AddUtxo(w.Era, scriptIn, lg.Output{Addr: lg.EnterpriseScriptAddr(w.Net, sh), Coin: scriptCoin, MapForm: w.Era >= lg.Babbage})
	return st, sh, err
}

// buildTx returns the spec of a transaction spending the UTxO locked by the
// script (given as bytes) under context cx.
// bodyOrders are the presentations of the body map the rule-level family
// cycles through: the validity bounds (keys 3 and 8) end up after a key > 8
// (Mary: mint 9, Alonzo+: network id 15), before everything, or anywhere.
var bodyOrderNames = []string{"ascending", "key-3-last", "key-8-last", "descending", "shuffled"}

func bodyOrder(k int, seed uint64) lg.KeyOrder {
	switch k {
	case 1:
		return lg.KeyLast(3)
	case 2:
		return lg.KeyLast(8)
	case 3:
		return lg.Descending()
	case 4:
		return lg.Shuffled(seed)
	}
	return lg.Ascending()
}

func buildTx(w *lg.World, scriptBytes []byte, cx tctx, tagSets bool, order int, seed uint64) *lg.TxSpec {
	spec := w.Spec.Clone()
	spec.BodyOrder = bodyOrder(order, seed)
	if order != 0 {
		spec.WitnessOrder = lg.Descending()
		// a body key above 8, so that "the bounds come after a key > 8" exists
		switch {
		case w.Era >= lg.Alonzo:
			spec.NetworkID = lg.U8(lg.Mainnet)
		case w.Era == lg.Mary:
			pol := lg.ScriptHash(0, scriptBytes) // the witness script is the minting policy
			spec.Mint = []lg.Asset{lg.Tok(pol, "t", 1)}
			spec.Outputs = append([]lg.Output(nil), spec.Outputs...)
			spec.Outputs[0].Assets = []lg.Asset{lg.Tok(pol, "t", 1)}
		}
	}
	spec.Inputs = append(spec.Inputs, scriptIn)
	spec.Outputs[0].Coin += scriptCoin
	spec.ValidityStart = cx.start.ptr()
	spec.TTL = cx.end.ptr()
	spec.NativeScripts = []*cborx.Node{cborx.Raw(scriptBytes)}
	spec.TagSets = tagSets
	for i := 0; i < 3; i++ {
		if cx.keys&(1<<uint(i)) != 0 {
			spec.Signers = append(spec.Signers, keys[i])
		}
	}
	return spec
}

func runRules(c *core.Ctx, co *collector, scripts []*script, d2 int) {
	type rcase struct {
		era   lg.Era
		si    int
		canon bool
	}
	worlds := map[lg.Era]*lg.World{}
	rules := map[lg.Era]common.UtxoValidationRuleFunc{}
	for _, e := range ruleEras {
		w := lg.NewWorld(e)
		worlds[e] = w
		f, ok := lg.Rule(e, "UtxoValidateNativeScripts")
		if !ok {
			// the era's list has no native-script rule: every script-spending
			// transaction would pass unchecked
			c.Violation("C29:rule:"+e.String()+":rule-missing-from-list", e.String()+": UtxoValidateNativeScripts is not in the era's UtxoValidationRules", map[string]any{"era": e.String(), "rule_list": lg.RuleNames(e)})
			f = allegra.UtxoValidateNativeScripts
		}
		rules[e] = f
		c.Note("native_script_rule_"+e.String(), lg.RuleName(f))
		// pre-flight: all[] (always true) spends, any[] (never true) does not
		for _, pf := range []struct {
			s    *script
			want bool
		}{{&script{k: kAll}, true}, {&script{k: kAny}, false}} {
			b := pf.s.node(nil).Encode()
			st, _, err := scriptState(w, b)
			spec := buildTx(w, b, tctx{}, false, 0, 0)
			if err != nil {
				forceInconclusive(c, fmt.Sprintf("pre-flight %s: script-locked UTxO not accepted by the output decoder: %v", e, err))
				return
			}
			o := w.RunWith(spec, 0, st, w.PP())
			if o.DecodeErr != nil || (pf.want && !o.Accepted) {
				forceInconclusive(c, fmt.Sprintf("pre-flight %s: transaction spending a UTxO locked by %s: decode=%v verify=%v", e, pf.s, o.DecodeErr, o.VerifyErr))
				return
			}
			if !pf.want && f(o.Tx, 0, st, w.PP()) == nil {
				c.Violation("C29:rule:"+e.String()+":mismatch:any", e.String()+": the native-script rule accepts the script any[] (never satisfiable)", map[string]any{"era": e.String(), "tx_cbor": core.HexFull(o.Built.Cbor)})
			}
		}
	}
	// sub-sample of the scripts per era: all leaves, PRNG picks of depth 2 / 3
	var cases []rcase
	n2, n3 := c.N(28, 400), c.N(18, 400)
	for _, e := range ruleEras {
		r := c.Rand("rule-sample", e.String())
		idx := []int{}
		for i := 0; i < 9; i++ {
			idx = append(idx, i)
		}
		for k := 0; k < n2; k++ {
			idx = append(idx, 9+r.Intn(d2-9))
		}
		for k := 0; k < n3 && len(scripts) > d2; k++ {
			idx = append(idx, d2+r.Intn(len(scripts)-d2))
		}
		for k, si := range idx {
			cases = append(cases, rcase{e, si, k%2 == 0})
		}
	}
	c.Note("rule_level_script_cases", len(cases))
	c.Parallel("rule", len(cases), 0, func(i int, r *core.Rand) {
		rc := cases[i]
		s := scripts[rc.si]
		w := worlds[rc.era]
		en := rc.era.String()
		var pol *policy
		if !rc.canon {
			pol = &policy{r}
		}
		sb := s.node(pol).Encode()
		canon := bytes.Equal(sb, s.node(nil).Encode())
		tagSets := rc.era >= lg.Conway && r.Bool()
		order := i % len(bodyOrderNames)
		c.Count("rule_body_order:"+bodyOrderNames[order], 1)
		pp := w.PP()
		c.Journal("C29 rule %d era=%s %s script=%x tag_sets=%v x %d contexts", i, en, s, sb, tagSets, nContexts)
		st, sh, err := scriptState(w, sb)
		if err != nil {
			c.Count("rule_utxo_rejected_"+en, 1)
			return
		}
		for ci, cx := range contexts {
			built := buildTx(w, sb, cx, tagSets, order, uint64(i)).Build()
			if !bytes.Contains(built.Cbor, sb) {
				c.Inconclusive("generator: script bytes not found verbatim in the built transaction")
				return
			}
			tx, derr := built.Decode()
			c.Eval()
			if derr != nil {
				c.Count("rule_tx_decode_rejected_"+en+"_"+encName(canon), 1)
				continue
			}
			c.Distinct("R", en, rc.si, core.HexFull(sb), ci)
			// hash of the script as the witness set hands it out
			if wit := tx.Witnesses(); wit != nil {
				nss := wit.NativeScripts()
				if len(nss) != 1 {
					co.add(finding{key: "C29:rule:" + en + ":witness-script-count", what: fmt.Sprintf("%s: witness set with one native script decodes to %d scripts", en, len(nss)),
						witness: map[string]any{"era": en, "tx_cbor": core.HexFull(built.Cbor)}, weight: [3]int{len(built.Cbor), 0, 0}})
				} else if ci == 0 {
					_, n := cborx.Raw(sb).Reparse()
					checkHashes(co, "witness:"+en, s, &nss[0], n, sb, canon, s, sb)
				}
			}
			slot := uint64(0)
			if cx.start.present {
				slot = cx.start.v
			}
			rerr := lg.Checked(rc.era, tx, st, func() error { return rules[rc.era](tx, slot, st, pp) })
			lib := rerr == nil
			want := ref(s, cx)
			if lib {
				c.Count("rule_accept_"+en, 1)
			} else {
				c.Count("rule_reject_"+en, 1)
				var nf allegra.NativeScriptFailedError
				if errors.As(rerr, &nf) {
					if !bytes.Equal(nf.ScriptHash[:], sh[:]) {
						co.add(finding{key: "C29:hash:rule-error:" + en + ":" + encName(canon), what: fmt.Sprintf("%s: NativeScriptFailedError names script %x, the failing script's hash is %x", en, nf.ScriptHash[:], sh[:]),
							witness: map[string]any{"era": en, "tx_cbor": core.HexFull(built.Cbor), "script_cbor": core.HexFull(sb)}, weight: [3]int{len(built.Cbor), 0, 0}})
					}
				} else {
					c.Count("rule_reject_other_error:"+lg.ErrType(rerr), 1)
				}
			}
			full := lg.Verify(rc.era, tx, slot, st, pp)
			if full == nil {
				c.Count("full_list_accept_"+en, 1)
			} else {
				c.Count("full_list_reject_"+en, 1)
			}
			wit := map[string]any{"era": en, "script": s.String(), "script_cbor": core.HexFull(sb), "encoding": encName(canon), "context": cx.String(), "slot": slot, "body_key_order": bodyOrderNames[order],
				"tx_cbor": core.HexFull(built.Cbor), "rule": lg.RuleName(rules[rc.era]), "rule_result": fmt.Sprint(rerr), "full_rule_list_result": fmt.Sprint(full), "reference": want}
			wt := [3]int{s.size(), len(sb), ci}
			if full == nil && !lib && !want {
				co.add(finding{key: "C29:full-list:" + en + ":failing-script-accepted",
					what:    fmt.Sprintf("%s: the complete rule list accepts a transaction spending a UTxO locked by %s under %s although the script does not hold (the single rule rejects it)", en, s, cx),
					witness: wit, weight: wt})
			}
			if lib == want {
				continue
			}
			c.Count("rule_mismatch_"+en, 1)
			if ex := explain(s, cx, lib, true); ex != nil {
				for _, name := range ex {
					co.add(finding{key: "C29:rule:" + en + ":" + name,
						what:    fmt.Sprintf("%s: %s returns %v for script %s in a transaction with %s; the ledger semantics give script = %v (the rule's answer is the one for: %s)", en, lg.RuleName(rules[rc.era]), errStr(rerr), s, cx, want, strings.Join(ex, " + ")),
						witness: wit, weight: wt})
				}
				continue
			}
			// attribute: evaluate the decoded witness script directly with the
			// arguments the unchanged rules derive from the body (start or 0;
			// upper bound, 2^64-1 when absent or 0). If that reproduces the
			// rule's answer the disagreement is inside the evaluator (smallest
			// disagreeing sub-script); otherwise it is in the rule's wiring.
			cu := "rule-wiring"
			if wset := tx.Witnesses(); wset != nil && len(wset.NativeScripts()) == 1 {
				ns := wset.NativeScripts()[0]
				vs, ve := uint64(0), uint64(math.MaxUint64)
				if cx.start.present {
					vs = cx.start.v
				}
				if cx.end.present && cx.end.v != 0 {
					ve = cx.end.v
				}
				kh := witnessKeyMap(cx.keys)
				if ns.Evaluate(0, vs, ve, kh) == lib {
					cu = culprit(s, &ns, tctx{cx.keys, bound{true, vs}, bound{true, ve}}, vs, ve, kh)
				}
			}
			co.add(finding{key: "C29:rule:" + en + ":mismatch:" + cu,
				what:    fmt.Sprintf("%s: %s returns %v for script %s in a transaction with %s, reference evaluator gives %v; attributed to: %s", en, lg.RuleName(rules[rc.era]), errStr(rerr), s, cx, want, cu),
				witness: wit, weight: wt})
		}
		if i%97 == 0 {
			c.Sample(map[string]any{"site": "rule", "era": en, "script": s.String(), "script_cbor": core.HexFull(sb), "contexts": nContexts})
		}
	})
}

func errStr(err error) string {
	if err == nil {
		return "nil (accept)"
	}
	return "error (" + err.Error() + ")"
}

// runScriptRef checks the hash of native scripts carried as script_ref of a
// Babbage+ output (canonical and non-canonical script bytes).
// runReuse is the receiver-reuse / history family of the hash clause: a
// NativeScript variable that has already been decoded AND hashed is decoded
// again with a DIFFERENT script (the same variable, and a by-value copy of
// it). Afterwards Hash() must be Blake2b-224(00 || the NEW script's original
// bytes), Cbor() the new bytes, evaluation must follow the new script, and the
// original of a copy must still answer for the old script.
func runReuse(c *core.Ctx, co *collector, scripts []*script) {
	n := len(scripts)
	c.Parallel("reuse", n, 0, func(i int, r *core.Rand) {
		x, y := scripts[i], scripts[(i*7+3)%n]
		if x.String() == y.String() {
			y = scripts[(i+1)%n]
		}
		var px, py *policy
		if i%2 == 1 {
			px = &policy{r}
		}
		if i%3 == 2 {
			py = &policy{r}
		}
		xb, yb := x.node(px).Encode(), y.node(py).Encode()
		if bytes.Equal(xb, yb) {
			return
		}
		hx, hy := lg.ScriptHash(0, xb), lg.ScriptHash(0, yb)
		c.Journal("C29 reuse %d x=%x y=%x", i, xb, yb)
		report := func(class, what string, got []byte) {
			co.add(finding{key: "C29:hash:" + class, weight: [3]int{len(xb) + len(yb), 0, 0},
				what: what,
				witness: map[string]any{"first_script": x.String(), "first_script_cbor": core.HexFull(xb), "second_script": y.String(), "second_script_cbor": core.HexFull(yb),
					"hash_of_first": fmt.Sprintf("%x", hx[:]), "hash_of_second": fmt.Sprintf("%x", hy[:]), "library_answer": fmt.Sprintf("%x", got)}})
		}
		evalFollows := func(ns *common.NativeScript, want *script, class string) {
			for k := 0; k < 6; k++ {
				cx := contexts[(i*13+k*47)%nContexts]
				if !cx.start.present || !cx.end.present {
					continue
				}
				if ns.Evaluate(0, cx.start.v, cx.end.v, witnessKeyMap(cx.keys)) != ref(want, cx) {
					report("reused-receiver:evaluation-does-not-follow-the-new-script:"+class, fmt.Sprintf("after decoding %s into a variable that held %s, Evaluate under %s does not give the new script's value", y, x, cx), nil)
					return
				}
			}
		}
		// (1) the same variable; with and without reading the hash in between
		for _, hashFirst := range []bool{true, false} {
			var v common.NativeScript
			if _, err := cbor.Decode(xb, &v); err != nil {
				return
			}
			if hashFirst {
				if h := v.Hash(); !bytes.Equal(h[:], hx[:]) {
					return // reported by the plain hash checks
				}
			}
			if _, err := cbor.Decode(yb, &v); err != nil {
				return
			}
			c.Eval()
			c.Distinct("U", i, hashFirst)
			c.Count("reuse_same_variable", 1)
			if h := v.Hash(); !bytes.Equal(h[:], hy[:]) {
				report("reused-receiver:stale-hash", fmt.Sprintf("decode %s, Hash(), decode %s into the SAME variable: Hash() = %x, Blake2b-224(00 || second script) = %x (hash of the first script: %x)", x, y, h[:], hy[:], hx[:]), h[:])
			}
			if !bytes.Equal(v.Cbor(), yb) {
				report("reused-receiver:stale-cbor", fmt.Sprintf("decode %s then %s into the same variable: Cbor() is not the second script's bytes", x, y), v.Cbor())
			}
			evalFollows(&v, y, "same-variable")
		}
		// (2) a by-value copy is decoded again; both orders of reading the hashes
		for order := 0; order < 3; order++ {
			var a common.NativeScript
			if _, err := cbor.Decode(xb, &a); err != nil {
				return
			}
			if order == 0 {
				_ = a.Hash() // the original was hashed before it was copied
			}
			b := a
			if _, err := cbor.Decode(yb, &b); err != nil {
				return
			}
			c.Eval()
			c.Distinct("V", i, order)
			c.Count("reuse_by_value_copy", 1)
			var ha, hb common.ScriptHash
			if order == 2 {
				ha, hb = a.Hash(), b.Hash()
			} else {
				hb = b.Hash()
				ha = a.Hash()
			}
			if !bytes.Equal(hb[:], hy[:]) {
				report("by-value-copy:copy-has-stale-hash", fmt.Sprintf("b := a (a = %s); decode %s into b: b.Hash() = %x, want %x", x, y, hb[:], hy[:]), hb[:])
			}
			if !bytes.Equal(ha[:], hx[:]) {
				report("by-value-copy:original-affected", fmt.Sprintf("b := a (a = %s); decode %s into b: a.Hash() = %x, want the hash of a's own script %x", x, y, ha[:], hx[:]), ha[:])
			}
			if !bytes.Equal(a.Cbor(), xb) || !bytes.Equal(b.Cbor(), yb) {
				report("by-value-copy:cbor-mixed-up", "after decoding another script into a by-value copy, Cbor() of the original / copy is not its own script", nil)
			}
			evalFollows(&b, y, "copy")
			evalFollows(&a, x, "original")
		}
		// (3) the same bytes through the auxiliary-data entry point
		if i%4 == 0 {
			for _, shape := range []string{"array", "tag259"} {
				md := cborx.M(cborx.U(1), cborx.S("c29"))
				aux := cborx.A(md, cborx.A(cborx.Raw(yb)))
				if shape == "tag259" {
					aux = cborx.T(259, cborx.M(cborx.U(0), md, cborx.U(1), cborx.A(cborx.Raw(yb))))
				}
				ad, err := common.DecodeAuxiliaryData(aux.Encode())
				c.Eval()
				if err != nil || ad == nil {
					c.Count("auxdata_decode_rejected_"+shape, 1)
					continue
				}
				nss, err := ad.NativeScripts()
				if err != nil || len(nss) != 1 {
					c.Count("auxdata_scripts_unavailable_"+shape, 1)
					continue
				}
				c.Distinct("X", i, shape)
				c.Count("auxdata_checked_"+shape, 1)
				if h := nss[0].Hash(); !bytes.Equal(h[:], hy[:]) {
					report("auxdata:"+shape+":"+encName(py == nil), fmt.Sprintf("native script %s inside auxiliary data (%s form): Hash() = %x, Blake2b-224(00 || original bytes) = %x", y, shape, h[:], hy[:]), h[:])
				}
			}
		}
	})
}

func runScriptRef(c *core.Ctx, co *collector, scripts []*script) {
	r := c.Rand("scriptref")
	n := c.N(300, 5000)
	for k := 0; k < n; k++ {
		s := scripts[r.Intn(len(scripts))]
		var pol *policy
		if k%2 == 1 {
			pol = &policy{r}
		}
		sb, node := s.node(pol).Reparse()
		canon := bytes.Equal(sb, s.node(nil).Encode())
		e := core.Pick(r, []lg.Era{lg.Babbage, lg.Conway, lg.Dijkstra})
		out := lg.Output{Addr: lg.EnterpriseKeyAddr(lg.Mainnet, keyHash[0]), Coin: 2_000_000, MapForm: true, ScriptRef: lg.ScriptRefNode(0, cborx.Raw(sb))}
		ob := out.Node().Encode()
		c.Journal("C29 scriptref %d %x", k, ob)
		o, err := lg.DecodeOutput(e, ob)
		c.Eval()
		if err != nil {
			c.Count("scriptref_decode_rejected_"+encName(canon), 1)
			continue
		}
		sr := o.ScriptRef()
		if sr == nil {
			c.Count("scriptref_nil", 1)
			continue
		}
		c.Distinct("S", core.HexFull(sb))
		c.Count("scriptref_checked_"+encName(canon), 1)
		want := lg.ScriptHash(0, sb)
		got := sr.Hash()
		if !bytes.Equal(got[:], want[:]) {
			co.add(finding{key: "C29:hash:scriptref:" + encName(canon), what: fmt.Sprintf("script_ref native script %s: Hash() = %x, Blake2b-224(0x00 || original bytes) = %x", s, got[:], want[:]),
				witness: map[string]any{"script": s.String(), "script_cbor": core.HexFull(sb), "output_cbor": core.HexFull(ob), "library_hash": fmt.Sprintf("%x", got[:]), "reference_hash": fmt.Sprintf("%x", want[:])},
				weight:  [3]int{len(sb), 0, 0}})
		}
		if ns, ok := sr.(common.NativeScript); ok {
			checkHashes(co, "scriptref", s, &ns, node, sb, canon, s, sb)
		}
	}
}

// forceInconclusive records a run-level reason why nothing can be concluded
// often enough to cross the supervisor's 2 % line.
func forceInconclusive(c *core.Ctx, what string) {
	n := int(c.Evals()/50) + 1
	for i := 0; i < n; i++ {
		c.Inconclusive(what)
	}
}
