//go:build only_c45

package mon

import _ "verifharness/mon/c45"
