# Cross-check of the big.Float interval oracle with mpmath.iv (rigorous
# interval arithmetic). stdin: JSON list of {i,pool,total,fn,fd}; stdout: JSON
# list of {i,t256,t512,prec} or {i,err}. Precision is doubled until
# floor(lo) == floor(hi) for both k = 256 and k = 512.
import json
import sys

from mpmath import iv


def exact_floor(raw):
    # raw mpf tuple of an endpoint; value = (-1)^sign * man * 2^exp exactly
    sign, man, exp, _bc = raw
    man = int(man)
    if sign:
        man = -man
    if exp >= 0:
        return man << exp
    return man >> (-exp)  # arithmetic shift == floor


def evaluate(pool, total, fn, fd):
    u, v = fd - fn, fd
    prec = 1024
    while prec <= 8192:
        iv.prec = prec
        g = iv.mpf(u) / iv.mpf(v)
        sigma = iv.mpf(pool) / iv.mpf(total)
        r = iv.exp(sigma * iv.log(g))
        p = 1 - r
        out = []
        for k in (256, 512):
            t = p * (iv.mpf(2) ** k)
            lo, hi = exact_floor(t._mpi_[0]), exact_floor(t._mpi_[1])
            if lo != hi:
                out = None
                break
            out.append(max(lo, 0))
        if out is not None:
            return out, prec
        prec *= 2
    return None, prec


def main():
    jobs = json.load(sys.stdin)
    res = []
    for j in jobs:
        try:
            out, prec = evaluate(int(j["pool"]), int(j["total"]), int(j["fn"]), int(j["fd"]))
            if out is None:
                res.append({"i": j["i"], "err": "unresolved"})
            else:
                res.append({"i": j["i"], "t256": str(out[0]), "t512": str(out[1]), "prec": prec})
        except Exception as e:  # noqa: BLE001
            res.append({"i": j["i"], "err": repr(e)[:200]})
    json.dump(res, sys.stdout)


if __name__ == "__main__":
    main()
