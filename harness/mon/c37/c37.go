// Package c37 monitors C37: the leadership threshold is the exact floor of the
// Praos formula.
//
// Oracles, all independent of consensus/threshold.go:
//
//	(i)   rigorous interval evaluation of 2^k*(1-(1-f)^sigma) on big.Float with
//	      directed rounding and explicit series remainders (iv.go), precision
//	      doubled until floor(lo) == floor(hi); the rational case ((1-f) a
//	      perfect b-th power, sigma = a/b reduced) is decided first with exact
//	      integer roots and rational arithmetic, so the refinement always
//	      terminates (otherwise (1-f)^sigma is irrational and never an integer
//	      multiple of 2^-k);
//	(ii)  for small reduced denominators b an exact big.Int bracket check of the
//	      library's answer t: (2^k-t-1)^b * v^a < u^a * 2^(kb) <= (2^k-t)^b * v^a
//	      with 1-f = u/v;
//	(iii) a sample of cases re-evaluated by mpmath.iv (python3-vt) as a check of
//	      oracle (i) itself (a disagreement between oracles is inconclusive);
//	(iv)  monotonicity in sigma and in f over sorted chains;
//	(v)   eligibility <=> leader value < threshold, with VRF outputs placed at
//	      threshold-1, threshold, threshold+1 (TPraos: raw 64-byte output) and
//	      random outputs (CPraos: blake2b-256("L"||output));
//	(vi)  an error iff f is outside [0,1].
package c37

import (
	"bytes"
	_ "embed"
	"encoding/json"
	"fmt"
	"math/big"
	"os"
	"os/exec"
	"path/filepath"
	"runtime/debug"
	"sort"
	"sync"

	"github.com/blinklabs-io/gouroboros/consensus"
	"golang.org/x/crypto/blake2b"

	"verifharness/core"
)

//go:embed mpiv.py
var mpivPy []byte

func init() {
	core.Register(&core.Monitor{
		ID:            "C37",
		Rule:          "generated (poolStake, totalStake, f) triples, each evaluated in both modes (k=256, 512): classes mainnet, stake-edges {1,2,total-1,total,total+1,2^64-1,random}, f with small denominators, f = n/d with n,d up to 2000 bits, f = 2^-j and 1-2^-j, (1-f) an exact b-th power (rational result, incl. results exactly on an integer), exact power +- 2^-D (D 300..2000: irrational next to an integer), +- 2^-20000 (beyond the library's escalation cap), f in {0,1}, f < 0, f > 1, zero stakes; monotone chains in sigma and in f; a case is non-trivial when 0 < f < 1 and both stakes are positive; distinct by (pool, total, f, mode)",
		MinNontrivial: 1000,
		Assumptions: []string{
			"math/big Int/Rat arithmetic is exact and big.Float honours its rounding modes",
			"golang.org/x/crypto/blake2b is correct",
			"sigma is poolStake/totalStake capped at 1; totalStake == 0 is outside the statement (sigma undefined) and not judged; f == 1 with poolStake == 0 (0^0) is not judged",
		},
		QuickTimeout: 900,
		Run:          run,
	})
}

var (
	one    = big.NewInt(1)
	ratOne = big.NewRat(1, 1)
)

func pow2(k uint) *big.Int { return new(big.Int).Lsh(one, k) }

type tcase struct {
	class       string
	pool, total uint64
	f           *big.Rat
}

func (t *tcase) witness(mode string, extra map[string]any) map[string]any {
	w := map[string]any{"class": t.class, "pool_stake": t.pool, "total_stake": t.total, "mode": mode}
	if t.f != nil {
		w["f_num"] = t.f.Num().String()
		w["f_den"] = t.f.Denom().String()
	}
	for k, v := range extra {
		w[k] = v
	}
	return w
}

// ---------------------------------------------------------------- oracle (i)

// iroot returns (r, true) iff n == r^b for integers n >= 0, b >= 1. Bit-by-bit
// construction of floor(n^(1/b)), then an exact power check.
func iroot(n *big.Int, b uint64) (*big.Int, bool) {
	if n.Sign() == 0 || n.Cmp(one) == 0 || b == 1 {
		return new(big.Int).Set(n), true
	}
	if b >= uint64(n.BitLen()) { // 2^b > n: only r = 1, and n != 1
		return nil, false
	}
	bits := n.BitLen()/int(b) + 1
	r := new(big.Int)
	bb := new(big.Int).SetUint64(b)
	for i := bits; i >= 0; i-- {
		cand := new(big.Int).SetBit(new(big.Int).Set(r), i, 1)
		if new(big.Int).Exp(cand, bb, nil).Cmp(n) <= 0 {
			r = cand
		}
	}
	if new(big.Int).Exp(r, bb, nil).Cmp(n) == 0 {
		return r, true
	}
	return nil, false
}

type oracleResult struct {
	t256, t512 *big.Int
	exact      bool // rational case
	rSmall     bool // (1-f)^sigma < 2^-128
	prec       uint // precision at which the interval resolved
	fail       string
}

const maxOraclePrec = 1 << 18

// oracle computes floor(2^k (1-(1-f)^(a/b))) for k = 256 and 512; requires
// 0 < f < 1, 1 <= a <= b, gcd(a,b) = 1.
func oracle(f *big.Rat, a, b uint64, startPrec uint) oracleResult {
	g := new(big.Rat).Sub(ratOne, f)
	u, v := g.Num(), g.Denom()
	if ru, ok := iroot(u, b); ok {
		if rv, ok := iroot(v, b); ok {
			aa := new(big.Int).SetUint64(a)
			r := new(big.Rat).SetFrac(new(big.Int).Exp(ru, aa, nil), new(big.Int).Exp(rv, aa, nil))
			p := new(big.Rat).Sub(ratOne, r)
			res := oracleResult{exact: true, rSmall: r.Cmp(new(big.Rat).SetFrac(one, pow2(128))) < 0}
			for _, k := range []uint{256, 512} {
				n := new(big.Int).Mul(pow2(k), p.Num())
				n.Quo(n, p.Denom()) // p >= 0: truncation is floor
				if k == 256 {
					res.t256 = n
				} else {
					res.t512 = n
				}
			}
			return res
		}
	}
	for prec := max(startPrec, 1024); prec <= maxOraclePrec; prec *= 2 {
		c := ctx{prec}
		gi := c.fromRat(u, v)
		sigma := c.fromRat(new(big.Int).SetUint64(a), new(big.Int).SetUint64(b))
		y := c.mul(sigma, c.ln(gi))
		if y.hi.Sign() > 0 {
			// ln(g) < 0 and sigma > 0 exactly; only rounding can push the upper end above 0
			y.hi = c.up().SetInt64(0)
			if y.lo.Sign() > 0 {
				y.lo = c.dn().SetInt64(0)
			}
		}
		r := c.expNonPos(y)
		oneF := new(big.Float).SetInt64(1)
		if r.hi.Cmp(oneF) > 0 {
			r.hi = c.up().SetInt64(1) // exp(y) <= 1 for y <= 0
		}
		p := c.sub(c.fromInt64(1), r)
		res := oracleResult{prec: prec, rSmall: r.hi.Cmp(new(big.Float).SetMantExp(big.NewFloat(1), -128)) < 0}
		okAll := true
		for _, k := range []uint{256, 512} {
			tlo := floorInt(c.dn().SetMantExp(p.lo, int(k)))
			thi := floorInt(c.up().SetMantExp(p.hi, int(k)))
			if tlo.Cmp(thi) != 0 {
				okAll = false
				break
			}
			if k == 256 {
				res.t256 = tlo
			} else {
				res.t512 = tlo
			}
		}
		if okAll {
			return res
		}
	}
	return oracleResult{fail: fmt.Sprintf("interval did not resolve up to %d bits", maxOraclePrec)}
}

// ---------------------------------------------------------------- oracle (ii)

// bracket decides exactly whether t == floor(2^k(1-(u/v)^(a/b))). ok=false
// when the numbers would be too large.
func bracket(t *big.Int, k uint, u, v *big.Int, a, b uint64) (holds bool, ok bool) {
	if b > 4096 || uint64(k)*b > 600000 || a*uint64(v.BitLen()) > 600000 {
		return false, false
	}
	aa, bb := new(big.Int).SetUint64(a), new(big.Int).SetUint64(b)
	hi := new(big.Int).Sub(pow2(k), t) // 2^k - t
	lo := new(big.Int).Sub(hi, one)    // 2^k - t - 1
	if hi.Sign() < 0 {
		return false, true
	}
	va := new(big.Int).Exp(v, aa, nil)
	mid := new(big.Int).Mul(new(big.Int).Exp(u, aa, nil), new(big.Int).Lsh(one, k*uint(b)))
	right := new(big.Int).Mul(new(big.Int).Exp(hi, bb, nil), va)
	if mid.Cmp(right) > 0 {
		return false, true
	}
	if lo.Sign() < 0 { // t == 2^k: needs (u/v)^sigma == 0
		return u.Sign() == 0, true
	}
	left := new(big.Int).Mul(new(big.Int).Exp(lo, bb, nil), va)
	return left.Cmp(mid) < 0, true
}

// ---------------------------------------------------------------- generators

func randBits(r *core.Rand, bits int) *big.Int {
	if bits <= 0 {
		return new(big.Int)
	}
	b := r.Bytes((bits + 7) / 8)
	x := new(big.Int).SetBytes(b)
	x.SetBit(x, bits-1, 1)
	for i := x.BitLen() - 1; i >= bits; i-- {
		x.SetBit(x, i, 0)
	}
	return x
}

// fracBelowOne returns a rational in (0,1) with numerator / denominator of up to `bits` bits.
func fracBelowOne(r *core.Rand, bits int) *big.Rat {
	for {
		d := randBits(r, r.Range(2, bits))
		n := randBits(r, r.Range(1, d.BitLen()))
		if n.Sign() > 0 && n.Cmp(d) < 0 {
			return new(big.Rat).SetFrac(n, d)
		}
	}
}

func gcd64(a, b uint64) uint64 {
	for b != 0 {
		a, b = b, a%b
	}
	return a
}

func randStake(r *core.Rand) uint64 {
	switch r.Intn(5) {
	case 0:
		return uint64(r.Range(1, 1000))
	case 1:
		return r.Uint64()>>uint(r.Intn(64)) | 1
	case 2:
		return uint64(1) << uint(r.Intn(64))
	case 3:
		return 20_000_000_000_000_000 + r.Uint64()%5_000_000_000_000_000
	default:
		return r.Uint64() | 1
	}
}

func stakePair(r *core.Rand) (pool, total uint64) {
	total = randStake(r)
	switch r.Intn(9) {
	case 0:
		pool = 1
	case 1:
		pool = 2
	case 2:
		pool = total - 1
	case 3:
		pool = total
	case 4:
		pool = total + 1
	case 5:
		pool = ^uint64(0)
	case 6:
		total = ^uint64(0)
		pool = r.Uint64()
	default:
		pool = r.Uint64() % (total + 1)
		if total == ^uint64(0) {
			pool = r.Uint64()
		}
	}
	if pool == 0 {
		pool = 1
	}
	return
}

var smallFs = [][2]int64{{1, 20}, {1, 10}, {1, 5}, {1, 4}, {1, 2}, {3, 4}, {9, 10}, {99, 100}, {1, 100}, {1, 1000}, {2, 3}, {1, 3}, {19, 20}, {999, 1000}}

// powerCase builds sigma = a/b and 1-f = (x/y)^b (+delta).
func powerCase(r *core.Rand, class string, deltaBits int) tcase {
	b := uint64(r.Range(2, 24))
	if r.Chance(1, 4) {
		b = uint64(r.Range(25, 300))
	}
	a := uint64(r.Range(1, int(b)-1))
	for gcd64(a, b) != 1 {
		a = uint64(r.Range(1, int(b)-1))
	}
	m := uint64(1)
	if r.Bool() {
		m = r.Uint64()%(^uint64(0)/b) + 1
	}
	var x, y *big.Int
	if r.Chance(2, 3) {
		// y = 2^j with j*a <= 256 (or 512): the exact value 2^k(1-(x/y)^a) is an integer
		lim := 256
		if r.Bool() {
			lim = 512
		}
		j := r.Range(1, max(1, lim/int(a)))
		y = pow2(uint(j))
		x = new(big.Int).Sub(y, new(big.Int).Add(randBits(r, r.Range(0, j-1)), one))
		if x.Sign() <= 0 {
			x = big.NewInt(1)
		}
		if x.Cmp(y) >= 0 {
			x = new(big.Int).Sub(y, one)
		}
	} else {
		y = new(big.Int).Add(randBits(r, r.Range(2, 40)), one)
		x = new(big.Int).Add(new(big.Int).Mod(randBits(r, 40), new(big.Int).Sub(y, one)), one)
	}
	bb := new(big.Int).SetUint64(b)
	g := new(big.Rat).SetFrac(new(big.Int).Exp(x, bb, nil), new(big.Int).Exp(y, bb, nil))
	if deltaBits > 0 {
		d := new(big.Rat).SetFrac(one, pow2(uint(deltaBits)))
		if r.Bool() {
			g.Add(g, d)
		} else {
			g.Sub(g, d)
		}
	}
	f := new(big.Rat).Sub(ratOne, g)
	if f.Sign() <= 0 || f.Cmp(ratOne) >= 0 {
		f = big.NewRat(1, 2)
	}
	return tcase{class: class, pool: a * m, total: b * m, f: f}
}

func genCase(r *core.Rand, i int, quick bool) tcase {
	if i == 0 {
		// pinned: sigma = 1/2, 1-f = 1/4 + 2^-20000: 2^256(1-(1-f)^sigma) = 2^255 - ~2^-19744 (the library tries up to 18432 bits)
		f := new(big.Rat).Sub(big.NewRat(3, 4), new(big.Rat).SetFrac(one, pow2(20000)))
		return tcase{"beyond-cap", 1, 2, f}
	}
	if i < 2 && quick || i < 8 && !quick {
		return powerCase(r, "beyond-cap", 20000)
	}
	switch i {
	case 8: // pinned: smallest sigma=1/2 input whose 1-(1-f)^sigma rounds to 1 at 704 bits
		return tcase{"f-near-1", 1, 2, new(big.Rat).Sub(ratOne, new(big.Rat).SetFrac(one, pow2(1411)))}
	case 9:
		return tcase{"f-near-1", 1, 2, new(big.Rat).Sub(ratOne, new(big.Rat).SetFrac(one, pow2(1409)))}
	case 10:
		return tcase{"f<0", 1, 2, big.NewRat(-1, 2)}
	case 12: // pinned: sigma = 1/2, 1-f = 2^-300 + 2^-1200: floor is 2^256 - 2^106 - 1
		f := new(big.Rat).Sub(ratOne, new(big.Rat).SetFrac(one, pow2(300)))
		return tcase{"exact-power+-ulp", 1, 2, f.Sub(f, new(big.Rat).SetFrac(one, pow2(1200)))}
	case 11:
		return tcase{"f>1", 1, 2, big.NewRat(3, 2)}
	}
	switch r.Intn(14) {
	case 0:
		total := uint64(21_000_000_000_000_000 + r.Uint64()%2_000_000_000_000_000)
		pool := r.Uint64() % 80_000_000_000_000
		s := core.Pick(r, smallFs[:5])
		return tcase{"mainnet", pool + 1, total, big.NewRat(s[0], s[1])}
	case 1, 2:
		p, t := stakePair(r)
		s := core.Pick(r, smallFs)
		return tcase{"stake-edges", p, t, big.NewRat(s[0], s[1])}
	case 3:
		p, t := stakePair(r)
		d := int64(r.Range(2, 100))
		return tcase{"f-small-denominator", p, t, big.NewRat(int64(r.Range(1, int(d)-1)), d)}
	case 4, 5:
		p, t := stakePair(r)
		return tcase{"f-huge", p, t, fracBelowOne(r, 2000)}
	case 6:
		p, t := stakePair(r)
		return tcase{"f-near-0", p, t, new(big.Rat).SetFrac(one, pow2(uint(r.Range(1, 2000))))}
	case 7:
		p, t := stakePair(r)
		return tcase{"f-near-1", p, t, new(big.Rat).Sub(ratOne, new(big.Rat).SetFrac(one, pow2(uint(r.Range(1, 2000)))))}
	case 8, 9:
		return powerCase(r, "exact-power", 0)
	case 10, 11:
		return powerCase(r, "exact-power+-ulp", r.Range(300, 2000))
	case 12:
		// small sigma denominators with arbitrary f: the bracket check applies
		b := uint64(r.Range(1, 60))
		a := uint64(r.Range(1, int(b)))
		m := r.Uint64()%(^uint64(0)/b) + 1
		var f *big.Rat
		if r.Bool() {
			f = fracBelowOne(r, 300)
		} else {
			s := core.Pick(r, smallFs)
			f = big.NewRat(s[0], s[1])
		}
		return tcase{"small-sigma-denominator", a * m, b * m, f}
	default:
		return edgeCase(r)
	}
}

func edgeCase(r *core.Rand) tcase {
	p, t := stakePair(r)
	switch r.Intn(10) {
	case 0:
		return tcase{"f=0", p, t, new(big.Rat)}
	case 1:
		return tcase{"f=1", p, t, big.NewRat(1, 1)}
	case 2:
		return tcase{"f<0", p, t, new(big.Rat).Neg(fracBelowOne(r, 200))}
	case 3:
		return tcase{"f<0", p, t, big.NewRat(-int64(r.Range(1, 1000)), int64(r.Range(1, 1000)))}
	case 4:
		return tcase{"f>1", p, t, new(big.Rat).Add(ratOne, fracBelowOne(r, 2000))}
	case 5:
		return tcase{"f>1", p, t, big.NewRat(int64(r.Range(2, 1000)), 1)}
	case 6:
		return tcase{"pool=0", 0, t, fracBelowOne(r, 64)}
	case 7:
		return tcase{"total=0", p, 0, fracBelowOne(r, 64)}
	case 8:
		return tcase{"f=1,pool=0", 0, t, big.NewRat(1, 1)}
	default:
		return tcase{"f>1", 0, 0, big.NewRat(3, 2)}
	}
}

// ---------------------------------------------------------------- the run

type evaluated struct {
	tc     tcase
	judged bool
	exact  bool
	want   [2]*big.Int // by mode index
	got    [2]*big.Int
}

var modes = []struct {
	name string
	mode consensus.ConsensusMode
	k    uint
}{{"CPraos", consensus.ConsensusModeCPraos, 256}, {"TPraos", consensus.ConsensusModeTPraos, 512}}

func leaderValue(out []byte) *big.Int {
	h := blake2b.Sum256(append([]byte{'L'}, out...))
	return new(big.Int).SetBytes(h[:])
}

func fKey(f *big.Rat) string {
	s := f.String()
	if len(s) > 80 {
		h := blake2b.Sum256([]byte(s))
		return fmt.Sprintf("h%x", h[:10])
	}
	return s
}

// evalCase runs the library in both modes and judges the results.
func evalCase(c *core.Ctx, tc tcase, r *core.Rand, idx int) *evaluated {
	ev := &evaluated{tc: tc}
	f := tc.f
	inDomain := f.Sign() >= 0 && f.Cmp(ratOne) <= 0
	c.Count("class_"+tc.class, 1)
	c.Journal("C37 case %d class=%s pool=%d total=%d f=%s", idx, tc.class, tc.pool, tc.total, core.Hex([]byte(f.String())))

	// expected values
	var want [2]*big.Int
	judge := true
	var ores oracleResult
	nontrivial := false
	var a, b uint64
	switch {
	case !inDomain:
	case tc.total == 0:
		judge = false
	case f.Sign() == 0:
		want = [2]*big.Int{new(big.Int), new(big.Int)}
	case f.Cmp(ratOne) == 0 && tc.pool == 0:
		judge = false
	case tc.pool == 0:
		want = [2]*big.Int{new(big.Int), new(big.Int)}
	case f.Cmp(ratOne) == 0:
		want = [2]*big.Int{pow2(256), pow2(512)}
	default:
		p := min(tc.pool, tc.total)
		g := gcd64(p, tc.total)
		a, b = p/g, tc.total/g
		// precision hint only (soundness does not depend on it): inputs built
		// 2^-D away from a rational cut-off need about D + k bits
		hint := uint(0)
		if tc.class == "exact-power+-ulp" || tc.class == "beyond-cap" {
			hint = uint(f.Denom().BitLen()) + 700
		}
		ores = oracle(f, a, b, hint)
		if ores.fail != "" {
			c.Eval()
			c.Inconclusive(fmt.Sprintf("case %d (%s): oracle: %s", idx, tc.class, ores.fail))
			return ev
		}
		want = [2]*big.Int{ores.t256, ores.t512}
		nontrivial = true
		if ores.exact {
			c.Count("oracle_exact_rational", 1)
		} else {
			c.Count(fmt.Sprintf("oracle_interval_prec_%d", ores.prec), 1)
		}
	}
	ev.judged = judge && inDomain
	ev.exact = ores.exact
	ev.want = want

	for mi, m := range modes {
		var got *big.Int
		var err error
		fc := new(big.Rat).Set(f)
		p, pv, st := core.Safely(func() { got, err = consensus.CertifiedNatThresholdWithMode(tc.pool, tc.total, fc, m.mode) })
		c.Eval()
		if nontrivial {
			c.Distinct(tc.pool, tc.total, fKey(f), m.name)
		}
		if p {
			c.Violation("C37:CertifiedNatThresholdWithMode:panic:"+tc.class, fmt.Sprintf("panic: %v", pv), tc.witness(m.name, map[string]any{"stack": st}))
			continue
		}
		if fc.Cmp(f) != 0 {
			c.Violation("C37:CertifiedNatThresholdWithMode:mutates-f", "the active-slot coefficient argument was modified by the call", tc.witness(m.name, nil))
		}
		if !inDomain {
			if err == nil {
				side := "f>1"
				if f.Sign() < 0 {
					side = "f<0"
				}
				c.Count("out_of_domain_no_error", 1)
				c.Violation("C37:CertifiedNatThresholdWithMode:no-error:"+side, fmt.Sprintf("f = %s is outside [0,1] but the call returned threshold %v and no error", trunc(f.String()), got), tc.witness(m.name, nil))
			} else {
				c.Count("out_of_domain_error", 1)
			}
			continue
		}
		if err != nil {
			c.Count("in_domain_error", 1)
			c.Violation("C37:CertifiedNatThresholdWithMode:error-in-domain:"+tc.class, fmt.Sprintf("f in [0,1] (%s) but the call returned an error: %s", trunc(f.String()), trunc(err.Error())),
				tc.witness(m.name, map[string]any{"expected_threshold": strOrNil(want[mi])}))
			continue
		}
		if got == nil {
			c.Violation("C37:CertifiedNatThresholdWithMode:nil-result", "nil threshold without an error", tc.witness(m.name, nil))
			continue
		}
		ev.got[mi] = got
		if !judge {
			c.Count("not_judged_"+tc.class, 1)
			continue
		}
		c.Count("thresholds_judged", 1)
		var brHolds, brOK bool
		if nontrivial {
			g := new(big.Rat).Sub(ratOne, f)
			brHolds, brOK = bracket(got, m.k, g.Num(), g.Denom(), a, b)
			if brOK {
				c.Count("bracket_checks", 1)
			}
		}
		equal := got.Cmp(want[mi]) == 0
		if brOK && brHolds != equal {
			// the two independent exact oracles disagree about the library's answer
			c.Inconclusive(fmt.Sprintf("case %d: integer bracket (%v) and interval oracle (%v) disagree about the library's answer", idx, brHolds, equal))
			c.Count("oracle_disagreement", 1)
			continue
		}
		if !equal {
			d := new(big.Int).Sub(got, want[mi])
			sub := tc.class
			if ores.rSmall {
				// own input class: (1-f)^sigma is tiny, so 1-(1-f)^sigma needs far more
				// mantissa bits than the relative accuracy of the power itself
				sub = "power-below-2^-128"
			}
			c.Count("thresholds_not_floor", 1)
			c.Violation("C37:CertifiedNatThresholdWithMode:not-floor:"+sub+":"+m.name,
				fmt.Sprintf("threshold = %s, floor(2^%d(1-(1-f)^sigma)) = %s (difference %s)", got, m.k, want[mi], trunc(d.String())),
				tc.witness(m.name, map[string]any{"got": got.String(), "want": want[mi].String(), "oracle_exact_rational": ores.exact, "oracle_precision": ores.prec, "confirmed_by_integer_bracket": brOK, "power_below_2^-128": ores.rSmall}))
			continue
		}
		c.Count("thresholds_equal_floor", 1)
		// (v) eligibility at the threshold's neighbours
		eligibility(c, tc, mi, want[mi], got, r)
	}
	if nontrivial && c.SampleN() < 6 && idx%37 == 5 {
		c.Sample(map[string]any{"class": tc.class, "pool": tc.pool, "total": tc.total, "f": trunc(f.String()), "threshold_256": want[0].String(), "oracle_precision": ores.prec, "exact_rational": ores.exact})
	}
	return ev
}

func strOrNil(x *big.Int) any {
	if x == nil {
		return nil
	}
	return x.String()
}

func trunc(s string) string {
	if len(s) > 160 {
		return s[:80] + "..." + s[len(s)-60:] + fmt.Sprintf(" (%d chars)", len(s))
	}
	return s
}

func eligibility(c *core.Ctx, tc tcase, mi int, want, got *big.Int, r *core.Rand) {
	m := modes[mi]
	type probe struct {
		out  []byte
		name string
		e2e  bool
	}
	var probes []probe
	if m.mode == consensus.ConsensusModeTPraos {
		max512 := new(big.Int).Sub(pow2(512), one)
		for d := int64(-1); d <= 1; d++ {
			v := new(big.Int).Add(want, big.NewInt(d))
			if v.Sign() < 0 || v.Cmp(max512) > 0 {
				continue
			}
			probes = append(probes, probe{v.FillBytes(make([]byte, 64)), fmt.Sprintf("threshold%+d", d), true})
		}
		probes = append(probes, probe{make([]byte, 64), "zero", false}, probe{bytes.Repeat([]byte{0xff}, 64), "max", false})
	}
	for j := 0; j < 3; j++ {
		probes = append(probes, probe{r.Bytes(64), "random", j == 0 && m.mode == consensus.ConsensusModeCPraos})
	}
	for _, p := range probes {
		var lv *big.Int
		if m.mode == consensus.ConsensusModeTPraos {
			lv = new(big.Int).SetBytes(p.out)
		} else {
			lv = leaderValue(p.out)
		}
		wantEl := lv.Cmp(want) < 0
		// against the library's own threshold
		var below bool
		var err error
		pn, pv, _ := core.Safely(func() { below, err = consensus.IsVRFOutputBelowThresholdWithMode(p.out, got, m.mode) })
		c.Eval()
		if pn || err != nil || below != (lv.Cmp(got) < 0) {
			c.Violation("C37:IsVRFOutputBelowThresholdWithMode:"+m.name+":"+p.name,
				fmt.Sprintf("leader value %s threshold: returned %v (err=%v panic=%v)", cmpWord(lv, got), below, err, pv),
				tc.witness(m.name, map[string]any{"vrf_output": core.HexFull(p.out), "threshold": got.String()}))
		}
		// end to end (recomputes the threshold: only at the neighbours and one random output)
		if !(p.e2e) {
			continue
		}
		var el bool
		fc := new(big.Rat).Set(tc.f)
		pn, pv, _ = core.Safely(func() { el, err = consensus.IsSlotLeaderFromComponentsWithMode(p.out, tc.pool, tc.total, fc, m.mode) })
		c.Eval()
		if wantEl {
			c.Count("eligible", 1)
		} else {
			c.Count("not_eligible", 1)
		}
		if pn || err != nil || el != wantEl {
			c.Violation("C37:IsSlotLeaderFromComponentsWithMode:"+m.name+":"+p.name,
				fmt.Sprintf("leader value %s floor threshold: eligible = %v, want %v (err=%v panic=%v)", cmpWord(lv, want), el, wantEl, err, pv),
				tc.witness(m.name, map[string]any{"vrf_output": core.HexFull(p.out), "want_threshold": want.String()}))
		}
	}
}

func cmpWord(a, b *big.Int) string {
	switch a.Cmp(b) {
	case -1:
		return "<"
	case 0:
		return "=="
	}
	return ">"
}

func run(c *core.Ctx) {
	// the library (and the oracle) allocate multi-kilobyte mantissas at a high
	// rate; a lazier collector roughly halves the wall time
	defer debug.SetGCPercent(debug.SetGCPercent(400))
	n := c.N(1200, 60000)
	evs := make([]*evaluated, n)
	c.Parallel("case", n, 0, func(i int, r *core.Rand) {
		evs[i] = evalCase(c, genCase(r, i, c.Quick()), r, i)
	})

	c.Note("wall_after_cases_s", fmt.Sprintf("%.1f", c.Elapsed()))
	// (iv) monotone chains
	nch := c.N(120, 4000)
	c.Parallel("chain", nch, 0, func(i int, r *core.Rand) { chain(c, r, i) })

	c.Note("wall_after_chains_s", fmt.Sprintf("%.1f", c.Elapsed()))
	// (iii) mpmath.iv cross-check of oracle (i) on a sample
	crossCheck(c, evs)
	c.Note("wall_after_mpmath_s", fmt.Sprintf("%.1f", c.Elapsed()))

	if c.Counter("thresholds_equal_floor") == 0 {
		c.Inconclusive("no threshold was confirmed: only one outcome observed")
	}
	if c.Counter("eligible") == 0 || c.Counter("not_eligible") == 0 {
		c.Inconclusive("eligibility: only one outcome observed")
	}
}

// chain: thresholds along a sorted chain of sigmas (f fixed) or of fs (sigma
// fixed) must be non-decreasing.
func chain(c *core.Ctx, r *core.Rand, idx int) {
	inSigma := r.Bool()
	type pt struct {
		pool, total uint64
		f           *big.Rat
	}
	var pts []pt
	if inSigma {
		total := randStake(r)
		if total < 16 {
			total += 16
		}
		var f *big.Rat
		if r.Bool() {
			s := core.Pick(r, smallFs)
			f = big.NewRat(s[0], s[1])
		} else {
			f = fracBelowOne(r, 400)
		}
		set := map[uint64]bool{1: true, total: true, total - 1: true}
		base := r.Uint64() % total
		for _, d := range []uint64{0, 1, 2} {
			if base+d >= 1 && base+d <= total {
				set[base+d] = true
			}
		}
		for j := 0; j < 4; j++ {
			set[r.Uint64()%total+1] = true
		}
		var pools []uint64
		for p := range set {
			if p >= 1 {
				pools = append(pools, p)
			}
		}
		sort.Slice(pools, func(i, j int) bool { return pools[i] < pools[j] })
		for _, p := range pools {
			pts = append(pts, pt{p, total, f})
		}
		pts = append(pts, pt{total + 1, total, f}) // capped: equal to sigma = 1
	} else {
		p, t := stakePair(r)
		var fs []*big.Rat
		base := fracBelowOne(r, 300)
		fs = append(fs, base)
		for _, bits := range []int{600, 200, 40} {
			nf := new(big.Rat).Add(base, new(big.Rat).SetFrac(one, pow2(uint(bits))))
			if nf.Cmp(ratOne) < 0 {
				fs = append(fs, nf)
			}
		}
		for j := 0; j < 4; j++ {
			fs = append(fs, fracBelowOne(r, 300))
		}
		fs = append(fs, new(big.Rat), big.NewRat(1, 1))
		sort.Slice(fs, func(i, j int) bool { return fs[i].Cmp(fs[j]) < 0 })
		for _, f := range fs {
			pts = append(pts, pt{p, t, f})
		}
	}
	for _, m := range modes {
		var prev *big.Int
		var prevPt pt
		for _, q := range pts {
			var got *big.Int
			var err error
			p, pv, _ := core.Safely(func() { got, err = consensus.CertifiedNatThresholdWithMode(q.pool, q.total, new(big.Rat).Set(q.f), m.mode) })
			c.Eval()
			c.Count("chain_points", 1)
			if p || err != nil || got == nil {
				c.Violation("C37:CertifiedNatThresholdWithMode:error-in-domain:chain", fmt.Sprintf("chain point failed: err=%v panic=%v", err, pv),
					map[string]any{"pool_stake": q.pool, "total_stake": q.total, "f_num": q.f.Num().String(), "f_den": q.f.Denom().String(), "mode": m.name})
				prev = nil
				continue
			}
			if prev != nil && got.Cmp(prev) < 0 {
				axis := "f"
				if inSigma {
					axis = "sigma"
				}
				c.Violation("C37:CertifiedNatThresholdWithMode:not-monotone-in-"+axis+":"+m.name,
					fmt.Sprintf("threshold decreased along a chain increasing in %s: %s -> %s", axis, prev, got),
					map[string]any{"mode": m.name, "axis": axis,
						"from": map[string]any{"pool_stake": prevPt.pool, "total_stake": prevPt.total, "f_num": prevPt.f.Num().String(), "f_den": prevPt.f.Denom().String(), "threshold": prev.String()},
						"to":   map[string]any{"pool_stake": q.pool, "total_stake": q.total, "f_num": q.f.Num().String(), "f_den": q.f.Denom().String(), "threshold": got.String()}})
			} else if prev != nil {
				c.Count("monotone_steps_ok", 1)
				if got.Cmp(prev) > 0 {
					c.Count("monotone_steps_strict", 1)
				}
			}
			prev, prevPt = got, q
		}
	}
	c.Distinct("chain", idx, inSigma)
}

// crossCheck re-evaluates a sample of judged, non-exact cases with mpmath.iv.
func crossCheck(c *core.Ctx, evs []*evaluated) {
	type job struct {
		I    int    `json:"i"`
		Pool string `json:"pool"`
		Tot  string `json:"total"`
		Fn   string `json:"fn"`
		Fd   string `json:"fd"`
	}
	var jobs []job
	limit := c.N(150, 1500)
	for i, ev := range evs {
		if ev == nil || !ev.judged || ev.exact || ev.want[0] == nil || ev.tc.class == "beyond-cap" {
			continue
		}
		f := ev.tc.f
		if f.Sign() <= 0 || f.Cmp(ratOne) >= 0 || ev.tc.pool == 0 || ev.tc.total == 0 {
			continue
		}
		jobs = append(jobs, job{i, fmt.Sprint(min(ev.tc.pool, ev.tc.total)), fmt.Sprint(ev.tc.total), f.Num().String(), f.Denom().String()})
		if len(jobs) >= limit {
			break
		}
	}
	py, err := exec.LookPath("python3-vt")
	if err != nil || c.WorkDir == "" {
		c.Note("mpmath_cross_check", "skipped: python3-vt not available")
		return
	}
	script := filepath.Join(c.WorkDir, "mpiv.py")
	if err := os.WriteFile(script, mpivPy, 0o644); err != nil {
		c.Note("mpmath_cross_check", "skipped: "+err.Error())
		return
	}
	in, _ := json.Marshal(jobs)
	cmd := exec.Command(py, script)
	cmd.Stdin = bytes.NewReader(in)
	var stderr bytes.Buffer
	cmd.Stderr = &stderr
	out, err := cmd.Output()
	if err != nil {
		c.Note("mpmath_cross_check", "skipped: "+err.Error()+" "+trunc(stderr.String()))
		return
	}
	var res []struct {
		I    int    `json:"i"`
		T256 string `json:"t256"`
		T512 string `json:"t512"`
		Prec int    `json:"prec"`
		Err  string `json:"err"`
	}
	if err := json.Unmarshal(out, &res); err != nil {
		c.Note("mpmath_cross_check", "skipped: bad output: "+err.Error())
		return
	}
	var mu sync.Mutex
	agree, unresolved := 0, 0
	for _, rr := range res {
		ev := evs[rr.I]
		if rr.Err != "" {
			unresolved++
			continue
		}
		t256, _ := new(big.Int).SetString(rr.T256, 10)
		t512, _ := new(big.Int).SetString(rr.T512, 10)
		if t256 == nil || t512 == nil || t256.Cmp(ev.want[0]) != 0 || t512.Cmp(ev.want[1]) != 0 {
			c.Inconclusive(fmt.Sprintf("oracle self-check: mpmath.iv gives (%s, %s), big.Float interval oracle gives (%s, %s) for pool=%d total=%d f=%s", rr.T256, rr.T512, ev.want[0], ev.want[1], ev.tc.pool, ev.tc.total, trunc(ev.tc.f.String())))
			c.Count("oracle_disagreement", 1)
			continue
		}
		mu.Lock()
		agree++
		mu.Unlock()
	}
	c.Count("mpmath_cross_checked", agree)
	c.Count("mpmath_unresolved", unresolved)
	c.Note("mpmath_cross_check", fmt.Sprintf("%d cases agree with mpmath.iv, %d unresolved by mpmath", agree, unresolved))
}
