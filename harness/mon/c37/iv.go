package c37

// Rigorous interval arithmetic on math/big.Float with directed rounding:
// every lower endpoint is computed with ToNegativeInf, every upper endpoint
// with ToPositiveInf, series are closed with explicit remainder bounds. It
// shares nothing with consensus/threshold.go (no MantExp-normalised series
// with "enough terms", no declared epsilon): an enclosure here is a theorem
// about the exact real value, given that big.Float rounds as documented.

import (
	"math/big"
)

type iv struct {
	lo, hi *big.Float
}

type ctx struct{ prec uint }

func (c ctx) dn() *big.Float { return new(big.Float).SetPrec(c.prec).SetMode(big.ToNegativeInf) }
func (c ctx) up() *big.Float { return new(big.Float).SetPrec(c.prec).SetMode(big.ToPositiveInf) }

func (c ctx) fromInt64(n int64) iv {
	return iv{c.dn().SetInt64(n), c.up().SetInt64(n)}
}

func (c ctx) fromInt(n *big.Int) iv {
	return iv{c.dn().SetInt(n), c.up().SetInt(n)}
}

// fromRat encloses u/v (v > 0).
func (c ctx) fromRat(u, v *big.Int) iv {
	ue := new(big.Float).SetPrec(uint(max(u.BitLen(), 64))).SetInt(u)
	ve := new(big.Float).SetPrec(uint(max(v.BitLen(), 64))).SetInt(v)
	return iv{c.dn().Quo(ue, ve), c.up().Quo(ue, ve)}
}

func (c ctx) add(a, b iv) iv { return iv{c.dn().Add(a.lo, b.lo), c.up().Add(a.hi, b.hi)} }
func (c ctx) sub(a, b iv) iv { return iv{c.dn().Sub(a.lo, b.hi), c.up().Sub(a.hi, b.lo)} }
func (c ctx) neg(a iv) iv    { return iv{c.dn().Neg(a.hi), c.up().Neg(a.lo)} }

func minF(xs ...*big.Float) *big.Float {
	m := xs[0]
	for _, x := range xs[1:] {
		if x.Cmp(m) < 0 {
			m = x
		}
	}
	return m
}

func maxF(xs ...*big.Float) *big.Float {
	m := xs[0]
	for _, x := range xs[1:] {
		if x.Cmp(m) > 0 {
			m = x
		}
	}
	return m
}

func (c ctx) mul(a, b iv) iv {
	// fast path: both non-negative
	if a.lo.Sign() >= 0 && b.lo.Sign() >= 0 {
		return iv{c.dn().Mul(a.lo, b.lo), c.up().Mul(a.hi, b.hi)}
	}
	lo := minF(c.dn().Mul(a.lo, b.lo), c.dn().Mul(a.lo, b.hi), c.dn().Mul(a.hi, b.lo), c.dn().Mul(a.hi, b.hi))
	hi := maxF(c.up().Mul(a.lo, b.lo), c.up().Mul(a.lo, b.hi), c.up().Mul(a.hi, b.lo), c.up().Mul(a.hi, b.hi))
	return iv{lo, hi}
}

// div: b strictly positive.
func (c ctx) div(a, b iv) iv {
	if b.lo.Sign() <= 0 {
		panic("iv.div: divisor interval not positive")
	}
	if a.lo.Sign() >= 0 {
		return iv{c.dn().Quo(a.lo, b.hi), c.up().Quo(a.hi, b.lo)}
	}
	lo := minF(c.dn().Quo(a.lo, b.lo), c.dn().Quo(a.lo, b.hi), c.dn().Quo(a.hi, b.lo), c.dn().Quo(a.hi, b.hi))
	hi := maxF(c.up().Quo(a.lo, b.lo), c.up().Quo(a.lo, b.hi), c.up().Quo(a.hi, b.lo), c.up().Quo(a.hi, b.hi))
	return iv{lo, hi}
}

// scale2 multiplies by 2^e exactly.
func (c ctx) scale2(a iv, e int) iv {
	return iv{c.dn().SetMantExp(a.lo, e), c.up().SetMantExp(a.hi, e)}
}

// negligible reports that |term| is below 2^-(prec+32) relative to sum (or
// zero): adding further terms cannot tighten the enclosure, and it avoids
// big.Float additions across enormous exponent gaps. Purely a stopping
// heuristic - the series remainder is always added explicitly afterwards.
func (c ctx) negligible(term, sum iv) bool {
	t := maxF(new(big.Float).Abs(term.lo), new(big.Float).Abs(term.hi))
	if t.Sign() == 0 {
		return true
	}
	if sum.lo.Sign() <= 0 {
		return false
	}
	return t.MantExp(nil) < sum.lo.MantExp(nil)-int(c.prec)-32
}

// atanhPos encloses atanh(w) for an interval 0 <= w <= 0.4.
func (c ctx) atanhPos(w iv) iv {
	if w.lo.Sign() < 0 || w.hi.Cmp(big.NewFloat(0.4)) > 0 {
		panic("iv.atanhPos: argument out of range")
	}
	// w^2 <= 0.16 < 2^-2.6: terms shrink by more than 2.6 bits per step
	n := int(float64(c.prec+16)/2.6) + 4
	w2 := c.mul(w, w)
	term := w
	sum := w
	for i := 1; i < n; i++ {
		if c.negligible(term, sum) {
			n = i // the remainder bound below holds for every cut-off index
			break
		}
		term = c.mul(term, w2)
		sum = c.add(sum, c.div(term, c.fromInt64(int64(2*i+1))))
	}
	// remainder: sum_{i>=n} w^(2i+1)/(2i+1) <= w^(2n+1) / ((2n+1)(1-w^2))
	next := c.mul(term, w2)
	den := c.mul(c.fromInt64(int64(2*n+1)), c.sub(c.fromInt64(1), w2))
	rem := c.div(next, den)
	return iv{sum.lo, c.up().Add(sum.hi, rem.hi)}
}

// ln2 = 2 atanh(1/3)
func (c ctx) ln2() iv {
	third := c.div(c.fromInt64(1), c.fromInt64(3))
	return c.scale2(c.atanhPos(third), 1)
}

// ln encloses ln(g) for a positive interval g.
func (c ctx) ln(g iv) iv {
	if g.lo.Sign() <= 0 {
		panic("iv.ln: argument not positive")
	}
	e := g.hi.MantExp(nil) // g.hi = m * 2^e, m in [0.5,1)
	m := c.scale2(g, -e)   // exact
	// if the interval is wide or straddles a binade, m.lo may fall below 1/2;
	// the series still converges for w <= 0.4 (m >= 3/7)
	one := c.fromInt64(1)
	w := c.div(c.sub(one, m), c.add(one, m)) // (1-m)/(1+m) in (0, 1/3]
	if w.lo.Sign() < 0 {
		w.lo = c.dn().SetInt64(0) // m <= 1 exactly, so the true w is >= 0
	}
	lnm := c.neg(c.scale2(c.atanhPos(w), 1))
	if e == 0 {
		return lnm
	}
	return c.add(lnm, c.mul(c.fromInt64(int64(e)), c.ln2()))
}

// expNonPos encloses exp(y) for an interval y with y.hi <= 0 (a tiny positive
// overshoot of y.hi caused by rounding is fine).
func (c ctx) expNonPos(y iv) iv {
	if y.lo.Sign() == 0 && y.hi.Sign() == 0 {
		return c.fromInt64(1)
	}
	// reduce: w = y / 2^j with |w| <= 2^-32
	j := 0
	if y.lo.Sign() != 0 {
		e := y.lo.MantExp(nil)
		if e+32 > 0 {
			j = e + 32
		}
	}
	w := c.scale2(y, -j)
	absw := maxF(new(big.Float).Abs(w.lo), new(big.Float).Abs(w.hi))
	if absw.Cmp(big.NewFloat(0.5)) > 0 {
		panic("iv.exp: reduction failed")
	}
	n := int(c.prec/32) + 8
	sum := c.fromInt64(1)
	term := c.fromInt64(1)
	for i := 1; i < n; i++ {
		if c.negligible(term, sum) {
			n = i // the tail bound below holds for every cut-off index
			break
		}
		term = c.div(c.mul(term, w), c.fromInt64(int64(i)))
		sum = c.add(sum, term)
	}
	// |tail| <= |w|^n/n! * 1/(1-|w|) <= 2 * |next term bound|
	aw := iv{c.dn().SetInt64(0), c.up().Set(absw)}
	tabs := iv{c.dn().SetInt64(0), maxF(c.up().Abs(term.lo), c.up().Abs(term.hi))}
	bound := c.scale2(c.div(c.mul(tabs, aw), c.fromInt64(int64(n))), 1)
	res := iv{c.dn().Sub(sum.lo, bound.hi), c.up().Add(sum.hi, bound.hi)}
	if res.lo.Sign() <= 0 {
		panic("iv.exp: non-positive enclosure before squaring")
	}
	for i := 0; i < j; i++ {
		res = iv{c.dn().Mul(res.lo, res.lo), c.up().Mul(res.hi, res.hi)}
	}
	return res
}

// floorInt returns floor(x) for a finite x >= 0 (negative values clamp to 0).
func floorInt(x *big.Float) *big.Int {
	if x.Sign() <= 0 {
		return new(big.Int)
	}
	z, _ := x.Int(nil) // truncation toward zero == floor for x >= 0
	return z
}
