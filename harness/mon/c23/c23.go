// Package c23 monitors C23: block-fetch returns the blocks that were asked
// for. A real block-fetch client (ouroboros.NewConnection, node-to-node; the
// handshake answered by hand) calls GetBlock(point) / GetBlockRange(start, end)
// against a scripted server on the raw peer, which answers every RequestRange
// with one of the batch shapes
//
//	no-blocks   NoBlocks
//	empty       StartBatch, BatchDone
//	matching    StartBatch, Block(the requested block), BatchDone
//	other       StartBatch, Block(a different block), BatchDone
//	multi       StartBatch, 2..5 Blocks, BatchDone
//
// Oracle. Range: the BlockFunc / BlockRawFunc calls are exactly the served
// blocks in the served order (type, hash, bytes), then BatchDoneFunc once, and
// GetBlockRange itself returned nil. Single: the result is (block, nil) with
// block.Hash() == point.Hash, or (nil, err); only the matching shape may
// succeed; every shape must return. "Does not return" is decided by the
// bounded-progress rule only: all progress counters (trace events of the
// client, bytes on the pipe, callbacks) frozen for 6 s, the server's script
// written completely, every goroutine of the connection parked and the
// caller's goroutine parked inside blockfetch.(*Client); anything else that
// does not finish within the watchdog is inconclusive. The client's state
// timeouts are set to 4 s (below the window) so that a client that fails by
// timeout is seen to fail.
package c23

import (
	"bytes"
	"fmt"
	"hash/fnv"
	"os"
	"runtime"
	"sort"
	"strconv"
	"strings"
	"sync"
	"sync/atomic"
	"time"

	ouroboros "github.com/blinklabs-io/gouroboros"
	"github.com/blinklabs-io/gouroboros/ledger"
	"github.com/blinklabs-io/gouroboros/protocol"
	"github.com/blinklabs-io/gouroboros/protocol/blockfetch"
	pcommon "github.com/blinklabs-io/gouroboros/protocol/common"

	"verifharness/cborx"
	"verifharness/core"
	"verifharness/mon/c21/rig"
)

func init() {
	core.Register(&core.Monitor{
		ID:            "C23",
		Race:          true,
		Rule:          "connections from the PRNG, each with 1..3 consecutive requests; a request = API {GetBlock, GetBlockRange} x server batch shape {no-blocks, empty, matching, other, multi(2..5 blocks, the requested one first / somewhere / absent)} (two thirds of the GetBlock requests with the shapes empty and multi are re-drawn from the other shapes, because each of them costs a whole quiescence window) x blocks drawn from the corpus (every era; the 648 kB EBB in one dedicated case per run) x requested point (hash of the target block, PRNG slot) x callback kind {decoded, raw} (everything handed out - the raw slices without copying, the decoded blocks, the GetBlock results - is kept and compared again with the served bytes and hash after BatchDone, after every later request of the connection and at its end; range batches have 4..6 blocks, half of them in decreasing size, a quarter with one block three times) x server write style {one write, one segment per message with yields, small segments} x perturbation level {0,1,2}; the connection is abandoned after the first request that fails or hangs. A request is non-trivial when the client sent RequestRange, the server wrote its batch and the outcome was judged; distinct by (API, shape, blocks, position in the connection, write style, perturbation)",
		MinNontrivial: 120,
		RaceAnchors:   []string{"blockfetch.(*Client).GetBlock", "blockfetch.(*Client).handleBlock", "blockfetch.(*Client).handleBatchDone", "blockfetch.(*Client).handleStartBatch", "blockfetch.(*Client).handleNoBlocks"},
		Assumptions: []string{
			"block hash = Blake2b-256 of the header bytes (Byron: of [subtype, header]); the requested point carries the hash of the target corpus block",
			"a request whose counters are frozen for 6 s with every goroutine of the connection parked and the caller parked inside the block-fetch client will never return; the same without these facts is inconclusive",
			"a state timeout (4 s) that fires while the scripted server was still writing, or while the client was still decoding, makes the request inconclusive",
		},
		QuickTimeout:    600,
		ThoroughTimeout: 3 * 3600,
		Run:             run,
	})
}

const (
	watchdog     = 90 * time.Second
	quiescence   = 6 * time.Second
	stateTimeout = 30 * time.Second // long enough that only a dead conversation reaches it, also on a loaded machine
)

var shapeNames = []string{"no-blocks", "empty", "matching", "other", "multi"}

type request struct {
	Single bool
	Shape  int
	Target int   // corpus index of the requested block (single) / of the range end
	Served []int // corpus indexes of the blocks the server sends
	Start  rig.Point
	End    rig.Point
}

func (rq *request) api() string {
	if rq.Single {
		return "GetBlock"
	}
	return "GetBlockRange"
}

type caseSpec struct {
	Idx     int
	Reqs    []request
	Raw     bool
	Style   int // 0 one write, 1 segment per message, 2 small segments
	Perturb int
	Seed    uint64
	Timeout time.Duration
}

func genCase(i int, r *core.Rand, blocks []*rig.Block, small []int) *caseSpec {
	cs := &caseSpec{Idx: i, Seed: r.Uint64(), Raw: r.Chance(1, 3), Style: r.Intn(3), Perturb: r.Intn(3), Timeout: stateTimeout}
	n := 1 + r.Intn(3)
	for k := 0; k < n; k++ {
		rq := request{Single: r.Chance(3, 5), Shape: i % 5, Target: small[r.Intn(len(small))]}
		if k > 0 {
			rq.Shape = r.Intn(5)
		}
		if rq.Single && (rq.Shape == 1 || rq.Shape == 4) && !r.Chance(1, 3) {
			// a single request that never returns costs a whole quiescence window: keep a third of them
			rq.Shape = []int{0, 2, 2, 3}[r.Intn(4)]
		}
		other := func() int {
			for {
				o := small[r.Intn(len(small))]
				if blocks[o].Hash != blocks[rq.Target].Hash {
					return o
				}
			}
		}
		switch rq.Shape {
		case 2:
			rq.Served = []int{rq.Target}
		case 3:
			rq.Served = []int{other()}
		case 4:
			cnt := r.Range(2, 5)
			if !rq.Single {
				cnt = r.Range(4, 6) // ranges: at least four blocks, so that receive buffers get reused
			}
			for j := 0; j < cnt; j++ {
				if rq.Single {
					rq.Served = append(rq.Served, other())
				} else {
					rq.Served = append(rq.Served, small[r.Intn(len(small))])
				}
			}
			switch r.Intn(3) { // where the requested block sits
			case 0:
				rq.Served[0] = rq.Target
			case 1:
				rq.Served[r.Intn(cnt)] = rq.Target
			}
			if !rq.Single && r.Chance(1, 4) { // the same block twice in a row
				rq.Served[cnt-1] = rq.Served[cnt-2]
			}
		}
		if !rq.Single && rq.Shape == 4 {
			switch r.Intn(4) {
			case 0, 1: // decreasing sizes: every block fits into the buffer of the one before
				sort.SliceStable(rq.Served, func(a, b int) bool { return len(blocks[rq.Served[a]].Cbor) > len(blocks[rq.Served[b]].Cbor) })
			case 2: // equal sizes: one block several times, then others
				rq.Served[1], rq.Served[2] = rq.Served[0], rq.Served[0]
			}
		}
		if !rq.Single && rq.Shape == 3 {
			// a range has no single "requested block": serve one arbitrary block
			rq.Served = []int{small[r.Intn(len(small))]}
		}
		slot := uint64(r.Range(1, 1<<30))
		rq.End = rig.Point{Slot: slot, Hash: blocks[rq.Target].Hash[:]}
		rq.Start = rq.End
		if !rq.Single {
			s := small[r.Intn(len(small))]
			rq.Start = rig.Point{Slot: slot - uint64(r.Intn(int(slot))), Hash: blocks[s].Hash[:]}
		}
		cs.Reqs = append(cs.Reqs, rq)
	}
	return cs
}

// ------------------------------------------------------------------ observation

type delivered struct {
	Type uint
	Hash [32]byte
	Cbor []byte       // what the callback was handed, NOT copied: the slice (raw) / block.Cbor() (decoded)
	Sum  uint64       // fingerprint of Cbor at the time of the delivery
	Blk  ledger.Block // decoded callback: the block itself, kept
	Path string       // raw | decoded | getblock
	Done bool         // BatchDoneFunc
	Bad  string
}

type connState struct {
	mu        sync.Mutex
	delivered []delivered
	cbCount   atomic.Int64
	events    atomic.Int64
}

func fingerprint(b []byte) uint64 {
	h := fnv.New64a()
	h.Write(b)
	return h.Sum64()
}

// kept is something a delivery path handed out earlier on this connection,
// together with the block the server had sent for it.
type kept struct {
	d    delivered
	want *rig.Block
	req  int
	api  string
}

// recheck compares everything that was handed out on this connection with
// what the server sent, after later batches and requests have gone by.
func recheck(c *core.Ctx, cs *caseSpec, keep []kept, when string) {
	for _, k := range keep {
		c.Count("retained_"+k.d.Path+"_rechecked", 1)
		cur := k.d.Cbor
		hash := k.d.Hash
		if k.d.Blk != nil {
			cur = k.d.Blk.Cbor()
			copy(hash[:], k.d.Blk.Hash().Bytes())
		}
		if bytes.Equal(cur, k.want.Cbor) && hash == k.want.Hash {
			continue
		}
		what := "differs from the served block"
		if k.d.Sum == fingerprint(k.want.Cbor) {
			what = "was the served block when it was handed out and has changed since"
		}
		c.Violation("C23:"+k.api+":retained-changed:"+k.d.Path, fmt.Sprintf("%s: the %s data handed out for request #%d (%s, type %d, hash %x) %s (checked %s)",
			k.api, k.d.Path, k.req, k.want.Name, k.want.Type, k.want.Hash[:6], what, when),
			map[string]any{"case": cs.Idx, "path": k.d.Path, "request_index": k.req, "served_block": k.want.Name, "served_len": len(k.want.Cbor),
				"now_len": len(cur), "now_head": core.Hex(cur), "served_head": core.Hex(k.want.Cbor), "requests": len(cs.Reqs), "write_style": cs.Style})
		return
	}
}

func (st *connState) add(d delivered) {
	st.mu.Lock()
	st.delivered = append(st.delivered, d)
	st.mu.Unlock()
	st.cbCount.Add(1)
}

func (st *connState) take() []delivered {
	st.mu.Lock()
	defer st.mu.Unlock()
	out := st.delivered
	st.delivered = nil
	return out
}

func (st *connState) peekDone() bool {
	st.mu.Lock()
	defer st.mu.Unlock()
	for _, d := range st.delivered {
		if d.Done {
			return true
		}
	}
	return false
}

// ------------------------------------------------------------------ server

type srvReq struct {
	start, end rig.Point
	ok         bool
	raw        string
}

type server struct {
	mu       sync.Mutex
	requests []srvReq
	written  int // scripts written completely
	dones    int
	other    []string
}

func (s *server) snapshot() (reqs, written int) {
	s.mu.Lock()
	defer s.mu.Unlock()
	return len(s.requests), s.written
}

func serve(l *rig.Link, cs *caseSpec, blocks []*rig.Block, s *server, done chan<- struct{}) {
	defer close(done)
	r := core.NewRand(cs.Seed ^ 0xb10c)
	k := 0
	for {
		m, raw, err := l.Peer.RecvMsg(rig.ProtoBlockFetch)
		if err != nil {
			return
		}
		switch tag := rig.MsgTag(m); {
		case tag == 0 && len(m.Items) == 3:
			a, ok1 := rig.ParsePoint(m.Items[1])
			b, ok2 := rig.ParsePoint(m.Items[2])
			s.mu.Lock()
			s.requests = append(s.requests, srvReq{start: a, end: b, ok: ok1 && ok2, raw: fmt.Sprintf("%x", raw)})
			s.mu.Unlock()
			if k >= len(cs.Reqs) {
				continue
			}
			rq := cs.Reqs[k]
			k++
			var msgs [][]byte
			switch rq.Shape {
			case 0:
				msgs = append(msgs, rig.MsgNoBlocks())
			default:
				msgs = append(msgs, rig.MsgStartBatch())
				for _, bi := range rq.Served {
					msgs = append(msgs, rig.MsgBlock(blocks[bi].Type, blocks[bi].Cbor))
				}
				msgs = append(msgs, rig.MsgBatchDone())
			}
			switch cs.Style {
			case 0:
				var p []byte
				for _, x := range msgs {
					p = append(p, x...)
				}
				if l.Peer.Send(rig.ProtoBlockFetch, p, 0) != nil {
					return
				}
			case 1:
				for _, x := range msgs {
					if l.Peer.Send(rig.ProtoBlockFetch, x, 0) != nil {
						return
					}
					if r.Bool() {
						runtime.Gosched()
					}
				}
			default:
				var p []byte
				for _, x := range msgs {
					p = append(p, x...)
				}
				split := 200 + r.Intn(3000)
				if len(p)/split > 48 {
					split = len(p)/48 + 1
				}
				if l.Peer.Send(rig.ProtoBlockFetch, p, split) != nil {
					return
				}
			}
			s.mu.Lock()
			s.written++
			s.mu.Unlock()
		case tag == 1 && len(m.Items) == 1:
			s.mu.Lock()
			s.dones++
			s.mu.Unlock()
		default:
			s.mu.Lock()
			s.other = append(s.other, fmt.Sprintf("%x", raw))
			s.mu.Unlock()
		}
	}
}

// ------------------------------------------------------------------ one connection

type callRes struct {
	blk ledger.Block
	err error
}

func isTimeout(errs []error) bool {
	for _, e := range errs {
		if strings.Contains(e.Error(), "timeout waiting on transition") {
			return true
		}
	}
	return false
}

func libPoint(p rig.Point) pcommon.Point { return pcommon.NewPoint(p.Slot, p.Hash) }

func describe(rq *request, blocks []*rig.Block) map[string]any {
	var served []string
	for _, bi := range rq.Served {
		served = append(served, fmt.Sprintf("%s(type %d, hash %x)", blocks[bi].Name, blocks[bi].Type, blocks[bi].Hash[:6]))
	}
	w := map[string]any{"api": rq.api(), "server_shape": shapeNames[rq.Shape], "served_blocks": served,
		"requested_end": rq.End.String()}
	if !rq.Single {
		w["requested_start"] = rq.Start.String()
	} else {
		w["requested_block"] = blocks[rq.Target].Name
	}
	return w
}

func runCase(c *core.Ctx, cs *caseSpec, blocks []*rig.Block, abandoned *atomic.Int64) {
	st := &connState{}
	opts := []blockfetch.BlockFetchOptionFunc{
		blockfetch.WithBatchStartTimeout(cs.Timeout),
		blockfetch.WithBlockTimeout(cs.Timeout),
		blockfetch.WithBatchDoneFunc(func(blockfetch.CallbackContext) error {
			st.add(delivered{Done: true})
			return nil
		}),
	}
	if cs.Raw {
		opts = append(opts, blockfetch.WithBlockRawFunc(func(_ blockfetch.CallbackContext, t uint, data []byte) error {
			d := delivered{Type: t, Cbor: data, Sum: fingerprint(data), Path: "raw"} // the slice is kept, not copied
			if n, err := cborx.ParseExact(data); err == nil && n.Kind == cborx.Array && len(n.Items) > 0 {
				d.Hash = rig.HeaderHash(t, n.Items[0].Slice(data))
			} else {
				d.Bad = "raw callback data is not a block array"
			}
			st.add(d)
			return nil
		}))
	} else {
		opts = append(opts, blockfetch.WithBlockFunc(func(_ blockfetch.CallbackContext, t uint, b ledger.Block) error {
			d := delivered{Type: t}
			if b == nil {
				d.Bad = "nil block"
			} else {
				d.Cbor, d.Blk, d.Path = b.Cbor(), b, "decoded"
				d.Sum = fingerprint(d.Cbor)
				copy(d.Hash[:], b.Hash().Bytes())
			}
			st.add(d)
			return nil
		}))
	}
	cfg, err := blockfetch.NewConfig(opts...)
	if err != nil {
		c.Inconclusive("blockfetch.NewConfig: " + err.Error())
		return
	}
	c.Journal("C23 case %d raw=%v style=%d perturb=%d reqs=%d first=%s/%s", cs.Idx, cs.Raw, cs.Style, cs.Perturb, len(cs.Reqs), cs.Reqs[0].api(), shapeNames[cs.Reqs[0].Shape])
	l, derr, ok := rig.Dial(true, watchdog, ouroboros.WithBlockFetchConfig(cfg))
	if !ok || derr != nil {
		c.Eval()
		c.Inconclusive(fmt.Sprintf("case %d: connection set-up failed (%v, finished=%v)", cs.Idx, derr, ok))
		return
	}
	client := l.Conn.BlockFetch().Client
	proto := client.ProtocolInstance()
	pert := &rig.Perturber{Seed: cs.Seed, Level: cs.Perturb}
	rig.Register(proto, &rig.Hook{
		OnEvent: func(ev protocol.VerifEvent) { st.events.Add(1) },
		OnPoint: pert.Point,
	})
	defer rig.Unregister(proto)
	srv := &server{}
	srvDone := make(chan struct{})
	go serve(l, cs, blocks, srv, srvDone)

	progress := func() int64 {
		_, w := srv.snapshot()
		return st.events.Load() + st.cbCount.Load() + l.A.BytesWritten() + l.B.BytesWritten() + int64(w)
	}

	var keep []kept // everything the delivery paths have handed out on this connection
	for k := range cs.Reqs {
		rq := &cs.Reqs[k]
		w := describe(rq, blocks)
		w["case"] = cs.Idx
		w["request_index"] = k
		w["raw_callbacks"] = cs.Raw
		w["write_style"] = cs.Style
		w["perturbation"] = cs.Perturb
		if k > 0 {
			w["previous_request"] = describe(&cs.Reqs[k-1], blocks)
		}
		shape := shapeNames[rq.Shape]
		c.Eval()
		c.Count("requests_"+rq.api()+"_"+shape, 1)

		resCh := make(chan callRes, 1)
		var goid atomic.Int64
		go func() {
			goid.Store(rig.GoID())
			if rq.Single {
				b, err := client.GetBlock(libPoint(rq.End))
				resCh <- callRes{b, err}
			} else {
				resCh <- callRes{nil, client.GetBlockRange(libPoint(rq.Start), libPoint(rq.End))}
			}
		}()
		// wait for the call, and for a range additionally for the completion callback
		var res callRes
		returned := false
		hang, inconclusive, lastBusy := "", "", ""
		var hangBlk string
		last, lastChange, start := progress(), time.Now(), time.Now()
		tick := time.NewTicker(100 * time.Millisecond)
	wait:
		for {
			if returned {
				if rq.Single || res.err != nil || rq.Shape == 0 || st.peekDone() {
					break
				}
			}
			select {
			case res = <-resCh:
				returned = true
				continue
			case <-tick.C:
			}
			if p := progress(); p != last {
				last, lastChange = p, time.Now()
				continue
			}
			if time.Since(start) > watchdog {
				inconclusive = "watchdog; last busy goroutine: " + rig.Trim(lastBusy, 6)
				break wait
			}
			if time.Since(lastChange) < quiescence {
				continue
			}
			nreq, nwr := srv.snapshot()
			allParked, dump, busy := rig.Quiet(l.CtorGo, lastChange)
			c.Count("quiet_checks", 1)
			if f := os.Getenv("VERIF_C23_DUMP"); f != "" {
				os.WriteFile(fmt.Sprintf("%s.%d", f, cs.Idx), []byte(dump.Text), 0o644)
			}
			if p := progress(); p != last {
				last, lastChange = p, time.Now()
				continue
			}
			switch {
			case nreq <= k:
				inconclusive = "the RequestRange never reached the server"
				if g, ok := dump.Find(goid.Load()); !returned && ok && g.Parked && strings.Contains(g.Block, "blockfetch.(*Client)") && allParked {
					hang, hangBlk, inconclusive = "request-not-sent", g.Block, ""
				}
			case nwr <= k:
				inconclusive = "the scripted server has not finished writing"
			case !allParked:
				// frozen counters, but a goroutine of the connection is running (decoding): keep waiting
				lastBusy = busy
				lastChange = time.Now()
				continue
			case !returned:
				if g, ok := dump.Find(goid.Load()); ok && g.Parked && strings.Contains(g.Block, "blockfetch.(*Client)") {
					hang, hangBlk = "call", g.Block
				} else {
					inconclusive = "the caller is not parked inside the block-fetch client"
				}
			default:
				// GetBlockRange returned nil, the batch was written and consumed, no BatchDoneFunc
				hang = "completion"
				var where []string
				for _, g := range dump.Descendants(l.CtorGo) {
					if strings.Contains(g.Block, "blockfetch") || strings.Contains(g.Block, "muxer.(*Muxer).readLoop") {
						where = append(where, rig.Trim(g.Block, 7))
					}
				}
				hangBlk = strings.Join(where, "\n--\n")
			}
			break wait
		}
		tick.Stop()
		errs := l.Errors()
		got := st.take()
		sreq := srvReq{}
		srv.mu.Lock()
		if len(srv.requests) > k {
			sreq = srv.requests[k]
		}
		srv.mu.Unlock()
		w["connection_errors"] = fmt.Sprint(errs)

		// ---- verdicts
		if inconclusive != "" {
			c.Inconclusive(fmt.Sprintf("case %d request %d (%s %s): %s", cs.Idx, k, rq.api(), shape, inconclusive))
			break
		}
		if sreq.raw != "" && (!sreq.ok || !sreq.start.Equal(rq.Start) || !sreq.end.Equal(rq.End)) {
			w["request_on_wire"] = sreq.raw
			c.Violation("C23:wire:request-range", fmt.Sprintf("%s asked for %s..%s, the RequestRange on the wire says %s..%s", rq.api(), rq.Start, rq.End, sreq.start, sreq.end), w)
		}
		if hang != "" {
			if hangBlk != "" {
				w["goroutine"] = rig.Trim(hangBlk, 80)
			}
			if !returned {
				abandoned.Add(1)
			}
			if isTimeout(errs) {
				if hang == "completion" {
					// the protocol was shut down by its state timer: no completion can follow
					c.Inconclusive(fmt.Sprintf("case %d request %d (%s %s): state timeout before the batch was consumed: %v", cs.Idx, k, rq.api(), shape, errs))
					break
				}
				w["note"] = "a state timeout fired and closed the connection; the call still did not return"
			}
			key := fmt.Sprintf("C23:%s:%s-hang", rq.api(), map[string]string{"no-blocks": "no-blocks", "empty": "empty-batch", "matching": "matching", "other": "other-block", "multi": "multi-block"}[shape])
			what := "has not returned"
			if hang == "completion" {
				key = "C23:GetBlockRange:no-completion"
				what = "returned nil but BatchDoneFunc was never called"
			} else if hang == "request-not-sent" {
				key = fmt.Sprintf("C23:%s:blocked-before-request", rq.api())
				what = "is parked inside the client and never sent its RequestRange"
			}
			c.Count("hangs_"+rq.api()+"_"+shape, 1)
			c.Violation(key, fmt.Sprintf("%s against the server shape '%s' %s: all counters frozen for %v, the batch fully written, every goroutine of the connection parked", rq.api(), shape, what, quiescence), w)
			c.Distinct(rq.api(), shape, fmt.Sprint(rq.Served), k, cs.Style, cs.Perturb)
			break
		}
		if cs.Idx%29 == 3 && len(blocks[rq.Target].Cbor) < 4000 {
			sm := describe(rq, blocks)
			sm["request_on_wire"] = sreq.raw
			sm["returned"] = returned
			if res.err != nil {
				sm["error"] = res.err.Error()
			}
			if res.blk != nil {
				sm["returned_hash"] = res.blk.Hash().String()
			}
			var cbs []string
			for _, d := range got {
				if d.Done {
					cbs = append(cbs, "BatchDone")
				} else {
					cbs = append(cbs, fmt.Sprintf("Block(type %d, hash %x)", d.Type, d.Hash[:6]))
				}
			}
			sm["callbacks"] = cbs
			c.Sample(sm)
		}
		stop := false
		if rq.Single {
			stop = judgeSingle(c, rq, blocks, res, got, errs, w, &keep, k)
		} else {
			stop = judgeRange(c, rq, blocks, res, got, errs, w, &keep, k)
		}
		if len(keep) > 0 {
			recheck(c, cs, keep, fmt.Sprintf("after request #%d", k))
		}
		c.Distinct(rq.api(), shape, fmt.Sprint(rq.Served), k, cs.Style, cs.Perturb)
		if stop {
			break
		}
	}
	recheck(c, cs, keep, "at the end of the connection")
	// ---- tear down
	if !l.Close(watchdog) {
		c.Count("teardown_slow", 1)
	}
	select {
	case <-srvDone:
	case <-time.After(watchdog):
		c.Count("teardown_slow", 1)
	}
	l.CloseRaw()
	srv.mu.Lock()
	if len(srv.other) > 0 {
		c.Violation("C23:wire:unexpected-message", fmt.Sprintf("the client sent something else than RequestRange / ClientDone: %v", srv.other), map[string]any{"case": cs.Idx, "messages": srv.other})
	}
	c.Count("clientdone_on_wire", srv.dones)
	srv.mu.Unlock()
	c.Count("trace_events", int(st.events.Load()))
	c.Count("perturbation_hits", int(pert.Hits.Load()))
}

// judgeSingle: GetBlock returned. Returns true when the connection should not be used further.
func judgeSingle(c *core.Ctx, rq *request, blocks []*rig.Block, res callRes, got []delivered, errs []error, w map[string]any, keep *[]kept, k int) bool {
	shape := shapeNames[rq.Shape]
	if len(got) > 0 {
		w["callbacks"] = len(got)
		c.Violation("C23:GetBlock:callback-invoked", fmt.Sprintf("GetBlock (%s) invoked %d range callbacks", shape, len(got)), w)
	}
	switch {
	case res.blk == nil && res.err != nil:
		c.Count("GetBlock_"+shape+"_failed", 1)
		w["error"] = res.err.Error()
		// NoBlocks leaves the protocol idle and usable; after any other failure use a fresh connection
		return !(rq.Shape == 0 && strings.Contains(res.err.Error(), "not found"))
	case res.blk != nil && res.err != nil:
		c.Violation("C23:GetBlock:block-and-error", fmt.Sprintf("GetBlock (%s) returned a block together with the error %v", shape, res.err), w)
		return true
	case res.blk == nil:
		c.Violation("C23:GetBlock:nil-nil", fmt.Sprintf("GetBlock (%s) returned (nil, nil)", shape), w)
		return true
	}
	// success
	c.Count("GetBlock_"+shape+"_succeeded", 1)
	want := blocks[rq.Target]
	hash := res.blk.Hash().Bytes()
	indep := [32]byte{}
	if n, err := cborx.ParseExact(res.blk.Cbor()); err == nil && n.Kind == cborx.Array && len(n.Items) > 0 {
		indep = rig.HeaderHash(uint(res.blk.Type()), n.Items[0].Slice(res.blk.Cbor()))
	}
	w["returned_hash"] = fmt.Sprintf("%x", hash)
	w["requested_hash"] = fmt.Sprintf("%x", rq.End.Hash)
	if !bytes.Equal(hash, rq.End.Hash) || !bytes.Equal(indep[:], rq.End.Hash) {
		c.Violation("C23:GetBlock:wrong-hash", fmt.Sprintf("GetBlock(%s) against the server shape '%s' returned success with a block whose hash is %x", rq.End, shape, hash), w)
		return false
	}
	switch rq.Shape {
	case 2:
		if !bytes.Equal(res.blk.Cbor(), want.Cbor) {
			c.Violation("C23:GetBlock:matching-bytes-differ", "GetBlock returned a block with the requested hash whose Cbor() is not the served bytes", w)
		}
		c.Count("GetBlock_matching_verified", 1)
		if bytes.Equal(res.blk.Cbor(), want.Cbor) {
			d := delivered{Type: uint(res.blk.Type()), Cbor: res.blk.Cbor(), Blk: res.blk, Path: "getblock", Hash: want.Hash}
			d.Sum = fingerprint(d.Cbor)
			*keep = append(*keep, kept{d: d, want: want, req: k, api: "GetBlock"})
		}
	case 4:
		c.Violation("C23:GetBlock:multi-block-success", fmt.Sprintf("GetBlock(%s) succeeded although the server sent %d blocks", rq.End, len(rq.Served)), w)
	default:
		c.Violation("C23:GetBlock:"+shape+"-success", fmt.Sprintf("GetBlock(%s) succeeded although the server sent the shape '%s'", rq.End, shape), w)
	}
	return false
}

// judgeRange: GetBlockRange returned and (for a batch) the completion callback was seen or the call failed.
func judgeRange(c *core.Ctx, rq *request, blocks []*rig.Block, res callRes, got []delivered, errs []error, w map[string]any, keep *[]kept, k int) bool {
	shape := shapeNames[rq.Shape]
	var blks []delivered
	doneAt := -1
	for i, d := range got {
		if d.Done {
			if doneAt < 0 {
				doneAt = i
			} else {
				c.Violation("C23:GetBlockRange:done-twice", "BatchDoneFunc was called twice for one batch", w)
			}
			continue
		}
		if doneAt >= 0 {
			c.Violation("C23:GetBlockRange:block-after-done", "a block callback came after BatchDoneFunc", w)
		}
		blks = append(blks, d)
	}
	w["block_callbacks"] = len(blks)
	if rq.Shape == 0 {
		if len(got) > 0 {
			c.Violation("C23:GetBlockRange:no-blocks-callbacks", fmt.Sprintf("the server answered NoBlocks and the client made %d callbacks", len(got)), w)
		}
		if res.err != nil {
			c.Count("GetBlockRange_no-blocks_failed", 1)
		} else {
			c.Count("GetBlockRange_no-blocks_returned_nil", 1)
		}
		return res.err != nil && !strings.Contains(res.err.Error(), "not found")
	}
	if res.err != nil {
		w["error"] = res.err.Error()
		if isTimeout(errs) {
			c.Inconclusive(fmt.Sprintf("GetBlockRange (%s): state timeout: %v", shape, errs))
		} else {
			c.Violation("C23:GetBlockRange:error", fmt.Sprintf("GetBlockRange against a well-formed batch (%s) returned %v", shape, res.err), w)
		}
		return true
	}
	// sequence
	for i := 0; i < len(blks) || i < len(rq.Served); i++ {
		switch {
		case i >= len(blks):
			if isTimeout(errs) {
				c.Inconclusive(fmt.Sprintf("GetBlockRange (%s): state timeout before the batch was consumed: %v", shape, errs))
				return true
			}
			c.Violation("C23:GetBlockRange:sequence", fmt.Sprintf("the server sent %d blocks, the block callback saw %d (served block #%d %s missing), then completion", len(rq.Served), len(blks), i, blocks[rq.Served[i]].Name), w)
			return false
		case i >= len(rq.Served):
			c.Violation("C23:GetBlockRange:sequence", fmt.Sprintf("the server sent %d blocks, the block callback saw %d", len(rq.Served), len(blks)), w)
			return false
		}
		want, d := blocks[rq.Served[i]], blks[i]
		if d.Bad == "" && d.Type == want.Type && d.Sum == fingerprint(want.Cbor) && !bytes.Equal(d.Cbor, want.Cbor) {
			// handed out intact, overwritten before the batch was over
			w["callback_index"] = i
			w["now_head"] = core.Hex(d.Cbor)
			c.Violation("C23:GetBlockRange:retained-changed:"+d.Path, fmt.Sprintf("the %s data handed to block callback #%d (%s) was the served block at that time and has changed by the time BatchDoneFunc ran (a later block of the batch was written over it)", d.Path, i, want.Name), w)
			return false
		}
		if d.Bad != "" || d.Type != want.Type || d.Hash != want.Hash || !bytes.Equal(d.Cbor, want.Cbor) {
			w["callback_index"] = i
			w["callback"] = fmt.Sprintf("type %d hash %x %s", d.Type, d.Hash[:], d.Bad)
			c.Violation("C23:GetBlockRange:sequence", fmt.Sprintf("block callback #%d got type %d hash %x, the server's block #%d was %s (type %d, hash %x)", i, d.Type, d.Hash[:6], i, want.Name, want.Type, want.Hash[:6]), w)
			return false
		}
		*keep = append(*keep, kept{d: d, want: want, req: k, api: "GetBlockRange"})
	}
	if doneAt < 0 {
		c.Violation("C23:GetBlockRange:no-completion", "all blocks were delivered but BatchDoneFunc was not called", w)
		return true
	}
	c.Count("GetBlockRange_"+shape+"_verified", 1)
	c.Count("range_blocks_verified", len(blks))
	return false
}

// ------------------------------------------------------------------ run

func run(c *core.Ctx) {
	blocks, err := rig.Corpus(c.RepoDir)
	if err != nil {
		c.Inconclusive("corpus: " + err.Error())
		return
	}
	var small []int
	ebb := -1
	for i, b := range blocks {
		if len(b.Cbor) > 200000 {
			ebb = i
			continue
		}
		small = append(small, i)
	}
	rig.InstallHooks()
	defer rig.RemoveHooks()
	g0 := runtime.NumGoroutine()
	n := c.N(120, 6000)
	cases := make([]*caseSpec, 0, n+2)
	for i := 0; i < n; i++ {
		cases = append(cases, genCase(i, c.Rand("conn", i), blocks, small))
	}
	if ebb >= 0 {
		// the 648 kB block: one matching single request and one range, generous state timeouts
		pt := rig.Point{Slot: 4242, Hash: blocks[ebb].Hash[:]}
		cases = append([]*caseSpec{
			{Idx: n, Seed: 1, Timeout: 60 * time.Second, Reqs: []request{{Single: true, Shape: 2, Target: ebb, Served: []int{ebb}, Start: pt, End: pt}}},
			{Idx: n + 1, Seed: 2, Style: 2, Timeout: 60 * time.Second, Reqs: []request{{Shape: 4, Target: ebb, Served: []int{small[0], ebb}, Start: pt, End: pt}}},
		}, cases...)
	}
	var abandoned atomic.Int64
	workers := 2 * runtime.GOMAXPROCS(0) // most of the time is spent waiting out quiescence windows
	if workers > 32 {
		workers = 32
	}
	if workers < 8 {
		workers = 8
	}
	only := -1
	if v := os.Getenv("VERIF_C23_ONLY"); v != "" { // debugging aid: run one case of the list
		only, _ = strconv.Atoi(v)
	}
	c.Parallel("case", len(cases), workers, func(i int, _ *core.Rand) {
		if only >= 0 && cases[i].Idx != only {
			return
		}
		runCase(c, cases[i], blocks, &abandoned)
	})
	c.Note("calls_abandoned_parked_in_the_client", abandoned.Load())
	c.Note("goroutine_dumps", map[string]int64{"count": rig.DumpCount.Load(), "total_ms": rig.DumpMs.Load(), "total_bytes": rig.DumpBytes.Load()})
	if c.Counter("GetBlock_matching_verified") == 0 || c.Counter("GetBlock_no-blocks_failed") == 0 || c.Counter("range_blocks_verified") == 0 {
		for i := int64(0); i <= c.Evals()/50+1; i++ {
			c.Inconclusive("the run never saw a verified GetBlock success, a GetBlock failure and a verified range")
		}
	}
	ng := runtime.NumGoroutine()
	for i := 0; i < 300 && ng > g0+8+int(abandoned.Load())*8; i++ {
		time.Sleep(10 * time.Millisecond)
		ng = runtime.NumGoroutine()
	}
	c.Note("goroutines_before", g0)
	c.Note("goroutines_after", ng)
}
