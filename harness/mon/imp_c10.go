//go:build only_c10

package mon

import _ "verifharness/mon/c10"
