//go:build only_c42

package mon

import _ "verifharness/mon/c42"
