//go:build only_c01

package mon

import _ "verifharness/mon/c01"
