// Package c34 monitors C34: with body validation enabled, NewBlockFromCbor
// fails for every block whose body bytes differ from what its header commits
// to, and every real block decodes.
//
// Oracle: the unmodified corpus blocks (and one generated Dijkstra block whose
// header was given the independently computed body hash) must decode with the
// default configuration; every mutant whose committed body bytes differ from
// the original must return an error (any error). Mutants: single-byte
// substitutions, semantically neutral re-encodings of containers, and
// structural edits (swap / drop / duplicate a transaction, edit the
// invalid-transaction list, drop / move an auxiliary-data entry, Byron
// delegation / update payload edits). A mutant is non-trivial when it still
// decodes with SkipBodyHashValidation=true, i.e. only the header binding can
// reject it.
package c34

import (
	"bytes"
	"fmt"
	"hash/fnv"

	"github.com/blinklabs-io/gouroboros/ledger"
	lcommon "github.com/blinklabs-io/gouroboros/ledger/common"
	"golang.org/x/crypto/blake2b"

	"verifharness/blockx"
	"verifharness/cborx"
	"verifharness/core"
	"verifharness/corpus"
)

func init() {
	core.Register(&core.Monitor{
		ID: "C34",
		Rule: "11 corpus blocks (all eras) + 1 generated Dijkstra block (corpus Dijkstra block carrying the corpus Dijkstra transaction twice, header body hash recomputed independently) must decode with validation on. " +
			"Mutants of the committed body region (Shelley..Conway: top-level items 1..; Dijkstra: block_body item; Byron main: each transaction body, each witness list, delegation payload, update payload; ssc payload and EBBs excluded): " +
			"single-byte substitutions at PRNG-sampled offsets (every offset in thorough) x {bit flips, random values}; every sampled container of the region switched to another header form; structural edits (swap/drop/duplicate transaction, invalid-transaction list add/remove, aux entry drop/rekey, Byron dlg/upd edits). " +
			"Each mutant must be rejected by NewBlockFromCbor with default config. Non-trivial = the mutant still decodes when SkipBodyHashValidation is set (only the header binding can reject it); distinct by hash of the mutant bytes",
		MinNontrivial: 300,
		Assumptions: []string{
			"golang.org/x/crypto/blake2b is correct",
			"cborx item boundaries are correct (self-checked by identity re-encoding)",
			"Byron: the header commits to transaction bodies (merkle root), witness lists, delegation and update payload bytes only; framing bytes of the payload arrays and the ssc payload are not judged",
		},
		QuickTimeout: 600, ThoroughTimeout: 3 * 3600,
		Run: run,
	})
}

func skipCfg() lcommon.VerifyConfig { return lcommon.VerifyConfig{SkipBodyHashValidation: true} }

var typeNames = map[uint]string{0: "byron_ebb", 1: "byron_main", 2: "shelley", 3: "allegra", 4: "mary", 5: "alonzo", 6: "babbage", 7: "conway", 8: "dijkstra"}

// region is a byte range of the block the header commits to.
type region struct {
	name string
	node *cborx.Node
}

func regionsOf(l *blockx.Layout) []region {
	var out []region
	switch {
	case l.Split:
		names := []string{"bodies", "witnesses", "aux", "invalid"}
		for i, s := range l.Segments {
			n := "segment"
			if i < len(names) {
				n = names[i]
			}
			out = append(out, region{n, s})
		}
	case l.Type == corpus.TypeDijkstra:
		out = append(out, region{"dj.body", l.DjBody})
	case l.Type == corpus.TypeByronMain:
		for i := range l.Txs {
			out = append(out, region{"byron.txbody", l.Txs[i].Body}, region{"byron.witness", l.Txs[i].Witness})
		}
		out = append(out, region{"byron.dlg", l.ByronDlg}, region{"byron.upd", l.ByronUpd})
	}
	return out
}

// committed returns the concatenated committed bytes (with separators) so
// that two blocks can be compared for "same body".
func committed(l *blockx.Layout) []byte {
	var b []byte
	for _, r := range regionsOf(l) {
		b = append(b, r.node.Slice(l.Src)...)
		b = append(b, 0xfe, 0xfe)
	}
	return b
}

type mutant struct {
	class  string // byte | reencode | swap | drop | dup | invalid-list | aux-entry | byron-dlg | byron-upd
	region string
	desc   string
	data   []byte
}

type mon struct {
	c *core.Ctx
}

func (m *mon) decode(typ uint, x []byte, cfg ...lcommon.VerifyConfig) (ok bool, err error, panicked bool) {
	p, _, _ := core.Safely(func() {
		var b ledger.Block
		b, err = ledger.NewBlockFromCbor(typ, x, cfg...)
		ok = err == nil && b != nil
	})
	return ok, err, p
}

func (m *mon) judge(b *corpus.Block, mu mutant) {
	c := m.c
	c.Eval()
	c.Count("mutants_"+mu.class, 1)
	c.Journal("C34 block=%s class=%s region=%s %s", b.Name, mu.class, mu.region, mu.desc)
	ok, _, p := m.decode(b.Type, mu.data)
	if p {
		c.Count("decoder_panics", 1)
		return // a panic is not an acceptance; totality is C02's subject
	}
	okSkip, _, _ := m.decode(b.Type, mu.data, skipCfg())
	if okSkip {
		c.Count("decodable_without_validation_"+mu.class, 1)
		hh := fnv.New64a()
		hh.Write(mu.data)
		c.Distinct(hh.Sum64())
	} else {
		c.Count("malformed_"+mu.class, 1)
	}
	if !ok {
		c.Count("rejected", 1)
		return
	}
	c.Count("accepted_mutants", 1)
	wit := map[string]any{"block": b.Name, "block_type": b.Type, "class": mu.class, "region": mu.region, "mutation": mu.desc}
	if len(mu.data) <= 8192 {
		wit["input_hex"] = core.HexFull(mu.data)
	} else {
		wit["input_hex_prefix"] = core.Hex(mu.data)
		wit["reproduce"] = "apply `mutation` to corpus block `block`"
	}
	c.Violation(fmt.Sprintf("C34:accepted:%s:%s:%s", typeNames[b.Type], mu.class, mu.region),
		fmt.Sprintf("NewBlockFromCbor(validation on) accepted a %s block whose %s differs from the original (%s, %s)", typeNames[b.Type], mu.region, mu.class, mu.desc), wit)
}

// fixBodyHash replaces, inside the header, the byte string equal to oldHash
// by newHash. Returns false when it is not found exactly once.
func fixBodyHash(header *cborx.Node, oldHash, newHash []byte) bool {
	n := 0
	header.Walk(func(x *cborx.Node) {
		if x.Kind == cborx.Bytes && x.Form != cborx.FormIndef && bytes.Equal(x.Data, oldHash) {
			x.Data = newHash
			n++
		}
	})
	return n == 1
}

func h256(b []byte) []byte { s := blake2b.Sum256(b); return s[:] }

func run(c *core.Ctx) {
	m := &mon{c: c}
	blocks := corpus.MustBlocks(c.RepoDir)

	// generated Dijkstra block with transactions and an independently computed body hash
	for _, b := range blocks {
		if b.Type != corpus.TypeDijkstra {
			continue
		}
		dtx, err := corpus.DijkstraTx(c.RepoDir)
		if err != nil {
			break
		}
		root, e1 := cborx.ParseExact(b.Cbor)
		txn, e2 := cborx.ParseExact(dtx)
		if e1 != nil || e2 != nil || len(root.Items) != 2 || txn.Kind != cborx.Array || len(txn.Items) < 3 {
			break
		}
		t := root.Clone()
		oldHash := h256(root.Items[1].Slice(b.Cbor))
		tx := cborx.A(txn.Items[0].Clone(), txn.Items[1].Clone(), txn.Items[len(txn.Items)-1].Clone())
		arr := cborx.A(tx, tx.Clone())
		if t.Items[1].Items[1].Form == cborx.FormIndef {
			arr.Form = cborx.FormIndef
		}
		t.Items[1].Items[1] = arr
		newHash := h256(t.Items[1].Encode())
		if fixBodyHash(t.Items[0], oldHash, newHash) {
			blocks = append(blocks, corpus.Block{Name: "dijkstra_gen_w30tx", Type: corpus.TypeDijkstra, Cbor: t.Encode()})
		} else {
			c.Count("generated_dijkstra_skipped", 1)
		}
		break
	}

	type job struct {
		b  *corpus.Block
		mu mutant
	}
	var jobs []job
	nBytes := c.N(700, 0) // sampled offsets per block in quick; 0 = every offset
	valuesPer := c.N(2, 6)
	perClassReenc := c.N(3, 40)

	for bi := range blocks {
		b := &blocks[bi]
		// (1) the real block decodes
		c.Eval()
		c.Journal("C34 original block=%s", b.Name)
		ok, err, p := m.decode(b.Type, b.Cbor)
		if p || !ok {
			c.Violation("C34:original-rejected:"+b.Name, fmt.Sprintf("block %s does not decode with validation on: %v (panic=%v)", b.Name, err, p),
				map[string]any{"block": b.Name, "block_type": b.Type})
			continue
		}
		c.Count("originals_accepted", 1)
		c.Distinct("original", b.Name)
		root, err := cborx.ParseExact(b.Cbor)
		if err != nil || !bytes.Equal(root.Encode(), b.Cbor) {
			c.Inconclusive("cborx self-check failed on " + b.Name)
			continue
		}
		lay, err := blockx.AnalyzeNode(b.Type, b.Cbor, root)
		if err != nil {
			c.Inconclusive("blockx cannot analyse " + b.Name + ": " + err.Error())
			continue
		}
		regs := regionsOf(lay)
		if len(regs) == 0 {
			continue // EBB
		}
		origCommitted := committed(lay)
		r := c.Rand("plan", b.Name)

		// (2) single-byte substitutions
		var offsets []int
		regOf := map[int]string{}
		for _, rg := range regs {
			for o := rg.node.Start; o < rg.node.End; o++ {
				offsets = append(offsets, o)
				regOf[o] = rg.name
			}
		}
		pick := offsets
		if nBytes > 0 && len(offsets) > nBytes {
			pick = nil
			// always the first and last byte of every region, then PRNG picks
			seen := map[int]bool{}
			for _, rg := range regs {
				for _, o := range []int{rg.node.Start, rg.node.End - 1} {
					if !seen[o] {
						seen[o] = true
						pick = append(pick, o)
					}
				}
			}
			for len(pick) < nBytes {
				o := offsets[r.Intn(len(offsets))]
				if !seen[o] {
					seen[o] = true
					pick = append(pick, o)
				}
			}
		}
		for _, o := range pick {
			old := b.Cbor[o]
			vals := map[byte]bool{}
			vals[old^1] = true
			vals[old^0x80] = true
			for len(vals) < valuesPer+1 {
				v := byte(r.Intn(256))
				if v != old {
					vals[v] = true
				}
			}
			cnt := 0
			for v := 0; v < 256 && cnt < valuesPer; v++ {
				if !vals[byte(v)] {
					continue
				}
				cnt++
				d := append([]byte(nil), b.Cbor...)
				d[o] = byte(v)
				jobs = append(jobs, job{b, mutant{class: "byte", region: regOf[o], desc: fmt.Sprintf("byte %d: %02x -> %02x", o, old, v), data: d}})
			}
		}

		// (3) re-encodings of containers inside the committed regions
		inRegion := func(n *cborx.Node) string {
			for _, rg := range regs {
				if n.Start >= rg.node.Start && n.End <= rg.node.End {
					return rg.name
				}
			}
			return ""
		}
		byClass := map[string][]blockx.Classified{}
		var classNames []string
		for _, cl := range lay.Classes() {
			if inRegion(cl.Node) == "" {
				continue
			}
			if _, ok := byClass[cl.Class]; !ok {
				classNames = append(classNames, cl.Class)
			}
			byClass[cl.Class] = append(byClass[cl.Class], cl)
		}
		for _, name := range classNames {
			list := byClass[name]
			idx := map[int]bool{0: true, len(list) - 1: true}
			for len(idx) < perClassReenc && len(idx) < len(list) {
				idx[r.Intn(len(list))] = true
			}
			for i := range list {
				if !idx[i] {
					continue
				}
				for _, f := range blockx.OtherForms(list[i].Node) {
					t := root.Clone()
					t.Nodes()[list[i].Ord].SetForm(f)
					jobs = append(jobs, job{b, mutant{class: "reencode", region: inRegion(list[i].Node),
						desc: fmt.Sprintf("container #%d (%s) header form -> %s", list[i].Ord, name, f), data: t.Encode()}})
				}
			}
		}

		// (4) structural edits
		add := func(class, region, desc string, t *cborx.Node) {
			d := t.Encode()
			if bytes.Equal(d, b.Cbor) {
				return
			}
			// keep only mutants whose committed bytes really differ
			if nl, err := blockx.Analyze(b.Type, d); err == nil && bytes.Equal(committed(nl), origCommitted) {
				c.Count("structural_same_body_skipped", 1)
				return
			}
			jobs = append(jobs, job{b, mutant{class: class, region: region, desc: desc, data: d}})
		}
		keepForm := func(n *cborx.Node) {
			if n.Form != cborx.FormIndef {
				n.Form = cborx.FormMinimal
			}
		}
		nTx := len(lay.Txs)
		switch {
		case lay.Split:
			for k := 0; k < nTx && k < c.N(4, nTx); k++ {
				i, j := k, (k+1+r.Intn(max(nTx-1, 1)))%max(nTx, 1)
				if nTx >= 2 && i != j {
					t := root.Clone()
					t.Items[1].Items[i], t.Items[1].Items[j] = t.Items[1].Items[j], t.Items[1].Items[i]
					t.Items[2].Items[i], t.Items[2].Items[j] = t.Items[2].Items[j], t.Items[2].Items[i]
					add("swap", "bodies", fmt.Sprintf("swap transactions %d and %d (bodies and witness sets)", i, j), t)
					t2 := root.Clone()
					t2.Items[2].Items[i], t2.Items[2].Items[j] = t2.Items[2].Items[j], t2.Items[2].Items[i]
					add("swap", "witnesses", fmt.Sprintf("swap witness sets %d and %d only", i, j), t2)
				}
				t := root.Clone()
				t.Items[1].Items = append(append([]*cborx.Node{}, t.Items[1].Items[:k]...), t.Items[1].Items[k+1:]...)
				t.Items[2].Items = append(append([]*cborx.Node{}, t.Items[2].Items[:k]...), t.Items[2].Items[k+1:]...)
				keepForm(t.Items[1])
				keepForm(t.Items[2])
				add("drop", "bodies", fmt.Sprintf("drop transaction %d (body and witness set)", k), t)
				t = root.Clone()
				t.Items[1].Items = append(t.Items[1].Items, t.Items[1].Items[k].Clone())
				t.Items[2].Items = append(t.Items[2].Items, t.Items[2].Items[k].Clone())
				keepForm(t.Items[1])
				keepForm(t.Items[2])
				add("dup", "bodies", fmt.Sprintf("append a copy of transaction %d", k), t)
			}
			// auxiliary data map: drop an entry, move an entry to another index
			if am := lay.AuxMap; am != nil && len(am.Items) >= 2 {
				for e := 0; e+1 < len(am.Items) && e < 2*c.N(3, 1000); e += 2 {
					t := root.Clone()
					t.Items[3].Items = append(append([]*cborx.Node{}, t.Items[3].Items[:e]...), t.Items[3].Items[e+2:]...)
					keepForm(t.Items[3])
					add("aux-entry", "aux", fmt.Sprintf("drop auxiliary data entry for transaction %d", am.Items[e].Arg), t)
					if nTx >= 2 {
						t = root.Clone()
						used := map[uint64]bool{}
						for q := 0; q < len(am.Items); q += 2 {
							used[am.Items[q].Arg] = true
						}
						for cand := uint64(0); cand < uint64(nTx); cand++ {
							if !used[cand] {
								t.Items[3].Items[e] = cborx.U(cand)
								add("aux-entry", "aux", fmt.Sprintf("move auxiliary data of transaction %d to transaction %d", am.Items[e].Arg, cand), t)
								break
							}
						}
					}
				}
			}
			if nTx >= 1 {
				// attach auxiliary data to a transaction that has none is a body change as well
				t := root.Clone()
				used := map[uint64]bool{}
				for q := 0; q+1 < len(lay.AuxMap.Items); q += 2 {
					used[lay.AuxMap.Items[q].Arg] = true
				}
				for cand := uint64(0); cand < uint64(nTx); cand++ {
					if !used[cand] {
						t.Items[3].Items = append(t.Items[3].Items, cborx.U(cand), cborx.M(cborx.U(1), cborx.S("x")))
						keepForm(t.Items[3])
						add("aux-entry", "aux", fmt.Sprintf("add metadata {1:\"x\"} for transaction %d", cand), t)
						break
					}
				}
			}
			// invalid transaction list (Alonzo+): the 5th element
			if lay.Invalid != nil && lay.Invalid.Kind == cborx.Array && nTx >= 1 {
				listed := map[uint64]bool{}
				for _, it := range lay.Invalid.Items {
					listed[it.Arg] = true
				}
				for cand := 0; cand < nTx && cand < c.N(4, nTx); cand++ {
					if listed[uint64(cand)] {
						continue
					}
					t := root.Clone()
					t.Items[4].Items = append(t.Items[4].Items, cborx.U(uint64(cand)))
					keepForm(t.Items[4])
					add("invalid-list", "invalid", fmt.Sprintf("mark transaction %d invalid", cand), t)
				}
				for q := range lay.Invalid.Items {
					t := root.Clone()
					t.Items[4].Items = append(append([]*cborx.Node{}, t.Items[4].Items[:q]...), t.Items[4].Items[q+1:]...)
					keepForm(t.Items[4])
					add("invalid-list", "invalid", fmt.Sprintf("remove index %d from the invalid list", lay.Invalid.Items[q].Arg), t)
				}
			}
		case b.Type == corpus.TypeDijkstra:
			txs := func(t *cborx.Node) *cborx.Node { return t.Items[1].Items[1] }
			for k := 0; k < nTx; k++ {
				t := root.Clone()
				x := txs(t)
				x.Items = append(append([]*cborx.Node{}, x.Items[:k]...), x.Items[k+1:]...)
				keepForm(x)
				add("drop", "dj.body", fmt.Sprintf("drop transaction %d", k), t)
				t = root.Clone()
				x = txs(t)
				x.Items = append(x.Items, x.Items[k].Clone())
				keepForm(x)
				add("dup", "dj.body", fmt.Sprintf("append a copy of transaction %d", k), t)
			}
			if nTx >= 1 {
				t := root.Clone()
				t.Items[1].Items[0] = cborx.A(cborx.U(0))
				add("invalid-list", "dj.body", "invalid_transactions nil -> [0]", t)
			}
			t := root.Clone()
			t.Items[1].Items[3] = cborx.B([]byte{1, 2, 3})
			add("dj-cert", "dj.body", "peras_certificate -> h'010203'", t)
		case b.Type == corpus.TypeByronMain:
			pay := func(t *cborx.Node) *cborx.Node { return t.Items[1].Items[0] }
			for k := 0; k < nTx; k++ {
				t := root.Clone()
				x := pay(t)
				x.Items = append(append([]*cborx.Node{}, x.Items[:k]...), x.Items[k+1:]...)
				keepForm(x)
				add("drop", "byron.txbody", fmt.Sprintf("drop transaction %d", k), t)
				t = root.Clone()
				x = pay(t)
				x.Items = append(x.Items, x.Items[k].Clone())
				keepForm(x)
				add("dup", "byron.txbody", fmt.Sprintf("append a copy of transaction %d", k), t)
				if k+1 < nTx {
					t = root.Clone()
					x = pay(t)
					x.Items[k], x.Items[k+1] = x.Items[k+1], x.Items[k]
					add("swap", "byron.txbody", fmt.Sprintf("swap transactions %d and %d", k, k+1), t)
					t = root.Clone()
					x = pay(t)
					x.Items[k].Items[1], x.Items[k+1].Items[1] = x.Items[k+1].Items[1], x.Items[k].Items[1]
					add("swap", "byron.witness", fmt.Sprintf("swap the witness lists of transactions %d and %d", k, k+1), t)
				}
			}
			// delegation payload: switch between the two empty-array encodings / add an element
			dl := lay.ByronDlg
			if dl.Kind == cborx.Array {
				t := root.Clone()
				d := t.Items[1].Items[2]
				if len(d.Items) > 0 {
					d.Items = d.Items[1:]
					keepForm(d)
					add("byron-dlg", "byron.dlg", "drop the first delegation certificate", t)
					t = root.Clone()
					d = t.Items[1].Items[2]
					d.Items = append(d.Items, d.Items[0].Clone())
					keepForm(d)
					add("byron-dlg", "byron.dlg", "duplicate the first delegation certificate", t)
				} else {
					if d.Form == cborx.FormIndef {
						d.Form = cborx.FormDirect
					} else {
						d.Form = cborx.FormIndef
					}
					add("byron-dlg", "byron.dlg", "empty delegation payload in the other array form", t)
				}
			}
			// update payload [proposal?, votes]: votes list in the other form / extra vote
			up := lay.ByronUpd
			if up.Kind == cborx.Array && len(up.Items) == 2 && up.Items[1].Kind == cborx.Array {
				t := root.Clone()
				v := t.Items[1].Items[3].Items[1]
				if len(v.Items) > 0 {
					v.Items = v.Items[1:]
					keepForm(v)
					add("byron-upd", "byron.upd", "drop the first update vote", t)
					t = root.Clone()
					v = t.Items[1].Items[3].Items[1]
					v.Items = append(v.Items, v.Items[0].Clone())
					keepForm(v)
					add("byron-upd", "byron.upd", "duplicate the first update vote", t)
				} else {
					if v.Form == cborx.FormIndef {
						v.Form = cborx.FormDirect
					} else {
						v.Form = cborx.FormIndef
					}
					add("byron-upd", "byron.upd", "empty vote list in the other array form", t)
				}
			}
		}
	}

	c.Parallel("mutant", len(jobs), 0, func(i int, _ *core.Rand) {
		if i%997 == 0 {
			j := jobs[i]
			c.Sample(map[string]any{"block": j.b.Name, "class": j.mu.class, "region": j.mu.region, "mutation": j.mu.desc, "len": len(j.mu.data)})
		}
		m.judge(jobs[i].b, jobs[i].mu)
	})
	c.Note("blocks", len(blocks))
	if c.Counter("originals_accepted") == 0 {
		c.Inconclusive("no original block was accepted: the accept side of the property was not observed")
	}
	if c.Counter("rejected") == 0 {
		c.Inconclusive("no mutant was rejected")
	}
	if c.Thorough() {
		c.Note("byte_offsets", "every offset of every committed region")
	}
}
