// Package c34 monitors C34: with body validation enabled, NewBlockFromCbor
// fails for every block whose body bytes differ from what its header commits
// to, and every real block decodes.
//
// Oracle: the unmodified corpus blocks (and one generated Dijkstra block whose
// header was given the independently computed body hash) must decode with the
// default configuration; every mutant whose committed body bytes differ from
// the original must return an error (any error). Mutants: single-byte
// substitutions, semantically neutral re-encodings of containers, and
// structural edits (swap / drop / duplicate a transaction, edit the
// invalid-transaction list, drop / move an auxiliary-data entry, Byron
// delegation / update payload edits). A mutant is non-trivial when it still
// decodes with SkipBodyHashValidation=true, i.e. only the header binding can
// reject it.
package c34

import (
	"bytes"
	"context"
	"fmt"
	"hash/fnv"
	"reflect"
	"sort"
	"strings"

	"github.com/blinklabs-io/gouroboros/ledger"
	"github.com/blinklabs-io/gouroboros/ledger/byron"
	lcommon "github.com/blinklabs-io/gouroboros/ledger/common"
	"github.com/blinklabs-io/gouroboros/pipeline"
	pcommon "github.com/blinklabs-io/gouroboros/protocol/common"
	"golang.org/x/crypto/blake2b"

	"verifharness/blockx"
	"verifharness/cborx"
	"verifharness/core"
	"verifharness/corpus"
)

func init() {
	core.Register(&core.Monitor{
		ID: "C34",
		Rule: "11 corpus blocks (all eras) + 1 generated Dijkstra block (corpus Dijkstra block carrying the corpus Dijkstra transaction twice, header body hash recomputed independently) must decode with validation on. " +
			"Mutants of the committed body region (Shelley..Conway: top-level items 1..; Dijkstra: block_body item; Byron main: each transaction body, each witness list, delegation payload, update payload; ssc payload and EBBs excluded): " +
			"single-byte substitutions at PRNG-sampled offsets (every offset in thorough) x {bit flips, random values}; every sampled container of the region switched to another header form; structural edits (swap/drop/duplicate transaction, invalid-transaction list add/remove, aux entry drop/rekey, Byron dlg/upd edits). " +
			"plus tampering of the commitment itself in the header (Byron tx count / merkle root / witness hash / dlg / upd proof, Shelley+ block_body_hash located by its independently computed value). " +
			"Each mutant must be rejected by NewBlockFromCbor with default config AND under every other validation-on combination of the boolean VerifyConfig options (enumerated by reflection; options only add checks) through every decode entry point (era constructor, NewBlockFromCborWithOffsets, pipeline DecodeStage, ByronMainBlock.ValidateBodyProof): full matrix for Byron payload/header/structural tampers, rotating pairs elsewhere; originals must be accepted under all of them. " +
			"Byron ssc tampers (payload bytes, header ssc_proof) are judged only for monotonicity and under EnableByronSscProofHashValidation. Non-trivial = the mutant still decodes when SkipBodyHashValidation is set (only the header binding can reject it); distinct by hash of the mutant bytes",
		MinNontrivial: 300,
		Assumptions: []string{
			"golang.org/x/crypto/blake2b is correct",
			"cborx item boundaries are correct (self-checked by identity re-encoding)",
			"every boolean VerifyConfig option other than SkipBodyHashValidation leaves the header binding on (a new option that legitimately switches it off would show up as a violation and must then be added here)",
			"Byron: the header commits to transaction bodies (merkle root), witness lists, delegation and update payload bytes only; framing bytes of the payload arrays and the ssc payload are not judged",
		},
		QuickTimeout: 600, ThoroughTimeout: 3 * 3600,
		Run: run,
	})
}

func skipCfg() lcommon.VerifyConfig { return lcommon.VerifyConfig{SkipBodyHashValidation: true} }

var typeNames = map[uint]string{0: "byron_ebb", 1: "byron_main", 2: "shelley", 3: "allegra", 4: "mary", 5: "alonzo", 6: "babbage", 7: "conway", 8: "dijkstra"}

// region is a byte range of the block the header commits to.
type region struct {
	name string
	node *cborx.Node
}

func regionsOf(l *blockx.Layout) []region {
	var out []region
	switch {
	case l.Split:
		names := []string{"bodies", "witnesses", "aux", "invalid"}
		for i, s := range l.Segments {
			n := "segment"
			if i < len(names) {
				n = names[i]
			}
			out = append(out, region{n, s})
		}
	case l.Type == corpus.TypeDijkstra:
		out = append(out, region{"dj.body", l.DjBody})
	case l.Type == corpus.TypeByronMain:
		for i := range l.Txs {
			out = append(out, region{"byron.txbody", l.Txs[i].Body}, region{"byron.witness", l.Txs[i].Witness})
		}
		out = append(out, region{"byron.dlg", l.ByronDlg}, region{"byron.upd", l.ByronUpd})
	}
	return out
}

// committed returns the concatenated committed bytes (with separators) so
// that two blocks can be compared for "same body".
func committed(l *blockx.Layout) []byte {
	var b []byte
	for _, r := range regionsOf(l) {
		b = append(b, r.node.Slice(l.Src)...)
		b = append(b, 0xfe, 0xfe)
	}
	return b
}

type mutant struct {
	class  string // byte | reencode | swap | drop | dup | invalid-list | aux-entry | byron-dlg | byron-upd | header-proof
	region string
	desc   string
	data   []byte
	// ssc: the tamper touches only what the Byron ssc_proof covers (ssc
	// payload, or the ssc_proof field of the header). The statement does not
	// list it among the default commitments, so it is judged only (a) for
	// monotonicity and (b) under EnableByronSscProofHashValidation.
	ssc bool
	// full: run under every validation-on configuration x every entry point;
	// otherwise under npairs of them, rotating with the mutant index
	full   bool
	npairs int
}

type mon struct {
	c       *core.Ctx
	cfgs    []cfgVariant // validation-on configurations, default first
	entries []entry
}

// ---------------------------------------------------------------- configs

type cfgVariant struct {
	name string // "default" or "+SBHV+EBSPHV" (initials of the set boolean fields)
	full string // full field names
	cfg  lcommon.VerifyConfig
	ssc  bool // EnableByronSscProofHashValidation set
}

func initials(s string) string {
	var b strings.Builder
	for _, r := range s {
		if r >= 'A' && r <= 'Z' {
			b.WriteRune(r)
		}
	}
	return b.String()
}

// allConfigs enumerates every combination of the boolean fields of
// VerifyConfig (found by reflection, so new options are picked up) and
// returns those that leave body validation on (SkipBodyHashValidation false).
func allConfigs() (on []cfgVariant, boolFields []string) {
	t := reflect.TypeOf(lcommon.VerifyConfig{})
	var idx []int
	for i := 0; i < t.NumField(); i++ {
		if t.Field(i).Type.Kind() == reflect.Bool && t.Field(i).IsExported() {
			idx = append(idx, i)
			boolFields = append(boolFields, t.Field(i).Name)
		}
	}
	for mask := 0; mask < 1<<len(idx); mask++ {
		var cfg lcommon.VerifyConfig
		v := reflect.ValueOf(&cfg).Elem()
		var short, long []string
		for k, fi := range idx {
			if mask&(1<<k) != 0 {
				v.Field(fi).SetBool(true)
				short = append(short, initials(t.Field(fi).Name))
				long = append(long, t.Field(fi).Name)
			}
		}
		if cfg.SkipBodyHashValidation {
			continue
		}
		cv := cfgVariant{name: "default", cfg: cfg, ssc: cfg.EnableByronSscProofHashValidation}
		if len(short) > 0 {
			cv.name = "+" + strings.Join(short, "+")
			cv.full = strings.Join(long, ",")
		}
		on = append(on, cv)
	}
	// fewest set options first, so that the first accepting configuration
	// reported for a mutant is a minimal one
	sort.SliceStable(on, func(i, j int) bool { return strings.Count(on[i].name, "+") < strings.Count(on[j].name, "+") })
	return on, boolFields
}

// ---------------------------------------------------------------- entry points

type entry struct {
	name    string
	cfgFree bool // the entry point takes no VerifyConfig (always default)
	applies func(typ uint) bool
	run     func(typ uint, x []byte, cfg lcommon.VerifyConfig) error
}

func okBlock(b any, err error) error {
	if err != nil {
		return err
	}
	if b == nil || (reflect.ValueOf(b).Kind() == reflect.Pointer && reflect.ValueOf(b).IsNil()) {
		return fmt.Errorf("nil block without error")
	}
	return nil
}

func entryPoints() []entry {
	all := func(uint) bool { return true }
	return []entry{
		{name: "NewBlockFromCbor", applies: all, run: func(t uint, x []byte, cfg lcommon.VerifyConfig) error {
			b, err := ledger.NewBlockFromCbor(t, x, cfg)
			return okBlock(b, err)
		}},
		{name: "era-constructor", applies: func(t uint) bool { return t >= 1 && t <= 8 }, run: func(t uint, x []byte, cfg lcommon.VerifyConfig) error {
			switch t {
			case corpus.TypeByronMain:
				b, err := ledger.NewByronMainBlockFromCbor(x, cfg)
				return okBlock(b, err)
			case corpus.TypeShelley:
				b, err := ledger.NewShelleyBlockFromCbor(x, cfg)
				return okBlock(b, err)
			case corpus.TypeAllegra:
				b, err := ledger.NewAllegraBlockFromCbor(x, cfg)
				return okBlock(b, err)
			case corpus.TypeMary:
				b, err := ledger.NewMaryBlockFromCbor(x, cfg)
				return okBlock(b, err)
			case corpus.TypeAlonzo:
				b, err := ledger.NewAlonzoBlockFromCbor(x, cfg)
				return okBlock(b, err)
			case corpus.TypeBabbage:
				b, err := ledger.NewBabbageBlockFromCbor(x, cfg)
				return okBlock(b, err)
			case corpus.TypeConway:
				b, err := ledger.NewConwayBlockFromCbor(x, cfg)
				return okBlock(b, err)
			case corpus.TypeDijkstra:
				b, err := ledger.NewDijkstraBlockFromCbor(x, cfg)
				return okBlock(b, err)
			}
			return fmt.Errorf("no constructor")
		}},
		// EBBs are excluded here: NewBlockFromCborWithOffsets cannot decode a real EBB (known finding of C36)
		{name: "NewBlockFromCborWithOffsets", applies: func(t uint) bool { return t >= 1 }, run: func(t uint, x []byte, cfg lcommon.VerifyConfig) error {
			b, err := ledger.NewBlockFromCborWithOffsets(t, x, cfg)
			if err == nil && (b == nil || b.Block == nil) {
				return fmt.Errorf("nil block without error")
			}
			return err
		}},
		{name: "pipeline.DecodeStage", cfgFree: true, applies: all, run: func(t uint, x []byte, _ lcommon.VerifyConfig) error {
			item := pipeline.NewBlockItem(t, x, pcommon.Tip{}, 1)
			if err := pipeline.NewDecodeStage(false).Process(context.Background(), item); err != nil {
				return err
			}
			if item.Block() == nil {
				return fmt.Errorf("nil block without error")
			}
			return nil
		}},
		// the anchored mechanism itself: decode without validation, then ValidateBodyProof(cfg)
		{name: "ByronMainBlock.ValidateBodyProof", applies: func(t uint) bool { return t == corpus.TypeByronMain }, run: func(t uint, x []byte, cfg lcommon.VerifyConfig) error {
			b, err := byron.NewByronMainBlockFromCbor(x, skipCfg())
			if err != nil {
				return err
			}
			return b.ValidateBodyProof(cfg)
		}},
	}
}

// try runs one entry point under one configuration; ok = the block was accepted.
func (m *mon) try(e *entry, typ uint, x []byte, cfg lcommon.VerifyConfig) (ok bool, err error, panicked bool) {
	p, _, _ := core.Safely(func() { err = e.run(typ, x, cfg) })
	return !p && err == nil, err, p
}

func (m *mon) decode(typ uint, x []byte, cfg ...lcommon.VerifyConfig) (ok bool, err error, panicked bool) {
	p, _, _ := core.Safely(func() {
		var b ledger.Block
		b, err = ledger.NewBlockFromCbor(typ, x, cfg...)
		ok = err == nil && b != nil
	})
	return ok, err, p
}

// pairs returns the (configuration, entry point) pairs a mutant is run under,
// besides (default, NewBlockFromCbor) which every mutant gets.
func (m *mon) pairs(typ uint, mu *mutant, index int) [][2]int {
	var all [][2]int
	for ci := range m.cfgs {
		for ei := range m.entries {
			e := &m.entries[ei]
			if !e.applies(typ) || (ci == 0 && ei == 0) || (e.cfgFree && ci != 0) {
				continue
			}
			all = append(all, [2]int{ci, ei})
		}
	}
	if mu.full || len(all) == 0 {
		return all
	}
	// rotating pairs, so that over the run every pair meets every block and class
	n := mu.npairs
	if n < 1 {
		n = 1
	}
	if n > len(all) {
		n = len(all)
	}
	out := make([][2]int, 0, n)
	for j := 0; j < n; j++ {
		out = append(out, all[(index+j*len(all)/n)%len(all)])
	}
	return out
}

func (m *mon) judge(b *corpus.Block, mu mutant, index int) {
	c := m.c
	c.Eval()
	c.Count("mutants_"+mu.class, 1)
	c.Journal("C34 block=%s class=%s region=%s %s", b.Name, mu.class, mu.region, mu.desc)
	ok, _, p := m.decode(b.Type, mu.data)
	if p {
		c.Count("decoder_panics", 1)
		return // a panic is not an acceptance; totality is C02's subject
	}
	okSkip, _, _ := m.decode(b.Type, mu.data, skipCfg())
	if okSkip {
		c.Count("decodable_without_validation_"+mu.class, 1)
		hh := fnv.New64a()
		hh.Write(mu.data)
		c.Distinct(hh.Sum64())
	} else {
		c.Count("malformed_"+mu.class, 1)
	}
	report := func(kind string, cv *cfgVariant, e *entry, what string) {
		wit := map[string]any{"block": b.Name, "block_type": b.Type, "class": mu.class, "region": mu.region, "mutation": mu.desc,
			"entry": e.name, "config": cv.name, "config_fields_set": cv.full}
		if len(mu.data) <= 8192 {
			wit["input_hex"] = core.HexFull(mu.data)
		} else {
			wit["input_hex_prefix"] = core.Hex(mu.data)
			wit["reproduce"] = "apply `mutation` to corpus block `block`"
		}
		key := fmt.Sprintf("C34:%s:%s:%s:%s", kind, typeNames[b.Type], mu.class, mu.region)
		if cv.name != "default" {
			key += ":cfg=" + cv.name
		}
		if e.name != "NewBlockFromCbor" {
			key += ":via=" + e.name
		}
		c.Violation(key, what, wit)
	}
	if ok && !mu.ssc {
		c.Count("accepted_mutants", 1)
		report("accepted", &m.cfgs[0], &m.entries[0],
			fmt.Sprintf("NewBlockFromCbor(validation on) accepted a %s block whose %s differs from the original (%s, %s)", typeNames[b.Type], mu.region, mu.class, mu.desc))
	} else if !ok {
		c.Count("rejected", 1)
	}
	if mu.ssc {
		if ok {
			c.Count("ssc_tamper_accepted_default_config(not judged)", 1)
		} else {
			c.Count("ssc_tamper_rejected_default_config", 1)
		}
	}
	// every other (configuration, entry point) pair; one report per mutant
	// (the first accepting pair, minimal configuration first)
	reported := ok && !mu.ssc
	for _, pr := range m.pairs(b.Type, &mu, index) {
		cv, e := &m.cfgs[pr[0]], &m.entries[pr[1]]
		c.Count("config_entry_runs", 1)
		c.Count("runs_cfg_"+cv.name, 1)
		c.Count("runs_via_"+e.name, 1)
		okc, _, pc := m.try(e, b.Type, mu.data, cv.cfg)
		if pc || !okc {
			if mu.ssc && cv.ssc {
				c.Count("ssc_tamper_rejected_full_ssc_config", 1)
			}
			continue
		}
		if reported {
			c.Count("accepted_mutants", 1)
			continue
		}
		reported = true
		switch {
		case !mu.ssc:
			c.Count("accepted_mutants", 1)
			report("accepted", cv, e, fmt.Sprintf("%s under config %s accepted a %s block whose %s differs from what the header commits to (%s, %s)",
				e.name, cv.name, typeNames[b.Type], mu.region, mu.class, mu.desc))
		case !ok:
			// options only ever add checks: rejected by default => rejected under every validation-on config
			report("non-monotonic", cv, e, fmt.Sprintf("%s rejects this %s block under the default config but accepts it under %s (%s, %s)",
				e.name, typeNames[b.Type], cv.name, mu.region, mu.desc))
		case !cv.ssc:
			reported = false // accepted by default and by this config alike: not judged
		case cv.ssc:
			c.Count("ssc_tamper_accepted_full_ssc_config", 1)
			report("accepted-ssc", cv, e, fmt.Sprintf("%s with EnableByronSscProofHashValidation accepted a block whose %s differs from the header's ssc_proof (%s, %s)",
				e.name, mu.region, mu.class, mu.desc))
		}
	}
}

// fixBodyHash replaces, inside the header, the byte string equal to oldHash
// by newHash. Returns false when it is not found exactly once.
func fixBodyHash(header *cborx.Node, oldHash, newHash []byte) bool {
	n := 0
	header.Walk(func(x *cborx.Node) {
		if x.Kind == cborx.Bytes && x.Form != cborx.FormIndef && bytes.Equal(x.Data, oldHash) {
			x.Data = newHash
			n++
		}
	})
	return n == 1
}

func h256(b []byte) []byte { s := blake2b.Sum256(b); return s[:] }

func run(c *core.Ctx) {
	m := &mon{c: c, entries: entryPoints()}
	var boolFields []string
	m.cfgs, boolFields = allConfigs()
	c.Note("verify_config_bool_fields", boolFields)
	c.Note("validation_on_configs", len(m.cfgs))
	if len(m.cfgs) == 0 || m.cfgs[0].name != "default" {
		c.Inconclusive("VerifyConfig has no SkipBodyHashValidation field any more: the configuration matrix cannot be built")
		return
	}
	blocks := corpus.MustBlocks(c.RepoDir)

	// generated Dijkstra block with transactions and an independently computed body hash
	for _, b := range blocks {
		if b.Type != corpus.TypeDijkstra {
			continue
		}
		dtx, err := corpus.DijkstraTx(c.RepoDir)
		if err != nil {
			break
		}
		root, e1 := cborx.ParseExact(b.Cbor)
		txn, e2 := cborx.ParseExact(dtx)
		if e1 != nil || e2 != nil || len(root.Items) != 2 || txn.Kind != cborx.Array || len(txn.Items) < 3 {
			break
		}
		t := root.Clone()
		oldHash := h256(root.Items[1].Slice(b.Cbor))
		tx := cborx.A(txn.Items[0].Clone(), txn.Items[1].Clone(), txn.Items[len(txn.Items)-1].Clone())
		arr := cborx.A(tx, tx.Clone())
		if t.Items[1].Items[1].Form == cborx.FormIndef {
			arr.Form = cborx.FormIndef
		}
		t.Items[1].Items[1] = arr
		newHash := h256(t.Items[1].Encode())
		if fixBodyHash(t.Items[0], oldHash, newHash) {
			blocks = append(blocks, corpus.Block{Name: "dijkstra_gen_w30tx", Type: corpus.TypeDijkstra, Cbor: t.Encode()})
		} else {
			c.Count("generated_dijkstra_skipped", 1)
		}
		break
	}

	type job struct {
		b  *corpus.Block
		mu mutant
	}
	var jobs []job
	nBytes := c.N(450, 0) // sampled offsets per block in quick; 0 = every offset
	valuesPer := c.N(2, 6)
	perClassReenc := c.N(3, 40)

	for bi := range blocks {
		b := &blocks[bi]
		// (1) the real block decodes
		c.Eval()
		c.Journal("C34 original block=%s", b.Name)
		ok, err, p := m.decode(b.Type, b.Cbor)
		if p || !ok {
			c.Violation("C34:original-rejected:"+b.Name, fmt.Sprintf("block %s does not decode with validation on: %v (panic=%v)", b.Name, err, p),
				map[string]any{"block": b.Name, "block_type": b.Type})
			continue
		}
		c.Count("originals_accepted", 1)
		c.Distinct("original", b.Name)
		// ... through every entry point under every validation-on configuration
		for ci := range m.cfgs {
			for ei := range m.entries {
				cv, e := &m.cfgs[ci], &m.entries[ei]
				if !e.applies(b.Type) || (ci == 0 && ei == 0) || (e.cfgFree && ci != 0) {
					continue
				}
				c.Eval()
				oko, erro, po := m.try(e, b.Type, b.Cbor, cv.cfg)
				if !oko {
					c.Violation(fmt.Sprintf("C34:original-rejected:%s:cfg=%s:via=%s", b.Name, cv.name, e.name),
						fmt.Sprintf("block %s is refused by %s under config %s (%s): %v (panic=%v)", b.Name, e.name, cv.name, cv.full, erro, po),
						map[string]any{"block": b.Name, "block_type": b.Type, "entry": e.name, "config": cv.name, "config_fields_set": cv.full})
				} else {
					c.Count("originals_accepted_other_config_or_entry", 1)
				}
			}
		}
		root, err := cborx.ParseExact(b.Cbor)
		if err != nil || !bytes.Equal(root.Encode(), b.Cbor) {
			c.Inconclusive("cborx self-check failed on " + b.Name)
			continue
		}
		lay, err := blockx.AnalyzeNode(b.Type, b.Cbor, root)
		if err != nil {
			c.Inconclusive("blockx cannot analyse " + b.Name + ": " + err.Error())
			continue
		}
		regs := regionsOf(lay)
		if len(regs) == 0 {
			continue // EBB
		}
		origCommitted := committed(lay)
		r := c.Rand("plan", b.Name)

		// (2) single-byte substitutions
		var offsets []int
		regOf := map[int]string{}
		for _, rg := range regs {
			for o := rg.node.Start; o < rg.node.End; o++ {
				offsets = append(offsets, o)
				regOf[o] = rg.name
			}
		}
		pick := offsets
		if nBytes > 0 && len(offsets) > nBytes {
			pick = nil
			// always the first and last byte of every region, then PRNG picks
			seen := map[int]bool{}
			for _, rg := range regs {
				for _, o := range []int{rg.node.Start, rg.node.End - 1} {
					if !seen[o] {
						seen[o] = true
						pick = append(pick, o)
					}
				}
			}
			for len(pick) < nBytes {
				o := offsets[r.Intn(len(offsets))]
				if !seen[o] {
					seen[o] = true
					pick = append(pick, o)
				}
			}
		}
		for _, o := range pick {
			old := b.Cbor[o]
			vals := map[byte]bool{}
			vals[old^1] = true
			vals[old^0x80] = true
			for len(vals) < valuesPer+1 {
				v := byte(r.Intn(256))
				if v != old {
					vals[v] = true
				}
			}
			cnt := 0
			for v := 0; v < 256 && cnt < valuesPer; v++ {
				if !vals[byte(v)] {
					continue
				}
				cnt++
				d := append([]byte(nil), b.Cbor...)
				d[o] = byte(v)
				jobs = append(jobs, job{b, mutant{class: "byte", region: regOf[o], desc: fmt.Sprintf("byte %d: %02x -> %02x", o, old, v), data: d}})
			}
		}

		// (2b) the commitments in the header: body untouched, proof field changed
		hdrMut := func(region, desc string, ssc bool, edit func(t *cborx.Node) bool) {
			t := root.Clone()
			if !edit(t) {
				c.Count("header_proof_field_not_found_"+region, 1)
				return
			}
			d := t.Encode()
			if bytes.Equal(d, b.Cbor) {
				return
			}
			jobs = append(jobs, job{b, mutant{class: "header-proof", region: region, desc: desc, data: d, ssc: ssc}})
		}
		flipIn := func(n *cborx.Node, k int) bool {
			if n == nil || n.Kind != cborx.Bytes || n.Form == cborx.FormIndef || len(n.Data) == 0 {
				return false
			}
			d := append([]byte(nil), n.Data...)
			d[k%len(d)] ^= 0x01
			n.Data = d
			return true
		}
		switch {
		case b.Type == corpus.TypeByronMain:
			// header = [magic, prev, body_proof, consensus, extra]; body_proof = [[count, merkle, wit_hash], ssc_proof, dlg_hash, upd_hash]
			proofOf := func(t *cborx.Node) *cborx.Node { return t.At(0, 2) }
			if pr := proofOf(root); pr != nil && pr.Kind == cborx.Array && len(pr.Items) == 4 && pr.Items[0].Kind == cborx.Array && len(pr.Items[0].Items) == 3 {
				hdrMut("hdr.txcount", "tx_proof count + 1", false, func(t *cborx.Node) bool {
					n := proofOf(t).Items[0].Items[0]
					if n.Kind != cborx.Uint {
						return false
					}
					n.Arg++
					return true
				})
				for _, k := range []int{0, 13, 31} {
					k := k
					hdrMut("hdr.txmerkle", fmt.Sprintf("tx_proof merkle root byte %d ^= 1", k), false, func(t *cborx.Node) bool { return flipIn(proofOf(t).Items[0].Items[1], k) })
					hdrMut("hdr.txwit", fmt.Sprintf("tx_proof witnesses hash byte %d ^= 1", k), false, func(t *cborx.Node) bool { return flipIn(proofOf(t).Items[0].Items[2], k) })
					hdrMut("hdr.dlg", fmt.Sprintf("dlg_proof byte %d ^= 1", k), false, func(t *cborx.Node) bool { return flipIn(proofOf(t).Items[2], k) })
					hdrMut("hdr.upd", fmt.Sprintf("upd_proof byte %d ^= 1", k), false, func(t *cborx.Node) bool { return flipIn(proofOf(t).Items[3], k) })
				}
				// every byte string inside ssc_proof
				sp := proofOf(root).Items[1]
				for ord, n := range sp.Nodes() {
					if n.Kind != cborx.Bytes || len(n.StringData()) == 0 {
						continue
					}
					ord := ord
					hdrMut("hdr.ssc", fmt.Sprintf("ssc_proof item #%d byte 5 ^= 1", ord), true, func(t *cborx.Node) bool { return flipIn(proofOf(t).Items[1].Nodes()[ord], 5) })
				}
			} else {
				c.Count("byron_body_proof_shape_unexpected", 1)
			}
			// ssc payload bytes (not among the default commitments of the statement)
			sscN := lay.ByronSsc
			nSsc := c.N(150, sscN.End-sscN.Start)
			seenS := map[int]bool{}
			for len(seenS) < nSsc && len(seenS) < sscN.End-sscN.Start {
				o := sscN.Start + r.Intn(sscN.End-sscN.Start)
				if seenS[o] {
					continue
				}
				seenS[o] = true
				old := b.Cbor[o]
				for _, v := range []byte{old ^ 1, byte(r.Intn(256))} {
					if v == old {
						continue
					}
					d := append([]byte(nil), b.Cbor...)
					d[o] = v
					jobs = append(jobs, job{b, mutant{class: "byte", region: "byron.ssc", desc: fmt.Sprintf("byte %d: %02x -> %02x", o, old, v), data: d, ssc: true}})
				}
			}
		default:
			// the header's body hash, located by its independently computed value
			var want []byte
			if lay.Split {
				var cat []byte
				for _, sg := range lay.Segments {
					cat = append(cat, h256(sg.Slice(b.Cbor))...)
				}
				want = h256(cat)
			} else if lay.DjBody != nil {
				want = h256(lay.DjBody.Slice(b.Cbor))
			}
			for _, k := range []int{0, 13, 31} {
				k := k
				hdrMut("hdr.bodyhash", fmt.Sprintf("header block_body_hash byte %d ^= 1", k), false, func(t *cborx.Node) bool {
					found := 0
					t.Items[0].Walk(func(x *cborx.Node) {
						if found == 0 && x.Kind == cborx.Bytes && x.Form != cborx.FormIndef && bytes.Equal(x.Data, want) {
							found++
							flipIn(x, k)
						}
					})
					return found == 1
				})
			}
		}

		// (3) re-encodings of containers inside the committed regions
		inRegion := func(n *cborx.Node) string {
			for _, rg := range regs {
				if n.Start >= rg.node.Start && n.End <= rg.node.End {
					return rg.name
				}
			}
			return ""
		}
		byClass := map[string][]blockx.Classified{}
		var classNames []string
		for _, cl := range lay.Classes() {
			if inRegion(cl.Node) == "" {
				continue
			}
			if _, ok := byClass[cl.Class]; !ok {
				classNames = append(classNames, cl.Class)
			}
			byClass[cl.Class] = append(byClass[cl.Class], cl)
		}
		for _, name := range classNames {
			list := byClass[name]
			idx := map[int]bool{0: true, len(list) - 1: true}
			for len(idx) < perClassReenc && len(idx) < len(list) {
				idx[r.Intn(len(list))] = true
			}
			for i := range list {
				if !idx[i] {
					continue
				}
				for _, f := range blockx.OtherForms(list[i].Node) {
					t := root.Clone()
					t.Nodes()[list[i].Ord].SetForm(f)
					jobs = append(jobs, job{b, mutant{class: "reencode", region: inRegion(list[i].Node),
						desc: fmt.Sprintf("container #%d (%s) header form -> %s", list[i].Ord, name, f), data: t.Encode()}})
				}
			}
		}

		// (4) structural edits
		add := func(class, region, desc string, t *cborx.Node) {
			d := t.Encode()
			if bytes.Equal(d, b.Cbor) {
				return
			}
			// keep only mutants whose committed bytes really differ
			if nl, err := blockx.Analyze(b.Type, d); err == nil && bytes.Equal(committed(nl), origCommitted) {
				c.Count("structural_same_body_skipped", 1)
				return
			}
			jobs = append(jobs, job{b, mutant{class: class, region: region, desc: desc, data: d}})
		}
		keepForm := func(n *cborx.Node) {
			if n.Form != cborx.FormIndef {
				n.Form = cborx.FormMinimal
			}
		}
		nTx := len(lay.Txs)
		switch {
		case lay.Split:
			for k := 0; k < nTx && k < c.N(4, nTx); k++ {
				i, j := k, (k+1+r.Intn(max(nTx-1, 1)))%max(nTx, 1)
				if nTx >= 2 && i != j {
					t := root.Clone()
					t.Items[1].Items[i], t.Items[1].Items[j] = t.Items[1].Items[j], t.Items[1].Items[i]
					t.Items[2].Items[i], t.Items[2].Items[j] = t.Items[2].Items[j], t.Items[2].Items[i]
					add("swap", "bodies", fmt.Sprintf("swap transactions %d and %d (bodies and witness sets)", i, j), t)
					t2 := root.Clone()
					t2.Items[2].Items[i], t2.Items[2].Items[j] = t2.Items[2].Items[j], t2.Items[2].Items[i]
					add("swap", "witnesses", fmt.Sprintf("swap witness sets %d and %d only", i, j), t2)
				}
				t := root.Clone()
				t.Items[1].Items = append(append([]*cborx.Node{}, t.Items[1].Items[:k]...), t.Items[1].Items[k+1:]...)
				t.Items[2].Items = append(append([]*cborx.Node{}, t.Items[2].Items[:k]...), t.Items[2].Items[k+1:]...)
				keepForm(t.Items[1])
				keepForm(t.Items[2])
				add("drop", "bodies", fmt.Sprintf("drop transaction %d (body and witness set)", k), t)
				t = root.Clone()
				t.Items[1].Items = append(t.Items[1].Items, t.Items[1].Items[k].Clone())
				t.Items[2].Items = append(t.Items[2].Items, t.Items[2].Items[k].Clone())
				keepForm(t.Items[1])
				keepForm(t.Items[2])
				add("dup", "bodies", fmt.Sprintf("append a copy of transaction %d", k), t)
			}
			// auxiliary data map: drop an entry, move an entry to another index
			if am := lay.AuxMap; am != nil && len(am.Items) >= 2 {
				for e := 0; e+1 < len(am.Items) && e < 2*c.N(3, 1000); e += 2 {
					t := root.Clone()
					t.Items[3].Items = append(append([]*cborx.Node{}, t.Items[3].Items[:e]...), t.Items[3].Items[e+2:]...)
					keepForm(t.Items[3])
					add("aux-entry", "aux", fmt.Sprintf("drop auxiliary data entry for transaction %d", am.Items[e].Arg), t)
					if nTx >= 2 {
						t = root.Clone()
						used := map[uint64]bool{}
						for q := 0; q < len(am.Items); q += 2 {
							used[am.Items[q].Arg] = true
						}
						for cand := uint64(0); cand < uint64(nTx); cand++ {
							if !used[cand] {
								t.Items[3].Items[e] = cborx.U(cand)
								add("aux-entry", "aux", fmt.Sprintf("move auxiliary data of transaction %d to transaction %d", am.Items[e].Arg, cand), t)
								break
							}
						}
					}
				}
			}
			if nTx >= 1 {
				// attach auxiliary data to a transaction that has none is a body change as well
				t := root.Clone()
				used := map[uint64]bool{}
				for q := 0; q+1 < len(lay.AuxMap.Items); q += 2 {
					used[lay.AuxMap.Items[q].Arg] = true
				}
				for cand := uint64(0); cand < uint64(nTx); cand++ {
					if !used[cand] {
						t.Items[3].Items = append(t.Items[3].Items, cborx.U(cand), cborx.M(cborx.U(1), cborx.S("x")))
						keepForm(t.Items[3])
						add("aux-entry", "aux", fmt.Sprintf("add metadata {1:\"x\"} for transaction %d", cand), t)
						break
					}
				}
			}
			// invalid transaction list (Alonzo+): the 5th element
			if lay.Invalid != nil && lay.Invalid.Kind == cborx.Array && nTx >= 1 {
				listed := map[uint64]bool{}
				for _, it := range lay.Invalid.Items {
					listed[it.Arg] = true
				}
				for cand := 0; cand < nTx && cand < c.N(4, nTx); cand++ {
					if listed[uint64(cand)] {
						continue
					}
					t := root.Clone()
					t.Items[4].Items = append(t.Items[4].Items, cborx.U(uint64(cand)))
					keepForm(t.Items[4])
					add("invalid-list", "invalid", fmt.Sprintf("mark transaction %d invalid", cand), t)
				}
				for q := range lay.Invalid.Items {
					t := root.Clone()
					t.Items[4].Items = append(append([]*cborx.Node{}, t.Items[4].Items[:q]...), t.Items[4].Items[q+1:]...)
					keepForm(t.Items[4])
					add("invalid-list", "invalid", fmt.Sprintf("remove index %d from the invalid list", lay.Invalid.Items[q].Arg), t)
				}
			}
		case b.Type == corpus.TypeDijkstra:
			txs := func(t *cborx.Node) *cborx.Node { return t.Items[1].Items[1] }
			for k := 0; k < nTx; k++ {
				t := root.Clone()
				x := txs(t)
				x.Items = append(append([]*cborx.Node{}, x.Items[:k]...), x.Items[k+1:]...)
				keepForm(x)
				add("drop", "dj.body", fmt.Sprintf("drop transaction %d", k), t)
				t = root.Clone()
				x = txs(t)
				x.Items = append(x.Items, x.Items[k].Clone())
				keepForm(x)
				add("dup", "dj.body", fmt.Sprintf("append a copy of transaction %d", k), t)
			}
			if nTx >= 1 {
				t := root.Clone()
				t.Items[1].Items[0] = cborx.A(cborx.U(0))
				add("invalid-list", "dj.body", "invalid_transactions nil -> [0]", t)
			}
			t := root.Clone()
			t.Items[1].Items[3] = cborx.B([]byte{1, 2, 3})
			add("dj-cert", "dj.body", "peras_certificate -> h'010203'", t)
		case b.Type == corpus.TypeByronMain:
			pay := func(t *cborx.Node) *cborx.Node { return t.Items[1].Items[0] }
			for k := 0; k < nTx; k++ {
				t := root.Clone()
				x := pay(t)
				x.Items = append(append([]*cborx.Node{}, x.Items[:k]...), x.Items[k+1:]...)
				keepForm(x)
				add("drop", "byron.txbody", fmt.Sprintf("drop transaction %d", k), t)
				t = root.Clone()
				x = pay(t)
				x.Items = append(x.Items, x.Items[k].Clone())
				keepForm(x)
				add("dup", "byron.txbody", fmt.Sprintf("append a copy of transaction %d", k), t)
				if k+1 < nTx {
					t = root.Clone()
					x = pay(t)
					x.Items[k], x.Items[k+1] = x.Items[k+1], x.Items[k]
					add("swap", "byron.txbody", fmt.Sprintf("swap transactions %d and %d", k, k+1), t)
					t = root.Clone()
					x = pay(t)
					x.Items[k].Items[1], x.Items[k+1].Items[1] = x.Items[k+1].Items[1], x.Items[k].Items[1]
					add("swap", "byron.witness", fmt.Sprintf("swap the witness lists of transactions %d and %d", k, k+1), t)
				}
			}
			// delegation payload: switch between the two empty-array encodings / add an element
			dl := lay.ByronDlg
			if dl.Kind == cborx.Array {
				t := root.Clone()
				d := t.Items[1].Items[2]
				if len(d.Items) > 0 {
					d.Items = d.Items[1:]
					keepForm(d)
					add("byron-dlg", "byron.dlg", "drop the first delegation certificate", t)
					t = root.Clone()
					d = t.Items[1].Items[2]
					d.Items = append(d.Items, d.Items[0].Clone())
					keepForm(d)
					add("byron-dlg", "byron.dlg", "duplicate the first delegation certificate", t)
				} else {
					if d.Form == cborx.FormIndef {
						d.Form = cborx.FormDirect
					} else {
						d.Form = cborx.FormIndef
					}
					add("byron-dlg", "byron.dlg", "empty delegation payload in the other array form", t)
				}
			}
			// update payload [proposal?, votes]: votes list in the other form / extra vote
			up := lay.ByronUpd
			if up.Kind == cborx.Array && len(up.Items) == 2 && up.Items[1].Kind == cborx.Array {
				t := root.Clone()
				v := t.Items[1].Items[3].Items[1]
				if len(v.Items) > 0 {
					v.Items = v.Items[1:]
					keepForm(v)
					add("byron-upd", "byron.upd", "drop the first update vote", t)
					t = root.Clone()
					v = t.Items[1].Items[3].Items[1]
					v.Items = append(v.Items, v.Items[0].Clone())
					keepForm(v)
					add("byron-upd", "byron.upd", "duplicate the first update vote", t)
				} else {
					if v.Form == cborx.FormIndef {
						v.Form = cborx.FormDirect
					} else {
						v.Form = cborx.FormIndef
					}
					add("byron-upd", "byron.upd", "empty vote list in the other array form", t)
				}
			}
		}
	}

	for i := range jobs {
		mu := &jobs[i].mu
		byronMain := jobs[i].b.Type == corpus.TypeByronMain
		switch {
		case byronMain && (mu.class != "byte" || (mu.region != "byron.txbody" && mu.region != "byron.witness")) || c.Thorough() && byronMain:
			// Byron body-proof checking depends on the options: full matrix for
			// every payload / header-proof / structural tamper
			mu.full = true
		case byronMain:
			mu.npairs = 8
		case mu.class != "byte":
			mu.npairs = c.N(3, 16)
		default:
			mu.npairs = 1
		}
	}
	c.Parallel("mutant", len(jobs), 0, func(i int, _ *core.Rand) {
		if i%997 == 0 {
			j := jobs[i]
			c.Sample(map[string]any{"block": j.b.Name, "class": j.mu.class, "region": j.mu.region, "mutation": j.mu.desc, "len": len(j.mu.data)})
		}
		m.judge(jobs[i].b, jobs[i].mu, i)
	})
	c.Note("blocks", len(blocks))
	if c.Counter("originals_accepted") == 0 {
		c.Inconclusive("no original block was accepted: the accept side of the property was not observed")
	}
	if c.Counter("rejected") == 0 {
		c.Inconclusive("no mutant was rejected")
	}
	if c.Thorough() {
		c.Note("byte_offsets", "every offset of every committed region")
	}
}
