//go:build only_c32

package mon

import _ "verifharness/mon/c32"
