// Package c24 monitors C24: tx-submission keeps its acknowledgement window
// consistent.
//
// Inbound engine. A real tx-submission Server (taken from a real
// ouroboros.NewConnection in server / node-to-node mode) is driven through its
// RequestTxIds / RequestTxs API by a 200-call history from the PRNG. The remote
// end is the raw peer (package rawpeer): it completes the handshake by hand,
// sends MsgInit, parses every MsgRequestTxIds off the wire with cborx and
// answers with a scripted number of ids (0..70000), MsgDone to some blocking
// requests, or bodies for MsgRequestTxs. The oracle keeps the running counters
// of the statement on the wire side,
//
//	unacked := (ids sent in replies) - (acks seen)     (reset by MsgDone)
//	every request:  0 <= ack <= 65535,  0 <= req <= 65535,  ack <= unacked
//
// and on the API side: a call whose count is outside 0..65535 must return an
// error and nothing may reach the wire; a call that returns an error without
// the protocol having ended must not have sent anything either.
//
// Outbound engine. A real tx-submission Client (ouroboros.NewConnection,
// initiator) is fed scripted MsgRequestTxIds by the raw peer. After a number
// of valid rounds the session ends with one terminal event: a request whose
// ack and/or req is encoded above 65535 (must not be answered and must not
// reach the application callback), the ErrStopServerProcess sentinel returned
// to a blocking request (MsgDone may follow) or to a non-blocking request
// (must end in an error: no MsgDone on the wire, and the client must not even
// hand a MsgDone to its protocol layer in that state - seen through the verif
// "trans" trace event).  MsgDone anywhere else is a violation.
//
// No verdict depends on time; the only clocks are the per-case watchdog whose
// firing makes the case inconclusive.
package c24

import (
	"encoding/binary"
	"errors"
	"fmt"
	"hash/fnv"
	"math"
	"math/big"
	"os"
	"runtime"
	"strings"
	"sync"
	"sync/atomic"
	"time"

	ouroboros "github.com/blinklabs-io/gouroboros"
	"github.com/blinklabs-io/gouroboros/protocol"
	"github.com/blinklabs-io/gouroboros/protocol/txsubmission"

	"verifharness/cborx"
	"verifharness/core"
	"verifharness/rawpeer"
)

func init() {
	core.Register(&core.Monitor{
		ID:   "C24",
		Race: true,
		Rule: "inbound engine: histories of 200 API calls from the PRNG (RequestTxIds 76%: blocking 40%, count from {0,1,2,3,7,20,100,1000,4096,32767,32768,65534,65535} or uniform in 0..65535; RequestTxIds with a count outside 0..65535 12%: negative, 65536.., values whose low 16 bits are small; RequestTxs 12%) on a real Server against a raw client that answers each request with a PRNG number of ids (0..10 70%, ..100 25%, ..1000 4%, ..3000 1%; one history in four gets one 3001..20000-id reply, quick case 0 one 32768-id reply, thorough one case in sixteen one 65535/65534-id reply or one 65536..70000-id reply late in the history - each of those costs tens of CPU seconds in the receive path under the race detector -, always to a blocking request; MsgDone to 5% of the blocking requests, followed by a fresh MsgInit on the same Server object - a new session whose window starts at 0; in half of the sessions InitFunc is held until the first request of that session is on the wire). Outbound engine: sessions of 0..40 (one in sixteen: 200) valid MsgRequestTxIds / MsgRequestTxs from a raw server to a real Client, then one terminal event by case index from {ack>65535, req>65535, both, stop sentinel to a blocking request (x2), stop sentinel to a non-blocking request (x2), none}, the sentinel wrapped with %w in a third of them. A case is non-trivial when requests were judged on the wire (inbound: >= 20 MsgRequestTxIds with a positive ack among them; outbound: at least one round or the terminal event); distinct by the hash of the script",
		MinNontrivial: 100,
		RaceAnchors: []string{
			"txsubmission.(*Server).RequestTxIds", "txsubmission.(*Server).handleDone",
			"txsubmission.(*Server).handleReplyTxIds", "txsubmission.(*Client).handleRequestTxIds",
		},
		Assumptions: []string{
			"the application calls RequestTxIds / RequestTxs from one goroutine that is (re)started from inside InitFunc: after a call returned ErrStopServerProcess it only calls again once the restarted protocol delivered the next MsgInit to InitFunc; in half of the sessions InitFunc itself returns only after the requester's first request of that session is on the wire (a slow callback), decided by events, not by time",
			"after MsgDone the raw client sends its next MsgInit only when the previous protocol instance reported done (otherwise the muxer may see the segment while protocol 4 is unregistered, which is another property's subject)",
			"MsgDone ends the acknowledgement window: unacked restarts at 0 with the next MsgInit",
			"tx-submission state timeouts are disabled through the exported txsubmission.StateMap (time is not this property's subject); a case cut short by the watchdog is inconclusive",
			"negative counts and non-minimal encodings of in-range counts in requests to the client are observed, not judged",
		},
		QuickTimeout:    900,
		ThoroughTimeout: 4 * 3600,
		Run:             run,
	})
}

const (
	netMagic     = uint32(764824073)
	protoTx      = uint16(4)
	caseWatchdog = 300 * time.Second
	maxCount     = 65535
)

// ---------------------------------------------------------------- trace sink

// doneTrans: *protocol.Protocol -> name of the state in which a tx-submission
// client asked its state machine to send MsgDone.
var doneTrans sync.Map

func installSink() {
	protocol.VerifSetSink(func(ev protocol.VerifEvent) {
		if ev.Kind != "trans" || ev.ProtocolId != protoTx || ev.Role != protocol.ProtocolRoleClient ||
			ev.MsgType != txsubmission.MessageTypeDone {
			return
		}
		doneTrans.Store(ev.Proto, ev.From.Name)
	})
}

// ---------------------------------------------------------------- helpers

func highestNtN() uint64 {
	vs := protocol.GetProtocolVersionsNtN()
	return uint64(vs[len(vs)-1])
}

func appendHead(b []byte, major byte, v uint64) []byte {
	switch {
	case v < 24:
		return append(b, major<<5|byte(v))
	case v <= 0xff:
		return append(b, major<<5|24, byte(v))
	case v <= 0xffff:
		return append(b, major<<5|25, byte(v>>8), byte(v))
	case v <= 0xffffffff:
		return append(b, major<<5|26, byte(v>>24), byte(v>>16), byte(v>>8), byte(v))
	}
	var t [8]byte
	binary.BigEndian.PutUint64(t[:], v)
	return append(append(b, major<<5|27), t[:]...)
}

// txID: 32 bytes naming (history tag, reply index, position).
func txID(tag uint64, reply, pos int) [32]byte {
	var id [32]byte
	binary.BigEndian.PutUint64(id[0:], tag)
	binary.BigEndian.PutUint64(id[8:], uint64(reply))
	binary.BigEndian.PutUint64(id[16:], uint64(pos))
	return id
}

// encodeReplyTxIds hand-encodes [1, [ [[era, id], size] * n ]].
func encodeReplyTxIds(tag uint64, reply, n int, indef bool) []byte {
	b := make([]byte, 0, 16+n*44)
	b = append(b, 0x82, 0x01)
	if indef {
		b = append(b, 0x9f)
	} else {
		b = appendHead(b, 4, uint64(n))
	}
	for j := 0; j < n; j++ {
		id := txID(tag, reply, j)
		b = append(b, 0x82, 0x82, 0x06, 0x58, 0x20)
		b = append(b, id[:]...)
		b = appendHead(b, 0, uint64(200+j%4000))
	}
	if indef {
		b = append(b, 0xff)
	}
	return b
}

// encodeReplyTxs hand-encodes [3, [_ [era, 24(h'body')] * n ]].
func encodeReplyTxs(n int) []byte {
	b := []byte{0x82, 0x03, 0x9f}
	for j := 0; j < n; j++ {
		b = append(b, 0x82, 0x06, 0xd8, 0x18, 0x44, 0x84, 0xa0, 0xa0, byte(j))
	}
	return append(b, 0xff)
}

func asCount(n *cborx.Node) (*big.Int, bool) {
	if n == nil || (n.Kind != cborx.Uint && n.Kind != cborx.Nint) {
		return nil, false
	}
	return n.Int()
}

func isBool(n *cborx.Node) (bool, bool) {
	if n != nil && n.Kind == cborx.Simple && n.Form == cborx.FormDirect && (n.Arg == 20 || n.Arg == 21) {
		return n.Arg == 21, true
	}
	return false, false
}

type finding struct {
	Key, What string
	Extra     map[string]any
}

func hashOf(parts ...any) uint64 {
	h := fnv.New64a()
	for _, p := range parts {
		fmt.Fprintf(h, "%v|", p)
	}
	return h.Sum64()
}

// ================================================================= inbound

type apiOp struct {
	Kind     string `json:"kind"` // ids | txs
	Blocking bool   `json:"blocking,omitempty"`
	Req      int    `json:"req"`
	// what the raw client answers when this call's request arrives
	ReplyN int  `json:"reply_ids"`
	Indef  bool `json:"reply_indefinite,omitempty"`
	Done   bool `json:"reply_done,omitempty"`
}

type inScript struct {
	Ops     []apiOp
	Special string
	Tag     uint64
}

var validCounts = []int{0, 1, 2, 3, 7, 20, 100, 1000, 4096, 32767, 32768, 65534, 65535}
var invalidCounts = []int{-1, -2, -65535, -65536, math.MinInt32, math.MinInt64, 65536, 65537, 70000,
	1<<16 + 7, 1 << 17, 1 << 20, 1<<31 - 1, 1 << 31, 1 << 32, 1<<32 + 5, 1<<48 + 3, math.MaxInt64}

// genInbound: the reply to a request is planned with the API call that causes
// it. Replies above 3000 ids are only given to blocking requests (the
// TxIdsBlocking state has no timeout; decoding a 2.6 MB reply under the race
// detector can take longer than the 10 s the non-blocking state allows).
func genInbound(r *core.Rand, rounds int, special int, quick bool) *inScript {
	s := &inScript{Tag: r.Uint64()}
	for j := 0; j < rounds; j++ {
		var op apiOp
		x := r.Intn(100)
		switch {
		case x < 12:
			op = apiOp{Kind: "txs", Req: r.Range(1, 3)}
		case x < 24:
			op = apiOp{Kind: "ids", Blocking: r.Bool(), Req: core.Pick(r, invalidCounts)}
		default:
			req := core.Pick(r, validCounts)
			if r.Chance(1, 3) {
				req = r.Intn(65536)
			}
			op = apiOp{Kind: "ids", Blocking: r.Chance(2, 5), Req: req}
		}
		switch y := r.Intn(100); {
		case y < 70:
			op.ReplyN = r.Range(0, 10)
		case y < 95:
			op.ReplyN = r.Range(11, 100)
		case y < 99:
			op.ReplyN = r.Range(101, 1000)
		default:
			op.ReplyN = r.Range(1001, 3000)
		}
		op.Indef = r.Chance(2, 3)
		op.Done = op.Kind == "ids" && op.Blocking && r.Chance(1, 20)
		s.Ops = append(s.Ops, op)
	}
	force := func(j, n int) {
		s.Ops[j] = apiOp{Kind: "ids", Blocking: true, Req: core.Pick(r, []int{1, 100, 65535}), ReplyN: n, Indef: r.Bool()}
	}
	switch special {
	case 0: // a reply that makes the next acknowledgement the legal maximum
		if quick {
			s.Special = "reply-32768"
			force(r.Range(2, rounds/2), 32768)
		} else {
			s.Special = "reply-65535"
			force(r.Range(2, rounds/2), core.Pick(r, []int{65535, 65535, 65534}))
		}
	case 1: // a reply with more ids than one acknowledgement can carry
		s.Special = "reply-above-65535"
		force(r.Range(rounds/2, rounds*8/10), core.Pick(r, []int{65536, 65537, 70000, r.Range(65536, 70000)}))
	case 2:
		s.Special = "reply-3001..20000"
		force(r.Range(2, rounds*8/10), r.Range(3001, 20000))
	default:
		s.Special = "none"
	}
	return s
}

type wireEntry struct {
	Idx      int    `json:"wire_index"`
	Kind     string `json:"kind"`
	Blocking bool   `json:"blocking,omitempty"`
	Ack      string `json:"ack,omitempty"`
	Req      string `json:"req,omitempty"`
	Unacked  int64  `json:"unacked_before"`
	Reply    string `json:"reply"`
	Hex      string `json:"request_hex"`
	ack, req int64
}

type rawClient struct {
	p      *rawpeer.Peer
	s      *inScript
	reinit chan struct{}
	stop   chan struct{}
	exited chan struct{}

	mu       sync.Mutex
	log      []wireEntry
	idsSeen  int
	txsSeen  int
	findings []finding
	unacked  int64
	sumIds   int64
	sumAck   int64
	posAcks  int
	maxAck   int64
	dones    int
	err      error
	lastN    int
	next     apiOp // reply plan of the API call in progress
	gate     *initGate
}

// initGate models an application whose InitFunc starts the requester and
// returns late: in the sessions marked late, InitFunc signals the requester
// (the harness goroutine) and is then held until the requester's first request
// of that session has reached the raw client, or the case is torn down. The
// decision is made by events only, never by time.
type initGate struct {
	mu   sync.Mutex
	late []bool
	n    int
	held int
	cur  chan struct{}
	stop chan struct{}
}

func (g *initGate) enter() chan struct{} {
	g.mu.Lock()
	defer g.mu.Unlock()
	k := g.n
	g.n++
	if k < len(g.late) && g.late[k] {
		g.held++
		g.cur = make(chan struct{})
		return g.cur
	}
	return nil
}

func (g *initGate) release() {
	g.mu.Lock()
	if g.cur != nil {
		close(g.cur)
		g.cur = nil
	}
	g.mu.Unlock()
}

func (rc *rawClient) plan(op apiOp) {
	rc.mu.Lock()
	rc.next = op
	rc.mu.Unlock()
}

func (rc *rawClient) add(key, what string) {
	rc.findings = append(rc.findings, finding{Key: key, What: what, Extra: map[string]any{"wire_log_tail": rc.tailLocked(12)}})
}

func (rc *rawClient) tailLocked(n int) []wireEntry {
	if len(rc.log) <= n {
		return append([]wireEntry(nil), rc.log...)
	}
	return append([]wireEntry(nil), rc.log[len(rc.log)-n:]...)
}

func (rc *rawClient) snapshot() (ids, txs int, last wireEntry) {
	rc.mu.Lock()
	defer rc.mu.Unlock()
	if len(rc.log) > 0 {
		last = rc.log[len(rc.log)-1]
	}
	return rc.idsSeen, rc.txsSeen, last
}

func (rc *rawClient) loop() {
	defer close(rc.exited)
	// leaving the loop (finding, error, stop) hangs up, so that an API call
	// waiting for a reply returns
	defer rc.p.Close()
	if err := rc.p.SendMsg(protoTx, cborx.A(cborx.U(txsubmission.MessageTypeInit))); err != nil {
		return
	}
	for {
		m, raw, err := rc.p.RecvMsg(protoTx)
		if err != nil {
			rc.mu.Lock()
			rc.err = err
			rc.mu.Unlock()
			return
		}
		if m.Kind != cborx.Array || len(m.Items) == 0 || m.Items[0].Kind != cborx.Uint {
			rc.mu.Lock()
			rc.add("C24:wire:not-a-message", fmt.Sprintf("the server sent %x on tx-submission, which is not a message", raw))
			rc.mu.Unlock()
			return
		}
		rc.gate.release() // a request of this session is on the wire
		switch m.Items[0].Arg {
		case txsubmission.MessageTypeRequestTxIds:
			if !rc.onIds(m, raw) {
				return
			}
		case txsubmission.MessageTypeRequestTxs:
			n := 0
			if len(m.Items) == 2 && m.Items[1].Kind == cborx.Array {
				n = len(m.Items[1].Items)
			}
			rc.mu.Lock()
			rc.txsSeen++
			rc.log = append(rc.log, wireEntry{Idx: len(rc.log), Kind: "txs", Unacked: rc.unacked, Reply: fmt.Sprintf("txs:%d", n), Hex: core.Hex(raw)})
			rc.mu.Unlock()
			if rc.p.Send(protoTx, encodeReplyTxs(n), 0) != nil {
				return
			}
		default:
			rc.mu.Lock()
			rc.add("C24:wire:unexpected-message", fmt.Sprintf("the server sent message type %d (%x) on tx-submission", m.Items[0].Arg, raw))
			rc.mu.Unlock()
			return
		}
	}
}

// onIds judges one MsgRequestTxIds and answers it. Returns false to stop.
func (rc *rawClient) onIds(m *cborx.Node, raw []byte) bool {
	rc.mu.Lock()
	k := rc.idsSeen
	rc.idsSeen++
	e := wireEntry{Idx: len(rc.log), Kind: "ids", Unacked: rc.unacked, Hex: core.Hex(raw)}
	blocking, okB := isBool(m.At(1))
	ack, okA := asCount(m.At(2))
	req, okR := asCount(m.At(3))
	if len(m.Items) != 4 || !okB || !okA || !okR {
		rc.log = append(rc.log, e)
		rc.add("C24:wire:malformed-request", fmt.Sprintf("MsgRequestTxIds %x is not [0, bool, int, int]", raw))
		rc.mu.Unlock()
		return false
	}
	e.Blocking, e.Ack, e.Req = blocking, ack.String(), req.String()
	lim := big.NewInt(maxCount)
	bad := false
	if ack.Sign() < 0 || ack.Cmp(lim) > 0 {
		rc.log = append(rc.log, e)
		rc.add("C24:wire:ack-out-of-range", fmt.Sprintf("request #%d carries ack=%s, outside 0..65535", k, ack))
		bad = true
	}
	if req.Sign() < 0 || req.Cmp(lim) > 0 {
		if !bad {
			rc.log = append(rc.log, e)
		}
		rc.add("C24:wire:req-out-of-range", fmt.Sprintf("request #%d carries req=%s, outside 0..65535", k, req))
		bad = true
	}
	if bad {
		rc.mu.Unlock()
		return false
	}
	e.ack, e.req = ack.Int64(), req.Int64()
	if e.ack > rc.unacked {
		rc.log = append(rc.log, e)
		rc.add("C24:wire:ack-exceeds-unacked",
			fmt.Sprintf("request #%d acknowledges %d ids but only %d ids were received and not yet acknowledged (received %d, acknowledged before %d; previous reply had %d ids)",
				k, e.ack, rc.unacked, rc.sumIds, rc.sumAck, rc.lastN))
		rc.mu.Unlock()
		return false
	}
	rc.unacked -= e.ack
	rc.sumAck += e.ack
	if e.ack > 0 {
		rc.posAcks++
	}
	if e.ack > rc.maxAck {
		rc.maxAck = e.ack
	}
	done := blocking && rc.next.Done
	n := rc.next.ReplyN
	if !blocking && n > 3000 {
		n %= 300
	}
	indef := rc.next.Indef
	if done {
		e.Reply = "done"
		rc.dones++
		rc.unacked, rc.lastN = 0, 0
	} else {
		e.Reply = fmt.Sprintf("ids:%d", n)
		rc.unacked += int64(n)
		rc.sumIds += int64(n)
		rc.lastN = n
	}
	rc.log = append(rc.log, e)
	rc.mu.Unlock()
	if done {
		if rc.p.SendMsg(protoTx, cborx.A(cborx.U(txsubmission.MessageTypeDone))) != nil {
			return false
		}
		select {
		case <-rc.reinit:
		case <-rc.stop:
			return false
		}
		return rc.p.SendMsg(protoTx, cborx.A(cborx.U(txsubmission.MessageTypeInit))) == nil
	}
	return rc.p.Send(protoTx, encodeReplyTxIds(rc.s.Tag, k, n, indef), 0) == nil
}

type connResult struct {
	conn *ouroboros.Connection
	err  error
}

func closeConn(oc *ouroboros.Connection) {
	if oc == nil {
		return
	}
	oc.Close()
	for range oc.ErrorChan() {
	}
}

// errWatch collects what the connection reports on its error channel.
type errWatch struct {
	mu   sync.Mutex
	errs []string
	done chan struct{}
}

func watchErrors(oc *ouroboros.Connection) *errWatch {
	w := &errWatch{done: make(chan struct{})}
	go func() {
		defer close(w.done)
		for err := range oc.ErrorChan() {
			w.mu.Lock()
			if len(w.errs) < 4 {
				w.errs = append(w.errs, err.Error())
			}
			w.mu.Unlock()
		}
	}()
	return w
}

func (w *errWatch) list() []string {
	w.mu.Lock()
	defer w.mu.Unlock()
	return append([]string(nil), w.errs...)
}

// finish closes the connection and waits until its error channel is closed.
func (w *errWatch) finish(oc *ouroboros.Connection) {
	oc.Close()
	<-w.done
}

func countClass(v int) string {
	switch {
	case v < 0:
		return "negative"
	case v > maxCount:
		return "above-65535"
	}
	return "in-range"
}

func runInbound(c *core.Ctx, i int, r *core.Rand) {
	rounds := 200
	// One 65535-id reply costs tens of CPU seconds in the library's receive
	// path under the race detector (the message is decoded again from its
	// start for each of its 43 segments, every attempt copying it into fresh
	// buffers; the cost grows with the square of the size), so only thorough
	// carries them, in one case of sixteen (alternating a 65535-id and a
	// 65536..70000-id reply); quick case 0 gets a 32768-id reply instead.
	special := 3
	switch {
	case c.Quick() && i == 0:
		special = 0
	case c.Thorough() && i%32 == 0:
		special = 0
	case c.Thorough() && i%32 == 16:
		special = 1
	case i%4 == 2:
		special = 2
	}
	s := genInbound(r, rounds, special, c.Quick())
	c.Journal("C24 inbound case %d tag=%x", i, s.Tag)

	a, b := rawpeer.Pipe()
	var wdFired atomic.Bool
	wd := time.AfterFunc(caseWatchdog, func() { wdFired.Store(true); a.Close(); b.Close() })
	defer wd.Stop()

	initCh := make(chan struct{}, 16)
	gate := &initGate{stop: make(chan struct{})}
	gr := r.Fork(0x1417)
	for k := 0; k < 64; k++ {
		gate.late = append(gate.late, gr.Bool())
	}
	cfg := txsubmission.NewConfig(
		txsubmission.WithInitFunc(func(txsubmission.CallbackContext) error {
			hold := gate.enter()
			initCh <- struct{}{} // the requester may start calling now
			if hold != nil {
				select {
				case <-hold:
				case <-gate.stop:
				}
			}
			return nil
		}),
		txsubmission.WithDoneFunc(func(txsubmission.CallbackContext) error { return nil }),
	)
	cch := make(chan connResult, 1)
	go func() {
		oc, err := ouroboros.NewConnection(
			ouroboros.WithConnection(a), ouroboros.WithNetworkMagic(netMagic),
			ouroboros.WithServer(true), ouroboros.WithNodeToNode(true),
			ouroboros.WithTxSubmissionConfig(cfg),
		)
		cch <- connResult{oc, err}
	}()
	p := rawpeer.NewPeer(b, false)
	v := highestNtN()
	hsErr := p.SendMsg(rawpeer.ProtoHandshake, rawpeer.ProposeVersions(
		rawpeer.VersionEntry{Version: v, Data: rawpeer.VDNtN11(netMagic, true, 0, false)}))
	if hsErr == nil {
		var m *cborx.Node
		if m, _, hsErr = p.RecvMsg(rawpeer.ProtoHandshake); hsErr == nil {
			if hm, err := rawpeer.ParseHandshake(m); err != nil || hm.Tag != rawpeer.HsAcceptVersion {
				hsErr = fmt.Errorf("handshake answer %s", m.Diag())
			}
		}
	}
	cr := <-cch
	c.Eval()
	if hsErr != nil || cr.err != nil || cr.conn == nil {
		a.Close()
		b.Close()
		closeConn(cr.conn)
		c.Inconclusive(fmt.Sprintf("inbound case %d: handshake failed: %v / %v", i, hsErr, cr.err))
		return
	}
	srv := cr.conn.TxSubmission().Server
	ew := watchErrors(cr.conn)
	rc := &rawClient{p: p, s: s, reinit: make(chan struct{}, 1), stop: make(chan struct{}), exited: make(chan struct{}), gate: gate}
	go rc.loop()
	defer func() {
		close(gate.stop)
		gate.mu.Lock()
		c.Count("sessions_started", gate.n)
		c.Count("sessions_with_initfunc_held_until_first_request", gate.held)
		gate.mu.Unlock()
		close(rc.stop)
		ew.finish(cr.conn)
		a.Close()
		b.Close()
		<-rc.exited
	}()

	waitInit := func() bool {
		select {
		case <-initCh:
			return true
		case <-rc.exited:
			return false
		}
	}
	if !waitInit() {
		c.Inconclusive(fmt.Sprintf("inbound case %d: the server never saw MsgInit (watchdog=%v)", i, wdFired.Load()))
		return
	}

	var apiFindings []finding
	var lastIds []txsubmission.TxIdAndSize
	expectedIds := 0 // MsgRequestTxIds the API calls made so far account for
	sentOps := 0
	calls := map[string]int{}
	ended := ""
	wedgeProbes := -1
	var history []map[string]any
	note := func(op apiOp, res string) {
		if len(history) < 400 {
			history = append(history, map[string]any{"op": op, "result": res})
		}
	}
	histTail := func() []map[string]any {
		if len(history) > 10 {
			return history[len(history)-10:]
		}
		return history
	}

opLoop:
	for j := 0; j < len(s.Ops); j++ {
		op := s.Ops[j]
		if wedgeProbes == 0 {
			ended = "wedged"
			break
		}
		if wedgeProbes > 0 {
			wedgeProbes--
		}
		if op.Kind == "txs" {
			if len(lastIds) == 0 {
				continue
			}
			n := op.Req
			if n > len(lastIds) {
				n = len(lastIds)
			}
			ids := make([]txsubmission.TxId, 0, n)
			for _, t := range lastIds[:n] {
				ids = append(ids, t.TxId)
			}
			_, txsBefore, _ := rc.snapshot()
			bodies, err := srv.RequestTxs(ids)
			_, txsAfter, _ := rc.snapshot()
			calls["RequestTxs"]++
			if err != nil {
				note(op, "error: "+err.Error())
				ended = "RequestTxs error: " + err.Error()
				break opLoop
			}
			note(op, fmt.Sprintf("%d bodies", len(bodies)))
			if txsAfter != txsBefore+1 {
				c.Count("requesttxs_wire_count_off", 1)
			}
			continue
		}
		inRange := op.Req >= 0 && op.Req <= maxCount
		idsBefore, _, _ := rc.snapshot()
		if idsBefore != expectedIds {
			apiFindings = append(apiFindings, finding{"C24:RequestTxIds:error-but-sent",
				fmt.Sprintf("before call #%d the wire shows %d MsgRequestTxIds although the calls that returned without error account for %d: a call that returned an error did send a request", j, idsBefore, expectedIds),
				map[string]any{"history_tail": histTail()}})
			ended = "desynchronised"
			break
		}
		pOld := srv.ProtocolInstance()
		rc.plan(op)
		ids, err := srv.RequestTxIds(op.Blocking, op.Req)
		idsAfter, _, last := rc.snapshot()
		if inRange {
			calls["RequestTxIds_in_range"]++
		} else {
			calls["RequestTxIds_out_of_range"]++
		}
		switch {
		case !inRange && err == nil:
			note(op, fmt.Sprintf("nil, %d ids", len(ids)))
			apiFindings = append(apiFindings, finding{"C24:RequestTxIds:out-of-range-count-accepted:" + countClass(op.Req),
				fmt.Sprintf("RequestTxIds(blocking=%v, reqCount=%d) returned no error (the wire shows blocking=%v ack=%s req=%s)", op.Blocking, op.Req, last.Blocking, last.Ack, last.Req),
				map[string]any{"call": op, "wire": last, "history_tail": histTail()}})
			ended = "out-of-range accepted"
			break opLoop
		case !inRange:
			note(op, "error: "+err.Error())
			c.Count("out_of_range_rejected", 1)
			if idsAfter != idsBefore {
				apiFindings = append(apiFindings, finding{"C24:RequestTxIds:out-of-range-count-sent:" + countClass(op.Req),
					fmt.Sprintf("RequestTxIds(blocking=%v, reqCount=%d) returned %q but a MsgRequestTxIds (ack=%s req=%s) reached the wire", op.Blocking, op.Req, err, last.Ack, last.Req),
					map[string]any{"call": op, "wire": last, "history_tail": histTail()}})
				ended = "out-of-range sent"
				break opLoop
			}
		case err == nil:
			note(op, fmt.Sprintf("%d ids", len(ids)))
			expectedIds++
			sentOps++
			lastIds = ids
			if idsAfter != idsBefore+1 {
				apiFindings = append(apiFindings, finding{"C24:RequestTxIds:wire-count",
					fmt.Sprintf("one successful RequestTxIds call put %d MsgRequestTxIds on the wire", idsAfter-idsBefore),
					map[string]any{"call": op, "history_tail": histTail()}})
				ended = "desynchronised"
				break opLoop
			}
			if last.Blocking != op.Blocking || last.req != int64(op.Req) {
				c.Count("wire_request_differs_from_call", 1)
			}
			if last.Reply != fmt.Sprintf("ids:%d", len(ids)) {
				c.Count("api_result_length_differs_from_reply", 1)
			}
		case errors.Is(err, txsubmission.ErrStopServerProcess):
			note(op, "ErrStopServerProcess")
			expectedIds++
			sentOps++
			lastIds = nil
			c.Count("done_restarts", 1)
			// the restarted instance is registered once the old one reports done
			select {
			case <-pOld.DoneChan():
			case <-rc.exited:
				ended = "connection lost during restart"
				break opLoop
			}
			rc.reinit <- struct{}{}
			if !waitInit() {
				ended = "no MsgInit after restart"
				break opLoop
			}
		default:
			note(op, "error: "+err.Error())
			if idsAfter != idsBefore {
				// the request went out and the protocol failed afterwards
				expectedIds++
				ended = "protocol error after send: " + err.Error()
				break opLoop
			}
			c.Count("in_range_call_rejected_nothing_sent", 1)
			if wedgeProbes < 0 {
				// probe a few more calls, then fence
				wedgeProbes = 6
			}
		}
	}
	// fence: everything the calls queued has reached the raw client once a
	// RequestTxs round trip completes
	if ended == "" || ended == "wedged" {
		if len(lastIds) > 0 {
			if _, err := srv.RequestTxs([]txsubmission.TxId{lastIds[0].TxId}); err == nil {
				idsNow, _, _ := rc.snapshot()
				if idsNow != expectedIds {
					apiFindings = append(apiFindings, finding{"C24:RequestTxIds:error-but-sent",
						fmt.Sprintf("at the end of the history the wire shows %d MsgRequestTxIds, the calls that returned without error account for %d", idsNow, expectedIds),
						map[string]any{"history_tail": histTail()}})
				}
				c.Count("fenced_histories", 1)
			}
		}
	}

	rc.mu.Lock()
	wireFindings := append([]finding(nil), rc.findings...)
	idsSeen, posAcks, maxAck, dones, sumIds, sumAck := rc.idsSeen, rc.posAcks, rc.maxAck, rc.dones, rc.sumIds, rc.sumAck
	if ended == "wedged" && rc.lastN <= maxCount {
		// in-range calls were refused although the ids to acknowledge fit
		ended = fmt.Sprintf("in-range calls fail without sending although the last reply had only %d ids", rc.lastN)
	}
	logHead := rc.tailLocked(4)
	rc.mu.Unlock()

	if wdFired.Load() {
		c.Inconclusive(fmt.Sprintf("inbound case %d: watchdog fired (%s)", i, ended))
		return
	}
	for k, n := range calls {
		c.Count("api_"+k, n)
	}
	c.Count("inbound_histories", 1)
	c.Count("inbound_special_"+s.Special, 1)
	c.Count("wire_requesttxids_judged", idsSeen)
	c.Count("wire_requesttxids_with_positive_ack", posAcks)
	c.Count("wire_ids_replied", int(sumIds))
	c.Count("wire_ids_acknowledged", int(sumAck))
	c.Count("wire_done_replies", dones)
	if maxAck == maxCount {
		c.Count("histories_with_ack_65535", 1)
	}
	switch {
	case ended == "":
		c.Count("inbound_ended_complete", 1)
	case ended == "wedged":
		c.Count("inbound_ended_wedged_after_oversize_reply", 1)
	default:
		c.Count("inbound_ended_early", 1)
		if len(apiFindings) == 0 && len(wireFindings) == 0 {
			c.Inconclusive(fmt.Sprintf("inbound case %d ended early after %d calls: %s; connection errors %q", i, len(history), ended, ew.list()))
		}
	}
	if idsSeen >= 20 && posAcks > 0 {
		c.Distinct("in", hashOf(s.Ops))
	}
	if i%13 == 0 {
		c.Sample(map[string]any{"engine": "inbound", "case": i, "api_calls": len(history), "wire_requests": idsSeen,
			"ids_replied": sumIds, "ids_acknowledged": sumAck, "max_ack": maxAck, "done_restarts": dones, "ended": ended, "wire_log_tail": logHead})
	}
	base := map[string]any{"engine": "inbound", "case": i, "api_history": history}
	for _, f := range append(wireFindings, apiFindings...) {
		w := map[string]any{}
		for k, v := range base {
			w[k] = v
		}
		for k, v := range f.Extra {
			w[k] = v
		}
		c.Violation(f.Key, f.What, w)
	}
}

// ================================================================= outbound

type outRound struct {
	Kind     string `json:"kind"` // ids | txs
	Blocking bool   `json:"blocking,omitempty"`
	Ack      uint64 `json:"ack"`
	Req      uint64 `json:"req"`
	N        int    `json:"reply_ids"`
	Wide     bool   `json:"wide_encoding,omitempty"`
}

type outScript struct {
	Rounds   []outRound `json:"rounds"`
	Term     string     `json:"terminal"`
	Blocking bool       `json:"terminal_blocking"`
	Ack, Req uint64
	Wrapped  bool `json:"wrapped_sentinel,omitempty"`
}

var overValues = []uint64{65536, 65537, 70000, 1<<16 + 65535, 1 << 17, 1<<32 - 1, 1 << 32, 1<<32 + 5, 1 << 63, math.MaxUint64}
var terms = []string{"over-ack", "over-req", "over-both", "stop-blocking", "stop-nonblocking", "stop-blocking", "stop-nonblocking", "none"}

func genOutbound(r *core.Rand, i int) *outScript {
	s := &outScript{}
	n := r.Range(0, 40)
	if r.Chance(1, 16) {
		n = 200
	}
	outstanding := uint64(0)
	for j := 0; j < n; j++ {
		if r.Chance(1, 10) {
			s.Rounds = append(s.Rounds, outRound{Kind: "txs", N: r.Range(0, 3)})
			continue
		}
		rd := outRound{Kind: "ids", Blocking: r.Chance(2, 5)}
		rd.Req = uint64(core.Pick(r, validCounts))
		if r.Chance(1, 3) {
			rd.Req = uint64(r.Intn(65536))
		}
		if outstanding > 0 && r.Chance(3, 4) {
			rd.Ack = outstanding
			if rd.Ack > maxCount {
				rd.Ack = maxCount
			}
			if r.Chance(1, 3) {
				rd.Ack = uint64(r.Intn(int(rd.Ack) + 1))
			}
		}
		outstanding -= rd.Ack
		switch x := r.Intn(100); {
		case x < 70:
			rd.N = r.Range(0, 10)
		case x < 95:
			rd.N = r.Range(11, 100)
		default:
			rd.N = r.Range(101, 1000)
		}
		if rd.Blocking && rd.N == 0 {
			rd.N = 1
		}
		rd.Wide = r.Chance(1, 15)
		outstanding += uint64(rd.N)
		s.Rounds = append(s.Rounds, rd)
	}
	s.Term = terms[i%len(terms)]
	s.Blocking = r.Bool()
	s.Ack, s.Req = 0, uint64(r.Range(1, 100))
	switch s.Term {
	case "over-ack":
		s.Ack = core.Pick(r, overValues)
	case "over-req":
		s.Req = core.Pick(r, overValues)
	case "over-both":
		s.Ack, s.Req = core.Pick(r, overValues), core.Pick(r, overValues)
	case "stop-blocking":
		s.Blocking = true
		s.Wrapped = r.Chance(1, 3)
	case "stop-nonblocking":
		s.Blocking = false
		s.Wrapped = r.Chance(1, 3)
	}
	return s
}

type cbCall struct {
	Blocking bool   `json:"blocking"`
	Ack      uint16 `json:"ack"`
	Req      uint16 `json:"req"`
}

func reqNode(blocking bool, ack, req uint64, wide bool) *cborx.Node {
	a, q := cborx.U(ack), cborx.U(req)
	if wide {
		a.SetForm(cborx.Form8)
		q.SetForm(cborx.Form4)
	}
	return cborx.A(cborx.U(txsubmission.MessageTypeRequestTxIds), cborx.Bool(blocking), a, q)
}

func runOutbound(c *core.Ctx, i int, r *core.Rand) {
	s := genOutbound(r, i)
	c.Journal("C24 outbound case %d rounds=%d term=%s ack=%d req=%d blocking=%v", i, len(s.Rounds), s.Term, s.Ack, s.Req, s.Blocking)

	a, b := rawpeer.Pipe()
	var wdFired atomic.Bool
	wd := time.AfterFunc(caseWatchdog, func() { wdFired.Store(true); a.Close(); b.Close() })
	defer wd.Stop()

	var mu sync.Mutex
	var cbs []cbCall
	idsRounds := []outRound{}
	for _, rd := range s.Rounds {
		if rd.Kind == "ids" {
			idsRounds = append(idsRounds, rd)
		}
	}
	tag := r.Uint64()
	cfg := txsubmission.NewConfig(
		txsubmission.WithRequestTxIdsFunc(func(_ txsubmission.CallbackContext, blocking bool, ack, req uint16) ([]txsubmission.TxIdAndSize, error) {
			mu.Lock()
			k := len(cbs)
			cbs = append(cbs, cbCall{blocking, ack, req})
			mu.Unlock()
			if k < len(idsRounds) {
				out := make([]txsubmission.TxIdAndSize, idsRounds[k].N)
				for j := range out {
					out[j] = txsubmission.TxIdAndSize{TxId: txsubmission.TxId{EraId: 6, TxId: txID(tag, k, j)}, Size: uint32(100 + j%500)}
				}
				return out, nil
			}
			if s.Term == "stop-blocking" || s.Term == "stop-nonblocking" {
				if s.Wrapped {
					return nil, fmt.Errorf("mempool closed: %w", txsubmission.ErrStopServerProcess)
				}
				return nil, txsubmission.ErrStopServerProcess
			}
			return []txsubmission.TxIdAndSize{}, nil
		}),
		txsubmission.WithRequestTxsFunc(func(_ txsubmission.CallbackContext, ids []txsubmission.TxId) ([]txsubmission.TxBody, error) {
			out := make([]txsubmission.TxBody, len(ids))
			for j := range out {
				out[j] = txsubmission.TxBody{EraId: 6, TxBody: []byte{0x84, 0xa0, 0xa0, byte(j)}}
			}
			return out, nil
		}),
	)
	cch := make(chan connResult, 1)
	go func() {
		oc, err := ouroboros.NewConnection(
			ouroboros.WithConnection(a), ouroboros.WithNetworkMagic(netMagic),
			ouroboros.WithNodeToNode(true), ouroboros.WithTxSubmissionConfig(cfg),
		)
		cch <- connResult{oc, err}
	}()
	p := rawpeer.NewPeer(b, true)
	var hsErr error
	{
		var m *cborx.Node
		if m, _, hsErr = p.RecvMsg(rawpeer.ProtoHandshake); hsErr == nil {
			var offered []rawpeer.VersionEntry
			if offered, hsErr = rawpeer.ParseProposeVersions(m); hsErr == nil {
				best := uint64(0)
				for _, e := range offered {
					if e.Version > best {
						best = e.Version
					}
				}
				hsErr = p.SendMsg(rawpeer.ProtoHandshake, rawpeer.AcceptVersion(best, rawpeer.VDNtN11(netMagic, false, 0, false)))
			}
		}
	}
	cr := <-cch
	c.Eval()
	if hsErr != nil || cr.err != nil || cr.conn == nil {
		a.Close()
		b.Close()
		closeConn(cr.conn)
		c.Inconclusive(fmt.Sprintf("outbound case %d: handshake failed: %v / %v", i, hsErr, cr.err))
		return
	}
	cl := cr.conn.TxSubmission().Client
	proto := cl.ProtocolInstance()
	ew := watchErrors(cr.conn)
	defer doneTrans.Delete(proto)
	defer func() {
		ew.finish(cr.conn)
		a.Close()
		b.Close()
	}()
	cl.Init()

	var wire []map[string]any
	logw := func(dir string, n *cborx.Node, raw []byte) {
		if len(wire) < 500 {
			e := map[string]any{"dir": dir, "hex": core.Hex(raw)}
			if n != nil && len(raw) < 64 {
				e["diag"] = n.Diag()
			}
			wire = append(wire, e)
		}
	}
	tailw := func() []map[string]any {
		if len(wire) > 8 {
			return wire[len(wire)-8:]
		}
		return wire
	}
	witness := func() map[string]any {
		mu.Lock()
		defer mu.Unlock()
		nc := len(cbs)
		var lastCb any
		if nc > 0 {
			lastCb = cbs[nc-1]
		}
		return map[string]any{"engine": "outbound", "case": i, "valid_rounds_before": len(s.Rounds), "terminal": s.Term,
			"terminal_request": map[string]any{"blocking": s.Blocking, "ack": s.Ack, "req": s.Req}, "wrapped_sentinel": s.Wrapped,
			"callback_invocations": nc, "last_callback_args": lastCb, "wire_tail": tailw()}
	}
	send := func(n *cborx.Node) error {
		raw := n.Encode()
		logw("to-client", n, raw)
		return p.Send(protoTx, raw, 0)
	}
	recv := func() (*cborx.Node, uint64, error) {
		m, raw, err := p.RecvMsg(protoTx)
		if err != nil {
			logw("from-client", nil, []byte(fmt.Sprintf("error: %v", err)))
			return nil, 0, err
		}
		logw("from-client", m, raw)
		if m.Kind != cborx.Array || len(m.Items) == 0 || m.Items[0].Kind != cborx.Uint {
			return m, 999, nil
		}
		return m, m.Items[0].Arg, nil
	}

	m0, t0, err := recv()
	if err != nil || t0 != txsubmission.MessageTypeInit {
		c.Inconclusive(fmt.Sprintf("outbound case %d: expected MsgInit, got %v / %v (watchdog=%v)", i, m0, err, wdFired.Load()))
		return
	}
	judged := 0
	kIds := 0
	early := ""
	for _, rd := range s.Rounds {
		if rd.Kind == "txs" {
			ids := make([]*cborx.Node, rd.N)
			for j := range ids {
				id := txID(tag, 0, j)
				ids[j] = cborx.A(cborx.U(6), cborx.B(id[:]))
			}
			if send(cborx.A(cborx.U(txsubmission.MessageTypeRequestTxs), cborx.AIndef(ids...))) != nil {
				early = "send failed"
				break
			}
			_, t, err := recv()
			if err != nil {
				early = "connection ended in a MsgRequestTxs round: " + err.Error()
				break
			}
			if t == txsubmission.MessageTypeDone {
				c.Violation("C24:client:done-unsolicited", "the client sent MsgDone in answer to MsgRequestTxs", witness())
				return
			}
			c.Count("outbound_txs_rounds", 1)
			continue
		}
		if send(reqNode(rd.Blocking, rd.Ack, rd.Req, rd.Wide)) != nil {
			early = "send failed"
			break
		}
		m, t, err := recv()
		if err != nil {
			early = "connection ended in a valid round: " + err.Error()
			if rd.Wide {
				c.Count("outbound_wide_in_range_rejected", 1)
				early = ""
				s.Term = "none"
			}
			break
		}
		if t == txsubmission.MessageTypeDone {
			c.Violation("C24:client:done-unsolicited",
				fmt.Sprintf("the client sent MsgDone in answer to a MsgRequestTxIds(blocking=%v) although the application returned %d ids", rd.Blocking, rd.N), witness())
			return
		}
		if t != txsubmission.MessageTypeReplyTxIds || len(m.Items) != 2 {
			early = fmt.Sprintf("unexpected answer type %d", t)
			break
		}
		judged++
		c.Count("outbound_valid_rounds", 1)
		if rd.Wide {
			c.Count("outbound_wide_in_range_accepted", 1)
		}
		mu.Lock()
		if kIds < len(cbs) {
			cb := cbs[kIds]
			if cb.Blocking != rd.Blocking || uint64(cb.Ack) != rd.Ack || uint64(cb.Req) != rd.Req {
				c.Count("callback_args_differ_from_wire", 1)
			}
		}
		mu.Unlock()
		if got := len(m.Items[1].Items); got != rd.N {
			c.Count("reply_length_differs_from_callback", 1)
		}
		kIds++
	}
	if wdFired.Load() {
		c.Inconclusive(fmt.Sprintf("outbound case %d: watchdog fired", i))
		return
	}
	if early != "" {
		c.Count("outbound_ended_early", 1)
		c.Inconclusive(fmt.Sprintf("outbound case %d ended early: %s; connection errors %q", i, early, ew.list()))
		return
	}
	c.Count("outbound_sessions", 1)
	c.Count("outbound_term_"+s.Term, 1)

	switch s.Term {
	case "none":
		// nothing
	case "over-ack", "over-req", "over-both":
		cbBefore := func() int { mu.Lock(); defer mu.Unlock(); return len(cbs) }()
		if send(reqNode(s.Blocking, s.Ack, s.Req, false)) != nil {
			c.Inconclusive("outbound: send of the terminal request failed")
			return
		}
		m, t, err := recv()
		cbAfter := func() int { mu.Lock(); defer mu.Unlock(); return len(cbs) }()
		judged++
		if err == nil {
			c.Count("over_limit_answered", 1)
			c.Violation("C24:client:over-limit-request-answered:"+s.Term,
				fmt.Sprintf("MsgRequestTxIds(blocking=%v, ack=%d, req=%d) exceeds 65535 and was answered with message type %d (%s)", s.Blocking, s.Ack, s.Req, t, m.Diag()), witness())
			return
		}
		if cbAfter != cbBefore {
			c.Count("over_limit_reached_callback", 1)
			c.Violation("C24:client:over-limit-request-reached-application:"+s.Term,
				fmt.Sprintf("MsgRequestTxIds(blocking=%v, ack=%d, req=%d) exceeds 65535 but the application callback was invoked for it", s.Blocking, s.Ack, s.Req), witness())
			return
		}
		if wdFired.Load() {
			c.Inconclusive("outbound: watchdog fired waiting for the rejection")
			return
		}
		c.Count("over_limit_rejected", 1)
	case "stop-blocking":
		if send(reqNode(true, 0, s.Req, false)) != nil {
			c.Inconclusive("outbound: send of the terminal request failed")
			return
		}
		_, t, err := recv()
		judged++
		switch {
		case err != nil:
			c.Count("stop_blocking_ended_in_error", 1)
		case t == txsubmission.MessageTypeDone:
			c.Count("stop_blocking_done_on_wire", 1)
		default:
			c.Count("stop_blocking_other_answer", 1)
		}
	case "stop-nonblocking":
		if send(reqNode(false, 0, s.Req, false)) != nil {
			c.Inconclusive("outbound: send of the terminal request failed")
			return
		}
		m, t, err := recv()
		judged++
		if err == nil && t == txsubmission.MessageTypeDone {
			c.Violation("C24:client:done-for-nonblocking-request",
				"the application returned ErrStopServerProcess to a non-blocking MsgRequestTxIds and the client put MsgDone on the wire", witness())
			return
		}
		if err == nil {
			c.Violation("C24:client:stop-for-nonblocking-request-not-an-error",
				fmt.Sprintf("the application returned ErrStopServerProcess to a non-blocking MsgRequestTxIds and the client answered with %s instead of failing", m.Diag()), witness())
			return
		}
		if wdFired.Load() {
			c.Inconclusive("outbound: watchdog fired waiting for the error")
			return
		}
		c.Count("stop_nonblocking_ended_in_error", 1)
	}
	// what the client asked its own state machine to do with MsgDone
	if from, ok := doneTrans.Load(proto); ok {
		c.Count("done_transition_requests", 1)
		if from.(string) != "TxIdsBlocking" {
			c.Violation("C24:client:done-queued-outside-blocking-request",
				fmt.Sprintf("the client handed MsgDone to its protocol layer while the protocol was in state %s (terminal event %s)", from, s.Term), witness())
			return
		}
		if s.Term != "stop-blocking" {
			c.Violation("C24:client:done-unsolicited",
				fmt.Sprintf("the client queued MsgDone in a session whose application never returned the stop sentinel to a blocking request (terminal event %s)", s.Term), witness())
			return
		}
	}
	if judged > 0 {
		c.Distinct("out", hashOf(s.Rounds, s.Term, s.Ack, s.Req, s.Blocking, s.Wrapped))
	}
	if i%41 == 0 {
		c.Sample(map[string]any{"engine": "outbound", "case": i, "valid_rounds": len(s.Rounds), "terminal": s.Term,
			"terminal_request": map[string]any{"blocking": s.Blocking, "ack": s.Ack, "req": s.Req}, "wire_tail": tailw()})
	}
}

// ================================================================= run

func run(c *core.Ctx) {
	// Time is not this property's subject: the state timeouts of tx-submission
	// (10 s for a non-blocking reply) are switched off through the exported
	// state map, which every new protocol instance copies, so that a loaded
	// machine cannot cut histories short.
	for st, e := range txsubmission.StateMap {
		e.Timeout = 0
		txsubmission.StateMap[st] = e
	}
	installSink()
	defer protocol.VerifSetSink(nil)
	g0 := runtime.NumGoroutine()
	workers := runtime.GOMAXPROCS(0)
	if workers > 16 {
		workers = 16
	}
	nIn := c.N(24, 1200)
	nOut := c.N(128, 4000)
	if only := os.Getenv("VERIF_C24_ONLY"); only != "" { // development aid: "in:6" / "out:12"
		var eng string
		var k int
		if _, err := fmt.Sscanf(strings.Replace(only, ":", " ", 1), "%s %d", &eng, &k); err == nil {
			if eng == "in" {
				runInbound(c, k, c.Rand("inbound", k))
			} else {
				runOutbound(c, k, c.Rand("outbound", k))
			}
			return
		}
	}
	// both engines share the worker pool: the two inbound histories with a
	// 65535+ id reply are long, the outbound sessions fill the other workers
	c.Parallel("case", nIn+nOut, workers, func(k int, _ *core.Rand) {
		if k < nIn {
			runInbound(c, k, c.Rand("inbound", k))
		} else {
			runOutbound(c, k-nIn, c.Rand("outbound", k-nIn))
		}
	})
	c.Note("wall_seconds_workload", int(c.Elapsed()))

	need := []string{"out_of_range_rejected", "wire_requesttxids_with_positive_ack", "over_limit_rejected",
		"stop_nonblocking_ended_in_error", "stop_blocking_done_on_wire", "done_restarts"}
	for _, k := range need {
		if c.Counter(k) == 0 {
			for j := int64(0); j <= c.Evals()/50+1; j++ {
				c.Inconclusive("the run never observed outcome " + k)
			}
		}
	}
	n := runtime.NumGoroutine()
	for j := 0; j < 300 && n > g0+8; j++ {
		time.Sleep(10 * time.Millisecond)
		n = runtime.NumGoroutine()
	}
	c.Note("goroutines_before", g0)
	c.Note("goroutines_after", n)
}
