// Package c08 monitors C08: transaction output values stay within the ledger's
// value range.
//
// Observation: transactions of Mary..Dijkstra whose outputs (regular outputs in
// first / second position, legacy and Babbage map form, and the collateral
// return) carry an asset quantity q written by ledgergen as CBOR uint / nint /
// tag-2 / tag-3 bignum. Each is decoded through ledger.NewTransactionFromCbor
// (and the era constructor) and, if it decodes, run through
// common.VerifyTransaction with the era's complete rule list against a ledger
// state that makes everything else valid – in particular the asset balance is
// arranged so that value conservation holds arithmetically (input {A: 1},
// outputs {A: k+1} and {A: -k}: the statement's "tokens out of nothing" pair).
//
// Oracle: q < 0 or q > 2^64-1 in any output  =>  decoding fails or validation
// rejects. In-range quantities (1, 2^63, 2^64-1) in a balanced transaction are
// observed to be accepted (the run is inconclusive if they never are).
// Quantity 0 is observed but not judged (the statement does not speak of it).
package c08

import (
	"fmt"
	"math/big"

	"github.com/blinklabs-io/gouroboros/ledger/common"

	"verifharness/cborx"
	"verifharness/core"
	lg "verifharness/ledgergen"
)

func init() {
	core.Register(&core.Monitor{
		ID:            "C08",
		Rule:          "era x output form (Mary, Alonzo legacy; Babbage, Conway, Dijkstra legacy and map) x quantity q in {-2^70,-2^64-1,-2^64,-2^64+1,-2^63-1,-2^63,-2^63+1,-2^31,-2,-1 (paired with 1-q, i.e. also 2^63+1, 2^64+1, 2^70+1), 0, 1, 2^63, 2^64-1, 2^64, 2^65 (as the sum of in-range inputs), and -2^70..2^70 in the collateral return} x CBOR form (shortest uint/nint/bignum; forced tag-2/tag-3 bignum; bignum with the tag number in a 1-byte or 8-byte argument; bignum with leading zero bytes; bignum over a chunked byte string; uint/nint with an 8-byte argument) x policy id (a hash; 28 bytes none of which is in 0x20..0x3f or 0xc2/0xc3, so that a byte-scan short cut around the range check is taken) x position (first output, second output, collateral return) in a transaction that balances arithmetically; thorough adds PRNG quantities of 1..90 bits; a case is non-trivial when the transaction bytes parse as CBOR and carry a multi-asset output; distinct by the full case description",
		MinNontrivial: 300,
		Assumptions: []string{
			"the token-carrying transaction built by ledgergen is valid in every other respect (pre-flight: the in-range balanced transaction is accepted in every era / output form)",
			"the ledger state only holds in-range quantities (inputs carry 1 or 2^63 tokens), so an out-of-range quantity can only come from the transaction under test",
		},
		Run: run,
	})
}

var (
	policy = lg.Blake224([]byte("c08-policy"))
	// quietPolicy has no byte that looks like the head of a negative integer
	// (0x20..0x3f) or of a one-byte bignum tag (0xc2, 0xc3): a range check that
	// is skipped after a byte scan of the encoded value ("plain unsigned
	// integers always fit") is only skipped for such values
	quietPolicy = func() (b lg.Hash28) {
		for i := range b {
			b[i] = 0x40 + byte(i)
		}
		return
	}()
	max64 = new(big.Int).SetUint64(^uint64(0))
)

func pow2(n uint) *big.Int { return new(big.Int).Lsh(big.NewInt(1), n) }

type qform int

const (
	formNatural        qform = iota // cborx.Big: uint / nint / bignum as needed
	formBignum                      // always tag 2 / tag 3
	formBignumWideTag               // tag 2 / tag 3 with the tag number in a 1-byte argument (d8 02 / d8 03)
	formBignumWideTag8              // ... in an 8-byte argument (db 00..02)
	formBignumPadded                // tag 2 / tag 3 whose byte string has leading zero bytes
	formBignumChunked               // tag 2 / tag 3 over an indefinite-length (chunked) byte string
	formWideInt                     // uint / nint written with an 8-byte argument where it fits, else as formBignumWideTag
	nForms
)

var allForms = []qform{formNatural, formBignum, formBignumWideTag, formBignumWideTag8, formBignumPadded, formBignumChunked, formWideInt}

func (f qform) String() string {
	return [...]string{"shortest", "bignum-tag", "bignum-tag-1byte-head", "bignum-tag-8byte-head", "bignum-padded", "bignum-chunked", "wide-int"}[f]
}

func qnode(q *big.Int, f qform) *cborx.Node {
	if f == formNatural {
		return cborx.Big(q)
	}
	tag, m := uint64(2), q
	if q.Sign() < 0 {
		tag = 3
		m = new(big.Int).Neg(q)
		m.Sub(m, big.NewInt(1))
	}
	if f == formWideInt {
		if m.IsUint64() {
			n := cborx.U(m.Uint64())
			if tag == 3 {
				n = cborx.NegArg(m.Uint64())
			}
			n.SetForm(cborx.Form8)
			return n
		}
		f = formBignumWideTag
	}
	content := cborx.B(m.Bytes())
	switch f {
	case formBignumPadded:
		content = cborx.B(append([]byte{0, 0, 0}, m.Bytes()...))
	case formBignumChunked:
		mb := m.Bytes()
		content.SetFormChunks(cborx.FormIndef, 1+len(mb)/2)
	}
	t := cborx.T(tag, content)
	switch f {
	case formBignumWideTag:
		t.SetForm(cborx.Form1)
	case formBignumWideTag8:
		t.SetForm(cborx.Form8)
	}
	return t
}

type shape struct {
	era     lg.Era
	mapForm bool
}

func (s shape) String() string {
	if s.mapForm {
		return s.era.String() + "/map"
	}
	return s.era.String() + "/legacy"
}

var shapes = []shape{
	{lg.Mary, false}, {lg.Alonzo, false},
	{lg.Babbage, false}, {lg.Babbage, true},
	{lg.Conway, false}, {lg.Conway, true},
	{lg.Dijkstra, false}, {lg.Dijkstra, true},
}

type tcase struct {
	sh     shape
	family string // pair | oversized | inrange | zero | collret
	q      *big.Int
	form   qform
	pos    int  // 0: q in the first output, 1: in the second
	quiet  bool // use quietPolicy
}

func (t tcase) policy() lg.Hash28 {
	if t.quiet {
		return quietPolicy
	}
	return policy
}

func (t tcase) String() string {
	d := fmt.Sprintf("%s family=%s q=%s cbor=%s position=%d", t.sh, t.family, t.q, t.form, t.pos)
	if t.quiet {
		d += " policy=quiet-bytes"
	}
	return d
}

func outOfRange(q *big.Int) bool { return q.Sign() < 0 || q.Cmp(max64) > 0 }

// build returns the world and the transaction of a case plus the quantities
// the generator put into outputs (for the oracle).
func build(t tcase) (w *lg.World, spec *lg.TxSpec, written []*big.Int) {
	one := big.NewInt(1)
	tok := func(q *big.Int, f qform) lg.Asset {
		return lg.Asset{Policy: t.policy(), Name: []byte("A"), Qty: q, QtyNode: qnode(q, f)}
	}
	out := func(w *lg.World, coin uint64, as ...lg.Asset) lg.Output {
		return lg.Output{Addr: w.PayerAddr(), Coin: coin, Assets: as, MapForm: t.sh.mapForm}
	}
	if t.family == "collret" {
		lang := uint(1)
		if t.sh.era == lg.Alonzo {
			lang = 0
		}
		sw := lg.NewScriptWorld(t.sh.era, lang)
		w = sw.World
		spec = w.Spec.Clone()
		// phase-2-invalid where the era can encode it: then the collateral
		// return is the output that is actually created
		spec.Invalid = t.sh.era != lg.Dijkstra
		ret := out(w, 2_000_000, tok(t.q, t.form))
		spec.CollateralReturn = &ret
		sw.Seal(spec)
		return w, spec, []*big.Int{t.q}
	}
	w = lg.NewWorld(t.sh.era)
	spec = w.Spec.Clone()
	tokIn := func(label string, q *big.Int) lg.Input {
		in := lg.In(label, 0)
		w.MustAddUtxo(in, out(w, 10_000_000, tok(q, formNatural)))
		spec.Inputs = append(spec.Inputs, in)
		return in
	}
	switch t.family {
	case "pair":
		// q = -k < 0: the partner is k+1 = 1 - q
		partner := new(big.Int).Sub(one, t.q)
		tokIn("c08-token-1", one)
		a, b := out(w, 0, tok(t.q, t.form)), out(w, 5_000_000, tok(partner, t.form))
		if t.pos == 1 {
			a.Assets, b.Assets = b.Assets, a.Assets
		}
		spec.Outputs = []lg.Output{a, b}
		written = []*big.Int{t.q, partner}
	case "pair-dup":
		// as "pair", but the out-of-range quantity hides behind a duplicate
		// asset-name key {A: 1, A: q} (decoders that tolerate duplicates keep the
		// last entry, possibly on a different code path than the strict one)
		partner := new(big.Int).Sub(one, t.q)
		tokIn("c08-token-1", one)
		a, b := out(w, 0, tok(one, formNatural), tok(t.q, t.form)), out(w, 5_000_000, tok(partner, t.form))
		if t.pos == 1 {
			a.Assets, b.Assets = b.Assets, a.Assets
		}
		spec.Outputs = []lg.Output{a, b}
		written = []*big.Int{t.q, partner}
	case "oversized":
		// 2^64 (2^65) as the sum of two (four) in-range inputs of 2^63
		n := new(big.Int).Div(t.q, pow2(63)).Int64()
		for i := int64(0); i < n; i++ {
			tokIn(fmt.Sprintf("c08-token-2^63-%d", i), pow2(63))
		}
		a, b := out(w, 0, tok(t.q, t.form)), out(w, 5_000_000)
		if t.pos == 1 {
			a.Assets, b.Assets = b.Assets, a.Assets
		}
		spec.Outputs = []lg.Output{a, b}
		written = []*big.Int{t.q}
	case "inrange":
		tokIn("c08-token-q", t.q)
		a, b := out(w, 0, tok(t.q, t.form)), out(w, 5_000_000)
		if t.pos == 1 {
			a.Assets, b.Assets = b.Assets, a.Assets
		}
		spec.Outputs = []lg.Output{a, b}
		written = []*big.Int{t.q}
	case "zero":
		a, b := out(w, 0, tok(t.q, t.form)), out(w, 5_000_000)
		if t.pos == 1 {
			a.Assets, b.Assets = b.Assets, a.Assets
		}
		spec.Outputs = []lg.Output{a, b}
		written = []*big.Int{t.q}
	}
	// coin balance: Outputs[0] takes the remainder
	if err := w.Rebalance(spec, 0, 0); err != nil {
		panic(err)
	}
	return w, spec, written
}

// decodedQuantities lists the quantities of asset A the library reports for
// the outputs (and collateral return) of a decoded transaction.
func decodedQuantities(tx common.Transaction, policy lg.Hash28) []string {
	var out []string
	add := func(o common.TransactionOutput) {
		if o == nil || o.Assets() == nil {
			return
		}
		q := o.Assets().Asset(common.Blake2b224(policy), []byte("A"))
		if q != nil {
			out = append(out, q.String())
		}
	}
	for _, o := range tx.Outputs() {
		add(o)
	}
	core.Safely(func() { add(tx.CollateralReturn()) })
	return out
}

type formPolicy struct {
	f     qform
	quiet bool
}

func formsAndPolicies() []formPolicy {
	var out []formPolicy
	for _, f := range allForms {
		out = append(out, formPolicy{f, false}, formPolicy{f, true})
	}
	return out
}

func cases(c *core.Ctx) []tcase {
	var cs []tcase
	neg := func(b *big.Int) *big.Int { return new(big.Int).Neg(b) }
	for _, sh := range shapes {
		for _, fq := range formsAndPolicies() {
			f, quiet := fq.f, fq.quiet
			for pos := 0; pos < 2; pos++ {
				// sign x magnitude boundaries: around the int64 and the uint64 limits
				// (a range check split into a machine-word path and a bignum path
				// can lose the sign test in exactly one of these bands)
				for _, q := range []*big.Int{big.NewInt(-1), big.NewInt(-2), neg(pow2(31)), neg(new(big.Int).Sub(pow2(63), big.NewInt(1))),
					neg(pow2(63)), neg(new(big.Int).Add(pow2(63), big.NewInt(1))), neg(new(big.Int).Sub(pow2(64), big.NewInt(1))),
					neg(pow2(64)), neg(new(big.Int).Add(pow2(64), big.NewInt(1))), neg(pow2(70))} {
					cs = append(cs, tcase{sh, "pair", q, f, pos, quiet})
				}
				for _, q := range []*big.Int{big.NewInt(-1), neg(new(big.Int).Add(pow2(63), big.NewInt(1))), neg(pow2(64))} {
					cs = append(cs, tcase{sh, "pair-dup", q, f, pos, quiet})
				}
				for _, q := range []*big.Int{pow2(64), pow2(65)} {
					cs = append(cs, tcase{sh, "oversized", q, f, pos, quiet})
				}
				for _, q := range []*big.Int{big.NewInt(1), pow2(63), new(big.Int).Set(max64)} {
					cs = append(cs, tcase{sh, "inrange", q, f, pos, quiet})
				}
				cs = append(cs, tcase{sh, "zero", big.NewInt(0), f, pos, quiet})
			}
			if sh.era.HasCollateralReturn() {
				for _, q := range []*big.Int{big.NewInt(-1), neg(pow2(63)), neg(new(big.Int).Add(pow2(63), big.NewInt(1))), neg(new(big.Int).Sub(pow2(64), big.NewInt(1))),
					neg(pow2(64)), neg(pow2(70)), pow2(64), new(big.Int).Add(pow2(64), big.NewInt(1)), pow2(70)} {
					cs = append(cs, tcase{sh, "collret", q, f, 0, quiet})
				}
			}
		}
	}
	if c.Thorough() {
		r := c.Rand("random-quantities")
		for i := 0; i < 20000; i++ {
			bits := uint(r.Range(1, 90))
			q := new(big.Int).SetBytes(r.Bytes(int(bits+7) / 8))
			q.And(q, new(big.Int).Sub(pow2(bits), big.NewInt(1)))
			q.SetBit(q, int(bits)-1, 1)
			sh := core.Pick(r, shapes)
			f := qform(r.Intn(int(nForms)))
			pos := r.Intn(2)
			quiet := r.Bool()
			switch {
			case r.Chance(1, 2) || q.Cmp(max64) > 0:
				cs = append(cs, tcase{sh, "pair", neg(q), f, pos, quiet})
			default:
				cs = append(cs, tcase{sh, "inrange", q, f, pos, quiet})
			}
		}
	}
	return cs
}

func run(c *core.Ctx) {
	// generic checks (lg.Independence): every World.Run below validates the
	// same objects three times (verdict / quantities must not change) and
	// re-runs rejected transactions in other presentations (map key order)
	lg.EnableChecks(c)
	// pre-flight: the balanced in-range token transaction is accepted
	for _, sh := range shapes {
		w, s, _ := build(tcase{sh, "inrange", big.NewInt(7), formNatural, 1, false})
		if o := w.Run(s, w.Slot); !o.Accepted {
			forceInconclusive(c, fmt.Sprintf("pre-flight: %s balanced in-range token transaction not accepted (decode=%v verify=%v)", sh, o.DecodeErr, o.VerifyErr))
			return
		}
	}
	cs := cases(c)
	c.Note("cases", len(cs))
	c.Parallel("case", len(cs), 0, func(i int, _ *core.Rand) {
		t := cs[i]
		desc := t.String()
		c.Journal("C08 case %d %s", i, desc)
		w, spec, written := build(t)
		b := spec.Build()
		var o lg.Outcome
		if p, v, _ := core.Safely(func() { o = w.Run(spec, w.Slot) }); p {
			// a panic on hostile input is not this property's business, but it
			// is certainly not an acceptance
			c.Count("panic_on_case", 1)
			c.Inconclusive(fmt.Sprintf("panic while decoding/validating %s: %v", desc, v))
			return
		}
		c.Eval()
		c.Distinct(desc)
		// second entry point must agree on decodability
		_, eraErr := b.DecodeEra()
		if (eraErr == nil) != (o.DecodeErr == nil) {
			c.Count("entry_points_disagree_on_decode", 1)
		}
		tag := t.sh.String()
		bad := false
		kind := ""
		for _, q := range written {
			if outOfRange(q) {
				bad = true
			}
		}
		if t.q.Sign() < 0 {
			kind = "negative"
		} else if t.q.Cmp(max64) > 0 {
			kind = "oversized"
		}
		switch {
		case o.DecodeErr != nil:
			c.Count("decode_rejected:"+tag, 1)
		case !o.Accepted:
			c.Count("validation_rejected:"+tag, 1)
			c.Count("reject_type:"+lg.ErrType(o.VerifyErr), 1)
		default:
			c.Count("accepted:"+tag, 1)
		}
		if i%131 == 0 {
			c.Sample(map[string]any{"case": desc, "decoded": o.DecodeErr == nil, "accepted": o.Accepted, "tx_cbor": core.HexFull(b.Cbor)})
		}
		switch {
		case t.family == "zero":
			c.Count(fmt.Sprintf("zero_quantity_accepted=%v", o.Accepted), 1)
			return
		case !bad:
			if o.Accepted {
				c.Count("inrange_accepted:"+t.sh.era.String(), 1)
			} else {
				c.Count("inrange_rejected:"+t.sh.era.String(), 1)
			}
			return
		case !o.Accepted:
			c.Count("out_of_range_rejected:"+t.sh.era.String(), 1)
			return
		}
		// an out-of-range quantity went through decoding and validation
		key := "C08:" + t.sh.era.String() + ":" + kind
		if t.family == "collret" {
			key += ":collateral-return"
		}
		c.Count("out_of_range_accepted:"+t.sh.era.String()+":"+kind, 1)
		var ws []string
		for _, q := range written {
			ws = append(ws, q.String())
		}
		c.Violation(key,
			fmt.Sprintf("%s transaction whose output carries asset quantity %s (%s) was decoded and accepted by the full rule list; %s", t.sh.era, t.q, kind, desc),
			map[string]any{
				"case": desc, "era": t.sh.era.String(), "output_form": tag, "family": t.family,
				"quantities_written_into_outputs": ws, "quantities_reported_by_decoded_outputs": decodedQuantities(o.Tx, t.policy()),
				"tx_cbor": core.HexFull(b.Cbor), "tx_id": fmt.Sprintf("%x", b.TxId[:]),
			})
	})
	if !c.Thorough() {
		c.SetExhaustive()
	}
	for _, e := range []lg.Era{lg.Mary, lg.Alonzo, lg.Babbage, lg.Conway, lg.Dijkstra} {
		if c.Counter("inrange_accepted:"+e.String()) == 0 {
			forceInconclusive(c, e.String()+": no in-range balanced transaction was accepted; the oracle only ever saw rejections")
		}
	}
}

// forceInconclusive records a run-level reason why nothing can be concluded
// often enough to cross the supervisor's 2 % line.
func forceInconclusive(c *core.Ctx, what string) {
	n := int(c.Evals()/50) + 1
	for i := 0; i < n; i++ {
		c.Inconclusive(what)
	}
}
