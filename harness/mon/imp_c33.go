//go:build only_c33

package mon

import _ "verifharness/mon/c33"
