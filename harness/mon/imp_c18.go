//go:build only_c18

package mon

import _ "verifharness/mon/c18"
