package c02

// Structure-aware mutation of a valid encoding. A seed is parsed once with
// cborx (independent reader, byte offsets for every item); mutants are made by
// byte splicing at item boundaries so that a 100 KiB block costs one copy per
// mutant. Seeds that are not CBOR (bech32 / base58 strings, Shelley address
// bytes) only get the raw byte-level classes.

import (
	"encoding/binary"
	"fmt"

	"verifharness/cborx"
	"verifharness/core"
)

type doc struct {
	src    []byte
	ok     bool // src is exactly one well-formed CBOR item
	nodes  []*cborx.Node
	parent []int // index into nodes, -1 for the root
	maps   []int // indexes of map nodes with >= 1 pair
	tags   []int
	strs   []int // byte / text strings
	conts  []int // arrays and maps
	ints   []int
}

func newDoc(b []byte) *doc {
	d := &doc{src: b}
	root, err := cborx.ParseExact(b)
	if err != nil || len(b) == 0 {
		return d
	}
	d.ok = true
	var walk func(n *cborx.Node, p int)
	walk = func(n *cborx.Node, p int) {
		idx := len(d.nodes)
		d.nodes = append(d.nodes, n)
		d.parent = append(d.parent, p)
		switch n.Kind {
		case cborx.Map:
			if len(n.Items) >= 2 {
				d.maps = append(d.maps, idx)
			}
			d.conts = append(d.conts, idx)
		case cborx.Array:
			d.conts = append(d.conts, idx)
		case cborx.Tag:
			d.tags = append(d.tags, idx)
		case cborx.Bytes, cborx.Text:
			d.strs = append(d.strs, idx)
			return // chunks are part of the string
		case cborx.Uint, cborx.Nint:
			d.ints = append(d.ints, idx)
		}
		for _, c := range n.Items {
			walk(c, idx)
		}
	}
	walk(root, -1)
	return d
}

func major(k cborx.Kind) byte {
	switch k {
	case cborx.Uint:
		return 0
	case cborx.Nint:
		return 1
	case cborx.Bytes:
		return 2
	case cborx.Text:
		return 3
	case cborx.Array:
		return 4
	case cborx.Map:
		return 5
	case cborx.Tag:
		return 6
	}
	return 7
}

func headLen(n *cborx.Node) int {
	switch n.Form {
	case cborx.Form1:
		return 2
	case cborx.Form2:
		return 3
	case cborx.Form4:
		return 5
	case cborx.Form8:
		return 9
	}
	return 1
}

// mkHead writes an item head with an explicit width (0 = in the initial byte,
// 1/2/4/8 = following bytes, -1 = indefinite).
func mkHead(maj byte, arg uint64, width int) []byte {
	switch width {
	case -1:
		return []byte{maj<<5 | 31}
	case 0:
		return []byte{maj<<5 | byte(arg&0x1f)}
	case 1:
		return []byte{maj<<5 | 24, byte(arg)}
	case 2:
		b := []byte{maj<<5 | 25, 0, 0}
		binary.BigEndian.PutUint16(b[1:], uint16(arg))
		return b
	case 4:
		b := []byte{maj<<5 | 26, 0, 0, 0, 0}
		binary.BigEndian.PutUint32(b[1:], uint32(arg))
		return b
	}
	b := make([]byte, 9)
	b[0] = maj<<5 | 27
	binary.BigEndian.PutUint64(b[1:], arg)
	return b
}

func minHead(maj byte, arg uint64) []byte {
	switch {
	case arg < 24:
		return mkHead(maj, arg, 0)
	case arg <= 0xff:
		return mkHead(maj, arg, 1)
	case arg <= 0xffff:
		return mkHead(maj, arg, 2)
	case arg <= 0xffffffff:
		return mkHead(maj, arg, 4)
	}
	return mkHead(maj, arg, 8)
}

func splice(src []byte, lo, hi int, repl ...[]byte) []byte {
	n := len(src) - (hi - lo)
	for _, r := range repl {
		n += len(r)
	}
	out := make([]byte, 0, n)
	out = append(out, src[:lo]...)
	for _, r := range repl {
		out = append(out, r...)
	}
	out = append(out, src[hi:]...)
	return out
}

func rep(unit []byte, n int) []byte {
	out := make([]byte, 0, len(unit)*n)
	for i := 0; i < n; i++ {
		out = append(out, unit...)
	}
	return out
}

// Mutation classes. The order is part of the case list (class = index).
const (
	mTruncate = iota
	mInflate
	mWrap
	mTag
	mConfuse
	mDupKey
	mBadIndef
	mBreak
	mArity
	mIntEdge
	mReform
	mSpliceNode
	mRaw
	mClasses
)

var className = [...]string{"truncate", "inflate", "wrap", "tag", "confuse", "dupkey", "badindef", "break", "arity", "intedge", "reform", "splice", "raw"}

var wrapDepths = []int{1, 16, 255, 256, 257, 1000}

// deepDepths are only used around a tiny core: on the unchanged tree they are
// rejected by the nesting limit after one linear scan.
var deepDepths = []int{5000, 20000, 70000}

var inflateArgs = []struct {
	arg   uint64
	width int
}{
	{1 << 16, 4}, {1 << 31, 4}, {1 << 63, 8},
	{0xffff, 2}, {0xffffffff, 4}, {1<<63 - 1, 8}, {^uint64(0), 8}, {1 << 24, 4}, {1 << 32, 8},
}

var confusers = [][]byte{
	{0x00}, {0x17}, {0x18, 0xff}, {0x1b, 0xff, 0xff, 0xff, 0xff, 0xff, 0xff, 0xff, 0xff},
	{0x20}, {0x3b, 0xff, 0xff, 0xff, 0xff, 0xff, 0xff, 0xff, 0xff}, {0x3b, 0x7f, 0xff, 0xff, 0xff, 0xff, 0xff, 0xff, 0xff},
	{0x40}, {0x41, 0x00}, {0x58, 0x20, 0, 0, 0, 0, 0, 0, 0, 0, 0, 0, 0, 0, 0, 0, 0, 0, 0, 0, 0, 0, 0, 0, 0, 0, 0, 0, 0, 0, 0, 0, 0, 0},
	{0x60}, {0x61, 0x61}, {0x62, 0xc3, 0x28}, // invalid UTF-8
	{0x80}, {0x81, 0x00}, {0x82, 0x00, 0x00}, {0x9f, 0xff}, {0x9f, 0x00, 0xff},
	{0xa0}, {0xa1, 0x00, 0x00}, {0xbf, 0xff}, {0xa1, 0x80, 0x00}, {0xa1, 0xa0, 0x00}, {0xa1, 0xf6, 0x00}, {0xa1, 0xf7, 0x00},
	{0xa1, 0xc6, 0x80, 0x00}, {0xa1, 0xc6, 0xa0, 0x00}, {0xa1, 0xd8, 0x79, 0x80, 0x00}, {0xa1, 0xd8, 0x66, 0x82, 0x00, 0x80, 0x00}, {0xa1, 0xd9, 0x01, 0x02, 0x80, 0x00}, {0xa2, 0x80, 0x00, 0x80, 0x01},
	{0xc2, 0x40}, {0xc2, 0x49, 1, 0, 0, 0, 0, 0, 0, 0, 0}, {0xc3, 0x41, 0x00}, {0xc4, 0x82, 0x00, 0x01}, {0xc5, 0x82, 0x00, 0x01},
	{0xd8, 0x18, 0x40}, {0xd8, 0x18, 0x41, 0x00}, {0xd8, 0x1e, 0x82, 0x01, 0x00}, {0xd8, 0x1e, 0x82, 0x01, 0x01}, {0xd8, 0x1e, 0x80},
	{0xd8, 0x79, 0x80}, {0xd8, 0x66, 0x82, 0x00, 0x80}, {0xd9, 0x01, 0x02, 0x80}, {0xd9, 0x01, 0x02, 0x81, 0x00},
	{0xf4}, {0xf5}, {0xf6}, {0xf7}, {0xe0}, {0xf8, 0x20}, {0xf8, 0xff},
	{0xf9, 0x7e, 0x00}, {0xf9, 0x7c, 0x00}, {0xfa, 0x7f, 0xc0, 0x00, 0x00}, {0xfb, 0x7f, 0xf8, 0, 0, 0, 0, 0, 0}, {0xfb, 0x43, 0xf0, 0, 0, 0, 0, 0, 0},
}

var badIndefStrings = [][]byte{
	{0x5f, 0x61, 0x61, 0xff},             // text chunk in byte string
	{0x7f, 0x41, 0x00, 0xff},             // byte chunk in text string
	{0x5f, 0x5f, 0x40, 0xff, 0xff},       // nested indefinite chunk
	{0x7f, 0x7f, 0x60, 0xff, 0xff},       //
	{0x5f, 0x00, 0xff},                   // integer chunk
	{0x5f, 0x80, 0xff},                   // array chunk
	{0x5f, 0x41, 0xff},                   // chunk shorter than announced, break inside
	{0x5f, 0x41, 0x00},                   // no break
	{0x7f, 0x62, 0xc3, 0xff},             // split UTF-8 sequence + missing byte
	{0x7f, 0x61, 0xc3, 0x61, 0xa9, 0xff}, // UTF-8 sequence split across chunks
	{0x5f, 0xff},                         // empty indefinite
	{0x7f, 0xff},
	{0x5f, 0x5b, 0xff, 0xff, 0xff, 0xff, 0xff, 0xff, 0xff, 0xff, 0xff}, // huge chunk length
	{0x5f, 0x40, 0x40, 0x40, 0x40, 0x40, 0x40, 0x40, 0x40, 0xff},       // many empty chunks
}

var tagPool = []uint64{0, 1, 2, 3, 4, 5, 24, 30, 32, 55799, 258, 259, 101, 102, 121, 122, 127, 128, 1280, 1400, 1401, 6, 23, 1 << 32, ^uint64(0)}

// mutate returns one mutant of class cl (falls back to a raw mutation when the
// class is not applicable to this seed) and a short description.
func (d *doc) mutate(r *core.Rand, cl int, pool [][]byte) ([]byte, string) {
	if !d.ok {
		return d.raw(r)
	}
	src := d.src
	pick := func(ix []int) (*cborx.Node, int) {
		if len(ix) == 0 {
			return nil, -1
		}
		i := ix[r.Intn(len(ix))]
		return d.nodes[i], i
	}
	anyNode := func() (*cborx.Node, int) {
		i := r.Intn(len(d.nodes))
		return d.nodes[i], i
	}
	switch cl {
	case mTruncate:
		n, _ := anyNode()
		cut := n.End
		switch r.Intn(4) {
		case 0:
			cut = n.Start
		case 1:
			cut = n.Start + headLen(n)
			if cut > n.End {
				cut = n.End
			}
		case 2:
			cut = n.Start + 1
		}
		if cut >= len(src) {
			cut = len(src) - 1
		}
		return append([]byte(nil), src[:cut]...), fmt.Sprintf("truncate@%d", cut)
	case mInflate:
		// any item with a length field: strings, arrays, maps
		var n *cborx.Node
		if r.Chance(1, 2) && len(d.conts) > 0 {
			n, _ = pick(d.conts)
		} else if len(d.strs) > 0 {
			n, _ = pick(d.strs)
		} else {
			n, _ = pick(d.conts)
		}
		if n == nil {
			break
		}
		ia := inflateArgs[r.Intn(len(inflateArgs))]
		if r.Chance(2, 3) {
			ia = inflateArgs[r.Intn(3)]
		}
		hl := headLen(n)
		out := splice(src, n.Start, n.Start+hl, mkHead(major(n.Kind), ia.arg, ia.width))
		if n.Form == cborx.FormIndef && r.Bool() {
			// drop the break of the former indefinite item as well
			p := n.End - 1 + len(out) - len(src)
			out = splice(out, p, p+1)
		}
		return out, fmt.Sprintf("inflate %s@%d to %#x", n.Kind, n.Start, ia.arg)
	case mWrap:
		depths := wrapDepths
		lo, hi := 0, len(src)
		inner := false
		if r.Chance(1, 3) {
			n, _ := anyNode()
			lo, hi = n.Start, n.End
			inner = true
		}
		core0 := src[lo:hi]
		deep := false
		if r.Chance(1, 8) {
			depths = deepDepths
			core0 = []byte{0x00}
			lo, hi = 0, len(src)
			deep, inner = true, false
		}
		N := depths[r.Intn(len(depths))]
		var pre, post []byte
		kind := r.Intn(6)
		switch kind {
		case 0:
			pre = rep([]byte{0x81}, N)
		case 1:
			pre = rep([]byte{0xc6}, N) // unassigned tag 6
		case 2:
			pre = rep([]byte{0xa1, 0x00}, N) // {0: ...}
		case 3:
			pre, post = rep([]byte{0x9f}, N), rep([]byte{0xff}, N)
		case 4:
			pre, post = rep([]byte{0xa1}, N), rep([]byte{0x00}, N) // nested in key position
		case 5:
			pre = rep([]byte{0xd8, 0x79, 0x81}, N) // Plutus constructor 0 with one field
		}
		var out []byte
		if deep {
			out = append(append(append([]byte{}, pre...), core0...), post...)
		} else {
			out = splice(src, lo, hi, pre, core0, post)
		}
		return out, fmt.Sprintf("wrap kind=%d N=%d inner=%v deep=%v", kind, N, inner, deep)
	case mTag:
		switch r.Intn(3) {
		case 0: // replace a tag number
			if n, _ := pick(d.tags); n != nil {
				t := tagPool[r.Intn(len(tagPool))]
				return splice(src, n.Start, n.Start+headLen(n), minHead(6, t)), fmt.Sprintf("retag@%d %d->%d", n.Start, n.Arg, t)
			}
			fallthrough
		case 1: // put a tag in front of an item
			n, _ := anyNode()
			t := tagPool[r.Intn(len(tagPool))]
			return splice(src, n.Start, n.Start, minHead(6, t)), fmt.Sprintf("addtag@%d %d", n.Start, t)
		default: // remove a tag head
			if n, _ := pick(d.tags); n != nil {
				return splice(src, n.Start, n.Start+headLen(n)), fmt.Sprintf("untag@%d", n.Start)
			}
			n, _ := anyNode()
			return splice(src, n.Start, n.Start, minHead(6, 24)), fmt.Sprintf("addtag@%d 24", n.Start)
		}
	case mConfuse:
		n, _ := anyNode()
		var c []byte
		for try := 0; try < 4; try++ {
			c = confusers[r.Intn(len(confusers))]
			if c[0]>>5 != major(n.Kind) {
				break
			}
		}
		return splice(src, n.Start, n.End, c), fmt.Sprintf("confuse %s@%d with %x", n.Kind, n.Start, c)
	case mDupKey:
		n, _ := pick(d.maps)
		if n == nil {
			break
		}
		p := r.Intn(len(n.Items) / 2)
		k, v := n.Items[2*p], n.Items[2*p+1]
		pair := src[k.Start:v.End]
		if r.Chance(1, 3) { // same key, different value
			pair = append(append([]byte{}, src[k.Start:k.End]...), confusers[r.Intn(len(confusers))]...)
		}
		cnt := uint64(len(n.Items)/2 + 1)
		var out []byte
		if n.Form == cborx.FormIndef {
			out = splice(src, v.End, v.End, pair)
		} else {
			out = splice(src, v.End, v.End, pair)
			out = splice(out, n.Start, n.Start+headLen(n), minHead(5, cnt))
		}
		return out, fmt.Sprintf("dupkey map@%d pair %d", n.Start, p)
	case mBadIndef:
		n, _ := pick(d.strs)
		if n == nil {
			n, _ = anyNode()
		}
		if r.Chance(1, 3) && (n.Kind == cborx.Bytes || n.Kind == cborx.Text) && n.Form != cborx.FormIndef && len(n.Data) >= 2 {
			// the real content as chunks, one chunk of the wrong major type
			m := major(n.Kind)
			wrong := byte(5) - m // 2<->3
			h := len(n.Data) / 2
			out := splice(src, n.Start, n.End,
				[]byte{m<<5 | 31}, minHead(m, uint64(h)), n.Data[:h], minHead(wrong, uint64(len(n.Data)-h)), n.Data[h:], []byte{0xff})
			return out, fmt.Sprintf("indef-chunks wrong type @%d", n.Start)
		}
		b := badIndefStrings[r.Intn(len(badIndefStrings))]
		return splice(src, n.Start, n.End, b), fmt.Sprintf("badindef@%d %x", n.Start, b)
	case mBreak:
		n, _ := anyNode()
		switch r.Intn(5) {
		case 0:
			return splice(src, n.Start, n.Start, []byte{0xff}), fmt.Sprintf("break before @%d", n.Start)
		case 1:
			return splice(src, n.Start, n.End, []byte{0xff}), fmt.Sprintf("break replaces @%d", n.Start)
		case 2:
			return append(append([]byte{}, src...), 0xff), "break appended"
		case 3:
			// definite container -> indefinite head without a break
			if c, _ := pick(d.conts); c != nil && c.Form != cborx.FormIndef {
				return splice(src, c.Start, c.Start+headLen(c), mkHead(major(c.Kind), 0, -1)), fmt.Sprintf("indef no break @%d", c.Start)
			}
			fallthrough
		default:
			// break in the value position of a map / after the head of a container
			if c, _ := pick(d.conts); c != nil {
				p := c.Start + headLen(c)
				return splice(src, p, p, []byte{0xff}), fmt.Sprintf("break after head @%d", c.Start)
			}
			return splice(src, n.End, n.End, []byte{0xff}), fmt.Sprintf("break after @%d", n.End)
		}
	case mArity:
		c, _ := pick(d.conts)
		if c == nil {
			break
		}
		per := 1
		if c.Kind == cborx.Map {
			per = 2
		}
		cnt := len(c.Items) / per
		switch op := r.Intn(4); {
		case op == 0 && cnt > 0: // drop the last element
			first := c.Items[len(c.Items)-per]
			last := c.Items[len(c.Items)-1]
			out := splice(src, first.Start, last.End)
			if c.Form != cborx.FormIndef {
				out = splice(out, c.Start, c.Start+headLen(c), minHead(major(c.Kind), uint64(cnt-1)))
			}
			return out, fmt.Sprintf("arity-1 %s@%d", c.Kind, c.Start)
		case op == 1 && cnt > 0: // keep only the first k elements
			k := r.Intn(cnt)
			lo := c.Start + headLen(c)
			if k > 0 {
				lo = c.Items[k*per-1].End
			}
			hi := c.Items[len(c.Items)-1].End
			out := splice(src, lo, hi)
			if c.Form != cborx.FormIndef {
				out = splice(out, c.Start, c.Start+headLen(c), minHead(major(c.Kind), uint64(k)))
			}
			return out, fmt.Sprintf("arity=%d %s@%d", k, c.Kind, c.Start)
		case op == 2: // append an element
			extra := confusers[r.Intn(len(confusers))]
			if per == 2 {
				extra = append(append([]byte{}, confusers[r.Intn(len(confusers))]...), extra...)
			}
			end := c.End
			if c.Form == cborx.FormIndef {
				end--
			}
			out := splice(src, end, end, extra)
			if c.Form != cborx.FormIndef {
				out = splice(out, c.Start, c.Start+headLen(c), minHead(major(c.Kind), uint64(cnt+1)))
			}
			return out, fmt.Sprintf("arity+1 %s@%d", c.Kind, c.Start)
		default: // only change the count by +-1 (content unchanged)
			if c.Form == cborx.FormIndef {
				break
			}
			nc := uint64(cnt + 1)
			if cnt > 0 && r.Bool() {
				nc = uint64(cnt - 1)
			}
			return splice(src, c.Start, c.Start+headLen(c), minHead(major(c.Kind), nc)), fmt.Sprintf("count %d->%d %s@%d", cnt, nc, c.Kind, c.Start)
		}
	case mIntEdge:
		n, _ := pick(d.ints)
		if n == nil {
			break
		}
		edges := []uint64{0, 1, 23, 24, 255, 256, 65535, 65536, 1<<31 - 1, 1 << 31, 1<<32 - 1, 1 << 32, 1<<63 - 1, 1 << 63, ^uint64(0)}
		v := edges[r.Intn(len(edges))]
		m := major(n.Kind)
		if r.Chance(1, 4) {
			m ^= 1
		}
		return splice(src, n.Start, n.End, minHead(m, v)), fmt.Sprintf("int@%d -> major %d %#x", n.Start, m, v)
	case mReform:
		n, _ := anyNode()
		if n.Kind == cborx.Simple {
			break
		}
		m := major(n.Kind)
		arg := n.Arg
		switch n.Kind {
		case cborx.Bytes, cborx.Text:
			arg = uint64(len(n.StringData()))
		case cborx.Array:
			arg = uint64(len(n.Items))
		case cborx.Map:
			arg = uint64(len(n.Items) / 2)
		}
		if n.Form == cborx.FormIndef {
			break
		}
		if n.IsContainer() && r.Chance(1, 3) {
			out := splice(src, n.End, n.End, []byte{0xff})
			out = splice(out, n.Start, n.Start+headLen(n), mkHead(m, 0, -1))
			return out, fmt.Sprintf("reform indef %s@%d", n.Kind, n.Start)
		}
		if (n.Kind == cborx.Bytes || n.Kind == cborx.Text) && r.Chance(1, 3) {
			h := len(n.Data) / 2
			out := splice(src, n.Start, n.End, []byte{m<<5 | 31}, minHead(m, uint64(h)), n.Data[:h], minHead(m, uint64(len(n.Data)-h)), n.Data[h:], []byte{0xff})
			return out, fmt.Sprintf("reform chunks %s@%d", n.Kind, n.Start)
		}
		widths := []int{1, 2, 4, 8}
		w := widths[r.Intn(4)]
		for (w == 1 && arg > 0xff) || (w == 2 && arg > 0xffff) || (w == 4 && arg > 0xffffffff) {
			w *= 2
		}
		return splice(src, n.Start, n.Start+headLen(n), mkHead(m, arg, w)), fmt.Sprintf("reform w%d %s@%d", w, n.Kind, n.Start)
	case mSpliceNode:
		n, _ := anyNode()
		var with []byte
		if len(pool) > 0 && r.Bool() {
			with = pool[r.Intn(len(pool))]
		} else {
			o, _ := anyNode()
			with = src[o.Start:o.End]
		}
		if len(with) > 1<<16 {
			with = with[:1<<16]
		}
		return splice(src, n.Start, n.End, with), fmt.Sprintf("splice@%d with %d bytes", n.Start, len(with))
	}
	return d.raw(r)
}

// raw: byte-level damage, also the only class for seeds that are not CBOR.
func (d *doc) raw(r *core.Rand) ([]byte, string) {
	src := d.src
	if len(src) == 0 {
		return []byte{byte(r.Intn(256))}, "raw one byte"
	}
	out := append([]byte(nil), src...)
	p := r.Intn(len(out))
	switch r.Intn(7) {
	case 0:
		out[p] ^= 1 << uint(r.Intn(8))
		return out, fmt.Sprintf("raw bitflip@%d", p)
	case 1:
		out[p] = byte(r.Intn(256))
		return out, fmt.Sprintf("raw set@%d", p)
	case 2:
		return out[:p], fmt.Sprintf("raw cut@%d", p)
	case 3:
		ins := r.Bytes(r.Range(1, 8))
		return splice(out, p, p, ins), fmt.Sprintf("raw insert@%d", p)
	case 4:
		q := p + r.Range(1, 16)
		if q > len(out) {
			q = len(out)
		}
		return splice(out, p, q), fmt.Sprintf("raw delete %d..%d", p, q)
	case 5:
		// repeat the input (long strings for the text decoders)
		k := r.Range(2, 40)
		return rep(src, k), fmt.Sprintf("raw repeat x%d", k)
	default:
		k := r.Range(1, 4)
		for i := 0; i < k; i++ {
			out[r.Intn(len(out))] = byte(r.Intn(256))
		}
		return out, fmt.Sprintf("raw set x%d", k)
	}
}

// randomTree builds a random well-formed CBOR item (small, all major types,
// random header forms).
func randomTree(r *core.Rand, depth int) *cborx.Node {
	forms := []cborx.Form{cborx.FormMinimal, cborx.FormMinimal, cborx.FormMinimal, cborx.Form1, cborx.Form2, cborx.Form4, cborx.Form8}
	k := r.Intn(12)
	if depth <= 0 && k >= 6 {
		k = r.Intn(6)
	}
	var n *cborx.Node
	switch k {
	case 0:
		n = cborx.U(uint64(r.Intn(32)))
	case 1:
		n = cborx.U(r.Uint64() >> uint(r.Intn(64)))
	case 2:
		n = cborx.NegArg(r.Uint64() >> uint(r.Intn(64)))
	case 3:
		sizes := []int{0, 1, 4, 28, 29, 32, 57, 64}
		n = cborx.B(r.Bytes(sizes[r.Intn(len(sizes))]))
	case 4:
		s := []string{"", "a", "addr", "Byron", "ipfs://x", "\xc3\xa9"}
		n = cborx.S(s[r.Intn(len(s))])
	case 5:
		switch r.Intn(5) {
		case 0:
			n = cborx.Null()
		case 1:
			n = cborx.Bool(r.Bool())
		case 2:
			n = cborx.Undef()
		case 3:
			n = &cborx.Node{Kind: cborx.Simple, Arg: 0x7e00, Form: cborx.Form2}
		default:
			n = &cborx.Node{Kind: cborx.Simple, Arg: r.Uint64(), Form: cborx.Form8}
		}
		return n
	case 6, 7, 8:
		cnt := r.Intn(6)
		items := make([]*cborx.Node, cnt)
		for i := range items {
			items[i] = randomTree(r, depth-1)
		}
		if cnt > 0 && r.Bool() {
			items[0] = cborx.U(uint64(r.Intn(32)))
		}
		n = cborx.A(items...)
		if r.Chance(1, 6) {
			n.Form = cborx.FormIndef
			return n
		}
	case 9, 10:
		cnt := r.Intn(4)
		items := make([]*cborx.Node, 0, 2*cnt)
		for i := 0; i < cnt; i++ {
			var key *cborx.Node
			if r.Chance(3, 4) {
				key = cborx.U(uint64(r.Intn(30)))
			} else {
				key = randomTree(r, depth-1)
			}
			items = append(items, key, randomTree(r, depth-1))
		}
		n = cborx.M(items...)
		if r.Chance(1, 6) {
			n.Form = cborx.FormIndef
			return n
		}
	default:
		n = cborx.T(tagPool[r.Intn(len(tagPool))], randomTree(r, depth-1))
	}
	f := forms[r.Intn(len(forms))]
	if f != cborx.FormMinimal {
		n.SetForm(f)
	}
	return n
}

// sysConfusers: one representative of every major type / shape for the
// systematic sweep.
var sysConfusers = [][]byte{{0x00}, {0x20}, {0x40}, {0x60}, {0x80}, {0xa0}, {0xf6}, {0xc2, 0x40}, {0xd8, 0x18, 0x40}, {0x81, 0x80}, {0x1b, 0xff, 0xff, 0xff, 0xff, 0xff, 0xff, 0xff, 0xff}, {0xf5}, {0xa1, 0xc6, 0x80, 0x00}}

// systematic enumerates, without randomness, the arity and type-confusion
// mutants of the outer levels of a seed (breadth first, depth <= 3): every
// container cut to its first k elements, its count raised by one, and every
// item replaced by one representative of each other major type. At most limit
// mutants are returned.
func (d *doc) systematic(limit int) (outs [][]byte, descs []string) {
	if !d.ok || limit <= 0 {
		return nil, nil
	}
	src := d.src
	depth := make([]int, len(d.nodes))
	order := make([]int, 0, len(d.nodes))
	for i := range d.nodes {
		if d.parent[i] >= 0 {
			depth[i] = depth[d.parent[i]] + 1
		}
	}
	for dep := 0; dep <= 3; dep++ {
		for i := range d.nodes {
			if depth[i] == dep {
				order = append(order, i)
			}
		}
	}
	emit := func(b []byte, desc string) bool {
		outs = append(outs, b)
		descs = append(descs, desc)
		return len(outs) >= limit
	}
	// pass 1: arity, pass 2: confusion (so that a small limit still covers all containers)
	for _, i := range order {
		c := d.nodes[i]
		if !c.IsContainer() {
			continue
		}
		per := 1
		if c.Kind == cborx.Map {
			per = 2
		}
		cnt := len(c.Items) / per
		var ks []int
		if cnt <= 10 {
			for k := 0; k < cnt; k++ {
				ks = append(ks, k)
			}
		} else {
			ks = []int{0, 1, 2, cnt - 2, cnt - 1}
		}
		for _, k := range ks {
			lo := c.Start + headLen(c)
			if k > 0 {
				lo = c.Items[k*per-1].End
			}
			hi := c.Items[len(c.Items)-1].End
			out := splice(src, lo, hi)
			if c.Form != cborx.FormIndef {
				out = splice(out, c.Start, c.Start+headLen(c), minHead(major(c.Kind), uint64(k)))
			}
			if emit(out, fmt.Sprintf("sys arity=%d of %d %s@%d", k, cnt, c.Kind, c.Start)) {
				return
			}
		}
		if c.Form != cborx.FormIndef {
			end := c.End
			extra := []byte{0x00}
			if per == 2 {
				extra = []byte{0x18, 0x63, 0x00}
			}
			out := splice(src, end, end, extra)
			out = splice(out, c.Start, c.Start+headLen(c), minHead(major(c.Kind), uint64(cnt+1)))
			if emit(out, fmt.Sprintf("sys arity+1 %s@%d", c.Kind, c.Start)) {
				return
			}
		}
	}
	for _, i := range order {
		n := d.nodes[i]
		for _, cf := range sysConfusers {
			if cf[0]>>5 == major(n.Kind) && len(cf) == 1 && n.End-n.Start == 1 {
				continue
			}
			if emit(splice(src, n.Start, n.End, cf), fmt.Sprintf("sys confuse %s@%d with %x", n.Kind, n.Start, cf)) {
				return
			}
		}
	}
	return
}

// systematicInflate: every length field of the outer levels (breadth first,
// depth <= 3) set to 2^16, 2^31 and 2^63 in turn, content unchanged.
func (d *doc) systematicInflate(limit int) (outs [][]byte, descs []string) {
	if !d.ok || limit <= 0 {
		return nil, nil
	}
	depth := make([]int, len(d.nodes))
	for i := range d.nodes {
		if d.parent[i] >= 0 {
			depth[i] = depth[d.parent[i]] + 1
		}
	}
	for dep := 0; dep <= 3; dep++ {
		for i, n := range d.nodes {
			if depth[i] != dep || !(n.IsContainer() || n.Kind == cborx.Bytes || n.Kind == cborx.Text) {
				continue
			}
			for _, ia := range inflateArgs[:3] {
				outs = append(outs, splice(d.src, n.Start, n.Start+headLen(n), mkHead(major(n.Kind), ia.arg, ia.width)))
				descs = append(descs, fmt.Sprintf("sys inflate %s@%d to %#x", n.Kind, n.Start, ia.arg))
				if len(outs) >= limit {
					return
				}
			}
		}
	}
	return
}
