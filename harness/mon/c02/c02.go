// Package c02 monitors C02: decoders are total on arbitrary bytes. Every
// public decoding entry point of gouroboros is called on random bytes,
// structure-aware mutants of valid encodings and the committed fuzz corpora;
// the oracle is: the call returns (value or error) – no panic, no stall, and
// the bytes it allocates stay within A*len(input)+B.
package c02

import (
	"crypto/sha256"
	"encoding/json"
	"fmt"
	"os"
	"os/exec"
	"path/filepath"
	"runtime"
	"sort"
	"strconv"
	"strings"
	"sync"
	"sync/atomic"
	"syscall"
	"time"

	"verifharness/cborx"
	"verifharness/core"
)

const (
	allocA = 4096
	allocB = 8 << 20

	// Watchdogs (wall clock, never a verdict by themselves): a call still
	// running after stallSuspect is re-run alone in a fresh process; only when
	// that process does not finish within stallSolo either – and its goroutine
	// dump shows the decoder frames – is a stall reported.
	stallSuspect = 25 * time.Second
	stallSolo    = 90 * time.Second
)

func init() {
	core.Register(&core.Monitor{
		ID:    "C02",
		Level: "exploration",
		Rule: "table of public decoding entry points (message decoders: x message type 0..31) x three generators with fixed counts: (a) uniform random bytes on a length grid 0..64 / 65..65536 plus random well-formed CBOR trees, " +
			"(b) structure-aware mutants of valid seeds (corpus blocks, their transactions/headers/outputs/addresses/scripts, messages built with the NewMsg* constructors, hex test vectors of the repository; every valid item is also fed as-is to every entry point) in 13 random classes " +
			"(truncate at item boundary, inflate length to 2^16/2^31/2^63, wrap N in {1,16,255,256,257,1000} arrays/tags/maps, tag swap, type confusion, duplicate map key, bad indefinite string, misplaced break, arity, integer edge, header re-form, splice, raw) " +
			"plus deterministic sweeps over the outer three levels of each seed (every arity, every item type-confused, every length field inflated) and nesting 12000..30000 deep in six container kinds, " +
			"and decodable-but-inconsistent blocks (witness set / body dropped or duplicated, auxiliary-data and invalid-transaction indexes beyond the transaction count, Byron input/witness counts; as is and with the header body hash recomputed), " +
			"(c) the committed go-fuzz corpora. After every successful decode through a ledger entry point (blocks incl. WithOffsets, headers, transactions, bodies, outputs) and a message decoder the returned value is walked through the ledger/common interfaces inside the same guard (Header, Transactions, per tx Hash/Inputs/Outputs/Fee/TTL/Certificates/Withdrawals/Metadata/AuxiliaryData/Consumed/Produced/Witnesses/Cbor ...; no Utxorpc/ToPlutusData): a value that cannot be read is a violation keyed value-walk:<accessor>. " +
			" A case is non-trivial when the input is non-empty and, for (b), differs from its seed; distinct by (entry point, message type, sha256(input)). " +
			"Panic and termination are judged on every call; allocation (TotalAlloc delta <= 4096*len*(1+depth)+8MiB) on the calls of a serial pass that holds all inflate / nesting cases.",
		MinNontrivial:   8000,
		Assumptions:     []string{"runtime.MemStats.TotalAlloc is exact for a single running goroutine", "cborx item boundaries are correct (independent reader)", "a decoder that is still running after 90 s alone in a fresh process on an input <= 1 MiB has stalled"},
		QuickTimeout:    900,
		ThoroughTimeout: 3 * 3600,
		Run:             run,
	})
}

// ------------------------------------------------------------------ slots

// slot: what one worker is doing right now (for the watchdog and the journal).
type slot struct {
	id      int
	mu      sync.Mutex
	busy    bool
	start   time.Time
	e       *entry
	in      []byte
	aux     uint
	gen     string
	flagged bool
	walker  *walker
	counts  map[string]int
}

type mon struct {
	c       *core.Ctx
	entries []*entry
	byName  map[string]*entry
	slots   chan *slot
	all     []*slot
	caseNo  atomic.Int64
	stop    chan struct{}

	// heavy: confirmed alloc violations + calls the watchdog had to look at. Once
	// a few have been seen (only possible on a broken tree) the remaining
	// deep-nesting cases are skipped: each would cost minutes without adding
	// information.
	heavy atomic.Int64

	maxRatioMu sync.Mutex
	maxRatio   float64
	maxRatioAt string
	maxDelta   uint64
}

func (m *mon) acquire() *slot  { return <-m.slots }
func (m *mon) release(s *slot) { m.slots <- s }

func (m *mon) flushCounts() {
	for _, s := range m.all {
		s.mu.Lock()
		for k, v := range s.counts {
			m.c.Count(k, v)
		}
		s.counts = map[string]int{}
		s.mu.Unlock()
	}
}

type outcome struct {
	panicked bool
	val      any
	stack    string
	err      error
	alloc    uint64 // decode + walk
	// value walk
	walked    bool   // the decoder returned a value and the walk was started
	accessor  string // accessor being called when the walk ended abnormally
	allocWalk uint64
	walkCalls int
}

// runCall makes the one call of a case: the decoder and, when it returned a
// value without error, the walk over that value – both inside the same
// recover guard. measure brackets it with MemStats (serial pass only).
func runCall(e *entry, in []byte, aux uint, measure bool, w *walker) (o outcome) {
	var m0, mm, m1 runtime.MemStats
	if measure {
		runtime.ReadMemStats(&m0)
	}
	o.panicked, o.val, o.stack = core.Safely(func() {
		if e.callV == nil {
			o.err = e.call(in, aux)
			return
		}
		v, err := e.callV(in, aux)
		o.err = err
		if err != nil {
			return
		}
		if measure {
			runtime.ReadMemStats(&mm)
		}
		o.walked = true
		walkValue(v, w)
		w.cur.Store(nil)
	})
	if measure {
		runtime.ReadMemStats(&m1)
		o.alloc = m1.TotalAlloc - m0.TotalAlloc
		if o.walked {
			o.allocWalk = m1.TotalAlloc - mm.TotalAlloc
		}
	}
	o.accessor = w.accessor()
	o.walkCalls = w.calls
	return o
}

// journalInput writes the journal line for a case. Small inputs go in as hex,
// large ones into the worker's own file (overwritten per case).
func (m *mon) journalInput(s *slot, e *entry, in []byte, aux uint, gen string) {
	if len(in) <= 1200 {
		m.c.Journal("C02 %s aux=%d gen=%s len=%d hex=%x", e.name, aux, gen, len(in), in)
		return
	}
	path := filepath.Join(m.c.WorkDir, fmt.Sprintf("in-%02d.bin", s.id))
	_ = os.WriteFile(path, in, 0o644)
	m.c.Journal("C02 %s aux=%d gen=%s len=%d file=%s", e.name, aux, gen, len(in), path)
}

// exec runs one case under the panic oracle; measure adds the allocation oracle
// (only meaningful while no other case is running).
func (m *mon) exec(s *slot, e *entry, in []byte, aux uint, gen string, measure bool) outcome {
	m.journalInput(s, e, in, aux, gen)
	s.mu.Lock()
	w := &walker{}
	s.busy, s.start, s.e, s.in, s.aux, s.gen, s.flagged, s.walker = true, time.Now(), e, in, aux, gen, false, w
	s.mu.Unlock()
	o := runCall(e, in, aux, measure, w)
	s.mu.Lock()
	s.busy = false
	flagged := s.flagged
	dur := time.Since(s.start)
	s.mu.Unlock()
	if flagged {
		// the watchdog suspected this call; it did come back
		m.heavy.Add(1)
		m.c.Count("slow_calls_completed", 1)
		fmt.Fprintf(os.Stderr, "C02: slow call completed after %v: %s aux=%d len=%d\n", dur, e.name, aux, len(in))
	}
	m.c.Eval()
	return o
}

// allocBound: A*len*(1+depth)+B. The decoders of this library (cbor.Value,
// the metadatum decoder, the diagnostic parser) re-decode or copy the remaining
// bytes once per nesting level, so the volume they allocate is legitimately
// proportional to input size times nesting depth. depth is the nesting depth
// actually present in the input (tolerant scan) – a length *claimed* by a
// header does not raise it. The library refuses nesting beyond 256 levels
// (cbor decoding modes, diagnostic parser); an input nested deeper than
// deepLimit therefore has to be turned down after a linear scan and gets no
// depth factor at all: bound A*len+B.
const deepLimit = 1024

func allocBound(in []byte) uint64 {
	d := nestingDepth(in)
	if d > deepLimit {
		d = 0
	}
	return uint64(allocA)*uint64(len(in))*uint64(1+d) + allocB
}

// nestingDepth scans item heads from the start of b and returns the deepest
// container / tag nesting reached before the input ends or stops making sense.
func nestingDepth(b []byte) int {
	type fr struct {
		left  uint64
		indef bool
	}
	var st []fr
	maxd := 0
	closeDone := func() {
		for len(st) > 0 && !st[len(st)-1].indef && st[len(st)-1].left == 0 {
			st = st[:len(st)-1]
		}
	}
	i := 0
	for i < len(b) {
		ib := b[i]
		maj, ai := ib>>5, ib&0x1f
		i++
		var arg uint64
		switch {
		case ai < 24:
			arg = uint64(ai)
		case ai <= 27:
			w := 1 << (ai - 24)
			if i+w > len(b) {
				return maxd
			}
			for k := 0; k < w; k++ {
				arg = arg<<8 | uint64(b[i+k])
			}
			i += w
		case ai == 31:
			if maj == 7 { // break
				for len(st) > 0 && !st[len(st)-1].indef {
					st = st[:len(st)-1]
				}
				if len(st) == 0 {
					return maxd
				}
				st = st[:len(st)-1]
				if len(st) > 0 && !st[len(st)-1].indef && st[len(st)-1].left > 0 {
					st[len(st)-1].left--
				}
				closeDone()
				continue
			}
		default:
			return maxd
		}
		// this head consumes one slot of its parent
		opened := false
		switch maj {
		case 2, 3:
			if ai == 31 {
				st = append(st, fr{indef: true})
				opened = true
			} else {
				if arg > uint64(len(b)-i) {
					return maxd
				}
				i += int(arg)
			}
		case 4, 5, 6:
			n := arg
			if maj == 5 {
				if n > uint64(len(b)) {
					n = uint64(len(b))
				}
				n *= 2
			}
			if maj == 6 {
				n = 1
			}
			if ai == 31 && maj != 6 {
				st = append(st, fr{indef: true})
			} else {
				st = append(st, fr{left: n})
			}
			opened = true
		}
		if opened {
			if len(st) > maxd {
				maxd = len(st)
			}
			// the parent's slot is consumed when the child closes; account now
			if len(st) >= 2 {
				p := &st[len(st)-2]
				if !p.indef && p.left > 0 {
					p.left--
				}
			}
			closeDone()
			continue
		}
		if len(st) > 0 {
			p := &st[len(st)-1]
			if !p.indef && p.left > 0 {
				p.left--
			}
		}
		closeDone()
	}
	return maxd
}

// judge applies the oracles to an outcome and does the bookkeeping.
func (m *mon) judge(s *slot, e *entry, in []byte, aux uint, gen, desc string, o outcome, nontrivial bool) {
	if nontrivial && len(in) > 0 {
		h := sha256.Sum256(in)
		m.c.Distinct(e.name, aux, h)
	}
	s.mu.Lock()
	s.counts["gen_"+gen]++
	switch {
	case o.panicked:
		s.counts["outcome_panic"]++
	case o.err == nil:
		s.counts["outcome_accept"]++
		s.counts["accept_"+gen]++
		if o.walked {
			s.counts["values_walked"]++
			s.counts["walk_accessor_calls"] += o.walkCalls
		}
	default:
		s.counts["outcome_reject"]++
	}
	s.mu.Unlock()
	if o.panicked {
		m.reportPanic(e, in, aux, gen, desc, o)
	}
}

func witness(e *entry, in []byte, aux uint, gen, desc string) map[string]any {
	w := map[string]any{"entry": e.name, "len": len(in), "generator": gen, "mutation": desc}
	if e.auxN > 0 {
		w["aux_msg_type"] = aux
	}
	if len(in) <= 1<<16 {
		w["input_hex"] = core.HexFull(in)
	} else {
		w["input_hex_prefix"] = core.HexFull(in[:4096])
		w["input_sha256"] = fmt.Sprintf("%x", sha256.Sum256(in))
	}
	return w
}

func (m *mon) reportPanic(e *entry, in []byte, aux uint, gen, desc string, o outcome) {
	class := panicClass(o.val)
	site, inner, harness := panicSite(o.stack)
	if harness {
		// the panic was raised by harness code, not by the library: never a finding
		m.c.Inconclusive(fmt.Sprintf("harness panic in %s: %v", e.name, o.val))
		fmt.Fprintf(os.Stderr, "C02: HARNESS PANIC %s: %v\n%s\n", e.name, o.val, o.stack)
		return
	}
	key := fmt.Sprintf("C02:%s:panic:%s@%s", e.keyName(aux), class, site)
	w := witness(e, in, aux, gen, desc)
	if o.walked {
		// the decoder had already returned (value, nil): the value cannot be read
		acc := o.accessor
		if acc == "" {
			acc = "unknown"
		}
		w["accessor"] = acc
		w["panic"] = fmt.Sprint(o.val)
		w["panic_site"] = site
		w["innermost_frame"] = inner
		w["stack"] = trimStack(o.stack)
		m.c.Violation(fmt.Sprintf("C02:%s:value-walk:%s", e.keyName(aux), lastAccessor(acc)),
			fmt.Sprintf("%s accepted a %d-byte input (%s) but the returned value cannot be read: %s panicked: %v [at %s]", e.keyName(aux), len(in), gen, acc, o.val, inner), w)
		return
	}
	w["panic"] = fmt.Sprint(o.val)
	w["panic_site"] = site
	w["innermost_frame"] = inner
	w["stack"] = trimStack(o.stack)
	m.c.Violation(key, fmt.Sprintf("%s panicked on a %d-byte input (%s): %v [at %s]", e.keyName(aux), len(in), gen, o.val, inner), w)
}

// lastAccessor: "Transactions[].Outputs[].Address.String" -> "Address.String"
// would still be many keys; the key carries the outermost accessor that is not
// an index step, i.e. the first path element ("Transactions", "Header", ...),
// plus the final one when different.
func lastAccessor(path string) string {
	parts := strings.Split(strings.ReplaceAll(path, "[]", ""), ".")
	if len(parts) == 1 {
		return parts[0]
	}
	return parts[0] + "." + parts[len(parts)-1]
}

func panicClass(v any) string {
	s := fmt.Sprint(v)
	if err, ok := v.(error); ok {
		s = err.Error()
	}
	switch {
	case strings.Contains(s, "index out of range"):
		return "index"
	case strings.Contains(s, "slice bounds out of range"):
		return "slice-bounds"
	case strings.Contains(s, "nil pointer dereference"), strings.Contains(s, "nil map"):
		return "nil-deref"
	case strings.Contains(s, "interface conversion"):
		return "type-assert"
	case strings.Contains(s, "makeslice"), strings.Contains(s, "makemap"), strings.Contains(s, "makechan"):
		return "makeslice"
	case strings.Contains(s, "unhashable"):
		return "unhashable"
	case strings.Contains(s, "divide by zero"):
		return "div-zero"
	case strings.HasPrefix(s, "reflect"):
		return "reflect"
	case strings.Contains(s, "out of memory"), strings.Contains(s, "too large"):
		return "oversize"
	}
	return "other"
}

const repoPrefix = "github.com/blinklabs-io/gouroboros/"

// panicSite returns the innermost gouroboros function on the panicking stack
// (short form, for the key), the innermost non-runtime frame (which may be a
// dependency) and whether the panic was raised directly by harness code.
func panicSite(stack string) (site, inner string, harness bool) {
	lines := strings.Split(stack, "\n")
	i := 0
	for ; i < len(lines); i++ {
		if strings.HasPrefix(lines[i], "panic(") {
			break
		}
	}
	site, inner = "unknown", ""
	for i++; i < len(lines); i++ {
		l := lines[i]
		if l == "" || l[0] == '\t' || strings.HasPrefix(l, "runtime.") || strings.HasPrefix(l, "runtime/") || strings.HasPrefix(l, "panic(") {
			continue
		}
		fnName := l
		if j := strings.LastIndex(fnName, "("); j > 0 {
			fnName = fnName[:j]
		}
		if inner == "" {
			inner = fnName
			if strings.HasPrefix(fnName, "verifharness/") {
				return "harness", inner, true
			}
		}
		if strings.HasPrefix(fnName, repoPrefix) {
			site = strings.TrimPrefix(fnName, repoPrefix)
			// drop generic instantiation noise and closure suffixes
			if j := strings.Index(site, "["); j > 0 {
				site = site[:j]
			}
			return site, inner, false
		}
		if strings.HasPrefix(fnName, "verifharness/") {
			// reached the harness without meeting a gouroboros frame (inlined entry)
			return "inlined", inner, false
		}
	}
	return site, inner, false
}

func trimStack(s string) string {
	lines := strings.Split(s, "\n")
	if len(lines) > 60 {
		lines = lines[:60]
	}
	return strings.Join(lines, "\n")
}

// ------------------------------------------------------------------ solo re-run

type soloCase struct {
	Entry string `json:"entry"`
	Aux   uint   `json:"aux"`
	File  string `json:"file"`
	Mode  string `json:"mode"`
}
type soloResult struct {
	Done      bool   `json:"done"`
	Panicked  bool   `json:"panicked"`
	Panic     string `json:"panic"`
	Alloc     uint64 `json:"alloc"`
	AllocWalk uint64 `json:"alloc_walk"`
	Accessor  string `json:"accessor"`
	Ms        int64  `json:"ms"`
}

// soloMain is what a fresh process started by runSolo does: one call, alone.
func soloMain(c *core.Ctx, path string) {
	b, err := os.ReadFile(path)
	if err != nil {
		fmt.Fprintln(os.Stderr, "solo:", err)
		return
	}
	var sc soloCase
	if json.Unmarshal(b, &sc) != nil {
		return
	}
	in, err := os.ReadFile(sc.File)
	if err != nil {
		return
	}
	var e *entry
	for _, x := range buildEntries() {
		if x.name == sc.Entry {
			e = x
		}
	}
	if e == nil {
		return
	}
	// warm up the lazily initialised decoder modes so they are not billed to the call
	_ = e.call([]byte{0x80}, sc.Aux)
	runtime.GC()
	var res soloResult
	t0 := time.Now()
	o := runCall(e, in, sc.Aux, true, &walker{})
	res.Done, res.Panicked, res.Alloc, res.AllocWalk, res.Accessor, res.Ms = true, o.panicked, o.alloc, o.allocWalk, o.accessor, time.Since(t0).Milliseconds()
	if o.panicked {
		res.Panic = fmt.Sprint(o.val)
	}
	out, _ := json.Marshal(res)
	_ = os.WriteFile(path+".out", out, 0o644)
}

var soloSeq atomic.Int64

// runSolo re-runs one case alone in a fresh process. ok=false: it could not be
// run; timedOut: it did not finish within the timeout (dump = goroutine dump).
func (m *mon) runSolo(e *entry, in []byte, aux uint, timeout time.Duration) (res soloResult, timedOut bool, dump string, ok bool) {
	n := soloSeq.Add(1)
	dir := filepath.Join(m.c.WorkDir, fmt.Sprintf("solo-%d", n))
	work := filepath.Join(dir, ".work", "C02")
	if err := os.MkdirAll(work, 0o755); err != nil {
		return
	}
	inFile := filepath.Join(dir, "input.bin")
	caseFile := filepath.Join(dir, "case.json")
	_ = os.WriteFile(inFile, in, 0o644)
	cb, _ := json.Marshal(soloCase{Entry: e.name, Aux: aux, File: inFile})
	_ = os.WriteFile(caseFile, cb, 0o644)
	logPath := filepath.Join(dir, "log")
	logf, err := os.Create(logPath)
	if err != nil {
		return
	}
	cmd := exec.Command(os.Args[0], "-child", "C02", m.c.Tier)
	cmd.Stdout, cmd.Stderr = logf, logf
	cmd.Env = append(os.Environ(), "VERIF_C02_SOLO="+caseFile, "VERIF_DIR="+dir, "GOTRACEBACK=all")
	if err := cmd.Start(); err != nil {
		logf.Close()
		return
	}
	done := make(chan error, 1)
	go func() { done <- cmd.Wait() }()
	select {
	case <-done:
	case <-time.After(timeout):
		timedOut = true
		_ = cmd.Process.Signal(syscall.SIGQUIT)
		select {
		case <-done:
		case <-time.After(15 * time.Second):
			_ = cmd.Process.Kill()
			<-done
		}
	}
	logf.Close()
	if lb, err := os.ReadFile(logPath); err == nil {
		dump = string(lb)
		if len(dump) > 20000 {
			dump = dump[:20000]
		}
	}
	if ob, err := os.ReadFile(caseFile + ".out"); err == nil {
		_ = json.Unmarshal(ob, &res)
	}
	ok = true
	if !timedOut {
		os.RemoveAll(dir)
	}
	return
}

// runOne is a development aid (witness minimisation): VERIF_C02_ONE is
// "<entry name>|<aux>|<hex>"; the single call is made and its outcome printed.
// Nothing is recorded, the run ends without cases (exit 2).
func runOne(spec string) {
	parts := strings.SplitN(spec, "|", 3)
	if len(parts) != 3 {
		fmt.Println("VERIF_C02_ONE=<entry>|<aux>|<hex>")
		return
	}
	aux, _ := strconv.Atoi(parts[1])
	in := core.MustUnhex(parts[2])
	for _, e := range buildEntries() {
		if e.name != parts[0] {
			continue
		}
		_ = e.call([]byte{0x80}, uint(aux))
		o := runCall(e, in, uint(aux), true, &walker{})
		site, inner, _ := panicSite(o.stack)
		fmt.Printf("ONE %s aux=%d len=%d panicked=%v val=%v class=%s site=%s inner=%s err=%v alloc=%d walked=%v accessor=%q walk_calls=%d alloc_walk=%d\n", e.name, aux, len(in), o.panicked, o.val, panicClass(o.val), site, inner, o.err, o.alloc, o.walked, o.accessor, o.walkCalls, o.allocWalk)
		return
	}
	fmt.Println("ONE: no such entry", parts[0])
}

// ------------------------------------------------------------------ watchdog

func (m *mon) watchdog() {
	t := time.NewTicker(500 * time.Millisecond)
	defer t.Stop()
	for {
		select {
		case <-m.stop:
			return
		case <-t.C:
		}
		for _, s := range m.all {
			s.mu.Lock()
			suspect := s.busy && !s.flagged && time.Since(s.start) > stallSuspect
			var e *entry
			var in []byte
			var aux uint
			var gen, acc string
			if suspect {
				s.flagged = true
				e, in, aux, gen = s.e, s.in, s.aux, s.gen
				if s.walker != nil {
					acc = s.walker.accessor()
				}
			}
			s.mu.Unlock()
			if !suspect {
				continue
			}
			fmt.Fprintf(os.Stderr, "C02: watchdog: %s aux=%d len=%d still running after %v, re-running alone\n", e.name, aux, len(in), stallSuspect)
			res, timedOut, dump, ok := m.runSolo(e, in, aux, stallSolo)
			switch {
			case !ok:
				m.c.Inconclusive(fmt.Sprintf("watchdog: %s exceeded %v and could not be re-run alone", e.name, stallSuspect))
			case timedOut && strings.Contains(dump, repoPrefix):
				w := witness(e, in, aux, gen, "")
				w["goroutine_dump"] = dump
				w["solo_timeout_s"] = stallSolo.Seconds()
				key := fmt.Sprintf("C02:%s:stall", e.keyName(aux))
				if acc != "" {
					w["accessor"] = acc
					key = fmt.Sprintf("C02:%s:value-walk:stall", e.keyName(aux))
				}
				m.c.Violation(key,
					fmt.Sprintf("%s did not return on a %d-byte input: > %v inside the run and > %v alone in a fresh process; the goroutine dump shows the decoder frames", e.keyName(aux), len(in), stallSuspect, stallSolo), w)
				// the worker goroutine cannot be cancelled: end the run here with
				// what was observed (the result file carries the violation)
				m.flushCounts()
				m.c.Note("ended_early", "a confirmed stall blocks a worker forever")
				m.c.Finish()
				os.Exit(0)
			case timedOut:
				m.c.Inconclusive(fmt.Sprintf("watchdog: %s exceeded %v alone but the dump shows no decoder frames", e.name, stallSolo))
			default:
				_ = res
				m.c.Inconclusive(fmt.Sprintf("watchdog: %s aux=%d len=%d took > %v under load but %d ms alone", e.name, aux, len(in), stallSuspect, res.Ms))
			}
		}
	}
}

// ------------------------------------------------------------------ run

type caseSpec struct {
	e    *entry
	gen  byte // 'a' random bytes, 'A' random tree, 'b' mutant, 'c' fuzz corpus, 's' seed as is
	idx  int  // per (entry, gen) index
	cl   int  // mutation class for 'b' (-1 = drawn from the stream)
	data []byte
	aux  uint
	desc string
}

var deepKinds = []struct {
	pre, post []byte
	n         int
}{
	{[]byte{0x81}, nil, 30000},
	{[]byte{0xa1, 0x00}, nil, 20000},
	{[]byte{0x9f}, []byte{0xff}, 20000},
	{[]byte{0xc6}, nil, 30000},
	{[]byte{0xd8, 0x79, 0x81}, nil, 12000},
	{[]byte{0xa1}, []byte{0x00}, 20000},
}

var lengthGrid = func() []int {
	var g []int
	for i := 0; i <= 64; i++ {
		g = append(g, i)
	}
	return append(g, 65, 96, 127, 128, 129, 255, 256, 257, 511, 512, 1000, 1024, 4095, 4096, 4097, 16384, 65535, 65536)
}()

func run(c *core.Ctx) {
	if p := os.Getenv("VERIF_C02_SOLO"); p != "" {
		soloMain(c, p)
		return
	}
	if one := os.Getenv("VERIF_C02_ONE"); one != "" {
		runOne(one)
		return
	}
	m := &mon{c: c, entries: buildEntries(), byName: map[string]*entry{}, stop: make(chan struct{})}
	for _, e := range m.entries {
		if m.byName[e.name] != nil {
			panic("duplicate entry " + e.name)
		}
		m.byName[e.name] = e
	}
	nslots := runtime.GOMAXPROCS(0) + 1
	m.slots = make(chan *slot, nslots)
	for i := 0; i < nslots; i++ {
		s := &slot{id: i, counts: map[string]int{}}
		m.all = append(m.all, s)
		m.slots <- s
	}
	go m.watchdog()
	defer close(m.stop)

	pl, err := buildPools(c.RepoDir)
	if err != nil {
		c.Inconclusive("corpus not readable: " + err.Error())
		return
	}
	// engine self-check: cborx reads every corpus block and writes it back identically
	for _, s := range pl.m["block"] {
		if d := newDoc(s.b); !d.ok || string(d.nodes[0].Encode()) != string(s.b) {
			c.Inconclusive("cborx self-check failed on " + s.name)
			return
		}
	}
	t0 := time.Now()
	m.warmup()
	m.discover(pl)
	m.flushCounts()
	c.Note("phase_seconds_discover", time.Since(t0).Seconds())
	c.Note("seed_candidates", len(pl.m["any"]))

	fuzz := loadFuzzCorpora(c.RepoDir)
	c.Note("fuzz_corpus_files", len(fuzz))
	c.Note("entry_points", len(m.entries))
	var names []string
	seedless := 0
	for _, e := range m.entries {
		names = append(names, e.name)
		if len(e.seeds) == 0 {
			seedless++
		}
	}
	c.Note("entry_point_names", names)
	c.Note("entry_points_without_valid_seed", seedless)

	anyPool := make([][]byte, 0, len(pl.m["any"]))
	for _, s := range pl.m["any"] {
		anyPool = append(anyPool, s.b)
	}

	// ---- case lists (fixed by counts and the PRNG)
	var totalW float64
	for _, e := range m.entries {
		totalW += e.weight
	}
	budget := float64(c.N(30000, 4200000))
	var serial, par []caseSpec
	for _, e := range m.entries {
		share := budget * e.weight / totalW
		nA := int(share * 0.12)
		nT := int(share * 0.13)
		nB := int(share * 0.75)
		for i := 0; i < nA; i++ {
			par = append(par, caseSpec{e: e, gen: 'a', idx: i, cl: -1})
		}
		for i := 0; i < nT; i++ {
			par = append(par, caseSpec{e: e, gen: 'A', idx: i, cl: -1})
		}
		for i := 0; i < nB; i++ {
			par = append(par, caseSpec{e: e, gen: 'b', idx: i, cl: -1})
		}
		// serial allocation pass: every class that manipulates a claimed length
		// or the nesting depth, plus a sample of everything else
		nS := c.N(12, 1200)
		if e.weight < 1 {
			nS = c.N(8, 500)
		}
		for i := 0; i < nS; i++ {
			cl := -1
			switch i % 4 {
			case 0, 1:
				cl = mInflate
			case 2:
				cl = mWrap
			}
			serial = append(serial, caseSpec{e: e, gen: 'b', idx: 1000000 + i, cl: cl})
		}
		for i := 0; i < c.N(4, 60); i++ {
			serial = append(serial, caseSpec{e: e, gen: 'a', idx: 1000000 + i, cl: -1})
		}
		// nesting far beyond every limit of the library, in each container kind
		for k := 0; k < len(deepKinds); k++ {
			serial = append(serial, caseSpec{e: e, gen: 'D', idx: k})
		}
		// (b, systematic part) arity / type-confusion sweep over the outer levels of
		// the entry's own seeds, smallest seeds first
		if len(e.seeds) > 0 {
			capE := c.N(160, 4000)
			sorted := append([]*seed(nil), e.seeds...)
			sort.SliceStable(sorted, func(a, b int) bool { return len(sorted[a].b) < len(sorted[b].b) })
			if len(sorted) > 16 {
				sorted = sorted[:16]
			}
			perSeed := capE / len(sorted)
			if perSeed < 12 {
				perSeed = 12
			}
			n := 0
			for _, sd := range sorted {
				if n >= capE || len(sd.b) > 40000 {
					break
				}
				outs, descs := sd.d.systematic(perSeed)
				for k := range outs {
					par = append(par, caseSpec{e: e, gen: 'S', idx: n, data: outs[k], aux: sd.aux, desc: sd.name + ": " + descs[k]})
					n++
				}
			}
			// the same sweep for the length fields, measured in the serial pass
			capI := c.N(48, 1500)
			perSeedI := capI / len(sorted)
			if perSeedI < 6 {
				perSeedI = 6
			}
			n = 0
			for _, sd := range sorted {
				if n >= capI || len(sd.b) > 40000 {
					break
				}
				outs, descs := sd.d.systematicInflate(perSeedI)
				for k := range outs {
					serial = append(serial, caseSpec{e: e, gen: 'I', idx: n, data: outs[k], aux: sd.aux, desc: sd.name + ": " + descs[k]})
					n++
				}
			}
		}
		// (b, inconsistent blocks) decodable blocks whose parallel parts do not fit
		if e.blk > 0 {
			n := 0
			for _, sd := range pl.m["block:"+blockTypeNames[e.blk-1]] {
				if len(sd.b) > 100000 || strings.HasSuffix(sd.name, "/trimmed") {
					continue
				}
				for _, bm := range inconsistentBlocks(uint(e.blk-1), sd.b, c.Thorough()) {
					par = append(par, caseSpec{e: e, gen: 'X', idx: n, data: bm.b, desc: sd.name + ": " + bm.desc})
					n++
				}
			}
		}
		// (c) fuzz corpora: every file against every entry point
		for fi, f := range fuzz {
			if e.auxN > 0 {
				for t := 0; t < 13; t++ {
					par = append(par, caseSpec{e: e, gen: 'c', idx: fi, data: f.data, aux: uint(t)})
				}
				if f.hasU {
					par = append(par, caseSpec{e: e, gen: 'c', idx: fi, data: f.data, aux: f.u % 32})
				}
			} else {
				par = append(par, caseSpec{e: e, gen: 'c', idx: fi, data: f.data})
			}
		}
	}
	c.Note("cases_serial_alloc_pass", len(serial))
	c.Note("cases_parallel_pass", len(par))

	// ---- serial pass: panic + allocation oracle, one call at a time
	t0 = time.Now()
	s := m.acquire()
	for _, cs := range serial {
		if cs.gen == 'D' && m.heavy.Load() >= 3 {
			c.Count("deep_cases_skipped_after_3_slow_or_oversized_calls", 1)
			continue
		}
		in, aux, gen, desc, nontrivial := m.makeCase(cs, anyPool)
		o := m.exec(s, cs.e, in, aux, gen, true)
		m.judge(s, cs.e, in, aux, gen, desc, o, nontrivial)
		s.mu.Lock()
		s.counts["alloc_measured"]++
		s.mu.Unlock()
		if !o.panicked {
			m.judgeAlloc(cs.e, in, aux, gen, desc, o)
		}
	}
	m.release(s)
	m.flushCounts()
	c.Note("phase_seconds_serial", time.Since(t0).Seconds())
	t0 = time.Now()

	// ---- parallel pass: panic + termination oracle
	c.Parallel("par", len(par), 0, func(i int, _ *core.Rand) {
		cs := par[i]
		in, aux, gen, desc, nontrivial := m.makeCase(cs, anyPool)
		s := m.acquire()
		o := m.exec(s, cs.e, in, aux, gen, false)
		m.judge(s, cs.e, in, aux, gen, desc, o, nontrivial)
		if i%977 == 0 && c.SampleN() < 6 {
			c.Sample(map[string]any{"entry": cs.e.keyName(aux), "generator": gen, "mutation": desc, "len": len(in), "input": core.Hex(in), "accepted": o.err == nil && !o.panicked})
		}
		m.release(s)
	})
	m.flushCounts()
	c.Note("phase_seconds_parallel", time.Since(t0).Seconds())

	m.maxRatioMu.Lock()
	c.Note("alloc_max_bytes_per_input_byte_and_level_over_8MiB_slack", m.maxRatio)
	c.Note("alloc_max_delta_bytes", m.maxDelta)
	c.Note("alloc_max_at", m.maxRatioAt)
	m.maxRatioMu.Unlock()
	c.Note("alloc_bound", fmt.Sprintf("%d*len*(1+depth)+%d, depth = nesting present in the input, taken as 0 when > %d", allocA, allocB, deepLimit))
	if c.Counter("outcome_accept") == 0 {
		c.Inconclusive("no decoder ever accepted an input: the seeds are not valid")
	}
}

// warmup: first use of each decoder initialises caches (decoding modes, type
// caches, reflection); do that outside the measured window.
func (m *mon) warmup() {
	s := m.acquire()
	defer m.release(s)
	for _, e := range m.entries {
		for _, in := range [][]byte{{0x80}, {0xa0}, {0x82, 0x00, 0x80}, {0xf6}, {0xf7}, {0xf6, 0x00},
			// a block whose header is null: [null, [], [], {}] and [null, [], [], {}, []]
			{0x83, 0xf6, 0xf6, 0xf6}, {0x84, 0xf6, 0x80, 0x80, 0xa0}, {0x85, 0xf6, 0x80, 0x80, 0xa0, 0x80}} {
			o := m.exec(s, e, in, 0, "warmup", false)
			m.judge(s, e, in, 0, "warmup", "", o, true)
		}
	}
}

// discover: feed every candidate of the seed pools to every entry point (valid
// items of the *wrong* type are cases in their own right) and keep the accepted
// ones as the entry's seeds for generator (b).
func (m *mon) discover(pl *pools) {
	type cand struct {
		s     *seed
		named bool
	}
	var mu sync.Mutex
	m.c.Parallel("discover", len(m.entries), 0, func(i int, _ *core.Rand) {
		e := m.entries[i]
		s := m.acquire()
		defer m.release(s)
		var cands []cand
		seen := map[*seed]bool{}
		for _, pn := range e.pools {
			if pn == "any" {
				continue
			}
			for _, sd := range pl.m[pn] {
				if !seen[sd] {
					seen[sd] = true
					cands = append(cands, cand{sd, true})
				}
			}
		}
		if e.zero != nil {
			if zb := e.zero(); len(zb) > 0 {
				cands = append(cands, cand{&seed{name: "zero value encoded by the library", b: zb}, true})
			}
		}
		heavy := e.weight < 1
		for _, sd := range pl.m["any"] {
			if heavy && len(sd.b) > 2000 {
				continue
			}
			cands = append(cands, cand{sd, false})
		}
		var named, found []*seed
		for _, cd := range cands {
			auxes := []uint{cd.s.aux}
			if e.auxN > 0 && !cd.named {
				// a message is [type, ...]: try it under its own type
				auxes = auxes[:0]
				if len(cd.s.b) >= 2 && cd.s.b[0]>>5 == 4 && cd.s.b[1] < 0x18 {
					auxes = append(auxes, uint(cd.s.b[1]))
				} else {
					continue
				}
			}
			for _, aux := range auxes {
				o := m.exec(s, e, cd.s.b, aux, "seed", false)
				m.judge(s, e, cd.s.b, aux, "seed", "valid item as is: "+cd.s.name, o, true)
				if !o.panicked && o.err == nil {
					ns := &seed{name: cd.s.name, b: cd.s.b, aux: aux}
					if cd.named {
						named = append(named, ns)
					} else {
						found = append(found, ns)
					}
				}
			}
		}
		// keep all named seeds and an evenly thinned, size-sorted sample of the others
		sort.SliceStable(found, func(a, b int) bool { return len(found[a].b) < len(found[b].b) })
		const maxFound = 24
		step := 1
		if len(found) > maxFound {
			step = (len(found) + maxFound - 1) / maxFound
		}
		seeds := named
		for j := 0; j < len(found); j += step {
			seeds = append(seeds, found[j])
		}
		for _, sd := range seeds {
			sd.d = newDoc(sd.b)
		}
		mu.Lock()
		e.seeds = seeds
		mu.Unlock()
	})
	if os.Getenv("VERIF_C02_DEBUG") != "" {
		for _, e := range m.entries {
			fmt.Fprintf(os.Stderr, "C02 seeds %-60s %d\n", e.name, len(e.seeds))
		}
	}
}

// makeCase materialises a case from its spec (deterministic in seed + spec).
func (m *mon) makeCase(cs caseSpec, anyPool [][]byte) (in []byte, aux uint, gen, desc string, nontrivial bool) {
	e := cs.e
	r := m.c.Rand("case", e.name, string(cs.gen), cs.idx)
	if e.auxN > 0 {
		aux = uint(r.Intn(e.auxN))
		if r.Chance(3, 4) {
			aux = uint(r.Intn(13))
		}
	}
	switch cs.gen {
	case 'a':
		n := lengthGrid[cs.idx%len(lengthGrid)]
		in = r.Bytes(n)
		if e.auxN > 0 && n >= 2 && r.Bool() {
			// keep the message envelope so that the body decoder is reached
			in[0] = 0x80 | byte(r.Range(1, 6))
			in[1] = byte(aux)
		}
		return in, aux, "a_random", fmt.Sprintf("uniform bytes len=%d", n), n > 0
	case 'A':
		t := randomTree(r, 5)
		if e.auxN > 0 && r.Chance(2, 3) && t.Kind == cborx.Array && len(t.Items) > 0 {
			t.Items[0] = cborx.U(uint64(aux))
		}
		in = t.Encode()
		return in, aux, "a_tree", "random well-formed item " + short(t.Diag()), true
	case 'c':
		return cs.data, cs.aux, "c_fuzzcorpus", "committed fuzz corpus entry", len(cs.data) > 0
	case 'S':
		return cs.data, cs.aux, "b_systematic", cs.desc, true
	case 'I':
		return cs.data, cs.aux, "b_inflate", cs.desc, true
	case 'X':
		return cs.data, cs.aux, "b_inconsistent", cs.desc, true
	case 'D':
		k := deepKinds[cs.idx%len(deepKinds)]
		in = append(append(rep(k.pre, k.n), 0x00), rep(k.post, k.n)...)
		if e.auxN > 0 {
			// inside a message envelope [type, <deep item>]
			in = append([]byte{0x82, byte(aux % 24)}, in...)
		}
		return in, aux, "b_wrap", fmt.Sprintf("deep nesting: %d x %x around 00", k.n, k.pre), true
	}
	// 'b': mutant of a valid seed of this entry (or, for entry points without an
	// accepted seed, of a generic valid item)
	var sd *seed
	if len(e.seeds) > 0 {
		sd = e.seeds[r.Intn(len(e.seeds))]
		if len(sd.b) > 100000 && len(e.seeds) > 1 && r.Chance(15, 16) {
			// the 648 KiB epoch boundary block is only used now and then
			sd = e.seeds[r.Intn(len(e.seeds))]
		}
	} else {
		sd = &seed{name: "generic", b: anyPool[r.Intn(len(anyPool))]}
	}
	d0 := sd.d
	if d0 == nil {
		d0 = docFor(sd.b)
	}
	if e.auxN > 0 && len(e.seeds) > 0 && r.Chance(7, 8) {
		aux = sd.aux
	}
	cl := cs.cl
	if cl < 0 {
		cl = r.Intn(mClasses)
	}
	out, d := d0.mutate(r, cl, anyPool)
	if r.Chance(1, 10) && len(out) < 1<<16 {
		// second-order mutant
		out2, d2 := docFor2(out).mutate(r, r.Intn(mClasses), anyPool)
		out, d = out2, d+" + "+d2
	}
	if len(out) > 4<<20 {
		out = out[:4<<20]
	}
	return out, aux, "b_" + className[clamp(cl)], sd.name + ": " + d, string(out) != string(sd.b)
}

func clamp(cl int) int {
	if cl < 0 || cl >= mClasses {
		return mRaw
	}
	return cl
}

func short(s string) string {
	if len(s) > 120 {
		return s[:120] + "..."
	}
	return s
}

// docs of seeds are shared between workers: build each once.
var docCache sync.Map

func docFor(b []byte) *doc {
	k := sha256.Sum256(b)
	if d, ok := docCache.Load(k); ok {
		return d.(*doc)
	}
	d := newDoc(b)
	docCache.Store(k, d)
	return d
}

func docFor2(b []byte) *doc { return newDoc(b) }

func (m *mon) judgeAlloc(e *entry, in []byte, aux uint, gen, desc string, o outcome) {
	delta := o.alloc
	bound := allocBound(in)
	over := float64(0)
	if delta > allocB {
		over = float64(delta-allocB) / float64(bound-allocB+1) * allocA
	}
	m.maxRatioMu.Lock()
	if over > m.maxRatio {
		m.maxRatio, m.maxRatioAt = over, fmt.Sprintf("%s len=%d delta=%d (%s)", e.keyName(aux), len(in), delta, gen)
	}
	if delta > m.maxDelta {
		m.maxDelta = delta
	}
	m.maxRatioMu.Unlock()
	if delta <= bound {
		return
	}
	// re-measure alone in a fresh process before saying anything
	res, timedOut, _, ok := m.runSolo(e, in, aux, stallSolo)
	if !ok || timedOut || !res.Done {
		m.c.Inconclusive(fmt.Sprintf("allocation of %s (%d bytes for a %d-byte input) could not be re-measured alone", e.keyName(aux), delta, len(in)))
		return
	}
	if res.Alloc <= bound {
		m.c.Inconclusive(fmt.Sprintf("allocation of %s: %d bytes in the run but %d alone (bound %d)", e.keyName(aux), delta, res.Alloc, bound))
		return
	}
	m.heavy.Add(1)
	w := witness(e, in, aux, gen, desc)
	w["alloc_bytes_in_run"] = delta
	w["alloc_bytes_alone"] = res.Alloc
	w["bound"] = bound
	if res.AllocWalk > res.Alloc/2 {
		// most of it was allocated while reading the value the decoder returned
		w["alloc_bytes_walk_alone"] = res.AllocWalk
		m.c.Violation(fmt.Sprintf("C02:%s:value-walk:alloc", e.keyName(aux)),
			fmt.Sprintf("%s accepted a %d-byte input; reading the returned value allocated %d bytes (decode + walk %d, alone in a fresh process); bound %d", e.keyName(aux), len(in), res.AllocWalk, res.Alloc, bound), w)
		return
	}
	m.c.Violation(fmt.Sprintf("C02:%s:alloc", e.keyName(aux)),
		fmt.Sprintf("%s allocated %d bytes (%d when re-measured alone in a fresh process) for a %d-byte input of nesting depth %d; bound %d*len*(1+depth)+%d = %d", e.keyName(aux), delta, res.Alloc, len(in), nestingDepth(in), allocA, allocB, bound), w)
}

// ------------------------------------------------------------------ fuzz corpora

type fuzzItem struct {
	file string
	data []byte
	u    uint
	hasU bool
}

// loadFuzzCorpora reads every file below */testdata/fuzz/* ("go test fuzz v1").
func loadFuzzCorpora(repo string) []fuzzItem {
	var files []string
	filepath.Walk(repo, func(path string, info os.FileInfo, err error) error {
		if err != nil {
			return nil
		}
		if info.IsDir() {
			if info.Name() == ".git" {
				return filepath.SkipDir
			}
			return nil
		}
		if strings.Contains(filepath.ToSlash(path), "/testdata/fuzz/") {
			files = append(files, path)
		}
		return nil
	})
	sort.Strings(files)
	var out []fuzzItem
	for _, f := range files {
		b, err := os.ReadFile(f)
		if err != nil {
			continue
		}
		lines := strings.Split(string(b), "\n")
		if len(lines) == 0 || !strings.HasPrefix(lines[0], "go test fuzz v1") {
			continue
		}
		rel, _ := filepath.Rel(repo, f)
		it := fuzzItem{file: rel}
		var datas [][]byte
		for _, l := range lines[1:] {
			l = strings.TrimSpace(l)
			switch {
			case strings.HasPrefix(l, "[]byte(") && strings.HasSuffix(l, ")"):
				if s, err := strconv.Unquote(l[len("[]byte(") : len(l)-1]); err == nil {
					datas = append(datas, []byte(s))
				}
			case strings.HasPrefix(l, "string(") && strings.HasSuffix(l, ")"):
				if s, err := strconv.Unquote(l[len("string(") : len(l)-1]); err == nil {
					datas = append(datas, []byte(s))
				}
			case strings.HasPrefix(l, "uint(") || strings.HasPrefix(l, "uint8(") || strings.HasPrefix(l, "uint64(") || strings.HasPrefix(l, "int("):
				p := strings.Index(l, "(")
				if v, err := strconv.ParseUint(l[p+1:len(l)-1], 0, 64); err == nil {
					it.u, it.hasU = uint(v), true
				}
			}
		}
		for _, d := range datas {
			x := it
			x.data = d
			out = append(out, x)
		}
	}
	return out
}
