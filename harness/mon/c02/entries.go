package c02

// The table of public decoding entry points. Every entry is a closure
// (input bytes, aux) -> error that calls exactly one public decoder of
// gouroboros and nothing else (no accessor is invoked on the result: the
// property speaks about the decoding call).

import (
	"fmt"

	"github.com/blinklabs-io/gouroboros/cbor"
	"github.com/blinklabs-io/gouroboros/ledger"
	"github.com/blinklabs-io/gouroboros/ledger/allegra"
	"github.com/blinklabs-io/gouroboros/ledger/alonzo"
	"github.com/blinklabs-io/gouroboros/ledger/babbage"
	"github.com/blinklabs-io/gouroboros/ledger/byron"
	"github.com/blinklabs-io/gouroboros/ledger/common"
	"github.com/blinklabs-io/gouroboros/ledger/conway"
	"github.com/blinklabs-io/gouroboros/ledger/dijkstra"
	"github.com/blinklabs-io/gouroboros/ledger/mary"
	"github.com/blinklabs-io/gouroboros/ledger/shelley"
	"github.com/blinklabs-io/gouroboros/protocol"
	"github.com/blinklabs-io/gouroboros/protocol/blockfetch"
	"github.com/blinklabs-io/gouroboros/protocol/chainsync"
	pcommon "github.com/blinklabs-io/gouroboros/protocol/common"
	"github.com/blinklabs-io/gouroboros/protocol/handshake"
	"github.com/blinklabs-io/gouroboros/protocol/keepalive"
	"github.com/blinklabs-io/gouroboros/protocol/leiosfetch"
	"github.com/blinklabs-io/gouroboros/protocol/leiosnotify"
	"github.com/blinklabs-io/gouroboros/protocol/leiosvotes"
	"github.com/blinklabs-io/gouroboros/protocol/localmessagenotification"
	"github.com/blinklabs-io/gouroboros/protocol/localmessagesubmission"
	lsq "github.com/blinklabs-io/gouroboros/protocol/localstatequery"
	"github.com/blinklabs-io/gouroboros/protocol/localtxmonitor"
	"github.com/blinklabs-io/gouroboros/protocol/localtxsubmission"
	"github.com/blinklabs-io/gouroboros/protocol/messagesubmission"
	"github.com/blinklabs-io/gouroboros/protocol/peersharing"
	"github.com/blinklabs-io/gouroboros/protocol/txsubmission"
)

type entry struct {
	name string
	// pools: names of the seed pools with valid inputs for this entry.
	pools []string
	// discover: additionally try every item of the generic candidate pool at
	// start-up and keep the accepted ones as seeds (typed sub-decoders).
	discover bool
	// auxN > 0: the entry takes a second, small integer argument (message
	// type); aux values 0..auxN-1 are exercised and the aux is part of the key.
	auxN int
	// weight: relative share of the case budget (heavy decoders get less).
	weight float64
	call   func(b []byte, aux uint) error
	// callV: the same call returning the decoded value; set for the entry points
	// whose result is walked after a successful decode (see walk.go).
	callV func(b []byte, aux uint) (any, error)
	// blk: block type + 1 for the block decoders (0 = not a block decoder)
	blk int
	// zero: the library's own encoding of the zero value of the target type
	zero func() []byte

	seeds []*seed
}

type seed struct {
	name string
	b    []byte
	aux  uint
	d    *doc
}

func (e *entry) keyName(aux uint) string {
	if e.auxN > 0 {
		return fmt.Sprintf("%s#%d", e.name, aux)
	}
	return e.name
}

// decT: cbor.Decode into a fresh T (the path every embedded / typed decoder
// is reached through, including its UnmarshalCBOR).
func decT[T any](name string, pools ...string) *entry {
	return &entry{name: name, pools: pools, discover: true, weight: 1, call: func(b []byte, _ uint) error {
		v := new(T)
		_, err := cbor.Decode(b, v)
		return err
	}, zero: func() []byte { return enc(new(T)) }}
}

func fn(name string, weight float64, call func(b []byte) error, pools ...string) *entry {
	return &entry{name: name, pools: pools, weight: weight, call: func(b []byte, _ uint) error { return call(b) }}
}

func msgEntry(name string, pool string, f func(uint, []byte) (protocol.Message, error)) *entry {
	return fnV(&entry{name: name, pools: []string{pool}, auxN: 32, weight: 2}, func(b []byte, aux uint) (any, error) {
		m, err := f(aux, b)
		if err != nil {
			return nil, err
		}
		return m, nil
	})
}

// fnV completes an entry whose decoded value is walked.
func fnV(e *entry, callV func(b []byte, aux uint) (any, error)) *entry {
	e.callV = callV
	e.call = func(b []byte, aux uint) error { _, err := callV(b, aux); return err }
	return e
}

// val: entry without aux whose value is walked.
func val(name string, weight float64, f func(b []byte) (any, error), pools ...string) *entry {
	return fnV(&entry{name: name, pools: pools, weight: weight}, func(b []byte, _ uint) (any, error) { return f(b) })
}

// w2 turns (T, error) into (any, error) without producing a typed-nil interface.
func w2[T any](v T, err error) (any, error) {
	if err != nil {
		return nil, err
	}
	return v, nil
}

var blockTypeNames = []string{"byron_ebb", "byron_main", "shelley", "allegra", "mary", "alonzo", "babbage", "conway", "dijkstra"}
var txTypeNames = []string{"byron", "shelley", "allegra", "mary", "alonzo", "babbage", "conway", "dijkstra"}

var diagOpts = cbor.DiagnosticOptions{ShowOffsets: true, ShowHex: true, CardanoAware: true}

type genericStruct struct {
	cbor.StructAsArray
	cbor.DecodeStoreCbor
	A uint64
	B []byte
	C cbor.RawMessage
	D []cbor.Value
}

func buildEntries() []*entry {
	var es []*entry
	add := func(e ...*entry) { es = append(es, e...) }

	// ------------------------------------------------------------ cbor
	add(decT[cbor.Value]("cbor.Decode[Value]", "any"))
	add(decT[any]("cbor.Decode[any]", "any"))
	add(decT[cbor.RawMessage]("cbor.Decode[RawMessage]", "any"))
	add(decT[cbor.Rat]("cbor.Decode[Rat]", "any"))
	add(decT[cbor.ConstructorDecoder]("cbor.Decode[ConstructorDecoder]", "any"))
	add(decT[cbor.Tag]("cbor.Decode[Tag]", "any"))
	add(decT[cbor.ByteString]("cbor.Decode[ByteString]", "any"))
	add(decT[map[cbor.ByteString]cbor.Value]("cbor.Decode[map[ByteString]Value]", "any"))
	add(fn("cbor.LazyValue.Decode", 1, func(b []byte) error {
		var l cbor.LazyValue
		if _, err := cbor.Decode(b, &l); err != nil {
			return err
		}
		_, err := l.Decode()
		return err
	}, "any"))
	add(fn("cbor.DecodeStrict[Value]", 1, func(b []byte) error {
		var v cbor.Value
		_, err := cbor.DecodeStrict(b, &v)
		return err
	}, "any"))
	add(fn("cbor.DecodeLenient[any]", 1, func(b []byte) error {
		var v any
		_, err := cbor.DecodeLenient(b, &v)
		return err
	}, "any"))
	add(fn("cbor.DecodeIdFromList", 1, func(b []byte) error { _, err := cbor.DecodeIdFromList(b); return err }, "any"))
	add(fn("cbor.ListLength", 1, func(b []byte) error { _, err := cbor.ListLength(b); return err }, "any"))
	add(fn("cbor.DecodeById", 1, func(b []byte) error {
		_, err := cbor.DecodeById(b, map[int]any{0: &genericStruct{}, 1: &[]cbor.Value{}, 2: new(any), 3: nil})
		return err
	}, "any"))
	add(fn("cbor.DecodeGeneric", 1, func(b []byte) error { return cbor.DecodeGeneric(b, &genericStruct{}) }, "any"))
	add(fn("cbor.ArrayInfo+MapInfo", 1, func(b []byte) error {
		cbor.ArrayInfo(b)
		cbor.MapInfo(b)
		return nil
	}, "any"))
	sd := func(name string, f func(d *cbor.StreamDecoder) error) {
		add(fn("cbor.StreamDecoder."+name, 1, func(b []byte) error {
			d, err := cbor.NewStreamDecoder(b)
			if err != nil {
				return err
			}
			return f(d)
		}, "any"))
	}
	sd("Decode", func(d *cbor.StreamDecoder) error {
		var err error
		for i := 0; i < 4 && err == nil && !d.EOF(); i++ {
			var v any
			_, _, err = d.Decode(&v)
		}
		return err
	})
	sd("DecodeRaw", func(d *cbor.StreamDecoder) error {
		var v cbor.Value
		_, _, err := d.DecodeRaw(&v)
		return err
	})
	sd("Skip", func(d *cbor.StreamDecoder) error {
		var err error
		for i := 0; i < 4 && err == nil && !d.EOF(); i++ {
			_, _, err = d.Skip()
		}
		return err
	})
	sd("SkipN", func(d *cbor.StreamDecoder) error { _, _, err := d.SkipN(3); return err })
	sd("DecodeArrayHeader", func(d *cbor.StreamDecoder) error {
		n, _, _, err := d.DecodeArrayHeader()
		if err != nil {
			return err
		}
		// walk into the array the way the streaming block decoder does
		for i := 0; i < n && i < 8; i++ {
			if _, _, err := d.Skip(); err != nil {
				return err
			}
		}
		return nil
	})
	sd("DecodeMapHeader", func(d *cbor.StreamDecoder) error {
		n, _, _, err := d.DecodeMapHeader()
		if err != nil {
			return err
		}
		for i := 0; i < 2*n && i < 8; i++ {
			if _, _, err := d.Skip(); err != nil {
				return err
			}
		}
		return nil
	})
	sd("DecodeArrayItems", func(d *cbor.StreamDecoder) error {
		_, _, err := d.DecodeArrayItems(func(int, int, int, []byte) error { return nil })
		return err
	})
	sd("DecodeDiagnostic", func(d *cbor.StreamDecoder) error { _, err := d.DecodeDiagnostic(); return err })
	sd("DecodeAllDiagnostic", func(d *cbor.StreamDecoder) error { _, err := d.DecodeAllDiagnostic(); return err })
	add(fn("cbor.ParseDiagnostic+Format", 1, func(b []byte) error {
		n, err := cbor.ParseDiagnostic(b)
		if err != nil {
			return err
		}
		_ = n.FormatDiagnostic(diagOpts)
		_ = n.FormatDiagnosticPretty(diagOpts)
		_ = n.FormatHexDump(diagOpts)
		_ = n.GetNodeAtOffset(len(b) / 2)
		_ = n.GetPathToOffset(len(b) / 2)
		return nil
	}, "any"))
	add(fn("cbor.Diagnose", 1, func(b []byte) error { _, err := cbor.Diagnose(b, diagOpts); return err }, "any"))
	add(fn("cbor.DiagnoseTransaction", 1, func(b []byte) error { _, err := cbor.DiagnoseTransaction(b, diagOpts); return err }, "tx"))
	add(fn("cbor.DiagnoseBlock", 0.5, func(b []byte) error { _, err := cbor.DiagnoseBlock(b, diagOpts); return err }, "block", "wrappedblock"))
	add(fn("cbor.FormatTransactionDiagnostic", 1, func(b []byte) error { _, err := cbor.FormatTransactionDiagnostic(b, diagOpts); return err }, "tx"))
	add(fn("cbor.FormatBlockDiagnostic", 0.5, func(b []byte) error { _, err := cbor.FormatBlockDiagnostic(b, diagOpts); return err }, "block", "wrappedblock"))
	add(fn("cbor.FormatPlutusData", 1, func(b []byte) error { _, err := cbor.FormatPlutusData(b, diagOpts); return err }, "plutusdata", "any"))
	add(fn("cbor.FormatNativeScript", 1, func(b []byte) error { _, err := cbor.FormatNativeScript(b, diagOpts); return err }, "nativescript", "any"))

	// ------------------------------------------------------------ ledger
	for t, tn := range blockTypeNames {
		t := uint(t)
		w := 0.35
		add(val("ledger.NewBlockFromCbor/"+tn, w, func(b []byte) (any, error) { return w2(ledger.NewBlockFromCbor(t, b)) }, "block:"+tn, "block:"+tn+":full", "block"))
		add(val("ledger.NewBlockFromCbor/"+tn+"/skiphash", w, func(b []byte) (any, error) {
			return w2(ledger.NewBlockFromCbor(t, b, common.VerifyConfig{SkipBodyHashValidation: true}))
		}, "block:"+tn, "block:"+tn+":full", "block"))
		add(val("ledger.NewBlockFromCborWithOffsets/"+tn, w, func(b []byte) (any, error) {
			return w2(ledger.NewBlockFromCborWithOffsets(t, b, common.VerifyConfig{SkipBodyHashValidation: true}))
		}, "block:"+tn, "block"))
		for _, be := range es[len(es)-3:] {
			be.blk = int(t) + 1
		}
		add(val("ledger.NewBlockHeaderFromCbor/"+tn, 1, func(b []byte) (any, error) { return w2(ledger.NewBlockHeaderFromCbor(t, b)) }, "header:"+tn, "header"))
	}
	for t, tn := range txTypeNames {
		t := uint(t)
		add(val("ledger.NewTransactionFromCbor/"+tn, 1, func(b []byte) (any, error) { return w2(ledger.NewTransactionFromCbor(t, b)) }, "tx:"+tn, "tx"))
		add(val("ledger.NewTransactionBodyFromCbor/"+tn, 1, func(b []byte) (any, error) { return w2(ledger.NewTransactionBodyFromCbor(t, b)) }, "txbody:"+tn, "txbody"))
	}
	add(fn("ledger.DetermineTransactionType", 0.7, func(b []byte) error { _, err := ledger.DetermineTransactionType(b); return err }, "tx"))
	add(val("ledger.NewTransactionOutputFromCbor", 1, func(b []byte) (any, error) { return w2(ledger.NewTransactionOutputFromCbor(b)) }, "txout"))
	add(fn("ledger.ExtractTransactionOffsets", 0.5, func(b []byte) error { _, err := ledger.ExtractTransactionOffsets(b); return err }, "block", "wrappedblock"))
	add(fn("common.BlockBodySizeFromCbor", 0.5, func(b []byte) error { _, err := common.BlockBodySizeFromCbor(b); return err }, "block"))
	add(fn("ledger.NewTxSubmitErrorFromCbor", 1, func(b []byte) error { _, err := ledger.NewTxSubmitErrorFromCbor(b); return err }, "txerror", "any"))
	add(fn("ledger.NewShelleyTxValidationErrorFromCbor", 1, func(b []byte) error {
		_, err := ledger.NewShelleyTxValidationErrorFromCbor(b)
		return err
	}, "txerror", "any"))
	add(fn("ledger.NewEraMismatchErrorFromCbor", 1, func(b []byte) error { _, err := ledger.NewEraMismatchErrorFromCbor(b); return err }, "txerror", "any"))
	add(fn("ledger.NewGenericErrorFromCbor", 1, func(b []byte) error { _, err := ledger.NewGenericErrorFromCbor(b); return err }, "txerror", "any"))
	add(decT[ledger.UtxowFailure]("cbor.Decode[ledger.UtxowFailure]", "txerror"))
	add(decT[ledger.UtxoFailure]("cbor.Decode[ledger.UtxoFailure]", "txerror"))
	add(decT[ledger.ApplyTxError]("cbor.Decode[ledger.ApplyTxError]", "txerror"))

	// era-specific public constructors not reached 1:1 through the dispatchers
	add(val("byron.NewByronTransactionOutputFromCbor", 1, func(b []byte) (any, error) {
		o, err := byron.NewByronTransactionOutputFromCbor(b)
		if err != nil || o == nil {
			return nil, err
		}
		return common.TransactionOutput(o), nil
	}, "txout"))
	add(val("shelley.NewShelleyTransactionOutputFromCbor", 1, func(b []byte) (any, error) {
		o, err := shelley.NewShelleyTransactionOutputFromCbor(b)
		if err != nil || o == nil {
			return nil, err
		}
		return common.TransactionOutput(o), nil
	}, "txout"))
	add(val("mary.NewMaryTransactionOutputFromCbor", 1, func(b []byte) (any, error) {
		o, err := mary.NewMaryTransactionOutputFromCbor(b)
		if err != nil || o == nil {
			return nil, err
		}
		return common.TransactionOutput(o), nil
	}, "txout"))
	add(val("alonzo.NewAlonzoTransactionOutputFromCbor", 1, func(b []byte) (any, error) {
		o, err := alonzo.NewAlonzoTransactionOutputFromCbor(b)
		if err != nil || o == nil {
			return nil, err
		}
		return common.TransactionOutput(o), nil
	}, "txout"))
	add(val("babbage.NewBabbageTransactionOutputFromCbor", 1, func(b []byte) (any, error) {
		o, err := babbage.NewBabbageTransactionOutputFromCbor(b)
		if err != nil || o == nil {
			return nil, err
		}
		return common.TransactionOutput(o), nil
	}, "txout"))
	add(decT[dijkstra.DijkstraTransactionOutput]("cbor.Decode[dijkstra.TransactionOutput]", "txout"))
	add(fn("common.NewLeiosEndorserBlockFromCbor", 1, func(b []byte) error { _, err := common.NewLeiosEndorserBlockFromCbor(b); return err }, "leioseb", "any"))

	// witness sets, redeemers, parameter updates, governance
	add(decT[shelley.ShelleyTransactionWitnessSet]("cbor.Decode[shelley.WitnessSet]", "witness"))
	add(decT[alonzo.AlonzoTransactionWitnessSet]("cbor.Decode[alonzo.WitnessSet]", "witness"))
	add(decT[babbage.BabbageTransactionWitnessSet]("cbor.Decode[babbage.WitnessSet]", "witness"))
	add(decT[conway.ConwayTransactionWitnessSet]("cbor.Decode[conway.WitnessSet]", "witness"))
	add(decT[dijkstra.DijkstraTransactionWitnessSet]("cbor.Decode[dijkstra.WitnessSet]", "witness"))
	add(decT[alonzo.AlonzoRedeemers]("cbor.Decode[alonzo.Redeemers]"))
	add(decT[conway.ConwayRedeemers]("cbor.Decode[conway.Redeemers]"))
	add(decT[dijkstra.DijkstraRedeemers]("cbor.Decode[dijkstra.Redeemers]"))
	add(decT[alonzo.PlutusDataList]("cbor.Decode[alonzo.PlutusDataList]"))
	add(decT[shelley.ShelleyProtocolParameterUpdate]("cbor.Decode[shelley.ProtocolParameterUpdate]"))
	add(decT[mary.MaryProtocolParameterUpdate]("cbor.Decode[mary.ProtocolParameterUpdate]"))
	add(decT[alonzo.AlonzoProtocolParameterUpdate]("cbor.Decode[alonzo.ProtocolParameterUpdate]"))
	add(decT[babbage.BabbageProtocolParameterUpdate]("cbor.Decode[babbage.ProtocolParameterUpdate]"))
	add(decT[conway.ConwayProtocolParameterUpdate]("cbor.Decode[conway.ProtocolParameterUpdate]"))
	add(decT[dijkstra.DijkstraProtocolParameterUpdate]("cbor.Decode[dijkstra.ProtocolParameterUpdate]"))
	add(decT[dijkstra.DijkstraProtocolParameters]("cbor.Decode[dijkstra.ProtocolParameters]"))
	add(decT[conway.ConwayGovAction]("cbor.Decode[conway.GovAction]"))
	add(decT[dijkstra.DijkstraGovAction]("cbor.Decode[dijkstra.GovAction]"))
	add(decT[conway.ConwayTransactionInputSet]("cbor.Decode[conway.TransactionInputSet]"))
	add(decT[shelley.ShelleyTransactionInputSet]("cbor.Decode[shelley.TransactionInputSet]"))
	add(decT[babbage.BabbageTransactionOutputDatumOption]("cbor.Decode[babbage.DatumOption]"))
	add(decT[mary.MaryTransactionOutputValue]("cbor.Decode[mary.OutputValue]"))
	add(decT[byron.ByronTransactionInput]("cbor.Decode[byron.TransactionInput]"))
	add(decT[byron.ByronUpdateProposal]("cbor.Decode[byron.UpdateProposal]"))
	add(decT[byron.ByronMainBlockBody]("cbor.Decode[byron.MainBlockBody]", "byronbody"))
	add(decT[dijkstra.DijkstraSubTransaction]("cbor.Decode[dijkstra.SubTransaction]"))
	add(decT[dijkstra.DijkstraGuards]("cbor.Decode[dijkstra.Guards]"))
	add(decT[dijkstra.DijkstraLeiosCertificate]("cbor.Decode[dijkstra.LeiosCertificate]"))
	add(decT[allegra.AllegraTransactionBody]("cbor.Decode[allegra.TransactionBody]", "txbody:allegra"))

	// ------------------------------------------------------------ ledger/common
	add(fn("common.NewAddressFromBytes", 1, func(b []byte) error { _, err := common.NewAddressFromBytes(b); return err }, "addrbytes"))
	add(fn("common.NewAddress", 1, func(b []byte) error { _, err := common.NewAddress(string(b)); return err }, "addrstr"))
	add(fn("common.Address.UnmarshalCBOR", 1, func(b []byte) error { var a common.Address; return a.UnmarshalCBOR(b) }, "addrcbor"))
	add(decT[common.Address]("cbor.Decode[common.Address]", "addrcbor"))
	add(decT[common.ByronAddressAttributes]("cbor.Decode[common.ByronAddressAttributes]"))
	add(fn("common.NewPoolIdFromBech32", 1, func(b []byte) error { _, err := common.NewPoolIdFromBech32(string(b)); return err }, "addrstr"))
	add(fn("common.NewScriptHashFromBech32", 1, func(b []byte) error { _, err := common.NewScriptHashFromBech32(string(b)); return err }, "addrstr"))
	add(fn("common.NativeScript.UnmarshalCBOR", 1, func(b []byte) error { var n common.NativeScript; return n.UnmarshalCBOR(b) }, "nativescript"))
	add(decT[common.NativeScript]("cbor.Decode[common.NativeScript]", "nativescript"))
	add(decT[common.ScriptRef]("cbor.Decode[common.ScriptRef]"))
	add(fn("common.Datum.UnmarshalCBOR", 1, func(b []byte) error { var d common.Datum; return d.UnmarshalCBOR(b) }, "plutusdata"))
	add(decT[common.Datum]("cbor.Decode[common.Datum]", "plutusdata"))
	add(decT[common.MultiAsset[common.MultiAssetTypeOutput]]("cbor.Decode[common.MultiAsset]", "multiasset"))
	add(fn("common.MultiAsset.UnmarshalCBOR", 1, func(b []byte) error {
		var m common.MultiAsset[common.MultiAssetTypeMint]
		return m.UnmarshalCBOR(b)
	}, "multiasset"))
	add(decT[common.CertificateWrapper]("cbor.Decode[common.CertificateWrapper]", "cert"))
	add(decT[common.PoolRegistrationCertificate]("cbor.Decode[common.PoolRegistrationCertificate]", "cert"))
	add(decT[common.MoveInstantaneousRewardsCertificate]("cbor.Decode[common.MoveInstantaneousRewardsCertificate]", "cert"))
	add(decT[common.StakeDelegationCertificate]("cbor.Decode[common.StakeDelegationCertificate]", "cert"))
	add(decT[common.VoteDelegationCertificate]("cbor.Decode[common.VoteDelegationCertificate]", "cert"))
	add(decT[common.RegistrationDrepCertificate]("cbor.Decode[common.RegistrationDrepCertificate]", "cert"))
	add(decT[common.UpdateDrepCertificate]("cbor.Decode[common.UpdateDrepCertificate]", "cert"))
	add(decT[common.AuthCommitteeHotCertificate]("cbor.Decode[common.AuthCommitteeHotCertificate]", "cert"))
	add(decT[common.Drep]("cbor.Decode[common.Drep]"))
	add(decT[common.PoolRelay]("cbor.Decode[common.PoolRelay]"))
	add(decT[common.LeiosKey]("cbor.Decode[common.LeiosKey]"))
	add(decT[common.Credential]("cbor.Decode[common.Credential]"))
	add(decT[common.Nonce]("cbor.Decode[common.Nonce]"))
	add(decT[common.VotingProcedures]("cbor.Decode[common.VotingProcedures]"))
	add(decT[common.Voter]("cbor.Decode[common.Voter]"))
	add(decT[common.GovAnchor]("cbor.Decode[common.GovAnchor]"))
	add(decT[common.GovActionId]("cbor.Decode[common.GovActionId]"))
	add(decT[common.LeiosVote]("cbor.Decode[common.LeiosVote]", "leiosvote"))
	add(decT[common.LeiosPrototypeVote]("cbor.Decode[common.LeiosPrototypeVote]", "leiosvote"))
	add(decT[common.LeiosEbCertificate]("cbor.Decode[common.LeiosEbCertificate]", "leiosvote"))
	add(decT[common.LeiosEndorserBlock]("cbor.Decode[common.LeiosEndorserBlock]", "leioseb"))
	add(fn("common.DecodeMetadatumRaw", 1, func(b []byte) error { _, err := common.DecodeMetadatumRaw(b); return err }, "metadatum", "aux"))
	add(fn("common.DecodeAuxiliaryDataToMetadata", 1, func(b []byte) error { _, err := common.DecodeAuxiliaryDataToMetadata(b); return err }, "aux"))
	add(fn("common.DecodeAuxiliaryData", 1, func(b []byte) error { _, err := common.DecodeAuxiliaryData(b); return err }, "aux"))
	add(decT[common.TransactionMetadataSet]("cbor.Decode[common.TransactionMetadataSet]", "auxset"))
	add(decT[common.ShelleyAuxiliaryData]("cbor.Decode[common.ShelleyAuxiliaryData]", "aux"))
	add(decT[common.ShelleyMaAuxiliaryData]("cbor.Decode[common.ShelleyMaAuxiliaryData]", "aux"))
	add(decT[common.AlonzoAuxiliaryData]("cbor.Decode[common.AlonzoAuxiliaryData]", "aux"))
	add(fn("common.StreamingBlockDecoder.DecodeWithOffsets", 0.5, func(b []byte) error {
		d, err := common.NewStreamingBlockDecoder(b)
		if err != nil {
			return err
		}
		_, err = d.DecodeWithOffsets()
		return err
	}, "block", "wrappedblock"))

	// ------------------------------------------------------------ protocol messages
	add(msgEntry("blockfetch.NewMsgFromCbor", "msg:blockfetch", blockfetch.NewMsgFromCbor))
	add(msgEntry("chainsync.NewMsgFromCbor/ntn", "msg:chainsync-ntn", chainsync.NewMsgFromCborNtN))
	add(msgEntry("chainsync.NewMsgFromCbor/ntc", "msg:chainsync-ntc", chainsync.NewMsgFromCborNtC))
	add(msgEntry("chainsync.NewMsgFromCbor/mode0", "msg:chainsync-ntn", func(t uint, b []byte) (protocol.Message, error) {
		return chainsync.NewMsgFromCbor(protocol.ProtocolModeNone, t, b)
	}))
	add(msgEntry("handshake.NewMsgFromCbor", "msg:handshake", handshake.NewMsgFromCbor))
	add(msgEntry("keepalive.NewMsgFromCbor", "msg:keepalive", keepalive.NewMsgFromCbor))
	add(msgEntry("leiosfetch.NewMsgFromCbor", "msg:leiosfetch", leiosfetch.NewMsgFromCbor))
	add(msgEntry("leiosnotify.NewMsgFromCbor", "msg:leiosnotify", leiosnotify.NewMsgFromCbor))
	add(msgEntry("leiosvotes.NewMsgFromCbor", "msg:leiosvotes", leiosvotes.NewMsgFromCbor))
	add(msgEntry("localmessagenotification.NewMsgFromCbor", "msg:localmessagenotification", localmessagenotification.NewMsgFromCbor))
	add(msgEntry("localmessagesubmission.NewMsgFromCbor", "msg:localmessagesubmission", localmessagesubmission.NewMsgFromCbor))
	add(msgEntry("localstatequery.NewMsgFromCbor", "msg:localstatequery", lsq.NewMsgFromCbor))
	add(msgEntry("localtxmonitor.NewMsgFromCbor", "msg:localtxmonitor", localtxmonitor.NewMsgFromCbor))
	add(msgEntry("localtxsubmission.NewMsgFromCbor", "msg:localtxsubmission", localtxsubmission.NewMsgFromCbor))
	add(msgEntry("messagesubmission.NewMsgFromCbor", "msg:messagesubmission", messagesubmission.NewMsgFromCbor))
	add(msgEntry("peersharing.NewMsgFromCbor", "msg:peersharing", peersharing.NewMsgFromCbor))
	add(msgEntry("txsubmission.NewMsgFromCbor", "msg:txsubmission", txsubmission.NewMsgFromCbor))

	// embedded protocol types with their own decoders
	add(decT[pcommon.Point]("cbor.Decode[pcommon.Point]", "point"))
	add(decT[pcommon.Tip]("cbor.Decode[pcommon.Tip]", "point"))
	add(decT[pcommon.DmqMessage]("cbor.Decode[pcommon.DmqMessage]", "dmq"))
	add(decT[pcommon.DmqMessagePayload]("cbor.Decode[pcommon.DmqMessagePayload]", "dmq"))
	add(decT[pcommon.RejectReasonData]("cbor.Decode[pcommon.RejectReasonData]", "dmq"))
	add(decT[peersharing.PeerAddress]("cbor.Decode[peersharing.PeerAddress]", "peeraddr"))
	add(decT[chainsync.WrappedBlock]("cbor.Decode[chainsync.WrappedBlock]", "wrappedblock"))
	add(decT[chainsync.WrappedHeader]("cbor.Decode[chainsync.WrappedHeader]", "wrappedheader"))
	add(decT[txsubmission.TxBody]("cbor.Decode[txsubmission.TxBody]"))
	add(decT[txsubmission.TxIdAndSize]("cbor.Decode[txsubmission.TxIdAndSize]"))

	// version data
	vd := func(name string, f func([]byte) (protocol.VersionData, error)) {
		add(fn("protocol."+name, 1, func(b []byte) error { _, err := f(b); return err }, "versiondata"))
	}
	vd("NewVersionDataNtC9to14FromCbor", protocol.NewVersionDataNtC9to14FromCbor)
	vd("NewVersionDataNtC15andUpFromCbor", protocol.NewVersionDataNtC15andUpFromCbor)
	vd("NewVersionDataNtN7to10FromCbor", protocol.NewVersionDataNtN7to10FromCbor)
	vd("NewVersionDataNtN11to12FromCbor", protocol.NewVersionDataNtN11to12FromCbor)
	vd("NewVersionDataNtN13andUpFromCbor", protocol.NewVersionDataNtN13andUpFromCbor)

	// ------------------------------------------------------------ local-state-query results and queries
	add(decT[lsq.QueryWrapper]("cbor.Decode[lsq.QueryWrapper]", "lsqquery"))
	add(decT[lsq.SystemStartResult]("cbor.Decode[lsq.SystemStartResult]", "lsq"))
	add(decT[[]lsq.EraHistoryResult]("cbor.Decode[lsq.[]EraHistoryResult]", "lsq"))
	add(decT[[]lsq.NonMyopicMemberRewardsResult]("cbor.Decode[lsq.[]NonMyopicMemberRewardsResult]", "lsq"))
	add(decT[lsq.ProposedProtocolParamsUpdatesResult]("cbor.Decode[lsq.ProposedProtocolParamsUpdatesResult]", "lsq"))
	add(decT[lsq.StakeDistributionResult]("cbor.Decode[lsq.StakeDistributionResult]", "lsq"))
	add(decT[lsq.UTxOsResult]("cbor.Decode[lsq.UTxOsResult]", "lsq"))
	add(decT[lsq.UtxoId]("cbor.Decode[lsq.UtxoId]", "lsq"))
	add(decT[lsq.FilteredDelegationsAndRewardAccountsResult]("cbor.Decode[lsq.FilteredDelegationsAndRewardAccountsResult]", "lsq"))
	add(decT[lsq.StakeDelegDepositsResult]("cbor.Decode[lsq.StakeDelegDepositsResult]", "lsq"))
	add(decT[[]lsq.GenesisConfigResult]("cbor.Decode[lsq.[]GenesisConfigResult]", "lsq"))
	add(decT[lsq.GenesisConfigResultProtocolParameters]("cbor.Decode[lsq.GenesisConfigResultProtocolParameters]", "lsq"))
	add(decT[[]lsq.DebugChainDepStateResult]("cbor.Decode[lsq.[]DebugChainDepStateResult]", "lsq"))
	add(decT[lsq.RewardProvenanceResult]("cbor.Decode[lsq.RewardProvenanceResult]", "lsq"))
	add(decT[lsq.UTxOByTxInResult]("cbor.Decode[lsq.UTxOByTxInResult]", "lsq"))
	add(decT[lsq.StakePoolsResult]("cbor.Decode[lsq.StakePoolsResult]", "lsq"))
	add(decT[lsq.AccountStateResult]("cbor.Decode[lsq.AccountStateResult]", "lsq"))
	add(decT[lsq.StakePoolParamsResult]("cbor.Decode[lsq.StakePoolParamsResult]", "lsq"))
	add(decT[lsq.RewardInfoPoolsResult]("cbor.Decode[lsq.RewardInfoPoolsResult]", "lsq"))
	add(decT[[]lsq.PoolStateResult]("cbor.Decode[lsq.[]PoolStateResult]", "lsq"))
	add(decT[[]lsq.StakeSnapshotsResult]("cbor.Decode[lsq.[]StakeSnapshotsResult]", "lsq"))
	add(decT[lsq.PoolDistrResult]("cbor.Decode[lsq.PoolDistrResult]", "lsq"))
	add(decT[lsq.PoolDistr2Result]("cbor.Decode[lsq.PoolDistr2Result]", "lsq"))
	add(decT[lsq.ConstitutionResult]("cbor.Decode[lsq.ConstitutionResult]", "lsq"))
	add(decT[lsq.GovStateResult]("cbor.Decode[lsq.GovStateResult]", "lsq"))
	add(decT[lsq.DRepStateResult]("cbor.Decode[lsq.DRepStateResult]", "lsq"))
	add(decT[lsq.DRepStateEntry]("cbor.Decode[lsq.DRepStateEntry]", "lsq"))
	add(decT[lsq.CommitteeMembersStateResult]("cbor.Decode[lsq.CommitteeMembersStateResult]", "lsq"))
	add(decT[lsq.HotCredAuthStatusValue]("cbor.Decode[lsq.HotCredAuthStatusValue]", "lsq"))
	add(decT[lsq.NextEpochChangeValue]("cbor.Decode[lsq.NextEpochChangeValue]", "lsq"))
	add(decT[lsq.FilteredVoteDelegateesResult]("cbor.Decode[lsq.FilteredVoteDelegateesResult]", "lsq"))
	add(decT[lsq.SPOStakeDistrResult]("cbor.Decode[lsq.SPOStakeDistrResult]", "lsq"))
	add(decT[lsq.ProposalsResult]("cbor.Decode[lsq.ProposalsResult]", "lsq"))
	add(decT[lsq.RatifyStateResult]("cbor.Decode[lsq.RatifyStateResult]", "lsq"))
	add(decT[lsq.LedgerPeerSnapshotResult]("cbor.Decode[lsq.LedgerPeerSnapshotResult]", "lsq"))
	add(decT[lsq.RelayAccessPoint]("cbor.Decode[lsq.RelayAccessPoint]", "lsq"))
	add(decT[lsq.WithOriginSlot]("cbor.Decode[lsq.WithOriginSlot]", "lsq"))
	return es
}
