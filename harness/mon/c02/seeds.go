package c02

// Valid seed inputs: the corpus blocks, the transactions / headers / outputs /
// addresses / scripts inside them (cut out by byte offset with cborx), messages
// built with the library's own NewMsg* constructors, hand-built items, and
// every hex test vector of the repository's *_test.go files that is one
// well-formed CBOR item.

import (
	"bytes"
	"encoding/hex"
	"net"
	"os"
	"path/filepath"
	"regexp"
	"sort"
	"strconv"
	"strings"

	"github.com/blinklabs-io/gouroboros/cbor"
	"github.com/blinklabs-io/gouroboros/ledger/common"
	"github.com/blinklabs-io/gouroboros/protocol"
	"github.com/blinklabs-io/gouroboros/protocol/blockfetch"
	"github.com/blinklabs-io/gouroboros/protocol/chainsync"
	pcommon "github.com/blinklabs-io/gouroboros/protocol/common"
	"github.com/blinklabs-io/gouroboros/protocol/handshake"
	"github.com/blinklabs-io/gouroboros/protocol/keepalive"
	"github.com/blinklabs-io/gouroboros/protocol/leiosfetch"
	"github.com/blinklabs-io/gouroboros/protocol/leiosnotify"
	"github.com/blinklabs-io/gouroboros/protocol/leiosvotes"
	"github.com/blinklabs-io/gouroboros/protocol/localmessagenotification"
	"github.com/blinklabs-io/gouroboros/protocol/localmessagesubmission"
	lsq "github.com/blinklabs-io/gouroboros/protocol/localstatequery"
	"github.com/blinklabs-io/gouroboros/protocol/localtxmonitor"
	"github.com/blinklabs-io/gouroboros/protocol/localtxsubmission"
	"github.com/blinklabs-io/gouroboros/protocol/messagesubmission"
	"github.com/blinklabs-io/gouroboros/protocol/peersharing"
	"github.com/blinklabs-io/gouroboros/protocol/txsubmission"

	"verifharness/cborx"
	"verifharness/corpus"
)

type pools struct {
	m     map[string][]*seed
	order []string
	seen  map[string]map[string]bool
}

func newPools() *pools {
	return &pools{m: map[string][]*seed{}, seen: map[string]map[string]bool{}}
}

func (p *pools) add(pool, name string, b []byte, aux uint) {
	if len(b) == 0 {
		return
	}
	s := p.seen[pool]
	if s == nil {
		s = map[string]bool{}
		p.seen[pool] = s
		p.order = append(p.order, pool)
	}
	k := strconv.Itoa(int(aux)) + ":" + string(b)
	if s[k] {
		return
	}
	s[k] = true
	p.m[pool] = append(p.m[pool], &seed{name: name, b: append([]byte(nil), b...), aux: aux})
}

func cat(parts ...[]byte) []byte { return bytes.Join(parts, nil) }

// enc encodes with the library encoder; a failure just drops the seed.
func enc(v any) []byte {
	var b []byte
	func() {
		defer func() { _ = recover() }()
		out, err := cbor.Encode(v)
		if err == nil {
			b = out
		}
	}()
	return b
}

var blockTxType = map[uint]int{1: 0, 2: 1, 3: 2, 4: 3, 5: 4, 6: 5, 7: 6, 8: 7}

func buildPools(repo string) (*pools, error) {
	p := newPools()
	blocks, err := corpus.Blocks(repo)
	if err != nil {
		return nil, err
	}
	for _, blk := range blocks {
		src := blk.Cbor
		root, err := cborx.ParseExact(src)
		if err != nil {
			return nil, err
		}
		tn := blockTypeNames[blk.Type]
		use := src
		if len(src) > 200000 && root.Kind == cborx.Array && len(root.Items) == 3 && root.Items[1].Kind == cborx.Array && len(root.Items[1].Items) > 40 {
			// the 648 KiB epoch boundary block: keep the first 40 stakeholder ids
			// for the bulk of the mutants, the full block stays in the pool too
			body := root.Items[1]
			small := cat(src[:body.Start], minHead(4, 40), src[body.Items[0].Start:body.Items[39].End], src[body.End:])
			p.add("block:"+tn, blk.Name+"/trimmed", small, 0)
			p.add("block", blk.Name+"/trimmed", small, 0)
			p.add("block:"+tn+":full", blk.Name, src, 0)
		} else {
			p.add("block:"+tn, blk.Name, use, 0)
			p.add("block", blk.Name, use, 0)
		}
		if len(src) < 200000 {
			// NtC wrapping [type, tag24?]: chainsync.WrappedBlock is [type, raw block]
			p.add("wrappedblock", blk.Name, cat([]byte{0x82}, minHead(0, uint64(blk.Type)), src), 0)
			p.add("wrappedblock", blk.Name+"/tag24", cat([]byte{0xd8, 0x18}, minHead(2, uint64(len(src)+2)), []byte{0x82}, minHead(0, uint64(blk.Type)), src), 0)
		}
		if root.Kind != cborx.Array || len(root.Items) < 2 {
			continue
		}
		hdr := root.Items[0].Slice(src)
		p.add("header:"+tn, blk.Name, hdr, 0)
		p.add("header", blk.Name, hdr, 0)
		// NtN wrapped header: byron [0, [[subtype, size], tag24(hdr)]], later eras [era, tag24(hdr)]
		if blk.Type <= 1 {
			p.add("wrappedheader", blk.Name, cat([]byte{0x82, 0x00, 0x82, 0x82}, minHead(0, uint64(blk.Type)), minHead(0, uint64(len(src))), []byte{0xd8, 0x18}, minHead(2, uint64(len(hdr))), hdr), 0)
		} else {
			p.add("wrappedheader", blk.Name, cat([]byte{0x82}, minHead(0, uint64(blk.Type-1)), []byte{0xd8, 0x18}, minHead(2, uint64(len(hdr))), hdr), 0)
		}
		txType, ok := blockTxType[blk.Type]
		if !ok {
			continue
		}
		era := txTypeNames[txType]
		if blk.Type == 1 {
			// Byron: [header, [txPayload, ssc, dlg, upd], extra]; txPayload = [[tx, witnesses]...]
			body := root.Items[1]
			p.add("byronbody", blk.Name, body.Slice(src), 0)
			if body.Kind == cborx.Array && len(body.Items) > 0 && body.Items[0].Kind == cborx.Array {
				for i, t := range body.Items[0].Items {
					if i >= 6 {
						break
					}
					tb := t.Slice(src)
					p.add("tx:"+era, blk.Name, tb, 0)
					p.add("tx", blk.Name, tb, 0)
					if tx := t.At(0); tx != nil && tx.Kind == cborx.Array && len(tx.Items) >= 2 {
						for _, o := range tx.Items[1].Items {
							p.add("txout", blk.Name, o.Slice(src), 0)
							if a := o.At(0); a != nil {
								p.add("addrcbor", blk.Name, a.Slice(src), 0)
								p.add("addrbytes", blk.Name, a.Slice(src), 0)
							}
						}
					}
				}
			}
			continue
		}
		if blk.Type < 2 || len(root.Items) < 4 {
			continue
		}
		bodies, wits, auxm := root.Items[1], root.Items[2], root.Items[3]
		if bodies.Kind != cborx.Array || wits.Kind != cborx.Array || len(bodies.Items) != len(wits.Items) {
			continue
		}
		for i := range bodies.Items {
			body, wit := bodies.Items[i], wits.Items[i]
			aux := []byte{0xf6}
			if a := auxm.MapGet(uint64(i)); a != nil {
				aux = a.Slice(src)
				p.add("aux", blk.Name, aux, 0)
				p.add("auxset", blk.Name, auxm.Slice(src), 0)
				if a.Kind == cborx.Map {
					for j := 1; j < len(a.Items); j += 2 {
						p.add("metadatum", blk.Name, a.Items[j].Slice(src), 0)
					}
				}
			}
			var tx []byte
			if blk.Type >= 5 {
				tx = cat([]byte{0x84}, body.Slice(src), wit.Slice(src), []byte{0xf5}, aux)
			} else {
				tx = cat([]byte{0x83}, body.Slice(src), wit.Slice(src), aux)
			}
			if i < 8 {
				p.add("tx:"+era, blk.Name, tx, 0)
				p.add("tx", blk.Name, tx, 0)
				p.add("txbody:"+era, blk.Name, body.Slice(src), 0)
				p.add("txbody", blk.Name, body.Slice(src), 0)
				p.add("witness", blk.Name, wit.Slice(src), 0)
			}
			if outs := body.MapGet(1); outs != nil && i < 8 {
				for _, o := range outs.Items {
					p.add("txout", blk.Name, o.Slice(src), 0)
					var a, v *cborx.Node
					if o.Kind == cborx.Array {
						a, v = o.At(0), o.At(1)
					} else {
						a, v = o.MapGet(0), o.MapGet(1)
						if d := o.MapGet(2); d != nil && d.Kind == cborx.Array && len(d.Items) == 2 && d.Items[1].Kind == cborx.Tag {
							if in := d.Items[1].Items[0]; in.Kind == cborx.Bytes {
								p.add("plutusdata", blk.Name, in.StringData(), 0)
							}
						}
					}
					if a != nil && a.Kind == cborx.Bytes {
						p.add("addrcbor", blk.Name, a.Slice(src), 0)
						p.add("addrbytes", blk.Name, a.StringData(), 0)
					}
					if v != nil && v.Kind == cborx.Array && len(v.Items) == 2 {
						p.add("multiasset", blk.Name, v.Items[1].Slice(src), 0)
					}
				}
			}
			if certs := body.MapGet(4); certs != nil {
				for _, ct := range certs.Items {
					p.add("cert", blk.Name, ct.Slice(src), 0)
				}
			}
			if m := body.MapGet(9); m != nil {
				p.add("multiasset", blk.Name, m.Slice(src), 0)
			}
			if wit.Kind == cborx.Map {
				if ns := wit.MapGet(1); ns != nil {
					for _, s := range ns.Items {
						p.add("nativescript", blk.Name, s.Slice(src), 0)
					}
				}
				if pd := wit.MapGet(4); pd != nil {
					for _, s := range pd.Items {
						p.add("plutusdata", blk.Name, s.Slice(src), 0)
					}
				}
			}
		}
	}
	if dtx, err := corpus.DijkstraTx(repo); err == nil {
		p.add("tx:dijkstra", "dijkstra_w30_tx", dtx, 0)
		p.add("tx", "dijkstra_w30_tx", dtx, 0)
		if n, err := cborx.ParseExact(dtx); err == nil && n.Kind == cborx.Array && len(n.Items) >= 2 {
			p.add("txbody:dijkstra", "dijkstra_w30_tx", n.Items[0].Slice(dtx), 0)
			p.add("txbody", "dijkstra_w30_tx", n.Items[0].Slice(dtx), 0)
			p.add("witness", "dijkstra_w30_tx", n.Items[1].Slice(dtx), 0)
		}
	}

	// address strings (bech32 / base58) rendered by the library from valid bytes
	for i, s := range p.m["addrbytes"] {
		if i >= 24 {
			break
		}
		func() {
			defer func() { _ = recover() }()
			a, err := common.NewAddressFromBytes(s.b)
			if err != nil {
				return
			}
			p.add("addrstr", "addr", []byte(a.String()), 0)
			if sa := a.StakeAddress(); sa != nil {
				p.add("addrstr", "stake", []byte(sa.String()), 0)
			}
		}()
	}
	p.add("addrstr", "pool", []byte("pool1pu5jlj4q9w9jlxeu370a3c9myx47md5j5m2str0naunn2q3lkdy"), 0)
	p.add("addrstr", "script", []byte(common.ScriptHashToBech32(common.ScriptHash{1, 2, 3})), 0)
	p.add("addrstr", "byron", []byte("Ae2tdPwUPEZFRbyhz3cpfC2CumGzNkFBN2L42rcUc2yjQpEkxDbkPodpMAi"), 0)
	p.add("addrstr", "byron-long", []byte("DdzFFzCqrht9wkicvUx4Hc4W9gjCbx1sjsWAie5zLHo2K2R42y2zvA7W9S9dM9bCHE7xtpNriy1EpE5xwv7mPuSjhP3DVfR4CyW3VvW6"), 0)

	// hand-built items
	kh := bytes.Repeat([]byte{0xab}, 28)
	h32 := bytes.Repeat([]byte{0xcd}, 32)
	x := func(n *cborx.Node) []byte { return n.Encode() }
	p.add("nativescript", "pubkey", x(cborx.A(cborx.U(0), cborx.B(kh))), 0)
	p.add("nativescript", "all", x(cborx.A(cborx.U(1), cborx.A(cborx.A(cborx.U(0), cborx.B(kh)), cborx.A(cborx.U(4), cborx.U(100))))), 0)
	p.add("nativescript", "any", x(cborx.A(cborx.U(2), cborx.A(cborx.A(cborx.U(5), cborx.U(7))))), 0)
	p.add("nativescript", "nofk", x(cborx.A(cborx.U(3), cborx.U(1), cborx.A(cborx.A(cborx.U(0), cborx.B(kh)), cborx.A(cborx.U(1), cborx.A())))), 0)
	p.add("plutusdata", "constr", x(cborx.T(121, cborx.AIndef(cborx.U(1), cborx.B(kh), cborx.T(122, cborx.A()), cborx.M(cborx.U(1), cborx.S("x")), cborx.T(2, cborx.B(bytes.Repeat([]byte{0xff}, 9)))))), 0)
	p.add("plutusdata", "constr102", x(cborx.T(102, cborx.A(cborx.U(200), cborx.A(cborx.I(-5))))), 0)
	p.add("multiasset", "one", x(cborx.M(cborx.B(kh), cborx.M(cborx.B([]byte("tok")), cborx.U(5)))), 0)
	cred := cborx.A(cborx.U(0), cborx.B(kh))
	p.add("cert", "stakereg", x(cborx.A(cborx.U(0), cred)), 0)
	p.add("cert", "stakedereg", x(cborx.A(cborx.U(1), cred)), 0)
	p.add("cert", "stakedeleg", x(cborx.A(cborx.U(2), cred, cborx.B(kh))), 0)
	p.add("cert", "poolretire", x(cborx.A(cborx.U(4), cborx.B(kh), cborx.U(300))), 0)
	p.add("cert", "reg", x(cborx.A(cborx.U(7), cred, cborx.U(2000000))), 0)
	p.add("cert", "votedeleg", x(cborx.A(cborx.U(9), cred, cborx.A(cborx.U(2)))), 0)
	p.add("cert", "regdrep", x(cborx.A(cborx.U(16), cred, cborx.U(500000000), cborx.A(cborx.S("https://x.y"), cborx.B(h32)))), 0)
	p.add("cert", "updatedrep", x(cborx.A(cborx.U(18), cred, cborx.Null())), 0)
	p.add("cert", "authhot", x(cborx.A(cborx.U(14), cred, cred)), 0)
	p.add("cert", "mir", x(cborx.A(cborx.U(6), cborx.A(cborx.U(0), cborx.M(cred, cborx.U(10))))), 0)
	p.add("cert", "poolreg", x(cborx.A(cborx.U(3), cborx.B(kh), cborx.B(h32), cborx.U(1), cborx.U(2), cborx.T(30, cborx.A(cborx.U(1), cborx.U(2))),
		cborx.B(cat([]byte{0xe1}, kh)), cborx.A(cborx.B(kh)),
		cborx.A(cborx.A(cborx.U(0), cborx.U(3001), cborx.B([]byte{1, 2, 3, 4}), cborx.Null()), cborx.A(cborx.U(1), cborx.Null(), cborx.S("relay.io")), cborx.A(cborx.U(2), cborx.S("x.y"))),
		cborx.A(cborx.S("https://p.io"), cborx.B(h32)))), 0)
	p.add("point", "origin", []byte{0x80}, 0)
	p.add("point", "point", x(cborx.A(cborx.U(1234), cborx.B(h32))), 0)
	p.add("point", "tip", x(cborx.A(cborx.A(cborx.U(1234), cborx.B(h32)), cborx.U(77))), 0)
	p.add("versiondata", "ntc", x(cborx.U(764824073)), 0)
	p.add("versiondata", "ntc15", x(cborx.A(cborx.U(764824073), cborx.Bool(false))), 0)
	p.add("versiondata", "ntn7", x(cborx.A(cborx.U(2), cborx.Bool(true))), 0)
	p.add("versiondata", "ntn11", x(cborx.A(cborx.U(2), cborx.Bool(false), cborx.U(1), cborx.Bool(false))), 0)
	p.add("peeraddr", "v4", x(cborx.A(cborx.U(0), cborx.U(0x0100007f), cborx.U(3001))), 0)
	p.add("peeraddr", "v6", x(cborx.A(cborx.U(1), cborx.U(1), cborx.U(2), cborx.U(3), cborx.U(4), cborx.U(3001))), 0)
	p.add("peeraddr", "v6old", x(cborx.A(cborx.U(1), cborx.U(1), cborx.U(2), cborx.U(3), cborx.U(4), cborx.U(0), cborx.U(0), cborx.U(3001))), 0)
	p.add("txerror", "eramismatch", x(cborx.A(cborx.A(cborx.U(5), cborx.S("Babbage")), cborx.A(cborx.U(6), cborx.S("Conway")))), 0)
	p.add("txerror", "applytx", x(cborx.A(cborx.A(cborx.U(6), cborx.A(cborx.A(cborx.U(1), cborx.A(cborx.U(0), cborx.A(cborx.U(5), cborx.U(10), cborx.U(20)))))))), 0)
	p.add("txerror", "applytx-utxow", x(cborx.A(cborx.A(cborx.U(5), cborx.A(cborx.A(cborx.U(1), cborx.A(cborx.U(1), cborx.A(cborx.B(kh)))))))), 0)
	// constructor 0 of the LEDGER failure is the UTXOW failure: [0, [tag, ...]]
	p.add("txerror", "applytx-utxow0", x(cborx.A(cborx.A(cborx.U(6), cborx.A(cborx.A(cborx.U(0), cborx.A(cborx.U(1), cborx.A(cborx.B(kh)))))))), 0)
	p.add("txerror", "applytx-utxow0-utxo", x(cborx.A(cborx.A(cborx.U(5), cborx.A(cborx.A(cborx.U(0), cborx.A(cborx.U(0), cborx.A(cborx.U(5), cborx.U(10), cborx.U(20)))))))), 0)
	p.add("txerror", "text", x(cborx.S("rejected")), 0)
	vsig := bytes.Repeat([]byte{0x11}, 48)
	p.add("leiosvote", "vote", x(cborx.A(cborx.U(5), cborx.B(h32), cborx.U(9), cborx.B(vsig))), 0)
	p.add("leiosvote", "protovote", x(cborx.A(cborx.B(h32), cborx.U(9), cborx.B(vsig))), 0)
	p.add("leiosvote", "ebcert", x(cborx.A(cborx.U(5), cborx.B(h32), cborx.B([]byte{0xff, 0x01}), cborx.B(vsig))), 0)
	p.add("leioseb", "array", x(cborx.A(cborx.M(cborx.B(h32), cborx.U(300)))), 0)
	p.add("leioseb", "map", x(cborx.M(cborx.B(h32), cborx.U(300))), 0)
	dmqPayload := cborx.A(cborx.B([]byte("hello")), cborx.U(3), cborx.U(1700000000))
	opcert := cborx.A(cborx.B(h32), cborx.U(1), cborx.U(3), cborx.B(bytes.Repeat([]byte{0x22}, 64)))
	dmq := cborx.A(cborx.B(h32), dmqPayload, cborx.B(bytes.Repeat([]byte{0x33}, 448)), opcert, cborx.B(h32))
	p.add("dmq", "msg", x(dmq), 0)
	p.add("dmq", "payload", x(dmqPayload), 0)
	p.add("dmq", "payload-legacy", x(cborx.A(cborx.B(h32), cborx.B([]byte("hello")), cborx.U(3), cborx.U(1700000000))), 0)
	p.add("dmq", "reject0", x(cborx.A(cborx.U(0), cborx.S("bad"))), 0)
	p.add("dmq", "reject1", x(cborx.A(cborx.U(1))), 0)
	p.add("dmq", "reject3", x(cborx.A(cborx.U(3), cborx.S("other"))), 0)
	p.add("lsq", "systemstart", x(cborx.A(cborx.U(2017), cborx.U(266), cborx.U(0))), 0)
	p.add("lsq", "systemstart-big", x(cborx.A(cborx.T(2, cborx.B(bytes.Repeat([]byte{0xff}, 9))), cborx.U(266), cborx.T(3, cborx.B(bytes.Repeat([]byte{0xff}, 9))))), 0)
	p.add("lsq", "utxoid", x(cborx.A(cborx.B(h32), cborx.U(1))), 0)
	p.add("lsq", "stakecredmap", x(cborx.M(cred, cborx.U(5))), 0)
	p.add("lsq", "origin", x(cborx.A(cborx.U(0))), 0)
	p.add("lsq", "at", x(cborx.A(cborx.U(1), cborx.U(500))), 0)
	p.add("lsq", "relay", x(cborx.A(cborx.U(0), cborx.B([]byte{127, 0, 0, 1}), cborx.U(3001))), 0)
	p.add("lsq", "relay-dns", x(cborx.A(cborx.U(2), cborx.B([]byte("relay.io")), cborx.U(3001))), 0)
	p.add("lsqquery", "systemstart", x(cborx.A(cborx.U(1))), 0)
	p.add("lsqquery", "blockquery-era", x(cborx.A(cborx.U(0), cborx.A(cborx.U(2), cborx.A(cborx.U(1))))), 0)
	p.add("lsqquery", "shelley-tip", x(cborx.A(cborx.U(0), cborx.A(cborx.U(0), cborx.A(cborx.U(6), cborx.A(cborx.U(0)))))), 0)
	p.add("lsqquery", "shelley-utxo-by-addr", x(cborx.A(cborx.U(0), cborx.A(cborx.U(0), cborx.A(cborx.U(6), cborx.A(cborx.U(6), cborx.T(258, cborx.A(cborx.B(cat([]byte{0x61}, kh))))))))), 0)

	buildMessagePools(p, blocks)
	harvestTestVectors(p, repo)
	buildAnyPool(p, blocks)
	return p, nil
}

func buildMessagePools(p *pools, blocks []corpus.Block) {
	h32 := bytes.Repeat([]byte{0xcd}, 32)
	pt := pcommon.NewPoint(1234, h32)
	tip := chainsync.Tip{Point: pt, BlockNumber: 77}
	addMsg := func(pool string, m protocol.Message) {
		if m == nil {
			return
		}
		if b := enc(m); b != nil {
			p.add("msg:"+pool, pool, b, uint(m.Type()))
		}
	}
	var small, conwayBlk corpus.Block
	for _, b := range blocks {
		if b.Name == "shelley_testnet" {
			small = b
		}
		if b.Name == "conway" {
			conwayBlk = b
		}
	}
	tx := []byte{0x84, 0xa0, 0xa0, 0xf5, 0xf6}
	if s := p.m["tx:conway"]; len(s) > 0 {
		tx = s[0].b
	}
	dmq := pcommon.DmqMessage{
		MessageID:              h32,
		Payload:                pcommon.DmqMessagePayload{MessageBody: []byte("hello"), KESPeriod: 3, ExpiresAt: 1700000000},
		KESSignature:           bytes.Repeat([]byte{0x33}, 448),
		OperationalCertificate: pcommon.OperationalCertificate{KESVerificationKey: h32, IssueNumber: 1, KESPeriod: 3, ColdSignature: bytes.Repeat([]byte{0x22}, 64)},
		ColdVerificationKey:    h32,
	}

	// blockfetch
	addMsg("blockfetch", blockfetch.NewMsgRequestRange(pt, pt))
	addMsg("blockfetch", blockfetch.NewMsgClientDone())
	addMsg("blockfetch", blockfetch.NewMsgStartBatch())
	addMsg("blockfetch", blockfetch.NewMsgNoBlocks())
	addMsg("blockfetch", blockfetch.NewMsgBatchDone())
	for _, b := range []corpus.Block{small, conwayBlk} {
		if b.Cbor != nil {
			addMsg("blockfetch", blockfetch.NewMsgBlock(enc(chainsync.NewWrappedBlock(b.Type, b.Cbor))))
		}
	}
	// chainsync
	for _, mode := range []string{"chainsync-ntn", "chainsync-ntc"} {
		addMsg(mode, chainsync.NewMsgRequestNext())
		addMsg(mode, chainsync.NewMsgAwaitReply())
		addMsg(mode, chainsync.NewMsgRollBackward(pt, tip))
		addMsg(mode, chainsync.NewMsgFindIntersect([]pcommon.Point{pt, pcommon.NewPointOrigin()}))
		addMsg(mode, chainsync.NewMsgIntersectFound(pt, tip))
		addMsg(mode, chainsync.NewMsgIntersectNotFound(tip))
		addMsg(mode, chainsync.NewMsgDone())
	}
	for _, b := range blocks {
		if len(b.Cbor) > 100000 {
			continue
		}
		if m, err := chainsync.NewMsgRollForwardNtC(b.Type, b.Cbor, tip); err == nil {
			addMsg("chainsync-ntc", m)
		}
		era := uint(0)
		if b.Type >= 2 {
			era = b.Type - 1
		}
		if m, err := chainsync.NewMsgRollForwardNtN(era, b.Type, b.Cbor, tip); err == nil {
			addMsg("chainsync-ntn", m)
		}
	}
	// the wire form of the NtN roll-forward, built by hand from the wrapped-header pool
	for _, s := range p.m["wrappedheader"] {
		p.add("msg:chainsync-ntn", "rollforward", cat([]byte{0x83, 0x02}, s.b, enc(&tip)), 2)
	}
	// handshake
	addMsg("handshake", handshake.NewMsgProposeVersions(protocol.ProtocolVersionMap{13: protocol.VersionDataNtN13andUp{VersionDataNtN11to12: protocol.VersionDataNtN11to12{CborNetworkMagic: 2, CborPeerSharing: 1}}}))
	addMsg("handshake", handshake.NewMsgProposeVersions(protocol.ProtocolVersionMap{32784: protocol.VersionDataNtC15andUp{CborNetworkMagic: 764824073}}))
	addMsg("handshake", handshake.NewMsgAcceptVersion(13, protocol.VersionDataNtN13andUp{VersionDataNtN11to12: protocol.VersionDataNtN11to12{CborNetworkMagic: 2}}))
	addMsg("handshake", handshake.NewMsgAcceptVersion(32778, protocol.VersionDataNtC9to14(2)))
	addMsg("handshake", handshake.NewMsgRefuse([]any{uint64(0), []any{uint64(7), uint64(8)}}))
	addMsg("handshake", handshake.NewMsgRefuse([]any{uint64(1), uint64(13), "decode error"}))
	addMsg("handshake", handshake.NewMsgRefuse([]any{uint64(2), uint64(13), "refused"}))
	addMsg("handshake", handshake.NewMsgQueryReply(protocol.ProtocolVersionMap{10: protocol.VersionDataNtN7to10{CborNetworkMagic: 2}}))
	p.add("msg:handshake", "propose-many", cborx.A(cborx.U(0), cborx.M(
		cborx.U(7), cborx.A(cborx.U(2), cborx.Bool(false)),
		cborx.U(11), cborx.A(cborx.U(2), cborx.Bool(false), cborx.U(0), cborx.Bool(false)),
		cborx.U(14), cborx.A(cborx.U(2), cborx.Bool(true), cborx.U(1), cborx.Bool(true)),
		cborx.U(32783), cborx.U(2), cborx.U(32784), cborx.A(cborx.U(2), cborx.Bool(false)))).Encode(), 0)
	// keepalive
	addMsg("keepalive", keepalive.NewMsgKeepAlive(4242))
	addMsg("keepalive", keepalive.NewMsgKeepAliveResponse(4242))
	addMsg("keepalive", keepalive.NewMsgDone())
	// txsubmission
	addMsg("txsubmission", txsubmission.NewMsgInit())
	addMsg("txsubmission", txsubmission.NewMsgRequestTxIds(true, 3, 10))
	addMsg("txsubmission", txsubmission.NewMsgReplyTxIds([]txsubmission.TxIdAndSize{{TxId: txsubmission.TxId{EraId: 6, TxId: [32]byte{1}}, Size: 300}}))
	addMsg("txsubmission", txsubmission.NewMsgReplyTxIds(nil))
	addMsg("txsubmission", txsubmission.NewMsgRequestTxs([]txsubmission.TxId{{EraId: 6, TxId: [32]byte{1}}}))
	addMsg("txsubmission", txsubmission.NewMsgReplyTxs([]txsubmission.TxBody{{EraId: 6, TxBody: tx}}))
	addMsg("txsubmission", txsubmission.NewMsgDone())
	// peersharing
	addMsg("peersharing", peersharing.NewMsgShareRequest(5))
	addMsg("peersharing", peersharing.NewMsgSharePeers([]peersharing.PeerAddress{{IP: net.IPv4(127, 0, 0, 1), Port: 3001}, {IP: net.ParseIP("2001:db8::1"), Port: 3002}}))
	addMsg("peersharing", peersharing.NewMsgDone())
	// localtxsubmission
	addMsg("localtxsubmission", localtxsubmission.NewMsgSubmitTx(6, tx))
	addMsg("localtxsubmission", localtxsubmission.NewMsgAcceptTx())
	for _, s := range p.m["txerror"] {
		addMsg("localtxsubmission", localtxsubmission.NewMsgRejectTx(s.b))
	}
	addMsg("localtxsubmission", localtxsubmission.NewMsgDone())
	// localtxmonitor
	addMsg("localtxmonitor", localtxmonitor.NewMsgDone())
	addMsg("localtxmonitor", localtxmonitor.NewMsgAcquire())
	addMsg("localtxmonitor", localtxmonitor.NewMsgAcquired(1234))
	addMsg("localtxmonitor", localtxmonitor.NewMsgRelease())
	addMsg("localtxmonitor", localtxmonitor.NewMsgNextTx())
	addMsg("localtxmonitor", localtxmonitor.NewMsgReplyNextTx(6, tx))
	p.add("msg:localtxmonitor", "replynext-empty", []byte{0x81, 0x06}, 6)
	addMsg("localtxmonitor", localtxmonitor.NewMsgHasTx(h32))
	addMsg("localtxmonitor", localtxmonitor.NewMsgReplyHasTx(true))
	addMsg("localtxmonitor", localtxmonitor.NewMsgGetSizes())
	addMsg("localtxmonitor", localtxmonitor.NewMsgReplyGetSizes(1000, 200, 3))
	// localstatequery
	addMsg("localstatequery", lsq.NewMsgAcquire(pt))
	addMsg("localstatequery", lsq.NewMsgAcquireVolatileTip())
	addMsg("localstatequery", lsq.NewMsgAcquireImmutableTip())
	addMsg("localstatequery", lsq.NewMsgAcquired())
	addMsg("localstatequery", lsq.NewMsgFailure(1))
	for _, s := range p.m["lsqquery"] {
		p.add("msg:localstatequery", "query", cat([]byte{0x82, 0x03}, s.b), 3)
	}
	for _, s := range p.m["lsq"] {
		addMsg("localstatequery", lsq.NewMsgResult(s.b))
	}
	addMsg("localstatequery", lsq.NewMsgRelease())
	addMsg("localstatequery", lsq.NewMsgReAcquire(pt))
	addMsg("localstatequery", lsq.NewMsgReAcquireVolatileTip())
	addMsg("localstatequery", lsq.NewMsgReAcquireImmutableTip())
	addMsg("localstatequery", lsq.NewMsgDone())
	// DMQ family
	addMsg("messagesubmission", messagesubmission.NewMsgInit())
	addMsg("messagesubmission", messagesubmission.NewMsgRequestMessageIds(true, 1, 5))
	addMsg("messagesubmission", messagesubmission.NewMsgReplyMessageIds([]pcommon.MessageIDAndSize{{MessageID: h32, SizeInBytes: 100}}))
	addMsg("messagesubmission", messagesubmission.NewMsgRequestMessages([][]byte{h32}))
	addMsg("messagesubmission", messagesubmission.NewMsgReplyMessages([]pcommon.DmqMessage{dmq}))
	addMsg("messagesubmission", messagesubmission.NewMsgDone())
	addMsg("localmessagesubmission", localmessagesubmission.NewMsgSubmitMessage(dmq))
	addMsg("localmessagesubmission", localmessagesubmission.NewMsgAcceptMessage())
	if m, err := localmessagesubmission.NewMsgRejectMessage(pcommon.InvalidReason{Message: "bad"}); err == nil {
		addMsg("localmessagesubmission", m)
	}
	if m, err := localmessagesubmission.NewMsgRejectMessage(pcommon.ExpiredReason{}); err == nil {
		addMsg("localmessagesubmission", m)
	}
	addMsg("localmessagesubmission", localmessagesubmission.NewMsgDone())
	addMsg("localmessagenotification", localmessagenotification.NewMsgRequestMessages(true))
	addMsg("localmessagenotification", localmessagenotification.NewMsgReplyMessagesNonBlocking([]pcommon.DmqMessage{dmq}, true))
	addMsg("localmessagenotification", localmessagenotification.NewMsgReplyMessagesBlocking([]pcommon.DmqMessage{dmq}))
	addMsg("localmessagenotification", localmessagenotification.NewMsgClientDone())
	// Leios family
	vote := common.LeiosVote{SlotNo: 5, EndorserBlockHash: common.NewBlake2b256(h32), VoterId: 9, VoteSignature: bytes.Repeat([]byte{0x11}, 48)}
	voteRaw := cbor.RawMessage(enc(vote))
	eb := cbor.RawMessage(cborx.A(cborx.M(cborx.B(h32), cborx.U(300))).Encode())
	addMsg("leiosvotes", leiosvotes.NewMsgVotesRequestNext(3))
	addMsg("leiosvotes", leiosvotes.NewMsgVote(vote))
	addMsg("leiosvotes", leiosvotes.NewMsgDone())
	addMsg("leiosnotify", leiosnotify.NewMsgNotificationRequestNext())
	addMsg("leiosnotify", leiosnotify.NewMsgBlockOffer(pt, 1000))
	addMsg("leiosnotify", leiosnotify.NewMsgBlockTxsOffer(pt))
	addMsg("leiosnotify", leiosnotify.NewMsgVotesOffer([]leiosnotify.MsgVotesOfferVote{{SlotNo: 5, VoterId: 9}}))
	addMsg("leiosnotify", leiosnotify.NewMsgVotesOfferFull([]common.LeiosVote{vote}))
	addMsg("leiosnotify", leiosnotify.NewMsgDone())
	if s := p.m["header:conway"]; len(s) > 0 {
		p.add("msg:leiosnotify", "announce", cat([]byte{0x82, 0x01}, s[0].b), 1)
	}
	addMsg("leiosfetch", leiosfetch.NewMsgBlockRequest(pt))
	addMsg("leiosfetch", leiosfetch.NewMsgBlock(eb))
	addMsg("leiosfetch", leiosfetch.NewMsgBlockTxs([]cbor.RawMessage{tx}))
	addMsg("leiosfetch", leiosfetch.NewMsgVotesRequest([]leiosfetch.MsgVotesRequestVoteId{{SlotNo: 5, VoterId: 9}}))
	addMsg("leiosfetch", leiosfetch.NewMsgVotes([]cbor.RawMessage{voteRaw}))
	addMsg("leiosfetch", leiosfetch.NewMsgBlockRangeRequest(pt, pt))
	addMsg("leiosfetch", leiosfetch.NewMsgNextBlockAndTxsInRange(eb, []cbor.RawMessage{tx}))
	addMsg("leiosfetch", leiosfetch.NewMsgLastBlockAndTxsInRange(eb, []cbor.RawMessage{tx}))
	addMsg("leiosfetch", leiosfetch.NewMsgDone())
	addMsg("leiosfetch", leiosfetch.NewMsgNoBlock())
	addMsg("leiosfetch", leiosfetch.NewMsgNoBlockTxs())
	func() {
		defer func() { _ = recover() }()
		addMsg("leiosfetch", leiosfetch.NewMsgBlockTxsRequest(pt, map[uint16]uint64{0: 5}))
	}()
}

var hexRe = regexp.MustCompile(`"([0-9a-fA-F]{6,})"`)

// harvestTestVectors adds every hex string literal of the repository's test
// files that decodes to exactly one well-formed CBOR item (by cborx) to the
// candidate pool "vec". The files are read by path, in sorted order.
func harvestTestVectors(p *pools, repo string) {
	var files []string
	filepath.Walk(repo, func(path string, info os.FileInfo, err error) error {
		if err != nil {
			return nil
		}
		if info.IsDir() {
			if n := info.Name(); n == ".git" || n == "examples" {
				return filepath.SkipDir
			}
			return nil
		}
		if strings.HasSuffix(path, "_test.go") && info.Size() < 4<<20 {
			files = append(files, path)
		}
		return nil
	})
	sort.Strings(files)
	n := 0
	for _, f := range files {
		b, err := os.ReadFile(f)
		if err != nil {
			continue
		}
		rel, _ := filepath.Rel(repo, f)
		for _, m := range hexRe.FindAllSubmatch(b, -1) {
			if len(m[1])%2 != 0 || len(m[1]) > 40000 {
				continue
			}
			raw, err := hex.DecodeString(string(m[1]))
			if err != nil {
				continue
			}
			node, err := cborx.ParseExact(raw)
			if err != nil {
				continue
			}
			// a bare integer / simple value is not an interesting vector
			if node.Kind == cborx.Uint || node.Kind == cborx.Nint || node.Kind == cborx.Simple {
				continue
			}
			p.add("vec", rel, raw, 0)
			n++
		}
	}
}

// buildAnyPool: generic candidates = test vectors + hand-built pools + the
// sub-items of the corpus blocks down to depth 6 (bounded, evenly thinned).
func buildAnyPool(p *pools, blocks []corpus.Block) {
	for _, name := range append([]string(nil), p.order...) {
		if name == "any" || strings.HasPrefix(name, "block") || name == "wrappedblock" || name == "addrstr" {
			continue
		}
		for _, s := range p.m[name] {
			if len(s.b) <= 20000 {
				p.add("any", name+"/"+s.name, s.b, 0)
			}
		}
	}
	var sub [][]byte
	seen := map[string]bool{}
	for _, blk := range blocks {
		if len(blk.Cbor) > 100000 {
			continue
		}
		root, err := cborx.ParseExact(blk.Cbor)
		if err != nil {
			continue
		}
		var walk func(n *cborx.Node, depth int)
		walk = func(n *cborx.Node, depth int) {
			sz := n.End - n.Start
			if sz >= 2 && sz <= 3000 && (n.IsContainer() || n.Kind == cborx.Tag || sz > 20) {
				k := string(blk.Cbor[n.Start:n.End])
				if !seen[k] {
					seen[k] = true
					sub = append(sub, blk.Cbor[n.Start:n.End])
				}
			}
			if depth >= 7 || n.Kind == cborx.Bytes || n.Kind == cborx.Text {
				return
			}
			for _, c := range n.Items {
				walk(c, depth+1)
			}
		}
		walk(root, 0)
	}
	const maxSub = 600
	step := 1
	if len(sub) > maxSub {
		step = (len(sub) + maxSub - 1) / maxSub
	}
	for i := 0; i < len(sub); i += step {
		p.add("any", "blockitem", sub[i], 0)
	}
}
