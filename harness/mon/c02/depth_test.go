package c02

import "testing"

func TestNestingDepth(t *testing.T) {
	cases := []struct {
		hex  string
		want int
	}{
		{"00", 0}, {"80", 1}, {"8100", 1}, {"818100", 2}, {"a1a1a1000000", 3}, {"a100a100a10000", 3},
		{"9f9f9fffffff", 3}, {"c6c6c600", 3}, {"82810081810000", 3}, {"828100818100", 3}, {"5f4100ff", 1},
		{"9a8000000000", 1}, {"81", 1}, {"8181", 2}, {"ff", 0}, {"8301820203820405", 2},
	}
	for _, c := range cases {
		b := make([]byte, len(c.hex)/2)
		for i := range b {
			var v byte
			for _, ch := range c.hex[2*i : 2*i+2] {
				v <<= 4
				switch {
				case ch >= '0' && ch <= '9':
					v |= byte(ch - '0')
				default:
					v |= byte(ch-'a') + 10
				}
			}
			b[i] = v
		}
		if got := nestingDepth(b); got != c.want {
			t.Errorf("%s: got %d want %d", c.hex, got, c.want)
		}
	}
}
