package c02

// Value walk: a decoder that returns (value, nil) promises a value that can be
// read. After every successful decode through a ledger entry point the
// accessors of the returned value are called inside the same guard as the
// decode itself (panic / watchdog / allocation), through the interfaces of
// ledger/common only. A failure here is reported as
// C02:<entry>:value-walk:<accessor>. Conversions (Utxorpc, ToPlutusData,
// JSON) are deliberately not part of the walk.

import (
	"reflect"
	"sync/atomic"

	"github.com/blinklabs-io/gouroboros/ledger/common"
	"github.com/blinklabs-io/gouroboros/protocol"
)

// walker remembers which accessor is being called, for the witness.
type walker struct {
	cur   atomic.Pointer[string]
	calls int
}

func (w *walker) at(name string) { w.calls++; w.cur.Store(&name) }

func (w *walker) accessor() string {
	if p := w.cur.Load(); p != nil {
		return *p
	}
	return ""
}

const walkMaxTx = 24
const walkMaxItems = 64

// isNil: nil interface or typed nil pointer / map / slice (calling a method on
// those is the caller's mistake, not an unreadable value).
func isNil(v any) bool {
	if v == nil {
		return true
	}
	rv := reflect.ValueOf(v)
	switch rv.Kind() {
	case reflect.Pointer, reflect.Map, reflect.Slice, reflect.Interface, reflect.Func, reflect.Chan:
		return rv.IsNil()
	}
	return false
}

// walkValue dispatches on what the decoder returned.
func walkValue(v any, w *walker) {
	if isNil(v) {
		return
	}
	switch x := v.(type) {
	case *common.BlockWithOffsets:
		if !isNil(x.Block) {
			walkBlock(x.Block, w, "Block.")
		}
	case common.Block:
		walkBlock(x, w, "")
	case common.BlockHeader:
		walkHeader(x, w, "")
	case common.Transaction:
		walkTx(x, w, "")
	case common.TransactionBody:
		walkBody(x, w, "")
	case common.TransactionOutput:
		walkOutput(x, w, "")
	case protocol.Message:
		w.at("Type")
		_ = x.Type()
		w.at("Cbor")
		_ = x.Cbor()
	}
}

func walkHeader(h common.BlockHeader, w *walker, p string) {
	w.at(p + "Hash")
	_ = h.Hash()
	w.at(p + "PrevHash")
	_ = h.PrevHash()
	w.at(p + "BlockNumber")
	_ = h.BlockNumber()
	w.at(p + "SlotNumber")
	_ = h.SlotNumber()
	w.at(p + "IssuerVkey")
	iv := h.IssuerVkey()
	w.at(p + "IssuerVkey.Hash")
	_ = iv.Hash()
	w.at(p + "BlockBodySize")
	_ = h.BlockBodySize()
	w.at(p + "Era")
	_ = h.Era()
	w.at(p + "Cbor")
	_ = h.Cbor()
	w.at(p + "BlockBodyHash")
	_ = h.BlockBodyHash()
}

func walkBlock(b common.Block, w *walker, p string) {
	w.at(p + "Header")
	if h := b.Header(); !isNil(h) {
		walkHeader(h, w, p+"Header.")
	}
	walkHeader(b, w, p)
	w.at(p + "Type")
	_ = b.Type()
	w.at(p + "Transactions")
	txs := b.Transactions()
	for i, tx := range txs {
		if i >= walkMaxTx && i != len(txs)-1 {
			continue
		}
		if isNil(tx) {
			continue
		}
		walkTx(tx, w, p+"Transactions[].")
	}
}

func walkTx(tx common.Transaction, w *walker, p string) {
	w.at(p + "Type")
	_ = tx.Type()
	w.at(p + "Hash")
	_ = tx.Hash()
	w.at(p + "IsValid")
	_ = tx.IsValid()
	w.at(p + "Metadata")
	if md := tx.Metadata(); !isNil(md) {
		w.at(p + "Metadata.TypeName")
		_ = md.TypeName()
		w.at(p + "Metadata.Cbor")
		_ = md.Cbor()
	}
	w.at(p + "AuxiliaryData")
	if ad := tx.AuxiliaryData(); !isNil(ad) {
		w.at(p + "AuxiliaryData.Metadata")
		_, _ = ad.Metadata()
		w.at(p + "AuxiliaryData.NativeScripts")
		_, _ = ad.NativeScripts()
		w.at(p + "AuxiliaryData.PlutusV1Scripts")
		_, _ = ad.PlutusV1Scripts()
		w.at(p + "AuxiliaryData.PlutusV2Scripts")
		_, _ = ad.PlutusV2Scripts()
		w.at(p + "AuxiliaryData.PlutusV3Scripts")
		_, _ = ad.PlutusV3Scripts()
		w.at(p + "AuxiliaryData.PlutusV4Scripts")
		_, _ = ad.PlutusV4Scripts()
		w.at(p + "AuxiliaryData.Cbor")
		_ = ad.Cbor()
	}
	walkBody(tx, w, p)
	w.at(p + "Consumed")
	for i, in := range tx.Consumed() {
		if i >= walkMaxItems || isNil(in) {
			continue
		}
		walkInput(in, w, p+"Consumed[].")
	}
	w.at(p + "Produced")
	for i, u := range tx.Produced() {
		if i >= walkMaxItems {
			break
		}
		if !isNil(u.Id) {
			walkInput(u.Id, w, p+"Produced[].Id.")
		}
		if !isNil(u.Output) {
			walkOutput(u.Output, w, p+"Produced[].Output.")
		}
	}
	w.at(p + "Witnesses")
	if ws := tx.Witnesses(); !isNil(ws) {
		walkWitnesses(ws, w, p+"Witnesses.")
	}
	w.at(p + "Cbor")
	_ = tx.Cbor()
}

func walkInput(in common.TransactionInput, w *walker, p string) {
	w.at(p + "Id")
	_ = in.Id()
	w.at(p + "Index")
	_ = in.Index()
	w.at(p + "String")
	_ = in.String()
}

func walkInputs(ins []common.TransactionInput, w *walker, p string) {
	for i, in := range ins {
		if i >= walkMaxItems || isNil(in) {
			continue
		}
		walkInput(in, w, p)
	}
}

func walkBody(b common.TransactionBody, w *walker, p string) {
	w.at(p + "Id")
	_ = b.Id()
	w.at(p + "Fee")
	_ = b.Fee()
	w.at(p + "Inputs")
	walkInputs(b.Inputs(), w, p+"Inputs[].")
	w.at(p + "Outputs")
	for i, o := range b.Outputs() {
		if i >= walkMaxItems || isNil(o) {
			continue
		}
		walkOutput(o, w, p+"Outputs[].")
	}
	w.at(p + "TTL")
	_ = b.TTL()
	w.at(p + "ValidityIntervalStart")
	_ = b.ValidityIntervalStart()
	w.at(p + "ProtocolParameterUpdates")
	_, _ = b.ProtocolParameterUpdates()
	w.at(p + "ReferenceInputs")
	walkInputs(b.ReferenceInputs(), w, p+"ReferenceInputs[].")
	w.at(p + "Collateral")
	walkInputs(b.Collateral(), w, p+"Collateral[].")
	w.at(p + "CollateralReturn")
	if cr := b.CollateralReturn(); !isNil(cr) {
		walkOutput(cr, w, p+"CollateralReturn.")
	}
	w.at(p + "TotalCollateral")
	_ = b.TotalCollateral()
	w.at(p + "Certificates")
	for i, ct := range b.Certificates() {
		if i >= walkMaxItems || isNil(ct) {
			continue
		}
		w.at(p + "Certificates[].Type")
		_ = ct.Type()
		w.at(p + "Certificates[].Cbor")
		_ = ct.Cbor()
	}
	w.at(p + "Withdrawals")
	for a, amt := range b.Withdrawals() {
		if a != nil {
			w.at(p + "Withdrawals[].Address.String")
			_ = a.String()
		}
		_ = amt
	}
	w.at(p + "AuxDataHash")
	_ = b.AuxDataHash()
	w.at(p + "RequiredSigners")
	_ = b.RequiredSigners()
	w.at(p + "AssetMint")
	if am := b.AssetMint(); am != nil {
		w.at(p + "AssetMint.Policies")
		for i, pol := range am.Policies() {
			if i >= walkMaxItems {
				break
			}
			w.at(p + "AssetMint.Assets")
			for _, an := range am.Assets(pol) {
				w.at(p + "AssetMint.Asset")
				_ = am.Asset(pol, an)
			}
		}
	}
	w.at(p + "ScriptDataHash")
	_ = b.ScriptDataHash()
	w.at(p + "VotingProcedures")
	_ = b.VotingProcedures()
	w.at(p + "ProposalProcedures")
	for i, pp := range b.ProposalProcedures() {
		if i >= walkMaxItems || isNil(pp) {
			continue
		}
		w.at(p + "ProposalProcedures[].Deposit")
		_ = pp.Deposit()
		w.at(p + "ProposalProcedures[].RewardAccount")
		_ = pp.RewardAccount()
		w.at(p + "ProposalProcedures[].GovAction")
		_ = pp.GovAction()
		w.at(p + "ProposalProcedures[].Anchor")
		_ = pp.Anchor()
	}
	w.at(p + "CurrentTreasuryValue")
	_ = b.CurrentTreasuryValue()
	w.at(p + "Donation")
	_ = b.Donation()
	w.at(p + "Cbor")
	_ = b.Cbor()
}

func walkOutput(o common.TransactionOutput, w *walker, p string) {
	w.at(p + "Address")
	a := o.Address()
	w.at(p + "Address.String")
	_ = a.String()
	w.at(p + "Address.Bytes")
	_, _ = a.Bytes()
	w.at(p + "Amount")
	_ = o.Amount()
	w.at(p + "Assets")
	if as := o.Assets(); as != nil {
		w.at(p + "Assets.Policies")
		for i, pol := range as.Policies() {
			if i >= walkMaxItems {
				break
			}
			w.at(p + "Assets.Assets")
			for _, an := range as.Assets(pol) {
				w.at(p + "Assets.Asset")
				_ = as.Asset(pol, an)
			}
		}
	}
	w.at(p + "Datum")
	if d := o.Datum(); d != nil {
		w.at(p + "Datum.Cbor")
		_ = d.Cbor()
	}
	w.at(p + "DatumHash")
	_ = o.DatumHash()
	w.at(p + "ScriptRef")
	if s := o.ScriptRef(); !isNil(s) {
		w.at(p + "ScriptRef.Hash")
		_ = s.Hash()
		w.at(p + "ScriptRef.RawScriptBytes")
		_ = s.RawScriptBytes()
	}
	w.at(p + "Cbor")
	_ = o.Cbor()
}

func walkWitnesses(ws common.TransactionWitnessSet, w *walker, p string) {
	w.at(p + "Vkey")
	_ = ws.Vkey()
	w.at(p + "NativeScripts")
	for i, ns := range ws.NativeScripts() {
		if i >= walkMaxItems {
			break
		}
		w.at(p + "NativeScripts[].Hash")
		_ = ns.Hash()
	}
	w.at(p + "Bootstrap")
	_ = ws.Bootstrap()
	w.at(p + "PlutusData")
	for i, d := range ws.PlutusData() {
		if i >= walkMaxItems {
			break
		}
		w.at(p + "PlutusData[].Cbor")
		_ = d.Cbor()
	}
	w.at(p + "PlutusV1Scripts")
	_ = ws.PlutusV1Scripts()
	w.at(p + "PlutusV2Scripts")
	_ = ws.PlutusV2Scripts()
	w.at(p + "PlutusV3Scripts")
	_ = ws.PlutusV3Scripts()
	w.at(p + "PlutusV4Scripts")
	_ = common.PlutusV4ScriptsFromWitnessSet(ws)
	w.at(p + "Redeemers")
	if r := ws.Redeemers(); !isNil(r) {
		for tag := common.RedeemerTag(0); tag < 6; tag++ {
			w.at(p + "Redeemers.Indexes")
			for i, idx := range r.Indexes(tag) {
				if i >= walkMaxItems {
					break
				}
				w.at(p + "Redeemers.Value")
				_ = r.Value(idx, tag)
			}
		}
		w.at(p + "Redeemers.Iter")
		n := 0
		for range r.Iter() {
			if n++; n >= walkMaxItems {
				break
			}
		}
	}
}
