package c02

// Mutants of a valid block that stay decodable item by item but whose parts
// no longer fit together: the transaction bodies, witness sets, auxiliary data
// map and invalid-transaction list of a Shelley..Dijkstra block are parallel
// structures paired by index, a Byron transaction pairs inputs with witnesses.
// Each mutant comes in two forms: as is (for the decoders that skip the body
// hash check) and with the header's body hash recomputed over the changed body
// (Shelley..Conway), so that the default configuration gets past the hash
// check as well.

import (
	"bytes"
	"fmt"

	"golang.org/x/crypto/blake2b"

	"verifharness/cborx"
)

type blockMutant struct {
	b     []byte
	desc  string
	fixed bool // body hash in the header recomputed
}

func h256(b []byte) []byte { s := blake2b.Sum256(b); return s[:] }

// rebuild writes a container with the same kind / definiteness as n but the
// given element encodings (for maps: alternating keys and values).
func rebuild(n *cborx.Node, elems [][]byte) []byte {
	cnt := uint64(len(elems))
	if n.Kind == cborx.Map {
		cnt /= 2
	}
	var out []byte
	if n.Form == cborx.FormIndef {
		out = append(out, major(n.Kind)<<5|31)
	} else {
		out = append(out, minHead(major(n.Kind), cnt)...)
	}
	for _, e := range elems {
		out = append(out, e...)
	}
	if n.Form == cborx.FormIndef {
		out = append(out, 0xff)
	}
	return out
}

func elemsOf(src []byte, n *cborx.Node) [][]byte {
	out := make([][]byte, len(n.Items))
	for i, it := range n.Items {
		out[i] = src[it.Start:it.End]
	}
	return out
}

func without(e [][]byte, i int) [][]byte {
	out := append([][]byte{}, e[:i]...)
	return append(out, e[i+1:]...)
}

func withDup(e [][]byte, i int) [][]byte {
	out := append([][]byte{}, e[:i+1]...)
	out = append(out, e[i])
	return append(out, e[i+1:]...)
}

// shelleyBodyHash: blake2b256 over the concatenated blake2b256 of the block's
// elements 1..n-1 (n = 4 before Alonzo, 5 from Alonzo on).
func shelleyBodyHash(src []byte, root *cborx.Node, n int) []byte {
	if root.Kind != cborx.Array || len(root.Items) < n {
		return nil
	}
	var cat []byte
	for i := 1; i < n; i++ {
		cat = append(cat, h256(root.Items[i].Slice(src))...)
	}
	return h256(cat)
}

// inconsistentBlocks enumerates the mutants of one corpus block. all=false
// keeps the last-element variants only (quick), all=true works on every index.
func inconsistentBlocks(blockType uint, src []byte, all bool) []blockMutant {
	root, err := cborx.ParseExact(src)
	if err != nil || root.Kind != cborx.Array {
		return nil
	}
	var out []blockMutant
	emit := func(b []byte, desc string) { out = append(out, blockMutant{b: b, desc: desc}) }

	switch {
	case blockType == 1:
		byronMutants(src, root, all, emit)
	case blockType >= 2 && blockType <= 7:
		if len(root.Items) < 4 {
			return nil
		}
		parts := root.Items[1:]
		partsMutants(src, parts, blockType >= 5, all, emit)
	case blockType == 8:
		// Dijkstra: [header, [bodies, witness sets, auxiliary data, invalid, ...]]
		if len(root.Items) >= 2 && root.Items[1].Kind == cborx.Array && len(root.Items[1].Items) >= 3 {
			partsMutants(src, root.Items[1].Items, true, all, emit)
		}
	}

	// second form: header body hash recomputed (Shelley..Conway)
	if blockType >= 2 && blockType <= 7 {
		n := 4
		if blockType >= 5 {
			n = 5
		}
		old := shelleyBodyHash(src, root, n)
		hdr := root.Items[0]
		off := -1
		if old != nil {
			off = bytes.Index(src[hdr.Start:hdr.End], old)
			if off >= 0 && bytes.Contains(src[hdr.Start+off+1:hdr.End], old) {
				off = -1
			}
		}
		if off >= 0 {
			base := len(out)
			for i := 0; i < base; i++ {
				m := out[i]
				r2, _, err := cborx.Parse(m.b)
				if err != nil {
					continue
				}
				nh := shelleyBodyHash(m.b, r2, n)
				if nh == nil || !bytes.Equal(m.b[:hdr.End], src[:hdr.End]) {
					continue
				}
				fb := append([]byte(nil), m.b...)
				copy(fb[hdr.Start+off:], nh)
				out = append(out, blockMutant{b: fb, desc: m.desc + " + body hash recomputed", fixed: true})
			}
		}
	}
	return out
}

// partsMutants works on the parallel parts [bodies, witness sets, aux map, invalid list?].
func partsMutants(src []byte, parts []*cborx.Node, hasInvalid, all bool, emit func([]byte, string)) {
	bodies, wits, aux := parts[0], parts[1], parts[2]
	if bodies.Kind != cborx.Array || wits.Kind != cborx.Array {
		return
	}
	replace := func(n *cborx.Node, elems [][]byte) []byte {
		return splice(src, n.Start, n.End, rebuild(n, elems))
	}
	be, we := elemsOf(src, bodies), elemsOf(src, wits)
	ntx := len(be)
	idx := func(n int) []int {
		if n == 0 {
			return nil
		}
		if !all || n == 1 {
			return []int{n - 1}
		}
		ix := []int{0, n - 1}
		if n > 2 {
			ix = append(ix, n/2)
		}
		return ix
	}
	for _, i := range idx(len(we)) {
		emit(replace(wits, without(we, i)), fmt.Sprintf("witness set %d of %d dropped", i, len(we)))
		emit(replace(wits, withDup(we, i)), fmt.Sprintf("witness set %d of %d duplicated", i, len(we)))
	}
	for _, i := range idx(ntx) {
		emit(replace(bodies, without(be, i)), fmt.Sprintf("transaction body %d of %d dropped", i, ntx))
		emit(replace(bodies, withDup(be, i)), fmt.Sprintf("transaction body %d of %d duplicated", i, ntx))
	}
	if len(we) > 0 {
		emit(replace(wits, nil), "all witness sets removed")
		emit(replace(wits, we[:1]), "only the first witness set kept")
	}
	if ntx > 0 {
		emit(replace(bodies, nil), "all transaction bodies removed")
		emit(replace(bodies, be[:1]), "only the first transaction body kept")
	}
	if ntx == 0 {
		emit(replace(wits, [][]byte{{0xa0}}), "a witness set without a transaction body")
	}
	// auxiliary data map: index beyond the transaction count
	if aux.Kind == cborx.Map {
		ae := elemsOf(src, aux)
		val := []byte{0xa0}
		if len(ae) >= 2 {
			val = ae[1]
		}
		for _, k := range []uint64{uint64(ntx), uint64(ntx) + 7, 1<<16 + 1, 1<<32 - 1, 1 << 32, 1<<63 - 1, ^uint64(0)} {
			emit(replace(aux, append(append([][]byte{}, ae...), minHead(0, k), val)), fmt.Sprintf("auxiliary data for transaction index %d of %d", k, ntx))
		}
		if len(ae) >= 2 {
			// the existing entries re-keyed beyond the end
			re := append([][]byte{}, ae...)
			re[0] = minHead(0, uint64(ntx)+1)
			emit(replace(aux, re), "first auxiliary data entry re-keyed beyond the last transaction")
		}
		emit(replace(aux, [][]byte{{0x20}, val}), "auxiliary data keyed -1")
	}
	// invalid transactions (Alonzo+): indexes beyond the transaction count
	if hasInvalid && len(parts) >= 4 && parts[3].Kind == cborx.Array {
		inv := parts[3]
		for _, ks := range [][]uint64{{uint64(ntx)}, {uint64(ntx) + 100}, {1<<31 - 1}, {1 << 31}, {1<<32 - 1}, {1 << 32}, {^uint64(0)}, {0, 0}, {0, uint64(ntx)}} {
			var el [][]byte
			for _, k := range ks {
				el = append(el, minHead(0, k))
			}
			emit(replace(inv, el), fmt.Sprintf("invalid transaction indexes %v with %d transactions", ks, ntx))
		}
		if ntx > 0 {
			var el [][]byte
			for k := 0; k < ntx; k++ {
				el = append(el, minHead(0, uint64(k)))
			}
			emit(replace(inv, el), "every transaction marked invalid")
			// and combined with fewer witness sets
			m := replace(inv, el[:1])
			if wits.Start < inv.Start && len(we) > 0 {
				m = splice(m, wits.Start, wits.End, rebuild(wits, without(we, len(we)-1)))
				emit(m, "first transaction invalid and last witness set dropped")
			}
		}
	}
	// bodies and witness sets swapped
	if ntx > 0 && bodies.End <= wits.Start {
		m := splice(src, wits.Start, wits.End, src[bodies.Start:bodies.End])
		m = splice(m, bodies.Start, bodies.End, src[wits.Start:wits.End])
		emit(m, "transaction bodies and witness sets swapped")
	}
}

// byronMutants: main block [header, [txPayload, ssc, dlg, upd], extra];
// txPayload = [[tx, [witness...]]...], tx = [inputs, outputs, attributes].
func byronMutants(src []byte, root *cborx.Node, all bool, emit func([]byte, string)) {
	if len(root.Items) < 2 || root.Items[1].Kind != cborx.Array || len(root.Items[1].Items) < 1 {
		return
	}
	body := root.Items[1]
	txp := body.Items[0]
	if txp.Kind != cborx.Array {
		return
	}
	replace := func(n *cborx.Node, elems [][]byte) []byte {
		return splice(src, n.Start, n.End, rebuild(n, elems))
	}
	for ti, t := range txp.Items {
		if !all && ti != len(txp.Items)-1 {
			continue
		}
		if t.Kind != cborx.Array || len(t.Items) != 2 {
			continue
		}
		tx, ws := t.Items[0], t.Items[1]
		if ws.Kind == cborx.Array {
			we := elemsOf(src, ws)
			if len(we) > 0 {
				emit(replace(ws, without(we, len(we)-1)), fmt.Sprintf("tx %d: last witness dropped", ti))
				emit(replace(ws, withDup(we, len(we)-1)), fmt.Sprintf("tx %d: last witness duplicated", ti))
				emit(replace(ws, nil), fmt.Sprintf("tx %d: no witnesses", ti))
			}
		}
		if tx.Kind == cborx.Array && len(tx.Items) >= 2 {
			for k, what := range []string{"inputs", "outputs"} {
				l := tx.Items[k]
				if l.Kind != cborx.Array {
					continue
				}
				le := elemsOf(src, l)
				if len(le) > 0 {
					emit(replace(l, without(le, len(le)-1)), fmt.Sprintf("tx %d: last of %d %s dropped", ti, len(le), what))
					emit(replace(l, withDup(le, len(le)-1)), fmt.Sprintf("tx %d: last of %s duplicated", ti, what))
					emit(replace(l, nil), fmt.Sprintf("tx %d: no %s", ti, what))
				}
			}
		}
		// the pair reduced to the transaction / extended by one element
		te := elemsOf(src, t)
		emit(replace(t, te[:1]), fmt.Sprintf("tx %d: payload entry without witness list", ti))
		emit(replace(t, append(append([][]byte{}, te...), []byte{0x80})), fmt.Sprintf("tx %d: payload entry with a third element", ti))
	}
	pe := elemsOf(src, txp)
	if len(pe) > 0 {
		emit(replace(txp, withDup(pe, len(pe)-1)), "last transaction payload entry duplicated")
		emit(replace(txp, nil), "transaction payload emptied")
	}
	// the other payloads of the body: emptied or exchanged
	be := elemsOf(src, body)
	if len(be) == 4 {
		emit(replace(body, [][]byte{be[0], be[1], be[3], be[2]}), "delegation and update payloads exchanged")
		emit(replace(body, [][]byte{be[0], be[1], {0x80}, be[3]}), "delegation payload emptied")
		emit(replace(body, [][]byte{be[0], be[1], be[2], be[3], {0x80}}), "fifth body payload")
	}
}
