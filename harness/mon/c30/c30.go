// Package c30 monitors C30: the minimum fee and the size limit use the
// transaction's real size.
//
// Observation points: the era's UtxoValidateFeeTooSmallUtxo and
// UtxoValidateMaxTxSizeUtxo rules, the era's MinFeeTx, common.TxSizeForFee and
// common.CalculateMinFee, on
//
//	(S) transactions DECODED from bytes X: the transactions of the real corpus
//	    blocks re-assembled from their original body / witness / auxiliary
//	    bytes into a standalone envelope, and ledgergen transactions; each as
//	    is and under PRNG encoding policies (non-minimal / indefinite container
//	    headers, wide integers, wide / chunked strings),
//	(B) transactions taken from DECODED BLOCKS (block.Transactions()) of the
//	    corpus, the block as is and re-encoded under the same policies,
//	(F) canonical ledgergen transactions through the era's complete rule list
//	    with fee in {min-1, min, min+1},
//	(C) CalculateMinFee on a grid of sizes and parameters.
//
// Oracle (big-integer arithmetic, sizes from the generator's own bytes):
//
//	size(S) = len(X) - 1 if era in Alonzo..Conway and the envelope has 4 items,
//	          len(X) otherwise
//	size(B) = 1 + |body| + |witness set| + (|aux data| or 1 for null), original
//	          byte ranges of the block (what the ledger re-assembles for a
//	          block transaction); Dijkstra: the transaction item itself
//	fee rule accepts            =>  fee >= a*size + b
//	a*size + b >= 2^64          =>  MinFeeTx / CalculateMinFee return an error
//	MinFeeTx returns v, nil     =>  v >= a*size + b
//	max-size rule accepts       =>  size <= limit
//
// The last line is the weaker of the two readings of "that same original
// length" (len(X) or len(X)-1 for the 4-item envelope): a limit of len(X)-2 or
// less must be rejected under either reading.
package c30

import (
	"encoding/binary"
	"fmt"
	"math"
	"math/big"
	"sort"
	"strings"
	"sync"

	"github.com/blinklabs-io/gouroboros/ledger"
	"github.com/blinklabs-io/gouroboros/ledger/alonzo"
	"github.com/blinklabs-io/gouroboros/ledger/babbage"
	"github.com/blinklabs-io/gouroboros/ledger/common"
	"github.com/blinklabs-io/gouroboros/ledger/conway"
	"github.com/blinklabs-io/gouroboros/ledger/dijkstra"
	"github.com/blinklabs-io/gouroboros/ledger/mary"
	"github.com/blinklabs-io/gouroboros/ledger/shelley"

	"verifharness/blockx"
	"verifharness/cborx"
	"verifharness/core"
	"verifharness/corpus"
	lg "verifharness/ledgergen"
)

func init() {
	core.Register(&core.Monitor{
		ID:            "C30",
		Rule:          "(S) every transaction of the corpus blocks Shelley..Conway (51) + the corpus Dijkstra transaction + ledgergen transactions per era (payment, metadata, multi-asset, Plutus world valid / is_valid=false), each under encoding policies {as-is, containers, ints, strings, indef-strings, all} and the size-neutral presentations {keys-descending, all-maps-reversed, keys-shuffled} (map key order: identical size, identical verdicts) x PRNG variants (quick 3, thorough 40) x (a,b) in {0,44,155381,2^32,2^63,2^64-1}^2 x fee in {min-1,min,min+1} (fee written as an 8-byte integer so the size does not depend on it; min >= 2^64: fee 2^64-1) + max-size limits {len-2,len-1,len,len+1}; (B) every corpus block as is and re-encoded under the same policies x variants, every transaction of the decoded block x a in {0,44,155381,2^32} with b chosen so that min = fee+{-1,0,1}, plus the (a,b) grid, plus max-size limits around the size; (F) ledgergen transactions through the full rule list at fee min-1/min/min+1; (C) CalculateMinFee on sizes {0,1,2,100,16384,2^31-1,2^32,2^62,2^63-1} + PRNG x the (a,b) grid; a case is non-trivial when the transaction / block decodes; distinct by (family, source, policy variant, a, b, fee offset | limit)",
		MinNontrivial: 20000,
		Assumptions: []string{
			"a transaction taken from a block has, as its original encoding, the 3-item re-assembly of its original body / witness-set / auxiliary-data bytes (1 + |body| + |wits| + |aux or null|), which is what the ledger sizes",
			"Dijkstra transactions with an explicit 4-item envelope are not generated (the statement names Alonzo..Conway only; the library subtracts the byte there too)",
			"the max-size rule is judged against the fee-relevant size (the weaker reading of the statement)",
			"a spurious error (MinFeeTx / CalculateMinFee failing although a*size+b < 2^64) is counted, not judged: the statement only forbids wrapped values",
		},
		Run: run,
	})
}

// ---------------------------------------------------------------- parameters

var emptyState = lg.NewState(lg.Mainnet)

var two64 = new(big.Int).Lsh(big.NewInt(1), 64)

var gridAB = []uint64{0, 44, 155381, 1 << 32, 1 << 63, math.MaxUint64}

func bigU(v uint64) *big.Int { return new(big.Int).SetUint64(v) }

// refMin returns a*size + b.
func refMin(a, b uint64, size int) *big.Int {
	m := new(big.Int).Mul(bigU(a), big.NewInt(int64(size)))
	return m.Add(m, bigU(b))
}

func minFeeFn(e lg.Era) func(common.Transaction, common.ProtocolParameters) (uint64, error) {
	switch e {
	case lg.Shelley, lg.Allegra:
		return shelley.MinFeeTx
	case lg.Mary:
		return mary.MinFeeTx
	case lg.Alonzo:
		return alonzo.MinFeeTx
	case lg.Babbage:
		return babbage.MinFeeTx
	case lg.Conway:
		return conway.MinFeeTx
	}
	return dijkstra.MinFeeTx
}

func params(e lg.Era, a, b uint64, maxTx uint) common.ProtocolParameters {
	p := lg.DefaultParams(e)
	p.MinFeeA, p.MinFeeB, p.MaxTxSize = uint(a), uint(b), maxTx
	return p.For(e)
}

// ---------------------------------------------------------------- policies

type policy struct {
	name string
	o    blockx.RandOpts
	// reorder: size-neutral presentations (the ledger prescribes no map key
	// order): 1 = body and witness-set map entries in descending key order,
	// 2 = entries of EVERY map of the transaction reversed, 3 = body and
	// witness-set entries in a PRNG order
	reorder int
}

// reorderMap permutes the entries of a map node in place.
func reorderMap(m *cborx.Node, mode int, r *core.Rand) int {
	if m == nil || m.Kind != cborx.Map || len(m.Items) < 4 {
		return 0
	}
	n := len(m.Items) / 2
	idx := make([]int, n)
	for i := range idx {
		idx[i] = n - 1 - i
	}
	if mode == 3 {
		idx = r.Perm(n)
	}
	items := make([]*cborx.Node, 0, len(m.Items))
	for _, i := range idx {
		items = append(items, m.Items[2*i], m.Items[2*i+1])
	}
	m.Items = items
	return 1
}

// reorderTx applies a reorder mode to one transaction (body, witness set and,
// for mode 2, every nested map incl. the auxiliary data).
func reorderTx(mode int, r *core.Rand, body, wits *cborx.Node, rest ...*cborx.Node) int {
	ch := 0
	if mode == 2 {
		for _, root := range append([]*cborx.Node{body, wits}, rest...) {
			if root == nil {
				continue
			}
			root.Walk(func(x *cborx.Node) { ch += reorderMap(x, 2, r) })
		}
		return ch
	}
	return reorderMap(body, mode, r) + reorderMap(wits, mode, r)
}

var policies = []policy{
	{name: "as-is", o: blockx.RandOpts{}},
	{name: "containers", o: blockx.RandOpts{Containers: true, Num: 1, Den: 3}},
	{name: "ints", o: blockx.RandOpts{Ints: true, Num: 1, Den: 3}},
	{name: "strings", o: blockx.RandOpts{Strings: true, Num: 1, Den: 4}},
	{name: "indef-strings", o: blockx.RandOpts{IndefStrings: true, Num: 1, Den: 6}},
	{name: "all", o: blockx.RandOpts{Containers: true, Ints: true, Strings: true, IndefStrings: true, Tags: true, Num: 1, Den: 5}},
	{name: "keys-descending", reorder: 1},
	{name: "all-maps-reversed", reorder: 2},
	{name: "keys-shuffled", reorder: 3},
}

// targeted policies of the block family: exactly one node of transaction 0
// changes, so that a witness names the component whose bytes were lost.
var blockTargeted = []string{"tx0-fee-8-byte", "tx0-witness-map-wide"}

func applyTargeted(name string, l *blockx.Layout) int {
	if len(l.Txs) == 0 {
		return 0
	}
	t := l.Txs[0]
	switch name {
	case "tx0-fee-8-byte":
		if f := t.Body.MapGet(2); f != nil && f.SetForm(cborx.Form8) {
			return 1
		}
	case "tx0-witness-map-wide":
		if t.Witness.Kind == cborx.Map && t.Witness.SetForm(cborx.Form1) {
			return 1
		}
	}
	return 0
}

// auxiliary data shapes: the plain metadata map (Shelley), the
// [metadata, scripts] array (Allegra / Mary) and the tagged map #6.259
// (Alonzo+). In the last two the metadata bytes are only a part of the
// auxiliary data.
var auxShapes = []string{"aux-plain-map", "aux-array", "aux-tag259"}

func auxNode(shape string) *cborx.Node {
	md := func() *cborx.Node {
		return cborx.M(cborx.U(1), cborx.S("abc"), cborx.U(674), cborx.M(cborx.S("msg"), cborx.A(cborx.S("c30 auxiliary data"))))
	}
	native := func() *cborx.Node { return cborx.A(cborx.A(cborx.U(1), cborx.A())) }
	switch shape {
	case "aux-array":
		return cborx.A(md(), native())
	case "aux-tag259":
		return cborx.T(259, cborx.M(cborx.U(0), md(), cborx.U(1), native(), cborx.U(2), cborx.A(cborx.B([]byte{0x4d, 0x01, 0x00, 0x00, 0x33, 0x22, 0x22, 0x20, 0x05, 0x12, 0x00, 0x12, 0x00, 0x11}))))
	}
	return md()
}

// setAux replaces (or adds) the auxiliary data of transaction k of a block.
func setAux(l *blockx.Layout, k int, aux *cborx.Node) bool {
	if k < 0 || k >= len(l.Txs) {
		return false
	}
	if w := l.Txs[k].Whole; w != nil { // Dijkstra: [body, wits, aux]
		if len(w.Items) != 3 {
			return false
		}
		w.Items[2] = aux
		return true
	}
	if !l.Split || l.AuxMap == nil {
		return false
	}
	m := l.AuxMap
	for i := 0; i+1 < len(m.Items); i += 2 {
		if m.Items[i].Kind == cborx.Uint && m.Items[i].Arg == uint64(k) {
			m.Items[i+1] = aux
			return true
		}
	}
	m.Items = append(m.Items, cborx.U(uint64(k)), aux)
	return true
}

func encClass(p policy, changed int) string {
	if strings.HasPrefix(p.name, "aux-") || p.reorder != 0 {
		return p.name
	}
	if p.name == "as-is" || changed == 0 {
		return "canonical"
	}
	return "noncanonical"
}

// ---------------------------------------------------------------- findings

type finding struct {
	key, what string
	witness   map[string]any
	weight    [2]int
	count     int
}

type collector struct {
	mu sync.Mutex
	m  map[string]*finding
}

func (co *collector) add(f finding) {
	co.mu.Lock()
	defer co.mu.Unlock()
	old := co.m[f.key]
	if old == nil {
		f.count = 1
		co.m[f.key] = &f
		return
	}
	old.count++
	if f.weight[0] < old.weight[0] || (f.weight[0] == old.weight[0] && f.weight[1] < old.weight[1]) {
		f.count = old.count
		co.m[f.key] = &f
	}
}

func (co *collector) flush(c *core.Ctx) {
	var ks []string
	for k := range co.m {
		ks = append(ks, k)
	}
	sort.Strings(ks)
	for _, k := range ks {
		f := co.m[k]
		f.witness["cases_in_this_class"] = f.count
		c.Violation(f.key, fmt.Sprintf("%s (%d such cases)", f.what, f.count), f.witness)
	}
}

// ---------------------------------------------------------------- judging one decoded transaction

// subject is one decoded transaction together with what the generator knows.
type subject struct {
	family string // "standalone" | "block"
	era    lg.Era
	source string // corpus:<block>#i, ledgergen:<variant>
	policy string
	enc    string // canonical | noncanonical
	tx     common.Transaction
	size   int    // reference fee-relevant size
	origin []byte // the bytes the transaction (or its block) was decoded from
	fee    uint64 // the fee the generator wrote
	detail map[string]any
}

// weight orders witnesses: fewest re-encoded nodes, then shortest input.
func (s *subject) weight() [2]int {
	n, _ := s.detail["nodes_re_encoded"].(int)
	return [2]int{n, len(s.origin)}
}

func (s *subject) witness(extra map[string]any) map[string]any {
	w := map[string]any{"family": s.family, "era": s.era.String(), "source": s.source, "policy": s.policy, "encoding": s.enc,
		"reference_size": s.size, "fee_in_body": s.fee, "library_tx_cbor_len": len(s.tx.Cbor())}
	if sz, err := common.TxSizeForFee(s.tx); err == nil {
		w["library_TxSizeForFee"] = sz
	} else {
		w["library_TxSizeForFee_error"] = err.Error()
	}
	if s.family == "standalone" {
		w["tx_cbor"] = core.HexFull(s.origin)
	} else {
		w["block_cbor_len"] = len(s.origin)
		w["block_cbor"] = core.HexFull(s.origin)
	}
	for k, v := range s.detail {
		w[k] = v
	}
	for k, v := range extra {
		w[k] = v
	}
	return w
}

// judgeFee runs MinFeeTx and the fee rule for parameters (a, b).
func judgeFee(c *core.Ctx, co *collector, s *subject, a, b uint64, how string) {
	en := s.era.String()
	pp := params(s.era, a, b, 1<<30)
	want := refMin(a, b, s.size)
	overflow := want.Cmp(two64) >= 0
	fee := bigU(s.fee)
	c.Eval()
	tag := s.family + ":" + en

	v, merr := minFeeFn(s.era)(s.tx, pp)
	switch {
	case merr != nil && overflow:
		c.Count("minfee_overflow_error_"+tag, 1)
	case merr != nil:
		c.Count("minfee_spurious_error_"+tag, 1)
	case overflow:
		co.add(finding{key: "C30:overflow:MinFeeTx:" + tag,
			what:    fmt.Sprintf("%s.MinFeeTx returns %d, nil although a*size+b = %s >= 2^64 (a=%d b=%d size=%d)", en, v, want, a, b, s.size),
			witness: s.witness(map[string]any{"a": a, "b": b, "reference_min_fee": want.String(), "library_min_fee": v}), weight: s.weight()})
	case bigU(v).Cmp(want) < 0:
		co.add(finding{key: "C30:fee:" + tag + ":" + s.enc,
			what:    fmt.Sprintf("%s %s transaction (%s, %s encoding): MinFeeTx = %d but a*size+b = %s with the real size %d (a=%d b=%d): the library sizes the transaction at fewer bytes than its original encoding", en, s.family, s.source, s.enc, v, want, s.size, a, b),
			witness: s.witness(map[string]any{"a": a, "b": b, "reference_min_fee": want.String(), "library_min_fee": v, "observed_at": "MinFeeTx"}), weight: s.weight()})
	case bigU(v).Cmp(want) == 0:
		c.Count("minfee_exact_"+tag, 1)
	default:
		// the library sizes the transaction at MORE bytes than the statement's
		// definition (original length, minus one for a four-element envelope):
		// the fee rule then demands more than a*size+b. Keyed by how the
		// envelope header of the original bytes is written.
		c.Count("minfee_above_reference_"+tag, 1)
		form := "other"
		if s.family == "standalone" && len(s.origin) > 0 {
			switch b0 := s.origin[0]; {
			case b0 >= 0x80 && b0 <= 0x97:
				form = "direct"
			case b0 >= 0x98 && b0 <= 0x9b:
				form = "wide-definite"
			case b0 == 0x9f:
				form = "indefinite"
			}
		}
		co.add(finding{key: "C30:size-too-large:" + tag + ":envelope-" + form,
			what:    fmt.Sprintf("%s %s transaction (%s, envelope header %s): MinFeeTx = %d exceeds a*size+b = %s for the statement's size %d (a=%d b=%d): the library does not take the four-element-envelope byte off for this encoding", en, s.family, s.source, form, v, want, s.size, a, b),
			witness: s.witness(map[string]any{"a": a, "b": b, "reference_min_fee": want.String(), "library_min_fee": v, "observed_at": "MinFeeTx"}), weight: s.weight()})
	}

	rule, _ := lg.Rule(s.era, "UtxoValidateFeeTooSmallUtxo")
	// the history check (same objects validated again, state snapshots) is
	// expensive: it runs on the boundary case fee == min of every encoding
	var rerr error
	if strings.HasPrefix(how, "fee=min+0") {
		rerr = lg.Checked(s.era, s.tx, emptyState, func() error { return rule(s.tx, 0, emptyState, pp) })
	} else {
		rerr = rule(s.tx, 0, emptyState, pp)
	}
	if rerr != nil {
		c.Count("fee_rule_reject_"+tag, 1)
		if fee.Cmp(want) >= 0 {
			c.Count("fee_rule_reject_sufficient_fee_"+tag, 1)
		}
		return
	}
	c.Count("fee_rule_accept_"+tag, 1)
	if fee.Cmp(want) >= 0 {
		return
	}
	if overflow {
		co.add(finding{key: "C30:overflow:fee-rule:" + tag,
			what:    fmt.Sprintf("%s fee rule accepts fee %d although a*size+b = %s >= 2^64 (a=%d b=%d size=%d)", en, s.fee, want, a, b, s.size),
			witness: s.witness(map[string]any{"a": a, "b": b, "reference_min_fee": want.String(), "case": how}), weight: s.weight()})
		return
	}
	co.add(finding{key: "C30:fee:" + tag + ":" + s.enc,
		what:    fmt.Sprintf("%s %s transaction (%s, %s encoding): UtxoValidateFeeTooSmallUtxo accepts fee %d < a*size+b = %s with the real size %d (a=%d b=%d)", en, s.family, s.source, s.enc, s.fee, want, s.size, a, b),
		witness: s.witness(map[string]any{"a": a, "b": b, "reference_min_fee": want.String(), "observed_at": "UtxoValidateFeeTooSmallUtxo", "case": how}), weight: s.weight()})
}

// judgeMaxSize runs the max-size rule with limits around the reference size.
func judgeMaxSize(c *core.Ctx, co *collector, s *subject, fullLen int) {
	en := s.era.String()
	tag := s.family + ":" + en
	rule, _ := lg.Rule(s.era, "UtxoValidateMaxTxSizeUtxo")
	for _, d := range []int{-2, -1, 0, 1} {
		limit := fullLen + d
		if limit < 0 {
			continue
		}
		c.Eval()
		c.Distinct("M", s.family, s.source, s.policy, s.detail["variant"], d)
		mpp := params(s.era, 44, 155381, uint(limit))
		err := lg.Checked(s.era, s.tx, emptyState, func() error { return rule(s.tx, 0, emptyState, mpp) })
		if err != nil {
			c.Count("maxsize_reject_"+tag, 1)
			if fullLen <= limit {
				c.Count("maxsize_reject_within_limit_"+tag, 1)
			}
			continue
		}
		c.Count("maxsize_accept_"+tag, 1)
		if s.size <= limit {
			continue
		}
		co.add(finding{key: "C30:maxsize:" + tag + ":" + s.enc,
			what:    fmt.Sprintf("%s %s transaction (%s, %s encoding): UtxoValidateMaxTxSizeUtxo accepts with limit %d although the original encoding has %d bytes (fee-relevant size %d)", en, s.family, s.source, s.enc, limit, fullLen, s.size),
			witness: s.witness(map[string]any{"max_tx_size": limit, "original_length": fullLen}), weight: s.weight()})
	}
}

// ---------------------------------------------------------------- (S) standalone

type base struct {
	era    lg.Era
	source string
	node   *cborx.Node // envelope [body, wits, (valid,) aux]
}

// feeNode returns the value node of body key 2.
func feeNode(env *cborx.Node) *cborx.Node {
	if env.Kind != cborx.Array || len(env.Items) == 0 || env.Items[0].Kind != cborx.Map {
		return nil
	}
	body := env.Items[0]
	for i := 0; i+1 < len(body.Items); i += 2 {
		if body.Items[i].Kind == cborx.Uint && body.Items[i].Arg == 2 {
			return body.Items[i+1]
		}
	}
	return nil
}

func eraOfBlock(t uint) lg.Era { return lg.Era(int(t) - corpus.TypeShelley) }

func corpusBases(c *core.Ctx) []base {
	var out []base
	for _, b := range corpus.MustBlocks(c.RepoDir) {
		if blockx.IsByron(b.Type) || b.Type == corpus.TypeDijkstra {
			continue
		}
		l, err := blockx.Analyze(b.Type, b.Cbor)
		if err != nil {
			c.Inconclusive("corpus block " + b.Name + ": " + err.Error())
			continue
		}
		e := eraOfBlock(b.Type)
		for _, t := range l.Txs {
			aux := cborx.Null()
			if t.Aux != nil {
				aux = cborx.Raw(t.Aux.Slice(l.Src))
			}
			items := []*cborx.Node{cborx.Raw(t.Body.Slice(l.Src)), cborx.Raw(t.Witness.Slice(l.Src))}
			if e >= lg.Alonzo {
				items = append(items, cborx.Bool(t.Valid))
			}
			items = append(items, aux)
			out = append(out, base{e, fmt.Sprintf("corpus:%s#%d", b.Name, t.Index), cborx.A(items...)})
		}
	}
	if dj, err := corpus.DijkstraTx(c.RepoDir); err == nil {
		if n, err := cborx.ParseExact(dj); err == nil && n.Kind == cborx.Array && len(n.Items) == 3 {
			out = append(out, base{lg.Dijkstra, "corpus:dijkstra-tx", n})
		}
	}
	return out
}

var polA = lg.Blake224([]byte("c30-policy"))

func ledgergenBases() []base {
	var out []base
	add := func(e lg.Era, name string, s *lg.TxSpec) {
		out = append(out, base{e, "ledgergen:" + e.String() + ":" + name, cborx.Raw(s.Build().Cbor)})
	}
	for _, e := range lg.AllEras {
		w := lg.NewWorld(e)
		add(e, "payment", w.Spec)
		m := w.Spec.Clone()
		m.AuxData = cborx.M(cborx.U(674), cborx.M(cborx.S("msg"), cborx.A(cborx.S("c30"))))
		add(e, "metadata", m)
		if e >= lg.Allegra {
			ma := w.Spec.Clone()
			ma.AuxData = auxNode("aux-array")
			add(e, "aux-array", ma)
		}
		if e >= lg.Alonzo {
			mt := w.Spec.Clone()
			mt.AuxData = auxNode("aux-tag259")
			add(e, "aux-tag259", mt)
		}
		if e.HasMultiAsset() {
			t := w.Spec.Clone()
			t.Outputs = append(t.Outputs, lg.Output{Addr: w.PayerAddr(), Coin: 2_000_000, MapForm: e >= lg.Babbage, Assets: []lg.Asset{lg.Tok(polA, "tok", 7)}})
			t.Mint = []lg.Asset{lg.Tok(polA, "tok", 7)}
			add(e, "multi-asset", t)
		}
		if e.HasPlutus() {
			lang := uint(1)
			if e == lg.Alonzo {
				lang = 0 // Alonzo has PlutusV1 only
			}
			sw := lg.NewScriptWorld(e, lang)
			add(e, "plutus", sw.Spec)
			if e != lg.Dijkstra {
				inv := sw.Spec.Clone()
				inv.Invalid = true
				add(e, "plutus-invalid", inv)
			}
		}
	}
	return out
}

func runStandalone(c *core.Ctx, co *collector, bases []base) {
	variants := c.N(3, 40)
	type job struct {
		bi, pi, vi int
	}
	var jobs []job
	for bi := range bases {
		for pi, p := range policies {
			n := variants
			if p.name == "as-is" || p.reorder == 1 || p.reorder == 2 {
				n = 1
			}
			for vi := 0; vi < n; vi++ {
				jobs = append(jobs, job{bi, pi, vi})
			}
		}
	}
	c.Note("standalone_bases", len(bases))
	c.Note("standalone_encodings", len(jobs))
	c.Parallel("standalone", len(jobs), 0, func(i int, r *core.Rand) {
		j := jobs[i]
		b, p := bases[j.bi], policies[j.pi]
		env := b.node.Clone()
		changed := 0
		switch {
		case p.reorder != 0:
			if env.Kind == cborx.Array && len(env.Items) >= 3 {
				changed = reorderTx(p.reorder, r, env.Items[0], env.Items[1], env.Items[len(env.Items)-1])
			}
		case p.name != "as-is":
			changed = blockx.Randomize(env, r, p.o)
		}
		fn := feeNode(env)
		if fn == nil {
			c.Inconclusive("generator: no fee in " + b.source)
			return
		}
		*fn = cborx.Node{Kind: cborx.Uint, Arg: 0, Form: cborx.Form8}
		x, tree := env.Reparse()
		fn = feeNode(tree)
		off := fn.Start + 1
		adj := 0
		if b.era >= lg.Alonzo && b.era <= lg.Conway && len(tree.Items) == 4 {
			adj = 1
		}
		size := len(x) - adj
		enc := encClass(p, changed)
		en := b.era.String()
		c.Journal("C30 standalone %d %s policy=%s variant=%d len=%d", i, b.source, p.name, j.vi, len(x))
		decode := func(fee uint64) common.Transaction {
			binary.BigEndian.PutUint64(x[off:off+8], fee)
			var tx common.Transaction
			var err error
			if pn, _, _ := core.Safely(func() { tx, err = lg.Decode(b.era, x) }); pn || err != nil {
				return nil
			}
			return tx
		}
		// max-size: once per encoding
		tx := decode(200_000)
		if tx == nil {
			c.Count("standalone_decode_rejected_"+en+"_"+p.name, 1)
			return
		}
		c.Count("standalone_decoded_"+en+"_"+enc, 1)
		mk := func(tx common.Transaction, fee uint64) *subject {
			return &subject{family: "standalone", era: b.era, source: b.source, policy: p.name, enc: enc, tx: tx, size: size,
				origin: append([]byte(nil), x...), fee: fee, detail: map[string]any{"variant": j.vi, "envelope_items": len(tree.Items), "nodes_re_encoded": changed}}
		}
		judgeMaxSize(c, co, mk(tx, 200_000), len(x))
		for _, a := range gridAB {
			for _, bb := range gridAB {
				want := refMin(a, bb, size)
				for _, d := range []int64{-1, 0, 1} {
					f := new(big.Int).Add(want, big.NewInt(d))
					how := fmt.Sprintf("fee=min%+d", d)
					if want.Cmp(two64) >= 0 {
						if d != 0 {
							continue
						}
						f = bigU(math.MaxUint64)
						how = "min>=2^64, fee=2^64-1"
					}
					if f.Sign() < 0 || !f.IsUint64() {
						continue
					}
					tx := decode(f.Uint64())
					if tx == nil {
						c.Count("standalone_decode_rejected_"+en+"_"+p.name, 1)
						continue
					}
					c.Distinct("S", b.source, p.name, j.vi, a, bb, d)
					judgeFee(c, co, mk(tx, f.Uint64()), a, bb, how)
				}
			}
		}
		if i%173 == 0 {
			c.Sample(map[string]any{"family": "standalone", "source": b.source, "policy": p.name, "encoding": enc, "len": len(x), "reference_size": size, "tx_cbor": core.Hex(x)})
		}
	})
}

// ---------------------------------------------------------------- (B) block-derived

func skipCfg() common.VerifyConfig { return common.VerifyConfig{SkipBodyHashValidation: true} }

func runBlocks(c *core.Ctx, co *collector) {
	variants := c.N(3, 40)
	type job struct {
		b      corpus.Block
		pi, vi int
		aux    string // auxiliary data shape written into one transaction
		auxNC  bool   // ... in a PRNG non-canonical encoding
		auxTx  int    // 0 = first, 1 = last transaction of the block
	}
	var jobs []job
	for _, b := range corpus.MustBlocks(c.RepoDir) {
		if blockx.IsByron(b.Type) {
			continue
		}
		for pi, p := range policies {
			n := variants
			if p.name == "as-is" || p.reorder == 1 || p.reorder == 2 {
				n = 1
			}
			for vi := 0; vi < n; vi++ {
				jobs = append(jobs, job{b: b, pi: pi, vi: vi})
			}
		}
		for ti := range blockTargeted {
			jobs = append(jobs, job{b: b, pi: -1 - ti})
		}
		for _, shape := range auxShapes {
			for _, nc := range []bool{false, true} {
				for sel := 0; sel < 2; sel++ {
					jobs = append(jobs, job{b: b, pi: -100, aux: shape, auxNC: nc, auxTx: sel})
				}
			}
		}
	}
	c.Note("block_encodings", len(jobs))
	c.Parallel("blocks", len(jobs), 0, func(i int, r *core.Rand) {
		j := jobs[i]
		var p policy
		switch {
		case j.aux != "":
			p = policy{name: j.aux}
			if j.auxNC {
				p.name += "-noncanonical"
			}
		case j.pi >= 0:
			p = policies[j.pi]
		default:
			p = policy{name: blockTargeted[-1-j.pi]}
		}
		root, err := cborx.ParseExact(j.b.Cbor)
		if err != nil {
			c.Inconclusive("corpus block does not parse: " + j.b.Name)
			return
		}
		changed := 0
		switch {
		case j.aux != "":
			l0, err := blockx.AnalyzeNode(j.b.Type, j.b.Cbor, root)
			if err != nil {
				return
			}
			if j.b.Type == corpus.TypeDijkstra && len(l0.Txs) == 0 && l0.DjTxs != nil {
				// the corpus Dijkstra block is empty: put the corpus transaction in
				if raw, err := corpus.DijkstraTx(c.RepoDir); err == nil {
					if n, err := cborx.ParseExact(raw); err == nil && n.Kind == cborx.Array && len(n.Items) == 3 {
						l0.DjTxs.Items = append(l0.DjTxs.Items, n)
						l0.Txs = append(l0.Txs, blockx.Tx{Index: 0, Whole: n, Body: n.Items[0], Witness: n.Items[1]})
					}
				}
			}
			k := 0
			if j.auxTx == 1 {
				k = len(l0.Txs) - 1
			}
			aux := auxNode(j.aux)
			if j.auxNC {
				blockx.Randomize(aux, r, blockx.RandOpts{Containers: true, Ints: true, Strings: true, IndefStrings: true, Num: 1, Den: 2})
			}
			if !setAux(l0, k, aux) {
				return
			}
			changed = 1
		case j.pi < 0:
			if l0, err := blockx.AnalyzeNode(j.b.Type, j.b.Cbor, root); err == nil {
				changed = applyTargeted(p.name, l0)
			}
		case p.reorder != 0:
			if l0, err := blockx.AnalyzeNode(j.b.Type, j.b.Cbor, root); err == nil {
				for _, t := range l0.Txs {
					changed += reorderTx(p.reorder, r, t.Body, t.Witness, t.Aux)
				}
			}
		case p.name != "as-is":
			changed = blockx.Randomize(root, r, p.o)
		}
		y, _ := root.Reparse()
		l, err := blockx.Analyze(j.b.Type, y)
		if err != nil {
			c.Inconclusive("blockx: " + err.Error())
			return
		}
		e := eraOfBlock(j.b.Type)
		en := e.String()
		c.Journal("C30 block %d %s policy=%s variant=%d len=%d", i, j.b.Name, p.name, j.vi, len(y))
		var blk ledger.Block
		if pn, _, _ := core.Safely(func() { blk, err = ledger.NewBlockFromCbor(j.b.Type, y, skipCfg()) }); pn || err != nil {
			c.Count("block_decode_rejected_"+en+"_"+p.name, 1)
			return
		}
		txs := blk.Transactions()
		if len(txs) != len(l.Txs) {
			c.Count("block_tx_count_differs_"+en, 1)
			return
		}
		enc := encClass(p, changed)
		c.Count("block_decoded_"+en+"_"+enc, 1)
		for k, t := range l.Txs {
			size := 1 + len(t.Body.Slice(y)) + len(t.Witness.Slice(y)) + 1
			if t.Aux != nil {
				size += len(t.Aux.Slice(y)) - 1
			}
			if t.Whole != nil { // Dijkstra: the transaction is one item of the block
				size = len(t.Whole.Slice(y))
			}
			fnode := t.Body.MapGet(2)
			if fnode == nil || fnode.Kind != cborx.Uint {
				continue
			}
			fee := fnode.Arg
			s := &subject{family: "block", era: e, source: fmt.Sprintf("corpus:%s#%d", j.b.Name, k), policy: p.name, enc: enc, tx: txs[k], size: size, origin: y, fee: fee,
				detail: map[string]any{"variant": j.vi, "nodes_re_encoded": changed, "original_body": core.HexFull(t.Body.Slice(y)), "original_witness_set_len": len(t.Witness.Slice(y)),
					"library_body_cbor_len": bodyLen(txs[k]), "block_type": j.b.Type, "tx_index": k, "original_aux_data": auxHex(t, y)}}
			judgeMaxSize(c, co, s, size)
			// b chosen so that min = fee - d
			for _, a := range []uint64{0, 44, 155381, 1 << 32} {
				as := new(big.Int).Mul(bigU(a), big.NewInt(int64(size)))
				for _, d := range []int64{-1, 0, 1} {
					bb := new(big.Int).Sub(bigU(fee), as)
					bb.Sub(bb, big.NewInt(d))
					if bb.Sign() < 0 || !bb.IsUint64() {
						continue
					}
					c.Distinct("B", s.source, p.name, j.vi, a, "fee-min", d)
					judgeFee(c, co, s, a, bb.Uint64(), fmt.Sprintf("fee=min%+d (b fitted)", d))
				}
			}
			for _, a := range gridAB {
				for _, bb := range gridAB {
					c.Distinct("B", s.source, p.name, j.vi, a, bb)
					judgeFee(c, co, s, a, bb, "grid")
				}
			}
		}
		if i%29 == 0 {
			c.Sample(map[string]any{"family": "block", "block": j.b.Name, "policy": p.name, "variant": j.vi, "encoding": enc, "len": len(y), "txs": len(txs)})
		}
	})
}

func auxHex(t blockx.Tx, src []byte) string {
	if t.Aux == nil {
		return ""
	}
	return core.HexFull(t.Aux.Slice(src))
}

func bodyLen(tx common.Transaction) int {
	switch t := tx.(type) {
	case *shelley.ShelleyTransaction:
		return len(t.Body.Cbor())
	case *mary.MaryTransaction:
		return len(t.Body.Cbor())
	case *alonzo.AlonzoTransaction:
		return len(t.Body.Cbor())
	case *babbage.BabbageTransaction:
		return len(t.Body.Cbor())
	case *conway.ConwayTransaction:
		return len(t.Body.Cbor())
	}
	return -1
}

// ---------------------------------------------------------------- (F) full rule list

func runFull(c *core.Ctx, co *collector) {
	type variant struct {
		name string
		mk   func(e lg.Era) (*lg.World, *lg.TxSpec)
	}
	vs := []variant{
		{"payment", func(e lg.Era) (*lg.World, *lg.TxSpec) { w := lg.NewWorld(e); return w, w.Spec.Clone() }},
		{"two-outputs", func(e lg.Era) (*lg.World, *lg.TxSpec) {
			w := lg.NewWorld(e)
			s := w.Spec.Clone()
			s.Outputs = append(s.Outputs, w.PayerOutput(3_000_000))
			return w, s
		}},
		{"metadata", func(e lg.Era) (*lg.World, *lg.TxSpec) {
			w := lg.NewWorld(e)
			s := w.Spec.Clone()
			s.AuxData = cborx.M(cborx.U(1), cborx.S("c30"))
			return w, s
		}},
	}
	for _, e := range lg.AllEras {
		en := e.String()
		for _, v := range vs {
			for _, d := range []int64{-1, 0, 1} {
				w, s := v.mk(e)
				a, b := uint64(w.Params.MinFeeA), uint64(w.Params.MinFeeB)
				fee := uint64(200_000)
				var built *lg.Built
				size := 0
				ok := false
				for it := 0; it < 8; it++ {
					s.Fee = fee
					if err := w.Rebalance(s, 0, 0); err != nil {
						break
					}
					built = s.Build()
					size = len(built.Cbor)
					if e >= lg.Alonzo && e <= lg.Conway && len(built.Node.Items) == 4 {
						size--
					}
					want := refMin(a, b, size).Int64() + d
					if uint64(want) == fee {
						ok = true
						break
					}
					fee = uint64(want)
				}
				if !ok {
					c.Count("full_no_fixpoint_"+en, 1)
					continue
				}
				c.Eval()
				c.Distinct("F", en, v.name, d)
				o := w.Run(s, w.Slot)
				if o.DecodeErr != nil {
					c.Count("full_decode_rejected_"+en, 1)
					continue
				}
				want := refMin(a, b, size)
				if !o.Accepted {
					c.Count("full_reject_"+en, 1)
					if d >= 0 {
						c.Count("full_reject_sufficient_fee_"+en+":"+lg.ErrType(o.VerifyErr), 1)
					}
					continue
				}
				c.Count("full_accept_"+en, 1)
				if bigU(fee).Cmp(want) >= 0 {
					continue
				}
				sub := &subject{family: "standalone", era: e, source: "ledgergen:" + v.name, policy: "as-is", enc: "canonical", tx: o.Tx, size: size, origin: built.Cbor, fee: fee, detail: map[string]any{}}
				co.add(finding{key: "C30:full-list:" + en + ":accepted-below-min",
					what:    fmt.Sprintf("%s: the complete rule list accepts a transaction with fee %d < a*size+b = %s (size %d, a=%d b=%d)", en, fee, want, size, a, b),
					witness: sub.witness(map[string]any{"a": a, "b": b}), weight: [2]int{len(built.Cbor), 0}})
			}
		}
	}
}

// ---------------------------------------------------------------- (C) CalculateMinFee

func runCalc(c *core.Ctx, co *collector) {
	sizes := []int{0, 1, 2, 100, 16384, math.MaxInt32, 1 << 32, 1 << 62, math.MaxInt64}
	type cc struct {
		size int
		a, b uint64
	}
	var cases []cc
	for _, s := range sizes {
		for _, a := range gridAB {
			for _, b := range gridAB {
				cases = append(cases, cc{s, a, b})
			}
		}
	}
	r := c.Rand("calc")
	for i := 0; i < c.N(20000, 2_000_000); i++ {
		var x cc
		x.size = int(r.Uint64() >> uint(1+r.Intn(63)))
		x.a = r.Uint64() >> uint(r.Intn(64))
		x.b = r.Uint64() >> uint(r.Intn(64))
		if r.Chance(1, 3) && x.size > 0 {
			// hug the overflow boundary: a*size + b = 2^64 - 1 + {-1,0,1,2}
			x.a = uint64(math.MaxUint64) / uint64(x.size)
			rest := new(big.Int).Sub(two64, new(big.Int).Mul(bigU(x.a), big.NewInt(int64(x.size))))
			rest.Add(rest, big.NewInt(int64(r.Intn(4))-2))
			if rest.Sign() >= 0 && rest.IsUint64() {
				x.b = rest.Uint64()
			}
		}
		cases = append(cases, x)
	}
	for _, x := range cases {
		c.Eval()
		c.Distinct("C", x.size, x.a, x.b)
		want := refMin(x.a, x.b, x.size)
		v, err := common.CalculateMinFee(x.size, uint(x.a), uint(x.b))
		wit := map[string]any{"size": x.size, "a": x.a, "b": x.b, "reference": want.String(), "library_value": v, "library_error": fmt.Sprint(err)}
		switch {
		case want.Cmp(two64) >= 0 && err == nil:
			co.add(finding{key: "C30:overflow:CalculateMinFee:wrapped", what: fmt.Sprintf("CalculateMinFee(%d, %d, %d) = %d, nil although a*size+b = %s >= 2^64", x.size, x.a, x.b, v, want), witness: wit, weight: [2]int{bits(x.a) + bits(uint64(x.size)) + bits(x.b), 0}})
		case want.Cmp(two64) >= 0:
			c.Count("calc_overflow_error", 1)
		case err != nil:
			c.Count("calc_spurious_error", 1)
		case bigU(v).Cmp(want) < 0:
			co.add(finding{key: "C30:CalculateMinFee:below-reference", what: fmt.Sprintf("CalculateMinFee(%d, %d, %d) = %d < a*size+b = %s", x.size, x.a, x.b, v, want), witness: wit, weight: [2]int{bits(x.a) + bits(uint64(x.size)) + bits(x.b), 0}})
		case bigU(v).Cmp(want) == 0:
			c.Count("calc_exact", 1)
		default:
			c.Count("calc_above_reference", 1)
		}
	}
}

func bits(v uint64) int { return new(big.Int).SetUint64(v).BitLen() }

// ---------------------------------------------------------------- run

func run(c *core.Ctx) {
	lg.EnableChecks(c).Revalidations = 1
	co := &collector{m: map[string]*finding{}}
	bases := append(corpusBases(c), ledgergenBases()...)
	runStandalone(c, co, bases)
	runBlocks(c, co)
	runFull(c, co)
	runCalc(c, co)
	co.flush(c)

	// both outcomes of the implication must have been seen, per family and era
	for _, fam := range []string{"standalone", "block"} {
		for _, e := range lg.AllEras {
			if fam == "block" && e == lg.Dijkstra {
				continue // the corpus Dijkstra block has no transactions
			}
			tag := fam + ":" + e.String()
			if c.Counter("fee_rule_accept_"+tag) == 0 || c.Counter("fee_rule_reject_"+tag) == 0 {
				forceInconclusive(c, tag+": the fee rule was not observed with both outcomes")
			}
			if c.Counter("maxsize_accept_"+tag) == 0 || c.Counter("maxsize_reject_"+tag) == 0 {
				forceInconclusive(c, tag+": the max-size rule was not observed with both outcomes")
			}
		}
	}
	if c.Counter("calc_overflow_error") == 0 || c.Counter("calc_exact") == 0 {
		forceInconclusive(c, "CalculateMinFee was not observed with both an overflow error and an exact value")
	}
	var full int64
	for _, e := range lg.AllEras {
		full += c.Counter("full_accept_" + e.String())
	}
	if full == 0 {
		forceInconclusive(c, "the full rule list never accepted a transaction at fee >= min")
	}
}

func forceInconclusive(c *core.Ctx, what string) {
	n := int(c.Evals()/50) + 1
	for i := 0; i < n; i++ {
		c.Inconclusive(what)
	}
}
