//go:build only_c06

package mon

import _ "verifharness/mon/c06"
