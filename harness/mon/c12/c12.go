// Package c12 registers monitor C12 (outbound messages keep their order and
// drive the state machine in that order). The implementation lives in package
// mon/c16 (c12.go), next to the engine and target code it shares with C16.
package c12

import (
	"verifharness/core"
	"verifharness/mon/c16"
)

func init() {
	core.Register(&core.Monitor{
		ID:            "C12",
		Race:          true,
		Rule:          "per target (17 protocol/mode targets) 24 (quick) / 2000 (thorough) conforming conversations: a PRNG walk of 5..300 messages over the implementation's state map, run between two real engines (client role and server role, muxer to muxer over netsim, wire tap on both directions); one sending goroutine per endpoint; the pipelining side (client; server for tx-submission2 / message-submission; none for handshake) enqueues up to depth in {1,2,3,5,10,30,100} requests ahead of the replies, the other side sends when everything before a message was received, from its own goroutine or straight from its handler; three of four conversations with PRNG-chosen yields / sleeps at the protocol's verif points (send.afterDequeue, send.beforeSegment, read.beforeQueue, recv.beforeHandle). Plus per (target, role) 12 / 300 rejection cases: legal prefix of 0..6 steps, then the local side, holding agency, enqueues a message its state does not permit (0..2 more behind it). Before those, 36 / 600 histories run one after the other under GOMAXPROCS 1, 2, 4 (state shared between Protocol instances, per-P caches): 6..13 short-lived engines of random targets are stopped with a transition in flight - parked at their trans event (state loop has the request, requester still waiting) or at a verif point of the send / receive path, Stop(), requester gone, released - and then, on the same goroutine, fresh engines of the same and of another protocol must refuse a not permitted FIRST message without handing anything to the muxer / wire (4 engines) and carry one pipelined conforming conversation. A case is non-trivial when it ran to completion (all messages transitioned on both engines / the engine stopped); distinct by (target, conversation or script, depth, modes)",
		MinNontrivial: 500,
		RaceAnchors:   []string{"protocol.(*Protocol).sendLoop", "protocol.(*Protocol).stateLoop", "protocol.(*Protocol).enqueueMessage", "protocol.(*Protocol).transitionState", "protocol.(*Protocol).getCurrentState"},
		Assumptions: []string{
			"the implementation's own state map (VerifConfig of the live instances) defines a conforming conversation; equality with the specification is C16",
			"a message first seen at an enq event is outbound, its bytes are Message.Cbor() after SendMessage returned; the wire is what netsim's tap recorded, split into CBOR items by the independent parser",
			"pipelining = the side that opens request/reply cycles enqueues later requests before earlier replies arrived; the engine may write them before their state transition, which fires when agency returns",
			"a conversation that does not complete within the 60 s watchdog is inconclusive unless an engine reported an error",
		},
		QuickTimeout:    900,
		ThoroughTimeout: 3 * 3600,
		Run:             c16.RunC12,
	})
}
